import BtcwVerif.Model.AddrLock
-- engine: addrmgr-lock
import Driver.Proto
open Proto AddrLock

namespace EngAddrLock

structure DState where
  s  : State := {}
  hl : Bool := true     -- the hook lists the cached last-address buffers

def showErr : Err → String
  | .locked => "locked" | .watchingOnly => "watchingonly" | .wrongPassphrase => "wrongpassphrase"
  | .crypto => "crypto" | .accountNotFound => "accountnotfound" | .addressNotFound => "addressnotfound"
  | .duplicateAccount => "duplicateaccount" | .duplicateAddress => "duplicateaddress"
  | .invalidAccount => "invalidaccount" | .accountNotCached => "accountnotcached"
  | .notPrivExtKey => "notprivextkey" | .tooManyAddresses => "toomanyaddresses" | .database => "database"
  | .noManager => "nomanager" | .panic => "panic" | .noTx => "notx" | .txOpen => "txopen"
  | .alreadyExists => "alreadyexists" | .noExist => "noexist" | .scopeNotFound => "scopenotfound"
  | .notScript => "notscript" | .notPubKey => "notpubkey" | .blockNotFound => "blocknotfound"

def showKey : AKey → String
  | .chain a b i => s!"c:{a}:{b}:{i}"
  | .imp k => s!"i:{k}"
  | .scr k s => s!"s:{k}:{s}"

def parseKey (t : String) : Option AKey :=
  match t.splitOn ":" with
  | ["c", a, b, i] => do pure (.chain (← a.toNat?) (← b.toNat?) (← i.toNat?))
  | ["i", k] => do pure (.imp (← k.toNat?))
  | ["s", k, s] => do pure (.scr (← k.toNat?) (← s.toNat?))
  | _ => none

def showQ : QRes → String
  | .err e => s!"err {showErr e}"
  | .addr k a => s!"addr {showKey k} {a}"
  | .props n e i imp => s!"props {n} {e} {i} {imp}"
  | .acct n => s!"acct {n}"
  | .name s => s!"name {s}"
  | .used b => s!"used {if b then 1 else 0}"
  | .synced h x => s!"synced {h} {x}"
  | .hash n => s!"hash {n}"

def showRes : Res → String
  | .ok => "ok"
  | .err .panic => "panic"
  | .err e => s!"err {showErr e}"
  | .acct n => s!"acct {n}"
  | .keys l => "keys " ++ joinWith "," (l.map showKey)
  | .q r => showQ r

def showBuf : Buf → String
  | .nil => "nil" | .zero => "zero" | .nonzero => "nonzero"

def ct (b : Bool) : String := if b then "nonzero" else "nil"

def nat? (toks : List String) (k : String) : Option Nat := (kv toks k).bind String.toNat?
def bool? (toks : List String) (k : String) : Option Bool := (nat? toks k).map (· != 0)

/-- the buffer report, same shape as the Go runner's canonicalised `VerifBufferReport` -/
def bufs (hl : Bool) (m : Mem) : String :=
  let base := [s!"master={showBuf m.masterPriv}", s!"cpriv={showBuf m.cryptoPriv}",
               s!"cscript={showBuf m.cryptoScript}", s!"hashed={if m.hashed.isSome then "nonzero" else "zero"}"]
  let perScope := (List.range nScopes).flatMap fun sc =>
    let s := m.scopes sc
    let accts := s.acctInfo.flatMap fun (a, ai) =>
      [s!"s{sc}.acct{a}.priv={ct ai.keyPriv}"] ++
      (if hl then [s!"s{sc}.acct{a}.lastext={ct (m.heap ai.lastExt).ct}", s!"s{sc}.acct{a}.lastint={ct (m.heap ai.lastInt).ct}"]
       else [])
    let addrs := s.addrs.filterMap fun (k, id) =>
      let o := m.heap id
      let shown := match o.kind with
        | .managed => true | .script => true | .wscript sec => sec | .tscript sec => sec
      if shown then some s!"s{sc}.addr.{showKey k}.ct={ct o.ct}" else none
    let pkc := s.pkc.map fun p => s!"s{sc}.pkc.{p.acct}/{p.br}/{p.idx}=nonzero"
    accts ++ addrs ++ pkc ++ [s!"s{sc}.dou={s.dou.length}"]
  let all := (base ++ perScope).toArray.qsort (· < ·)
  joinWith " " all.toList

def parseQuery (cmd : String) (t : List String) : Option Query :=
  match cmd with
  | "q.address" => do pure (.address (← nat? t "sc") (← (kv t "key").bind parseKey))
  | "q.props" => do pure (.props (← nat? t "sc") (← nat? t "acct"))
  | "q.last" => do pure (.lastAddr (← nat? t "sc") (← nat? t "acct") (← bool? t "int"))
  | "q.lookup" => do pure (.lookup (← nat? t "sc") (← kv t "name"))
  | "q.name" => do pure (.acctName (← nat? t "sc") (← nat? t "acct"))
  | "q.used" => do pure (.used (← nat? t "sc") (← (kv t "key").bind parseKey))
  | "q.synced" => some .syncedTo
  | "q.hash" => do pure (.blockHash (← nat? t "h"))
  | _ => none

def parseOp (cmd : String) (t : List String) : Option Op :=
  match cmd with
  | "reopen" => do pure (.reopen (← nat? t "pub"))
  | "unlock" => do pure (.unlock (← nat? t "p"))
  | "lock" => some .lock
  | "chpass" => do pure (.changePass (← nat? t "old") (← nat? t "new") (← bool? t "priv"))
  | "convertwo" => some .convertWO
  | "newacct" => do pure (.newAccount (← nat? t "sc") ((kv t "name").getD "") (← bool? t "wo"))
  | "rename" => do pure (.rename (← nat? t "sc") (← nat? t "acct") ((kv t "name").getD ""))
  | "next" => do
    let n ← nat? t "n"
    if n = 0 then none else pure (.next (← nat? t "sc") (← nat? t "acct") n (← bool? t "int"))
  | "extend" => do pure (.extend (← nat? t "sc") (← nat? t "acct") (← nat? t "last") (← bool? t "int"))
  | "impkey" => do pure (.importKey (← nat? t "sc") (← nat? t "k") (← bool? t "priv"))
  | "impscript" => do
    let kind ← nat? t "kind"
    if kind > 2 then none else pure (.importScript (← nat? t "sc") kind (← nat? t "sid") (← bool? t "secret"))
  | "markused" => do pure (.markUsed (← nat? t "sc") (← (kv t "key").bind parseKey))
  | "setsynced" => do pure (.setSynced (← nat? t "h") (← nat? t "hash"))
  | "setbirthday" => some .setBirthday
  | "privkey" => do pure (.privKey (← nat? t "sc") (← (kv t "key").bind parseKey))
  | "lastprivkey" => do pure (.lastPrivKey (← nat? t "sc") (← nat? t "acct") (← bool? t "int"))
  | "script" => do pure (.script (← nat? t "sc") (← (kv t "key").bind parseKey))
  | "crypt" => do
    let kt ← nat? t "kt"
    if kt > 2 then none else pure (.crypt kt)
  | "derive" => do pure (.derive (← nat? t "sc") (← nat? t "acct") (← nat? t "br") (← nat? t "idx"))
  | "dcache" => do pure (.deriveCache (← nat? t "sc") (← nat? t "acct") (← nat? t "br") (← nat? t "idx"))
  | "begin" => some .begin
  | "commit" => some .commit
  | "rollback" => some .rollback
  | "commitfail" => some .rollback
  | _ => (parseQuery cmd t).map .q

/-- scope-tagged key list `0/c:0:0:1,1/i:3` -/
def parseSKeys (s : String) : Option (List (Nat × AKey)) :=
  (csv s).mapM fun t =>
    match t.splitOn "/" with
    | [sc, k] => do pure ((← sc.toNat?), (← parseKey k))
    | _ => none

def parseSNats (s : String) : Option (List (Nat × Nat)) :=
  (csv s).mapM fun t =>
    match t.splitOn "/" with
    | [sc, k] => do pure ((← sc.toNat?), (← k.toNat?))
    | _ => none

def parseSNames (s : String) : Option (List (Nat × String)) :=
  (csv s).mapM fun t =>
    match t.splitOn "/" with
    | [sc, k] => do pure ((← sc.toNat?), k)
    | _ => none

def showQuery : Query → String
  | .address sc k => s!"address:{sc}/{showKey k}"
  | .props sc a => s!"props:{sc}/{a}"
  | .lastAddr sc a i => s!"last:{sc}/{a}/{if i then 1 else 0}"
  | .lookup sc n => s!"lookup:{sc}/{n}"
  | .acctName sc a => s!"name:{sc}/{a}"
  | .used sc k => s!"used:{sc}/{showKey k}"
  | .syncedTo => "synced"
  | .blockHash h => s!"hash:{h}"

/-- all queries of the universe, in the order the Go runner issues them -/
def qUniverse (accts : List (Nat × Nat)) (names : List (Nat × String)) (keys : List (Nat × AKey)) (hs : List Nat) :
    List Query :=
  keys.map (fun (sc, k) => Query.address sc k) ++
  accts.flatMap (fun (sc, a) => [Query.props sc a, .lastAddr sc a false, .lastAddr sc a true, .acctName sc a]) ++
  names.map (fun (sc, n) => Query.lookup sc n) ++
  keys.map (fun (sc, k) => Query.used sc k) ++
  [Query.syncedTo] ++ hs.map Query.blockHash

/-- issue every query to the running manager and to a freshly opened one; list those that differ -/
def cmpq (d : Disk) (m : Mem) (qs : List Query) : Mem × List String :=
  let r := qs.foldl (fun (acc : Mem × Mem × List String) q =>
    let a1 := query d acc.1 q
    let a2 := query d acc.2.1 q
    (a1.1, a2.1, if a1.2 = a2.2 then acc.2.2 else acc.2.2 ++ [showQuery q])) (m, openMem d, [])
  (r.1, r.2.2)

def step (ds : DState) (line : String) : DState × String :=
  let t := words line
  match t with
  | [] => (ds, "bad-op")
  | cmd :: rest =>
    if cmd == "create" then
      match nat? rest "pub", nat? rest "priv", bool? rest "f1", bool? rest "f2", bool? rest "f2b", bool? rest "f3",
            bool? rest "f11", bool? rest "f12", bool? rest "hl", bool? rest "f13", bool? rest "fo1" with
      | some pub, some priv, some f1, some f2, some f2b, some f3, some f11, some f12, some hl, some f13, some fo1 =>
        let s0 : State := { cfg := ⟨f1, f2, f2b, f3, f11, f12, f13, fo1, 10000⟩ }
        let r := AddrLock.step s0 (.create pub priv)
        ({ s := r.1, hl := hl }, showRes r.2)
      | _, _, _, _, _, _, _, _, _, _, _ => (ds, "bad-op")
    else if cmd == "bufs" then
      match ds.s.mem with
      | none => (ds, "err nomanager")
      | some m => (ds, bufs ds.hl m)
    else if cmd == "cmpq" then
      match ds.s.mem, ds.s.snap with
      | none, _ => (ds, "err nomanager")
      | some _, some _ => (ds, "err txopen")
      | some m, none =>
        match parseSNats ((kv rest "accts").getD ""), parseSNames ((kv rest "names").getD ""),
              parseSKeys ((kv rest "keys").getD ""), natList? ((kv rest "hs").getD "") with
        | some accts, some names, some keys, some hs =>
          let r := cmpq ds.s.disk m (qUniverse accts names keys hs)
          ({ ds with s := { ds.s with mem := some r.1 } },
           if r.2.isEmpty then "same" else "diff " ++ joinWith "," r.2)
        | _, _, _, _ => (ds, "bad-op")
    else if cmd == "nextcmp" then
      match ds.s.mem, ds.s.snap, nat? rest "sc", nat? rest "acct", bool? rest "int" with
      | some _, none, some sc, some acct, some int =>
        let a2 := (nextAddresses ds.s.disk (openMem ds.s.disk) sc acct 1 int).res
        let r := AddrLock.step ds.s (.next sc acct 1 int)
        let show2 := match a2 with
          | .ok l => "keys " ++ joinWith "," (l.map showKey)
          | .error e => s!"err {showErr e}"
        ({ ds with s := r.1 }, s!"run={showRes r.2} fresh={show2}")
      | none, _, _, _, _ => (ds, "err nomanager")
      | some _, some _, _, _, _ => (ds, "err txopen")
      | _, _, _, _, _ => (ds, "bad-op")
    else
      match parseOp cmd rest with
      | none => (ds, "bad-op")
      | some op =>
        -- harness guard: `newacct … expect=n` is only executed when the next account number is n
        -- (the key material of an account is a function of its number, chosen by the generator)
        let skip := match op, nat? rest "expect" with
          | .newAccount sc _ _, some n => (ds.s.disk.scopes sc).lastAcct + 1 != n
          | _, _ => false
        if skip then (ds, "skipped") else
        let r := AddrLock.step ds.s op
        ({ ds with s := r.1 }, showRes r.2)

def run (i o : IO.FS.Stream) : IO Unit := loop i o ({} : DState) step

end EngAddrLock
