import BtcwVerif.Model.CoinSelect
-- engine: walletchain-tx
import BtcwVerif.Model.Publish
import Driver.Proto
/-!
Driver for engine `walletchain-tx` (C06, C20).  It keeps a small *ledger* of what the harness told the wallet
(transactions with inputs / credited outputs / block height, user locks, leases, clock, the wallet's height and the
backend's tip) — the history in the words of the properties — and answers every `create` through
`CoinSelect.createTx` on the view derived from the ledger and every `publish` / `resync` through `Publish.publish` /
`Publish.resend` on the store derived from the ledger.
-/
open Proto

namespace EngWalletTx

abbrev OutPoint := Nat × Nat

structure LCoin where
  idx : Nat            -- output ordinal; 999 = change ("c")
  amount : Int
  kind : CoinSelect.Kind
  acct : Nat
  script : CoinSelect.Kind

structure LTx where
  id : Nat
  ins : List OutPoint
  coins : List LCoin
  height : Option Int
  coinbase : Bool
  known : Bool
  created : Bool

structure Lease where
  op : OutPoint
  id : Nat
  expiry : Int

structure L where
  txs : List LTx := []
  locks : List OutPoint := []
  leases : List Lease := []
  now : Int := 1000
  wHeight : Int := 5
  tip : Int := 5
  started : Bool := false
  /-- the wallet's address manager is locked (`wlock`, an expired unlock timeout, an `Unlock` with a wrong passphrase) -/
  locked : Bool := false
  /-- an unlock timeout is armed in `walletLocker` -/
  timed : Bool := false

def baseHeight : Int := 5
def maturity : Int := 100

/-! ### parsing -/

def parseTx (s : String) : Option Nat :=
  if s.startsWith "T" then (s.drop 1).toString.toNat? else none

def parseOp (s : String) : Option OutPoint :=
  match s.splitOn ":" with
  | [t, i] => do
    let t ← parseTx t
    if i == "c" then pure (t, 999) else do
      let i ← i.toNat?
      pure (t, i)
  | _ => none

def parseKind : String → Option CoinSelect.Kind
  | "pkh" => some .p2pkh
  | "np" => some .np2wkh
  | "wpkh" => some .p2wkh
  | "tr" => some .p2tr
  | _ => none

def kindScriptLen : CoinSelect.Kind → Nat
  | .p2pkh => 25 | .np2wkh => 23 | .p2wkh => 22 | .p2tr => 34

def kindWitness : CoinSelect.Kind → Bool
  | .p2wkh => true | .p2tr => true | _ => false

structure OutSpec where
  kind : CoinSelect.Kind
  acct : Nat
  amount : Int
  own : Bool

def parseOut (s : String) : Option OutSpec :=
  match s.splitOn ":" with
  | [k, a, v] => do
    let k ← parseKind k
    let a ← a.toNat?
    let v ← v.toNat?
    if a > 1 then none else pure ⟨k, a, v, true⟩
  | [k, v] => do
    if !k.startsWith "x" then none else
    let k ← parseKind (k.drop 1).toString
    let v ← v.toNat?
    pure ⟨k, 0, v, false⟩
  | _ => none

def parseOuts (s : String) : Option (List OutSpec) := (csv s).mapM parseOut

def showOp (op : OutPoint) : String :=
  s!"T{op.1}:" ++ (if op.2 == 999 then "c" else toString op.2)

def insertStr (s : String) : List String → List String
  | [] => [s]
  | t :: ts => if s < t then s :: t :: ts else t :: insertStr s ts

def sortStrs (l : List String) : List String := l.foldr insertStr []

/-! ### ledger → view / store -/

def L.knownTxs (l : L) : List LTx := l.txs.filter (·.known)

def L.spentByKnown (l : L) (op : OutPoint) : Bool := l.knownTxs.any fun t => t.ins.contains op

def L.spentByMined (l : L) (op : OutPoint) : Bool := l.knownTxs.any fun t => t.height.isSome && t.ins.contains op

def L.activeLease (l : L) (op : OutPoint) : Option Lease :=
  l.leases.find? fun x => x.op == op && l.now < x.expiry

def L.view (l : L) : CoinSelect.View :=
  { now := l.now, maturity := maturity,
    coins := l.knownTxs.flatMap fun t => t.coins.map fun c =>
      { op := (t.id, c.idx), amount := c.amount, account := c.acct, kind := c.kind, script := c.script, addrKnown := true,
        height := t.height.getD (-1), coinbase := t.coinbase, spentByKnown := l.spentByKnown (t.id, c.idx),
        userLocked := l.locks.contains (t.id, c.idx),
        leasedUntil := (l.leases.find? fun x => x.op == (t.id, c.idx)).map (·.expiry) } }

def LTx.toU (t : LTx) : Publish.UTx := { id := t.id, ins := t.ins, credits := t.coins.map fun c => (c.idx, c.amount) }

def L.store (l : L) : Publish.Store :=
  { minedIds := (l.knownTxs.filter (·.height.isSome)).map (·.id),
    unmined := (l.knownTxs.filter (·.height.isNone)).map LTx.toU }

/-- Bring the ledger in line with the store after a `Publish` step: unconfirmed transactions that are gone are no
longer known; `cand` (if recorded) becomes known. -/
def L.applyStore (l : L) (s : Publish.Store) (cand : Option LTx) : L :=
  let has := fun (id : Nat) => s.unmined.any (·.id == id)
  let txs := l.txs.map fun t =>
    if t.known && t.height.isNone && !has t.id then { t with known := false }
    else if !t.known && t.height.isNone && has t.id then { t with known := true }
    else t
  let txs := match cand with
    | some c => if has c.id && !(txs.any (·.id == c.id)) then txs ++ [{ c with known := true }]
                else if !(txs.any (·.id == c.id)) then txs ++ [{ c with known := false }] else txs
    | none => txs
  { l with txs := txs }

def L.forget (l : L) (id : Nat) : L :=
  l.applyStore (Publish.removeWithDescendants l.store id) none

def L.findTx (l : L) (id : Nat) : Option LTx := l.txs.find? (·.id == id)

def L.coinExists (l : L) (op : OutPoint) : Bool :=
  l.knownTxs.any fun t => t.id == op.1 && t.coins.any (·.idx == op.2)

/-! ### observables -/

def L.balance (l : L) (minconf : Int) : Int :=
  (l.knownTxs.flatMap fun t => t.coins.filterMap fun c =>
    let op := (t.id, c.idx)
    if l.spentByKnown op || (l.activeLease op).isSome then none else
    match t.height with
    | none => if minconf == 0 then some c.amount else none
    | some h =>
      let confs := l.wHeight - h + 1
      if confs < minconf || (t.coinbase && confs < maturity) then none else some c.amount).sum

def L.utxos (l : L) : List String :=
  sortStrs (l.knownTxs.flatMap fun t => t.coins.filterMap fun c =>
    let op := (t.id, c.idx)
    if l.spentByKnown op || (l.activeLease op).isSome then none else some s!"{showOp op}:{c.amount}")

def L.unminedNames (l : L) : List String :=
  sortStrs ((l.knownTxs.filter (·.height.isNone)).map fun t => s!"T{t.id}")

def L.stateLine (l : L) : String :=
  s!"h={l.wHeight} tip={l.tip} bal0={l.balance 0} bal1={l.balance 1} bal2={l.balance 2} bal6={l.balance 6} " ++
  s!"bal100={l.balance 100} utxos={joinWith "," l.utxos} unmined={joinWith "," l.unminedNames}"

/-! ### answers -/

def decodeText (s : String) : String := s.replace "+" " "

/-- `ok` | `b:<raw bitcoind text>` | `n:<raw btcd/neutrino text>` -/
def parseAnswer (spec : String) : Option Publish.Answer :=
  if spec == "" || spec == "ok" then some .accepted
  else if spec.startsWith "b:" then some (.ofClass (Publish.classify .bitcoind (decodeText (spec.drop 2).toString)))
  else if spec.startsWith "n:" then some (.ofClass (Publish.classify .btcd (decodeText (spec.drop 2).toString)))
  else none

def parseAnswers (s : String) : Option (List (Nat × Publish.Answer)) :=
  if s.isEmpty then some [] else
  (s.splitOn ";").mapM fun t =>
    match t.splitOn "@" with
    | [n, a] => do
      let n ← parseTx n
      let a ← parseAnswer a
      pure (n, a)
    | _ => none

/-! ### ops -/

def L.flush (l : L) : L := { l with wHeight := l.tip }

def mkCoins (specs : List OutSpec) : List LCoin :=
  (specs.zipIdx.filter (·.1.own)).map fun (s, i) => { idx := i, amount := s.amount, kind := s.kind, acct := s.acct, script := s.kind }

def opRecv (l : L) (t : List String) : L × String :=
  match (kv t "tx").bind parseTx, (kv t "outs").bind parseOuts with
  | some id, some specs =>
    if (l.findTx id).isSome then (l, "bad-op") else
    match ((kv t "ins").getD "" |> csv).mapM parseOp with
    | none => (l, "bad-op")
    | some ins =>
      -- a fake foreign input when none is given: an outpoint nobody else refers to
      let ins := if ins.isEmpty then [(1000000 + id, 0)] else ins
      let tx : LTx := { id, ins, coins := mkCoins specs, height := none, coinbase := false, known := true, created := false }
      ({ l with txs := l.txs ++ [tx] }, "ok")
  | _, _ => (l, "bad-op")

/-- confirm `t` at height `h`: leases on its inputs end, unconfirmed double spends are forgotten. -/
def L.confirm (l : L) (id : Nat) (h : Int) : L :=
  match l.findTx id with
  | none => l
  | some t =>
    let l : L := { l with txs := l.txs.map fun (x : LTx) => if x.id == id then { x with height := some h, known := true } else x,
                          leases := l.leases.filter fun (x : Lease) => !t.ins.contains x.op }
    let conflicts := (l.knownTxs.filter fun (o : LTx) => o.height.isNone && o.id != id && o.ins.any (t.ins.contains ·)).map (·.id)
    conflicts.foldl (fun l c => l.forget c) l

def opBlock (l : L) (t : List String) : L × String :=
  match ((kv t "txs").getD "" |> csv).mapM parseTx with
  | none => (l, "bad-op")
  | some ids =>
    -- unknown or already confirmed names are skipped
    let ids := ids.filter fun i => match l.findTx i with
      | some x => x.height.isNone && !x.coinbase
      | none => false
    let cb : Option (Option LTx) := match kv t "cb" with
      | none => some none
      | some s => match s.splitOn ":" with
        | n :: rest => match parseTx n, parseOuts (":".intercalate rest) with
          | some id, some [spec] =>
            if (l.findTx id).isSome || !spec.own then none
            else some (some { id, ins := [(2000000 + id, 0)], coins := mkCoins [spec], height := none, coinbase := true,
                              known := false, created := false })
          | _, _ => none
        | _ => none
    match cb with
    | none => (l, "bad-op")
    | some cb =>
      let l := l.flush
      let h := l.tip + 1
      let l := { l with tip := h, wHeight := h }
      let l := match cb with
        | some c => { l with txs := l.txs ++ [c] }
        | none => l
      let all := (match cb with | some c => [c.id] | none => []) ++ ids
      let l := all.foldl (fun l i => l.confirm i h) l
      (l, s!"ok h={h}")

def opReorg (l : L) (t : List String) : L × String :=
  let l := l.flush
  match (kv t "depth").bind String.toNat? with
  | none => (l, "bad-op")
  | some d =>
    if d < 1 || l.wHeight - d < baseHeight then (l, "bad-op") else
    let newTip := l.wHeight - d
    let gone := (l.knownTxs.filter fun x => match x.height with | some h => h > newTip | none => false)
    let l := { l with txs := l.txs.map fun x =>
                  if x.known && (match x.height with | some h => h > newTip | none => false) then { x with height := none } else x,
                      tip := newTip, wHeight := newTip }
    let l := (gone.filter (·.coinbase)).foldl (fun l c => l.forget c.id) l
    (l, s!"ok h={newTip}")

def opLease (l : L) (rel : Bool) (t : List String) : L × String :=
  match (kv t "op").bind parseOp, (kv t "id").bind String.toNat? with
  | some op, some id =>
    if id > 255 then (l, "bad-op") else
    let known := l.coinExists op && !l.spentByMined op
    if rel then
      if !known then (l, "err=unknown-output") else
      match l.activeLease op with
      | none => (l, "ok")
      | some x => if x.id != id then (l, "err=unlock-not-allowed")
                  else ({ l with leases := l.leases.filter (·.op != op) }, "ok")
    else
      match (kv t "dur").bind String.toNat? with
      | none => (l, "bad-op")
      | some dur =>
        if dur < 1 then (l, "bad-op") else
        if !known then (l, "err=unknown-output") else
        match l.activeLease op with
        | some x => if x.id != id then (l, "err=already-locked")
                    else ({ l with leases := (l.leases.filter (·.op != op)) ++ [⟨op, id, l.now + dur⟩] }, "ok")
        | none => ({ l with leases := (l.leases.filter (·.op != op)) ++ [⟨op, id, l.now + dur⟩] }, "ok")
  | _, _ => (l, "bad-op")

def showErr : CoinSelect.Err → String
  | .insufficient => "insufficient"
  | .notEligible _ => "not-eligible"
  | .duplicateSelected _ => "duplicate-selected"
  | .locked => "locked"

def opCreate (l : L) (t : List String) : L × String :=
  let g := fun k => (kv t k).getD ""
  match parseTx (g "name"), (g "acct").toNat?, (g "minconf").toNat?, (g "rate").toNat?, parseOuts (g "outs"),
        (csv (g "sel")).mapM parseOp with
  | some id, some acct, some minconf, some rate, some specs, some sel =>
    let api := g "api"
    let scope? : Option (Option CoinSelect.Kind) := if g "scope" == "any" then some none else (parseKind (g "scope")).map some
    let chg? : Option (Option CoinSelect.Kind) := if g "chg" == "same" then some none else (parseKind (g "chg")).map some
    let strat? : Option CoinSelect.Strategy :=
      if g "strat" == "largest" then some .largest else if g "strat" == "random" then some (.random []) else none
    let allowSpec := g "allow"
    let allow? : Option (CoinSelect.Coin → Bool) :=
      if allowSpec == "all" || allowSpec == "" then some fun _ => true
      else if allowSpec.startsWith "min:" then (allowSpec.drop 4).toString.toNat?.map fun v => fun c => c.amount ≥ (v : Int)
      else if allowSpec.startsWith "max:" then (allowSpec.drop 4).toString.toNat?.map fun v => fun c => c.amount ≤ (v : Int)
      else none
    let ans? := parseAnswer (g "ans")
    match scope?, chg?, strat?, allow?, ans? with
    | some scope, some chg, some strat, some allow, some ans =>
      if acct > 1 || specs.isEmpty || (l.findTx id).isSome || !(["simple", "dry", "psbt", "send"].contains api) then (l, "bad-op") else
      if api == "send" && (chg.isSome || !(allowSpec == "all" || allowSpec == "")) then (l, "bad-op") else
      let chgKind : CoinSelect.Kind := match chg with
        | some k => k
        | none => scope.getD .p2tr
      -- waddrmgr.ScopeAddrMap: the internal (change) address type of BIP49+ is P2WPKH
      let chgScript : CoinSelect.Kind := if chgKind == .np2wkh then .p2wkh else chgKind
      -- sendOutputs / FundPsbt: txrules.CheckOutput on every requested output first
      if (api == "send" || api == "psbt") &&
          specs.any (fun s => CoinSelect.isDust s.amount (kindScriptLen s.kind) (kindWitness s.kind)) then (l, "err=dust-output") else
      let req : CoinSelect.Request :=
        { account := acct, scope, minconf, tip := l.tip,
          outputs := specs.map fun s => ⟨s.amount, kindScriptLen s.kind⟩,
          feeRate := rate, strategy := strat, selected := sel, allow,
          changeScriptLen := kindScriptLen chgScript, changeWitness := kindWitness chgScript }
      -- no watch-only wallet / account is generated by this engine
      let ls : CoinSelect.LockState := { locked := l.locked, managerWatchOnly := false, acctHasPriv := true }
      let isRand := (match strat with | .random _ => true | _ => false) && sel.isEmpty
      if isRand && l.locked then (l, "err=locked") else
      if isRand then
        -- the shuffle is unknown to the driver: answer only what holds for every shuffle (the generator keeps such
        -- requests away from the boundary): success iff all positively yielding eligible coins together suffice.
        let E := CoinSelect.findEligibleOutputs l.view req
        let py := E.filter (CoinSelect.inputYieldsPositively · rate)
        let need := CoinSelect.sumOutputs req.outputs + CoinSelect.feeOfInputs req py
        if CoinSelect.total py < need then (l, "err=insufficient") else
        if api == "send" then
          let ans := if (g "notify") == "fail" then Publish.Answer.notifyFailed else ans
          let sent := s!" sent={Publish.sendCount (Publish.publishEffects ans)}"
          if ans == .accepted || ans == .inMempool || ans == .alreadyKnown || ans == .alreadyConfirmed then
            (l, "ok rand pub=ok" ++ sent)
          else (l, "err=publish" ++ sent)
        else (l, "ok rand")
      else
      match CoinSelect.txCreator ls l.view req with
      | .error e => (l, "err=" ++ showErr e)
      | .ok a =>
        let coins := mkCoins specs ++ (match a.change with
          | some v => [{ idx := 999, amount := v, kind := chgKind, acct := acct, script := chgScript }]
          | none => [])
        let tx : LTx := { id, ins := a.ins.map (·.op), coins, height := none, coinbase := false, known := false, created := true }
        let insNames := a.ins.map (showOp ·.op)
        let insNames := if api == "psbt" then sortStrs insNames else insNames   -- FundPsbt sorts the packet (BIP69)
        let reply := "ok ins=" ++ joinWith "," insNames ++ " change=" ++
          (match a.change with | some v => toString v | none => "none")
        if api == "simple" then ({ l with txs := l.txs ++ [tx] }, reply)
        else if api == "send" then
          let ans := if (g "notify") == "fail" then Publish.Answer.notifyFailed else ans
          let (s', ok) := Publish.publish l.store tx.toU ans
          let sent := s!" sent={Publish.sendCount (Publish.publishEffects ans)}"
          if ok then (l.applyStore s' (some tx), reply ++ " pub=ok" ++ sent)
          else (l.applyStore s' none, "err=publish" ++ sent)
        else (l, reply)
    | _, _, _, _, _ => (l, "bad-op")
  | _, _, _, _, _, _ => (l, "bad-op")

/-- cross-check of the two formulations of `removeConflict` on a concrete store -/
def dfsAgrees (s : Publish.Store) (id : Nat) : Bool :=
  (Publish.removeConflictDFS (s.unmined.length + 1) s id).unmined == (Publish.removeWithDescendants s id).unmined

def opPublish (l : L) (t : List String) : L × String :=
  match (kv t "name").bind parseTx, parseAnswer ((kv t "ans").getD "") with
  | some id, some ans =>
    match l.findTx id with
    | none => (l, "bad-op")
    | some tx =>
      let ans := if (kv t "notify") == some "fail" then Publish.Answer.notifyFailed else ans
      if !dfsAgrees (Publish.insert l.store tx.toU) id then (l, "model-mismatch removeConflict") else
      let (s', ok) := Publish.publish l.store tx.toU ans
      (l.applyStore s' none, (if ok then "ok" else "err") ++ s!" sent={Publish.sendCount (Publish.publishEffects ans)}")
  | _, _ => (l, "bad-op")

def opResync (l : L) (restart : Bool) (t : List String) : L × String :=
  match parseAnswers ((kv t "ans").getD "") with
  | none => (l, "bad-op")
  | some answers =>
    let f := fun (id : Nat) => (answers.lookup id).getD .accepted
    if !(l.store.unmined.all fun u => dfsAgrees l.store u.id) then (l, "model-mismatch removeConflict") else
    let twice := (kv t "twice") == some "1"
    if twice && restart then (l, "bad-op") else
    let (s', sent) :=
      if twice then
        let r := Publish.resendTwice l.store f
        (r.1, r.2.1 ++ r.2.2)
      else Publish.resend l.store f
    let l := l.applyStore s' none
    -- a freshly opened wallet is unlocked (without timeout) by the harness
    let l := { l with wHeight := l.tip, locks := if restart then [] else l.locks,
                      locked := if restart then false else l.locked, timed := if restart then false else l.timed }
    (l, "ok offered=" ++ joinWith "," (sortStrs (sent.map fun i => s!"T{i}")))

def step (l : L) (line : String) : L × String :=
  let t := words line
  match t with
  | ["reset"] => ({ started := true }, "ok")
  | op :: rest =>
    if !l.started then (l, "bad-op") else
    match op with
    | "recv" => opRecv l rest
    | "block" => opBlock l rest
    | "tipahead" =>
      match (kv rest "n").bind String.toNat? with
      | some n => if n < 1 || n > 400 then (l, "bad-op") else ({ l with tip := l.tip + n }, s!"ok tip={l.tip + n}")
      | none => (l, "bad-op")
    | "flush" => (l.flush, s!"ok h={l.tip}")
    | "reorg" => opReorg l rest
    | "lock" =>
      match (kv rest "op").bind parseOp with
      | some o => ({ l with locks := o :: l.locks.filter (· != o) }, "ok")
      | none => (l, "ok")
    | "unlock" =>
      match (kv rest "op").bind parseOp with
      | some o => ({ l with locks := l.locks.filter (· != o) }, "ok")
      | none => (l, "ok")
    | "lease" => opLease l false rest
    | "release" => opLease l true rest
    | "clock" =>
      match (kv rest "adv").bind String.toNat? with
      | some n => ({ l with now := l.now + n }, s!"ok now={l.now + n}")
      | none => (l, "bad-op")
    | "wlock" => ({ l with locked := true, timed := false }, "ok locked=true")
    | "wunlock" =>
      -- a wrong passphrase locks the manager (`Manager.Unlock`) and leaves an armed timeout alone
      if (kv rest "pass") == some "bad" then ({ l with locked := true }, "err=wrong-passphrase locked=true")
      else ({ l with locked := false, timed := (kv rest "timed") == some "1" }, "ok locked=false")
    | "wexpire" =>
      let l := if l.timed then { l with locked := true, timed := false } else l
      (l, s!"ok locked={l.locked}")
    | "create" => opCreate l rest
    | "publish" => opPublish l rest
    | "resync" => opResync l false rest
    | "restart" => opResync l true rest
    | "state" => (l, l.stateLine)
    | _ => (l, "bad-op")
  | [] => (l, "bad-op")

def run (i o : IO.FS.Stream) : IO Unit := loop i o ({} : L) step

end EngWalletTx
