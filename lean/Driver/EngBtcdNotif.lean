import BtcwVerif.Model.NotifLoop
-- engine: btcdnotif
import BtcwVerif.Gen.NotifLoopGen
import Driver.Proto
open Proto NotifLoop

/-! Driver engine `btcdnotif` (C18): the `NotifLoop` model under the table REGENERATED from chain/btcd.go
`(*RPCClient).handler`, stepwise (the harness is the only producer and consumer).
Ops: `new` · `push <h>` · `burst <h> <k>` · `recv` · `stop`. -/
namespace EngBtcdNotif

abbrev St := Option (State Nat)

def tbl : Table := NotifLoopGen.btcd

def push (s : State Nat) (h : Nat) : State Nat :=
  if s.exited then s else (NotifLoop.step tbl s (.recvEnqueue h)).getD s

def step (st : St) (line : String) : St × String :=
  match words line, st with
  | ["new"], _ => (some (init Nat), "ok")
  | ["push", h], some s =>
    match h.toNat? with
    | some h => if h == 0 then (st, "bad-op") else (some (push s h), "ok")
    | none => (st, "bad-op")
  | ["burst", h, k], some s =>
    match h.toNat?, k.toNat? with
    | some h, some k =>
      if h == 0 || k == 0 then (st, "bad-op")
      else (some ((List.range k).foldl (fun s i => push s (h + i)) s), "ok")
    | _, _ => (st, "bad-op")
  | ["recv"], some s =>
    if s.exited then (st, "closed")
    else match NotifLoop.step tbl s .sendDequeue with
      | some s' => (some s', match s.next with | some v => s!"got {v}" | none => "got other")
      | none => (st, "empty")
  | ["stop"], some s =>
    if s.exited then (st, "stopped exited=1")
    else
      let s1 := (NotifLoop.step tbl s .stop).getD s
      -- nobody is receiving and nobody is sending: `<-c.quit` is the only ready clause
      match NotifLoop.step tbl s1 .quit with
      | some s2 => (some s2, "stopped exited=1")
      | none => (some s1, "stopped exited=0")
  | _, _ => (st, "bad-op")

def run (i o : IO.FS.Stream) : IO Unit := loop i o none step

end EngBtcdNotif
