import BtcwVerif.Model.KV
-- engine: kv
import Driver.Proto
open Proto KV

/-! Line protocol of engine `kv` (C11).  Bytes tokens: `-` = empty, else parts joined by `.`, each part hex or
`<hh>*<count>` (a repeated byte).  Paths: `/` = root, else bucket names joined by `/`.

  cbatch P k:v:ok|err|panic,... (concurrent walletdb.Batch callers, distinct keys)
  reset | update | view | batch | beginrw | beginro | end ok|err|panic | drop | reopen | dump
  put P K V | get P K | del P K | mk P N | mkif P N | rmb P N | nb P N | each P [limit]
  seq P | setseq P n | nextseq P | copen c P | cfirst c | clast c | cnext c | cprev c | cseek c K | cdel c
  commit | rollback | oncommit
-/
namespace EngKV

def hexVal (c : Char) : Option Nat :=
  if '0' ≤ c ∧ c ≤ '9' then some (c.toNat - '0'.toNat)
  else if 'a' ≤ c ∧ c ≤ 'f' then some (c.toNat - 'a'.toNat + 10)
  else none

def hexDecode : List Char → Option Bytes
  | [] => some []
  | [_] => none
  | a :: b :: rest => do
    let x ← hexVal a
    let y ← hexVal b
    let r ← hexDecode rest
    pure (UInt8.ofNat (x * 16 + y) :: r)

def parsePart (s : String) : Option Bytes :=
  match s.splitOn "*" with
  | [h] => hexDecode h.toList
  | [h, n] => do
    let b ← hexDecode h.toList
    let n ← n.toNat?
    match b with
    | [x] => pure (List.replicate n x)
    | _ => none
  | _ => none

def parseBytes (s : String) : Option Bytes :=
  if s == "-" then some []
  else if s.isEmpty then none
  else do
    let parts ← (s.splitOn ".").mapM parsePart
    pure parts.flatten

def parsePath (s : String) : Option Path :=
  if s == "/" then some []
  else if s.isEmpty then none
  else (s.splitOn "/").mapM parseBytes

def hexDigit (n : Nat) : Char :=
  if n < 10 then Char.ofNat ('0'.toNat + n) else Char.ofNat ('a'.toNat + n - 10)

def hexOf (b : Bytes) : String :=
  String.ofList (b.flatMap fun x => [hexDigit (x.toNat / 16), hexDigit (x.toNat % 16)])

def fnv32 (b : Bytes) : UInt32 :=
  b.foldl (fun h x => (h ^^^ x.toUInt32) * 16777619) 2166136261

def hex32 (x : UInt32) : String :=
  let n := x.toNat
  String.ofList ((List.range 8).reverse.map fun i => hexDigit ((n / 16 ^ i) % 16))

/-- short values in hex, long ones as `#len:fnv32`. -/
def showBytes (b : Bytes) : String :=
  if b.isEmpty then "-"
  else if b.length ≤ 40 then hexOf b
  else s!"#{b.length}:{hex32 (fnv32 b)}"

def showOB : Option Bytes → String
  | none => "nil"
  | some b => showBytes b

def showErr : Err → String
  | .txClosed => "ErrTxClosed"
  | .txNotWritable => "ErrTxNotWritable"
  | .bucketNotFound => "ErrBucketNotFound"
  | .bucketExists => "ErrBucketExists"
  | .bucketNameRequired => "ErrBucketNameRequired"
  | .keyRequired => "ErrKeyRequired"
  | .keyTooLarge => "ErrKeyTooLarge"
  | .valueTooLarge => "ErrValueTooLarge"
  | .incompatibleValue => "ErrIncompatibleValue"
  | .rawTxClosed => "bolt.ErrTxClosed"
  | .rawTxNotWritable => "bolt.ErrTxNotWritable"
  | .user => "user"

def showKV (e : Bytes × Option Bytes) : String := s!"{showBytes e.1}={showOB e.2}"

def showReply : Reply → String
  | .ok => "ok"
  | .err e => s!"err:{showErr e}"
  | .val v => s!"val:{showOB v}"
  | .entry none => "kv:nil"
  | .entry (some e) => s!"kv:{showKV e}"
  | .num n => s!"num:{n}"
  | .found b => if b then "found:1" else "found:0"
  | .entries l stopped => "list:" ++ joinWith "," (l.map showKV) ++ (if stopped then ";err:user" else "")
  | .noBucket => "nobucket"
  | .noCursor => "nocursor"
  | .noHandle => "nohandle"
  | .stale => "stale"
  | .unsafeRead => "unsafe"
  | .panic => "panic"

def showResult : Result → String
  | .ok => "res:ok"
  | .err e => s!"res:err:{showErr e}"
  | .panic => "res:panic"

def showPath (p : Path) : String := joinWith "/" (p.map showBytes)

def showDump (d : DB) : String :=
  "dump:" ++ joinWith "," ((dump d).map fun (q, e) =>
    match e with
    | .val v => s!"{showPath q}={showBytes v}"
    | .bucket s => s!"{showPath q}@{s}")

def parseOp (t : List String) : Option Op :=
  match t with
  | ["put", p, k, v] => do pure (.put (← parsePath p) (← parseBytes k) (← parseBytes v))
  | ["get", p, k] => do pure (.get (← parsePath p) (← parseBytes k))
  | ["del", p, k] => do pure (.delete (← parsePath p) (← parseBytes k))
  | ["mk", p, n] => do pure (.createBucket (← parsePath p) (← parseBytes n))
  | ["mkif", p, n] => do pure (.createBucketIfNotExists (← parsePath p) (← parseBytes n))
  | ["rmb", p, n] => do pure (.deleteBucket (← parsePath p) (← parseBytes n))
  | ["nb", p, n] => do pure (.lookup (← parsePath p) (← parseBytes n))
  | ["each", p] => do pure (.forEach (← parsePath p) none)
  | ["each", p, n] => do pure (.forEach (← parsePath p) (some (← n.toNat?)))
  | ["seq", p] => do pure (.sequence (← parsePath p))
  | ["setseq", p, n] => do
    let n ← n.toNat?
    if n < seqMod then pure (.setSequence (← parsePath p) n) else none
  | ["nextseq", p] => do pure (.nextSequence (← parsePath p))
  | ["copen", c, p] => do pure (.curOpen (← c.toNat?) (← parsePath p))
  | ["cfirst", c] => do pure (.curFirst (← c.toNat?))
  | ["clast", c] => do pure (.curLast (← c.toNat?))
  | ["cnext", c] => do pure (.curNext (← c.toNat?))
  | ["cprev", c] => do pure (.curPrev (← c.toNat?))
  | ["cseek", c, k] => do pure (.curSeek (← c.toNat?) (← parseBytes k))
  | ["cdel", c] => do pure (.curDelete (← c.toNat?))
  | ["commit"] => some .commit
  | ["rollback"] => some .rollback
  | ["oncommit"] => some .onCommit
  | _ => none

structure World where
  db : DB := {}
  cur : Option (Kind × Tx) := none

def parseKind : String → Option Kind
  | "update" => some .update
  | "view" => some .view
  | "batch" => some .batch
  | "beginrw" => some .manualRW
  | "beginro" => some .manualRO
  | _ => none

def parseOutcome : String → Option Outcome
  | "ok" => some .ok
  | "err" => some .err
  | "panic" => some .panic
  | _ => none

def Kind.managed : Kind → Bool
  | .update | .view | .batch => true
  | _ => false

def parseCall (p : Path) (s : String) : Option BatchCall :=
  match s.splitOn ":" with
  | [k, v, o] => do pure ⟨p, ← parseBytes k, ← parseBytes v, ← parseOutcome o⟩
  | _ => none

def showRes : Result → String
  | .ok => "ok"
  | .err e => s!"err:{showErr e}"
  | .panic => "panic"

def stepLine (w : World) (line : String) : World × String :=
  let t := words line
  match t with
  | ["reset"] =>
    match w.cur with
    | some _ => (w, "busy")
    | none => ({}, "ok")
  | ["reopen"] =>
    match w.cur with
    | some _ => (w, "busy")
    | none => ({ w with db := reopen w.db }, "ok")
  | ["dump"] =>
    match w.cur with
    | some _ => (w, "busy")
    | none => (w, showDump w.db)
  | ["cbatch", p, calls] =>
    match parsePath p with
    | none => (w, "bad-op")
    | some p =>
      if p.isEmpty then (w, "bad-op") else
      match (calls.splitOn ",").mapM (parseCall p) with
      | none => (w, "bad-op")
      | some cs =>
        match w.cur with
        | some _ => (w, "busy")
        | none =>
          let (db, rs) := batchCalls w.db cs
          ({ w with db }, "cb:" ++ joinWith "," (rs.map showRes))
  | ["end", o] =>
    match parseOutcome o, w.cur with
    | none, _ => (w, "bad-op")
    | _, none => (w, "notx")
    | some o, some (k, tx) =>
      if Kind.managed k then
        let (db, res, fired) := finish k tx o
        ({ db, cur := none }, s!"{showResult res} fired={fired}")
      else (w, "bad-state")
  | ["drop"] =>
    match w.cur with
    | none => (w, "notx")
    | some (k, tx) =>
      if Kind.managed k then (w, "bad-state")
      else
        let (db, _, fired) := finish k tx .ok
        ({ db, cur := none }, s!"ok fired={fired}")
  | [kw] =>
    match parseKind kw with
    | some k =>
      match w.cur with
      | some _ => (w, "busy")
      | none => ({ w with cur := some (k, k.begin w.db) }, "ok")
    | none =>
      match parseOp t with
      | none => (w, "bad-op")
      | some op =>
        match w.cur with
        | none => (w, "notx")
        | some (k, tx) =>
          let (tx', r) := step tx op
          ({ w with cur := some (k, tx') }, showReply r)
  | _ =>
    match parseOp t with
    | none => (w, "bad-op")
    | some op =>
      if !op.apiOk then (w, "bad-op")
      else match w.cur with
        | none => (w, "notx")
        | some (k, tx) =>
          let (tx', r) := step tx op
          ({ w with cur := some (k, tx') }, showReply r)

def run (i o : IO.FS.Stream) : IO Unit := loop i o ({} : World) stepLine

end EngKV
