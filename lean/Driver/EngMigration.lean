import BtcwVerif.Model.Migration
-- engine: migration
import Driver.Proto
open Proto Migration

namespace EngMigration

def parseVs (s : String) : Option (List Version) :=
  (csv s).mapM fun t =>
    match t.splitOn ":" with
    | [n, m] => do
      let n ← n.toNat?
      if m == "nil" then pure ⟨n, none⟩ else do
        let i ← m.toNat?
        pure ⟨n, some i⟩
    | _ => none

def showErr : Option Err → String
  | none => "none"
  | some .reversion => "reversion"
  | some (.migration n _) => s!"migration:{n}"
  | some .setVersion => "setversion"
  | some .currentVersion => "currentversion"

/-- canonical trace: applied events sorted by (number,id); failed event without id. -/
def showTrace (tr : List Ev) : String :=
  let app := tr.filterMap fun | .applied n i => some (n, i) | _ => none
  let app := app.mergeSort (fun a b => a.1 < b.1 || (a.1 == b.1 && a.2 ≤ b.2))
  let rest := tr.filterMap fun
    | .failed n _ => some s!"f{n}"
    | .setVersion v => some s!"s{v}"
    | .setVersionFailed v => some s!"x{v}"
    | _ => none
  joinWith "," (app.map (fun (n, i) => s!"a{n}:{i}") ++ rest)

def showData (d : List Nat) : String :=
  joinWith "," ((d.mergeSort (· ≤ ·)).map toString)

/-- `up cur=<n|err> sf=<0|1> tx=<0|1> vs=<n:id|n:nil,...> failnums=<n,...>` ; db data starts empty. -/
def step (_ : Unit) (line : String) : Unit × String :=
  let t := words line
  match t with
  | "up" :: rest =>
    match kv rest "cur", kv rest "sf", kv rest "tx", kv rest "vs", kv rest "failnums" with
    | some cur, some sf, some tx, some vs, some fn =>
      match parseVs vs, natList? fn with
      | some vs, some fn =>
        -- failure keyed by number: every migration with that number fails
        let failIds := (vs.filter (fun v => fn.contains v.number)).filterMap (·.mig)
        let fails := fun i => failIds.contains i
        let sf := sf == "1"
        if cur == "err" then
          let r := upgrade none vs fails sf
          ((), s!"err={showErr r.err} trace={showTrace r.trace}")
        else match cur.toNat? with
          | none => ((), "bad-op")
          | some c =>
            let r := upgrade (some c) vs fails sf
            let (db, e) := if tx == "1" then upgradeInTx ⟨c, []⟩ vs fails sf else upgradeNoTx ⟨c, []⟩ vs fails sf
            ((), s!"err={showErr e} trace={showTrace r.trace} ver={db.version} data={showData db.data} toapply={joinWith "," ((versionsToApply c vs).map (toString ·.number))} latest={latest vs}")
      | _, _ => ((), "bad-op")
    | _, _, _, _, _ => ((), "bad-op")
  | "up2" :: rest =>
    -- two upgrades in one process with the same declared table: each behaves as if alone (the model is a function
    -- of the declared table, so sharing cannot matter)
    match (kv rest "cur1").bind String.toNat?, (kv rest "cur2").bind String.toNat?, (kv rest "vs").bind parseVs with
    | some c1, some c2, some vs =>
      let r1 := upgrade (some c1) vs (fun _ => false) false
      let r2 := upgrade (some c2) vs (fun _ => false) false
      ((), s!"err1={showErr r1.err} t1={showTrace r1.trace} err2={showErr r2.err} t2={showTrace r2.trace}")
    | _, _, _ => ((), "bad-op")
  | "wopen" :: rest =>
    -- wallet.Open: tx manager (versions 1..txlatest, only the last carries a data-changing migration here) and
    -- address manager (versions ..addrlatest) upgraded in ONE transaction.
    match (kv rest "txcur").bind String.toNat?, (kv rest "txlatest").bind String.toNat?,
          (kv rest "addrcur").bind String.toNat?, (kv rest "addrlatest").bind String.toNat? with
    | some tc, some tl, some ac, some al =>
      let txVs : List Version := (List.range tl).map fun i => ⟨i + 1, if i + 1 == tl then some 1 else none⟩
      let adVs : List Version := (List.range al).map fun i => ⟨i + 1, some (100 + i)⟩
      let (dbs, e) := upgradeManyInTx [(⟨tc, []⟩, txVs), (⟨ac, []⟩, adVs)] (fun _ => false)
      match dbs with
      | [t, a] => ((), s!"err={showErr e} txver={t.version} addrver={a.version} txdata={if t.data.isEmpty then 0 else 1}")
      | _ => ((), "bad-op")
    | _, _, _, _ => ((), "bad-op")
  | _ => ((), "bad-op")

def run (i o : IO.FS.Stream) : IO Unit := loop i o () step

end EngMigration
