import BtcwVerif.Model.Migration
