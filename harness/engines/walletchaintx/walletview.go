package walletchaintx

import (
	"fmt"
	"math"
	"sort"
	"strings"

	"github.com/btcsuite/btcd/btcutil"
	"github.com/btcsuite/btcd/chaincfg/chainhash"
	"github.com/btcsuite/btcd/wire"
)

// ---- C20 at WALLET level (round 3, seed C20-6) -----------------------------------------------------------------------
//
// "… the coins it spent are spendable again … balance and spendable set equal what they were before the attempt."
// `snapshot` (runner.go) reads the wtxmgr store; the user of the wallet however sees the spendable set through
// ListUnspent / coin selection, which additionally consult the in-memory outpoint-lock table (lockunspent).  walletView is
// that user-visible side: it is taken before and after every hand-over that FAILED (backend refused, or the
// subscription failed before the backend was asked) for a brand-new transaction and must not differ.

type walletView struct {
	unspent []string // "<coin name>:<satoshi>" of w.ListUnspent(0, MaxInt32, ""), sorted
	locked  []string // coin names of w.LockedOutpoints(), sorted
	bal0    int64    // w.CalculateBalance(0)
	bal1    int64    // w.CalculateBalance(1)
	lockOps map[string]wire.OutPoint
}

func (v walletView) String() string {
	return fmt.Sprintf("bal0=%d bal1=%d listunspent=%s locked=%s", v.bal0, v.bal1, strings.Join(v.unspent, ","), strings.Join(v.locked, ","))
}

func (r *runner) walletView() (walletView, error) {
	v := walletView{lockOps: map[string]wire.OutPoint{}}
	us, err := r.w.ListUnspent(0, math.MaxInt32, "")
	if err != nil {
		return v, err
	}
	for _, u := range us {
		h, err := chainhash.NewHashFromStr(u.TxID)
		if err != nil {
			return v, err
		}
		amt, err := btcutil.NewAmount(u.Amount)
		if err != nil {
			return v, err
		}
		v.unspent = append(v.unspent, fmt.Sprintf("%s:%d", r.coinName(wire.OutPoint{Hash: *h, Index: u.Vout}), int64(amt)))
	}
	sort.Strings(v.unspent)
	for _, l := range r.w.LockedOutpoints() {
		h, err := chainhash.NewHashFromStr(l.Txid)
		if err != nil {
			return v, err
		}
		op := wire.OutPoint{Hash: *h, Index: l.Vout}
		n := r.coinName(op)
		if strings.HasPrefix(n, "?") {
			n = "?" + op.String()
		}
		v.lockOps[n] = op
		v.locked = append(v.locked, n)
	}
	sort.Strings(v.locked)
	b0, err := r.w.CalculateBalance(0)
	if err != nil {
		return v, err
	}
	b1, err := r.w.CalculateBalance(1)
	if err != nil {
		return v, err
	}
	v.bal0, v.bal1 = int64(b0), int64(b1)
	return v, nil
}

func minus(a, b []string) []string {
	in := map[string]bool{}
	for _, x := range b {
		in[x] = true
	}
	var d []string
	for _, x := range a {
		if !in[x] {
			d = append(d, x)
		}
	}
	return d
}

// refusedViewViolations: `site` is "sendOutputs" or "publishTransaction"; q (may be nil) is the refused request, used
// to say whether the harness ledger still considers a vanished coin eligible for that very request.
func (r *runner) refusedViewViolations(site, what string, before, after walletView, q *createReq) []string {
	var viols []string
	gone, appeared := minus(before.unspent, after.unspent), minus(after.unspent, before.unspent)
	if len(gone) > 0 || len(appeared) > 0 || before.bal0 != after.bal0 || before.bal1 != after.bal1 {
		var elig []string
		if q != nil {
			for _, g := range gone {
				name := g[:strings.LastIndex(g, ":")]
				if _, c := r.resolve(name); c != nil {
					why := r.ineligible(c, q)
					if why == "" {
						why = "eligible"
					}
					elig = append(elig, name+"="+why)
				}
			}
		}
		viols = append(viols, fmt.Sprintf("C20 key=%s.refused-send-changes-spendable-set: %s was refused, yet the wallet's spendable view changed: no longer listed by ListUnspent %v (harness ledger for the same request: %v), newly listed %v; before {%s} after {%s}",
			site, what, gone, elig, appeared, before, after))
	}
	if left := minus(after.locked, before.locked); len(left) > 0 {
		var notUser []string
		for _, n := range left {
			if !r.userLock[after.lockOps[n]] {
				notUser = append(notUser, n)
			}
		}
		viols = append(viols, fmt.Sprintf("C20 key=%s.leaves-outpoints-locked: %s was refused and left outpoints locked that were not locked before the attempt: %v (never locked by the user: %v); LockedOutpoints before %v after %v",
			site, what, left, notUser, before.locked, after.locked))
	} else if freed := minus(before.locked, after.locked); len(freed) > 0 {
		viols = append(viols, fmt.Sprintf("C20 key=%s.refused-send-changes-spendable-set: %s was refused and unlocked outpoints the user had locked: %v", site, what, freed))
	}
	return viols
}

// refusedSend remembers the last refused `create api=send` while nothing else has happened to the wallet since
// (Exec clears it on every op other than `state` / `create`): the SAME request issued again must not run out of funds,
// and - the largest-first strategy being deterministic - must pick the same coins.
type refusedSend struct {
	sig  string
	name string
	ins  []string // inputs of the refused transaction if the backend saw it (sorted coin names), else nil
}

func (q *createReq) sig() string {
	var outs []string
	for _, o := range q.outs {
		outs = append(outs, fmt.Sprintf("%s/%d/%d/%v", o.kind, o.acct, o.amt, o.own))
	}
	return fmt.Sprintf("acct=%d scope=%s minconf=%d rate=%d strat=%s outs=%s sel=%s", q.acct, q.scope, q.minconf, q.rate, q.strat,
		strings.Join(outs, ","), strings.Join(q.sel, ","))
}
