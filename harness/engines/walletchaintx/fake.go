package walletchaintx

import (
	"crypto/sha256"
	"encoding/binary"
	"errors"
	"runtime"
	"strings"
	"sync"
	"time"

	"github.com/btcsuite/btcd/btcjson"
	"github.com/btcsuite/btcd/btcutil"
	"github.com/btcsuite/btcd/chaincfg/chainhash"
	"github.com/btcsuite/btcd/wire"
	"github.com/btcsuite/btcwallet/chain"
	"github.com/btcsuite/btcwallet/waddrmgr"
)

// fakeChain is this engine's own scripted chain.Interface.  It keeps a best chain of (hash, time) pairs, scripted
// answers for SendRawTransaction (keyed by txid) and NotifyReceived, and records the order of SendRawTransaction
// calls.  Error answers are produced from RAW backend strings through the REAL mapping code of chain/errors.go
// ((*BitcoindClient).MapRPCErr / (*NeutrinoClient).MapRPCErr), exactly as the real clients do.
type fakeChain struct {
	mu      sync.Mutex
	ntfn    chan interface{}
	quit    chan struct{}
	hashes  []chainhash.Hash // index = height; the backend's best chain (may be ahead of what the wallet was told)
	ctr     uint64
	answers map[chainhash.Hash]string // txid -> answer spec ("" / "ok" = accept)
	sendLog []chainhash.Hash
	// calls: one entry per SendRawTransaction call, in call order: the raw transaction the wallet handed over and the
	// answer spec it got (the backend's own record; the oracles of C06/C20 go by this, not by what the wallet returned)
	calls []sendCall
	// hold: while non-nil every SendRawTransaction call blocks (after being logged) until the channel is closed;
	// waiting counts the callers blocked right now
	hold    chan struct{}
	waiting int
	// notifyFailIn: when non-empty, NotifyReceived fails if a function whose name contains this string is on the stack
	notifyFailIn string
	rescans      int
	delivered    int // RescanFinished notifications taken by the wallet
}

type sendCall struct {
	hash chainhash.Hash
	tx   *wire.MsgTx
	spec string
}

var t0 = time.Unix(1700000000, 0)

func newFakeChain(height int) *fakeChain {
	f := &fakeChain{ntfn: make(chan interface{}), quit: make(chan struct{}), answers: map[chainhash.Hash]string{}}
	for h := 0; h <= height; h++ {
		f.hashes = append(f.hashes, f.nextHash())
	}
	return f
}

func (f *fakeChain) nextHash() chainhash.Hash {
	f.ctr++
	var b [8]byte
	binary.BigEndian.PutUint64(b[:], f.ctr)
	return chainhash.Hash(sha256.Sum256(append([]byte("verif-block"), b[:]...)))
}

func blockTime(h int32) time.Time { return t0.Add(time.Duration(h) * 10 * time.Minute) }

func (f *fakeChain) tip() int32 {
	f.mu.Lock()
	defer f.mu.Unlock()
	return int32(len(f.hashes) - 1)
}

// extend appends one block and returns its height/hash.
func (f *fakeChain) extend() (int32, chainhash.Hash) {
	f.mu.Lock()
	defer f.mu.Unlock()
	h := f.nextHash()
	f.hashes = append(f.hashes, h)
	return int32(len(f.hashes) - 1), h
}

func (f *fakeChain) truncate(n int) []chainhash.Hash {
	f.mu.Lock()
	defer f.mu.Unlock()
	cut := append([]chainhash.Hash{}, f.hashes[len(f.hashes)-n:]...)
	f.hashes = f.hashes[:len(f.hashes)-n]
	return cut
}

func (f *fakeChain) hashAt(h int32) chainhash.Hash {
	f.mu.Lock()
	defer f.mu.Unlock()
	return f.hashes[h]
}

// sentinel is a notification type the wallet ignores; used for quiescence (see TIPS).
type sentinel struct{}

// notify delivers notifications to the wallet's single-threaded handler and waits until they are fully processed.
func (f *fakeChain) notify(ns ...interface{}) {
	for _, n := range ns {
		select {
		case f.ntfn <- n:
		case <-f.quit:
			return
		}
	}
	select {
	case f.ntfn <- sentinel{}:
	case <-f.quit:
	}
}

func (f *fakeChain) Start() error     { return nil }
func (f *fakeChain) Stop()            { f.mu.Lock(); select { case <-f.quit: default: close(f.quit) }; f.mu.Unlock() }
func (f *fakeChain) WaitForShutdown() {}
func (f *fakeChain) GetBestBlock() (*chainhash.Hash, int32, error) {
	f.mu.Lock()
	defer f.mu.Unlock()
	h := f.hashes[len(f.hashes)-1]
	return &h, int32(len(f.hashes) - 1), nil
}
func (f *fakeChain) GetBlock(*chainhash.Hash) (*wire.MsgBlock, error) {
	return nil, errors.New("fake: GetBlock unsupported")
}
func (f *fakeChain) GetBlockHash(h int64) (*chainhash.Hash, error) {
	f.mu.Lock()
	defer f.mu.Unlock()
	if h < 0 || int(h) >= len(f.hashes) {
		return nil, errors.New("fake: height out of range")
	}
	x := f.hashes[h]
	return &x, nil
}
func (f *fakeChain) GetBlockHeader(hash *chainhash.Hash) (*wire.BlockHeader, error) {
	f.mu.Lock()
	defer f.mu.Unlock()
	for h := len(f.hashes) - 1; h >= 0; h-- {
		if f.hashes[h] == *hash {
			hdr := &wire.BlockHeader{Timestamp: blockTime(int32(h))}
			if h > 0 {
				hdr.PrevBlock = f.hashes[h-1]
			}
			return hdr, nil
		}
	}
	return nil, errors.New("fake: unknown block")
}
func (f *fakeChain) IsCurrent() bool { return true }
func (f *fakeChain) FilterBlocks(*chain.FilterBlocksRequest) (*chain.FilterBlocksResponse, error) {
	return nil, nil
}
func (f *fakeChain) BlockStamp() (*waddrmgr.BlockStamp, error) {
	f.mu.Lock()
	defer f.mu.Unlock()
	h := int32(len(f.hashes) - 1)
	return &waddrmgr.BlockStamp{Height: h, Hash: f.hashes[h], Timestamp: blockTime(h)}, nil
}

// mapAnswer turns an answer spec into the error the real backend client would hand to the wallet.
//
//	"" / "ok"        accepted
//	"b:<raw text>"   bitcoind raw error text, mapped by (*chain.BitcoindClient).MapRPCErr
//	"n:<raw text>"   btcd/neutrino raw error text, mapped by (*chain.NeutrinoClient).MapRPCErr
//
// In <raw text> a '+' stands for a space.
func mapAnswer(spec string) error {
	if spec == "" || spec == "ok" {
		return nil
	}
	if len(spec) < 2 || spec[1] != ':' {
		return errors.New("fake: bad answer spec " + spec)
	}
	raw := errors.New(strings.ReplaceAll(spec[2:], "+", " "))
	switch spec[0] {
	case 'b':
		return (&chain.BitcoindClient{}).MapRPCErr(raw)
	case 'n':
		return (&chain.NeutrinoClient{}).MapRPCErr(raw)
	}
	return errors.New("fake: bad answer spec " + spec)
}

func (f *fakeChain) SendRawTransaction(tx *wire.MsgTx, _ bool) (*chainhash.Hash, error) {
	h := tx.TxHash()
	f.mu.Lock()
	f.sendLog = append(f.sendLog, h)
	spec, ok := f.answers[h]
	if !ok {
		spec = f.answers[chainhash.Hash{}]
	}
	f.calls = append(f.calls, sendCall{hash: h, tx: tx.Copy(), spec: spec})
	hold := f.hold
	if hold != nil {
		f.waiting++
	}
	f.mu.Unlock()
	if hold != nil {
		select {
		case <-hold:
		case <-f.quit:
		}
		f.mu.Lock()
		f.waiting--
		f.mu.Unlock()
	}
	if err := mapAnswer(spec); err != nil {
		return nil, err
	}
	return &h, nil
}

func (f *fakeChain) Rescan(_ *chainhash.Hash, _ []btcutil.Address, _ map[wire.OutPoint]btcutil.Address) error {
	f.mu.Lock()
	f.rescans++
	h := int32(len(f.hashes) - 1)
	hash := f.hashes[h]
	f.mu.Unlock()
	go func() {
		select {
		case f.ntfn <- &chain.RescanFinished{Hash: &hash, Height: h, Time: blockTime(h)}:
			f.mu.Lock()
			f.delivered++
			f.mu.Unlock()
		case <-f.quit:
		}
	}()
	return nil
}

func (f *fakeChain) NotifyReceived([]btcutil.Address) error {
	f.mu.Lock()
	want := f.notifyFailIn
	f.mu.Unlock()
	if want == "" {
		return nil
	}
	pcs := make([]uintptr, 24)
	n := runtime.Callers(2, pcs)
	frames := runtime.CallersFrames(pcs[:n])
	for {
		fr, more := frames.Next()
		if strings.Contains(fr.Function, want) {
			return errors.New("fake: notification subscription failed")
		}
		if !more {
			break
		}
	}
	return nil
}
func (f *fakeChain) NotifyBlocks() error                { return nil }
func (f *fakeChain) Notifications() <-chan interface{} { return f.ntfn }
func (f *fakeChain) BackEnd() string                    { return "fake" }
func (f *fakeChain) TestMempoolAccept([]*wire.MsgTx, float64) ([]*btcjson.TestMempoolAcceptResult, error) {
	return nil, errors.New("fake: unsupported")
}
func (f *fakeChain) MapRPCErr(err error) error { return err }
