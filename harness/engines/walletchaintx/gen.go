package walletchaintx

import (
	"fmt"
	"math/rand"
	"sort"
	"strings"

	"github.com/btcsuite/btcwallet/chain"

	"verifharness/core"
)

// ---- raw backend error texts (taken from the repository's own tables) -------------------------------------------

func normErr(s string) string { return strings.ToLower(strings.ReplaceAll(s, "-", " ")) }

func classOf(e error) string {
	switch e {
	case chain.ErrTxAlreadyInMempool:
		return "mempool"
	case chain.ErrTxAlreadyKnown:
		return "known"
	case chain.ErrTxAlreadyConfirmed:
		return "confirmed"
	}
	return "rejected"
}

// unambiguous: Go iterates its error maps in random order; a text matching keys of different classes inside the
// same map would make the real answer class non-deterministic, so such texts are not generated.
func unambiguous(flavor byte, raw string) bool {
	if flavor == 'b' {
		return true // ordered loop over RPCErr values, then a one-entry map
	}
	for _, m := range []map[string]error{chain.BtcdErrMap, chain.BtcdErrMapPre2402} {
		cls := map[string]bool{}
		for k, v := range m {
			if strings.Contains(normErr(raw), normErr(k)) {
				cls[classOf(v)] = true
			}
		}
		if len(cls) > 1 {
			return false
		}
		if len(cls) == 1 {
			return true
		}
	}
	return true
}

type answers struct {
	byClass map[string][]string // class -> specs
}

func buildAnswers() *answers {
	a := &answers{byClass: map[string][]string{}}
	add := func(flavor byte, raw string) {
		if strings.ContainsAny(raw, "+;@,=") || !unambiguous(flavor, raw) {
			return
		}
		spec := string(flavor) + ":" + strings.ReplaceAll(raw, " ", "+")
		cls := answerClass(spec)
		a.byClass[cls] = append(a.byClass[cls], spec)
	}
	var bit []string
	for i := 0; i < 200; i++ {
		s := chain.RPCErr(i).Error()
		if s == "unknown error" {
			break
		}
		bit = append(bit, s)
	}
	for k := range chain.Bitcoind28ErrMap {
		bit = append(bit, k)
	}
	sort.Strings(bit)
	for _, s := range bit {
		add('b', s)
		add('b', strings.ReplaceAll(s, " ", "-"))
		add('b', "-26: "+strings.ToUpper(s))
		add('b', "rpc error: "+s+" (code 18)")
	}
	var btcd []string
	for k := range chain.BtcdErrMap {
		btcd = append(btcd, k)
	}
	for k := range chain.BtcdErrMapPre2402 {
		btcd = append(btcd, k)
	}
	sort.Strings(btcd)
	for _, s := range btcd {
		add('n', s)
		add('n', "-22: TX rejected: "+s)
		add('n', strings.ToUpper(s[:1])+s[1:]+" [abc]")
	}
	for _, s := range []string{"connection reset by peer", "something unexpected", "i/o timeout", "txn", "already"} {
		add('b', s)
		add('n', s)
	}
	return a
}

func (a *answers) pick(rng *rand.Rand, cls string) string {
	if cls == "accepted" {
		return "ok"
	}
	if cls == "rejected" && rng.Intn(3) == 0 {
		// a reason outside every table of chain/errors.go (wrapped in chain.ErrUndefined by the real mapping code)
		l := []string{"b:connection+reset+by+peer", "n:something+unexpected", "b:i/o+timeout", "n:i/o+timeout",
			"b:-25:+TX+decode+failed", "n:backend+is+shutting+down"}
		return l[rng.Intn(len(l))]
	}
	l := a.byClass[cls]
	return l[rng.Intn(len(l))]
}

func (a *answers) randomClass(rng *rand.Rand) string {
	switch x := rng.Intn(100); {
	case x < 35:
		return "accepted"
	case x < 50:
		return "mempool"
	case x < 58:
		return "known"
	case x < 66:
		return "confirmed"
	}
	return "rejected"
}

// ---- generator-side approximate bookkeeping (only to make requests mostly meaningful) ---------------------------

type gcoin struct {
	name  string
	amt   int64
	kind  string
	acct  int
	spent bool // believed spent
	tx    string
}

type gtx struct {
	name    string
	mined   bool
	h       int
	cb      bool
	parents []string
	simple  bool // created with api=simple, not yet published
	gone    bool
	dead    bool // a possible child was confirmed without it: it must never show up again (chain consistency)
}

type gen struct {
	rng    *rand.Rand
	ans    *answers
	ops    []string
	tags   map[string]bool
	next   int
	coins  []*gcoin
	txs    []*gtx
	height int
	tip    int
	uniq   int64
	floor  int
	blind  bool // a random-strategy send was issued: the model cannot follow the state any more
	locked bool // the wallet is (believed) locked: requests are refused, nothing changes
	timed  bool // an unlock timeout is armed
}

var kinds = []string{"pkh", "np", "wpkh", "tr"}

func (g *gen) add(op string)   { g.ops = append(g.ops, op) }
func (g *gen) tag(t string)    { g.tags[t] = true }
func (g *gen) newName() string { g.next++; return fmt.Sprintf("T%d", g.next) }
func (g *gen) amount(lo, hi int64) int64 {
	g.uniq++
	return (lo+g.rng.Int63n(hi-lo))/1000*1000 + g.uniq // all amounts distinct (the sort order of equal amounts is unspecified)
}
func (g *gen) kind() string { return kinds[g.rng.Intn(4)] }
func (g *gen) acct() int {
	if g.rng.Intn(4) == 0 {
		return 1
	}
	return 0
}
func (g *gen) maybeState() {
	if !g.blind && g.rng.Intn(2) == 0 {
		g.add("state")
	}
}

func (g *gen) start() {
	g.ops = []string{"reset"}
	g.tags = map[string]bool{}
	g.next = 0
	g.coins = nil
	g.txs = nil
	g.height = baseHeight
	g.tip = baseHeight
	g.floor = baseHeight + 1
	g.blind = false
	g.locked, g.timed = false, false
}

func (g *gen) unconfirmAbove(tip int) {
	for _, t := range g.txs {
		if t.mined && t.h > tip {
			t.mined = false
			if t.cb {
				t.gone = true
			}
		}
	}
}

// allParents: a created transaction may spend any earlier output; to keep histories chain-consistent (a confirmed
// transaction never spends an output of an unconfirmed one) it is only mined after everything that existed before it.
func (g *gen) allParents() []string {
	var l []string
	for _, t := range g.txs {
		if !t.gone {
			l = append(l, t.name)
		}
	}
	return l
}

func (g *gen) findTx(n string) *gtx {
	for _, t := range g.txs {
		if t.name == n {
			return t
		}
	}
	return nil
}

func (g *gen) recv(outs int, ins []string) string {
	n := g.newName()
	var specs []string
	for i := 0; i < outs; i++ {
		k, a, v := g.kind(), g.acct(), g.amount(20000, 2000000)
		specs = append(specs, fmt.Sprintf("%s:%d:%d", k, a, v))
		g.coins = append(g.coins, &gcoin{name: fmt.Sprintf("%s:%d", n, i), amt: v, kind: k, acct: a, tx: n})
	}
	op := fmt.Sprintf("recv tx=%s outs=%s", n, strings.Join(specs, ","))
	t := &gtx{name: n}
	if len(ins) > 0 {
		op += " ins=" + strings.Join(ins, ",")
		for _, i := range ins {
			t.parents = append(t.parents, strings.SplitN(i, ":", 2)[0])
			for _, c := range g.coins {
				if c.name == i {
					c.spent = true
				}
			}
		}
	}
	g.txs = append(g.txs, t)
	g.add(op)
	return n
}

// block mines the given txs (parents first is the caller's business) and optionally a coinbase.
func (g *gen) block(txs []string, cb bool) string {
	op := "block"
	if len(txs) > 0 {
		op += " txs=" + strings.Join(txs, ",")
	}
	name := ""
	if cb {
		name = g.newName()
		k, a, v := g.kind(), g.acct(), g.amount(1000000, 50000000)
		op += fmt.Sprintf(" cb=%s:%s:%d:%d", name, k, a, v)
		g.coins = append(g.coins, &gcoin{name: name + ":0", amt: v, kind: k, acct: a, tx: name})
		g.txs = append(g.txs, &gtx{name: name, mined: true, cb: true, h: g.tip + 1})
	}
	for _, n := range txs {
		if t := g.findTx(n); t != nil {
			t.mined = true
			t.simple = false
			t.gone = false
			t.h = g.tip + 1
		}
	}
	for _, n := range txs {
		if t := g.findTx(n); t != nil {
			for _, pn := range t.parents {
				if pt := g.findTx(pn); pt != nil && !pt.mined {
					pt.dead = true
				}
			}
		}
	}
	g.tip++
	g.height = g.tip
	g.add(op)
	return name
}

func (g *gen) mineSome(p float64, cb bool) {
	var l []string
	inc := map[string]bool{}
	for _, t := range g.txs {
		if t.mined || t.cb || t.gone || t.dead || g.rng.Float64() > p {
			continue
		}
		ok := true
		for _, pn := range t.parents {
			if pt := g.findTx(pn); pt != nil && !pt.mined && !pt.gone && !inc[pn] {
				ok = false
			}
		}
		if ok {
			l = append(l, t.name)
			inc[t.name] = true
		}
	}
	g.block(l, cb)
}

func (g *gen) unspentCoins(acct int, scope string) []*gcoin {
	var l []*gcoin
	for _, c := range g.coins {
		t := g.findTx(c.tx)
		if !c.spent && c.acct == acct && (scope == "any" || c.kind == scope) && t != nil && !t.gone && !t.simple {
			l = append(l, c)
		}
	}
	return l
}

func (g *gen) anyCoin() string {
	if len(g.coins) == 0 || g.rng.Intn(12) == 0 {
		return fmt.Sprintf("T%d:%d", 900+g.rng.Intn(5), g.rng.Intn(2)) // unknown outpoint
	}
	if g.rng.Intn(10) == 0 && len(g.txs) > 0 {
		return g.txs[g.rng.Intn(len(g.txs))].name + ":c"
	}
	return g.coins[g.rng.Intn(len(g.coins))].name
}

type createOpt struct {
	api, scope, chg, strat, allow, ans, notify string
	acct, minconf                           int
	rate                                    int64
	outs                                    []string
	sel                                     []string
}

func (g *gen) create(o createOpt) string {
	n := g.newName()
	op := fmt.Sprintf("create name=%s api=%s acct=%d scope=%s chg=%s minconf=%d rate=%d strat=%s outs=%s",
		n, o.api, o.acct, o.scope, o.chg, o.minconf, o.rate, o.strat, strings.Join(o.outs, ","))
	if len(o.sel) > 0 {
		op += " sel=" + strings.Join(o.sel, ",")
	}
	if o.allow != "" {
		op += " allow=" + o.allow
	}
	if o.api == "send" {
		op += " ans=" + o.ans
		if o.notify != "" {
			op += " notify=" + o.notify
		}
	}
	g.add(op)
	return n
}

// randomCreate builds a mostly-feasible request from the approximate bookkeeping.
func (g *gen) randomCreate(final bool) {
	o := createOpt{chg: "same", strat: "largest", acct: g.acct(), scope: "any"}
	if g.rng.Intn(2) == 0 {
		o.scope = g.kind()
	}
	o.minconf = []int{0, 0, 1, 1, 1, 2, 6, 6, 101, 150}[g.rng.Intn(10)]
	o.rate = []int64{1000, 1000, 2500, 10000, 50000, 253}[g.rng.Intn(6)]
	switch x := g.rng.Intn(100); {
	case x < 25:
		o.api = "dry"
	case x < 50:
		o.api = "simple"
	case x < 62:
		o.api = "psbt"
	default:
		o.api = "send"
	}
	if o.api != "send" && g.rng.Intn(6) == 0 {
		o.chg = g.kind()
	}
	avail := g.unspentCoins(o.acct, o.scope)
	var sum int64
	for _, c := range avail {
		sum += c.amt
	}
	if sum < 30000 {
		sum = 30000
	}
	nouts := 1 + g.rng.Intn(3)
	frac := []float64{0.05, 0.2, 0.45, 0.7, 0.93, 1.3}[g.rng.Intn(6)]
	var own []*gcoin
	n := fmt.Sprintf("T%d", g.next+1)
	for i := 0; i < nouts; i++ {
		v := int64(float64(sum)*frac/float64(nouts)) + g.rng.Int63n(500)
		if g.rng.Intn(25) == 0 {
			v = 100 + g.rng.Int63n(500) // around the dust limit
		}
		if g.rng.Intn(4) == 0 {
			k, a := g.kind(), g.acct()
			o.outs = append(o.outs, fmt.Sprintf("%s:%d:%d", k, a, v))
			own = append(own, &gcoin{name: fmt.Sprintf("%s:%d", n, i), amt: v, kind: k, acct: a, tx: n})
		} else {
			o.outs = append(o.outs, fmt.Sprintf("x%s:%d", g.kind(), v))
		}
	}
	if g.rng.Intn(4) == 0 { // explicit selection
		k := 1 + g.rng.Intn(3)
		for i := 0; i < k; i++ {
			if len(avail) > 0 && g.rng.Intn(5) != 0 {
				o.sel = append(o.sel, avail[g.rng.Intn(len(avail))].name)
			} else {
				o.sel = append(o.sel, g.anyCoin())
			}
		}
		if g.rng.Intn(8) == 0 {
			o.sel = append(o.sel, o.sel[0])
			g.tag("sel-duplicate")
		}
		g.tag("sel")
	}
	if o.api != "send" && g.rng.Intn(7) == 0 && len(avail) > 0 {
		c := avail[g.rng.Intn(len(avail))]
		if g.rng.Intn(2) == 0 {
			o.allow = fmt.Sprintf("min:%d", c.amt)
		} else {
			o.allow = fmt.Sprintf("max:%d", c.amt)
		}
	}
	if len(o.sel) == 0 && g.rng.Intn(5) == 0 && (o.api == "dry" || o.api == "psbt" || (o.api == "send" && final)) {
		o.strat = "random"
		g.tag("random-strategy")
		if o.api == "send" {
			g.blind = true
		}
	}
	if o.api == "send" {
		cls := g.ans.randomClass(g.rng)
		o.ans = g.ans.pick(g.rng, cls)
		if g.rng.Intn(10) == 0 {
			o.notify = "fail"
			cls = "rejected"
		}
		g.tag("send-" + cls)
		parents := g.allParents()
		name := g.create(o)
		if g.locked {
			g.tag("create-while-locked")
			return
		}
		if cls == "accepted" || cls == "mempool" {
			// approximate: the largest coins are used
			sort.Slice(avail, func(i, j int) bool { return avail[i].amt > avail[j].amt })
			need := int64(float64(sum) * frac)
			var got int64
			t := &gtx{name: name, parents: parents}
			for _, c := range avail {
				if got >= need+2000 {
					break
				}
				if len(o.sel) == 0 {
					c.spent = true
					got += c.amt
				}
			}
			g.txs = append(g.txs, t)
			g.coins = append(g.coins, own...)
			if got > need+3000 {
				ck := o.scope
				if ck == "any" {
					ck = "tr"
				}
				g.coins = append(g.coins, &gcoin{name: name + ":c", amt: got - need - 500, kind: ck, acct: o.acct, tx: name})
			}
		}
		return
	}
	parents := g.allParents()
	name := g.create(o)
	if g.locked {
		g.tag("create-while-locked")
		return
	}
	if o.api == "simple" {
		g.txs = append(g.txs, &gtx{name: name, simple: true, parents: parents})
	}
}

// walletLock: Wallet.Lock / Unlock (optionally with a timeout) / the timeout firing / an Unlock with a wrong passphrase
func (g *gen) walletLock() {
	switch x := g.rng.Intn(10); {
	case g.locked && x < 7:
		if g.rng.Intn(3) == 0 {
			g.add("wunlock timed=1")
			g.timed = true
		} else {
			g.add("wunlock")
			g.timed = false
		}
		g.locked = false
	case x < 4:
		g.add("wlock")
		g.locked, g.timed = true, false
	case x < 6:
		g.add("wunlock timed=1")
		g.locked, g.timed = false, true
	case x < 8:
		g.add("wexpire")
		if g.timed {
			g.locked, g.timed = true, false
		}
	case x < 9:
		g.add("wunlock pass=bad")
		g.locked = true
	default:
		g.add("wunlock")
		g.locked, g.timed = false, false
	}
	g.tag("wallet-lock-ops")
}

func (g *gen) randomPublish() {
	var cands []*gtx
	for _, t := range g.txs {
		if t.simple {
			cands = append(cands, t)
		}
	}
	var t *gtx
	switch {
	case len(cands) > 0 && g.rng.Intn(6) != 0:
		t = cands[g.rng.Intn(len(cands))]
	case len(g.txs) > 0:
		t = g.txs[g.rng.Intn(len(g.txs))]
	default:
		return
	}
	if (t.cb && !t.mined) || t.dead {
		return // an unconfirmed coinbase / a parent reappearing after its child confirmed is not a chain-consistent history
	}
	cls := g.ans.randomClass(g.rng)
	op := fmt.Sprintf("publish name=%s ans=%s", t.name, g.ans.pick(g.rng, cls))
	if g.rng.Intn(8) == 0 {
		op += " notify=fail"
		cls = "notifyfail"
	}
	g.tag("publish-" + cls)
	g.add(op)
	if t.simple {
		t.simple = false
	}
	if !t.mined {
		// recorded (again) or forgotten, exactly as the answer class says
		t.gone = cls != "accepted" && cls != "mempool"
	}
}

func (g *gen) resync(restart bool) {
	var parts []string
	for _, t := range g.txs {
		if !t.mined && !t.simple && g.rng.Intn(3) == 0 {
			cls := g.ans.randomClass(g.rng)
			parts = append(parts, t.name+"@"+g.ans.pick(g.rng, cls))
			if cls == "rejected" || cls == "known" || cls == "confirmed" {
				t.gone = true
			}
		}
	}
	op := "resync"
	if restart {
		op = "restart"
		g.locked, g.timed = false, false // the harness unlocks a freshly opened wallet
	} else if g.rng.Intn(4) == 0 {
		op = "resync twice=1"
		g.tag("resync-twice")
	}
	if len(parts) > 0 {
		op += " ans=" + strings.Join(parts, ";")
		g.tag("resend-with-failures")
	}
	g.height = g.tip
	g.add(op)
}

func (g *gen) randomWalk(n int) core.Case {
	g.start()
	// a funded start
	for i := 0; i < 2+g.rng.Intn(3); i++ {
		g.recv(1+g.rng.Intn(3), nil)
	}
	g.mineSome(0.9, g.rng.Intn(3) == 0)
	for i := 0; i < n; i++ {
		x := g.rng.Intn(100)
		if g.locked {
			// a locked wallet is interesting for requests; do not stay locked for long
			switch y := g.rng.Intn(10); {
			case y < 5:
				x = 60
			case y < 8:
				x = 49
			}
		}
		switch {
		case x < 12:
			var ins []string
			if g.rng.Intn(8) == 0 && len(g.coins) > 0 {
				ins = []string{g.coins[g.rng.Intn(len(g.coins))].name}
				g.tag("external-spend")
			}
			g.recv(1+g.rng.Intn(2), ins)
		case x < 24:
			g.mineSome(0.7, g.rng.Intn(4) == 0)
		case x < 27:
			k := []int{1, 2, 5, 94, 98, 99, 100}[g.rng.Intn(7)]
			g.add(fmt.Sprintf("tipahead n=%d", k))
			g.tip += k
		case x < 29:
			g.add("flush")
			g.height = g.tip
		case x < 33:
			d := 1 + g.rng.Intn(3)
			if g.tip == g.height && g.tip-d >= baseHeight {
				g.add(fmt.Sprintf("reorg depth=%d", d))
				g.tip -= d
				g.height = g.tip
				g.tag("reorg")
				g.unconfirmAbove(g.tip)
				g.maybeState()
				if g.rng.Intn(2) == 0 {
					g.mineSome(0.5, g.rng.Intn(4) == 0)
				}
			}
		case x < 39:
			if g.rng.Intn(3) == 0 {
				g.add("unlock op=" + g.anyCoin())
			} else {
				g.add("lock op=" + g.anyCoin())
			}
		case x < 45:
			if g.rng.Intn(3) == 0 {
				g.add(fmt.Sprintf("release op=%s id=%d", g.anyCoin(), 1+g.rng.Intn(2)))
			} else {
				g.add(fmt.Sprintf("lease op=%s id=%d dur=%d", g.anyCoin(), 1+g.rng.Intn(2), []int{1, 60, 600}[g.rng.Intn(3)]))
			}
		case x < 48:
			g.add(fmt.Sprintf("clock adv=%d", []int{0, 1, 59, 60, 600}[g.rng.Intn(5)]))
		case x < 52:
			g.walletLock()
		case x < 80:
			g.randomCreate(i == n-1)
		case x < 91:
			g.randomPublish()
		case x < 96:
			g.resync(false)
		case x < 98:
			g.resync(true)
			g.tag("restart")
		default:
			g.add("bogus op=1")
		}
		g.maybeState()
	}
	if !g.blind {
		g.add("state")
	}
	return g.finish("walk")
}

func (g *gen) finish(kind string) core.Case {
	tags := []string{kind}
	for t := range g.tags {
		tags = append(tags, t)
	}
	sort.Strings(tags)
	return core.Case{Ops: g.ops, Tags: tags}
}

// ---- structured scenarios ---------------------------------------------------------------------------------------

func (g *gen) simpleCreate(api string, acct int, scope string, minconf int, amt int64, sel []string) string {
	return g.create(createOpt{api: api, acct: acct, scope: scope, chg: "same", minconf: minconf, rate: 1000, strat: "largest",
		outs: []string{fmt.Sprintf("xwpkh:%d", amt)}, sel: sel, ans: "ok"})
}

// coinbase at maturity-1 / maturity, against the BACKEND tip
func (g *gen) scenCoinbase() core.Case {
	g.start()
	k := g.kind()
	v := g.amount(1000000, 9000000)
	name := g.newName()
	g.add(fmt.Sprintf("block cb=%s:%s:0:%d", name, k, v))
	g.tip++
	small := g.recv(1, nil)
	g.add("block txs=" + small)
	g.tip++
	// coinbase has 2 confirmations now
	gap := []int{96, 97}[g.rng.Intn(2)]
	g.add(fmt.Sprintf("tipahead n=%d", gap))
	if g.rng.Intn(2) == 0 {
		g.add("flush")
	}
	g.simpleCreate("dry", 0, "any", 1, v/2, nil) // confs = 98/99 : immature
	g.simpleCreate("dry", 0, "any", 1, v/2, []string{name + ":0"})
	g.add(fmt.Sprintf("tipahead n=%d", 98-gap))
	g.simpleCreate("dry", 0, "any", 1, v/2, nil) // confs = 100 : mature
	g.simpleCreate("dry", 0, "any", 100, v/2, nil)
	// mature coinbase, but fewer confirmations than the request demands: minconf still applies
	g.simpleCreate("dry", 0, "any", 101, v/2, nil)
	g.simpleCreate("dry", 0, "any", 150+g.rng.Intn(100), v/2, []string{name + ":0"})
	g.simpleCreate([]string{"dry", "simple", "psbt"}[g.rng.Intn(3)], 0, "any", 101+g.rng.Intn(200), v/3, nil)
	g.simpleCreate("send", 0, "any", 1, v/2, []string{name + ":0"})
	g.add("state")
	g.add("tipahead n=1")
	g.simpleCreate("dry", 0, "any", 101, v/3, nil)
	g.add("state")
	return g.finish("coinbase-maturity")
}

// user locks, leases with expiry, restart clears user locks
func (g *gen) scenLocks() core.Case {
	g.start()
	a := g.recv(3, nil)
	g.add("block txs=" + a)
	big := a + ":0"
	for _, c := range g.coins {
		c.acct = 0
	}
	// rewrite accounts to 0 for this scenario
	g.ops[len(g.ops)-2] = strings.NewReplacer(":1:", ":0:").Replace(g.ops[len(g.ops)-2])
	total := g.coins[0].amt + g.coins[1].amt + g.coins[2].amt
	g.add("lock op=" + big)
	g.simpleCreate("dry", 0, "any", 1, total/4, nil)
	g.simpleCreate("dry", 0, "any", 1, total/4, []string{big})
	g.add("unlock op=" + big)
	g.add(fmt.Sprintf("lease op=%s id=1 dur=600", big))
	g.add(fmt.Sprintf("lease op=%s id=2 dur=600", big))
	g.simpleCreate("simple", 0, "any", 1, total/4, []string{big})
	g.simpleCreate("dry", 0, "any", 1, total/4, nil)
	g.add("state")
	g.add("clock adv=599")
	g.simpleCreate("dry", 0, "any", 1, total/4, []string{big})
	g.add("clock adv=1")
	g.simpleCreate("dry", 0, "any", 1, total/4, []string{big})
	g.add(fmt.Sprintf("lease op=%s id=2 dur=60", big))
	g.add(fmt.Sprintf("release op=%s id=1", big))
	g.add(fmt.Sprintf("release op=%s id=2", big))
	g.add("lock op=" + a + ":1")
	g.simpleCreate("dry", 0, "any", 1, total-5000, nil)
	g.add("restart")
	g.simpleCreate("dry", 0, "any", 1, total-5000, nil)
	g.add("state")
	return g.finish("locks-leases")
}

// explicit selections: every way of being ineligible, repeated outpoints
func (g *gen) scenSelection() core.Case {
	g.start()
	n1 := g.newName()
	v := func() int64 { return g.amount(100000, 900000) }
	g.add(fmt.Sprintf("recv tx=%s outs=wpkh:0:%d,tr:0:%d,pkh:0:%d,np:0:%d,wpkh:1:%d", n1, v(), v(), v(), v(), v()))
	g.add("block txs=" + n1)
	n2 := g.newName()
	g.add(fmt.Sprintf("recv tx=%s outs=wpkh:0:%d", n2, v()))
	api := []string{"dry", "simple", "psbt", "send"}[g.rng.Intn(4)]
	sel := func(s ...string) { g.simpleCreate(api, 0, "any", 1, 50000+g.rng.Int63n(1000), s); g.maybeState() }
	sel(n1 + ":0")
	if api == "send" {
		sel(n1 + ":0") // spent by the previous send
	}
	sel(n1+":1", n1+":1")
	sel(n1+":1", n1+":2", n1+":1")
	sel(n1 + ":4")          // other account
	sel(n2 + ":0")          // unconfirmed with minconf 1
	sel("T950:0")           // unknown
	sel(n1+":2", "T950:0")  // one good one bad
	g.add("lock op=" + n1 + ":3")
	sel(n1 + ":3")
	g.add("lease op=" + n1 + ":2 id=1 dur=60")
	sel(n1 + ":2")
	g.create(createOpt{api: api, acct: 0, scope: "tr", chg: "same", minconf: 1, rate: 1000, strat: "largest",
		outs: []string{"xtr:40000"}, sel: []string{n1 + ":2"}, ans: "ok"}) // other scope
	g.create(createOpt{api: api, acct: 0, scope: "pkh", chg: "same", minconf: 1, rate: 2000, strat: "largest",
		outs: []string{"xpkh:40000"}, sel: []string{n1 + ":2"}, ans: "ok"})
	g.add("clock adv=60")
	sel(n1 + ":2")
	g.add("state")
	return g.finish("explicit-selection")
}

// chained unconfirmed sends, then one answer class at initial broadcast / re-broadcast
func (g *gen) scenChain() core.Case {
	g.start()
	a := g.recv(1, nil)
	g.ops[len(g.ops)-1] = strings.NewReplacer(":1:", ":0:").Replace(g.ops[len(g.ops)-1])
	amt := g.coins[0].amt
	if g.rng.Intn(2) == 0 {
		g.add("block txs=" + a)
	}
	var chain []string
	depth := 2 + g.rng.Intn(3)
	for i := 0; i < depth; i++ {
		amt = amt * 3 / 5
		o := createOpt{api: "send", acct: 0, scope: "any", chg: "same", minconf: 0, rate: 1000, strat: "largest",
			outs: []string{fmt.Sprintf("xwpkh:%d", amt/4)}, ans: "ok"}
		if i == 0 {
			o.sel = []string{a + ":0"}
		} else {
			o.sel = []string{chain[i-1] + ":c"}
		}
		chain = append(chain, g.create(o))
	}
	g.add("state")
	if g.rng.Intn(2) == 0 {
		g.add(fmt.Sprintf("lease op=%s:c id=1 dur=600", chain[len(chain)-1]))
		g.add(fmt.Sprintf("lease op=%s:0 id=1 dur=600", a))
	}
	victim := chain[g.rng.Intn(len(chain))]
	if g.rng.Intn(2) == 0 {
		// the payee of a chain member pays the wallet back out of the output it received: an unconfirmed child of
		// that member through an output that is NOT a wallet credit
		par := chain[g.rng.Intn(len(chain))]
		g.recv(1, []string{par + ":0"})
		g.tag("child-via-foreign-output")
	}
	cls := []string{"rejected", "known", "confirmed", "mempool", "rejected"}[g.rng.Intn(5)]
	g.tag("chain-" + cls)
	switch g.rng.Intn(4) {
	case 0:
		g.add(fmt.Sprintf("resync ans=%s@%s", victim, g.ans.pick(g.rng, cls)))
	case 1:
		g.add(fmt.Sprintf("restart ans=%s@%s", victim, g.ans.pick(g.rng, cls)))
	case 2:
		g.add(fmt.Sprintf("publish name=%s ans=%s", victim, g.ans.pick(g.rng, cls)))
	default:
		g.add(fmt.Sprintf("publish name=%s ans=ok notify=fail", victim))
	}
	g.add("state")
	g.simpleCreate("dry", 0, "any", 0, amt/8, nil)
	g.add("resync")
	g.add("state")
	return g.finish("chained-sends")
}

// a fresh transaction through PublishTransaction with every answer class, state before/after
func (g *gen) scenAnswers() core.Case {
	g.start()
	a := g.recv(2, nil)
	g.add("block txs=" + a)
	for i := 0; i < 5; i++ {
		cls := []string{"accepted", "mempool", "known", "confirmed", "rejected", "rejected", "notifyfail"}[g.rng.Intn(7)]
		acct := g.coins[g.rng.Intn(2)].acct
		n := g.simpleCreate("simple", acct, "any", 0, 10000+g.rng.Int63n(20000), nil)
		g.add("state")
		if cls == "notifyfail" {
			g.add(fmt.Sprintf("publish name=%s ans=%s notify=fail", n, g.ans.pick(g.rng, g.ans.randomClass(g.rng))))
		} else {
			g.add(fmt.Sprintf("publish name=%s ans=%s", n, g.ans.pick(g.rng, cls)))
		}
		g.tag("fresh-" + cls)
		g.add("state")
		if g.rng.Intn(3) == 0 {
			g.add(fmt.Sprintf("publish name=%s ans=%s", n, g.ans.pick(g.rng, g.ans.randomClass(g.rng)))) // again
			g.add("state")
		}
	}
	g.add("resync")
	g.add("state")
	return g.finish("answer-classes")
}

// reorg: confirmed sends become unconfirmed again and are re-offered; coinbase and its spenders vanish
func (g *gen) scenReorg() core.Case {
	g.start()
	cbv := g.amount(5000000, 9000000)
	cb := g.newName()
	g.add(fmt.Sprintf("block cb=%s:wpkh:0:%d", cb, cbv))
	a := g.recv(1, nil)
	g.ops[len(g.ops)-1] = strings.NewReplacer(":1:", ":0:").Replace(g.ops[len(g.ops)-1])
	g.add("block txs=" + a)
	g.add("tipahead n=98")
	g.add("flush")
	s1 := g.simpleCreate("send", 0, "any", 1, cbv/3, []string{cb + ":0"})
	s2 := g.simpleCreate("send", 0, "any", 1, g.coins[0].amt/3, []string{a + ":0"})
	g.add(fmt.Sprintf("block txs=%s,%s", s1, s2))
	g.add("state")
	g.add("reorg depth=1")
	g.add("state")
	if g.rng.Intn(2) == 0 {
		g.add("block txs=" + s2)
	} else {
		g.add("block")
	}
	g.add("state")
	g.add("resync")
	g.add("state")
	if g.rng.Intn(2) == 0 {
		g.add("restart")
	}
	g.simpleCreate("dry", 0, "any", 0, 20000, nil)
	g.add("state")
	return g.finish("reorg")
}

// an external double spend of a coin the wallet's own unconfirmed transaction spends
func (g *gen) scenDoubleSpend() core.Case {
	g.start()
	a := g.recv(2, nil)
	g.ops[len(g.ops)-1] = strings.NewReplacer(":1:", ":0:").Replace(g.ops[len(g.ops)-1])
	g.add("block txs=" + a)
	s := g.simpleCreate("send", 0, "any", 1, g.coins[0].amt/2, []string{a + ":0"})
	c := g.simpleCreate("send", 0, "any", 0, g.coins[0].amt/8, []string{s + ":c"})
	_ = c
	x := g.recv(1, []string{a + ":0"})
	g.add("state")
	g.add("block txs=" + x)
	g.add("state")
	g.simpleCreate("dry", 0, "any", 0, 20000, nil)
	g.add("resync")
	g.add("state")
	return g.finish("double-spend")
}

// sends without a change output and without any output to the wallet itself: nothing of the transaction pays the
// wallet, yet its inputs are spent; later requests must not touch them
func (g *gen) scenChangeless() core.Case {
	g.start()
	n := g.newName()
	k1, k2, k3 := g.kind(), g.kind(), g.kind()
	v1, v2, v3 := g.amount(200000, 900000), g.amount(200000, 900000), g.amount(100000, 150000)
	g.add(fmt.Sprintf("recv tx=%s outs=%s:0:%d,%s:0:%d,%s:0:%d", n, k1, v1, k2, v2, k3, v3))
	g.add("block txs=" + n)
	g.add("state")
	cls := []string{"accepted", "accepted", "mempool"}[g.rng.Intn(3)]
	// output = coin - 400: what is left after the fee is below the dust limit of a P2TR change output
	g.create(createOpt{api: "send", acct: 0, scope: "any", chg: "same", minconf: 1, rate: 1000, strat: "largest",
		outs: []string{fmt.Sprintf("x%s:%d", g.kind(), v1-400)}, sel: []string{n + ":0"}, ans: g.ans.pick(g.rng, cls)})
	g.tag("changeless-send")
	g.add("state")
	g.simpleCreate("dry", 0, "any", 0, v2/2, []string{n + ":0"})                 // explicit reuse: refused
	g.simpleCreate("simple", 0, "any", 0, v2+v3-2000, nil)                       // needs both remaining coins, not the spent one
	g.simpleCreate("send", 0, "any", 0, v1/2+v2/2+v3/2, nil)                     // more than what is left: insufficient
	g.add("state")
	g.simpleCreate("send", 0, "any", 0, v2/3, nil)
	g.add("state")
	if g.rng.Intn(2) == 0 {
		g.add("restart")
	} else {
		g.add("resync")
	}
	g.simpleCreate("dry", 0, "any", 0, v3/2, []string{n + ":0"})
	g.add("state")
	return g.finish("changeless")
}

// ---- round-2 scenarios -------------------------------------------------------------------------------------------

func (g *gen) fundAcct0(n int) (string, []int64) {
	name := g.newName()
	var specs []string
	var amts []int64
	for i := 0; i < n; i++ {
		k, v := g.kind(), g.amount(150000, 900000)
		specs = append(specs, fmt.Sprintf("%s:0:%d", k, v))
		amts = append(amts, v)
		g.coins = append(g.coins, &gcoin{name: fmt.Sprintf("%s:%d", name, i), amt: v, kind: k, acct: 0, tx: name})
	}
	g.txs = append(g.txs, &gtx{name: name})
	g.add(fmt.Sprintf("recv tx=%s outs=%s", name, strings.Join(specs, ",")))
	return name, amts
}

// requests of every kind issued while the wallet is locked (explicit Lock, expired unlock timeout, Unlock with a
// wrong passphrase): refused, or - for a regular account - fully signed (seed C06-5)
func (g *gen) scenLockedWallet() core.Case {
	g.start()
	a, amts := g.fundAcct0(3)
	g.add("block txs=" + a)
	how := g.rng.Intn(4)
	switch how {
	case 0:
		g.add("wlock")
	case 1:
		g.add("wunlock timed=1")
		g.simpleCreate("dry", 0, "any", 1, amts[0]/3, nil)
		g.add("wexpire")
	case 2:
		g.add("wunlock pass=bad")
	default:
		g.add("wunlock timed=1")
		g.add("wunlock timed=1") // replaces the first timeout
		g.add("wexpire")
	}
	g.tag(fmt.Sprintf("locked-how%d", how))
	g.add("state")
	total := amts[0] + amts[1] + amts[2]
	apis := []string{"simple", "send", "dry", "psbt"}
	g.rng.Shuffle(len(apis), func(i, j int) { apis[i], apis[j] = apis[j], apis[i] })
	for _, api := range apis {
		g.simpleCreate(api, 0, "any", 1, total/2+g.rng.Int63n(1000), nil) // needs two coins, mixed address types
		g.simpleCreate(api, 0, "any", 1, amts[1]/2, []string{a + ":1"})
	}
	g.create(createOpt{api: "send", acct: 0, scope: "any", chg: "same", minconf: 1, rate: 1000, strat: "largest",
		outs: []string{"xwpkh:120"}, ans: "ok"}) // dust is diagnosed before the lock state
	g.create(createOpt{api: "simple", acct: 0, scope: g.kind(), chg: "same", minconf: 0, rate: 2500, strat: "largest",
		outs: []string{fmt.Sprintf("xtr:%d", amts[2]/4)}})
	g.add("state")
	if g.rng.Intn(2) == 0 {
		g.add("wexpire") // nothing armed any more
	}
	timed := g.rng.Intn(2) == 0
	if timed {
		g.add("wunlock timed=1")
	} else {
		g.add("wunlock")
	}
	s := g.simpleCreate("send", 0, "any", 1, total/2, nil)
	g.add("state")
	if timed {
		g.add("wexpire")
	} else {
		g.add("wlock")
	}
	g.simpleCreate([]string{"simple", "send"}[g.rng.Intn(2)], 0, "any", 0, amts[2]/5, []string{s + ":c"})
	g.simpleCreate("simple", 0, "any", 0, amts[2]/5, nil)
	if g.rng.Intn(2) == 0 {
		g.add("restart") // a freshly opened wallet is unlocked by the harness
		g.simpleCreate("simple", 0, "any", 0, amts[2]/5, nil)
	}
	g.add("state")
	return g.finish("locked-wallet")
}

// the NotifyReceived call of a send fails; whatever the backend had accepted by then stays published, so later
// requests must not reuse its inputs (seed C06-4); on the unchanged tree nothing was handed over and the coins are free
func (g *gen) scenNotifyFailSend() core.Case {
	g.start()
	a, amts := g.fundAcct0(2 + g.rng.Intn(2))
	g.add("block txs=" + a)
	g.add("state")
	cls := []string{"accepted", "accepted", "mempool", "rejected"}[g.rng.Intn(4)]
	var sel []string
	if g.rng.Intn(3) == 0 {
		sel = []string{a + ":0"}
	}
	g.create(createOpt{api: "send", acct: 0, scope: "any", chg: "same", minconf: 1, rate: 1000, strat: "largest",
		outs: []string{fmt.Sprintf("xwpkh:%d", amts[0]/3)}, sel: sel, ans: g.ans.pick(g.rng, cls), notify: "fail"})
	g.tag("send-notifyfail-" + cls)
	g.add("state")
	g.simpleCreate("dry", 0, "any", 1, amts[0]/3, sel)
	g.simpleCreate([]string{"simple", "psbt"}[g.rng.Intn(2)], 0, "any", 1, amts[0]/4, nil)
	s := g.simpleCreate("send", 0, "any", 1, amts[0]/3, sel)
	g.add("state")
	if g.rng.Intn(2) == 0 {
		g.add("block txs=" + s)
	}
	g.add([]string{"resync", "restart", "resync twice=1"}[g.rng.Intn(3)])
	g.simpleCreate("send", 0, "any", 0, amts[1]/3, nil)
	g.add("state")
	return g.finish("notifyfail-send")
}

// round 3 (seed C20-6): a send is refused (backend rejection of some class, or the subscription fails), nothing else
// happens, and the SAME send is retried against an accepting backend: it must succeed and spend the same coins.  The
// amount is chosen so that the request needs one coin, most coins or the only coin of the account.
func (g *gen) scenRefusedSendRetry() core.Case {
	g.start()
	n := 1 + g.rng.Intn(3)
	a, amts := g.fundAcct0(n)
	g.add("block txs=" + a)
	g.add("state")
	var total, largest int64
	for _, v := range amts {
		total += v
		if v > largest {
			largest = v
		}
	}
	amt := largest / 2
	if n > 1 && g.rng.Intn(2) == 0 {
		amt = total - total/5 // needs more than the largest coin alone in most draws
	}
	var sel []string
	if g.rng.Intn(4) == 0 {
		sel = []string{a + ":0"}
		amt = amts[0] / 2
	}
	how := []string{"rejected", "rejected", "notifyfail"}[g.rng.Intn(3)]
	o := createOpt{api: "send", acct: 0, scope: "any", chg: "same", minconf: 1, rate: 1000, strat: "largest",
		outs: []string{fmt.Sprintf("xwpkh:%d", amt)}, sel: sel}
	rounds := 1 + g.rng.Intn(2)
	for i := 0; i < rounds; i++ {
		ref := o
		if how == "notifyfail" {
			ref.ans, ref.notify = g.ans.pick(g.rng, "accepted"), "fail"
		} else {
			ref.ans = g.ans.pick(g.rng, "rejected")
		}
		g.create(ref)
		g.add("state")
	}
	g.tag("refused-send-" + how)
	if g.rng.Intn(3) == 0 {
		g.simpleCreate("dry", 0, "any", 1, amt, sel)
	}
	retry := o
	retry.ans = g.ans.pick(g.rng, []string{"accepted", "mempool"}[g.rng.Intn(2)])
	s := g.create(retry)
	g.add("state")
	if g.rng.Intn(2) == 0 {
		g.add("block txs=" + s)
		g.add("state")
	}
	return g.finish("refused-send-retry")
}

// automatic coin selection that needs a second pass of the author loop: the largest coin covers outputs + the first
// fee estimate (no inputs) but not the fee for its own input, so the source is asked again with a raised target and
// the NEXT coin is needed (seed C07-4)
func (g *gen) scenSecondPass() core.Case {
	g.start()
	k := int64([]int{1, 1, 2, 5}[g.rng.Intn(4)])
	rate := 10000 * k
	kA, kB := g.kind(), g.kind()
	A := g.amount(200000, 900000)
	B := g.amount(40000, 150000)
	name := g.newName()
	outs := fmt.Sprintf("%s:0:%d,%s:0:%d", kA, A, kB, B)
	three := g.rng.Intn(3) == 0
	if three {
		outs += fmt.Sprintf(",%s:0:%d", g.kind(), 20+g.rng.Intn(40)) // far too small to help
	}
	g.add(fmt.Sprintf("recv tx=%s outs=%s", name, outs))
	g.add("block txs=" + name)
	// fee without inputs = 84 vB (one P2WPKH output + P2TR change); with one input at least 143 vB
	x := A - 130*k*10
	api := []string{"dry", "simple", "psbt", "send"}[g.rng.Intn(4)]
	strat := "largest"
	if !three && api != "simple" && g.rng.Intn(4) == 0 {
		strat = "random"
		g.tag("random-strategy")
	}
	g.create(createOpt{api: api, acct: 0, scope: "any", chg: "same", minconf: 1, rate: rate, strat: strat,
		outs: []string{fmt.Sprintf("xwpkh:%d", x)}, ans: "ok"})
	g.tag("second-pass-" + kA)
	if strat == "largest" {
		g.add("state")
		// and once more with what is left / with everything (dry): first pass enough
		g.simpleCreate("dry", 0, "any", 1, B/3, nil)
	}
	return g.finish("second-pass")
}

// a re-publish of a transaction the wallet already tracks (with a child) fails at the subscription step (seed C20-4)
func (g *gen) scenRepublishTracked() core.Case {
	g.start()
	a, amts := g.fundAcct0(1)
	g.add("block txs=" + a)
	p := g.simpleCreate("send", 0, "any", 1, amts[0]/3, []string{a + ":0"})
	c := g.simpleCreate("send", 0, "any", 0, amts[0]/9, []string{p + ":c"})
	_ = c
	if g.rng.Intn(2) == 0 {
		g.recv(1, []string{p + ":0"})
	}
	g.add("state")
	g.add(fmt.Sprintf("publish name=%s ans=%s notify=fail", p, g.ans.pick(g.rng, g.ans.randomClass(g.rng))))
	g.add("state")
	g.simpleCreate("dry", 0, "any", 0, amts[0]/2, nil)
	g.add("resync")
	g.add("state")
	return g.finish("republish-tracked-notifyfail")
}

// two resynchronisations, the second finishing while the re-broadcast of the first is still waiting for the backend
// (seed C20-5)
func (g *gen) scenDoubleResync() core.Case {
	g.start()
	a, amts := g.fundAcct0(2)
	if g.rng.Intn(2) == 0 {
		g.add("block txs=" + a)
	}
	p := g.simpleCreate("send", 0, "any", 0, amts[0]/3, []string{a + ":0"})
	var all []string
	all = append(all, p)
	if g.rng.Intn(2) == 0 {
		all = append(all, g.simpleCreate("send", 0, "any", 0, amts[0]/9, []string{p + ":c"}))
	}
	if g.rng.Intn(2) == 0 {
		all = append(all, g.simpleCreate("send", 0, "any", 0, amts[1]/3, []string{a + ":1"}))
	}
	g.add("state")
	op := "resync twice=1"
	if g.rng.Intn(2) == 0 {
		cls := g.ans.randomClass(g.rng)
		op += fmt.Sprintf(" ans=%s@%s", all[g.rng.Intn(len(all))], g.ans.pick(g.rng, cls))
		g.tag("double-resync-" + cls)
	}
	g.add(op)
	g.add("state")
	g.add("resync")
	g.add("state")
	return g.finish("double-resync")
}

// ---- exhaustive small-scope enumerations (thorough tier) ----------------------------------------------------------

// every explicit selection of length 1 and 2 (incl. repeats) over a fixed 8-coin universe in which each coin fails a
// different clause of the eligibility sentence, through every entry point
func (g *gen) enumSelections() []core.Case {
	var cases []core.Case
	setup := func() (coins []string) {
		g.start()
		g.add("recv tx=T1 outs=wpkh:0:400001,tr:0:300002,pkh:0:200003,np:0:250004,wpkh:1:350005,wpkh:0:150006")
		g.add("block txs=T1")
		g.add("recv tx=T2 outs=wpkh:0:500007") // unconfirmed, minconf 1
		g.add("lock op=T1:2")
		g.add("lease op=T1:3 id=1 dur=600")
		g.add("create name=T3 api=send acct=0 scope=any chg=same minconf=1 rate=1000 strat=largest outs=xwpkh:100000 sel=T1:5 ans=ok") // T1:5 spent by unconfirmed
		g.next = 3
		return []string{"T1:0", "T1:1", "T1:2", "T1:3", "T1:4", "T2:0", "T1:5", "T950:0"}
	}
	for _, api := range []string{"dry", "simple", "psbt", "send"} {
		coins := setup()
		n := 0
		flush := func() {
			g.add("state")
			cases = append(cases, g.finish("enum-selection"))
			coins = setup()
			n = 0
		}
		var sels [][]string
		for _, a := range coins {
			sels = append(sels, []string{a})
			for _, b := range coins {
				sels = append(sels, []string{a, b})
			}
		}
		for _, sel := range sels {
			if api == "send" || api == "simple" {
				// a successful send changes the state: one selection per fresh wallet
				g.simpleCreate(api, 0, "any", 1, 60000, sel)
				flush()
				continue
			}
			g.simpleCreate(api, 0, "any", 1, 60000, sel)
			n++
			if n == 24 {
				flush()
			}
		}
		if n > 0 {
			flush()
		}
	}
	return cases
}

// every answer class x shape of the published transaction x entry point
func (g *gen) enumAnswers() []core.Case {
	var cases []core.Case
	classes := []string{"accepted", "mempool", "known", "confirmed", "rejected", "undefined", "notifyfail"}
	for _, cls := range classes {
		for shape := 0; shape < 5; shape++ { // 0 new, 1 new+lease on input, 2 recorded no child, 3 recorded with child chain, 4 confirmed with unconfirmed child
			for entry := 0; entry < 3; entry++ { // 0 publish, 1 resync, 2 restart
				if (shape < 2 || cls == "notifyfail") && entry > 0 {
					continue // a new transaction is not in the resend list; NotifyReceived is not called on resend
				}
				g.start()
				g.add("recv tx=T1 outs=wpkh:0:600001,tr:0:500002")
				g.add("block txs=T1")
				g.next = 1
				var target string
				switch shape {
				case 0, 1:
					target = g.simpleCreate("simple", 0, "any", 1, 100000, []string{"T1:0"})
					if shape == 1 {
						g.add("lease op=T1:0 id=1 dur=600")
					}
				case 2:
					target = g.simpleCreate("send", 0, "any", 1, 100000, []string{"T1:0"})
				case 3:
					target = g.simpleCreate("send", 0, "any", 1, 100000, []string{"T1:0"})
					c := g.simpleCreate("send", 0, "any", 0, 50000, []string{target + ":c"})
					g.simpleCreate("send", 0, "any", 0, 20000, []string{c + ":c"})
					g.recv(1, []string{target + ":0"})
				case 4:
					target = g.simpleCreate("send", 0, "any", 1, 100000, []string{"T1:0"})
					g.add("block txs=" + target)
					g.simpleCreate("send", 0, "any", 0, 50000, []string{target + ":c"})
				}
				g.add("state")
				var spec string
				switch cls {
				case "undefined":
					spec = []string{"b:connection+reset+by+peer", "n:something+unexpected"}[g.rng.Intn(2)]
				case "notifyfail":
					spec = "ok"
				default:
					spec = g.ans.pick(g.rng, cls)
					for cls == "rejected" && intendedClass(spec) != "rejected" {
						spec = g.ans.pick(g.rng, cls)
					}
				}
				switch entry {
				case 0:
					op := fmt.Sprintf("publish name=%s ans=%s", target, spec)
					if cls == "notifyfail" {
						op += " notify=fail"
					}
					g.add(op)
				case 1:
					g.add(fmt.Sprintf("resync ans=%s@%s", target, spec))
				case 2:
					g.add(fmt.Sprintf("restart ans=%s@%s", target, spec))
				}
				g.add("state")
				g.simpleCreate("dry", 0, "any", 0, 300000, nil)
				g.add("resync")
				g.add("state")
				cases = append(cases, g.finish(fmt.Sprintf("enum-answer-%s-shape%d-entry%d", cls, shape, entry)))
			}
		}
	}
	return cases
}

func (engine) Generate(rng *rand.Rand, tier string) []core.Case {
	g := &gen{rng: rng, ans: buildAnswers()}
	nWalk, nScen, walkLen := 140, 12, 28
	if tier == "thorough" {
		nWalk, nScen, walkLen = 1000, 50, 36
	}
	var cases []core.Case
	for i := 0; i < nScen; i++ {
		cases = append(cases, g.scenCoinbase(), g.scenLocks(), g.scenSelection(), g.scenChain(), g.scenAnswers(),
			g.scenReorg(), g.scenDoubleSpend(), g.scenChangeless(),
			g.scenLockedWallet(), g.scenNotifyFailSend(), g.scenSecondPass(), g.scenRepublishTracked(), g.scenDoubleResync(), g.scenRefusedSendRetry())
	}
	if tier == "thorough" {
		cases = append(cases, g.enumSelections()...)
	}
	cases = append(cases, g.enumAnswers()...)
	for i := 0; i < nWalk; i++ {
		cases = append(cases, g.randomWalk(walkLen))
	}
	// malformed stream
	cases = append(cases, core.Case{Ops: []string{"reset", "frobnicate", "create name=T1", "publish name=T9 ans=ok",
		"block txs=T4", "reorg depth=9", "lease op=T1:0 id=1 dur=5", "release op=T1:0 id=1", "tipahead n=0", "wexpire", "wlock x=1",
		"wunlock timed=2", "resync twice=2", "restart twice=1", "state"}, Tags: []string{"malformed"}})
	return cases
}
