package walletchaintx

import (
	"fmt"
	"sort"
	"time"

	"github.com/btcsuite/btcd/btcutil"
	"github.com/btcsuite/btcd/chaincfg/chainhash"
	"github.com/btcsuite/btcd/txscript"
	"github.com/btcsuite/btcd/wire"
	"github.com/btcsuite/btcwallet/wallet/txrules"
	"github.com/btcsuite/btcwallet/wallet/txsizes"
	"github.com/btcsuite/btcwallet/walletdb"
)

// ---- the backend's side of the story --------------------------------------------------------------------------------
//
// The fake records every SendRawTransaction call (raw transaction + the answer it gave).  From that record alone the
// runner keeps `backend`: the transactions the backend accepted (answer "ok") or said it already holds in its mempool,
// and still has.  A transaction leaves the set when
//   * the backend later answers anything else for it (refused / already known / already confirmed: the harness ledger
//     treats those as "gone" as well), together with everything that spends its outputs;
//   * a block confirms a transaction spending one of its inputs (it can never confirm), with its descendants;
//   * a coinbase it descends from is reorged away;
//   * the wallet was told to publish it, could not complete the hand-over BEFORE talking to the backend and returned
//     an error (C20 then demands that it is forgotten; the ledger follows C20).
// An "accepted" answer for a transaction one of whose parents is in `refused` is a scripting artefact (a real backend
// cannot accept a child of a transaction it just refused); it is ignored and the child is marked refused too.
//
// What the wallet returned plays no role here: C06's "once a created transaction has been published, no later one
// reuses its inputs" and C20's "forgotten applies to a FAILED broadcast" are evaluated against this set.

func (r *runner) ledgerByHash(h chainhash.Hash) *txInfo {
	for _, n := range r.order {
		if r.txs[n].hash == h {
			return r.txs[n]
		}
	}
	return nil
}

// backendDrop removes h and everything (backend set or unconfirmed ledger transaction) spending its outputs.
func (r *runner) backendDrop(h chainhash.Hash) {
	if r.refused[h] {
		delete(r.backend, h)
		return
	}
	r.refused[h] = true
	delete(r.backend, h)
	var next []chainhash.Hash
	for bh, btx := range r.backend {
		for _, in := range btx.TxIn {
			if in.PreviousOutPoint.Hash == h {
				next = append(next, bh)
				break
			}
		}
	}
	for _, n := range r.order {
		ti := r.txs[n]
		if ti.height >= 0 {
			continue
		}
		for _, in := range ti.tx.TxIn {
			if in.PreviousOutPoint.Hash == h {
				next = append(next, ti.hash)
				break
			}
		}
	}
	for _, x := range next {
		r.backendDrop(x)
	}
}

// absorbCalls folds the fake's SendRawTransaction record since the last call into the backend set and returns the
// new calls.
func (r *runner) absorbCalls() []sendCall {
	r.fc.mu.Lock()
	calls := append([]sendCall{}, r.fc.calls[r.nCalls:]...)
	r.nCalls = len(r.fc.calls)
	r.fc.mu.Unlock()
	for _, c := range calls {
		switch intendedClass(c.spec) {
		case "accepted", "mempool":
			orphan := false
			for _, in := range c.tx.TxIn {
				if r.refused[in.PreviousOutPoint.Hash] {
					orphan = true
				}
			}
			if orphan {
				r.backendDrop(c.hash)
				continue
			}
			r.backend[c.hash] = c.tx
			delete(r.refused, c.hash)
		default:
			delete(r.refused, c.hash) // so that the drop below is not short-cut
			r.backendDrop(c.hash)
		}
	}
	return calls
}

// backendMined: tx was confirmed; whatever the backend held that spends one of its inputs is gone for good.
func (r *runner) backendMined(tx *wire.MsgTx, hash chainhash.Hash) {
	delete(r.refused, hash)
	for _, in := range tx.TxIn {
		var victims []chainhash.Hash
		for bh, btx := range r.backend {
			if bh == hash {
				continue
			}
			for _, bin := range btx.TxIn {
				if bin.PreviousOutPoint == in.PreviousOutPoint {
					victims = append(victims, bh)
					break
				}
			}
		}
		for _, v := range victims {
			r.backendDrop(v)
		}
	}
}

// walletKnows: the wallet's store has a record (confirmed or not) of the transaction.
func (r *runner) walletKnows(h chainhash.Hash) (bool, error) {
	known := false
	err := walletdb.View(r.w.Database(), func(tx walletdb.ReadTx) error {
		d, err := r.w.TxStore.TxDetails(tx.ReadBucket(wtxmgrNS), &h)
		known = d != nil
		return err
	})
	return known, err
}

func (r *runner) hashName(h chainhash.Hash) string {
	if ti := r.ledgerByHash(h); ti != nil {
		return ti.name
	}
	return "tx " + h.String()[:8] + " (never returned to the caller)"
}

// forgottenAccepted evaluates C20's boundary on the calls of one op: a transaction the backend accepted during this op
// and still has must still be recorded by the wallet (whether or not the wallet returned an error).
func (r *runner) forgottenAccepted(calls []sendCall, site string) []string {
	var viols []string
	seen := map[chainhash.Hash]bool{}
	for _, c := range calls {
		if seen[c.hash] || r.backend[c.hash] == nil {
			continue
		}
		seen[c.hash] = true
		known, err := r.walletKnows(c.hash)
		if err == nil && !known {
			viols = append(viols, fmt.Sprintf("C20 key=publish.accepted-by-backend-but-forgotten: %s: the backend accepted %s (answer %q) but the wallet no longer records it: its inputs look unspent although the transaction is published",
				site, r.hashName(c.hash), c.spec))
		}
	}
	return viols
}

// reusedAfterAccepted evaluates C06's "once a created transaction has been published, no later one reuses its inputs"
// against everything the backend accepted.
func (r *runner) reusedAfterAccepted(tx *wire.MsgTx) []string {
	var viols []string
	self := tx.TxHash()
	var hs []chainhash.Hash
	for h := range r.backend {
		hs = append(hs, h)
	}
	sort.Slice(hs, func(i, j int) bool { return hs[i].String() < hs[j].String() })
	for _, in := range tx.TxIn {
		for _, h := range hs {
			if h == self {
				continue
			}
			if ti := r.ledgerByHash(h); ti != nil && !ti.created {
				continue // not a transaction this wallet created
			}
			for _, bin := range r.backend[h].TxIn {
				if bin.PreviousOutPoint == in.PreviousOutPoint {
					viols = append(viols, fmt.Sprintf("C06 key=publish.input-reused-after-backend-accepted: created transaction spends %s, which is already spent by %s that the backend accepted",
						r.coinName(in.PreviousOutPoint), r.hashName(h)))
				}
			}
		}
	}
	return viols
}

// ---- wallet lock / unlock -------------------------------------------------------------------------------------------

// wlock | wunlock [timed=1] [pass=bad] | wexpire : Wallet.Lock / Wallet.Unlock (optionally with a lock timeout the
// harness holds) / the armed timeout fires.
func (r *runner) opWalletLock(kind string, kv map[string]string) (string, string) {
	switch kind {
	case "wlock":
		r.w.Lock()
		r.wLocked, r.lockTimer = true, nil
	case "wunlock":
		if kv["pass"] == "bad" {
			err := r.w.Unlock([]byte("not the passphrase"), nil)
			r.wLocked = true // a wrong passphrase locks the manager (waddrmgr.Manager.Unlock)
			if err == nil {
				return fmt.Sprintf("ok locked=%v", r.w.Locked()), ""
			}
			return fmt.Sprintf("err=wrong-passphrase locked=%v", r.w.Locked()), ""
		}
		var ch chan time.Time
		var after <-chan time.Time
		if kv["timed"] == "1" {
			ch = make(chan time.Time)
			after = ch
		}
		if err := r.w.Unlock(privPass, after); err != nil {
			return "harness-error unlock: " + err.Error(), ""
		}
		r.wLocked, r.lockTimer = false, ch
	case "wexpire":
		if r.lockTimer != nil {
			select {
			case r.lockTimer <- t0:
			case <-time.After(30 * time.Second): // generous: the wallet's locker goroutine always takes it
				return "harness-error lock timer not taken", ""
			}
			r.wLocked, r.lockTimer = true, nil
		}
	}
	return fmt.Sprintf("ok locked=%v", r.w.Locked()), ""
}

// ---- C07 (wallet level): "reports insufficient funds only when the offered coins cannot cover the outputs plus the
// required fee", evaluated on the wallet's real eligible set as the harness ledger sees it ---------------------------------

func changeScriptSize(kind string) int {
	switch kind {
	case "pkh":
		return txsizes.P2PKHPkScriptSize
	case "tr":
		return txsizes.P2TRPkScriptSize
	}
	return txsizes.P2WPKHPkScriptSize // BIP84, and BIP49+ whose internal address type is P2WPKH
}

func feeOfCoins(cs []*coin, outs []*wire.TxOut, chgSize int, rate int64) int64 {
	var p2pkh, p2tr, p2wpkh, nested int
	for _, c := range cs {
		switch {
		case txscript.IsPayToPubKeyHash(c.script):
			p2pkh++
		case txscript.IsPayToTaproot(c.script):
			p2tr++
		case txscript.IsPayToWitnessPubKeyHash(c.script):
			p2wpkh++
		default:
			nested++
		}
	}
	return int64(txrules.FeeForSerializeSize(btcutil.Amount(rate), txsizes.EstimateVirtualSize(p2pkh, p2tr, p2wpkh, nested, outs, chgSize)))
}

// coveredAlthoughInsufficient: the request failed with "insufficient funds" under automatic coin selection.  Largest
// first: if some prefix of the eligible coins in descending order covers outputs + the fee for spending exactly that
// prefix, the loop of NewUnsignedTransaction over makeInputSource must have stopped there.  Random: every arrangement
// ends with all positively yielding coins.
func (r *runner) coveredAlthoughInsufficient(q *createReq, outs []*wire.TxOut, chgKind string) string {
	if len(q.sel) > 0 || q.rate < int64(txrules.DefaultRelayFeePerKb) {
		return ""
	}
	var el []*coin
	for _, n := range r.order {
		for _, c := range r.txs[n].coins {
			if r.ineligible(c, q) == "" {
				el = append(el, c)
			}
		}
	}
	var sumOuts int64
	for _, o := range outs {
		sumOuts += o.Value
	}
	chgSize := changeScriptSize(chgKind)
	describe := func(p []*coin, total, need int64) string {
		var names []string
		for _, c := range p {
			names = append(names, fmt.Sprintf("%s:%s=%d", c.txName, c.idx, c.amt))
		}
		return fmt.Sprintf("C07 key=createtx.insufficient-funds-although-covered: %s (strategy %s) reported insufficient funds, but the eligible coins %v total %d sat and outputs (%d) plus the fee for spending exactly them (%d) need %d sat",
			q.api, q.strat, names, total, sumOuts, need-sumOuts, need)
	}
	if q.strat == "random" {
		var p []*coin
		var total int64
		for _, c := range el {
			if q.rate*int64(txsizes.GetMinInputVirtualSize(c.script))/1000 < c.amt {
				p = append(p, c)
				total += c.amt
			}
		}
		if need := sumOuts + feeOfCoins(p, outs, chgSize, q.rate); len(p) > 0 && total >= need {
			return describe(p, total, need)
		}
		return ""
	}
	sort.SliceStable(el, func(i, j int) bool { return el[i].amt > el[j].amt })
	var total int64
	for i, c := range el {
		total += c.amt
		if need := sumOuts + feeOfCoins(el[:i+1], outs, chgSize, q.rate); total >= need {
			return describe(el[:i+1], total, need)
		}
	}
	return ""
}
