package walletchaintx

import (
	"crypto/sha256"
	"errors"
	"fmt"
	"os"
	"sort"
	"strconv"
	"strings"
	"sync"
	"sync/atomic"
	"time"

	"github.com/btcsuite/btcd/blockchain"
	"github.com/btcsuite/btcd/btcutil"
	"github.com/btcsuite/btcd/btcutil/psbt"
	"github.com/btcsuite/btcd/chaincfg"
	"github.com/btcsuite/btcd/chaincfg/chainhash"
	"github.com/btcsuite/btcd/txscript"
	"github.com/btcsuite/btcd/wire"
	"github.com/btcsuite/btclog"
	"github.com/btcsuite/btcwallet/chain"
	"github.com/btcsuite/btcwallet/snacl"
	"github.com/btcsuite/btcwallet/waddrmgr"
	"github.com/btcsuite/btcwallet/wallet"
	"github.com/btcsuite/btcwallet/wallet/txauthor"
	"github.com/btcsuite/btcwallet/wallet/txrules"
	"github.com/btcsuite/btcwallet/walletdb"
	_ "github.com/btcsuite/btcwallet/walletdb/bdb"
	"github.com/btcsuite/btcwallet/wtxmgr"
	"github.com/lightningnetwork/lnd/clock"

	"verifharness/core"
)

var params = &chaincfg.SimNetParams

const baseHeight = 5
const maturity = 100

var (
	pubPass  = []byte("public")
	privPass = []byte("private")
	wtxmgrNS = []byte("wtxmgr")
)

var scopes = map[string]waddrmgr.KeyScope{
	"pkh":  waddrmgr.KeyScopeBIP0044,
	"np":   waddrmgr.KeyScopeBIP0049Plus,
	"wpkh": waddrmgr.KeyScopeBIP0084,
	"tr":   waddrmgr.KeyScopeBIP0086,
}

// ---- logger used only to learn when resendUnminedTxs has finished one transaction --------------------------------

type countLogger struct{ rebroadcasts, finished int64 }

func (l *countLogger) note(f string) {
	if strings.HasPrefix(f, "Unable to rebroadcast") || strings.HasPrefix(f, "Successfully rebroadcast") {
		atomic.AddInt64(&l.rebroadcasts, 1)
	}
}
func (l *countLogger) Tracef(string, ...interface{})      {}
func (l *countLogger) Debugf(f string, _ ...interface{})  { l.note(f) }
func (l *countLogger) Infof(f string, _ ...interface{}) {
	if strings.HasPrefix(f, "Finished rescan") {
		atomic.AddInt64(&l.finished, 1)
	}
}
func (l *countLogger) Warnf(f string, a ...interface{})   { dbg("WARN "+f, a...) }
func (l *countLogger) Errorf(f string, a ...interface{})  { dbg("ERROR "+f, a...) }
func (l *countLogger) Criticalf(string, ...interface{})   {}
func (l *countLogger) Trace(...interface{})               {}
func (l *countLogger) Debug(...interface{})               {}
func (l *countLogger) Info(...interface{})                {}
func (l *countLogger) Warn(...interface{})                {}
func (l *countLogger) Error(...interface{})               {}
func (l *countLogger) Critical(...interface{})            {}
func (l *countLogger) Level() btclog.Level                { return btclog.LevelDebug }
func (l *countLogger) SetLevel(btclog.Level)              {}

var theLogger = &countLogger{}
var setupOnce sync.Once

func dbg(f string, a ...interface{}) {
	if os.Getenv("VX_DEBUG") != "" {
		fmt.Fprintf(os.Stderr, f+"\n", a...)
	}
}

func setup() {
	setupOnce.Do(func() {
		waddrmgr.SetSecretKeyGen(func(p *[]byte, _ *waddrmgr.ScryptOptions) (*snacl.SecretKey, error) {
			return snacl.NewSecretKey(p, 16, 8, 1)
		})
		wallet.UseLogger(theLogger)
	})
}

// ---- harness-side ledger: what the harness fed to the wallet, independent of wtxmgr ------------------------------

type coin struct {
	txName string
	idx    string // "0","1",... (ordinal among the tx's requested outputs) or "c" (change)
	op     wire.OutPoint
	amt    int64
	kind   string
	acct   uint32
	script []byte
}

type txInfo struct {
	name     string
	tx       *wire.MsgTx
	hash     chainhash.Hash
	height   int32 // -1 = unconfirmed
	known    bool  // the wallet is supposed to know it
	coinbase bool
	created  bool // authored by the wallet under test
	coins    []*coin
	outIdx   map[string]uint32 // requested-output ordinal -> real output index (own and foreign outputs alike)
}

type lease struct {
	id     int
	expiry int64
}

type runner struct {
	dir    string
	loader *wallet.Loader
	w      *wallet.Wallet
	fc     *fakeChain
	clk    *clock.TestClock
	now    int64 // seconds since t0

	txs       map[string]*txInfo
	order     []string
	userLock  map[wire.OutPoint]bool
	leases    map[wire.OutPoint]lease
	pending   int // blocks the backend has but the wallet has not been told about
	wHeight   int32
	fakeCtr   int
	published map[wire.OutPoint]string // inputs of created transactions that were published and are still known

	// the BACKEND's side of the story, from the fake's own record of SendRawTransaction calls (backend.go)
	backend map[chainhash.Hash]*wire.MsgTx // transactions the backend accepted (or already had) and still has
	refused map[chainhash.Hash]bool        // transactions the backend refused last time / that lost an ancestor
	nCalls  int                            // calls of r.fc already absorbed

	// wallet lock state as the harness commanded it (wlock / wunlock / wexpire), independent of the wallet's own flag
	wLocked   bool
	lockTimer chan time.Time // the armed unlock timeout, nil if none

	lastRefused *refusedSend // walletview.go
}

func (r *runner) Close() {
	if r.loader != nil {
		if r.fc != nil {
			r.fc.Stop()
		}
		_ = r.loader.UnloadWallet()
		r.loader = nil
	}
	if r.dir != "" {
		os.RemoveAll(r.dir)
		r.dir = ""
	}
}

func (r *runner) reset() error {
	r.Close()
	setup()
	dir, err := os.MkdirTemp("", "wctx")
	if err != nil {
		return err
	}
	r.dir = dir
	r.txs = map[string]*txInfo{}
	r.order = nil
	r.userLock = map[wire.OutPoint]bool{}
	r.leases = map[wire.OutPoint]lease{}
	r.published = map[wire.OutPoint]string{}
	r.backend = map[chainhash.Hash]*wire.MsgTx{}
	r.refused = map[chainhash.Hash]bool{}
	r.nCalls = 0
	r.wLocked = false
	r.lockTimer = nil
	r.pending = 0
	r.now = 1000
	r.wHeight = baseHeight
	r.loader = wallet.NewLoader(params, dir, true, 10*time.Second, 0, wallet.WithWalletSyncRetryInterval(10*time.Millisecond))
	seed := sha256.Sum256([]byte("verif-seed"))
	w, err := r.loader.CreateNewWallet(pubPass, privPass, seed[:], t0)
	if err != nil {
		return err
	}
	r.w = w
	r.fc = newFakeChain(baseHeight)
	if err := r.attach(); err != nil {
		return err
	}
	for _, k := range []string{"pkh", "np", "wpkh", "tr"} {
		if _, err := w.NextAccount(scopes[k], "second"); err != nil {
			return fmt.Errorf("NextAccount %s: %w", k, err)
		}
	}
	return nil
}

// attach starts syncing r.w with r.fc, waits for the initial rescan and unlocks the wallet.
func (r *runner) attach() error {
	r.clk = clock.NewTestClock(t0.Add(time.Duration(r.now) * time.Second))
	r.w.TxStore.VerifSetClock(r.clk)
	fin0 := atomic.LoadInt64(&theLogger.finished)
	r.w.SynchronizeRPC(r.fc)
	r.fc.notify(chain.ClientConnected{})
	limit := 60 * time.Second // generous: never reached on the unchanged tree
	if atomic.LoadInt32(&quietTimeouts) >= 3 {
		limit = 10 * time.Second
	}
	deadline := time.Now().Add(limit)
	for !r.w.ChainSynced() || r.fc.rescanCount() == 0 || !r.fc.allDelivered() {
		if time.Now().After(deadline) {
			atomic.AddInt32(&quietTimeouts, 1)
			return errors.New("initial sync timeout")
		}
		time.Sleep(200 * time.Microsecond)
	}
	r.fc.notify()
	// The start-up rescan ends like every rescan: rescanProgressHandler logs "Finished rescan" and starts
	// resendUnminedTxs.  Wait until that goroutine has come and gone — otherwise a late one (starved machine) reads the
	// store only after a LATER op has recorded a transaction and offers it to the backend in the middle of that op.
	for atomic.LoadInt64(&theLogger.finished) == fin0 {
		if time.Now().After(deadline) {
			break
		}
		time.Sleep(200 * time.Microsecond)
	}
	rebroadcastsOver()
	r.wLocked, r.lockTimer = false, nil
	return r.w.Unlock(privPass, nil)
}

func (f *fakeChain) rescanCount() int { f.mu.Lock(); defer f.mu.Unlock(); return f.rescans }
func (f *fakeChain) allDelivered() bool {
	f.mu.Lock()
	defer f.mu.Unlock()
	return f.delivered == f.rescans
}

// ---- helpers ------------------------------------------------------------------------------------------------------

func (r *runner) addTx(ti *txInfo) {
	r.txs[ti.name] = ti
	r.order = append(r.order, ti.name)
}

func dummyOutPoint(name string) wire.OutPoint {
	return wire.OutPoint{Hash: chainhash.Hash(sha256.Sum256([]byte("unknown-outpoint " + name))), Index: 0}
}

// resolve maps an outpoint name "T3:1" / "T7:c" to the real outpoint and the ledger coin (nil if no such coin).
func (r *runner) resolve(name string) (wire.OutPoint, *coin) {
	p := strings.SplitN(name, ":", 2)
	if len(p) == 2 {
		if ti := r.txs[p[0]]; ti != nil {
			for _, c := range ti.coins {
				if c.idx == p[1] {
					return c.op, c
				}
			}
			// an output of a known transaction that is not credited to the wallet
			if i, ok := ti.outIdx[p[1]]; ok {
				return wire.OutPoint{Hash: ti.hash, Index: i}, nil
			}
		}
	}
	return dummyOutPoint(name), nil
}

func (r *runner) coinName(op wire.OutPoint) string {
	for _, n := range r.order {
		for _, c := range r.txs[n].coins {
			if c.op == op {
				return c.txName + ":" + c.idx
			}
		}
	}
	return "?" + op.String()[:8]
}

func (r *runner) coinByOp(op wire.OutPoint) *coin {
	for _, n := range r.order {
		for _, c := range r.txs[n].coins {
			if c.op == op {
				return c
			}
		}
	}
	return nil
}

func (r *runner) txNameByHash(h chainhash.Hash) string {
	for _, n := range r.order {
		if r.txs[n].hash == h {
			return n
		}
	}
	return "?" + h.String()[:8]
}

// spender returns the name of a known transaction spending op ("" if none).
func (r *runner) spender(op wire.OutPoint) string {
	for _, n := range r.order {
		ti := r.txs[n]
		if !ti.known {
			continue
		}
		for _, in := range ti.tx.TxIn {
			if in.PreviousOutPoint == op {
				return n
			}
		}
	}
	return ""
}

// forget marks name and every known unconfirmed transaction spending its outputs as unknown (the property's
// "the transaction and every unconfirmed transaction spending its outputs are forgotten").
func (r *runner) forget(name string) {
	ti := r.txs[name]
	if ti == nil {
		return
	}
	if ti.height < 0 {
		ti.known = false
	}
	for _, n := range r.order {
		c := r.txs[n]
		if !c.known || c.height >= 0 || n == name {
			continue
		}
		for _, in := range c.tx.TxIn {
			if in.PreviousOutPoint.Hash == ti.hash {
				r.forget(n)
				break
			}
		}
	}
	for op, n := range r.published {
		if t := r.txs[n]; t == nil || !t.known {
			delete(r.published, op)
		}
	}
}

func (r *runner) newAddrScript(kind string, acct uint32) ([]byte, error) {
	a, err := r.w.NewAddress(acct, scopes[kind])
	if err != nil {
		return nil, err
	}
	return txscript.PayToAddrScript(a)
}

func (r *runner) foreignScript(kind string) []byte {
	r.fakeCtr++
	h := sha256.Sum256([]byte(fmt.Sprintf("foreign %d", r.fakeCtr)))
	var a btcutil.Address
	switch kind {
	case "xpkh":
		a, _ = btcutil.NewAddressPubKeyHash(h[:20], params)
	case "xnp":
		a, _ = btcutil.NewAddressScriptHashFromHash(h[:20], params)
	case "xtr":
		a, _ = btcutil.NewAddressTaproot(h[:32], params)
	default:
		a, _ = btcutil.NewAddressWitnessPubKeyHash(h[:20], params)
	}
	s, _ := txscript.PayToAddrScript(a)
	return s
}

func (r *runner) fakeInput() *wire.TxIn {
	r.fakeCtr++
	h := sha256.Sum256([]byte(fmt.Sprintf("foreign-prev %d", r.fakeCtr)))
	return wire.NewTxIn(&wire.OutPoint{Hash: chainhash.Hash(h), Index: uint32(r.fakeCtr % 3)}, nil, nil)
}

func (r *runner) setNow() { r.clk.SetTime(t0.Add(time.Duration(r.now) * time.Second)) }

func (r *runner) leased(op wire.OutPoint) bool {
	l, ok := r.leases[op]
	return ok && l.expiry > r.now
}

// ---- state snapshot from the REAL wallet -----------------------------------------------------------------------

type snapshot struct {
	bals    map[int32]int64
	utxos   []string
	unmined []string
}

func (s snapshot) String() string {
	var b []string
	for _, m := range []int32{0, 1, 2, 6, 100} {
		b = append(b, fmt.Sprintf("bal%d=%d", m, s.bals[m]))
	}
	return strings.Join(b, " ") + " utxos=" + strings.Join(s.utxos, ",") + " unmined=" + strings.Join(s.unmined, ",")
}

func (r *runner) snap() (snapshot, error) {
	s := snapshot{bals: map[int32]int64{}}
	for _, m := range []int32{0, 1, 2, 6, 100} {
		b, err := r.w.CalculateBalance(m)
		if err != nil {
			return s, err
		}
		s.bals[m] = int64(b)
	}
	err := walletdb.View(r.w.Database(), func(tx walletdb.ReadTx) error {
		ns := tx.ReadBucket(wtxmgrNS)
		us, err := r.w.TxStore.UnspentOutputs(ns)
		if err != nil {
			return err
		}
		for _, u := range us {
			s.utxos = append(s.utxos, fmt.Sprintf("%s:%d", r.coinName(u.OutPoint), int64(u.Amount)))
		}
		hs, err := r.w.TxStore.UnminedTxHashes(ns)
		if err != nil {
			return err
		}
		for _, h := range hs {
			s.unmined = append(s.unmined, r.txNameByHash(*h))
		}
		return nil
	})
	sort.Strings(s.utxos)
	sort.Strings(s.unmined)
	return s, err
}

func (r *runner) unminedTxs() ([]*wire.MsgTx, error) {
	var txs []*wire.MsgTx
	err := walletdb.View(r.w.Database(), func(tx walletdb.ReadTx) error {
		var err error
		txs, err = r.w.TxStore.UnminedTxs(tx.ReadBucket(wtxmgrNS))
		return err
	})
	return txs, err
}

// ---- ops ----------------------------------------------------------------------------------------------------------

type engine struct{}

func init() { core.Register(engine{}) }

func (engine) Name() string           { return "walletchain-tx" }
func (engine) NewRunner() core.Runner { return &runner{} }

func (r *runner) Exec(op string) (string, string) {
	dbg("op: %s", op)
	if r.w != nil && os.Getenv("VX_DEBUG") != "" {
		dbg("   wallet syncedTo=%d ledger wHeight=%d tip=%d pending=%d", r.w.Manager.SyncedTo().Height, r.wHeight, r.fc.tip(), r.pending)
	}
	kind, kv := core.KV(op)
	if kind != "state" && kind != "create" {
		r.lastRefused = nil
	}
	if kind == "reset" {
		if err := r.reset(); err != nil {
			return "harness-error " + err.Error(), ""
		}
		return "ok", ""
	}
	if r.w == nil {
		return "bad-op", ""
	}
	switch kind {
	case "recv":
		return r.opRecv(kv)
	case "block":
		return r.opBlock(kv)
	case "tipahead":
		n, err := strconv.Atoi(kv["n"])
		if err != nil || n < 1 || n > 400 {
			return "bad-op", ""
		}
		for i := 0; i < n; i++ {
			r.fc.extend()
		}
		r.pending += n
		return fmt.Sprintf("ok tip=%d", r.fc.tip()), ""
	case "flush":
		r.flush()
		return fmt.Sprintf("ok h=%d", r.wHeight), ""
	case "reorg":
		return r.opReorg(kv)
	case "lock", "unlock":
		op, _ := r.resolve(kv["op"])
		if kind == "lock" {
			r.w.LockOutpoint(op)
			r.userLock[op] = true
		} else {
			r.w.UnlockOutpoint(op)
			delete(r.userLock, op)
		}
		return "ok", ""
	case "lease", "release":
		return r.opLease(kind, kv)
	case "clock":
		n, err := strconv.Atoi(kv["adv"])
		if err != nil || n < 0 {
			return "bad-op", ""
		}
		r.now += int64(n)
		r.setNow()
		return fmt.Sprintf("ok now=%d", r.now), ""
	case "wlock", "wunlock", "wexpire":
		return r.opWalletLock(kind, kv)
	case "create":
		return r.opCreate(kv)
	case "publish":
		return r.opPublish(kv)
	case "resync", "restart":
		return r.opResync(kind, kv)
	case "state":
		s, err := r.snap()
		if err != nil {
			return "harness-error " + err.Error(), ""
		}
		return fmt.Sprintf("h=%d tip=%d %s", r.w.Manager.SyncedTo().Height, r.fc.tip(), s), ""
	}
	return "bad-op", ""
}

func (r *runner) flush() {
	for r.pending > 0 {
		h := r.fc.tip() - int32(r.pending) + 1
		meta := wtxmgr.BlockMeta{Block: wtxmgr.Block{Hash: r.fc.hashAt(h), Height: h}, Time: blockTime(h)}
		r.fc.notify(chain.BlockConnected(meta))
		r.wHeight = h
		r.pending--
	}
}

// parseOuts: "kind:acct:amt" (own, fresh address) or "xkind:amt" (foreign).
type outSpec struct {
	kind string
	acct uint32
	amt  int64
	own  bool
}

func parseOuts(s string) ([]outSpec, bool) {
	var res []outSpec
	for _, t := range core.CSV(s) {
		f := strings.Split(t, ":")
		switch {
		case len(f) == 3 && scopes[f[0]] != (waddrmgr.KeyScope{}):
			a, e1 := strconv.Atoi(f[1])
			v, e2 := strconv.ParseInt(f[2], 10, 64)
			if e1 != nil || e2 != nil || a < 0 || a > 1 || v < 0 {
				return nil, false
			}
			res = append(res, outSpec{f[0], uint32(a), v, true})
		case len(f) == 2 && (f[0] == "xpkh" || f[0] == "xnp" || f[0] == "xwpkh" || f[0] == "xtr"):
			v, e := strconv.ParseInt(f[1], 10, 64)
			if e != nil || v < 0 {
				return nil, false
			}
			res = append(res, outSpec{f[0], 0, v, false})
		default:
			return nil, false
		}
	}
	return res, true
}

// buildOuts creates the TxOuts and the own-coin descriptors (without outpoint yet).
func (r *runner) buildOuts(specs []outSpec, name string) ([]*wire.TxOut, []*coin, error) {
	var outs []*wire.TxOut
	var coins []*coin
	for i, s := range specs {
		var script []byte
		if s.own {
			var err error
			script, err = r.newAddrScript(s.kind, s.acct)
			if err != nil {
				return nil, nil, err
			}
			coins = append(coins, &coin{txName: name, idx: strconv.Itoa(i), amt: s.amt, kind: s.kind, acct: s.acct, script: script})
		} else {
			script = r.foreignScript(s.kind)
		}
		outs = append(outs, wire.NewTxOut(s.amt, script))
	}
	return outs, coins, nil
}

// recv tx=T1 outs=... [ins=T0:1,...]  : an unconfirmed transaction not authored by this wallet reaches it.
func (r *runner) opRecv(kv map[string]string) (string, string) {
	name := kv["tx"]
	specs, ok := parseOuts(kv["outs"])
	if !ok || name == "" || r.txs[name] != nil {
		return "bad-op", ""
	}
	tx := wire.NewMsgTx(2)
	for _, in := range core.CSV(kv["ins"]) {
		op, _ := r.resolve(in)
		tx.AddTxIn(wire.NewTxIn(&op, nil, nil))
	}
	if len(tx.TxIn) == 0 {
		tx.AddTxIn(r.fakeInput())
	}
	outs, coins, err := r.buildOuts(specs, name)
	if err != nil {
		return "harness-error " + err.Error(), ""
	}
	tx.TxOut = outs
	ti := &txInfo{name: name, tx: tx, hash: tx.TxHash(), height: -1, known: true, coins: coins, outIdx: map[string]uint32{}}
	for i := range outs {
		ti.outIdx[strconv.Itoa(i)] = uint32(i)
	}
	for _, c := range coins {
		i, _ := strconv.Atoi(c.idx)
		c.op = wire.OutPoint{Hash: ti.hash, Index: uint32(i)}
	}
	r.addTx(ti)
	rec, err := wtxmgr.NewTxRecordFromMsgTx(tx, t0.Add(time.Duration(r.now)*time.Second))
	if err != nil {
		return "harness-error " + err.Error(), ""
	}
	r.fc.notify(chain.RelevantTx{TxRecord: rec})
	return "ok", ""
}

// block [txs=T1,T2] [cb=T9:kind:acct:amt] : the next block; txs are known unconfirmed transactions.
func (r *runner) opBlock(kv map[string]string) (string, string) {
	var mined []*txInfo
	for _, n := range core.CSV(kv["txs"]) {
		ti := r.txs[n]
		if ti == nil || ti.height >= 0 || ti.coinbase {
			continue // unknown or already confirmed names are skipped
		}
		mined = append(mined, ti)
	}
	var cb *txInfo
	if s := kv["cb"]; s != "" {
		f := strings.SplitN(s, ":", 2)
		if len(f) != 2 || r.txs[f[0]] != nil {
			return "bad-op", ""
		}
		specs, ok := parseOuts(f[1])
		if !ok || len(specs) != 1 || !specs[0].own {
			return "bad-op", ""
		}
		outs, coins, err := r.buildOuts(specs, f[0])
		if err != nil {
			return "harness-error " + err.Error(), ""
		}
		tx := wire.NewMsgTx(1)
		r.fakeCtr++
		tx.AddTxIn(wire.NewTxIn(&wire.OutPoint{Index: 0xffffffff}, []byte{byte(r.fakeCtr), byte(r.fakeCtr >> 8), 1, 2}, nil))
		tx.TxOut = outs
		if !blockchain.IsCoinBaseTx(tx) {
			return "harness-error not a coinbase", ""
		}
		cb = &txInfo{name: f[0], tx: tx, hash: tx.TxHash(), height: -1, coinbase: true, coins: coins}
		coins[0].op = wire.OutPoint{Hash: cb.hash, Index: 0}
	}
	r.flush()
	h, hash := r.fc.extend()
	meta := wtxmgr.BlockMeta{Block: wtxmgr.Block{Hash: hash, Height: h}, Time: blockTime(h)}
	var ns []interface{}
	all := mined
	if cb != nil {
		r.addTx(cb)
		all = append([]*txInfo{cb}, mined...)
	}
	for _, ti := range all {
		rec, err := wtxmgr.NewTxRecordFromMsgTx(ti.tx, meta.Time)
		if err != nil {
			return "harness-error " + err.Error(), ""
		}
		ns = append(ns, chain.RelevantTx{TxRecord: rec, Block: &meta})
		// ledger: the transaction is confirmed; unconfirmed double spends of its inputs are forgotten (C02),
		// leases on its inputs end (C12).
		ti.height = h
		ti.known = true
		r.backendMined(ti.tx, ti.hash)
		for _, in := range ti.tx.TxIn {
			delete(r.leases, in.PreviousOutPoint)
			for _, n := range r.order {
				o := r.txs[n]
				if o == ti || !o.known || o.height >= 0 {
					continue
				}
				for _, oin := range o.tx.TxIn {
					if oin.PreviousOutPoint == in.PreviousOutPoint {
						r.forget(n)
						break
					}
				}
			}
		}
	}
	ns = append(ns, chain.BlockConnected(meta))
	r.fc.notify(ns...)
	r.wHeight = h
	return fmt.Sprintf("ok h=%d", h), ""
}

// reorg depth=d : the top d blocks the wallet knows are disconnected (tip first).
func (r *runner) opReorg(kv map[string]string) (string, string) {
	d, err := strconv.Atoi(kv["depth"])
	r.flush()
	if err != nil || d < 1 || int(r.wHeight)-d < baseHeight {
		return "bad-op", ""
	}
	top := r.wHeight
	var metas []interface{}
	for h := top; h > top-int32(d); h-- {
		metas = append(metas, chain.BlockDisconnected(wtxmgr.BlockMeta{Block: wtxmgr.Block{Hash: r.fc.hashAt(h), Height: h}, Time: blockTime(h)}))
	}
	// The wallet asks for the header of the new tip while handling each notification, so notify first, then cut.
	r.fc.notify(metas...)
	r.fc.truncate(d)
	newTip := top - int32(d)
	var deadCoinbases []string
	for _, n := range r.order {
		ti := r.txs[n]
		if ti.known && ti.height > newTip {
			ti.height = -1
			if ti.coinbase {
				deadCoinbases = append(deadCoinbases, n)
			}
		}
	}
	for _, n := range deadCoinbases {
		// a coinbase of a disconnected block can never be valid again; what spent it goes with it
		r.forget(n)
		r.backendDrop(r.txs[n].hash)
	}
	r.wHeight = newTip
	return fmt.Sprintf("ok h=%d", newTip), ""
}

func (r *runner) opLease(kind string, kv map[string]string) (string, string) {
	op, c := r.resolve(kv["op"])
	id, err := strconv.Atoi(kv["id"])
	if err != nil || id < 0 || id > 255 {
		return "bad-op", ""
	}
	var lid wtxmgr.LockID
	lid[0] = byte(id)
	if kind == "lease" {
		dur, err := strconv.Atoi(kv["dur"])
		if err != nil || dur < 1 {
			return "bad-op", ""
		}
		_, err = r.w.LeaseOutput(lid, op, time.Duration(dur)*time.Second)
		switch {
		case err == nil:
			r.leases[op] = lease{id, r.now + int64(dur)}
			_ = c
			return "ok", ""
		case errors.Is(err, wtxmgr.ErrUnknownOutput):
			return "err=unknown-output", ""
		case errors.Is(err, wtxmgr.ErrOutputAlreadyLocked):
			return "err=already-locked", ""
		}
		return "err=other", ""
	}
	err = r.w.ReleaseOutput(lid, op)
	switch {
	case err == nil:
		if l, ok := r.leases[op]; ok && (l.id == id || l.expiry <= r.now) {
			delete(r.leases, op)
		}
		return "ok", ""
	case errors.Is(err, wtxmgr.ErrUnknownOutput):
		return "err=unknown-output", ""
	case errors.Is(err, wtxmgr.ErrOutputUnlockNotAllowed):
		return "err=unlock-not-allowed", ""
	}
	return "err=other", ""
}

// ---- create ---------------------------------------------------------------------------------------------------

type createReq struct {
	name     string
	api      string
	acct     uint32
	scope    string // "any" or kind
	chg      string // "same" or kind
	minconf  int32
	rate     int64
	strat    string
	outs     []outSpec
	sel      []string
	allowMin int64
	allowMax int64
	ans      string
	notify   string
}

func parseCreate(kv map[string]string) (*createReq, bool) {
	q := &createReq{name: kv["name"], api: kv["api"], scope: kv["scope"], chg: kv["chg"], strat: kv["strat"], ans: kv["ans"], notify: kv["notify"], allowMax: -1}
	a, e1 := strconv.Atoi(kv["acct"])
	m, e2 := strconv.Atoi(kv["minconf"])
	rt, e3 := strconv.ParseInt(kv["rate"], 10, 64)
	outs, ok := parseOuts(kv["outs"])
	if e1 != nil || e2 != nil || e3 != nil || !ok || a < 0 || a > 1 || m < 0 || rt < 0 || len(outs) == 0 || q.name == "" {
		return nil, false
	}
	q.acct, q.minconf, q.rate, q.outs = uint32(a), int32(m), rt, outs
	if q.scope != "any" && scopes[q.scope] == (waddrmgr.KeyScope{}) {
		return nil, false
	}
	if q.chg != "same" && scopes[q.chg] == (waddrmgr.KeyScope{}) {
		return nil, false
	}
	if q.strat != "largest" && q.strat != "random" {
		return nil, false
	}
	switch q.api {
	case "simple", "dry", "psbt", "send":
	default:
		return nil, false
	}
	q.sel = core.CSV(kv["sel"])
	switch al := kv["allow"]; {
	case al == "all" || al == "":
	case strings.HasPrefix(al, "min:"):
		v, err := strconv.ParseInt(al[4:], 10, 64)
		if err != nil {
			return nil, false
		}
		q.allowMin = v
	case strings.HasPrefix(al, "max:"):
		v, err := strconv.ParseInt(al[4:], 10, 64)
		if err != nil {
			return nil, false
		}
		q.allowMax = v
	default:
		return nil, false
	}
	if q.notify == "" {
		q.notify = "ok"
	}
	return q, true
}

func (q *createReq) allows(amt int64) bool {
	return amt >= q.allowMin && (q.allowMax < 0 || amt <= q.allowMax)
}

// ineligible evaluates the sentences of C06 on the harness ledger: "" if c may be spent by request q.
func (r *runner) ineligible(c *coin, q *createReq) string {
	ti := r.txs[c.txName]
	switch {
	case ti == nil || !ti.known:
		return "not-credited"
	case c.acct != q.acct:
		return "other-account"
	case q.scope != "any" && c.kind != q.scope:
		return "other-scope"
	case r.spender(c.op) != "":
		return "spent-by-known"
	case r.userLock[c.op]:
		return "user-locked"
	case r.leased(c.op):
		return "leased"
	case !q.allows(c.amt):
		return "filtered-out"
	}
	confs := int32(0)
	tip := r.fc.tip()
	if ti.height >= 0 && ti.height <= tip {
		confs = tip - ti.height + 1
	}
	if confs < q.minconf {
		return "too-few-confirmations"
	}
	if ti.coinbase && confs < maturity {
		return "immature-coinbase"
	}
	return ""
}

func classifyCreateErr(err error) string {
	var ise txauthor.InputSourceError
	var rpcErr chain.RPCErr
	var merr waddrmgr.ManagerError
	switch {
	case errors.As(err, &merr) && merr.ErrorCode == waddrmgr.ErrLocked:
		return "locked"
	case errors.As(err, &ise):
		return "insufficient"
	case strings.Contains(err.Error(), "not eligible for spending"):
		return "not-eligible"
	case strings.Contains(err.Error(), "specified more than once"):
		return "duplicate-selected"
	case errors.Is(err, txrules.ErrOutputIsDust):
		return "dust-output"
	case errors.As(err, &rpcErr), errors.Is(err, chain.ErrUndefined), strings.Contains(err.Error(), "fake: notification"):
		return "publish"
	}
	dbg("other create error: %v", err)
	return "other"
}

// verifySigs re-executes every input through the script engine with the standard flags, using the harness
// ledger's own record of the spent outputs (not the wallet's).
func (r *runner) verifySigs(tx *wire.MsgTx) string {
	prev := map[wire.OutPoint]*wire.TxOut{}
	for _, in := range tx.TxIn {
		c := r.coinByOp(in.PreviousOutPoint)
		if c == nil {
			return "unknown-input"
		}
		prev[in.PreviousOutPoint] = wire.NewTxOut(c.amt, c.script)
	}
	fetcher := txscript.NewMultiPrevOutFetcher(prev)
	hc := txscript.NewTxSigHashes(tx, fetcher)
	for i, in := range tx.TxIn {
		o := prev[in.PreviousOutPoint]
		vm, err := txscript.NewEngine(o.PkScript, tx, i, txscript.StandardVerifyFlags, nil, hc, o.Value, fetcher)
		if err == nil {
			err = vm.Execute()
		}
		if err != nil {
			return r.coinByOp(in.PreviousOutPoint).kind
		}
	}
	return ""
}

func (r *runner) opCreate(kv map[string]string) (string, string) {
	q, ok := parseCreate(kv)
	if !ok || r.txs[q.name] != nil {
		return "bad-op", ""
	}
	outs, ownCoins, err := r.buildOuts(q.outs, q.name)
	if err != nil {
		return "harness-error " + err.Error(), ""
	}
	var scope *waddrmgr.KeyScope
	if q.scope != "any" {
		s := scopes[q.scope]
		scope = &s
	}
	var opts []wallet.TxCreateOption
	chgKind := q.scope
	if q.chg != "same" {
		s := scopes[q.chg]
		opts = append(opts, wallet.WithCustomChangeScope(&s))
		chgKind = q.chg
	}
	if chgKind == "any" {
		chgKind = "tr"
	}
	var selOps []wire.OutPoint
	for _, s := range q.sel {
		op, _ := r.resolve(s)
		selOps = append(selOps, op)
	}
	if len(selOps) > 0 && q.api != "send" {
		opts = append(opts, wallet.WithCustomSelectUtxos(selOps))
	}
	if q.allowMin > 0 || q.allowMax >= 0 {
		opts = append(opts, wallet.WithUtxoFilter(func(c wtxmgr.Credit) bool { return q.allows(int64(c.Amount)) }))
	}
	strat := wallet.CoinSelectionLargest
	if q.strat == "random" {
		strat = wallet.CoinSelectionRandom
	}

	var before snapshot
	var viewBefore walletView
	prevRefused := r.lastRefused
	if q.api == "psbt" {
		r.lastRefused = nil
	}
	if q.api == "send" {
		r.lastRefused = nil
		if before, err = r.snap(); err != nil {
			return "harness-error " + err.Error(), ""
		}
		if viewBefore, err = r.walletView(); err != nil {
			return "harness-error " + err.Error(), ""
		}
	}

	var tx *wire.MsgTx
	signed := false
	switch q.api {
	case "simple", "dry":
		var atx *txauthor.AuthoredTx
		atx, err = r.w.CreateSimpleTx(scope, q.acct, outs, q.minconf, btcutil.Amount(q.rate), strat, q.api == "dry", opts...)
		if err == nil {
			tx = atx.Tx
			signed = q.api == "simple"
		}
	case "psbt":
		pkt, perr := psbt.New(nil, outs, 2, 0, nil)
		if perr != nil {
			return "harness-error " + perr.Error(), ""
		}
		_, err = r.w.FundPsbt(pkt, scope, q.minconf, q.acct, btcutil.Amount(q.rate), strat, opts...)
		if err == nil {
			tx = pkt.UnsignedTx
		}
	case "send":
		if q.chg != "same" || q.allowMin > 0 || q.allowMax >= 0 {
			return "bad-op", ""
		}
		r.fc.mu.Lock()
		if q.notify == "fail" {
			r.fc.notifyFailIn = "reliablyPublishTransaction"
		}
		r.fc.mu.Unlock()
		// the answer is keyed by txid, which is unknown before creation: use a catch-all
		r.fc.setDefaultAnswer(q.ans)
		if len(selOps) > 0 {
			tx, err = r.w.SendOutputsWithInput(outs, scope, q.acct, q.minconf, btcutil.Amount(q.rate), strat, "", selOps)
		} else {
			tx, err = r.w.SendOutputs(outs, scope, q.acct, q.minconf, btcutil.Amount(q.rate), strat, "")
		}
		r.fc.setDefaultAnswer("")
		r.fc.mu.Lock()
		r.fc.notifyFailIn = ""
		r.fc.mu.Unlock()
		signed = err == nil
	}
	// what the backend saw during this request (only api=send talks to it)
	calls := r.absorbCalls()
	sentField := ""
	if q.api == "send" {
		sentField = fmt.Sprintf(" sent=%d", len(calls))
	}
	// C20: whatever the backend accepted just now must still be recorded, whether or not the wallet returned an error
	acceptedViols := r.forgottenAccepted(calls, "SendOutputs")

	if err != nil {
		cls := classifyCreateErr(err)
		viols := acceptedViols
		if cls == "publish" {
			// C20: a FAILED broadcast of a brand-new transaction must leave balance, spendable set and unconfirmed
			// set exactly as before the attempt.  (If the backend accepted the transaction the broadcast did not fail,
			// whatever the wallet returned: then the clause above applies instead.)
			backendHasIt := false
			for _, c := range calls {
				if r.backend[c.hash] != nil {
					backendHasIt = true
				}
			}
			after, serr := r.snap()
			if serr != nil {
				return "harness-error " + serr.Error(), ""
			}
			if !backendHasIt && after.String() != before.String() {
				key := "SendOutputs.rejected-not-restored"
				if q.notify == "fail" {
					key = "reliablyPublishTransaction.notify-received-failure"
				}
				viols = append(viols, fmt.Sprintf("C20 key=%s: failed send changed the wallet: before {%s} after {%s}", key, before, after))
			}
			if !backendHasIt {
				// C20 at wallet level (seed C20-6): what the USER sees as spendable (ListUnspent, lock table, balances)
				// must be what it was before the refused attempt
				viewAfter, verr := r.walletView()
				if verr != nil {
					return "harness-error " + verr.Error(), ""
				}
				what := "send " + q.name
				if q.notify == "fail" {
					what += " (NotifyReceived failed)"
				} else {
					what += " (backend: " + intendedClass(q.ans) + ")"
				}
				viols = append(viols, r.refusedViewViolations("sendOutputs", what, viewBefore, viewAfter, q)...)
				rs := &refusedSend{sig: q.sig(), name: q.name}
				if len(calls) > 0 {
					rs.ins = []string{}
					for _, in := range calls[len(calls)-1].tx.TxIn {
						rs.ins = append(rs.ins, r.coinName(in.PreviousOutPoint))
					}
					sort.Strings(rs.ins)
				}
				r.lastRefused = rs
			}
			return "err=" + cls + sentField, strings.Join(viols, "; ")
		}
		if cls == "insufficient" {
			if q.api == "send" && prevRefused != nil && prevRefused.sig == q.sig() && q.strat == "largest" {
				viols = append(viols, fmt.Sprintf("C20 key=sendOutputs.retry-insufficient-funds: send %s was refused after a transaction had been created; nothing happened since, yet the same request (%s) now fails with insufficient funds (the refused transaction spent %v)",
					prevRefused.name, q.name, prevRefused.ins))
			}
			// C07 (wallet level): insufficient funds only if the eligible coins cannot cover outputs + required fee
			if v := r.coveredAlthoughInsufficient(q, outs, chgKind); v != "" {
				viols = append(viols, v)
			}
		}
		return "err=" + cls, strings.Join(viols, "; ")
	}

	// ---- success: describe the transaction in ledger terms and evaluate the C06 sentences on it
	viols := acceptedViols
	ti := &txInfo{name: q.name, tx: tx, hash: tx.TxHash(), height: -1, created: true}
	scripts := map[string]bool{}
	for _, c := range ownCoins {
		scripts[string(c.script)] = true
	}
	for _, o := range outs {
		scripts[string(o.PkScript)] = true
	}
	change := "none"
	ti.outIdx = map[string]uint32{}
	for i, o := range tx.TxOut {
		for j, ro := range outs {
			if string(ro.PkScript) == string(o.PkScript) {
				ti.outIdx[strconv.Itoa(j)] = uint32(i)
			}
		}
	}
	for i, o := range tx.TxOut {
		matched := false
		for _, c := range ownCoins {
			if string(c.script) == string(o.PkScript) {
				c.op = wire.OutPoint{Hash: ti.hash, Index: uint32(i)}
				matched = true
			}
		}
		if !matched && !scripts[string(o.PkScript)] {
			change = strconv.FormatInt(o.Value, 10)
			ti.coins = append(ti.coins, &coin{txName: q.name, idx: "c", op: wire.OutPoint{Hash: ti.hash, Index: uint32(i)}, amt: o.Value, kind: chgKind, acct: q.acct, script: o.PkScript})
		}
	}
	ti.coins = append(ti.coins, ownCoins...)

	var insNames []string
	seen := map[wire.OutPoint]bool{}
	for _, in := range tx.TxIn {
		op := in.PreviousOutPoint
		insNames = append(insNames, r.coinName(op))
		if seen[op] {
			key := q.api + ".duplicate-input"
			if len(q.sel) > 0 {
				key = "WithCustomSelectUtxos.duplicate-outpoint"
			}
			viols = append(viols, fmt.Sprintf("C06 key=%s: outpoint %s is spent twice by one created transaction", key, r.coinName(op)))
		}
		seen[op] = true
		c := r.coinByOp(op)
		if c == nil {
			viols = append(viols, fmt.Sprintf("C06 key=%s.input-not-own: input %v is not a credited output", q.api, op))
			continue
		}
		if why := r.ineligible(c, q); why != "" {
			viols = append(viols, fmt.Sprintf("C06 key=%s.input-ineligible.%s: created transaction spends %s which is %s", q.api, why, r.coinName(op), why))
		}
		if by, ok := r.published[op]; ok {
			viols = append(viols, fmt.Sprintf("C06 key=%s.reuse-after-publish: %s was already spent by published %s", q.api, r.coinName(op), by))
		}
	}
	for _, s := range q.sel {
		_, c := r.resolve(s)
		if c == nil || r.ineligible(c, q) != "" {
			viols = append(viols, fmt.Sprintf("C06 key=%s.selected-ineligible-accepted: explicitly selected %s is not eligible but the request succeeded", q.api, s))
		}
	}
	viols = append(viols, r.reusedAfterAccepted(tx)...)
	if signed {
		// no watch-only account exists in this engine: every result of simple / send must be fully signed
		if bad := r.verifySigs(tx); bad != "" {
			if r.wLocked {
				viols = append(viols, fmt.Sprintf("C06 key=create.unsigned-result-while-locked: %s returned a transaction for a regular (non-watch-only) account while the wallet was locked, and its %s input does not verify under StandardVerifyFlags (sigScript %d bytes, %d witness items): the request must be refused or the result signed",
					q.api, bad, len(tx.TxIn[0].SignatureScript), len(tx.TxIn[0].Witness)))
			} else {
				viols = append(viols, fmt.Sprintf("C06 key=%s.bad-signature.%s: an input does not verify under StandardVerifyFlags", q.api, bad))
			}
		}
	}

	if q.api == "psbt" {
		sort.Strings(insNames) // FundPsbt sorts the packet in place (BIP69); compare the set
	}
	if q.api == "send" && prevRefused != nil && prevRefused.sig == q.sig() && q.strat == "largest" && prevRefused.ins != nil {
		got := append([]string{}, insNames...)
		sort.Strings(got)
		if strings.Join(got, ",") != strings.Join(prevRefused.ins, ",") {
			viols = append(viols, fmt.Sprintf("C20 key=sendOutputs.retry-selects-other-coins: send %s (inputs %v) was refused; nothing happened since, yet the same request (%s) now spends %v: the coins of the refused transaction are not spendable as before",
				prevRefused.name, prevRefused.ins, q.name, got))
		}
	}
	reply := "ok ins=" + strings.Join(insNames, ",") + " change=" + change
	if q.strat == "random" && len(q.sel) == 0 {
		reply = "ok rand"
	}
	switch q.api {
	case "simple":
		r.addTx(ti) // remembered, not known to the wallet until published
	case "send":
		r.addTx(ti)
		ti.known = true
		for _, in := range tx.TxIn {
			r.published[in.PreviousOutPoint] = q.name
		}
		cls := answerClass(q.ans)
		if cls == "known" || cls == "confirmed" {
			r.forget(q.name)
		}
		if m := misclassified(q.ans); m != "" {
			viols = append(viols, m)
		}
		if intendedClass(q.ans) == "rejected" || q.notify == "fail" {
			viols = append(viols, "C20 key=SendOutputs.failed-broadcast-returned-ok: the backend refused the transaction but SendOutputs returned no error")
		}
		reply += " pub=ok" + sentField
	}
	return reply, strings.Join(viols, "; ")
}

func (f *fakeChain) setDefaultAnswer(spec string) {
	f.mu.Lock()
	defer f.mu.Unlock()
	if spec == "" {
		delete(f.answers, chainhash.Hash{})
	} else {
		f.answers[chainhash.Hash{}] = spec
	}
}

// answerClass: the class of an answer spec as THE PROPERTY names them (accepted, mempool, known, confirmed, rejected),
// computed through the real mapping code.
func answerClass(spec string) string {
	err := mapAnswer(spec)
	switch {
	case err == nil:
		return "accepted"
	case errors.Is(err, chain.ErrTxAlreadyInMempool):
		return "mempool"
	case errors.Is(err, chain.ErrTxAlreadyKnown):
		return "known"
	case errors.Is(err, chain.ErrTxAlreadyConfirmed):
		return "confirmed"
	}
	return "rejected"
}

// intendedClass: what the backend MEANT by its answer, from the backends' own wording (bitcoind reject reasons,
// btcd/neutrino rule-error texts) — deliberately independent of chain/errors.go, which is code under test.
func intendedClass(spec string) string {
	if spec == "" || spec == "ok" {
		return "accepted"
	}
	if len(spec) < 2 {
		return "rejected"
	}
	t := strings.ToLower(strings.ReplaceAll(strings.ReplaceAll(spec[2:], "+", " "), "-", " "))
	has := func(s string) bool { return strings.Contains(t, s) }
	switch spec[0] {
	case 'b':
		switch {
		case has("txn already known"):
			return "known"
		case has("transaction already in block chain"), has("transaction outputs already in utxo set"):
			return "confirmed"
		case has("txn already in mempool"):
			return "mempool"
		}
	case 'n':
		switch {
		case has("database contains entry for spent tx output"):
			return "known"
		case has("transaction already exists"):
			return "confirmed"
		case has("already have transaction"):
			return "mempool"
		}
	}
	return "rejected"
}

// misclassified reports a backend answer whose mapping by chain/errors.go changes what C20 demands.
func misclassified(spec string) string {
	want, real := intendedClass(spec), answerClass(spec)
	if want == real {
		return ""
	}
	if want == "mempool" || real == "mempool" || (want == "rejected") != (real == "rejected") {
		return fmt.Sprintf("C20 key=chain-errors.misclassified.%s-as-%s: backend answer %q means %s but is handled as %s", want, real, spec, want, real)
	}
	return ""
}
