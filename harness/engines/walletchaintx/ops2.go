package walletchaintx

import (
	"fmt"
	"sort"
	"strings"
	"sync/atomic"
	"time"

	"github.com/btcsuite/btcd/btcutil"
	"github.com/btcsuite/btcd/chaincfg/chainhash"
	"github.com/btcsuite/btcd/wire"
	"github.com/btcsuite/btcwallet/walletdb"
	"github.com/btcsuite/btcwallet/wtxmgr"

	"verifharness/core"
)

// ledgerDescendants: name plus every known unconfirmed transaction spending (transitively) its outputs.
func (r *runner) ledgerDescendants(name string) map[string]bool {
	res := map[string]bool{name: true}
	for changed := true; changed; {
		changed = false
		for _, n := range r.order {
			c := r.txs[n]
			if res[n] || !c.known || c.height >= 0 {
				continue
			}
			for _, in := range c.tx.TxIn {
				p := r.txNameByHash(in.PreviousOutPoint.Hash)
				if res[p] {
					res[n] = true
					changed = true
					break
				}
			}
		}
	}
	return res
}

func contains(l []string, s string) int {
	n := 0
	for _, x := range l {
		if x == s {
			n++
		}
	}
	return n
}

// publish name=T7 ans=<spec> [notify=fail] : Wallet.PublishTransaction on a transaction the harness holds.
func (r *runner) opPublish(kv map[string]string) (string, string) {
	ti := r.txs[kv["name"]]
	if ti == nil {
		return "bad-op", ""
	}
	ans, notify := kv["ans"], kv["notify"]
	cls := intendedClass(ans) // the oracle goes by what the backend meant …
	real := answerClass(ans)  // … the ledger follows what the wallet was told by chain/errors.go
	if notify == "fail" {
		cls, real = "notifyfail", "notifyfail"
	}
	before, err := r.snap()
	if err != nil {
		return "harness-error " + err.Error(), ""
	}
	wasKnown := ti.known || contains(before.unmined, ti.name) > 0
	desc := r.ledgerDescendants(ti.name)
	r.fc.mu.Lock()
	r.fc.answers[ti.hash] = ans
	if notify == "fail" {
		r.fc.notifyFailIn = "reliablyPublishTransaction"
	}
	r.fc.mu.Unlock()
	perr := r.w.PublishTransaction(ti.tx, "")
	r.fc.mu.Lock()
	delete(r.fc.answers, ti.hash)
	r.fc.notifyFailIn = ""
	r.fc.mu.Unlock()
	after, err := r.snap()
	if err != nil {
		return "harness-error " + err.Error(), ""
	}
	var viols []string
	key := "publishTransaction.rejected"
	if cls == "notifyfail" {
		key = "reliablyPublishTransaction.notify-received-failure"
	}
	switch cls {
	case "rejected", "notifyfail":
		if perr == nil {
			viols = append(viols, fmt.Sprintf("C20 key=%s-returned-ok: the broadcast failed but PublishTransaction returned no error", key))
		}
		var left []string
		for n := range desc {
			if contains(after.unmined, n) > 0 {
				left = append(left, n)
			}
		}
		sort.Strings(left)
		if len(left) > 0 {
			viols = append(viols, fmt.Sprintf("C20 key=%s: after a failed broadcast of %s these transactions are still recorded as unconfirmed: %v", key, ti.name, left))
		}
		if !wasKnown && len(desc) == 1 && after.String() != before.String() {
			viols = append(viols, fmt.Sprintf("C20 key=%s: failed broadcast of new %s changed the wallet: before {%s} after {%s}", key, ti.name, before, after))
		}
		r.forget(ti.name)
	case "mempool", "accepted":
		k := "publishTransaction.in-mempool"
		if cls == "accepted" {
			k = "publishTransaction.accepted"
		}
		if perr != nil {
			viols = append(viols, fmt.Sprintf("C20 key=%s-returned-error: backend has the transaction but PublishTransaction failed: %v", k, perr))
		}
		if ti.height < 0 {
			if c := contains(after.unmined, ti.name); c != 1 {
				viols = append(viols, fmt.Sprintf("C20 key=%s-not-kept-once: %s recorded %d times", k, ti.name, c))
			}
		}
		if !wasKnown && ti.height < 0 {
			// counted once: spendable set = before - its inputs + its own outputs
			spent := map[string]bool{}
			for _, in := range ti.tx.TxIn {
				spent[r.coinName(in.PreviousOutPoint)] = true
			}
			var exp []string
			for _, u := range before.utxos {
				if !spent[u[:strings.LastIndex(u, ":")]] {
					exp = append(exp, u)
				}
			}
			for _, c := range ti.coins {
				if !r.leased(c.op) && r.spender(c.op) == "" {
					exp = append(exp, fmt.Sprintf("%s:%s:%d", c.txName, c.idx, c.amt))
				}
			}
			sort.Strings(exp)
			if strings.Join(exp, ",") != strings.Join(after.utxos, ",") {
				viols = append(viols, fmt.Sprintf("C20 key=%s-not-counted-once: spendable set after {%s}, expected {%s}", k, strings.Join(after.utxos, ","), strings.Join(exp, ",")))
			}
		}
		if ti.height < 0 {
			ti.known = true
			if ti.created {
				for _, in := range ti.tx.TxIn {
					r.published[in.PreviousOutPoint] = ti.name
				}
			}
		}
	case "known", "confirmed":
		r.forget(ti.name)
	}
	if real != cls {
		// the mapping disagrees with the backend's meaning: keep the ledger in line with what the wallet did
		if m := misclassified(ans); m != "" {
			viols = append(viols, m)
		}
		switch real {
		case "rejected", "known", "confirmed":
			r.forget(ti.name)
		case "mempool", "accepted":
			if ti.height < 0 {
				ti.known = true
			}
		}
	}
	if perr != nil {
		return "err", strings.Join(viols, "; ")
	}
	return "ok", strings.Join(viols, "; ")
}

func parseAnswers(s string) map[string]string {
	m := map[string]string{}
	if s == "" {
		return m
	}
	for _, t := range strings.Split(s, ";") {
		if i := strings.IndexByte(t, '@'); i > 0 {
			m[t[:i]] = t[i+1:]
		}
	}
	return m
}

// resync / restart [ans=T7@spec;T8@spec] : a rescan finishes (after a restart for `restart`); the wallet re-offers
// its unconfirmed transactions.
func (r *runner) opResync(kind string, kv map[string]string) (string, string) {
	answers := parseAnswers(kv["ans"])
	// what should be offered, from the harness ledger and from the wallet's own store
	var want []string
	for _, n := range r.order {
		if ti := r.txs[n]; ti.known && ti.height < 0 {
			want = append(want, n)
		}
	}
	utxs, err := r.unminedTxs()
	if err != nil {
		return "harness-error " + err.Error(), ""
	}
	nExpected := int64(len(utxs))

	if kind == "restart" {
		old := r.fc
		old.Stop()
		if err := r.loader.UnloadWallet(); err != nil {
			return "harness-error unload: " + err.Error(), ""
		}
		w, err := r.loader.OpenExistingWallet(pubPass, false)
		if err != nil {
			return "harness-error open: " + err.Error(), ""
		}
		r.w = w
		nf := &fakeChain{ntfn: make(chan interface{}), quit: make(chan struct{}), answers: map[chainhash.Hash]string{}, hashes: old.hashes, ctr: old.ctr}
		r.fc = nf
		r.userLock = map[wire.OutPoint]bool{}
	}
	r.fc.mu.Lock()
	for n, a := range answers {
		if ti := r.txs[n]; ti != nil {
			r.fc.answers[ti.hash] = a
		}
	}
	nlog := len(r.fc.sendLog)
	r.fc.mu.Unlock()
	start := atomic.LoadInt64(&theLogger.rebroadcasts)
	startFin := atomic.LoadInt64(&theLogger.finished)

	if kind == "restart" {
		if err := r.attach(); err != nil {
			return "harness-error attach: " + err.Error(), ""
		}
	} else {
		var addrs []btcutil.Address
		var unspent []wtxmgr.Credit
		err := walletdb.View(r.w.Database(), func(tx walletdb.ReadTx) error {
			var err error
			unspent, err = r.w.TxStore.OutputsToWatch(tx.ReadBucket(wtxmgrNS))
			return err
		})
		if err != nil {
			return "harness-error " + err.Error(), ""
		}
		if err := r.w.Rescan(addrs, unspent); err != nil {
			return "harness-error rescan: " + err.Error(), ""
		}
	}
	// wait until the wallet has taken the RescanFinished notification, the rescan goroutines have passed it on
	// ("Finished rescan" is logged right before `go w.resendUnminedTxs()`), and the re-broadcast goroutine has finished
	// every transaction
	deadline := time.Now().Add(3 * time.Second)
	for !r.fc.allDelivered() || atomic.LoadInt64(&theLogger.finished) == startFin ||
		atomic.LoadInt64(&theLogger.rebroadcasts)-start < nExpected {
		if time.Now().After(deadline) {
			return "harness-error resend timeout", ""
		}
		time.Sleep(100 * time.Microsecond)
	}
	if nExpected == 0 {
		time.Sleep(2 * time.Millisecond) // the goroutine only reads an empty list
	}
	r.fc.notify()
	r.pending = 0
	r.wHeight = r.fc.tip()

	r.fc.mu.Lock()
	sent := append([]chainhash.Hash{}, r.fc.sendLog[nlog:]...)
	for n := range answers {
		if ti := r.txs[n]; ti != nil {
			delete(r.fc.answers, ti.hash)
		}
	}
	r.fc.mu.Unlock()

	var offered []string
	pos := map[chainhash.Hash]int{}
	var viols []string
	for i, h := range sent {
		n := r.txNameByHash(h)
		offered = append(offered, n)
		if _, dup := pos[h]; dup {
			viols = append(viols, fmt.Sprintf("C20 key=resendUnminedTxs.offered-twice: %s", n))
		}
		pos[h] = i
	}
	for i, h := range sent {
		ti := r.txs[r.txNameByHash(h)]
		if ti == nil {
			continue
		}
		for _, in := range ti.tx.TxIn {
			if j, ok := pos[in.PreviousOutPoint.Hash]; ok && j > i {
				viols = append(viols, fmt.Sprintf("C20 key=resendUnminedTxs.child-before-parent: %s offered before its parent %s", ti.name, r.txNameByHash(in.PreviousOutPoint.Hash)))
			}
		}
	}
	for _, n := range want {
		if contains(offered, n) == 0 {
			viols = append(viols, fmt.Sprintf("C20 key=resendUnminedTxs.not-offered: still-unconfirmed %s was not offered to the backend after the rescan", n))
		}
	}
	for _, n := range offered {
		if m := misclassified(answers[n]); m != "" {
			viols = append(viols, m)
		}
	}
	// ledger: apply the answers in the order the wallet used
	for _, n := range offered {
		switch answerClass(answers[n]) {
		case "rejected", "known", "confirmed":
			r.forget(n)
		}
	}
	sorted := append([]string{}, offered...)
	sort.Strings(sorted)
	return "ok offered=" + strings.Join(sorted, ","), strings.Join(viols, "; ")
}

var _ = core.CSV
