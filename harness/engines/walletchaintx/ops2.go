package walletchaintx

import (
	"fmt"
	"runtime"
	"sort"
	"strings"
	"sync/atomic"
	"time"

	"github.com/btcsuite/btcd/btcutil"
	"github.com/btcsuite/btcd/chaincfg/chainhash"
	"github.com/btcsuite/btcd/wire"
	"github.com/btcsuite/btcwallet/walletdb"
	"github.com/btcsuite/btcwallet/wtxmgr"

	"verifharness/core"
)

// ledgerDescendants: name plus every known unconfirmed transaction spending (transitively) its outputs.
func (r *runner) ledgerDescendants(name string) map[string]bool {
	res := map[string]bool{name: true}
	for changed := true; changed; {
		changed = false
		for _, n := range r.order {
			c := r.txs[n]
			if res[n] || !c.known || c.height >= 0 {
				continue
			}
			for _, in := range c.tx.TxIn {
				p := r.txNameByHash(in.PreviousOutPoint.Hash)
				if res[p] {
					res[n] = true
					changed = true
					break
				}
			}
		}
	}
	return res
}

func contains(l []string, s string) int {
	n := 0
	for _, x := range l {
		if x == s {
			n++
		}
	}
	return n
}

// publish name=T7 ans=<spec> [notify=fail] : Wallet.PublishTransaction on a transaction the harness holds.
func (r *runner) opPublish(kv map[string]string) (string, string) {
	ti := r.txs[kv["name"]]
	if ti == nil {
		return "bad-op", ""
	}
	ans, notify := kv["ans"], kv["notify"]
	cls := intendedClass(ans) // the oracle goes by what the backend meant …
	real := answerClass(ans)  // … the ledger follows what the wallet was told by chain/errors.go
	if notify == "fail" {
		cls, real = "notifyfail", "notifyfail"
	}
	before, err := r.snap()
	if err != nil {
		return "harness-error " + err.Error(), ""
	}
	wasKnown := ti.known || contains(before.unmined, ti.name) > 0
	viewBefore, err := r.walletView()
	if err != nil {
		return "harness-error " + err.Error(), ""
	}
	desc := r.ledgerDescendants(ti.name)
	r.fc.mu.Lock()
	r.fc.answers[ti.hash] = ans
	if notify == "fail" {
		r.fc.notifyFailIn = "reliablyPublishTransaction"
	}
	r.fc.mu.Unlock()
	perr := r.w.PublishTransaction(ti.tx, "")
	r.fc.mu.Lock()
	delete(r.fc.answers, ti.hash)
	r.fc.notifyFailIn = ""
	r.fc.mu.Unlock()
	after, err := r.snap()
	if err != nil {
		return "harness-error " + err.Error(), ""
	}
	// the backend's own record of this op
	calls := r.absorbCalls()
	sentField := fmt.Sprintf(" sent=%d", len(calls))
	if cls == "notifyfail" && len(calls) == 0 {
		// the hand-over failed before the backend was asked: C20 demands that the transaction is forgotten
		delete(r.refused, ti.hash)
		r.backendDrop(ti.hash)
	}
	viols := r.forgottenAccepted(calls, "PublishTransaction")
	if cls == "notifyfail" && r.backend[ti.hash] != nil && len(calls) > 0 {
		// the subscription failed AFTER the backend accepted the transaction: the broadcast did not fail, so nothing
		// may be forgotten (clause above); the error return alone is not a violation
		cls = "accepted-then-notifyfail"
	}
	key := "publishTransaction.rejected"
	if cls == "notifyfail" {
		key = "reliablyPublishTransaction.notify-received-failure"
	}
	switch cls {
	case "accepted-then-notifyfail":
		if contains(after.unmined, ti.name) == 0 && ti.height < 0 {
			r.forget(ti.name) // keep the ledger in line with what the wallet did (already reported above)
		} else if ti.height < 0 {
			ti.known = true
		}
	case "rejected", "notifyfail":
		if perr == nil {
			viols = append(viols, fmt.Sprintf("C20 key=%s-returned-ok: the broadcast failed but PublishTransaction returned no error", key))
		}
		var left []string
		for n := range desc {
			if contains(after.unmined, n) > 0 {
				left = append(left, n)
			}
		}
		sort.Strings(left)
		if len(left) > 0 {
			viols = append(viols, fmt.Sprintf("C20 key=%s: after a failed broadcast of %s these transactions are still recorded as unconfirmed: %v", key, ti.name, left))
		}
		if !wasKnown && len(desc) == 1 && after.String() != before.String() {
			viols = append(viols, fmt.Sprintf("C20 key=%s: failed broadcast of new %s changed the wallet: before {%s} after {%s}", key, ti.name, before, after))
		}
		if !wasKnown && len(desc) == 1 {
			// the same sentence on the user-visible side (ListUnspent, lock table, balances), see walletview.go
			viewAfter, verr := r.walletView()
			if verr != nil {
				return "harness-error " + verr.Error(), ""
			}
			viols = append(viols, r.refusedViewViolations("publishTransaction", "publish "+ti.name+" ("+cls+")", viewBefore, viewAfter, nil)...)
		}
		r.forget(ti.name)
	case "mempool", "accepted":
		k := "publishTransaction.in-mempool"
		if cls == "accepted" {
			k = "publishTransaction.accepted"
		}
		if perr != nil {
			viols = append(viols, fmt.Sprintf("C20 key=%s-returned-error: backend has the transaction but PublishTransaction failed: %v", k, perr))
		}
		if ti.height < 0 {
			if c := contains(after.unmined, ti.name); c != 1 {
				viols = append(viols, fmt.Sprintf("C20 key=%s-not-kept-once: %s recorded %d times", k, ti.name, c))
			}
		}
		if !wasKnown && ti.height < 0 {
			// counted once: spendable set = before - its inputs + its own outputs
			spent := map[string]bool{}
			for _, in := range ti.tx.TxIn {
				spent[r.coinName(in.PreviousOutPoint)] = true
			}
			var exp []string
			for _, u := range before.utxos {
				if !spent[u[:strings.LastIndex(u, ":")]] {
					exp = append(exp, u)
				}
			}
			for _, c := range ti.coins {
				if !r.leased(c.op) && r.spender(c.op) == "" {
					exp = append(exp, fmt.Sprintf("%s:%s:%d", c.txName, c.idx, c.amt))
				}
			}
			sort.Strings(exp)
			if strings.Join(exp, ",") != strings.Join(after.utxos, ",") {
				viols = append(viols, fmt.Sprintf("C20 key=%s-not-counted-once: spendable set after {%s}, expected {%s}", k, strings.Join(after.utxos, ","), strings.Join(exp, ",")))
			}
		}
		if ti.height < 0 {
			ti.known = true
			if ti.created {
				for _, in := range ti.tx.TxIn {
					r.published[in.PreviousOutPoint] = ti.name
				}
			}
		}
	case "known", "confirmed":
		r.forget(ti.name)
	}
	if real != cls {
		// the mapping disagrees with the backend's meaning: keep the ledger in line with what the wallet did
		if m := misclassified(ans); m != "" {
			viols = append(viols, m)
		}
		switch real {
		case "rejected", "known", "confirmed":
			r.forget(ti.name)
		case "mempool", "accepted":
			if ti.height < 0 {
				ti.known = true
			}
		}
	}
	if perr != nil {
		return "err" + sentField, strings.Join(viols, "; ")
	}
	return "ok" + sentField, strings.Join(viols, "; ")
}

func parseAnswers(s string) map[string]string {
	m := map[string]string{}
	if s == "" {
		return m
	}
	for _, t := range strings.Split(s, ";") {
		if i := strings.IndexByte(t, '@'); i > 0 {
			m[t[:i]] = t[i+1:]
		}
	}
	return m
}

// progress: everything the waiting loops of opResync look at; used to tell "still working" from "nothing more comes".
func (r *runner) progress() [5]int64 {
	r.fc.mu.Lock()
	defer r.fc.mu.Unlock()
	return [5]int64{int64(r.fc.delivered), atomic.LoadInt64(&theLogger.finished), atomic.LoadInt64(&theLogger.rebroadcasts),
		int64(len(r.fc.calls)), int64(r.fc.waiting)}
}

// waitUntil polls cond; it gives up (false) when nothing at all has moved for a quiet period, or at the hard limit.  On
// the unchanged tree every wait of opResync ends through cond; the quiet period only matters when an expected event
// never comes — so it is generous (a starved machine can keep every goroutine of the wallet off the CPU for seconds
// while this loop still polls) and only falls back to the short `quiet` once a few waits of this process have ended
// that way, i.e. once the run is decided (notes/FLAKES.md).
func (r *runner) waitUntil(cond func() bool, quiet time.Duration) bool {
	hard := 20 * time.Second
	if atomic.LoadInt32(&quietTimeouts) < 3 {
		quiet, hard = generousQuiet, 2*generousQuiet
	}
	return r.waitUntilQ(cond, quiet, hard)
}

const generousQuiet = 30 * time.Second

var quietTimeouts int32

func (r *runner) waitUntilQ(cond func() bool, quiet, hard time.Duration) bool {
	// "quiet" = no progress during `quiet` of wall-clock time AND during 500 polls of this loop (a process that was
	// not scheduled at all makes no progress but does not poll either)
	deadline := time.Now().Add(hard)
	last, lastMove, idle := r.progress(), time.Now(), 0
	for !cond() {
		now := time.Now()
		if p := r.progress(); p != last {
			last, lastMove, idle = p, now, 0
		}
		idle++
		if now.After(deadline) || (idle > 500 && now.Sub(lastMove) > quiet) {
			if cond() {
				return true
			}
			atomic.AddInt32(&quietTimeouts, 1)
			return false
		}
		time.Sleep(100 * time.Microsecond)
	}
	return true
}

// goroutineBlocks returns the runtime's goroutine dump, one block per goroutine (header line "goroutine N [state…]:"
// followed by the frames and the "created by" line).
func goroutineBlocks() []string {
	buf := make([]byte, 1<<16)
	for {
		n := runtime.Stack(buf, true)
		if n < len(buf) {
			buf = buf[:n]
			break
		}
		buf = make([]byte, 2*len(buf))
	}
	return strings.Split(string(buf), "\n\n")
}

// rebroadcastsOver waits until every re-broadcast started by a finished rescan has run to its end: the wallet's
// rescanProgressHandler (which logs "Finished rescan" and then executes `go w.resendUnminedTxs()`) is parked in its
// select again, and no goroutine is inside resendUnminedTxs any more.  From then on the backend's call log is final —
// a state of the real wallet, not a guess from elapsed time.  The limit is a backstop (never reached on the unchanged
// tree); the callers still apply their count-based waits afterwards for trees in which these function names changed.
func rebroadcastsOver() bool {
	const handler = "github.com/btcsuite/btcwallet/wallet.(*Wallet).rescanProgressHandler"
	deadline := time.Now().Add(generousQuiet)
	for {
		idle, busy := false, false
		for _, g := range goroutineBlocks() {
			nl := strings.IndexByte(g, '\n')
			if nl < 0 {
				continue
			}
			head, body := g[:nl], g[nl:]
			switch {
			case strings.Contains(body, "resendUnminedTxs") || strings.Contains(body, "created by "+handler):
				// a re-broadcast goroutine: running, blocked in the backend, or created and not yet started (then its
				// only frame is the go statement's wrapper, recognised by its creator)
				busy = true
			case strings.Contains(body, handler+"("):
				idle = strings.Contains(head, "[select")
			}
		}
		if idle && !busy {
			return true
		}
		if time.Now().After(deadline) {
			return false
		}
		time.Sleep(200 * time.Microsecond)
	}
}

func (r *runner) startRescan() error {
	var addrs []btcutil.Address
	var unspent []wtxmgr.Credit
	err := walletdb.View(r.w.Database(), func(tx walletdb.ReadTx) error {
		var err error
		unspent, err = r.w.TxStore.OutputsToWatch(tx.ReadBucket(wtxmgrNS))
		return err
	})
	if err != nil {
		return err
	}
	return r.w.Rescan(addrs, unspent)
}

// resync / restart [ans=T7@spec;T8@spec] : a rescan finishes (after a restart for `restart`); the wallet re-offers
// its unconfirmed transactions.
// resync twice=1 [ans=...] : TWO resynchronisations, the second finishing while the re-broadcast started by the first is
// still blocked inside its first SendRawTransaction call (slow backend): each still-unconfirmed transaction must be
// offered after EVERY resynchronisation, i.e. twice.
func (r *runner) opResync(kind string, kv map[string]string) (string, string) {
	answers := parseAnswers(kv["ans"])
	twice := kv["twice"] == "1"
	if twice && kind != "resync" {
		return "bad-op", ""
	}
	// what should be offered, from the harness ledger and from the wallet's own store
	var want []string
	for _, n := range r.order {
		if ti := r.txs[n]; ti.known && ti.height < 0 {
			want = append(want, n)
		}
	}
	utxs, err := r.unminedTxs()
	if err != nil {
		return "harness-error " + err.Error(), ""
	}
	nExpected := int64(len(utxs))
	rounds := int64(1)
	if twice {
		rounds = 2
	}

	if kind == "restart" {
		old := r.fc
		old.Stop()
		if err := r.loader.UnloadWallet(); err != nil {
			return "harness-error unload: " + err.Error(), ""
		}
		w, err := r.loader.OpenExistingWallet(pubPass, false)
		if err != nil {
			return "harness-error open: " + err.Error(), ""
		}
		r.w = w
		nf := &fakeChain{ntfn: make(chan interface{}), quit: make(chan struct{}), answers: map[chainhash.Hash]string{}, hashes: old.hashes, ctr: old.ctr}
		r.fc = nf
		r.nCalls = 0
		r.userLock = map[wire.OutPoint]bool{}
	}
	r.fc.mu.Lock()
	for n, a := range answers {
		if ti := r.txs[n]; ti != nil {
			r.fc.answers[ti.hash] = a
		}
	}
	nlog := len(r.fc.sendLog)
	r.fc.mu.Unlock()
	start := atomic.LoadInt64(&theLogger.rebroadcasts)
	startFin := atomic.LoadInt64(&theLogger.finished)
	finishedRounds := func() int64 { return atomic.LoadInt64(&theLogger.finished) - startFin }
	waiting := func() int { r.fc.mu.Lock(); defer r.fc.mu.Unlock(); return r.fc.waiting }
	const quiet = 1500 * time.Millisecond
	held := int64(-1) // twice=1: number of re-broadcast goroutines seen blocked at the gate, if fewer than expected

	switch {
	case kind == "restart":
		if err := r.attach(); err != nil {
			return "harness-error attach: " + err.Error(), ""
		}
	case twice && nExpected > 0:
		gate := make(chan struct{})
		r.fc.mu.Lock()
		r.fc.hold = gate
		r.fc.mu.Unlock()
		release := func() {
			r.fc.mu.Lock()
			if r.fc.hold != nil {
				r.fc.hold = nil
				close(gate)
			}
			r.fc.mu.Unlock()
		}
		if err := r.startRescan(); err != nil {
			release()
			return "harness-error rescan: " + err.Error(), ""
		}
		// the first re-broadcast is now stuck in its first SendRawTransaction call
		if !r.waitUntil(func() bool { return r.fc.allDelivered() && finishedRounds() >= 1 && waiting() >= 1 }, quiet) {
			release()
			if !r.fc.allDelivered() || finishedRounds() < 1 {
				return "harness-error first rescan did not finish", ""
			}
		}
		if err := r.startRescan(); err != nil {
			release()
			return "harness-error rescan: " + err.Error(), ""
		}
		// second RescanFinished delivered while the first re-broadcast is still blocked; its own re-broadcast
		// (if the wallet starts one) gets stuck as well
		r.waitUntil(func() bool { return r.fc.allDelivered() && finishedRounds() >= 2 && waiting() >= 2 }, quiet)
		if n := int64(waiting()); n >= 1 && n < rounds {
			// only n re-broadcasts exist after a quiet period: do not wait for the offers of one that was never started
			held = n
		}
		release()
		if !r.fc.allDelivered() || finishedRounds() < 2 {
			return "harness-error second rescan did not finish", ""
		}
	default:
		for i := int64(0); i < rounds; i++ {
			if err := r.startRescan(); err != nil {
				return "harness-error rescan: " + err.Error(), ""
			}
			if !r.waitUntil(func() bool { return r.fc.allDelivered() && finishedRounds() >= i+1 }, quiet) {
				return "harness-error rescan did not finish", ""
			}
		}
	}
	// wait until the wallet has taken the RescanFinished notification(s), the rescan goroutines have passed them on
	// ("Finished rescan" is logged right before `go w.resendUnminedTxs()`), and the re-broadcast goroutine(s) have
	// finished every transaction.  If the expected number of offers never arrives the oracles below judge what WAS
	// offered.
	if !r.waitUntil(func() bool { return r.fc.allDelivered() && finishedRounds() >= rounds }, quiet) {
		return "harness-error rescan did not finish", ""
	}
	// every re-broadcast goroutine has returned: nothing more is offered, and none of them is left to read the store
	// while a LATER op changes it (with an empty list the goroutine does nothing observable — unless it is so late
	// that it sees the next op's transaction)
	settled := rebroadcastsOver()
	short := func(cond func() bool, q time.Duration) {
		if settled && atomic.LoadInt32(&quietTimeouts) < 3 {
			// the call log is final: either the count is there or it never will be
			if !cond() {
				r.waitUntilQ(cond, q, 20*time.Second)
			}
			return
		}
		r.waitUntil(cond, q)
	}
	if held >= 0 {
		short(func() bool { return atomic.LoadInt64(&theLogger.rebroadcasts)-start >= held*nExpected }, quiet)
		r.waitUntilQ(func() bool { return atomic.LoadInt64(&theLogger.rebroadcasts)-start >= rounds*nExpected }, 300*time.Millisecond, 20*time.Second)
	} else {
		short(func() bool { return atomic.LoadInt64(&theLogger.rebroadcasts)-start >= rounds*nExpected }, quiet)
	}
	r.fc.notify()
	r.pending = 0
	r.wHeight = r.fc.tip()

	r.fc.mu.Lock()
	sent := append([]chainhash.Hash{}, r.fc.sendLog[nlog:]...)
	for n := range answers {
		if ti := r.txs[n]; ti != nil {
			delete(r.fc.answers, ti.hash)
		}
	}
	r.fc.mu.Unlock()
	calls := r.absorbCalls()

	var offered []string
	first := map[chainhash.Hash]int{}
	count := map[chainhash.Hash]int64{}
	var viols []string
	// C20's and C14's sentences about the re-broadcast are the same three; both properties observe them here
	both := func(key, f string, a ...interface{}) {
		t := fmt.Sprintf(f, a...)
		viols = append(viols, "C20 key="+key+": "+t, "C14 key="+key+": "+t)
	}
	for i, h := range sent {
		n := r.txNameByHash(h)
		offered = append(offered, n)
		if _, dup := first[h]; !dup {
			first[h] = i
		}
		count[h]++
		if count[h] == rounds+1 {
			both("resendUnminedTxs.offered-twice", "%s offered %d times for %d resynchronisation(s)", n, count[h], rounds)
		}
	}
	for h, i := range first {
		ti := r.txs[r.txNameByHash(h)]
		if ti == nil {
			continue
		}
		for _, in := range ti.tx.TxIn {
			if j, ok := first[in.PreviousOutPoint.Hash]; ok && j > i {
				both("resendUnminedTxs.child-before-parent", "%s offered before its parent %s", ti.name, r.txNameByHash(in.PreviousOutPoint.Hash))
			}
		}
	}
	if rounds == 1 {
		// one re-broadcast pass: no offer of a parent may follow an offer of its child at all
		last := map[chainhash.Hash]int{}
		for i, h := range sent {
			last[h] = i
		}
		for i, h := range sent {
			ti := r.txs[r.txNameByHash(h)]
			if ti == nil {
				continue
			}
			for _, in := range ti.tx.TxIn {
				if j, ok := last[in.PreviousOutPoint.Hash]; ok && j > i && first[in.PreviousOutPoint.Hash] < i {
					both("resendUnminedTxs.child-before-parent", "%s offered before a (repeated) offer of its parent %s", ti.name, r.txNameByHash(in.PreviousOutPoint.Hash))
				}
			}
		}
	}
	sort.Strings(viols) // map iteration above
	for _, n := range want {
		c := int64(contains(offered, n))
		switch {
		case c == 0:
			both("resendUnminedTxs.not-offered", "still-unconfirmed %s was not offered to the backend after the rescan", n)
		case c < rounds:
			both("resendUnminedTxs.not-offered-after-every-resync", "still-unconfirmed %s was offered %d time(s) although %d resynchronisations finished (the second while the first re-broadcast was still waiting for the backend)", n, c, rounds)
		}
	}
	for _, n := range offered {
		if m := misclassified(answers[n]); m != "" && contains(viols, m) == 0 {
			viols = append(viols, m)
		}
	}
	viols = append(viols, r.forgottenAccepted(calls, "resendUnminedTxs")...)
	// ledger: apply the answers in the order the wallet used
	for _, n := range offered {
		switch answerClass(answers[n]) {
		case "rejected", "known", "confirmed":
			r.forget(n)
		}
	}
	sorted := append([]string{}, offered...)
	sort.Strings(sorted)
	return "ok offered=" + strings.Join(sorted, ","), strings.Join(viols, "; ")
}

var _ = core.CSV
