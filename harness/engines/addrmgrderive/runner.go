// Package addrmgrderive is the engine "addrmgr-derive" (C03, C04): a real waddrmgr.Manager on a real bdb file,
// driven by generated op sequences, compared op by op with the Lean model AddrDerive, with Go-side oracles:
// an independent BIP32(+legacy rule) derivation / address encoding oracle (harness/oracle/hd), a tap on every
// database write that decrypts every field with keys recovered from the rows themselves, and a scan of the raw
// file image after every commit.
package addrmgrderive

import (
	"bytes"
	"crypto/sha256"
	"encoding/hex"
	"fmt"
	"math/big"
	"os"
	"path/filepath"
	"sort"
	"strconv"
	"strings"
	"time"

	"github.com/btcsuite/btcd/btcec/v2"
	"github.com/btcsuite/btcd/btcec/v2/schnorr"
	"github.com/btcsuite/btcd/btcutil"
	"github.com/btcsuite/btcd/btcutil/hdkeychain"
	"github.com/btcsuite/btcd/chaincfg"
	"github.com/btcsuite/btcd/txscript"
	"github.com/btcsuite/btcwallet/waddrmgr"
	"github.com/btcsuite/btcwallet/walletdb"
	_ "github.com/btcsuite/btcwallet/walletdb/bdb"

	"verifharness/core"
	"verifharness/faultdb/puttap"
	"verifharness/oracle/hd"
)

var nsKey = []byte("waddrmgr")
var netParams = &chaincfg.SimNetParams

var onet = &hd.Net{
	PKH: netParams.PubKeyHashAddrID, SH: netParams.ScriptHashAddrID, HRP: netParams.Bech32HRPSegwit,
	WIF: netParams.PrivateKeyID, HDPriv: netParams.HDPrivateKeyID, HDPub: netParams.HDPublicKeyID,
}

const hardened = 0x80000000
const importedAcct = 2147483647

type acctMeta struct {
	xpub   *hd.Key // nil for seed-derived accounts
	schema *[2]int
	ci     uint32
	// stored: the account was made by NewAccount, i.e. derived from the cointype key as re-read from its
	// serialised (32-byte padded) form.  hdkeychain's legacy hardened rule serialises the parent from its
	// in-memory bytes, which are minimal for a freshly derived key but padded for a parsed one, so such accounts
	// follow plain BIP32 even when the cointype key has a leading zero byte (account 0, made by
	// createManagerKeyScope from the in-memory cointype key, follows the legacy rule).
	stored bool
	gen    int
	// fp: the master key fingerprint the account was imported with (NewAccountWatchingOnly); 0 for seed accounts
	fp uint32
}

type handle struct {
	ma     waddrmgr.ManagedAddress
	scope  string
	origin string // how the object came to be (for oracle keys)
	// expected identity (independent of the model)
	chained       bool
	acct, br, idx uint32
	impID         int
	scrID         int
}

type runner struct {
	dir     string
	db      walletdb.DB
	mgr     *waddrmgr.Manager
	seed    []byte
	master  *hd.Key
	quirks  string
	created bool
	poison  bool

	reg  *registry
	keys *keyring

	pubPass, privPass int
	schemas           map[string][2]int
	accts             map[string]map[uint32]*acctMeta
	handles           map[int]*handle
	// harness-side bookkeeping of what has been issued, independent of the Lean model
	nextIdx    map[string]uint32 // scope/acct/branch -> next expected index
	issuedAddr map[string]string // scope/acct/branch/index -> address string
	originOf   map[string]string // same key -> "nextAddresses.unlocked" ...
	impKeys    map[int]*big.Int
	scripts    map[int][]byte
	legacyHit  bool
	// C04 boundary: has the transaction store (wtxmgr namespace of the same file) been written to yet?
	txRecorded bool
	nTx        int
	// issuedInfo: scope/acct/branch/index -> the derivation info (scope, InternalAccount, Account, branch, index,
	// master key fingerprint) the object returned by nextAddresses reported when the address was issued
	issuedInfo map[string]string
	// heldKeys: private keys handed out by DeriveFromKeyPathCache that the harness (a caller) still holds
	heldKeys []heldKey
}

type heldKey struct {
	priv *btcec.PrivateKey
	want []byte
	desc string
}

func (r *runner) Close() {
	if r.mgr != nil {
		r.mgr.Close()
	}
	if r.db != nil {
		r.db.Close()
	}
	if r.dir != "" {
		os.RemoveAll(r.dir)
	}
	r.mgr, r.db, r.dir = nil, nil, ""
}

func passBytes(kind string, i int, seed []byte) []byte {
	return []byte(fmt.Sprintf("%s-passphrase-%d-%x", kind, i, seed[:4]))
}

func acctName(n int) string {
	switch n {
	case 0:
		return ""
	case 1:
		return "default"
	}
	return "acct" + strconv.Itoa(n)
}

func errKind(err error) string {
	codes := []struct {
		c waddrmgr.ErrorCode
		s string
	}{
		{waddrmgr.ErrLocked, "locked"}, {waddrmgr.ErrWatchingOnly, "watchonly"}, {waddrmgr.ErrWrongPassphrase, "wrongpass"},
		{waddrmgr.ErrCrypto, "crypto"}, {waddrmgr.ErrAddressNotFound, "notfound"}, {waddrmgr.ErrAccountNotFound, "acctnotfound"},
		{waddrmgr.ErrDuplicateAddress, "dupaddr"}, {waddrmgr.ErrDuplicateAccount, "dupacct"}, {waddrmgr.ErrTooManyAddresses, "toomany"},
		{waddrmgr.ErrInvalidAccount, "invalidacct"}, {waddrmgr.ErrAccountNumTooHigh, "invalidacct"}, {waddrmgr.ErrKeyChain, "keychain"},
		{waddrmgr.ErrScopeNotFound, "scopenotfound"}, {waddrmgr.ErrAccountNotCached, "notcached"},
	}
	for _, c := range codes {
		if waddrmgr.IsError(err, c.c) {
			return c.s
		}
	}
	return "other"
}

func parseScope(s string) (waddrmgr.KeyScope, bool) {
	f := strings.Split(s, ":")
	if len(f) != 2 {
		return waddrmgr.KeyScope{}, false
	}
	a, e1 := strconv.ParseUint(f[0], 10, 32)
	b, e2 := strconv.ParseUint(f[1], 10, 32)
	return waddrmgr.KeyScope{Purpose: uint32(a), Coin: uint32(b)}, e1 == nil && e2 == nil
}

// ---- oracle side ---------------------------------------------------------------------------------------------

func (r *runner) acctKey(scope string, acct uint32) *hd.Key {
	if m := r.accts[scope][acct]; m != nil && m.xpub != nil {
		return m.xpub
	}
	sc, _ := parseScope(scope)
	ck, err := r.master.Path(true, sc.Purpose+hardened, sc.Coin+hardened)
	if err != nil {
		return nil
	}
	legacy := true
	if m := r.accts[scope][acct]; m != nil && m.stored {
		legacy = false
	}
	k, err := ck.Child(acct+hardened, legacy)
	if err != nil {
		return nil
	}
	if k.LegacyDiffers {
		r.legacyHit = true
	}
	return k
}

func (r *runner) typeFor(scope string, acct uint32, br uint32) int {
	sch := r.schemas[scope]
	if m := r.accts[scope][acct]; m != nil && m.schema != nil {
		sch = *m.schema
	}
	if br == 1 {
		return sch[1]
	}
	return sch[0]
}

// chainedOracle returns the oracle's address, address id and key for scope/acct/branch/index.
func (r *runner) chainedOracle(scope string, acct, br, idx uint32) (string, []byte, *hd.Key) {
	ak := r.acctKey(scope, acct)
	if ak == nil {
		return "", nil, nil
	}
	// Steps below the account.  The account key the manager derives from is never the in-memory result of a
	// derivation: loadAccountInfo / Unlock always re-read it from its row (hdkeychain.NewKeyFromString: 32 bytes,
	// zero padded), so a HARDENED branch step (DeriveFromKeyPath / DeriveFromKeyPathCache only, private account key)
	// is plain BIP32 even when the account key has leading zero bytes.  The branch key is the in-memory result of
	// DeriveNonStandard (minimal big-endian bytes), so a hardened index step follows btcsuite's legacy rule.
	// (For the non-hardened steps of issued addresses the two rules coincide.)
	bk, err := ak.Child(br, false)
	if err != nil {
		return "", nil, nil
	}
	k, err := bk.Child(idx, true)
	if err != nil {
		return "", nil, nil
	}
	a, id := hd.Address(onet, r.typeFor(scope, acct, br), k.X, k.Y, false)
	return a, id, k
}

func ckey(scope string, acct, br, idx uint32) string {
	return fmt.Sprintf("%s:%d:%d:%d", scope, acct, br, idx)
}

// registerBranch makes the registry know indices [0,upto] of a branch (address ids, pubkeys, private keys).
func (r *runner) registerBranch(scope string, acct, br uint32, upto uint32) {
	start := uint32(0)
	if upto >= 4096 {
		start = upto // a far-away (e.g. hardened) index: that one only, never the whole range below it
	}
	for i := start; i <= upto && i >= start; i++ {
		d := ckey(scope, acct, br, i)
		gen := 0
		if m := r.accts[scope][acct]; m != nil {
			gen = m.gen
		}
		sk := fmt.Sprintf("br\x00%d\x00%s", gen, d)
		if r.reg.seen[sk] {
			continue
		}
		r.reg.seen[sk] = true
		_, id, k := r.chainedOracle(scope, acct, br, i)
		if k == nil {
			continue
		}
		r.reg.addAddrID(d, id)
		r.reg.addBytes("pubkey", "pubkey "+d, false, k.PubBytes())
		r.reg.addBytes("pubkey", "pubkey-x "+d, false, k.PubBytes()[1:])
		r.reg.addBytes("addrid", "hash160 "+d, false, hd.Hash160(k.PubBytes()))
		if k.IsPriv {
			r.reg.addBytes("privkey", "privkey "+d, true, k.PrivBytes())
			r.reg.addText("privkey", "wif "+d, true, hd.WIF(onet, k.D, true))
		}
	}
}

func (r *runner) registerXKey(desc string, k *hd.Key) {
	if k.IsPriv {
		s := k.String(onet.HDPriv)
		r.reg.plain[s] = "S:xprv:" + desc
		r.reg.addText("xprv", "xprv "+desc, true, s)
		r.reg.addBytes("xprv", "xprv-scalar "+desc, true, k.PrivBytes())
		r.reg.addBytes("xprv", "xprv-chaincode "+desc, true, k.Chain)
	}
	p := k.Neuter().String(onet.HDPub)
	r.reg.plain[p] = "P:xpub:" + desc
	r.reg.addText("xpub", "xpub "+desc, false, p)
	r.reg.addBytes("xpub", "xpub-point "+desc, false, k.PubBytes())
}

func (r *runner) registerScope(scope string) bool {
	sc, _ := parseScope(scope)
	ck, err := r.master.Path(true, sc.Purpose+hardened, sc.Coin+hardened)
	if err != nil {
		return false
	}
	r.registerXKey(scope, ck)
	r.registerAcct(scope, 0)
	return true
}

func (r *runner) registerAcct(scope string, acct uint32) {
	ak := r.acctKey(scope, acct)
	if ak != nil {
		r.registerXKey(fmt.Sprintf("%s:%d", scope, acct), ak)
	}
}

func (r *runner) impKey(id int) *big.Int {
	if d, ok := r.impKeys[id]; ok {
		return d
	}
	h := sha256.Sum256(append(append([]byte("imported-key"), r.seed...), byte(id), byte(id>>8)))
	d := new(big.Int).SetBytes(h[:])
	d.Mod(d, btcec.S256().N)
	if d.Sign() == 0 {
		d.SetInt64(1)
	}
	r.impKeys[id] = d
	x, y := hd.PubOfPriv(d)
	b := make([]byte, 32)
	d.FillBytes(b)
	desc := "k" + strconv.Itoa(id)
	r.reg.plain[string(b)] = "S:sk:" + desc
	r.reg.addBytes("privkey", "imported privkey "+desc, true, b)
	r.reg.addText("privkey", "imported wif "+desc, true, hd.WIF(onet, d, true))
	r.reg.addText("privkey", "imported wif-u "+desc, true, hd.WIF(onet, d, false))
	r.reg.plain[string(hd.SerP(x, y))] = "P:pk:" + desc
	r.reg.plain[string(hd.SerUncompressed(x, y))] = "P:pk:" + desc
	r.reg.addBytes("pubkey", "imported pubkey "+desc, false, hd.SerP(x, y))
	r.reg.addBytes("pubkey", "imported pubkey-u "+desc, false, hd.SerUncompressed(x, y))
	return d
}

// importedAddr: oracle address / id for imported key id in a scope.
func (r *runner) importedAddr(scope string, id int, compressed bool) (string, []byte) {
	d := r.impKey(id)
	x, y := hd.PubOfPriv(d)
	typ := r.schemas[scope][0]
	a, aid := hd.Address(onet, typ, x, y, !compressed && typ != hd.TaprootPubKey)
	if typ == hd.TaprootPubKey {
		a, aid = hd.Address(onet, typ, x, y, false)
	}
	r.reg.addAddrID("k"+strconv.Itoa(id), aid)
	r.reg.addBytes("addrid", "imported hash160", false, hd.Hash160(hd.SerP(x, y)))
	return a, aid
}

// scriptFor: deterministic script bytes (kind 0/1: raw script; kind 2: leaf script of a one-leaf taproot tree).
func (r *runner) scriptFor(id int) []byte {
	if s, ok := r.scripts[id]; ok {
		return s
	}
	h := sha256.Sum256(append(append([]byte("script"), r.seed...), byte(id), byte(id>>8)))
	s := append([]byte{txscript.OP_1, txscript.OP_DROP, txscript.OP_DATA_20}, h[:20]...)
	s = append(s, txscript.OP_DROP, txscript.OP_TRUE)
	r.scripts[id] = s
	return s
}

func (r *runner) tapscriptFor(id int) (*waddrmgr.Tapscript, []byte) {
	h := sha256.Sum256(append(append([]byte("tap-internal"), r.seed...), byte(id), byte(id>>8)))
	priv, _ := btcec.PrivKeyFromBytes(h[:])
	leaf := txscript.NewBaseTapLeaf(r.scriptFor(id))
	ts := &waddrmgr.Tapscript{
		Type:         waddrmgr.TapscriptTypeFullTree,
		ControlBlock: &txscript.ControlBlock{InternalKey: priv.PubKey()},
		Leaves:       []txscript.TapLeaf{leaf},
	}
	return ts, schnorr.SerializePubKey(priv.PubKey())
}

// ---- database helpers ----------------------------------------------------------------------------------------

func (r *runner) update(tap *puttap.Tap, f func(ns walletdb.ReadWriteBucket) error) error {
	return walletdb.Update(r.db, func(tx walletdb.ReadWriteTx) error {
		ns := tx.ReadWriteBucket(nsKey)
		if ns == nil {
			return fmt.Errorf("namespace missing")
		}
		return f(puttap.Wrap(ns, tap))
	})
}

func (r *runner) imagePath() string { return filepath.Join(r.dir, "w.db") }

// scanImage reads the raw database file and reports every registered secret found in it (always a violation) and
// checks the boundary of C04's public clause:
//   - before the first wtxmgr write: no registered public item anywhere in the file;
//   - afterwards: the waddrmgr namespace (every bucket, key and value, walked through the database API) still holds
//     no public item, and every public item found in the raw image also occurs inside a wtxmgr bucket
//     (so public material exists in the file only because, and only where, the transaction store put it).
func (r *runner) scanImage() []string {
	img, err := os.ReadFile(r.imagePath())
	if err != nil {
		return []string{"C04 key=image-unreadable: " + err.Error()}
	}
	var out []string
	seen := map[string]bool{}
	add := func(k string) {
		if !seen[k] {
			seen[k] = true
			out = append(out, k)
		}
	}
	var inTx map[string]bool
	if r.txRecorded {
		inTx = map[string]bool{}
		_ = walletdb.View(r.db, func(tx walletdb.ReadTx) error {
			if ns := tx.ReadBucket(wtxNS); ns != nil {
				walkBucket(ns, nil, func(path []string, k, v []byte) {
					for _, buf := range [][]byte{k, v} {
						for _, n := range r.reg.scan(buf, true) {
							if n.secret {
								add(fmt.Sprintf("C04 key=wtxmgr-secret.%s: wtxmgr bucket %s holds %s in the clear", n.class, strings.Join(path, "/"), n.what))
							} else {
								inTx[n.class+"\x00"+string(n.b)] = true
							}
						}
					}
				})
			}
			if ns := tx.ReadBucket(nsKey); ns != nil {
				walkBucket(ns, nil, func(path []string, k, v []byte) {
					for _, buf := range [][]byte{k, v} {
						for _, n := range r.reg.scan(buf, true) {
							kind := "public"
							if n.secret {
								kind = "secret"
							}
							add(fmt.Sprintf("C04 key=waddrmgr-%s.%s: waddrmgr bucket %s holds %s in the clear (a transaction has been recorded, the address manager namespace must stay clean regardless)", kind, n.class, pathStr(path), n.what))
						}
					}
				})
			}
			return nil
		})
	}
	for _, n := range r.reg.scan(img, true) {
		switch {
		case n.secret:
			add(fmt.Sprintf("C04 key=image-secret.%s: database file image contains %s in the clear", n.class, n.what))
		case !r.txRecorded:
			add(fmt.Sprintf("C04 key=image-public.%s: database file image contains %s in the clear before any transaction was recorded", n.class, n.what))
		case !inTx[n.class+"\x00"+string(n.b)]:
			add(fmt.Sprintf("C04 key=image-public-outside-wtxmgr.%s: database file image contains %s in the clear and no wtxmgr bucket holds it", n.class, n.what))
		}
	}
	return out
}

// walkBucket visits every key/value of a bucket tree (nested bucket names are visited as keys with nil value).
func walkBucket(b walletdb.ReadBucket, path []string, f func(path []string, k, v []byte)) {
	_ = b.ForEach(func(k, v []byte) error {
		f(path, k, v)
		if v == nil {
			if nb := b.NestedReadBucket(k); nb != nil {
				walkBucket(nb, append(append([]string{}, path...), string(k)), f)
			}
		}
		return nil
	})
}

func (r *runner) scanWrites(ws []puttap.Write) []string {
	var out []string
	for _, w := range ws {
		for _, buf := range [][]byte{w.Key, w.Value} {
			for _, n := range r.reg.scan(buf, true) {
				kind := "public"
				if n.secret {
					kind = "secret"
				}
				out = append(out, fmt.Sprintf("C04 key=put-%s.%s: Put(%s/%x) carries %s in the clear", kind, n.class, pathStr(w.Path), w.Key[:min(8, len(w.Key))], n.what))
			}
		}
	}
	return out
}

func pathStr(p []string) string {
	var out []string
	for _, e := range p {
		if len(e) == 8 && len(out) == 1 && out[0] == "scope" {
			out = append(out, scopeOfKey(e))
		} else if len(e) == 4 && len(out) > 0 && out[len(out)-1] == "addracctidx" {
			out = append(out, fmt.Sprint(u32([]byte(e))))
		} else {
			out = append(out, e)
		}
	}
	return strings.Join(out, "/")
}

// ---- result rendering ----------------------------------------------------------------------------------------

func b01(b bool) string {
	if b {
		return "1"
	}
	return "0"
}

func (r *runner) info(h *handle) string {
	switch a := h.ma.(type) {
	case waddrmgr.ManagedPubKeyAddress:
		scope, path, ok := a.DerivationInfo()
		if !ok {
			return fmt.Sprintf("0:0/%d/0/0/0/fp0/t%d/m%s/i%s/c%s/s0", a.InternalAccount(), a.AddrType(), b01(a.Imported()), b01(a.Internal()), b01(a.Compressed()))
		}
		return fmt.Sprintf("%d:%d/%d/%d/%d/%d/fp%d/t%d/m%s/i%s/c%s/s0", scope.Purpose, scope.Coin, path.InternalAccount, path.Account,
			path.Branch, path.Index, path.MasterKeyFingerprint, a.AddrType(), b01(a.Imported()), b01(a.Internal()), b01(a.Compressed()))
	default:
		return fmt.Sprintf("%s/%d/0/0/0/fp0/t%d/m%s/i%s/c%s/s1", h.scope, h.ma.InternalAccount(), h.ma.AddrType(), b01(h.ma.Imported()), b01(h.ma.Internal()), b01(h.ma.Compressed()))
	}
}

func (r *runner) acctHasPriv(scope string, acct uint32) bool {
	m := r.accts[scope][acct]
	return m == nil || m.xpub == nil
}

// checkObj evaluates the C03 clauses on one returned address object (independent of the Lean model).
func (r *runner) checkObj(h *handle, op string) []string {
	var v []string
	if m := r.accts[h.scope][h.acct]; h.chained && m != nil && m.gen > 0 {
		// the account row was overwritten (reported once under newAccount.existing-account-overwritten);
		// everything derived from it afterwards is a consequence, not a separate finding
		return nil
	}
	add := func(key, msg string) { v = append(v, "C03 key="+key+": "+msg) }
	pk, isKey := h.ma.(waddrmgr.ManagedPubKeyAddress)
	if h.chained {
		want, _, k := r.chainedOracle(h.scope, h.acct, h.br, h.idx)
		d := ckey(h.scope, h.acct, h.br, h.idx)
		if k == nil {
			return v
		}
		if got := h.ma.Address().EncodeAddress(); got != want {
			add(op+".address-not-seed-child", fmt.Sprintf("address for %s is %s, independent derivation gives %s", d, got, want))
		}
		if !isKey {
			add(op+".not-a-pubkey-address", d)
			return v
		}
		if !bytes.Equal(pk.PubKey().SerializeCompressed(), k.PubBytes()) {
			add(op+".pubkey-not-seed-child", fmt.Sprintf("public key for %s differs from independent derivation", d))
		}
		scope, path, ok := pk.DerivationInfo()
		sc, _ := parseScope(h.scope)
		if !ok || scope != sc || path.InternalAccount != h.acct || path.Branch != h.br || path.Index != h.idx {
			add(op+".reported-path-wrong", fmt.Sprintf("DerivationInfo for %s reports %v %v ok=%v", d, scope, path, ok))
		}
		if pk.Internal() != (h.br == 1) {
			add(op+".internal-flag-wrong", d)
		}
		if int(pk.AddrType()) != r.typeFor(h.scope, h.acct, h.br) {
			add(op+".address-format-wrong", fmt.Sprintf("%s has type %v", d, pk.AddrType()))
		}
		if !r.mgr.IsLocked() && !r.mgr.WatchOnly() && r.acctHasPriv(h.scope, h.acct) {
			origin := r.originOf[d]
			if origin == "" {
				origin = h.origin
			}
			priv, err := pk.PrivKey()
			if err != nil {
				add(origin+"-privkey-"+errKind(err), fmt.Sprintf("wallet is unlocked but PrivKey() of %s (%s, reached through %s) fails: %v", d, origin, op, err))
			} else if !bytes.Equal(priv.PubKey().SerializeCompressed(), pk.PubKey().SerializeCompressed()) || priv.Key.String() != hex.EncodeToString(k.PrivBytes()) {
				add(origin+"-privkey-mismatch", fmt.Sprintf("PrivKey() of %s is not the key of its public key", d))
			}
		}
		return v
	}
	if isKey && h.impID > 0 {
		d := r.impKey(h.impID)
		x, y := hd.PubOfPriv(d)
		if !bytes.Equal(pk.PubKey().SerializeCompressed(), hd.SerP(x, y)) {
			add(op+".imported-pubkey-changed", fmt.Sprintf("imported key %d", h.impID))
		}
		if !r.mgr.IsLocked() && !r.mgr.WatchOnly() {
			if priv, err := pk.PrivKey(); err == nil {
				b := make([]byte, 32)
				d.FillBytes(b)
				if !bytes.Equal(priv.Serialize(), b) {
					add(op+".imported-privkey-changed", fmt.Sprintf("imported key %d", h.impID))
				}
			}
		}
	}
	return v
}

func joinV(v []string) string { return strings.Join(v, "; ") }

func sortedKeys(m map[int]*handle) []int {
	var k []int
	for i := range m {
		k = append(k, i)
	}
	sort.Ints(k)
	return k
}

var _ = time.Now
var _ = btcutil.Hash160
var _ = hdkeychain.HardenedKeyStart
var _ = core.KV
