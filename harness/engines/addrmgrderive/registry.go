package addrmgrderive

import (
	"bytes"
	"crypto/sha256"
	"encoding/binary"
	"encoding/hex"
	"fmt"
	"sort"
	"strings"

	"github.com/btcsuite/btcwallet/snacl"

	"verifharness/faultdb/puttap"
)

// ---- registry of everything secret / public the run has produced ---------------------------------------------

type needle struct {
	class  string // stable class name used in oracle keys (xprv, privkey, script, passphrase, seed, xpub, pubkey, addrid, ...)
	what   string
	secret bool
	b      []byte
}

type registry struct {
	needles []needle
	idx     map[uint64][]int   // first 8 bytes -> needle indexes
	plain   map[string]string  // exact plaintext -> symbolic descriptor ("S:xprv:84:0:0")
	hashes  map[[32]byte]string // sha256(address id) -> "P:aid:..."
	seen    map[string]bool
}

func newRegistry() *registry {
	return &registry{idx: map[uint64][]int{}, plain: map[string]string{}, hashes: map[[32]byte]string{}, seen: map[string]bool{}}
}

func (r *registry) addNeedle(class, what string, secret bool, b []byte) {
	if len(b) < 8 {
		return
	}
	k := class + "\x00" + string(b)
	if r.seen[k] {
		return
	}
	r.seen[k] = true
	r.needles = append(r.needles, needle{class, what, secret, append([]byte{}, b...)})
	key := binary.LittleEndian.Uint64(b[:8])
	r.idx[key] = append(r.idx[key], len(r.needles)-1)
}

// addBytes registers raw bytes and their lower/upper-case hex text.
func (r *registry) addBytes(class, what string, secret bool, b []byte) {
	r.addNeedle(class, what, secret, b)
	h := hex.EncodeToString(b)
	r.addNeedle(class, what+"(hex)", secret, []byte(h))
	r.addNeedle(class, what+"(HEX)", secret, []byte(strings.ToUpper(h)))
}

func (r *registry) addText(class, what string, secret bool, s string) {
	r.addNeedle(class, what, secret, []byte(s))
}

// scan returns the needles found in buf (secrets always, public items when withPublic).
func (r *registry) scan(buf []byte, withPublic bool) []needle {
	var out []needle
	if len(buf) < 8 {
		return nil
	}
	found := map[int]bool{}
	for i := 0; i+8 <= len(buf); i++ {
		c, ok := r.idx[binary.LittleEndian.Uint64(buf[i:i+8])]
		if !ok {
			continue
		}
		for _, ni := range c {
			n := r.needles[ni]
			if found[ni] || (!n.secret && !withPublic) {
				continue
			}
			if i+len(n.b) <= len(buf) && bytes.Equal(buf[i:i+len(n.b)], n.b) {
				found[ni] = true
				out = append(out, n)
			}
		}
	}
	return out
}

func (r *registry) addAddrID(desc string, id []byte) {
	r.hashes[sha256.Sum256(id)] = "P:aid:" + desc
	r.addBytes("addrid", "aid:"+desc, false, id)
}

// ---- crypto keys recovered from the tapped rows (independent of the Manager) ---------------------------------

type keyring struct {
	pubPasses, privPasses map[int][]byte // known passphrases by index
	mpub, mpriv            *snacl.SecretKey
	mpubIdx, mprivIdx      int
	ck                     map[string]*snacl.CryptoKey // pub / priv / script
}

func newKeyring() *keyring {
	return &keyring{pubPasses: map[int][]byte{}, privPasses: map[int][]byte{}, ck: map[string]*snacl.CryptoKey{}, mpubIdx: -1, mprivIdx: -1}
}

func deriveMaster(params []byte, passes map[int][]byte) (*snacl.SecretKey, int) {
	idxs := make([]int, 0, len(passes))
	for i := range passes {
		idxs = append(idxs, i)
	}
	sort.Ints(idxs)
	for _, i := range idxs {
		var sk snacl.SecretKey
		if err := sk.Unmarshal(params); err != nil {
			return nil, -1
		}
		p := append([]byte{}, passes[i]...)
		if err := sk.DeriveKey(&p); err == nil {
			return &sk, i
		}
	}
	return nil, -1
}

var zeroKey snacl.CryptoKey

// open tries the crypto keys in a fixed order; returns key class and plaintext.
func (k *keyring) open(blob []byte) (string, []byte) {
	for _, c := range []string{"pub", "priv", "script"} {
		if ck := k.ck[c]; ck != nil {
			if pt, err := ck.Decrypt(blob); err == nil {
				return c, pt
			}
		}
	}
	if pt, err := zeroKey.Decrypt(blob); err == nil {
		return "zero", pt
	}
	return "?", nil
}

// ---- symbolic rendering of the tapped write stream -----------------------------------------------------------

type symbolizer struct {
	reg  *registry
	keys *keyring
	// findings collected while rendering (oracle violations, independent of the Lean model)
	viol []string
}

func (s *symbolizer) encSym(blob []byte) string {
	kc, pt := s.keys.open(blob)
	if kc == "?" {
		return "e.?(?)"
	}
	d, ok := s.reg.plain[string(pt)]
	if !ok {
		d = "?" + hex.EncodeToString(pt[:min(len(pt), 6)])
	}
	// C04_right_key_class / zero key, evaluated on the real bytes
	if strings.HasPrefix(d, "S:xprv") || strings.HasPrefix(d, "S:sk") {
		if kc != "priv" {
			s.viol = append(s.viol, fmt.Sprintf("C04 key=wrong-key-class.private-under-%s: %s is sealed under crypto key class %s", kc, d, kc))
		}
	}
	if strings.HasPrefix(d, "S:script") {
		if kc == "zero" {
			s.viol = append(s.viol, fmt.Sprintf("C04 key=cryptoKeyScript.zero-key-after-unlock: secret %s is sealed under the all-zero secretbox key (opens without any passphrase)", d))
		} else if kc != "script" {
			s.viol = append(s.viol, fmt.Sprintf("C04 key=wrong-key-class.script-under-%s: %s is sealed under crypto key class %s", kc, d, kc))
		}
	}
	return "e." + kc + "(" + d + ")"
}

func u32(b []byte) uint32 { return binary.LittleEndian.Uint32(b) }

func scopeOfKey(k string) string {
	if len(k) != 8 {
		return "?"
	}
	return fmt.Sprintf("%d:%d", u32([]byte(k[0:4])), u32([]byte(k[4:8])))
}

func nameID(n string) string {
	switch {
	case n == "default":
		return "1"
	case strings.HasPrefix(n, "acct"):
		return n[4:]
	}
	return "?" + n
}

func (s *symbolizer) hashSym(k []byte) string {
	if len(k) == 32 {
		var a [32]byte
		copy(a[:], k)
		if d, ok := s.reg.hashes[a]; ok {
			return "h(" + d + ")"
		}
	}
	return "h(?)"
}

// lenBlob reads <u32 len><bytes>.
func lenBlob(b []byte, off int) ([]byte, int, bool) {
	if off+4 > len(b) {
		return nil, off, false
	}
	l := int(u32(b[off:]))
	if off+4+l > len(b) {
		return nil, off, false
	}
	return b[off+4 : off+4+l], off + 4 + l, true
}

func (s *symbolizer) acctRow(v []byte) (string, bool) {
	if len(v) < 5 {
		return "n:malformed", true
	}
	raw := v[5:]
	switch v[0] {
	case 0: // accountDefault
		pub, off, ok1 := lenBlob(raw, 0)
		priv, off, ok2 := lenBlob(raw, off)
		if !ok1 || !ok2 || off+12 > len(raw) {
			return "n:malformed", true
		}
		if len(pub) == 0 && len(priv) == 0 {
			return "", false // the reserved imported account: no key material
		}
		ne, ni := u32(raw[off:]), u32(raw[off+4:])
		name, _, _ := lenBlob(raw, off+8)
		out := "n:dflt+" + s.encSym(pub)
		if len(priv) > 0 {
			out += "+" + s.encSym(priv)
		}
		return out + fmt.Sprintf("+n:%d:%d:%s", ne, ni, nameID(string(name))), true
	case 1: // accountWatchOnly
		pub, off, ok := lenBlob(raw, 0)
		if !ok || off+12 > len(raw) {
			return "n:malformed", true
		}
		fp, ne, ni := u32(raw[off:]), u32(raw[off+4:]), u32(raw[off+8:])
		name, off, _ := lenBlob(raw, off+12)
		schema := "-"
		if off < len(raw) && raw[off] != 0 && off+3 <= len(raw) {
			schema = fmt.Sprintf("%d/%d", raw[off+2], raw[off+1]) // stored as <internal><external>
		}
		return "n:wo+" + s.encSym(pub) + fmt.Sprintf("+n:%d:%d:%d:%s:%s", fp, ne, ni, nameID(string(name)), schema), true
	}
	return "n:unknown-acct-type", true
}

func (s *symbolizer) addrRow(v []byte) string {
	if len(v) < 18 {
		return "n:malformed"
	}
	acct := u32(v[1:5])
	raw := v[18:]
	switch v[0] {
	case 0:
		if len(raw) != 8 {
			return "n:malformed"
		}
		return fmt.Sprintf("n:chain:%d:%d:%d", acct, u32(raw[0:]), u32(raw[4:]))
	case 1:
		pub, off, _ := lenBlob(raw, 0)
		priv, _, _ := lenBlob(raw, off)
		out := "n:imp+" + s.encSym(pub)
		if len(priv) > 0 {
			out += "+" + s.encSym(priv)
		}
		return out
	case 2:
		hash, off, _ := lenBlob(raw, 0)
		scr, _, _ := lenBlob(raw, off)
		out := "n:scr:0:1+" + s.encSym(hash)
		if len(scr) > 0 {
			out += "+" + s.encSym(scr)
		}
		return out
	case 3, 4:
		if len(raw) < 2 {
			return "n:malformed"
		}
		kind := 1
		if v[0] == 4 {
			kind = 2
		}
		hash, off, _ := lenBlob(raw, 2)
		scr, _, _ := lenBlob(raw, off)
		out := fmt.Sprintf("n:scr:%d:%d+", kind, raw[1]) + s.encSym(hash)
		if len(scr) > 0 {
			out += "+" + s.encSym(scr)
		}
		return out
	}
	return "n:unknown-addr-type"
}

var sensitiveMainDeletes = map[string]bool{"mpriv": true, "cpriv": true, "cscript": true, "mhdpriv": true}

// learnKeys processes the master-parameter and crypto-key rows of a write list (they may come after rows that
// are sealed with those keys, e.g. in Create).
func (s *symbolizer) learnKeys(ws []puttap.Write) {
	for _, w := range ws {
		if w.Kind != puttap.Put || len(w.Path) != 1 || w.Path[0] != "main" {
			continue
		}
		switch string(w.Key) {
		case "mpub":
			if sk, i := deriveMaster(w.Value, s.keys.pubPasses); sk != nil {
				s.keys.mpub, s.keys.mpubIdx = sk, i
			}
		case "mpriv":
			if sk, i := deriveMaster(w.Value, s.keys.privPasses); sk != nil {
				s.keys.mpriv, s.keys.mprivIdx = sk, i
			}
		}
	}
}

func (s *symbolizer) cryptoKeyRow(name string, v []byte) string {
	cls := map[string]string{"cpub": "pub", "cpriv": "priv", "cscript": "script"}[name]
	mk, mname := s.keys.mpriv, "mpriv"
	if name == "cpub" {
		mk, mname = s.keys.mpub, "mpub"
	}
	if mk == nil {
		return "e.?(?)"
	}
	pt, err := mk.Decrypt(v)
	if err != nil {
		// sealed under the *other* master key?
		other, oname := s.keys.mpub, "mpub"
		if name == "cpub" {
			other, oname = s.keys.mpriv, "mpriv"
		}
		if other != nil {
			if pt2, err2 := other.Decrypt(v); err2 == nil {
				s.viol = append(s.viol, fmt.Sprintf("C04 key=wrong-key-class.crypto-key-%s-under-%s: crypto key sealed under the wrong master key", cls, oname))
				pt, mname, err = pt2, oname, nil
			}
		}
		if err != nil {
			return "e.?(?)"
		}
	}
	if len(pt) != 32 {
		return "e." + mname + "(?len)"
	}
	if old := s.keys.ck[cls]; old != nil {
		if !bytes.Equal(old[:], pt) {
			return "e." + mname + "(S:ckey:" + cls + "?changed)"
		}
	} else {
		var ck snacl.CryptoKey
		copy(ck[:], pt)
		s.keys.ck[cls] = &ck
		s.reg.addBytes("cryptokey-"+cls, "crypto key "+cls, true, pt)
	}
	return "e." + mname + "(S:ckey:" + cls + ")"
}

// render returns the sorted symbolic rows of the sensitive writes.
func (s *symbolizer) render(ws []puttap.Write) []string {
	s.learnKeys(ws)
	// crypto key rows first (later rows of the same list may already be sealed with them)
	pre := map[int]string{}
	for i, w := range ws {
		if w.Kind == puttap.Put && len(w.Path) == 1 && w.Path[0] == "main" {
			switch string(w.Key) {
			case "cpub", "cpriv", "cscript":
				pre[i] = s.cryptoKeyRow(string(w.Key), w.Value)
			}
		}
	}
	var out []string
	for i, w := range ws {
		if w.Kind != puttap.Put && w.Kind != puttap.Delete {
			continue
		}
		del := w.Kind == puttap.Delete
		p := w.Path
		switch {
		case len(p) == 1 && p[0] == "main":
			k := string(w.Key)
			if del {
				if sensitiveMainDeletes[k] {
					out = append(out, "D main|n:"+k)
				}
				continue
			}
			switch k {
			case "mpub":
				out = append(out, fmt.Sprintf("main|n:mpub|n:kdf:%d", s.keys.mpubIdx))
			case "mpriv":
				out = append(out, fmt.Sprintf("main|n:mpriv|n:kdf:%d", s.keys.mprivIdx))
			case "cpub", "cpriv", "cscript":
				out = append(out, "main|n:"+k+"|"+pre[i])
			case "mhdpriv", "mhdpub":
				out = append(out, "main|n:"+k+"|"+s.encSym(w.Value))
			case "watchonly":
				out = append(out, fmt.Sprintf("main|n:watchonly|n:%d", w.Value[0]))
			}
		case len(p) >= 2 && p[0] == "scope":
			sc := scopeOfKey(p[1])
			sub := p[2:]
			switch {
			case len(sub) == 0:
				k := string(w.Key)
				if k == "ctpub" || k == "ctpriv" {
					if del {
						if k == "ctpriv" {
							out = append(out, "D scope/"+sc+"|n:ctpriv")
						}
					} else {
						out = append(out, "scope/"+sc+"|n:"+k+"|"+s.encSym(w.Value))
					}
				}
			case len(sub) == 1 && sub[0] == "acct" && !del && len(w.Key) == 4:
				if v, ok := s.acctRow(w.Value); ok {
					out = append(out, fmt.Sprintf("scope/%s/acct|n:%d|%s", sc, u32(w.Key), v))
				}
			case len(sub) == 1 && sub[0] == "addr" && !del:
				out = append(out, "scope/"+sc+"/addr|"+s.hashSym(w.Key)+"|"+s.addrRow(w.Value))
			case len(sub) == 1 && sub[0] == "addracctidx" && !del:
				if len(w.Value) == 4 {
					out = append(out, fmt.Sprintf("scope/%s/addracctidx|%s|n:%d", sc, s.hashSym(w.Key), u32(w.Value)))
				}
			case len(sub) == 2 && sub[0] == "addracctidx" && !del && len(sub[1]) == 4:
				out = append(out, fmt.Sprintf("scope/%s/addracctidx/%d|%s|n:", sc, u32([]byte(sub[1])), s.hashSym(w.Key)))
			case len(sub) == 1 && sub[0] == "usedaddrs" && !del:
				out = append(out, "scope/"+sc+"/usedaddrs|"+s.hashSym(w.Key)+"|n:0")
			}
		}
	}
	sort.Strings(out)
	return out
}
