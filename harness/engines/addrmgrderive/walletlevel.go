package addrmgrderive

// Wallet-level scenario family `wmigrate` (C04, last sentence; C03 for Wallet.DeriveFromKeyPath).
//
// A REAL wallet.Wallet (loader, bdb file, its own goroutines) is started three times:
//
//	start 1: create, Unlock, InitAccounts(scope, w1, n1); issue one external + one internal address per account;
//	         Wallet.DeriveFromKeyPath for every account (twice: the second round is answered by the manager's caches)
//	start 2: open, Unlock, InitAccounts(scope, w2, n2); issue again
//	start 3: open and probe: watching-only flag, Unlock, every address still known, every private accessor,
//	         private rows / KDF parameters left in the waddrmgr namespace, secrets in the raw file
//
// The reply is a summary line the Lean model predicts (Model/AddrWallet.lean, `opInitAccounts`); the oracles below
// evaluate the property's sentences on the real outputs and are independent of the model.

import (
	"bytes"
	"errors"
	"fmt"
	"os"
	"strings"
	"sync"
	"time"

	"github.com/btcsuite/btcd/btcec/v2"
	"github.com/btcsuite/btcd/btcutil"
	"github.com/btcsuite/btcwallet/snacl"
	"github.com/btcsuite/btcwallet/waddrmgr"
	"github.com/btcsuite/btcwallet/wallet"
	"github.com/btcsuite/btcwallet/walletdb"

	"verifharness/oracle/hd"
)

var fastKeyGenOnce sync.Once

// fastKeyGen: wallet.Loader creates the manager with the default (slow) scrypt parameters; the test hook of waddrmgr
// replaces the key generator (16/8/1 — what waddrmgr.FastScryptOptions would give).
func fastKeyGen() {
	fastKeyGenOnce.Do(func() {
		waddrmgr.SetSecretKeyGen(func(p *[]byte, _ *waddrmgr.ScryptOptions) (*snacl.SecretKey, error) {
			return snacl.NewSecretKey(p, 16, 8, 1)
		})
	})
}

// mgrErrKind is errKind for errors that may have been wrapped on their way through the wallet.
func mgrErrKind(err error) string {
	if err == nil {
		return "ok"
	}
	var me waddrmgr.ManagerError
	if errors.As(err, &me) {
		return "err:" + errKind(me)
	}
	return "err:other"
}

type wIssued struct {
	addr          btcutil.Address
	acct, br, idx uint32
	key           *hd.Key
}

type wScenario struct {
	scope   waddrmgr.KeyScope
	sc      string
	seed    []byte
	master  *hd.Key
	schema  [2]int
	viol    []string
	issued  []wIssued
	next    map[[2]uint32]uint32
	pub     []byte
	priv    []byte
	secrets *registry
}

func (s *wScenario) add(prop, key, msg string) {
	s.viol = append(s.viol, prop+" key="+key+": "+msg)
}

// acctKey: independent derivation of m/purpose'/coin'/a' (account 0 by createManagerKeyScope: legacy rule on the
// in-memory cointype key; accounts made later from the stored cointype key: plain BIP32, see acctMeta.stored).
func (s *wScenario) acctKey(a uint32) *hd.Key {
	ck, err := s.master.Path(true, s.scope.Purpose+hardened, s.scope.Coin+hardened)
	if err != nil {
		return nil
	}
	k, err := ck.Child(a+hardened, a == 0)
	if err != nil {
		return nil
	}
	return k
}

func (s *wScenario) child(a, br, idx uint32) *hd.Key {
	ak := s.acctKey(a)
	if ak == nil {
		return nil
	}
	// same rule as runner.chainedOracle: the account key is always the one re-read from its row (padded), the branch
	// key the in-memory result of DeriveNonStandard (matters for hardened steps only)
	bk, err := ak.Child(br, false)
	if err != nil {
		return nil
	}
	k, err := bk.Child(idx, true)
	if err != nil {
		return nil
	}
	return k
}

// issue: one external and one internal address for each of the accounts 0..n (those that exist).
func (s *wScenario) issue(w *wallet.Wallet, n uint32) {
	sm, err := w.Manager.FetchScopedKeyManager(s.scope)
	if err != nil {
		return
	}
	for a := uint32(0); a <= n; a++ {
		for br := uint32(0); br < 2; br++ {
			var mas []waddrmgr.ManagedAddress
			err := walletdb.Update(w.Database(), func(tx walletdb.ReadWriteTx) error {
				ns := tx.ReadWriteBucket(nsKey)
				var err error
				if br == 1 {
					mas, err = sm.NextInternalAddresses(ns, a, 1)
				} else {
					mas, err = sm.NextExternalAddresses(ns, a, 1)
				}
				return err
			})
			if err != nil || len(mas) != 1 {
				continue
			}
			idx := s.next[[2]uint32{a, br}]
			s.next[[2]uint32{a, br}] = idx + 1
			k := s.child(a, br, idx)
			it := wIssued{addr: mas[0].Address(), acct: a, br: br, idx: idx, key: k}
			s.issued = append(s.issued, it)
			if k != nil {
				typ := s.schema[br]
				want, _ := hd.Address(onet, typ, k.X, k.Y, false)
				if got := it.addr.EncodeAddress(); got != want {
					s.add("C03", "wallet.nextAddresses.address-not-seed-child", fmt.Sprintf("wallet issued %s for %s/%d/%d/%d, independent derivation gives %s", got, s.sc, a, br, idx, want))
				}
				s.secrets.addBytes("privkey", fmt.Sprintf("privkey %s:%d:%d:%d", s.sc, a, br, idx), true, k.PrivBytes())
				s.secrets.addText("privkey", fmt.Sprintf("wif %s:%d:%d:%d", s.sc, a, br, idx), true, hd.WIF(onet, k.D, true))
			}
		}
	}
}

// deriveAll: Wallet.DeriveFromKeyPath for child b/i of every account 0..n with the caller-chosen constant `Account`
// field (the wallet's own recovery code passes an unhardened constant); returns how many calls returned a key.
// C03: the key returned must be the key of the address at that path, whichever of the two code paths answered.
func (s *wScenario) deriveAll(w *wallet.Wallet, n, ac uint32, round int) int {
	ok := 0
	for a := uint32(0); a <= n; a++ {
		for _, bi := range [][2]uint32{{0, 0}, {1, 0}, {0, 1}} {
			path := waddrmgr.DerivationPath{InternalAccount: a, Account: ac, Branch: bi[0], Index: bi[1]}
			priv, err := w.DeriveFromKeyPath(s.scope, path)
			if err != nil || priv == nil {
				continue
			}
			ok++
			if w.Manager.WatchOnly() {
				s.add("C04", "InitAccounts.watch-only.private-key-returned.DeriveFromKeyPath", "Wallet.DeriveFromKeyPath returned a private key on a watching-only wallet")
			}
			k := s.child(a, bi[0], bi[1])
			if k == nil {
				continue
			}
			if !bytes.Equal(priv.Serialize(), k.PrivBytes()) {
				whose := "an unknown key"
				for o := uint32(0); o <= n; o++ {
					if ok2 := s.child(o, bi[0], bi[1]); ok2 != nil && bytes.Equal(priv.Serialize(), ok2.PrivBytes()) {
						whose = fmt.Sprintf("the key of account %d", o)
					}
				}
				s.add("C03", "Wallet.DeriveFromKeyPath.key-not-seed-child", fmt.Sprintf("round %d: Wallet.DeriveFromKeyPath(%s, InternalAccount=%d Account=%d %d/%d) returned %s: public key %x, the address at that path has public key %x",
					round, s.sc, a, ac, bi[0], bi[1], whose, priv.PubKey().SerializeCompressed(), k.PubBytes()))
			}
		}
	}
	return ok
}

// privateLeft walks the waddrmgr namespace structurally (no decryption needed): KDF parameters and crypto keys of the
// private tier, the encrypted master HD private key, cointype private keys, account rows with a private key blob,
// imported address rows with a private key blob, script rows with a script blob.
func privateLeft(db walletdb.DB) []string {
	var out []string
	_ = walletdb.View(db, func(tx walletdb.ReadTx) error {
		ns := tx.ReadBucket(nsKey)
		if ns == nil {
			return nil
		}
		if main := ns.NestedReadBucket([]byte("main")); main != nil {
			for _, k := range []string{"mpriv", "cpriv", "cscript", "mhdpriv"} {
				if main.Get([]byte(k)) != nil {
					out = append(out, "main/"+k)
				}
			}
		}
		sb := ns.NestedReadBucket([]byte("scope"))
		if sb == nil {
			return nil
		}
		return sb.ForEach(func(sk, sv []byte) error {
			if sv != nil {
				return nil
			}
			b := sb.NestedReadBucket(sk)
			sc := scopeOfKey(string(sk))
			if b.Get([]byte("ctpriv")) != nil {
				out = append(out, "scope/"+sc+"/ctpriv")
			}
			if ab := b.NestedReadBucket([]byte("acct")); ab != nil {
				_ = ab.ForEach(func(k, v []byte) error {
					if len(v) > 5 && v[0] == 0 {
						_, off, ok1 := lenBlob(v[5:], 0)
						priv, _, ok2 := lenBlob(v[5:], off)
						if ok1 && ok2 && len(priv) > 0 && len(k) == 4 {
							out = append(out, fmt.Sprintf("scope/%s/acct/%d.privKeyEncrypted", sc, u32(k)))
						}
					}
					return nil
				})
			}
			if ab := b.NestedReadBucket([]byte("addr")); ab != nil {
				_ = ab.ForEach(func(k, v []byte) error {
					if len(v) < 18 {
						return nil
					}
					raw := v[18:]
					switch v[0] {
					case 1:
						_, off, _ := lenBlob(raw, 0)
						if priv, _, _ := lenBlob(raw, off); len(priv) > 0 {
							out = append(out, "scope/"+sc+"/addr/imported.privKeyEncrypted")
						}
					case 2:
						_, off, _ := lenBlob(raw, 0)
						if scr, _, _ := lenBlob(raw, off); len(scr) > 0 {
							out = append(out, "scope/"+sc+"/addr/script.scriptEncrypted")
						}
					}
					return nil
				})
			}
			return nil
		})
	})
	return out
}

func (r *runner) wmigrate(kv map[string]string) (reply string, viol string) {
	sc, ok := parseScope(kv["s"])
	seed := []byte(nil)
	if ok {
		seed = hexOrNil(kv["seed"])
	}
	schema, isDefault := defaultSchemas[kv["s"]]
	n1, n2, ac := atou(kv["n1"]), atou(kv["n2"]), atou(kv["ac"])
	if !ok || !isDefault || len(seed) < 16 || n1 > 8 || n2 > 8 || kv["w1"] == "" || kv["w2"] == "" {
		return "bad-op", ""
	}
	w1, w2 := kv["w1"] == "1", kv["w2"] == "1"
	master, err := hd.Master(seed)
	if err != nil {
		return "bad-op", ""
	}
	fastKeyGen()
	s := &wScenario{scope: sc, sc: kv["s"], seed: seed, master: master, schema: schema, next: map[[2]uint32]uint32{},
		pub: []byte("wallet-public-pass"), priv: passBytes("wallet-priv", 0, seed), secrets: newRegistry()}
	s.secrets.addBytes("seed", "seed", true, seed)
	s.secrets.addText("xprv", "xprv m", true, master.String(onet.HDPriv))
	s.secrets.addText("passphrase", "private passphrase", true, string(s.priv))
	for a := uint32(0); a <= max(n1, n2); a++ {
		if ak := s.acctKey(a); ak != nil {
			s.secrets.addText("xprv", fmt.Sprintf("xprv %s:%d", s.sc, a), true, ak.String(onet.HDPriv))
		}
	}
	defer func() {
		if p := recover(); p != nil {
			reply, viol = "panic || ", fmt.Sprintf("C05 key=wmigrate.panic: %v", p)
		}
	}()
	dir, err := os.MkdirTemp("", "vxamdw")
	if err != nil {
		panic(err)
	}
	defer os.RemoveAll(dir)
	loader := wallet.NewLoader(netParams, dir, true, 10*time.Second, 10, wallet.WithWalletSyncRetryInterval(10*time.Millisecond))
	defer func() { _ = loader.UnloadWallet() }()
	fail := func(what string, err error) (string, string) {
		return "err other || ", "C04 key=wmigrate.harness: " + what + ": " + err.Error()
	}
	initAccounts := func(w *wallet.Wallet, wo bool, n uint32) error {
		sm, err := w.Manager.FetchScopedKeyManager(sc)
		if err != nil {
			return err
		}
		return w.InitAccounts(sm, wo, n)
	}

	// ---- first start
	w, err := loader.CreateNewWallet(s.pub, s.priv, seed, time.Unix(1600000000, 0))
	if err != nil {
		return fail("create", err)
	}
	if err := w.Unlock(s.priv, nil); err != nil {
		return fail("unlock after create", err)
	}
	i1 := initAccounts(w, w1, n1)
	s.issue(w, n1)
	dk := s.deriveAll(w, n1, ac, 1)
	dk += s.deriveAll(w, n1, ac, 2)
	if err := loader.UnloadWallet(); err != nil {
		return fail("unload 1", err)
	}

	// ---- second start
	w, err = loader.OpenExistingWallet(s.pub, false)
	if err != nil {
		return fail("open 2", err)
	}
	u2 := w.Unlock(s.priv, nil)
	i2 := initAccounts(w, w2, n2)
	s.issue(w, n2)
	if err := loader.UnloadWallet(); err != nil {
		return fail("unload 2", err)
	}

	// ---- third start: what is left
	w, err = loader.OpenExistingWallet(s.pub, false)
	if err != nil {
		return fail("open 3", err)
	}
	// a watching-only conversion was asked for and InitAccounts reported success
	asked := (w1 && i1 == nil) || (w2 && i2 == nil)
	wo := w.Manager.WatchOnly()
	if asked && !wo {
		s.add("C04", "InitAccounts.watch-only.not-converted", "InitAccounts(watchOnly=true) returned nil, but the reopened wallet is not watching-only")
	}
	u3 := w.Unlock(s.priv, nil)
	if asked {
		if !waddrmgr.IsError(u3, waddrmgr.ErrWatchingOnly) {
			s.add("C04", "InitAccounts.watch-only.unlock-succeeds", fmt.Sprintf("after the watching-only migration the private passphrase still unlocks the reopened wallet (Unlock returned %v, want ErrWatchingOnly)", u3))
		}
		for _, p := range privateLeft(w.Database()) {
			cls := p
			if i := strings.LastIndexAny(p, "/."); i >= 0 {
				cls = p[i+1:]
			}
			s.add("C04", "InitAccounts.watch-only.private-row-left."+cls, "after the watching-only migration the waddrmgr namespace still holds "+p)
		}
	}
	known, nPriv := 0, 0
	for _, it := range s.issued {
		d := fmt.Sprintf("%s/%d/%d/%d", s.sc, it.acct, it.br, it.idx)
		if have, err := w.HaveAddress(it.addr); err == nil && have {
			known++
		} else {
			s.add("C04", "InitAccounts.address-forgotten", fmt.Sprintf("address %s (%s) issued on an earlier start is not known to the reopened wallet (%v)", it.addr.EncodeAddress(), d, err))
		}
		var got [][]byte
		note := func(accessor string, b []byte, err error) {
			if err != nil || b == nil {
				return
			}
			got = append(got, b)
			if asked || wo {
				s.add("C04", "InitAccounts.watch-only.private-key-returned."+accessor, fmt.Sprintf("%s returned the private key of %s (%s) after the watching-only migration", accessor, it.addr.EncodeAddress(), d))
			}
			if it.key != nil && !bytes.Equal(b, it.key.PrivBytes()) {
				s.add("C03", "wallet."+accessor+".key-not-seed-child", fmt.Sprintf("%s for %s returned a key that is not the seed's child", accessor, d))
			}
		}
		if wif, err := w.DumpWIFPrivateKey(it.addr); err == nil {
			if dw, e := btcutil.DecodeWIF(wif); e == nil {
				note("DumpWIFPrivateKey", dw.PrivKey.Serialize(), nil)
			}
		}
		if pk, err := w.PrivKeyForAddress(it.addr); err == nil && pk != nil {
			note("PrivKeyForAddress", pk.Serialize(), nil)
		}
		if ma, err := w.AddressInfo(it.addr); err == nil {
			if pka, ok := ma.(waddrmgr.ManagedPubKeyAddress); ok {
				if pk, err := pka.PrivKey(); err == nil && pk != nil {
					note("PrivKey", pk.Serialize(), nil)
				}
			}
		}
		var pk *btcec.PrivateKey
		pk, err := w.DeriveFromKeyPath(sc, waddrmgr.DerivationPath{InternalAccount: it.acct, Account: it.acct + hardened, Branch: it.br, Index: it.idx})
		if err == nil && pk != nil {
			note("DeriveFromKeyPath", pk.Serialize(), nil)
		}
		if len(got) > 0 {
			nPriv++
		}
	}
	db := w.Database()
	_ = db
	if err := loader.UnloadWallet(); err != nil {
		return fail("unload 3", err)
	}
	// raw file: no secret in the clear at any time (C04, first sentence) — seed, extended private keys, address private
	// keys (raw / hex / WIF), the private passphrase
	if img, err := os.ReadFile(dir + "/wallet.db"); err == nil {
		seen := map[string]bool{}
		for _, n := range s.secrets.scan(img, false) {
			if !seen[n.class] {
				seen[n.class] = true
				s.add("C04", "wallet-image-secret."+n.class, "wallet database file contains "+n.what+" in the clear")
			}
		}
	}
	reply = fmt.Sprintf("ok init1=%s dk=%d unlock2=%s init2=%s wo=%s unlock3=%s issued=%d known=%d priv=%d || ",
		mgrErrKind(i1), dk, mgrErrKind(u2), mgrErrKind(i2), b01(wo), mgrErrKind(u3), len(s.issued), known, nPriv)
	return reply, joinV(dedup(s.viol))
}

func hexOrNil(s string) []byte {
	if len(s)%2 != 0 {
		return nil
	}
	out := make([]byte, len(s)/2)
	for i := range out {
		var b byte
		for _, c := range []byte(s[2*i : 2*i+2]) {
			switch {
			case c >= '0' && c <= '9':
				b = b<<4 | (c - '0')
			case c >= 'a' && c <= 'f':
				b = b<<4 | (c - 'a' + 10)
			default:
				return nil
			}
		}
		out[i] = b
	}
	return out
}
