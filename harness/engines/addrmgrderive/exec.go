package addrmgrderive

import (
	"bytes"
	"fmt"
	"math/big"
	"os"
	"path/filepath"
	"sort"
	"strconv"
	"strings"
	"time"

	"github.com/btcsuite/btcd/btcec/v2"
	"github.com/btcsuite/btcd/btcutil"
	"github.com/btcsuite/btcd/btcutil/hdkeychain"
	"github.com/btcsuite/btcd/chaincfg/chainhash"
	"github.com/btcsuite/btcd/txscript"
	"github.com/btcsuite/btcd/wire"
	"github.com/btcsuite/btcwallet/waddrmgr"
	"github.com/btcsuite/btcwallet/walletdb"
	"github.com/btcsuite/btcwallet/wtxmgr"

	"verifharness/core"
	"verifharness/faultdb/puttap"
	"verifharness/oracle/hd"
)

func atoi(s string) int { n, _ := strconv.Atoi(s); return n }
func atou(s string) uint32 {
	n, _ := strconv.ParseUint(s, 10, 32)
	return uint32(n)
}

var defaultSchemas = map[string][2]int{"49:0": {3, 4}, "84:0": {4, 4}, "86:0": {6, 6}, "44:0": {0, 0}}

func (r *runner) reset() {
	r.Close()
	r.reg, r.keys = newRegistry(), newKeyring()
	r.schemas = map[string][2]int{}
	r.accts = map[string]map[uint32]*acctMeta{}
	r.handles = map[int]*handle{}
	r.nextIdx, r.issuedAddr, r.originOf = map[string]uint32{}, map[string]string{}, map[string]string{}
	r.impKeys, r.scripts = map[int]*big.Int{}, map[int][]byte{}
	r.created, r.poison, r.pubPass, r.privPass = false, false, 0, 0
	r.txRecorded, r.nTx = false, 0
	r.issuedInfo, r.heldKeys = map[string]string{}, nil
}

func (r *runner) open() error {
	return walletdb.View(r.db, func(tx walletdb.ReadTx) error {
		m, err := waddrmgr.Open(tx.ReadBucket(nsKey), r.keys.pubPasses[r.pubPass], netParams)
		if err == nil {
			r.mgr = m
		}
		return err
	})
}

// finish turns an op outcome into the reply line + oracle violations.
func (r *runner) finish(res string, err error, tap *puttap.Tap, viol []string) (string, string) {
	if err != nil {
		// the transaction was rolled back; its writes never reached the file, but they were handed to the
		// database layer, so they are still scanned
		viol = append(viol, r.scanWrites(tap.Writes)...)
		return "err " + errKind(err) + " || ", joinV(viol)
	}
	sym := &symbolizer{reg: r.reg, keys: r.keys}
	rows := sym.render(tap.Writes)
	viol = append(viol, sym.viol...)
	viol = append(viol, r.scanWrites(tap.Writes)...)
	if len(tap.Writes) > 0 {
		viol = append(viol, r.scanImage()...)
	}
	return res + " || " + strings.Join(rows, " ;; "), joinV(dedup(viol))
}

func dedup(v []string) []string {
	seen := map[string]bool{}
	var out []string
	for _, s := range v {
		if !seen[s] {
			seen[s] = true
			out = append(out, s)
		}
	}
	return out
}

func (r *runner) scoped(scope string) (*waddrmgr.ScopedKeyManager, error) {
	sc, ok := parseScope(scope)
	if !ok {
		return nil, fmt.Errorf("bad scope")
	}
	return r.mgr.FetchScopedKeyManager(sc)
}

// resolveRef: address reference -> (address, handle template); the address comes from the oracle.
func (r *runner) resolveRef(scope, ref string) (btcutil.Address, *handle, bool) {
	f := strings.Split(ref, ":")
	dec := func(s string) (btcutil.Address, bool) {
		a, err := btcutil.DecodeAddress(s, netParams)
		return a, err == nil
	}
	switch {
	case len(f) == 4 && f[0] == "c":
		acct, br, idx := atou(f[1]), atou(f[2]), atou(f[3])
		if _, ok := r.accts[scope][acct]; !ok {
			return nil, nil, false
		}
		r.registerBranch(scope, acct, br, idx)
		s, id, k := r.chainedOracle(scope, acct, br, idx)
		if k == nil {
			return nil, nil, false
		}
		// (btcutil.DecodeAddress mis-parses base58 strings that happen to start with "sb1"/"Sb1", so the
		// address object is built from the oracle's id bytes and only its string form is cross-checked)
		a, ok := addrFromID(r.typeFor(scope, acct, br), id)
		ok = ok && a.EncodeAddress() == s
		return a, &handle{scope: scope, chained: true, acct: acct, br: br, idx: idx, origin: "lookup"}, ok
	case len(f) == 3 && f[0] == "k":
		id := atoi(f[1])
		s, aid := r.importedAddr(scope, id, f[2] == "1")
		a, ok := addrFromID(r.schemas[scope][0], aid)
		ok = ok && a.EncodeAddress() == s
		return a, &handle{scope: scope, impID: id, origin: "import"}, ok
	case len(f) == 3 && f[0] == "s":
		id, kind := atoi(f[1]), atoi(f[2])
		var s string
		switch kind {
		case 0:
			s, _ = hd.P2SH(onet, r.scriptFor(id))
		case 1:
			s, _ = hd.P2WSH(onet, r.scriptFor(id))
		default:
			ts, _ := r.tapscriptFor(id)
			tk, err := ts.TaprootKey()
			if err != nil {
				return nil, nil, false
			}
			ta, err := btcutil.NewAddressTaproot(tk.SerializeCompressed()[1:], netParams)
			if err != nil {
				return nil, nil, false
			}
			return ta, &handle{scope: scope, scrID: id, origin: "import"}, true
		}
		a, ok := dec(s)
		return a, &handle{scope: scope, scrID: id, origin: "import"}, ok
	}
	return nil, nil, false
}

func addrFromID(typ int, id []byte) (btcutil.Address, bool) {
	var a btcutil.Address
	var err error
	switch typ {
	case hd.PubKeyHash:
		a, err = btcutil.NewAddressPubKeyHash(id, netParams)
	case hd.NestedWitnessPubKey:
		a, err = btcutil.NewAddressScriptHashFromHash(id, netParams)
	case hd.WitnessPubKey:
		a, err = btcutil.NewAddressWitnessPubKeyHash(id, netParams)
	case hd.TaprootPubKey:
		a, err = btcutil.NewAddressTaproot(id, netParams)
	default:
		return nil, false
	}
	return a, err == nil
}

func (r *runner) lockState() string {
	if r.mgr.WatchOnly() {
		return "watchonly"
	}
	if r.mgr.IsLocked() {
		return "locked"
	}
	return "unlocked"
}

func (r *runner) Exec(op string) (reply string, viol string) {
	name, kv := core.KV(op)
	if name == "create" {
		return r.create(kv)
	}
	if name == "wmigrate" {
		// self-contained wallet-level scenario (its own wallet.Wallet in its own directory)
		return r.wmigrate(kv)
	}
	if !r.created {
		return "err notcreated || ", ""
	}
	if r.poison {
		return "err poisoned || ", ""
	}
	defer func() {
		if p := recover(); p != nil {
			r.poison = true
			reply = "panic || "
			viol = fmt.Sprintf("C05 key=%s.panic: %v", name, p)
			if ps, ok := p.(string); ok && strings.HasPrefix(ps, "DeriveFromKeyPathCache.") {
				viol = "C05 key=" + ps
			}
			if name == "unlock" {
				viol = fmt.Sprintf("C05 key=Unlock.nil-privkey-deriveOnUnlock-watchonly-account: Unlock panics: %v", p)
			}
		}
	}()
	tap := &puttap.Tap{}
	var v []string
	scope := kv["s"]
	switch name {
	case "unlock":
		err := r.update(tap, func(ns walletdb.ReadWriteBucket) error {
			return r.mgr.Unlock(ns, r.keys.privPasses[atoi(kv["p"])])
		})
		if r.mgr.IsLocked() {
			v = append(v, r.checkHeldKeys("Unlock (which locked the manager)")...)
		}
		// C04_watch_only: no passphrase unlocks a watching-only manager
		if r.mgr.WatchOnly() && (err == nil || !r.mgr.IsLocked()) {
			v = append(v, "C04 key=watch-only.unlock-succeeds: Unlock succeeded on a watching-only manager")
		}
		// C04 (direct, model-independent): once unlocked, the script crypto key must be a real key — whatever the
		// manager seals with it must not open under the publicly known all-zero secretbox key
		if err == nil && !r.mgr.IsLocked() {
			if ct, e := r.mgr.Encrypt(waddrmgr.CKTScript, []byte("c04-script-key-check")); e == nil {
				if _, e := zeroKey.Decrypt(ct); e == nil {
					v = append(v, "C04 key=cryptoKeyScript.zero-key-after-unlock: after Unlock the manager seals CKTScript data under the all-zero secretbox key (opens without any passphrase)")
				}
			}
		}
		return r.finish("ok", err, tap, v)
	case "lock":
		err := r.mgr.Lock()
		v = append(v, r.checkHeldKeys("Lock")...)
		return r.finish("ok", err, tap, v)
	case "chpass":
		priv := kv["priv"] == "1"
		oldI, newI := atoi(kv["old"]), atoi(kv["new"])
		var oldP, newP []byte
		if priv {
			oldP, newP = r.passFor("priv", oldI), r.passFor("priv", newI)
		} else {
			oldP, newP = r.passFor("pub", oldI), r.passFor("pub", newI)
		}
		err := r.update(tap, func(ns walletdb.ReadWriteBucket) error {
			return r.mgr.ChangePassphrase(ns, oldP, newP, priv, &waddrmgr.FastScryptOptions)
		})
		if err == nil {
			if priv {
				r.privPass = newI
			} else {
				r.pubPass = newI
			}
		}
		return r.finish("ok", err, tap, v)
	case "newscope":
		sc, ok := parseScope(scope)
		if !ok {
			return "bad-op", ""
		}
		schema := waddrmgr.ScopeAddrSchema{ExternalAddrType: waddrmgr.AddressType(atoi(kv["ext"])), InternalAddrType: waddrmgr.AddressType(atoi(kv["int"]))}
		r.schemas[scope] = [2]int{atoi(kv["ext"]), atoi(kv["int"])}
		if r.accts[scope] == nil {
			r.accts[scope] = map[uint32]*acctMeta{}
		}
		_, had := r.accts[scope][0]
		r.accts[scope][0] = &acctMeta{ci: hardened}
		r.registerScope(scope)
		err := r.update(tap, func(ns walletdb.ReadWriteBucket) error {
			_, err := r.mgr.NewScopedKeyManager(ns, sc, schema)
			return err
		})
		if err != nil && !had {
			delete(r.accts, scope)
			delete(r.schemas, scope)
		}
		return r.finish("ok", err, tap, v)
	case "newacct":
		sm, err := r.scoped(scope)
		if err != nil {
			return r.finish("", err, tap, v)
		}
		var acct uint32
		err = r.update(tap, func(ns walletdb.ReadWriteBucket) error {
			var err error
			acct, err = sm.NewAccount(ns, acctName(atoi(kv["name"])))
			return err
		})
		if err == nil {
			if _, had := r.accts[scope][acct]; had {
				v = append(v, fmt.Sprintf("C03 key=newAccount.existing-account-overwritten: NewAccount returned account number %d of scope %s which already exists, its row (next indices) was overwritten", acct, scope))
			}
			gen := 0
			if old := r.accts[scope][acct]; old != nil {
				gen = old.gen + 1
			}
			r.accts[scope][acct] = &acctMeta{ci: acct + hardened, stored: true, gen: gen}
			r.registerAcct(scope, acct)
		}
		return r.finish(fmt.Sprintf("ok acct=%d", acct), err, tap, v)
	case "newxpub":
		sm, err := r.scoped(scope)
		if err != nil {
			return r.finish("", err, tap, v)
		}
		xk := r.foreignKey(atoi(kv["x"]))
		meta := &acctMeta{xpub: xk, ci: xk.ChildNum, fp: atou(kv["fp"])}
		var schema *waddrmgr.ScopeAddrSchema
		if s := kv["schema"]; s != "-" && s != "" {
			f := strings.Split(s, "/")
			meta.schema = &[2]int{atoi(f[0]), atoi(f[1])}
			schema = &waddrmgr.ScopeAddrSchema{ExternalAddrType: waddrmgr.AddressType(atoi(f[0])), InternalAddrType: waddrmgr.AddressType(atoi(f[1]))}
		}
		str := xk.String(onet.HDPub)
		r.reg.addText("xpub", "imported account xpub", false, str)
		r.reg.addBytes("xpub", "imported account xpub point", false, xk.PubBytes())
		ek, err := hdkeychain.NewKeyFromString(str)
		if err != nil {
			return "bad-op", ""
		}
		var acct uint32
		err = r.update(tap, func(ns walletdb.ReadWriteBucket) error {
			var err error
			acct, err = sm.NewAccountWatchingOnly(ns, acctName(atoi(kv["name"])), ek, atou(kv["fp"]), schema)
			return err
		})
		if err == nil {
			if _, had := r.accts[scope][acct]; had {
				v = append(v, fmt.Sprintf("C03 key=newAccount.existing-account-overwritten: NewAccountWatchingOnly returned account number %d of scope %s which already exists, its row (keys, next indices) was overwritten", acct, scope))
			}
			if old := r.accts[scope][acct]; old != nil {
				meta.gen = old.gen + 1
			}
			r.accts[scope][acct] = meta
			r.reg.plain[str] = fmt.Sprintf("P:xpub:%s:%d", scope, acct)
		}
		return r.finish(fmt.Sprintf("ok acct=%d", acct), err, tap, v)
	case "next":
		sm, err := r.scoped(scope)
		if err != nil {
			return r.finish("", err, tap, v)
		}
		acct, n, internal, hb := atou(kv["a"]), atou(kv["n"]), kv["int"] == "1", atoi(kv["h"])
		br := uint32(0)
		if internal {
			br = 1
		}
		bk := fmt.Sprintf("%s/%d/%d", scope, acct, br)
		if _, ok := r.accts[scope][acct]; ok {
			r.registerBranch(scope, acct, br, r.nextIdx[bk]+n+2)
		}
		st := r.lockState()
		var mas []waddrmgr.ManagedAddress
		err = r.update(tap, func(ns walletdb.ReadWriteBucket) error {
			var err error
			if internal {
				mas, err = sm.NextInternalAddresses(ns, acct, n)
			} else {
				mas, err = sm.NextExternalAddresses(ns, acct, n)
			}
			return err
		})
		if err != nil {
			return r.finish("", err, tap, v)
		}
		var infos []string
		for i, ma := range mas {
			idx := r.nextIdx[bk]
			h := &handle{ma: ma, scope: scope, chained: true, acct: acct, br: br, idx: idx, origin: "nextAddresses." + st}
			r.handles[hb+i] = h
			infos = append(infos, r.info(h))
			d := ckey(scope, acct, br, idx)
			r.originOf[d] = h.origin
			// C03_indices: consecutive from zero, no repetition (an invalid child, probability 2^-127, would be
			// skipped; the oracle then has no key for that index and the address comparison reports it)
			clob := r.accts[scope][acct] != nil && r.accts[scope][acct].gen > 0
			if pk, ok := ma.(waddrmgr.ManagedPubKeyAddress); ok && !clob {
				if _, p, ok2 := pk.DerivationInfo(); ok2 && p.Index != idx {
					v = append(v, fmt.Sprintf("C03 key=nextAddresses.index-not-consecutive: branch %s issued index %d, expected %d", bk, p.Index, idx))
				}
			}
			if prev, dup := r.issuedAddr[d]; dup && !clob && prev == ma.Address().EncodeAddress() {
				v = append(v, fmt.Sprintf("C03 key=nextAddresses.address-repeated: %s issued twice", d))
			}
			r.issuedAddr[d] = ma.Address().EncodeAddress()
			r.nextIdx[bk] = idx + 1
			v = append(v, r.checkObj(h, "nextAddresses")...)
			v = append(v, r.checkDerivInfo(h, "nextAddresses")...)
		}
		if uint32(len(mas)) != n {
			v = append(v, fmt.Sprintf("C03 key=nextAddresses.count: asked %d got %d", n, len(mas)))
		}
		return r.finish("ok "+strings.Join(infos, ","), nil, tap, v)
	case "extend":
		sm, err := r.scoped(scope)
		if err != nil {
			return r.finish("", err, tap, v)
		}
		acct, last, internal := atou(kv["a"]), atou(kv["last"]), kv["int"] == "1"
		br := uint32(0)
		if internal {
			br = 1
		}
		bk := fmt.Sprintf("%s/%d/%d", scope, acct, br)
		if _, ok := r.accts[scope][acct]; ok {
			r.registerBranch(scope, acct, br, last+1)
		}
		st := r.lockState()
		err = r.update(tap, func(ns walletdb.ReadWriteBucket) error {
			if internal {
				return sm.ExtendInternalAddresses(ns, acct, last)
			}
			return sm.ExtendExternalAddresses(ns, acct, last)
		})
		if err == nil {
			for i := r.nextIdx[bk]; i <= last; i++ {
				r.originOf[ckey(scope, acct, br, i)] = "extendAddresses." + st
				r.nextIdx[bk] = i + 1
			}
		}
		return r.finish("ok", err, tap, v)
	case "lookup":
		addr, h, ok := r.resolveRef(scope, kv["ref"])
		if !ok {
			return "bad-op", ""
		}
		sm, err := r.scoped(scope)
		if err != nil {
			return r.finish("", err, tap, v)
		}
		err = r.update(tap, func(ns walletdb.ReadWriteBucket) error {
			var err error
			h.ma, err = sm.Address(ns, addr)
			return err
		})
		if err != nil {
			// C04_watch_only / C03: an address the harness knows was issued must be found
			if m := r.accts[scope][h.acct]; h.chained && m != nil && m.gen == 0 && r.issuedKnown(h) && waddrmgr.IsError(err, waddrmgr.ErrAddressNotFound) {
				v = append(v, fmt.Sprintf("C03 key=lookup.issued-address-not-found: %s", ckey(scope, h.acct, h.br, h.idx)))
			}
			return r.finish("", err, tap, v)
		}
		r.handles[atoi(kv["h"])] = h
		v = append(v, r.checkObj(h, "lookup")...)
		v = append(v, r.checkDerivInfo(h, "lookup")...)
		return r.finish("ok "+r.info(h), nil, tap, v)
	case "markused":
		addr, _, ok := r.resolveRef(scope, kv["ref"])
		if !ok {
			return "bad-op", ""
		}
		sm, err := r.scoped(scope)
		if err != nil {
			return r.finish("", err, tap, v)
		}
		err = r.update(tap, func(ns walletdb.ReadWriteBucket) error { return sm.MarkUsed(ns, addr) })
		return r.finish("ok", err, tap, v)
	case "derive":
		sm, err := r.scoped(scope)
		if err != nil {
			return r.finish("", err, tap, v)
		}
		acct, br, idx := atou(kv["a"]), atou(kv["b"]), atou(kv["i"])
		if _, ok := r.accts[scope][acct]; ok {
			r.registerBranch(scope, acct, br, idx)
		}
		h := &handle{scope: scope, chained: true, acct: acct, br: br, idx: idx, origin: "deriveFromKeyPath." + r.lockState()}
		err = r.update(tap, func(ns walletdb.ReadWriteBucket) error {
			var err error
			h.ma, err = sm.DeriveFromKeyPath(ns, waddrmgr.DerivationPath{InternalAccount: acct, Account: atou(kv["ac"]), Branch: br, Index: idx})
			return err
		})
		if err != nil {
			return r.finish("", err, tap, v)
		}
		r.handles[atoi(kv["h"])] = h
		v = append(v, r.checkObj(h, "deriveFromKeyPath")...)
		return r.finish("ok "+r.info(h), nil, tap, v)
	case "importpriv", "importpub":
		sm, err := r.scoped(scope)
		if err != nil {
			return r.finish("", err, tap, v)
		}
		id := atoi(kv["k"])
		comp := name == "importpub" || kv["comp"] == "1"
		d := r.impKey(id)
		r.importedAddr(scope, id, comp)
		b := make([]byte, 32)
		d.FillBytes(b)
		priv, pub := btcec.PrivKeyFromBytes(b)
		h := &handle{scope: scope, impID: id, origin: "import"}
		err = r.update(tap, func(ns walletdb.ReadWriteBucket) error {
			var err error
			if name == "importpriv" {
				wif, e := btcutil.NewWIF(priv, netParams, comp)
				if e != nil {
					return e
				}
				h.ma, err = sm.ImportPrivateKey(ns, wif, nil)
			} else {
				h.ma, err = sm.ImportPublicKey(ns, pub, nil)
			}
			return err
		})
		if err != nil {
			return r.finish("", err, tap, v)
		}
		r.handles[atoi(kv["h"])] = h
		v = append(v, r.checkObj(h, name)...)
		return r.finish("ok "+r.info(h), nil, tap, v)
	case "importscript":
		sm, err := r.scoped(scope)
		if err != nil {
			return r.finish("", err, tap, v)
		}
		id, kind, secret := atoi(kv["k"]), atoi(kv["kind"]), kv["secret"] == "1"
		script := r.scriptFor(id)
		desc := "s" + strconv.Itoa(id)
		cls := "P:script:"
		if secret {
			cls = "S:script:"
		}
		bs := &waddrmgr.BlockStamp{Height: 1000}
		h := &handle{scope: scope, scrID: id, origin: "import"}
		regScript := func(stored, ident []byte) {
			r.reg.plain[string(stored)] = cls + desc
			r.reg.plain[string(ident)] = "P:sh:" + desc
			r.reg.addAddrID(desc, ident)
			r.reg.addBytes("script", "script "+desc, secret, script)
			if !bytes.Equal(stored, script) {
				r.reg.addBytes("script", "script blob "+desc, secret, stored)
			}
		}
		err = r.update(tap, func(ns walletdb.ReadWriteBucket) error {
			var err error
			switch kind {
			case 0:
				_, ident := hd.P2SH(onet, script)
				regScript(script, ident)
				h.ma, err = sm.ImportScript(ns, script, bs)
			case 1:
				_, ident := hd.P2WSH(onet, script)
				regScript(script, ident)
				h.ma, err = sm.ImportWitnessScript(ns, script, bs, 0, secret)
			default:
				ts, ik := r.tapscriptFor(id)
				tk, e := ts.TaprootKey()
				if e != nil {
					return e
				}
				r.reg.addBytes("script", "taproot internal key "+desc, secret, ik)
				h.ma, err = sm.ImportTaprootScript(ns, ts, bs, 1, secret)
				if err == nil {
					// the stored blob is the TLV encoding of the tapscript (unexported encoder): take it from
					// the object that was just built (clear text copy kept by importScriptAddress)
					blob, e := h.ma.(waddrmgr.ManagedScriptAddress).Script()
					if e != nil {
						return e
					}
					regScript(blob, tk.SerializeCompressed()[1:])
				}
			}
			return err
		})
		if err != nil {
			return r.finish("", err, tap, v)
		}
		r.handles[atoi(kv["h"])] = h
		return r.finish("ok "+r.info(h), nil, tap, v)
	case "privkey":
		h := r.handles[atoi(kv["h"])]
		if h == nil {
			return "err badhandle || ", ""
		}
		pk, ok := h.ma.(waddrmgr.ManagedPubKeyAddress)
		if !ok {
			return "err notkey || ", ""
		}
		priv, err := pk.PrivKey()
		if r.mgr.WatchOnly() && err == nil {
			v = append(v, "C04 key=watch-only.privkey-returned: PrivKey() returned a key on a watching-only manager")
		}
		v = append(v, r.checkObj(h, "privKey")...)
		v = append(v, r.checkDerivInfo(h, "privKey")...)
		if err != nil {
			return r.finish("", err, tap, v)
		}
		res := "ok key=?"
		if h.impID > 0 {
			b := make([]byte, 32)
			r.impKey(h.impID).FillBytes(b)
			if bytes.Equal(priv.Serialize(), b) {
				res = fmt.Sprintf("ok key=imp:%d", h.impID)
			} else {
				v = append(v, fmt.Sprintf("C03 key=privKey.imported-privkey-changed: imported key %d", h.impID))
			}
		} else if h.chained {
			// the reply only says "a key of this address's public key"; that it is THE seed-derived key is the
			// oracle's business (checkObj above compares scalar and address with the independent derivation)
			if bytes.Equal(priv.PubKey().SerializeCompressed(), pk.PubKey().SerializeCompressed()) {
				res = "ok key=hd"
			}
		}
		return r.finish(res, nil, tap, v)
	case "script":
		h := r.handles[atoi(kv["h"])]
		if h == nil {
			return "err badhandle || ", ""
		}
		sa, ok := h.ma.(waddrmgr.ManagedScriptAddress)
		if !ok {
			return "err notscript || ", ""
		}
		s, err := sa.Script()
		if err != nil {
			return r.finish("", err, tap, v)
		}
		if r.mgr.WatchOnly() && strings.HasPrefix(r.reg.plain[string(s)], "S:") {
			v = append(v, "C04 key=watch-only.secret-script-returned: Script() returned a secret script on a watching-only manager")
		}
		d := r.reg.plain[string(s)]
		want := "script:s" + strconv.Itoa(h.scrID)
		if !strings.HasSuffix(d, want) {
			v = append(v, fmt.Sprintf("C03 key=script.imported-script-changed: script %d returned as %x", h.scrID, s))
			return r.finish("ok script=?", nil, tap, v)
		}
		return r.finish(fmt.Sprintf("ok script=%d", h.scrID), nil, tap, v)
	case "info":
		h := r.handles[atoi(kv["h"])]
		if h == nil {
			return "err badhandle || ", ""
		}
		v = append(v, r.checkDerivInfo(h, "info")...)
		return r.finish("ok "+r.info(h), nil, tap, v)
	case "props":
		sm, err := r.scoped(scope)
		if err != nil {
			return r.finish("", err, tap, v)
		}
		var p *waddrmgr.AccountProperties
		err = r.update(tap, func(ns walletdb.ReadWriteBucket) error {
			var err error
			p, err = sm.AccountProperties(ns, atou(kv["a"]))
			return err
		})
		if err != nil {
			return r.finish("", err, tap, v)
		}
		// harness bookkeeping vs reported counts (C03: indices consecutive, nothing skipped)
		clob := r.accts[scope][atou(kv["a"])] != nil && r.accts[scope][atou(kv["a"])].gen > 0
		for br, got := range []uint32{p.ExternalKeyCount, p.InternalKeyCount} {
			if clob {
				break
			}
			if want := r.nextIdx[fmt.Sprintf("%s/%d/%d", scope, atou(kv["a"]), br)]; want != got {
				v = append(v, fmt.Sprintf("C03 key=accountProperties.key-count: branch %d reports %d keys, %d were issued", br, got, want))
			}
		}
		// C03 (address format): the account's overriding address schema, as the wallet reports it, is the one the
		// account was imported with (harness bookkeeping) — it decides the format of every address of the account
		if m := r.accts[scope][atou(kv["a"])]; m != nil && !clob {
			got := "-"
			if p.AddrSchema != nil {
				got = fmt.Sprintf("%d/%d", p.AddrSchema.ExternalAddrType, p.AddrSchema.InternalAddrType)
			}
			want := "-"
			if m.schema != nil {
				want = fmt.Sprintf("%d/%d", m.schema[0], m.schema[1])
			}
			if got != want {
				v = append(v, fmt.Sprintf("C03 key=accountProperties.addr-schema: account %d of scope %s reports the overriding address schema %s, it was imported with %s", atou(kv["a"]), scope, got, want))
			}
		}
		return r.finish(fmt.Sprintf("ok props=%d:%d:%s:%s", p.ExternalKeyCount, p.InternalKeyCount, nameID(p.AccountName), b01(p.IsWatchOnly)), nil, tap, v)
	case "restart":
		r.mgr.Close()
		v = append(v, r.checkHeldKeys("Close")...)
		r.handles = map[int]*handle{}
		if err := r.open(); err != nil {
			r.poison = true
			return "err other || ", "C03 key=restart.open-failed: " + err.Error()
		}
		return "ok || ", joinV(append(v, r.scanImage()...))
	case "convertwo":
		was := r.mgr.WatchOnly()
		err := r.update(tap, func(ns walletdb.ReadWriteBucket) error { return r.mgr.ConvertToWatchingOnly(ns) })
		if err == nil && !was {
			v = append(v, r.checkNoPrivateRows()...)
		}
		return r.finish("ok", err, tap, v)
	case "rename":
		sm, err := r.scoped(scope)
		if err != nil {
			return r.finish("", err, tap, v)
		}
		err = r.update(tap, func(ns walletdb.ReadWriteBucket) error {
			return sm.RenameAccount(ns, atou(kv["a"]), acctName(atoi(kv["name"])))
		})
		return r.finish("ok", err, tap, v)
	case "dcache":
		return r.deriveCache(scope, kv, tap)
	case "recreate":
		return "ok || ", joinV(r.recreate(atou(kv["n"])))
	case "rectx":
		return r.recordTx(scope, kv["ref"])
	}
	return "bad-op", ""
}

// deriveCache: ScopedKeyManager.DeriveFromKeyPathCache, the memory-only fast path behind Wallet.DeriveFromKeyPath /
// DeriveFromKeyPathAddAccount.  C03: the private key it returns for scope/InternalAccount/branch/index is the key of the
// public key of the address at that path (independent derivation), and it is the key the slow path
// (DeriveFromKeyPath + PrivKey) returns; the `Account` field of the path is informational.
func (r *runner) deriveCache(scope string, kv map[string]string, tap *puttap.Tap) (string, string) {
	var v []string
	sm, err := r.scoped(scope)
	if err != nil {
		return r.finish("", err, tap, v)
	}
	acct, ac, br, idx := atou(kv["a"]), atou(kv["ac"]), atou(kv["b"]), atou(kv["i"])
	m, known := r.accts[scope][acct]
	if known && br < hardened && idx < hardened {
		r.registerBranch(scope, acct, br, idx)
	}
	path := waddrmgr.DerivationPath{InternalAccount: acct, Account: ac, Branch: br, Index: idx}
	d := ckey(scope, acct, br, idx)
	var priv *btcec.PrivateKey
	func() {
		defer func() {
			if p := recover(); p != nil {
				if known && m.xpub != nil {
					panic(fmt.Sprintf("DeriveFromKeyPathCache.nil-privkey-watchonly-account: %v", p))
				}
				panic(p)
			}
		}()
		priv, err = sm.DeriveFromKeyPathCache(path)
	}()
	if err == nil && r.mgr.WatchOnly() {
		v = append(v, "C04 key=watch-only.derive-cache-key-returned: DeriveFromKeyPathCache returned a private key on a watching-only manager")
	}
	if err == nil && r.mgr.IsLocked() {
		v = append(v, "C05 key=DeriveFromKeyPathCache.cached-path-while-locked: DeriveFromKeyPathCache returned a private key while the manager is locked")
	}
	if err != nil {
		return r.finish("", err, tap, v)
	}
	res := "ok key=?"
	if known && m.gen == 0 {
		_, _, k := r.chainedOracle(scope, acct, br, idx)
		switch {
		case k == nil || !k.IsPriv:
			v = append(v, fmt.Sprintf("C03 key=deriveFromKeyPathCache.key-for-keyless-account: DeriveFromKeyPathCache returned a private key for %s, an account the wallet has no private key of", d))
		case !bytes.Equal(priv.Serialize(), k.PrivBytes()) || !bytes.Equal(priv.PubKey().SerializeCompressed(), k.PubBytes()):
			whose := ""
			for a2 := range r.accts[scope] {
				if _, _, k2 := r.chainedOracle(scope, a2, br, idx); a2 != acct && k2 != nil && k2.IsPriv && bytes.Equal(priv.Serialize(), k2.PrivBytes()) {
					whose = fmt.Sprintf(" (it is the key of account %d)", a2)
				}
			}
			v = append(v, fmt.Sprintf("C03 key=deriveFromKeyPathCache.key-not-seed-child: DeriveFromKeyPathCache(InternalAccount=%d Account=%d %d/%d) of scope %s returned a private key whose public key is %x%s, the independent derivation of that path (the address at that path) has public key %x",
				acct, ac, br, idx, scope, priv.PubKey().SerializeCompressed(), whose, k.PubBytes()))
		default:
			res = "ok key=hd"
		}
		// agreement with the slow path (no state change: the account is cached, the manager unlocked)
		var slow *btcec.PrivateKey
		var serr error
		_ = walletdb.View(r.db, func(tx walletdb.ReadTx) error {
			ma, e := sm.DeriveFromKeyPath(tx.ReadBucket(nsKey), path)
			if e != nil {
				serr = e
				return nil
			}
			if pka, ok := ma.(waddrmgr.ManagedPubKeyAddress); ok {
				slow, serr = pka.PrivKey()
			}
			return nil
		})
		if serr != nil || slow == nil || !bytes.Equal(slow.Serialize(), priv.Serialize()) {
			v = append(v, fmt.Sprintf("C03 key=deriveFromKeyPathCache.disagrees-with-deriveFromKeyPath: for %s (Account=%d) the cache path and DeriveFromKeyPath+PrivKey() return different keys (slow path error: %v)", d, ac, serr))
		}
		// C03: the key a look-up returns is the caller's own.  What the caller does with it afterwards — wipe it
		// after signing (zero=1: PrivateKey.Zero(), as careful callers do), or just keep it while the manager
		// locks (zero=0: checked at the next Lock) — must not change what the manager answers for that path, nor may
		// the manager change a key it handed out.
		if k != nil && k.IsPriv {
			if kv["zero"] == "1" {
				priv.Zero()
				again, e := sm.DeriveFromKeyPathCache(path)
				switch {
				case e != nil:
					v = append(v, fmt.Sprintf("C03 key=deriveFromKeyPathCache.cached-key-aliased: after the caller wiped (Zero) the key DeriveFromKeyPathCache had returned for %s, the next look-up of that path fails: %v", d, e))
				case !bytes.Equal(again.Serialize(), k.PrivBytes()):
					v = append(v, fmt.Sprintf("C03 key=deriveFromKeyPathCache.cached-key-aliased: after the caller wiped (Zero) the key DeriveFromKeyPathCache had returned for %s, the next look-up of that path returns the scalar %x (public key %x) instead of the key of the address at that path (public key %x): the returned key was the cache entry itself",
						d, again.Serialize(), again.PubKey().SerializeCompressed(), k.PubBytes()))
				}
				if e == nil {
					again.Zero()
				}
			} else if res == "ok key=hd" && len(r.heldKeys) < 64 {
				r.heldKeys = append(r.heldKeys, heldKey{priv: priv, want: k.PrivBytes(), desc: d})
			}
		}
	}
	return r.finish(res, nil, tap, v)
}

// checkHeldKeys: the private keys DeriveFromKeyPathCache handed out earlier (and the harness, as their caller, did not
// wipe) are still the keys they were, whatever the manager did in between (Lock wipes the manager's own copies only).
func (r *runner) checkHeldKeys(what string) []string {
	var v []string
	for _, hk := range r.heldKeys {
		if !bytes.Equal(hk.priv.Serialize(), hk.want) {
			v = append(v, fmt.Sprintf("C03 key=deriveFromKeyPathCache.returned-key-changed-by-lock: the private key DeriveFromKeyPathCache returned earlier for %s, still held by its caller, reads %x after %s: the manager wiped a key it had handed out", hk.desc, hk.priv.Serialize(), what))
		}
	}
	r.heldKeys = nil
	return dedup(v)
}

// checkDerivInfo: C03 (reported derivation path) / C08 (memory = a freshly opened manager): everything DerivationInfo()
// reports for an issued address — key scope, InternalAccount, Account, branch, index and the master key fingerprint
// (what wallet/psbt.go writes into Bip32Derivation entries for external signers) — is what the object returned by
// nextAddresses reported when the address was issued, on every later look-up (cache hit, after MarkUsed dropped the
// cache entry, after a restart), and the fingerprint is the one the account was imported with (0 for seed accounts).
// Addresses made by extendAddresses (which returns no objects) are held to the same: the first look-up is the
// reference for the later ones, and the fingerprint must be the account's from the start (before
// repo-patches/fix-C08-extendAddresses-fingerprint.diff the cached object reported 0 until it was re-read from its row).
func (r *runner) checkDerivInfo(h *handle, op string) []string {
	if !h.chained || h.ma == nil {
		return nil
	}
	m := r.accts[h.scope][h.acct]
	if m == nil || m.gen > 0 {
		return nil
	}
	d := ckey(h.scope, h.acct, h.br, h.idx)
	if strings.HasPrefix(h.origin, "deriveFromKeyPath") {
		return nil // DeriveFromKeyPath reports the path the caller passed in
	}
	kNot, kDiff, kC08, how := "derivationInfo.fingerprint-not-the-accounts", "derivationInfo.fingerprint-differs-after-reload", "Address.restart.derivation-info-differs", "issued (nextAddresses)"
	switch {
	case strings.HasPrefix(r.originOf[d], "nextAddresses"):
	case strings.HasPrefix(r.originOf[d], "extendAddresses"):
		kNot, kDiff, kC08, how = "extendAddresses.fingerprint-not-the-accounts", "extendAddresses.fingerprint-differs-after-reload", "ExtendAddresses.restart.fingerprint-differs", "made by extendAddresses and first looked up"
	default:
		return nil
	}
	pk, ok := h.ma.(waddrmgr.ManagedPubKeyAddress)
	if !ok {
		return nil
	}
	scope, path, ok := pk.DerivationInfo()
	if !ok {
		return nil
	}
	cur := fmt.Sprintf("{scope:%d:%d internalAccount:%d account:%d branch:%d index:%d masterKeyFingerprint:%d}", scope.Purpose, scope.Coin,
		path.InternalAccount, path.Account, path.Branch, path.Index, path.MasterKeyFingerprint)
	var v []string
	if path.MasterKeyFingerprint != m.fp {
		v = append(v, fmt.Sprintf("C03 key=%s: DerivationInfo of %s (%s) reports master key fingerprint %d, account %d of scope %s was imported with fingerprint %d", kNot, d, op, path.MasterKeyFingerprint, h.acct, h.scope, m.fp))
	}
	first, seen := r.issuedInfo[d]
	if len(v) > 0 || (seen && op != "nextAddresses" && first != cur) {
		// something is off: ask a manager freshly opened on the same database (C08's own sentence, evaluated directly)
		if fresh, ok := r.freshDerivInfo(h); ok && fresh != cur {
			v = append(v, fmt.Sprintf("C08 key=%s: %s (%s): the running manager reports %s, a manager freshly opened on the same database reports %s", kC08, d, op, cur, fresh))
		}
	}
	if op == "nextAddresses" || !seen {
		r.issuedInfo[d] = cur
		return v
	}
	if first != cur {
		v = append(v, fmt.Sprintf("C03 key=%s: %s was %s with derivation info %s, a later look-up (%s) reports %s", kDiff, d, how, first, op, cur))
		v = append(v, fmt.Sprintf("C08 key=%s: %s: the object cached when the address was %s reported %s, the object rebuilt from the database row (%s) reports %s", kC08, d, how, first, op, cur))
	}
	return v
}

// freshDerivInfo: what a second Manager, opened on the same database right now, reports for the address of h.
func (r *runner) freshDerivInfo(h *handle) (string, bool) {
	out, ok := "", false
	_ = walletdb.View(r.db, func(tx walletdb.ReadTx) error {
		ns := tx.ReadBucket(nsKey)
		m2, err := waddrmgr.Open(ns, r.keys.pubPasses[r.pubPass], netParams)
		if err != nil {
			return nil
		}
		defer m2.Close()
		sc, _ := parseScope(h.scope)
		sm2, err := m2.FetchScopedKeyManager(sc)
		if err != nil {
			return nil
		}
		ma, err := sm2.Address(ns, h.ma.Address())
		if err != nil {
			return nil
		}
		pk, isKey := ma.(waddrmgr.ManagedPubKeyAddress)
		if !isKey {
			return nil
		}
		scope, path, has := pk.DerivationInfo()
		if !has {
			return nil
		}
		out, ok = fmt.Sprintf("{scope:%d:%d internalAccount:%d account:%d branch:%d index:%d masterKeyFingerprint:%d}", scope.Purpose, scope.Coin,
			path.InternalAccount, path.Account, path.Branch, path.Index, path.MasterKeyFingerprint), true
		return nil
	})
	return out, ok
}

var wtxNS = []byte("wtxmgr")

// recordTx: the transaction store (second top-level namespace of the same database file) records an unmined
// transaction paying to a wallet address, with its credit.  This is the moment from which C04 allows public key
// material in the file — inside the wtxmgr namespace only.
func (r *runner) recordTx(scope, ref string) (string, string) {
	addr, h, ok := r.resolveRef(scope, ref)
	if !ok || !h.chained {
		return "bad-op", ""
	}
	desc := ckey(scope, h.acct, h.br, h.idx)
	pkScript, err := txscript.PayToAddrScript(addr)
	if err != nil {
		return "bad-op", ""
	}
	r.nTx++
	prev := chainhash.HashH(append(append([]byte("funding"), r.seed...), byte(r.nTx), byte(r.nTx>>8)))
	tx := wire.NewMsgTx(2)
	tx.AddTxIn(wire.NewTxIn(&wire.OutPoint{Hash: prev, Index: 0}, nil, nil))
	tx.AddTxOut(wire.NewTxOut(100000+int64(r.nTx), pkScript))
	rec, err := wtxmgr.NewTxRecordFromMsgTx(tx, time.Unix(1600000000+int64(r.nTx), 0))
	if err != nil {
		return "bad-op", ""
	}
	tapTx := &puttap.Tap{}
	err = walletdb.Update(r.db, func(dbtx walletdb.ReadWriteTx) error {
		ns := dbtx.ReadWriteBucket(wtxNS)
		if ns == nil {
			var err error
			if ns, err = dbtx.CreateTopLevelBucket(wtxNS); err != nil {
				return err
			}
			if err := wtxmgr.Create(puttap.Wrap(ns, tapTx)); err != nil {
				return err
			}
		}
		w := puttap.Wrap(ns, tapTx)
		store, err := wtxmgr.Open(w, netParams)
		if err != nil {
			return err
		}
		if err := store.InsertTx(w, rec, nil); err != nil {
			return err
		}
		return store.AddCredit(w, rec, nil, 0, false)
	})
	if err != nil {
		return "err other || ", "C04 key=rectx.failed: " + err.Error()
	}
	r.txRecorded = true
	// symbolic rendering of what wtxmgr wrote: records that show public key material / everything else
	var v []string
	rows := map[string]bool{}
	for _, w := range tapTx.Writes {
		if w.Kind != puttap.Put {
			continue
		}
		var pubs []string
		for _, buf := range [][]byte{w.Key, w.Value} {
			for _, n := range r.reg.scan(buf, true) {
				if n.secret {
					v = append(v, fmt.Sprintf("C04 key=wtxmgr-secret.%s: wtxmgr Put(%s) carries %s in the clear", n.class, pathStr(w.Path), n.what))
					continue
				}
				if strings.HasPrefix(n.what, "aid:") && !strings.HasSuffix(n.what, ")") {
					pubs = append(pubs, "P:"+n.what)
				}
			}
		}
		if len(pubs) > 0 {
			sort.Strings(pubs)
			rows["wtxmgr|n:rec|n:raw+"+strings.Join(dedup(pubs), "+")] = true
		} else {
			rows["wtxmgr|n:rec|n:meta"] = true
		}
	}
	if !rows["wtxmgr|n:rec|n:raw+P:aid:"+desc] {
		v = append(v, "C04 key=rectx.no-address-in-record: the recorded transaction does not show the address id of "+desc+" (harness expectation)")
	}
	var out []string
	for k := range rows {
		out = append(out, k)
	}
	sort.Strings(out)
	v = append(v, r.scanImage()...)
	return "ok ||  ## " + strings.Join(out, " ;; "), joinV(dedup(v))
}

func (r *runner) issuedKnown(h *handle) bool {
	_, ok := r.originOf[ckey(h.scope, h.acct, h.br, h.idx)]
	return ok
}

func (r *runner) maxAcct(scope string) uint32 {
	var m uint32
	for a := range r.accts[scope] {
		if a > m {
			m = a
		}
	}
	return m
}

func (r *runner) passFor(kind string, i int) []byte {
	m := r.keys.privPasses
	if kind == "pub" {
		m = r.keys.pubPasses
	}
	if p, ok := m[i]; ok {
		return p
	}
	p := passBytes(kind, i, r.seed)
	m[i] = p
	r.reg.addText("passphrase", kind+" passphrase", true, string(p))
	return p
}

func (r *runner) foreignKey(x int) *hd.Key {
	m, err := hd.Master(append([]byte(fmt.Sprintf("foreign-%d-", x)), r.seed...))
	if err != nil {
		panic(err)
	}
	k, err := m.Path(false, 84+hardened, hardened, uint32(x)+hardened)
	if err != nil {
		panic(err)
	}
	return k.Neuter()
}

// checkNoPrivateRows walks the whole namespace after ConvertToWatchingOnly: nothing private may be left (C04).
func (r *runner) checkNoPrivateRows() []string {
	var v []string
	sym := &symbolizer{reg: r.reg, keys: r.keys}
	_ = walletdb.View(r.db, func(tx walletdb.ReadTx) error {
		ns := tx.ReadBucket(nsKey)
		main := ns.NestedReadBucket([]byte("main"))
		for _, k := range []string{"mpriv", "cpriv", "cscript", "mhdpriv"} {
			if main.Get([]byte(k)) != nil {
				v = append(v, "C04 key=watch-only.private-row-left."+k+": main/"+k+" still present after ConvertToWatchingOnly")
			}
		}
		sb := ns.NestedReadBucket([]byte("scope"))
		return sb.ForEach(func(sk, sv []byte) error {
			if sv != nil {
				return nil
			}
			b := sb.NestedReadBucket(sk)
			if b.Get([]byte("ctpriv")) != nil {
				v = append(v, "C04 key=watch-only.private-row-left.ctpriv: cointype private key still present")
			}
			_ = b.NestedReadBucket([]byte("acct")).ForEach(func(k, val []byte) error {
				if s, ok := sym.acctRow(val); ok && strings.Contains(s, "S:") {
					v = append(v, "C04 key=watch-only.private-row-left.account: account row still holds "+s)
				}
				return nil
			})
			_ = b.NestedReadBucket([]byte("addr")).ForEach(func(k, val []byte) error {
				if val == nil {
					return nil
				}
				s := sym.addrRow(val)
				if strings.Contains(s, "S:") {
					key := "watch-only.private-row-left.address"
					if len(val) > 0 && val[0] == 4 {
						key = "deletePrivateKeys.taproot-secret-script-survives"
					}
					v = append(v, "C04 key="+key+": address row still holds "+s+" after ConvertToWatchingOnly")
				}
				return nil
			})
			return nil
		})
	})
	return v
}

// recreate builds a second wallet from the same seed and compares the first n addresses of every default scope
// and branch with the oracle and with what the main wallet issued (C03: "a wallet re-created from the same seed
// issues the same addresses").
func (r *runner) recreate(n uint32) []string {
	var v []string
	dir, err := os.MkdirTemp("", "vxamd2")
	if err != nil {
		return nil
	}
	defer os.RemoveAll(dir)
	db, err := walletdb.Create("bdb", filepath.Join(dir, "w.db"), true, 10*time.Second, false)
	if err != nil {
		return []string{"C03 key=recreate.db: " + err.Error()}
	}
	defer db.Close()
	root, err := hdkeychain.NewMaster(r.seed, netParams)
	if err != nil {
		return nil
	}
	pub, priv := []byte("recreate-public-pass"), []byte("recreate-private-pass")
	err = walletdb.Update(db, func(tx walletdb.ReadWriteTx) error {
		ns, err := tx.CreateTopLevelBucket(nsKey)
		if err != nil {
			return err
		}
		return waddrmgr.Create(ns, root, pub, priv, netParams, &waddrmgr.FastScryptOptions, time.Unix(1600000000, 0))
	})
	if err != nil {
		return []string{"C03 key=recreate.create: " + err.Error()}
	}
	var m2 *waddrmgr.Manager
	_ = walletdb.View(db, func(tx walletdb.ReadTx) error {
		m2, err = waddrmgr.Open(tx.ReadBucket(nsKey), pub, netParams)
		return err
	})
	if m2 == nil {
		return []string{"C03 key=recreate.open"}
	}
	defer m2.Close()
	for _, scope := range []string{"44:0", "49:0", "84:0", "86:0"} {
		sc, _ := parseScope(scope)
		sm, _ := m2.FetchScopedKeyManager(sc)
		for br := uint32(0); br < 2; br++ {
			var mas []waddrmgr.ManagedAddress
			err := walletdb.Update(db, func(tx walletdb.ReadWriteTx) error {
				var err error
				if br == 1 {
					mas, err = sm.NextInternalAddresses(tx.ReadWriteBucket(nsKey), 0, n)
				} else {
					mas, err = sm.NextExternalAddresses(tx.ReadWriteBucket(nsKey), 0, n)
				}
				return err
			})
			if err != nil {
				v = append(v, "C03 key=recreate.next: "+err.Error())
				continue
			}
			for i, ma := range mas {
				want, _, _ := r.chainedOracle(scope, 0, br, uint32(i))
				got := ma.Address().EncodeAddress()
				if got != want {
					v = append(v, fmt.Sprintf("C03 key=recreate.address-not-seed-child: %s/0/%d/%d re-created as %s, oracle %s", scope, br, i, got, want))
				}
				if first, ok := r.issuedAddr[ckey(scope, 0, br, uint32(i))]; ok && first != got {
					v = append(v, fmt.Sprintf("C03 key=recreate.address-differs: %s/0/%d/%d first wallet %s, re-created wallet %s", scope, br, i, first, got))
				}
			}
		}
	}
	return v
}
