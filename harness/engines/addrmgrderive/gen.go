package addrmgrderive

import (
	"encoding/hex"
	"fmt"
	"math/rand"
	"os"
	"path/filepath"
	"strings"
	"sync"
	"time"

	"github.com/btcsuite/btcd/btcutil/hdkeychain"
	"github.com/btcsuite/btcwallet/waddrmgr"
	"github.com/btcsuite/btcwallet/walletdb"

	"verifharness/core"
	"verifharness/faultdb/puttap"
	"verifharness/oracle/hd"
)

type engine struct{}

func init() { core.Register(engine{}) }

func (engine) Name() string            { return "addrmgr-derive" }
func (engine) NewRunner() core.Runner { return &runner{} }

// ---- create ------------------------------------------------------------------------------------------------

func (r *runner) create(kv map[string]string) (string, string) {
	r.reset()
	seed, err := hex.DecodeString(kv["seed"])
	if err != nil || len(seed) < 16 {
		return "bad-op", ""
	}
	r.seed, r.quirks = seed, kv["q"]
	r.master, err = hd.Master(seed)
	if err != nil {
		return "err keychain || ", ""
	}
	r.reg.addBytes("seed", "seed", true, seed)
	r.registerXKey("m", r.master)
	for sc, sch := range defaultSchemas {
		r.schemas[sc] = sch
		r.accts[sc] = map[uint32]*acctMeta{0: {ci: hardened}}
		if !r.registerScope(sc) {
			return "err keychain || ", ""
		}
	}
	r.dir, err = os.MkdirTemp("", "vxamd")
	if err != nil {
		panic(err)
	}
	r.db, err = walletdb.Create("bdb", r.imagePath(), true, 10*time.Second, false)
	if err != nil {
		panic(err)
	}
	root, err := hdkeychain.NewMaster(seed, netParams)
	if err != nil {
		return "err keychain || ", ""
	}
	pub, priv := r.passFor("pub", 0), r.passFor("priv", 0)
	tap := &puttap.Tap{}
	err = walletdb.Update(r.db, func(tx walletdb.ReadWriteTx) error {
		ns, err := tx.CreateTopLevelBucket(nsKey)
		if err != nil {
			return err
		}
		return waddrmgr.Create(puttap.Wrap(ns, tap), root, pub, priv, netParams, &waddrmgr.FastScryptOptions, time.Unix(1600000000, 0))
	})
	if err != nil {
		return r.finish("", err, tap, nil)
	}
	if err := r.open(); err != nil {
		return "err other || ", "C03 key=create.open-failed: " + err.Error()
	}
	r.created = true
	return r.finish("ok", nil, tap, nil)
}

// ---- probing the quirks the model is parametric in ---------------------------------------------------------

var probeOnce sync.Once
var probed string

const probeSeed = "000102030405060708090a0b0c0d0e0f101112131415161718191a1b1c1d1e1f"

// probeQuirks runs a few tiny scenarios on the real code and reports which of the defects fixed in the official
// tree (DESIGN §7 F2, F3, O1, secret taproot rows, missing lastaccount row) the working tree shows again.  It is a
// guard only: the result is written into every `create … q=<flags>` line (so a replay file names the reverted fix)
// and keeps the generator away from scopes whose account 0 was clobbered.  The Lean model is the fixed tree and
// ignores it; the property oracles never look at it — a reverted fix is reported by the oracle at the op where it
// bites (and, on top, as a Go↔Lean disagreement).
func probeQuirks() string {
	probeOnce.Do(func() {
		var q []string
		func() {
			r := &runner{}
			defer r.Close()
			defer func() { _ = recover() }()
			r.Exec("create seed=" + probeSeed + " q=-")
			r.Exec("unlock p=0")
			if ct, err := r.mgr.Encrypt(waddrmgr.CKTScript, []byte("probe-probe-probe")); err == nil {
				if _, err := zeroKey.Decrypt(ct); err == nil {
					q = append(q, "o1")
				}
			}
			r.Exec("extend s=84:0 a=0 last=0 int=0")
			r.Exec("lookup s=84:0 ref=c:0:0:0 h=1")
			if rep, _ := r.Exec("privkey h=1"); strings.HasPrefix(rep, "err watchonly") {
				q = append(q, "f3")
			}
			r.Exec("newxpub s=84:0 name=5 x=1 ci=2147483649 fp=7 schema=-")
			r.Exec("props s=84:0 a=1")
			r.Exec("lock")
			rep, _ := r.Exec("unlock p=0")
			if strings.HasPrefix(rep, "ok") {
				// DeriveFromKeyPathCache on a cached account that has no private key (imported xpub), manager
				// unlocked: nil acctKeyPriv dereferenced (runs in a scratch manager of its own: it poisons the case)
				func() {
					r2 := &runner{}
					defer r2.Close()
					defer func() { _ = recover() }()
					r2.Exec("create seed=" + probeSeed + " q=-")
					r2.Exec("unlock p=0")
					r2.Exec("newxpub s=84:0 name=5 x=1 ci=2147483649 fp=7 schema=-")
					r2.Exec("props s=84:0 a=1")
					if rep, _ := r2.Exec("dcache s=84:0 a=1 ac=0 b=0 i=0"); strings.HasPrefix(rep, "panic") {
						q = append(q, "d1")
					}
				}()
			}
			if strings.HasPrefix(rep, "err crypto") {
				q = append(q, "f2")
			}
			if strings.HasPrefix(rep, "panic") {
				q = append(q, "u2")
			}
		}()
		func() {
			r := &runner{}
			defer r.Close()
			defer func() { _ = recover() }()
			r.Exec("create seed=" + probeSeed + " q=-")
			r.Exec("unlock p=0")
			r.Exec("newscope s=1999:0 ext=4 int=4")
			if rep, _ := r.Exec("newacct s=1999:0 name=9"); strings.HasPrefix(rep, "ok acct=0") {
				q = append(q, "l1")
			}
			r.Exec("importscript s=86:0 k=1 kind=2 secret=1 h=1")
			if _, v := r.Exec("convertwo"); strings.Contains(v, "taproot-secret-script-survives") {
				q = append(q, "t1")
			}
		}()
		probed = strings.Join(q, ",")
		if probed == "" {
			probed = "-"
		}
	})
	return probed
}

// ---- generator ---------------------------------------------------------------------------------------------

type gacct struct {
	num uint32
	x   bool
}

type gstate struct {
	rng     *rand.Rand
	ops     []string
	scopes  []string
	accts   map[string][]gacct
	next    map[string]uint32
	locked  bool
	wo      bool
	curPriv int
	curPub  int
	nextH   int
	keyH    []int
	scrH    []int
	impKeys []string // scope|id|comp
	scripts []string // scope|id|kind
	nName   int
	nX      int
	nImp    int
	nScr    int
	nPass   int
	custom  bool
	q       string
	noX     bool
	tags    map[string]bool
}

func (g *gstate) add(f string, a ...interface{}) { g.ops = append(g.ops, fmt.Sprintf(f, a...)) }
func (g *gstate) scope() string                 { return g.scopes[g.rng.Intn(len(g.scopes))] }
func (g *gstate) acct(sc string) gacct {
	l := g.accts[sc]
	return l[g.rng.Intn(len(l))]
}
func (g *gstate) h() int { g.nextH++; return g.nextH }

var addrTypes = []int{0, 3, 4, 6}

func (g *gstate) chainRef(valid bool) (string, string) {
	sc := g.scope()
	a := g.acct(sc)
	br := uint32(g.rng.Intn(2))
	n := g.next[fmt.Sprintf("%s/%d/%d", sc, a.num, br)]
	var idx uint32
	if valid && n > 0 {
		idx = uint32(g.rng.Intn(int(n)))
	} else {
		idx = n + uint32(g.rng.Intn(3))
	}
	return sc, fmt.Sprintf("c:%d:%d:%d", a.num, br, idx)
}

func (g *gstate) step() {
	rng := g.rng
	switch k := rng.Intn(100); {
	case k < 20: // next
		sc := g.scope()
		a := g.acct(sc)
		n := 1 + rng.Intn(3)
		internal := rng.Intn(3) == 0
		hb := g.nextH + 1
		g.nextH += n
		g.add("next s=%s a=%d n=%d int=%s h=%d", sc, a.num, n, b01(internal), hb)
		br := 0
		if internal {
			br = 1
		}
		g.next[fmt.Sprintf("%s/%d/%d", sc, a.num, br)] += uint32(n)
		for i := 0; i < n; i++ {
			g.keyH = append(g.keyH, hb+i)
		}
		g.tags["next."+map[bool]string{true: "locked", false: "unlocked"}[g.locked]] = true
		if a.x {
			g.tags["next.xpub-account"] = true
		}
	case k < 32: // extend
		sc := g.scope()
		a := g.acct(sc)
		internal := rng.Intn(3) == 0
		br := 0
		if internal {
			br = 1
		}
		key := fmt.Sprintf("%s/%d/%d", sc, a.num, br)
		cur := g.next[key]
		last := cur + uint32(rng.Intn(4))
		if rng.Intn(5) == 0 && cur > 0 {
			last = cur - 1 // already derived: no-op
		}
		g.add("extend s=%s a=%d last=%d int=%s", sc, a.num, last, b01(internal))
		if last+1 > cur {
			g.next[key] = last + 1
		}
		g.tags["extend."+map[bool]string{true: "locked", false: "unlocked"}[g.locked]] = true
		if a.x {
			g.tags["extend.xpub-account"] = true
		}
	case k < 46: // lookup of a chained address; sometimes the transaction store records a payment to one
		if rng.Intn(5) == 0 {
			sc, ref := g.chainRef(true)
			g.add("rectx s=%s ref=%s", sc, ref)
			g.tags["tx-recorded"] = true
			return
		}
		sc, ref := g.chainRef(rng.Intn(8) != 0)
		h := g.h()
		g.add("lookup s=%s ref=%s h=%d", sc, ref, h)
		g.keyH = append(g.keyH, h)
	case k >= 53 && k < 56: // DeriveFromKeyPathCache: the same branch/index for every account of a scope in turn
		g.dcacheBurst()
	case k < 56: // privkey
		if len(g.keyH) > 0 {
			g.add("privkey h=%d", g.keyH[rng.Intn(len(g.keyH))])
		} else {
			g.add("privkey h=%d", 1+rng.Intn(5))
		}
	case k < 60:
		if len(g.keyH)+len(g.scrH) > 0 {
			all := append(append([]int{}, g.keyH...), g.scrH...)
			g.add("info h=%d", all[rng.Intn(len(all))])
		}
	case k < 66: // lock / unlock
		if g.locked {
			p := g.curPriv
			if rng.Intn(6) == 0 {
				p = g.curPriv + 7
				g.passUse("priv", p)
			}
			g.add("unlock p=%d", p)
			if p == g.curPriv && !g.wo {
				g.locked = false
			}
		} else {
			if rng.Intn(5) == 0 {
				g.passUse("priv", g.curPriv+7)
				g.add("unlock p=%d", g.curPriv+7) // wrong passphrase while unlocked: locks
			} else {
				g.add("lock")
			}
			g.locked = true
		}
	case k == 68: // rename an account
		sc := g.scope()
		a := g.acct(sc)
		g.nName++
		name := 1 + g.nName
		switch rng.Intn(8) {
		case 0:
			name = 1 // "default": taken
		case 1:
			name = 0 // empty
		}
		acct := a.num
		if rng.Intn(10) == 0 {
			acct = []uint32{importedAcct, 55}[rng.Intn(2)]
		}
		g.add("rename s=%s a=%d name=%d", sc, acct, name)
		if a.x {
			g.tags["rename.xpub-account"] = true
		}
	case k < 69: // markused
		sc, ref := g.chainRef(true)
		g.add("markused s=%s ref=%s", sc, ref)
	case k < 73: // derive
		sc := g.scope()
		a := g.acct(sc)
		h := g.h()
		ac := a.num + hardened
		g.add("derive s=%s a=%d ac=%d b=%d i=%d h=%d", sc, a.num, ac, rng.Intn(2), rng.Intn(6), h)
		g.keyH = append(g.keyH, h)
	case k < 76: // new account
		sc := g.scope()
		g.nName++
		name := 1 + g.nName
		if rng.Intn(8) == 0 {
			name = 1 // duplicate of "default"
		}
		g.add("newacct s=%s name=%d", sc, name)
		if g.dropClobbered(sc) {
			return
		}
		if !g.locked && !g.wo && name != 1 {
			g.accts[sc] = append(g.accts[sc], gacct{num: g.maxAcct(sc) + 1})
		}
	case k < 79: // imported xpub account
		sc := g.scope()
		if g.noX {
			g.add("props s=%s a=%d", sc, g.acct(sc).num)
			return
		}
		g.nName++
		g.nX++
		schema := "-"
		if rng.Intn(2) == 0 {
			schema = fmt.Sprintf("%d/%d", addrTypes[rng.Intn(4)], addrTypes[rng.Intn(4)])
			g.tags["xpub.schema-override"] = true
		}
		g.add("newxpub s=%s name=%d x=%d ci=%d fp=%d schema=%s", sc, 1+g.nName, g.nX, uint32(g.nX)+hardened, rng.Intn(1000), schema)
		if g.dropClobbered(sc) {
			return
		}
		g.accts[sc] = append(g.accts[sc], gacct{num: g.maxAcct(sc) + 1, x: true})
	case k < 83: // import private / public key
		sc := g.scope()
		g.nImp++
		id := g.nImp
		if rng.Intn(6) == 0 && g.nImp > 1 {
			id = 1 + rng.Intn(g.nImp-1) // possibly a duplicate
		}
		h := g.h()
		if rng.Intn(3) == 0 {
			g.add("importpub s=%s k=%d h=%d", sc, id, h)
			g.impKeys = append(g.impKeys, fmt.Sprintf("%s|k:%d:1", sc, id))
		} else {
			comp := rng.Intn(4) != 0
			g.add("importpriv s=%s k=%d comp=%s h=%d", sc, id, b01(comp), h)
			g.impKeys = append(g.impKeys, fmt.Sprintf("%s|k:%d:%s", sc, id, b01(comp)))
		}
		g.keyH = append(g.keyH, h)
	case k < 87: // import script
		sc := g.scope()
		g.nScr++
		kind := rng.Intn(3)
		secret := kind == 0 || rng.Intn(2) == 0
		h := g.h()
		g.add("importscript s=%s k=%d kind=%d secret=%s h=%d", sc, g.nScr, kind, b01(secret), h)
		g.scripts = append(g.scripts, fmt.Sprintf("%s|s:%d:%d", sc, g.nScr, kind))
		g.scrH = append(g.scrH, h)
	case k < 90: // script accessor / lookup of imported things
		if len(g.scrH) > 0 && rng.Intn(2) == 0 {
			g.add("script h=%d", g.scrH[rng.Intn(len(g.scrH))])
		} else if l := append(append([]string{}, g.impKeys...), g.scripts...); len(l) > 0 {
			f := strings.Split(l[rng.Intn(len(l))], "|")
			h := g.h()
			g.add("lookup s=%s ref=%s h=%d", f[0], f[1], h)
			if strings.HasPrefix(f[1], "s:") {
				g.scrH = append(g.scrH, h)
			} else {
				g.keyH = append(g.keyH, h)
			}
		}
	case k < 93: // passphrase change
		priv := rng.Intn(3) != 0
		g.nPass++
		if priv {
			old := g.curPriv
			if rng.Intn(6) == 0 {
				old += 11
			}
			g.passUse("priv", old)
			g.passUse("priv", g.nPass)
			g.add("chpass priv=1 old=%d new=%d", old, g.nPass)
			if old == g.curPriv && !g.wo {
				g.curPriv = g.nPass
			}
		} else {
			g.add("chpass priv=0 old=%d new=%d", g.curPub, g.nPass)
			g.curPub = g.nPass
		}
	case k < 96: // restart
		g.add("restart")
		g.locked = true
		g.keyH, g.scrH = nil, nil
	case k < 98: // props
		sc := g.scope()
		g.add("props s=%s a=%d", sc, g.acct(sc).num)
	case k < 99: // custom scope
		if !g.custom {
			g.custom = true
			sc := fmt.Sprintf("%d:%d", 1000+rng.Intn(40), rng.Intn(3))
			g.add("newscope s=%s ext=%d int=%d", sc, addrTypes[rng.Intn(4)], addrTypes[rng.Intn(4)])
			if !g.locked && !g.wo {
				g.scopes = append(g.scopes, sc)
				g.accts[sc] = []gacct{{num: 0}}
			}
		}
	default: // malformed / out of range requests
		sc := g.scope()
		switch rng.Intn(4) {
		case 0:
			g.add("next s=%s a=%d n=1 int=0 h=%d", sc, 77, g.h())
		case 1:
			g.add("next s=%s a=%d n=1 int=0 h=%d", sc, importedAcct, g.h())
		case 2:
			g.add("extend s=%s a=%d last=2 int=1", sc, 99)
		case 3:
			g.add("next s=7:7 a=0 n=1 int=0 h=%d", g.h())
		}
	}
}

func (g *gstate) passUse(kind string, i int) {}

// dcacheBurst: DeriveFromKeyPathCache for one branch/index in (up to four) accounts of one scope, sometimes after
// `props` has drawn each account into the cache, with the `Account` field of the path as callers fill it in:
// the hardened child number, or a constant (zero / what the wallet's recovery code passes).  On a tree with the
// `d1` defect the call panics for a cached xpub account while unlocked, so those accounts are left out there.
func (g *gstate) dcacheBurst() {
	rng := g.rng
	if g.locked && !g.wo && rng.Intn(2) == 0 {
		g.add("unlock p=%d", g.curPriv)
		g.locked = false
	}
	sc := g.scope()
	accts := append([]gacct{}, g.accts[sc]...)
	rng.Shuffle(len(accts), func(i, j int) { accts[i], accts[j] = accts[j], accts[i] })
	if len(accts) > 4 {
		accts = accts[:4]
	}
	b, i := uint32(rng.Intn(2)), uint32(rng.Intn(3))
	if rng.Intn(12) == 0 {
		b, i = hardened+uint32(rng.Intn(2)), hardened+uint32(rng.Intn(2))
	}
	mode := rng.Intn(3)
	load := rng.Intn(3) != 0
	for _, a := range accts {
		if a.x && !g.locked && !g.wo && strings.Contains(g.q, "d1") {
			continue
		}
		ac := a.num + hardened
		switch mode {
		case 1:
			ac = 0
		case 2:
			ac = hardened
		}
		if load {
			g.add("props s=%s a=%d", sc, a.num)
		}
		g.add("dcache s=%s a=%d ac=%d b=%d i=%d", sc, a.num, ac, b, i)
		g.tags["dcache."+map[bool]string{true: "locked", false: "unlocked"}[g.locked]] = true
	}
	if len(accts) > 1 {
		g.tags["dcache.several-accounts"] = true
	}
	// the same paths again, two to four more rounds (first look-up = miss, later ones = hits), the caller wiping
	// (zero=1) some of the keys it was given, sometimes a lock / unlock in between (the caller still holds the others)
	if rng.Intn(2) == 0 {
		for round, n := 0, 2+rng.Intn(3); round < n; round++ {
			for _, a := range accts {
				if a.x && !g.locked && !g.wo && strings.Contains(g.q, "d1") {
					continue
				}
				ac := a.num + hardened
				switch mode {
				case 1:
					ac = 0
				case 2:
					ac = hardened
				}
				g.add("dcache s=%s a=%d ac=%d b=%d i=%d zero=%d", sc, a.num, ac, b, i, rng.Intn(2))
			}
			if !g.locked && !g.wo && rng.Intn(6) == 0 {
				g.add("lock")
				g.add("unlock p=%d", g.curPriv)
			}
		}
		g.tags["dcache.repeated-path-caller-wipes"] = true
	}
}

// dropClobbered: on a tree with the `l1` defect the first account created in a custom scope overwrites that
// scope's account 0 (reported by the oracle at that very op).  What the scope does afterwards depends on stale
// caches of the overwritten account and cannot be named by the harness registry, so the scope is not used again.
func (g *gstate) dropClobbered(sc string) bool {
	if !strings.Contains(g.q, "l1") || defaultSchemas[sc] != ([2]int{}) || sc == "44:0" {
		return false
	}
	if _, isDefault := defaultSchemas[sc]; isDefault {
		return false
	}
	var keep []string
	for _, s := range g.scopes {
		if s != sc {
			keep = append(keep, s)
		}
	}
	g.scopes = keep
	return true
}

func (g *gstate) maxAcct(sc string) uint32 {
	var m uint32
	for _, a := range g.accts[sc] {
		if a.num > m {
			m = a.num
		}
	}
	return m
}

func newG(rng *rand.Rand, seed []byte, q string) *gstate {
	g := &gstate{rng: rng, accts: map[string][]gacct{}, next: map[string]uint32{}, locked: true, tags: map[string]bool{}}
	g.scopes = []string{"49:0", "84:0", "86:0", "44:0"}
	for _, s := range g.scopes {
		g.accts[s] = []gacct{{num: 0}}
	}
	g.q = q
	g.add("create seed=%x q=%s", seed, q)
	return g
}

// legacySeed looks for a seed whose purpose or cointype key has a leading zero byte for one of the default
// scopes, so that btcsuite's legacy hardened-derivation rule (≠ BIP32) is actually exercised.
func legacySeed(rng *rand.Rand) []byte {
	for t := 0; t < 400; t++ {
		seed := make([]byte, 16+rng.Intn(3)*8)
		rng.Read(seed)
		m, err := hd.Master(seed)
		if err != nil {
			continue
		}
		for _, p := range []uint32{44, 49, 84, 86} {
			k, err := m.Path(true, p+hardened, hardened, hardened)
			if err == nil && k.LegacyDiffers {
				return seed
			}
		}
	}
	return nil
}

func (engine) Generate(rng *rand.Rand, tier string) []core.Case {
	q := probeQuirks()
	nCases, nOps := 70, 55
	if tier == "thorough" {
		nCases, nOps = 220, 110
	}
	var cases []core.Case
	cases = append(cases, directed(rng, q)...)
	for c := 0; c < nCases; c++ {
		var seed []byte
		tags := map[string]bool{}
		if c%6 == 5 {
			seed = legacySeed(rng)
			if seed != nil {
				tags["seed.legacy-rule"] = true
			}
		}
		if seed == nil {
			seed = make([]byte, []int{16, 32, 64}[rng.Intn(3)])
			rng.Read(seed)
		}
		g := newG(rng, seed, q)
		g.tags = tags
		if rng.Intn(3) != 0 {
			g.add("unlock p=0")
			g.locked = false
		}
		g.noX = rng.Intn(3) == 0 // some cases without imported accounts (they change what Unlock can do)
		for i := 0; i < nOps; i++ {
			g.step()
		}
		g.add("recreate n=%d", 2+rng.Intn(3))
		if c%3 == 0 {
			// watching-only conversion: every address still known, nothing private left, nothing unlocks
			g.add("convertwo")
			g.wo = true
			g.add("unlock p=%d", g.curPriv)
			for _, h := range g.keyH {
				if rng.Intn(3) == 0 {
					g.add("privkey h=%d", h)
				}
			}
			for _, h := range g.scrH {
				g.add("script h=%d", h)
			}
			g.add("restart")
			g.add("unlock p=%d", g.curPriv)
			for i := 0; i < 8; i++ {
				sc, ref := g.chainRef(true)
				h := g.h()
				g.add("lookup s=%s ref=%s h=%d", sc, ref, h)
				g.add("privkey h=%d", h)
			}
			for _, s := range append(append([]string{}, g.impKeys...), g.scripts...) {
				f := strings.Split(s, "|")
				h := g.h()
				g.add("lookup s=%s ref=%s h=%d", f[0], f[1], h)
				if strings.HasPrefix(f[1], "s:") {
					g.add("script h=%d", h)
				} else {
					g.add("privkey h=%d", h)
				}
			}
			sc := g.scope()
			g.add("next s=%s a=0 n=1 int=0 h=%d", sc, g.h())
			g.add("importpriv s=%s k=%d comp=1 h=%d", sc, 900, g.h())
			tags["convert-to-watching-only"] = true
		}
		var tl []string
		for t := range g.tags {
			tl = append(tl, t)
		}
		cases = append(cases, core.Case{Ops: g.ops, Tags: tl})
	}
	if tier == "thorough" {
		cases = append(cases, exhaustive(rng, q)...)
	}
	return cases
}

// directed: a few structured scenarios that random interleavings reach only with low probability.
func directed(rng *rand.Rand, q string) []core.Case {
	var out []core.Case
	mk := func(tag string, lines ...string) {
		seed := make([]byte, 32)
		rng.Read(seed)
		ops := []string{fmt.Sprintf("create seed=%x q=%s", seed, q)}
		out = append(out, core.Case{Ops: append(ops, lines...), Tags: []string{"directed." + tag}})
	}
	// a custom scope, then the first accounts in it: account numbers continue after the default account (the
	// `lastaccount` row written by NewScopedKeyManager), indices of account 0 survive, also across a restart
	for _, cs := range []string{"1001:1", "1017:0"} {
		mk("custom-scope-first-accounts", "unlock p=0", "newscope s="+cs+" ext=4 int=4", "next s="+cs+" a=0 n=2 int=0 h=1",
			"newacct s="+cs+" name=2", "newxpub s="+cs+" name=3 x=1 ci=2147483649 fp=7 schema=-", "next s="+cs+" a=1 n=1 int=0 h=3",
			"next s="+cs+" a=2 n=1 int=1 h=4", "next s="+cs+" a=0 n=1 int=0 h=5", "props s="+cs+" a=0", "restart", "props s="+cs+" a=0",
			"props s="+cs+" a=1", "next s="+cs+" a=0 n=1 int=0 h=6", "unlock p=0", "lookup s="+cs+" ref=c:0:0:2 h=7", "privkey h=7")
	}
	// DeriveFromKeyPathCache / Wallet.DeriveFromKeyPath: the same branch/index in several cached accounts of one scope,
	// `Account` left constant (as the wallet's recovery code does), both orders, hits and misses, lock in between
	for _, sc := range []string{"84:0", "86:0"} {
		mk("derive-cache-two-accounts", "unlock p=0", "newacct s="+sc+" name=2", "newacct s="+sc+" name=3",
			"dcache s="+sc+" a=0 ac=0 b=0 i=0", "next s="+sc+" a=0 n=1 int=0 h=1", "next s="+sc+" a=1 n=1 int=0 h=2", "props s="+sc+" a=2",
			"dcache s="+sc+" a=0 ac=0 b=0 i=0", "dcache s="+sc+" a=1 ac=0 b=0 i=0", "dcache s="+sc+" a=2 ac=0 b=0 i=0",
			"dcache s="+sc+" a=1 ac=0 b=0 i=0", "dcache s="+sc+" a=0 ac=0 b=0 i=0", "privkey h=1", "privkey h=2",
			"dcache s="+sc+" a=2 ac=2147483648 b=1 i=2", "dcache s="+sc+" a=1 ac=2147483648 b=1 i=2", "dcache s="+sc+" a=0 ac=2147483648 b=1 i=2",
			"lock", "dcache s="+sc+" a=1 ac=0 b=0 i=0", "unlock p=0", "dcache s="+sc+" a=1 ac=0 b=0 i=0", "dcache s="+sc+" a=0 ac=0 b=0 i=0",
			"dcache s="+sc+" a=7 ac=0 b=0 i=0", "restart", "unlock p=0", "dcache s="+sc+" a=1 ac=0 b=0 i=0", "props s="+sc+" a=1", "props s="+sc+" a=0",
			"dcache s="+sc+" a=1 ac=2147483649 b=0 i=0", "dcache s="+sc+" a=0 ac=2147483649 b=0 i=0", "convertwo", "dcache s="+sc+" a=0 ac=0 b=0 i=0")
	}
	// DeriveFromKeyPathCache: the same path looked up again and again by a caller that wipes the keys it was given
	// (first look-up = miss, then hits), a second account in between, keys still held while the manager locks
	for _, sc := range []string{"84:0", "49:0"} {
		p := "dcache s=" + sc + " a=0 ac=2147483648 b=0 i=0"
		p1 := "dcache s=" + sc + " a=1 ac=2147483649 b=1 i=2"
		mk("derive-cache-caller-wipes-key", "unlock p=0", "newacct s="+sc+" name=2", "next s="+sc+" a=0 n=1 int=0 h=1", p, p+" zero=1", p, p+" zero=1",
			p1+" zero=1", p1+" zero=1", p1, p, "privkey h=1", "lock", p, "unlock p=0", p, p, p+" zero=1", p, p1, "unlock p=9", "unlock p=0", p1+" zero=1", p1,
			"restart", "unlock p=0", "props s="+sc+" a=0", p+" zero=1", p+" zero=1", p, "lookup s="+sc+" ref=c:0:0:0 h=2", "privkey h=2")
	}
	// an account imported with a master key fingerprint (hardware wallet xpub): what DerivationInfo reports for the
	// addresses issued from it — fingerprint included — when issued, on a cache hit, after MarkUsed dropped the cache
	// entry, and after a restart; a seed account next to it (fingerprint 0)
	for _, c := range [][2]string{{"84:0", "7"}, {"86:0", "3735928559"}, {"44:0", "1"}} {
		sc, fp := c[0], c[1]
		mk("xpub-fingerprint-reload", "newxpub s="+sc+" name=2 x=1 ci=2147483649 fp="+fp+" schema=-", "next s="+sc+" a=1 n=2 int=0 h=1",
			"next s="+sc+" a=1 n=1 int=1 h=3", "next s="+sc+" a=0 n=1 int=0 h=4", "info h=1", "lookup s="+sc+" ref=c:1:0:0 h=5", "markused s="+sc+" ref=c:1:0:0",
			"lookup s="+sc+" ref=c:1:0:0 h=6", "info h=1", "lookup s="+sc+" ref=c:1:1:0 h=7", "lookup s="+sc+" ref=c:0:0:0 h=8", "restart",
			"lookup s="+sc+" ref=c:1:0:1 h=9", "lookup s="+sc+" ref=c:1:1:0 h=10", "lookup s="+sc+" ref=c:0:0:0 h=11", "next s="+sc+" a=1 n=1 int=0 h=12",
			"unlock p=0", "lookup s="+sc+" ref=c:1:0:2 h=13", "markused s="+sc+" ref=c:1:0:2", "lookup s="+sc+" ref=c:1:0:2 h=14", "props s="+sc+" a=1",
			"extend s="+sc+" a=1 last=4 int=0", "lookup s="+sc+" ref=c:1:0:4 h=15", "restart", "lookup s="+sc+" ref=c:1:0:4 h=16", "lookup s="+sc+" ref=c:1:0:2 h=17")
	}
	if !strings.Contains(q, "d1") {
		// a cached imported (xpub) account has no private key: refused, the manager keeps working
		mk("derive-cache-xpub-account", "unlock p=0", "newxpub s=84:0 name=2 x=1 ci=2147483649 fp=7 schema=-", "props s=84:0 a=1", "props s=84:0 a=0",
			"dcache s=84:0 a=1 ac=0 b=0 i=0", "dcache s=84:0 a=0 ac=0 b=0 i=0", "derive s=84:0 a=1 ac=0 b=0 i=0 h=1", "privkey h=1")
	}
	// an imported account whose overriding address schema differs from its scope's (traditional BIP49 account in the
	// BIP0049Plus scope; a nested-P2WPKH account in the BIP84 scope; a P2PKH account in the taproot scope), renamed,
	// then read back from the database: same format, same addresses, before and after
	for _, c := range [][2]string{{"49:0", "3/3"}, {"84:0", "3/4"}, {"86:0", "0/0"}, {"44:0", "4/6"}} {
		sc, sch := c[0], c[1]
		mk("rename-imported-account-schema", "newxpub s="+sc+" name=2 x=1 ci=2147483649 fp=7 schema="+sch, "next s="+sc+" a=1 n=2 int=1 h=1",
			"next s="+sc+" a=1 n=1 int=0 h=3", "rename s="+sc+" a=1 name=3", "props s="+sc+" a=1", "next s="+sc+" a=1 n=1 int=1 h=4",
			"rename s="+sc+" a=0 name=4", "rename s="+sc+" a=1 name=4", "rename s="+sc+" a=1 name=0", "rename s="+sc+" a=9 name=5",
			"restart", "props s="+sc+" a=1", "props s="+sc+" a=0", "lookup s="+sc+" ref=c:1:1:0 h=5", "lookup s="+sc+" ref=c:1:0:0 h=6",
			"next s="+sc+" a=1 n=1 int=1 h=7", "next s="+sc+" a=1 n=1 int=0 h=8", "extend s="+sc+" a=1 last=5 int=1", "lookup s="+sc+" ref=c:1:1:5 h=9",
			"unlock p=0", "rename s="+sc+" a=1 name=6", "restart", "lookup s="+sc+" ref=c:1:1:1 h=10", "next s="+sc+" a=1 n=1 int=1 h=11", "recreate n=2")
	}
	// wallet level: Wallet.InitAccounts on two consecutive starts (watchOnly off/on in every combination, accounts
	// already there or still to be made), then what a third open of the file shows
	for _, c := range []struct {
		sc             string
		n1, w1, n2, w2 int
	}{{"84:0", 2, 0, 2, 1}, {"49:0", 1, 0, 3, 1}, {"86:0", 2, 1, 2, 1}, {"44:0", 2, 0, 2, 0}, {"84:0", 1, 1, 2, 0}, {"86:0", 0, 0, 1, 1}} {
		seed := make([]byte, 32)
		rng.Read(seed)
		ac := []uint32{0, hardened, 7}[rng.Intn(3)]
		out = append(out, core.Case{Ops: []string{fmt.Sprintf("wmigrate seed=%x s=%s n1=%d w1=%d n2=%d w2=%d ac=%d", seed, c.sc, c.n1, c.w1, c.n2, c.w2, ac)},
			Tags: []string{"directed.wallet-init-accounts"}})
	}
	for _, sc := range []string{"84:0", "44:0", "49:0", "86:0"} {
		// addresses of two accounts created while locked, in both orders, then unlocked (derive-on-unlock)
		mk("derive-on-unlock-two-accounts", "unlock p=0", "newacct s="+sc+" name=2", "newacct s="+sc+" name=3", "lock",
			"next s="+sc+" a=1 n=2 int=0 h=1", "next s="+sc+" a=0 n=2 int=0 h=3", "next s="+sc+" a=2 n=1 int=1 h=5",
			"next s="+sc+" a=0 n=1 int=1 h=6", "derive s="+sc+" a=1 ac=2147483649 b=0 i=5 h=7", "derive s="+sc+" a=0 ac=2147483648 b=1 i=4 h=8",
			"unlock p=0", "privkey h=1", "privkey h=2", "privkey h=3", "privkey h=4", "privkey h=5", "privkey h=6", "privkey h=7", "privkey h=8",
			"lookup s="+sc+" ref=c:0:0:1 h=9", "privkey h=9", "lookup s="+sc+" ref=c:1:0:0 h=10", "privkey h=10")
		// internal issued before / beyond external, restart, continue: indices must go on consecutively
		mk("internal-before-external-restart", "unlock p=0", "next s="+sc+" a=0 n=3 int=1 h=1", "next s="+sc+" a=0 n=2 int=0 h=4",
			"extend s="+sc+" a=0 last=6 int=1", "next s="+sc+" a=0 n=1 int=0 h=6", "restart", "props s="+sc+" a=0",
			"next s="+sc+" a=0 n=2 int=0 h=7", "next s="+sc+" a=0 n=1 int=1 h=9", "unlock p=0", "lookup s="+sc+" ref=c:0:0:2 h=10", "privkey h=10",
			"restart", "props s="+sc+" a=0", "next s="+sc+" a=0 n=1 int=0 h=11")
		// C04 boundary: issue, record a transaction (public material enters the file through wtxmgr only), keep
		// using the address manager in every lock state, convert, reopen
		mk("tx-recorded-boundary", "next s="+sc+" a=0 n=2 int=0 h=1", "rectx s="+sc+" ref=c:0:0:0", "markused s="+sc+" ref=c:0:0:0",
			"unlock p=0", "next s="+sc+" a=0 n=1 int=1 h=3", "rectx s="+sc+" ref=c:0:1:0", "importpriv s="+sc+" k=1 comp=1 h=4",
			"importscript s="+sc+" k=1 kind=1 secret=1 h=5", "newacct s="+sc+" name=2", "next s="+sc+" a=1 n=1 int=0 h=6", "rectx s="+sc+" ref=c:1:0:0",
			"chpass priv=1 old=0 new=1", "lock", "lookup s="+sc+" ref=c:0:0:1 h=7", "restart", "lookup s="+sc+" ref=c:0:0:0 h=8", "rectx s="+sc+" ref=c:0:0:1",
			"convertwo", "restart", "lookup s="+sc+" ref=c:1:0:0 h=9", "next s="+sc+" a=0 n=1 int=0 h=10")
		// imports in every lock state, conversion, reopen, imports again
		mk("imports-lock-states", "importpriv s="+sc+" k=1 comp=1 h=1", "importscript s="+sc+" k=1 kind=0 secret=1 h=2",
			"importscript s="+sc+" k=2 kind=1 secret=0 h=3", "importpub s="+sc+" k=2 h=4", "unlock p=0", "importpriv s="+sc+" k=3 comp=0 h=5",
			"importscript s="+sc+" k=3 kind=1 secret=1 h=6", "importscript s="+sc+" k=4 kind=2 secret=1 h=7", "lock", "importpriv s="+sc+" k=5 comp=1 h=8",
			"lookup s="+sc+" ref=k:5:1 h=9", "unlock p=0", "privkey h=5", "script h=6", "convertwo", "importpriv s="+sc+" k=6 comp=1 h=10",
			"restart", "importpriv s="+sc+" k=7 comp=1 h=11", "importscript s="+sc+" k=8 kind=1 secret=1 h=12", "importscript s="+sc+" k=9 kind=1 secret=0 h=13",
			"lookup s="+sc+" ref=k:3:0 h=14", "privkey h=14", "lookup s="+sc+" ref=k:7:1 h=15", "privkey h=15", "unlock p=0")
	}
	return out
}

// exhaustive: all orders of length ≤ 4 over {next, extend, lock, unlock, lookup+privkey, restart} on one branch.
func exhaustive(rng *rand.Rand, q string) []core.Case {
	kinds := []string{"next", "extend", "lock", "unlock", "lookup", "restart"}
	var out []core.Case
	var rec func(prefix []int)
	seed := make([]byte, 32)
	rng.Read(seed)
	rec = func(prefix []int) {
		if len(prefix) > 0 {
			g := newG(rng, seed, q)
			sc := "84:0"
			n := uint32(0)
			for _, k := range prefix {
				switch kinds[k] {
				case "next":
					h := g.h()
					g.add("next s=%s a=0 n=1 int=0 h=%d", sc, h)
					g.add("privkey h=%d", h)
					n++
				case "extend":
					g.add("extend s=%s a=0 last=%d int=0", sc, n)
					n++
				case "lock":
					g.add("lock")
				case "unlock":
					g.add("unlock p=0")
				case "lookup":
					if n > 0 {
						h := g.h()
						g.add("lookup s=%s ref=c:0:0:%d h=%d", sc, n-1, h)
						g.add("privkey h=%d", h)
					}
				case "restart":
					g.add("restart")
				}
			}
			g.add("unlock p=0")
			for i := uint32(0); i < n; i++ {
				h := g.h()
				g.add("lookup s=%s ref=c:0:0:%d h=%d", sc, i, h)
				g.add("privkey h=%d", h)
			}
			out = append(out, core.Case{Ops: g.ops, Tags: []string{"exhaustive"}})
		}
		if len(prefix) == 4 {
			return
		}
		for k := range kinds {
			rec(append(append([]int{}, prefix...), k))
		}
	}
	rec(nil)
	return out
}

var _ = filepath.Join
