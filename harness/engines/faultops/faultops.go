// Package faultops is the C10 engine: every mutating operation of wtxmgr.Store and of waddrmgr.Manager /
// ScopedKeyManager is run on the REAL code inside walletdb.Update on a fault-injecting database decorator
// (harness/faultdb), from states reached by random histories, once for every position k of a failing write.
//
// Op lines (one case = one reached state):
//
//	hist  kind=<tx|addr> seed=<n> len=<n>                     build the state (deterministic in seed)
//	fault kind=.. op=<descriptor> k=<k> n=<#writes> prog=<shape>
//
// `prog` is the step sequence observed in a fault-free run of the operation (computed by Generate on the real
// code, re-checked by Exec): `w@<frame>><frame>...` a mutating walletdb call with the wallet call sites on the
// stack (innermost first), `e` the raw in-memory state of the managers changed (eager mutation), `c` an
// OnCommit callback was registered, `x` the operation returned a non-fault error.  The Lean driver resolves
// every frame in Gen/ErrSitesGen.table and replays the program through the generic model.
//
// Reply: `res=<err|ok-nofault|ok-full|ok-partial> disk=<same|changed|-> mem=<same|changed|-> retry=<same|differs|*|->`.
//
// Go-side oracles (independent of the model):
//
//	C10 key=<site func>.success-with-partial-effect   nil error although a write failed and the effect differs
//	                                                  (at once, or - latent - in the answers during a fault-free
//	                                                  follow-up of the history, or in the raw database content)
//	C10 key=<Op>.no-answer-after-failure.<what>       a query / the retry does not return after the failed operation
//	C10 key=<Op>.state-changed-after-rollback         an observable differs after the rolled-back failure
//	C10 key=<Op>.retry-differs                        retry result/state differs from the fault-free twin
package faultops

import (
	"fmt"
	"io"
	"math/rand"
	"os"
	"path/filepath"
	"regexp"
	"runtime"
	"sort"
	"strconv"
	"strings"
	"sync"
	"sync/atomic"
	"time"

	"github.com/btcsuite/btcwallet/walletdb"
	_ "github.com/btcsuite/btcwallet/walletdb/bdb"

	"verifharness/core"
	"verifharness/faultdb"
)

type world interface {
	kind() string
	create(db walletdb.DB) error
	open(db walletdb.DB) error
	close()
	memRoots() []interface{}
	setExtra(string)
	buildHistory(rng *rand.Rand, n int)
	targets(rng *rand.Rand, tier string) []string
	runTarget(desc string) (string, error)
	observeRunning() []string
	observeFresh() []string
	finalProbe() []string
	// followUp continues the history after the target operation without faults (mutating the world) and returns
	// what the queries answer on the way; nil if the world has no follow-up
	followUp() []string
	dump() string
}

func newWorld(kind string, seed int64) world {
	if kind == "tx" {
		return &txWorld{seed: seed}
	}
	return &addrWorld{seed: seed}
}

type engine struct{}

func init() { core.Register(engine{}) }

func (engine) Name() string { return "faultops" }

// ---- files

var tmpCounter int64

func tmpRoot() string {
	for _, d := range []string{"/dev/shm", os.TempDir()} {
		if st, err := os.Stat(d); err == nil && st.IsDir() {
			p := filepath.Join(d, fmt.Sprintf("c10-faultops-%d", os.Getpid()))
			if os.MkdirAll(p, 0o755) == nil {
				return p
			}
		}
	}
	return "."
}

func tmpFile(tag string) string {
	return filepath.Join(tmpRoot(), fmt.Sprintf("%s-%d.db", tag, atomic.AddInt64(&tmpCounter, 1)))
}

func copyFile(dst, src string) error {
	in, err := os.Open(src)
	if err != nil {
		return err
	}
	defer in.Close()
	out, err := os.Create(dst)
	if err != nil {
		return err
	}
	if _, err := io.Copy(out, in); err != nil {
		out.Close()
		return err
	}
	return out.Close()
}

// buildBase creates the database, runs the history on live managers and returns the closed image's path.
func buildBase(kind string, seed int64, n int) (string, error) {
	path := tmpFile("base")
	db, err := walletdb.Create("bdb", path, true, 10*time.Second, false)
	if err != nil {
		return "", err
	}
	w := newWorld(kind, seed)
	if err := w.create(db); err != nil {
		db.Close()
		return "", err
	}
	if err := w.open(db); err != nil {
		db.Close()
		return "", err
	}
	w.buildHistory(rand.New(rand.NewSource(seed)), n)
	w.close()
	if err := db.Close(); err != nil {
		return "", err
	}
	return path, nil
}

type session struct {
	path string
	raw  walletdb.DB
	fdb  *faultdb.DB
	w    world
	// shape recording
	eBefore map[int]bool
	lastFP  uint64
}

func openSession(base, kind string, seed int64, extra string) (*session, error) {
	path := tmpFile("run")
	if err := copyFile(path, base); err != nil {
		return nil, err
	}
	raw, err := walletdb.Open("bdb", path, true, 10*time.Second, false)
	if err != nil {
		return nil, err
	}
	s := &session{path: path, raw: raw, fdb: faultdb.Wrap(raw), w: newWorld(kind, seed)}
	if err := s.w.open(s.fdb); err != nil {
		raw.Close()
		os.Remove(path)
		return nil, err
	}
	s.w.setExtra(extra)
	return s, nil
}

func (s *session) close() {
	s.w.close()
	s.raw.Close()
	os.Remove(s.path)
}

func (s *session) fp() uint64 {
	r := s.w.memRoots()
	if len(r) == 0 {
		return 0
	}
	return memFingerprint(r...)
}

// ---- twin (fault-free run): shape, result, post-state answers

type twin struct {
	shape          string
	nWrites        int
	res            string
	failed         bool
	running, fresh []string
	preFresh       []string
	final          []string
	followup       []string // answers during the fault-free continuation of the history (tx world)
	dump           string   // raw database content after the operation
	extra          string
	memUnstable    bool
	err            error
}

func diffAddrs(after, before []string) string {
	seen := map[string]bool{}
	for _, b := range before {
		seen[b] = true
	}
	var l []string
	for _, a := range after {
		if !seen[a] {
			l = append(l, a)
		}
	}
	return strings.Join(l, ",")
}

func computeTwin(base, kind string, seed int64, desc string) *twin {
	t := &twin{}
	// scout run: which addresses does the operation create (candidates for the Address() lookups)
	if kind == "addr" {
		s, err := openSession(base, kind, seed, "")
		if err != nil {
			t.err = err
			return t
		}
		aw := s.w.(*addrWorld)
		var before []string
		for _, a := range aw.known {
			before = append(before, a.EncodeAddress())
		}
		_, _ = s.w.runTarget(desc)
		var after []string
		if aw.mgr != nil {
			for _, a := range aw.allAddresses(aw.mgr) {
				after = append(after, a.EncodeAddress())
			}
		}
		t.extra = diffAddrs(after, before)
		s.close()
	}
	s, err := openSession(base, kind, seed, t.extra)
	if err != nil {
		t.err = err
		return t
	}
	defer s.close()
	_ = s.w.observeRunning()
	_ = s.w.observeFresh()
	// determinism self-check of the fingerprint
	f1, f2 := s.fp(), s.fp()
	t.memUnstable = f1 != f2
	s.lastFP = f1
	s.eBefore = map[int]bool{}
	ctl := s.fdb.Ctl
	ctl.Reset(0)
	ctl.Record = true
	trailingE := false
	ctl.Hook = func(string) {
		if f := s.fp(); f != s.lastFP {
			s.eBefore[len(ctl.Events)] = true
			s.lastFP = f
		}
	}
	setAfterOp(s.w, func() {
		if f := s.fp(); f != s.lastFP {
			trailingE = true
			s.lastFP = f
		}
	})
	res, rerr := s.w.runTarget(desc)
	setAfterOp(s.w, nil)
	ctl.Hook = nil
	ctl.Record = false
	var toks []string
	for i, ev := range ctl.Events {
		if s.eBefore[i] {
			toks = append(toks, "e")
		}
		if ev.Kind == "w" {
			t.nWrites++
			toks = append(toks, "w@"+strings.Join(ev.Frames, ">"))
		} else {
			toks = append(toks, "c")
		}
	}
	if trailingE {
		toks = append(toks, "e")
	}
	if rerr != nil {
		toks = append(toks, "x")
		t.failed = true
	}
	if len(toks) == 0 {
		toks = []string{"-"}
	}
	t.shape = strings.Join(toks, ",")
	t.res = res
	t.running = s.w.observeRunning()
	t.fresh = s.w.observeFresh()
	t.final = s.w.finalProbe()
	t.dump = s.w.dump()
	t.followup = s.w.followUp() // last: it changes the state
	return t
}

func setFailAfter(w world, b bool) {
	switch x := w.(type) {
	case *txWorld:
		x.failAfter = b
	case *addrWorld:
		x.failAfter = b
	}
}

func setAfterOp(w world, f func()) {
	switch x := w.(type) {
	case *txWorld:
		x.afterOp = f
	case *addrWorld:
		x.afterOp = f
	}
}

// ---- generator

type stateSpec struct {
	kind    string
	seed    int64
	hl      int
	rngSeed int64
}

// genState builds one reached state on the real code and enumerates its (operation, fault position) pairs.
func genState(sp stateSpec, tier string) core.Case {
	rng := rand.New(rand.NewSource(sp.rngSeed))
	base, err := buildBase(sp.kind, sp.seed, sp.hl)
	if err != nil {
		panic(fmt.Sprintf("faultops: cannot build state: %v", err))
	}
	defer os.Remove(base)
	s, err := openSession(base, sp.kind, sp.seed, "")
	if err != nil {
		panic(fmt.Sprintf("faultops: cannot open state: %v", err))
	}
	descs := s.w.targets(rng, tier)
	s.close()
	c := core.Case{Ops: []string{fmt.Sprintf("hist kind=%s seed=%d len=%d", sp.kind, sp.seed, sp.hl)}, Tags: []string{"state:" + sp.kind}}
	for _, d := range descs {
		t := computeTwin(base, sp.kind, sp.seed, d)
		if t.err != nil {
			panic(fmt.Sprintf("faultops: twin failed: %v", t.err))
		}
		name := strings.SplitN(d, "/", 2)[0]
		c.Tags = append(c.Tags, "op:"+name, fmt.Sprintf("writes:%s", bucketOf(t.nWrites)))
		if strings.Contains(t.shape, "e,w@") || strings.Contains(t.shape, "e,c,w@") {
			c.Tags = append(c.Tags, "eager-before-write:"+name)
		}
		if t.failed {
			c.Tags = append(c.Tags, "logical-error:"+name)
		}
		for k := 1; k <= t.nWrites+1; k++ {
			c.Ops = append(c.Ops, fmt.Sprintf("fault kind=%s op=%s k=%d n=%d prog=%s", sp.kind, d, k, t.nWrites, t.shape))
		}
		if !t.failed {
			// one more position: the operation succeeds and a LATER write of the same transaction fails
			c.Ops = append(c.Ops, fmt.Sprintf("fault kind=%s op=%s k=%d n=%d tail=1 prog=%s", sp.kind, d, t.nWrites+1, t.nWrites, t.shape))
		}
	}
	return c
}

func (engine) Generate(rng *rand.Rand, tier string) []core.Case {
	nStates := map[string]int{"tx": 16, "addr": 8}
	if tier == "thorough" {
		nStates = map[string]int{"tx": 24, "addr": 10}
	}
	if v := os.Getenv("VX_C10_STATES"); v != "" {
		if n, err := strconv.Atoi(v); err == nil {
			nStates = map[string]int{"tx": n, "addr": n}
		}
	}
	var specs []stateSpec
	for _, kind := range []string{"tx", "addr"} {
		for i := 0; i < nStates[kind]; i++ {
			sp := stateSpec{kind: kind, seed: int64(rng.Intn(1 << 30)), hl: 2 + rng.Intn(14), rngSeed: rng.Int63()}
			if i == 0 {
				sp.hl = 0 // the freshly created store / manager
			}
			specs = append(specs, sp)
		}
	}
	// states are independent (own database files, own managers): build them in parallel, keep the order
	cases := make([]core.Case, len(specs))
	var wg sync.WaitGroup
	sem := make(chan struct{}, 8)
	for i := range specs {
		wg.Add(1)
		sem <- struct{}{}
		go func(i int) {
			defer wg.Done()
			defer func() { <-sem }()
			cases[i] = genState(specs[i], tier)
		}(i)
	}
	wg.Wait()
	// malformed stream: must be answered bad-op by both sides
	cases = append(cases, core.Case{Ops: []string{
		"fault kind=tx op=InsertTx k=1", "fault", "hist kind=zz seed=1 len=1", "frob x=1",
		"fault kind=tx op=X k=0 n=1 prog=w@a:1", "fault kind=tx op=X k=1 n=1 prog=q",
	}, Tags: []string{"malformed"}})
	return cases
}

func bucketOf(n int) string {
	switch {
	case n == 0:
		return "0"
	case n <= 3:
		return "1-3"
	case n <= 10:
		return "4-10"
	case n <= 30:
		return "11-30"
	}
	return ">30"
}

// ---- runner

type runner struct {
	kind  string
	seed  int64
	base  string
	twins map[string]*twin
}

func (engine) NewRunner() core.Runner { return &runner{twins: map[string]*twin{}} }

func (r *runner) Close() {
	if r.base != "" {
		os.Remove(r.base)
		r.base = ""
	}
}

var keyRe = regexp.MustCompile(`^C10 key=(\S+):`)

var parenRe = regexp.MustCompile(`\([^)]*\)`)

// obsClass: "scope(84,0).acct(0).props" -> "props", "address(sb1q..)" -> "address".
func obsClass(name string) string {
	n := parenRe.ReplaceAllString(name, "")
	if i := strings.LastIndex(n, "."); i >= 0 {
		n = n[i+1:]
	}
	return n
}

// diffObs compares two observation lists ("name=value" lines) by name; returns for every class of observable
// that differs one example "name: [a] vs [b]", classes sorted.
func diffObs(a, b []string) (classes []string, example map[string]string) {
	toMap := func(l []string) (map[string]string, []string) {
		m := map[string]string{}
		var names []string
		for _, x := range l {
			n, v := x, ""
			if i := strings.IndexByte(x, '='); i >= 0 {
				n, v = x[:i], x[i+1:]
			}
			if _, ok := m[n]; !ok {
				names = append(names, n)
			}
			m[n] = v
		}
		return m, names
	}
	ma, na := toMap(a)
	mb, nb := toMap(b)
	example = map[string]string{}
	short := func(s string) string {
		if len(s) > 140 {
			return s[:140] + "…"
		}
		return s
	}
	for _, n := range append(na, nb...) {
		va, oka := ma[n]
		vb, okb := mb[n]
		if oka && okb && va == vb {
			continue
		}
		if !oka {
			va = "<absent>"
		}
		if !okb {
			vb = "<absent>"
		}
		c := obsClass(n)
		if _, ok := example[c]; !ok {
			classes = append(classes, c)
			example[c] = fmt.Sprintf("%s: [%s] vs [%s]", n, short(va), short(vb))
		}
	}
	sort.Strings(classes)
	return
}

func firstDiff(a, b []string) string {
	cl, ex := diffObs(a, b)
	if len(cl) == 0 {
		return ""
	}
	return ex[cl[0]]
}

// timed runs f in its own goroutine and reports whether it returned within d (the goroutine is left behind
// otherwise: the caller must not touch what f writes).  A goroutine that is found PARKED ON A LOCK (sync.Mutex /
// RWMutex / semaphore / channel wait, read off the runtime's goroutine dump) at two looks one second apart, after
// at least two seconds, is given up early: nothing else runs in a session, so nobody is going to release that
// lock; a goroutine that is merely slow gets the whole of d.
func timed(d time.Duration, f func()) bool {
	done := make(chan struct{})
	idc := make(chan string, 1)
	go func() {
		defer close(done)
		idc <- curGoroutineHeader()
		f()
	}()
	wait := func(x time.Duration) bool {
		tm := time.NewTimer(x)
		defer tm.Stop()
		select {
		case <-done:
			return true
		case <-tm.C:
			return false
		}
	}
	start := time.Now()
	first := 2 * time.Second
	if first > d {
		first = d
	}
	if wait(first) {
		return true
	}
	id := <-idc
	parked := 0
	for time.Since(start) < d {
		if goroutineParkedOnLock(id) {
			parked++
			if parked >= 2 {
				select {
				case <-done:
					return true
				default:
					return false
				}
			}
		} else {
			parked = 0
		}
		if wait(time.Second) {
			return true
		}
	}
	return false
}

// curGoroutineHeader: "goroutine 123 " of the calling goroutine.
func curGoroutineHeader() string {
	buf := make([]byte, 64)
	buf = buf[:runtime.Stack(buf, false)]
	if i := strings.IndexByte(string(buf), '['); i > 0 {
		return string(buf[:i])
	}
	return ""
}

// goroutineParkedOnLock looks the goroutine up in the dump of all goroutines and says whether its wait reason is a
// lock / semaphore / channel wait.
func goroutineParkedOnLock(header string) bool {
	if header == "" {
		return false
	}
	buf := make([]byte, 1<<20)
	for {
		n := runtime.Stack(buf, true)
		if n < len(buf) {
			buf = buf[:n]
			break
		}
		buf = make([]byte, 2*len(buf))
	}
	for _, line := range strings.Split(string(buf), "\n") {
		if !strings.HasPrefix(line, header+"[") {
			continue
		}
		st := line[len(header)+1:]
		for _, p := range []string{"sync.", "semacquire", "chan ", "select"} {
			if strings.HasPrefix(st, p) {
				return true
			}
		}
		return false
	}
	return false
}

func clean(s string) string { return strings.ReplaceAll(s, "; ", ", ") }

func validShape(p string) bool {
	if p == "-" {
		return true
	}
	for _, t := range strings.Split(p, ",") {
		if t == "e" || t == "c" || t == "x" {
			continue
		}
		if strings.HasPrefix(t, "w@") && len(t) > 2 {
			continue
		}
		return false
	}
	return true
}

func (r *runner) Exec(op string) (string, string) {
	name, a := core.KV(op)
	switch name {
	case "hist":
		kind := a["kind"]
		seed, err1 := strconv.ParseInt(a["seed"], 10, 64)
		n, err2 := strconv.Atoi(a["len"])
		if (kind != "tx" && kind != "addr") || err1 != nil || err2 != nil {
			return "bad-op", ""
		}
		r.Close()
		base, err := buildBase(kind, seed, n)
		if err != nil {
			return "harness-error " + err.Error(), ""
		}
		r.kind, r.seed, r.base = kind, seed, base
		r.twins = map[string]*twin{}
		return "ok", ""
	case "fault":
		desc := a["op"]
		k, err1 := strconv.Atoi(a["k"])
		n, err2 := strconv.Atoi(a["n"])
		prog, okp := a["prog"]
		if desc == "" || err1 != nil || err2 != nil || !okp || k < 1 || !validShape(prog) || (a["kind"] != "tx" && a["kind"] != "addr") {
			return "bad-op", ""
		}
		if r.base == "" || a["kind"] != r.kind {
			return "no-state", ""
		}
		tail := false
		if tv, ok := a["tail"]; ok {
			if tv != "1" || k != n+1 {
				return "bad-op", ""
			}
			tail = true
		}
		return r.fault(desc, k, n, prog, tail)
	}
	return "bad-op", ""
}

func (r *runner) fault(desc string, k, n int, prog string, tail bool) (string, string) {
	opName := strings.SplitN(desc, "/", 2)[0]
	t := r.twins[desc]
	if t == nil {
		t = computeTwin(r.base, r.kind, r.seed, desc)
		r.twins[desc] = t
	}
	if t.err != nil {
		return "harness-error " + t.err.Error(), ""
	}
	if t.memUnstable {
		return "harness-error unstable memory fingerprint", ""
	}
	if t.shape != prog || t.nWrites != n {
		return fmt.Sprintf("shape-mismatch n=%d prog=%s", t.nWrites, t.shape), ""
	}
	s, err := openSession(r.base, r.kind, r.seed, t.extra)
	if err != nil {
		return "harness-error " + err.Error(), ""
	}
	abandoned := false
	defer func() {
		if abandoned {
			// goroutines blocked inside the manager hold read transactions: closing would block as well
			os.Remove(s.path)
			return
		}
		s.close()
	}()
	obsStart := time.Now()
	preRun := s.w.observeRunning()
	// limit for every query batch / retry after the failed operation: a manager that left a mutex locked on the
	// error path never answers again - reported as an oracle violation instead of hanging (or dying from Go's
	// deadlock detector).  Generous: 200 x what the same queries took before the operation, at least 8 s; given up
	// earlier only if the goroutine is seen parked on a lock (see timed).
	limit := 200 * time.Since(obsStart)
	if limit < 8*time.Second {
		limit = 8 * time.Second
	}
	if t.preFresh == nil {
		t.preFresh = s.w.observeFresh() // a function of the base image and the candidate set only: computed once per op
	}
	preFresh := t.preFresh
	fp0 := s.fp()
	dump0 := s.w.dump()

	ctl := s.fdb.Ctl
	suffix := ""
	if tail {
		suffix = "@later-write"
		ctl.Reset(0)
		setFailAfter(s.w, true)
	} else {
		ctl.Reset(k)
	}
	res, rerr := s.w.runTarget(desc)
	setFailAfter(s.w, false)
	fired := ctl.Fired || tail
	failedSite := "?"
	for _, ev := range ctl.Events {
		if ev.Failed && len(ev.Frames) > 0 {
			f := ev.Frames[0]
			failedSite = f[:strings.LastIndex(f, ":")]
			if i := strings.LastIndex(failedSite, "."); i >= 0 && !strings.Contains(failedSite, ")") {
				_ = i
			}
		}
	}
	ctl.Reset(0)
	fp1 := s.fp()
	dump1 := s.w.dump()
	var viol []string

	if rerr == nil {
		postRun := s.w.observeRunning()
		postFresh := s.w.observeFresh()
		same := res == t.res && !t.failed && firstDiff(postRun, t.running) == "" && firstDiff(postFresh, t.fresh) == ""
		latent := ""
		if fired && same {
			// a write failed, the operation reported success and every query answers as after the fault-free run:
			// look for a LATENT partial effect - continue the history without faults exactly as the twin did
			// (tx world: remove the remaining unconfirmed transactions one by one) and compare the answers on the
			// way; last resort, the raw database content
			if d := firstDiff(s.w.followUp(), t.followup); d != "" {
				latent = "in the fault-free follow-up of the history (remaining unconfirmed transactions removed one by one): " + d
			} else if r.kind == "tx" && dump1 != t.dump {
				// (tx store only: its writes are a function of the history; waddrmgr rows carry time.Now())
				latent = "raw database content differs from the fault-free run (no query shows it yet)"
			}
			same = latent == ""
		}
		if !fired {
			if same {
				return "res=ok-nofault disk=- mem=- retry=-", ""
			}
			return "res=ok-nofault-but-differs-from-twin disk=- mem=- retry=-", ""
		}
		if same {
			return "res=ok-full disk=- mem=- retry=-", ""
		}
		d := firstDiff(postFresh, t.fresh)
		if d == "" {
			d = firstDiff(postRun, t.running)
		}
		if d == "" && latent != "" {
			d = latent
		}
		if d == "" {
			d = fmt.Sprintf("result %q vs %q", res, t.res)
		}
		viol = append(viol, fmt.Sprintf("C10 key=%s.success-with-partial-effect: %s returned nil although write %d/%d (%s) failed and the effect differs from the fault-free run: %s",
			failedSite, desc, k, n, failedSite, clean(d)))
		return "res=ok-partial disk=- mem=- retry=-", strings.Join(viol, "; ")
	}

	// the operation reported an error: walletdb.Update rolled the transaction back
	disk := "same"
	if dump0 != dump1 {
		disk = "changed"
		viol = append(viol, fmt.Sprintf("C10 key=%s.state-changed-after-rollback.raw-disk: %s k=%d raw database content differs after rollback", opName, desc, k))
	}
	mem := "same"
	if fp0 != fp1 {
		mem = "changed"
	}
	noAnswer := func(what string) (string, string) {
		abandoned = true
		viol = append(viol, fmt.Sprintf("C10 key=%s.no-answer-after-failure.%s: %s k=%d/%d (%s) failed and was rolled back, afterwards %s did not return (still parked on a lock after 3 s, or not back within 200 x the duration of the same queries before the operation and at least 8 s): the manager no longer answers as before, the retry cannot succeed",
			opName, what, desc, k, n, failedSite, what))
		return fmt.Sprintf("res=err disk=%s mem=%s retry=differs", disk, mem), strings.Join(viol, "; ")
	}
	var postRun []string
	if !timed(limit, func() { postRun = s.w.observeRunning() }) {
		return noAnswer("queries")
	}
	postFresh := preFresh
	if disk != "same" {
		// a reopened manager is a function of the database content alone: only re-queried when that changed
		postFresh = s.w.observeFresh()
	}
	if cl, ex := diffObs(preRun, postRun); len(cl) > 0 {
		for _, c := range cl {
			viol = append(viol, fmt.Sprintf("C10 key=%s.state-changed-after-rollback.%s%s: %s k=%d/%d running manager answers differently after the rolled-back failure (before vs after) %s",
				opName, c, suffix, desc, k, n, clean(ex[c])))
		}
	}
	if cl, ex := diffObs(preFresh, postFresh); len(cl) > 0 {
		for _, c := range cl {
			viol = append(viol, fmt.Sprintf("C10 key=%s.state-changed-after-rollback.reopened-%s%s: %s k=%d/%d reopened manager answers differently after the rolled-back failure %s",
				opName, c, suffix, desc, k, n, clean(ex[c])))
		}
	}
	// retry without fault, compare with the fault-free twin
	var res2 string
	var rerr2 error
	if !timed(limit, func() { res2, rerr2 = s.w.runTarget(desc) }) {
		return noAnswer("retry")
	}
	retry := "same"
	var whys [][2]string // (class, text)
	switch {
	case (rerr2 != nil) != t.failed:
		whys = append(whys, [2]string{"result", fmt.Sprintf("retry error=%v, fault-free run error=%v", rerr2, t.failed)})
	case res2 != t.res:
		whys = append(whys, [2]string{"result", fmt.Sprintf("retry result %q vs fault-free %q", res2, t.res)})
	}
	var retryRun []string
	if !timed(limit, func() { retryRun = s.w.observeRunning() }) {
		return noAnswer("queries-after-retry")
	}
	if cl, ex := diffObs(retryRun, t.running); len(cl) > 0 {
		for _, c := range cl {
			whys = append(whys, [2]string{c, "running manager after retry vs fault-free twin " + ex[c]})
		}
	}
	if cl, ex := diffObs(s.w.observeFresh(), t.fresh); len(cl) > 0 {
		for _, c := range cl {
			whys = append(whys, [2]string{"reopened-" + c, "reopened manager after retry vs fault-free twin " + ex[c]})
		}
	}
	if cl, ex := diffObs(s.w.finalProbe(), t.final); len(cl) > 0 {
		for _, c := range cl {
			whys = append(whys, [2]string{"dryrun-" + c, "next-address dry run after retry vs fault-free twin " + ex[c]})
		}
	}
	for _, y := range whys {
		retry = "differs"
		viol = append(viol, fmt.Sprintf("C10 key=%s.retry-differs.%s%s: %s k=%d/%d %s", opName, y[0], suffix, desc, k, n, clean(y[1])))
	}
	if mem == "changed" {
		retry = "*"
	}
	if tail && len(viol) > 0 {
		// one coarse key per operation for the "later write of the same transaction fails" position: the
		// manager updated its memory inside the transaction and is now ahead of the rolled-back disk
		var keys []string
		for _, v := range viol {
			if m := keyRe.FindStringSubmatch(v); m != nil {
				keys = append(keys, strings.TrimSuffix(strings.TrimPrefix(m[1], opName+"."), "@later-write"))
			}
		}
		first := viol[0]
		if i := strings.Index(first, ": "); i >= 0 {
			first = first[i+2:]
		}
		viol = []string{fmt.Sprintf("C10 key=%s.memory-ahead-after-later-write-failure: differing [%s] e.g. %s", opName, strings.Join(keys, " "), first)}
	}
	return fmt.Sprintf("res=err disk=%s mem=%s retry=%s", disk, mem, retry), strings.Join(viol, "; ")
}
