package faultops

import (
	"encoding/binary"
	"hash"
	"hash/fnv"
	"reflect"
	"sort"
	"unsafe"
)

// memFingerprint hashes everything reachable from the given roots (unexported fields included, through
// reflect + unsafe), so that two fingerprints of the same live object taken at different times differ iff some
// reachable in-memory value changed.  Skipped: sync primitives (their state words change while held), function
// and channel values, chaincfg parameters, the LRU private-key cache (its recency list moves on reads).
// Pointers are followed once (identity by address); the address itself is not hashed except to encode sharing.
func memFingerprint(roots ...interface{}) uint64 {
	f := &fper{h: fnv.New64a(), seen: map[unsafe.Pointer]int{}}
	for _, r := range roots {
		f.walk(reflect.ValueOf(r), 0)
	}
	return f.h.Sum64()
}

type fper struct {
	h    hash.Hash64
	seen map[unsafe.Pointer]int
	buf  [8]byte
}

func (f *fper) u64(v uint64) {
	binary.LittleEndian.PutUint64(f.buf[:], v)
	f.h.Write(f.buf[:])
}

func skipType(t reflect.Type) bool {
	switch t.PkgPath() {
	case "sync", "sync/atomic":
		// atomic values are hashed through their fields; mutexes skipped
		return t.PkgPath() == "sync"
	case "github.com/btcsuite/btcd/chaincfg":
		return true
	case "time":
		return t.Name() == "Location"
	}
	if t.Kind() == reflect.Ptr && t.Elem().PkgPath() == "github.com/btcsuite/btcd/chaincfg" {
		return true
	}
	if t.Kind() == reflect.Ptr && t.Elem().PkgPath() == "github.com/lightninglabs/neutrino/cache/lru" {
		return true
	}
	return false
}

func (f *fper) walk(v reflect.Value, depth int) {
	if !v.IsValid() {
		f.u64(0xdead)
		return
	}
	if depth > 60 {
		return
	}
	t := v.Type()
	if skipType(t) {
		return
	}
	switch v.Kind() {
	case reflect.Bool:
		if v.Bool() {
			f.u64(1)
		} else {
			f.u64(2)
		}
	case reflect.Int, reflect.Int8, reflect.Int16, reflect.Int32, reflect.Int64:
		f.u64(uint64(v.Int()))
	case reflect.Uint, reflect.Uint8, reflect.Uint16, reflect.Uint32, reflect.Uint64, reflect.Uintptr:
		f.u64(v.Uint())
	case reflect.Float32, reflect.Float64:
		f.u64(uint64(v.Float()))
	case reflect.String:
		f.u64(uint64(v.Len()))
		f.h.Write([]byte(v.String()))
	case reflect.Ptr:
		if v.IsNil() {
			f.u64(0xa1)
			return
		}
		p := unsafe.Pointer(v.Pointer())
		if _, ok := f.seen[p]; ok {
			f.u64(0xa2) // already visited (no id: the visiting order inside maps is not deterministic)
			return
		}
		f.seen[p] = len(f.seen) + 1
		f.u64(0xa3)
		f.walk(v.Elem(), depth+1)
	case reflect.Interface:
		if v.IsNil() {
			f.u64(0xb1)
			return
		}
		f.h.Write([]byte(v.Elem().Type().String()))
		f.walk(v.Elem(), depth+1)
	case reflect.Struct:
		for i := 0; i < v.NumField(); i++ {
			fv := v.Field(i)
			if !fv.CanInterface() && fv.CanAddr() {
				fv = reflect.NewAt(fv.Type(), unsafe.Pointer(fv.UnsafeAddr())).Elem()
			}
			f.u64(uint64(i))
			f.walk(fv, depth+1)
		}
	case reflect.Slice:
		if v.IsNil() {
			f.u64(0xc1)
			return
		}
		f.u64(uint64(v.Len()))
		if t.Elem().Kind() == reflect.Uint8 {
			if v.CanInterface() {
				f.h.Write(v.Bytes())
				return
			}
		}
		for i := 0; i < v.Len(); i++ {
			f.walk(v.Index(i), depth+1)
		}
	case reflect.Array:
		for i := 0; i < v.Len(); i++ {
			f.walk(v.Index(i), depth+1)
		}
	case reflect.Map:
		if v.IsNil() {
			f.u64(0xd1)
			return
		}
		// order-independent: hash every (key,value) pair with a sub-hasher sharing the seen-set, sort, combine
		var hs []uint64
		it := v.MapRange()
		for it.Next() {
			sub := &fper{h: fnv.New64a(), seen: f.seen}
			sub.walk(it.Key(), depth+1)
			sub.walk(it.Value(), depth+1)
			hs = append(hs, sub.h.Sum64())
		}
		sort.Slice(hs, func(i, j int) bool { return hs[i] < hs[j] })
		f.u64(uint64(len(hs)))
		for _, x := range hs {
			f.u64(x)
		}
	case reflect.Func, reflect.Chan, reflect.UnsafePointer:
		// skipped
	default:
		f.u64(0xff)
	}
}
