package faultops

import (
	"crypto/sha256"
	"errors"
	"fmt"
	"math/rand"
	"sort"
	"strconv"
	"strings"
	"time"

	"github.com/btcsuite/btcd/btcec/v2"
	"github.com/btcsuite/btcd/btcutil"
	"github.com/btcsuite/btcd/btcutil/hdkeychain"
	"github.com/btcsuite/btcd/chaincfg"
	"github.com/btcsuite/btcd/chaincfg/chainhash"
	"github.com/btcsuite/btcwallet/snacl"
	"github.com/btcsuite/btcwallet/waddrmgr"
	"github.com/btcsuite/btcwallet/walletdb"
	"verifharness/faultdb"
)

var addrNS = []byte("waddrmgr")

var (
	pubPass0, pubPass1   = []byte("pub"), []byte("pub-two")
	privPass0, privPass1 = []byte("priv"), []byte("priv-two")
	errDryRun            = errors.New("dry run")
	netParams            = &chaincfg.SimNetParams
	usedScopes           = []waddrmgr.KeyScope{waddrmgr.KeyScopeBIP0084, waddrmgr.KeyScopeBIP0044}
	customScope          = waddrmgr.KeyScope{Purpose: 1017, Coin: 1}
	customSchema         = waddrmgr.ScopeAddrSchema{ExternalAddrType: waddrmgr.WitnessPubKey, InternalAddrType: waddrmgr.WitnessPubKey}
	candidateNames       = []string{"default", "imported", "a1", "a2", "a3", "tgtacct", "renamed", "r1", "r2"}
)

func init() {
	// cheap scrypt for every secret key the managers create (test speed only)
	waddrmgr.SetSecretKeyGen(func(p *[]byte, _ *waddrmgr.ScryptOptions) (*snacl.SecretKey, error) {
		return snacl.NewSecretKey(p, 16, 8, 1)
	})
}

type addrWorld struct {
	seed      int64
	db        walletdb.DB
	mgr       *waddrmgr.Manager
	known     []btcutil.Address   // addresses on disk when the world was opened
	knownSc   []waddrmgr.KeyScope // the scope each known address was enumerated from
	extra     []btcutil.Address   // addresses the target operation creates (from the fault-free twin)
	privCur   []byte              // private passphrase currently believed valid for the running manager
	unlocked  bool
	afterOp   func()
	failAfter bool
}

func (w *addrWorld) kind() string { return "addr" }

// the lock state the running manager is put in (derived from the seed so Generate and Exec agree)
func (w *addrWorld) wantUnlocked() bool  { return w.seed%3 != 0 }
func (w *addrWorld) wantWatchOnly() bool { return w.seed%7 == 3 }

func (w *addrWorld) create(db walletdb.DB) error {
	seed := sha256.Sum256([]byte("c10-seed-" + strconv.FormatInt(w.seed, 10)))
	root, err := hdkeychain.NewMaster(seed[:], netParams)
	if err != nil {
		return err
	}
	return walletdb.Update(db, func(tx walletdb.ReadWriteTx) error {
		ns, err := tx.CreateTopLevelBucket(addrNS)
		if err != nil {
			return err
		}
		return waddrmgr.Create(ns, root, pubPass0, privPass0, netParams, &waddrmgr.FastScryptOptions, t0)
	})
}

func openMgr(db walletdb.DB) (*waddrmgr.Manager, string, error) {
	var m *waddrmgr.Manager
	which := ""
	err := walletdb.View(db, func(tx walletdb.ReadTx) error {
		var err error
		for _, p := range [][]byte{pubPass0, pubPass1} {
			m, err = waddrmgr.Open(tx.ReadBucket(addrNS), p, netParams)
			if err == nil {
				which = string(p)
				return nil
			}
		}
		return err
	})
	return m, which, err
}

func (w *addrWorld) open(db walletdb.DB) error {
	w.db = db
	m, _, err := openMgr(db)
	if err != nil {
		return err
	}
	w.mgr = m
	w.privCur = privPass0
	w.unlocked = false
	if w.wantUnlocked() && !m.WatchOnly() {
		if err := w.view(func(ns walletdb.ReadBucket) error { return m.Unlock(ns, privPass0) }); err != nil {
			return err
		}
		w.unlocked = true
	}
	w.known, w.knownSc = w.allAddressesScoped(m)
	return nil
}

func (w *addrWorld) close() {
	if w.mgr != nil {
		w.mgr.Close()
		w.mgr = nil
	}
}

func (w *addrWorld) memRoots() []interface{} { return []interface{}{w.mgr} }

func (w *addrWorld) update(f func(ns walletdb.ReadWriteBucket) error) error {
	return walletdb.Update(w.db, func(tx walletdb.ReadWriteTx) error {
		err := f(tx.ReadWriteBucket(addrNS))
		if w.afterOp != nil {
			w.afterOp() // still inside the transaction, before commit / rollback
		}
		if err == nil && w.failAfter {
			// "a later write of the same wallet-level operation fails": the transaction is rolled back
			// although this manager operation returned nil
			return faultdb.ErrInjected
		}
		return err
	})
}

func (w *addrWorld) view(f func(ns walletdb.ReadBucket) error) error {
	return walletdb.View(w.db, func(tx walletdb.ReadTx) error {
		return f(tx.ReadBucket(addrNS))
	})
}

func scopeLess(a, b waddrmgr.KeyScope) bool {
	if a.Purpose != b.Purpose {
		return a.Purpose < b.Purpose
	}
	return a.Coin < b.Coin
}

func sortedScopes(m *waddrmgr.Manager) []*waddrmgr.ScopedKeyManager {
	l := m.ActiveScopedKeyManagers()
	sort.Slice(l, func(i, j int) bool { return scopeLess(l[i].Scope(), l[j].Scope()) })
	return l
}

func (w *addrWorld) accountsOf(ns walletdb.ReadBucket, s *waddrmgr.ScopedKeyManager) []uint32 {
	last, err := s.LastAccount(ns)
	var l []uint32
	if err == nil {
		for a := uint32(0); a <= last && a < 16; a++ {
			l = append(l, a)
		}
	}
	return append(l, waddrmgr.ImportedAddrAccount)
}

func (w *addrWorld) allAddresses(m *waddrmgr.Manager) []btcutil.Address {
	l, _ := w.allAddressesScoped(m)
	return l
}

// allAddressesScoped enumerates (address, scope) pairs, sorted by (address string, scope).  The same hash160 can
// exist in two scopes (e.g. one key imported into BIP0044 and BIP0084), so the scope is part of the identity.
func (w *addrWorld) allAddressesScoped(m *waddrmgr.Manager) ([]btcutil.Address, []waddrmgr.KeyScope) {
	type ent struct {
		a  btcutil.Address
		sc waddrmgr.KeyScope
	}
	var ents []ent
	seen := map[string]bool{}
	_ = w.view(func(ns walletdb.ReadBucket) error {
		for _, s := range sortedScopes(m) {
			for _, a := range w.accountsOf(ns, s) {
				_ = s.ForEachAccountAddress(ns, a, func(ma waddrmgr.ManagedAddress) error {
					k := fmt.Sprintf("%s/%v", ma.Address().EncodeAddress(), s.Scope())
					if !seen[k] {
						seen[k] = true
						ents = append(ents, ent{ma.Address(), s.Scope()})
					}
					return nil
				})
			}
		}
		return nil
	})
	sort.Slice(ents, func(i, j int) bool {
		if ents[i].a.EncodeAddress() != ents[j].a.EncodeAddress() {
			return ents[i].a.EncodeAddress() < ents[j].a.EncodeAddress()
		}
		return scopeLess(ents[i].sc, ents[j].sc)
	})
	var as []btcutil.Address
	var scs []waddrmgr.KeyScope
	for _, e := range ents {
		as = append(as, e.a)
		scs = append(scs, e.sc)
	}
	return as, scs
}

// setExtra: comma separated encoded addresses created by the target operation in the fault-free twin.
func (w *addrWorld) setExtra(s string) {
	w.extra = nil
	for _, e := range strings.Split(s, ",") {
		if e == "" {
			continue
		}
		if a, err := btcutil.DecodeAddress(e, netParams); err == nil {
			w.extra = append(w.extra, a)
		}
	}
}

func (w *addrWorld) scoped(i int) *waddrmgr.ScopedKeyManager {
	s, err := w.mgr.FetchScopedKeyManager(usedScopes[i%len(usedScopes)])
	if err != nil {
		panic(err)
	}
	return s
}

func wifOf(seed int64, j int) *btcutil.WIF {
	h := sha256.Sum256([]byte(fmt.Sprintf("key-%d-%d", seed, j)))
	priv, _ := btcec.PrivKeyFromBytes(h[:])
	w, err := btcutil.NewWIF(priv, netParams, true)
	if err != nil {
		panic(err)
	}
	return w
}

func scriptOf(seed int64, j int) []byte {
	return []byte{0x51, 0x75, byte(seed), byte(seed >> 8), byte(j), 0x51}
}

func stampAt(h int32) *waddrmgr.BlockStamp {
	hash := sha256.Sum256([]byte("ablock" + strconv.Itoa(int(h))))
	return &waddrmgr.BlockStamp{Height: h, Hash: chainhash.Hash(hash), Timestamp: t0.Add(time.Duration(h) * time.Minute)}
}

// ---- history (runs on the live managers; errors of individual steps are ignored)

func (w *addrWorld) buildHistory(rng *rand.Rand, n int) {
	nAcct := 0
	for step := 0; step < n; step++ {
		si := rng.Intn(2)
		s := w.scoped(si)
		switch r := rng.Intn(24); {
		case r < 8:
			acct := uint32(rng.Intn(nAcct + 1))
			cnt := uint32(1 + rng.Intn(3))
			internal := rng.Intn(3) == 0
			_ = w.update(func(ns walletdb.ReadWriteBucket) error {
				var err error
				if internal {
					_, err = s.NextInternalAddresses(ns, acct, cnt)
				} else {
					_, err = s.NextExternalAddresses(ns, acct, cnt)
				}
				return err
			})
		case r < 11:
			nAcct++
			name := "a" + strconv.Itoa(nAcct)
			_ = w.update(func(ns walletdb.ReadWriteBucket) error { _, err := s.NewAccount(ns, name); return err })
		case r < 12:
			acct := uint32(rng.Intn(nAcct + 1))
			name := "r" + strconv.Itoa(1+rng.Intn(2))
			_ = w.update(func(ns walletdb.ReadWriteBucket) error { return s.RenameAccount(ns, acct, name) })
		case r < 14:
			j := rng.Intn(3)
			_ = w.update(func(ns walletdb.ReadWriteBucket) error {
				_, err := s.ImportPrivateKey(ns, wifOf(w.seed, j), nil)
				return err
			})
		case r < 15:
			j := rng.Intn(3)
			_ = w.update(func(ns walletdb.ReadWriteBucket) error {
				_, err := s.ImportScript(ns, scriptOf(w.seed, j), stampAt(0))
				return err
			})
		case r < 18:
			l, scs := w.allAddressesScoped(w.mgr)
			if len(l) > 0 {
				i := rng.Intn(len(l))
				if sm, err := w.mgr.FetchScopedKeyManager(scs[i]); err == nil {
					_ = w.update(func(ns walletdb.ReadWriteBucket) error { return sm.MarkUsed(ns, l[i]) })
				}
			}
		case r < 21:
			h := w.mgr.SyncedTo().Height + 1
			_ = w.update(func(ns walletdb.ReadWriteBucket) error { return w.mgr.SetSyncedTo(ns, stampAt(h)) })
		case r < 22:
			acct := uint32(rng.Intn(nAcct + 1))
			last := uint32(rng.Intn(6))
			_ = w.update(func(ns walletdb.ReadWriteBucket) error { return s.ExtendExternalAddresses(ns, acct, last) })
		case r < 23:
			if w.mgr.IsLocked() {
				_ = w.view(func(ns walletdb.ReadBucket) error { return w.mgr.Unlock(ns, privPass0) })
			} else {
				_ = w.mgr.Lock()
			}
		default:
			if rng.Intn(3) == 0 {
				_ = w.update(func(ns walletdb.ReadWriteBucket) error {
					_, err := w.mgr.NewScopedKeyManager(ns, customScope, customSchema)
					return err
				})
			}
		}
	}
	if w.wantWatchOnly() {
		_ = w.update(func(ns walletdb.ReadWriteBucket) error { return w.mgr.ConvertToWatchingOnly(ns) })
	}
}

// ---- targets

func (w *addrWorld) targets(rng *rand.Rand, tier string) []string {
	var all []string
	_ = w.view(func(ns walletdb.ReadBucket) error {
		for si := range usedScopes {
			s := w.scoped(si)
			for _, a := range w.accountsOf(ns, s) {
				if a == waddrmgr.ImportedAddrAccount {
					continue
				}
				for n := 1; n <= 3; n++ {
					all = append(all, fmt.Sprintf("NextExternalAddresses/s:%d/acct:%d/n:%d", si, a, n))
					all = append(all, fmt.Sprintf("NextInternalAddresses/s:%d/acct:%d/n:%d", si, a, n))
				}
				if p, err := s.AccountProperties(ns, a); err == nil {
					all = append(all, fmt.Sprintf("ExtendExternalAddresses/s:%d/acct:%d/last:%d", si, a, p.ExternalKeyCount+uint32(rng.Intn(3))))
					all = append(all, fmt.Sprintf("ExtendInternalAddresses/s:%d/acct:%d/last:%d", si, a, p.InternalKeyCount+uint32(rng.Intn(3))))
				}
				if a != 0 || rng.Intn(2) == 0 {
					all = append(all, fmt.Sprintf("RenameAccount/s:%d/acct:%d/name:renamed", si, a))
				}
			}
			all = append(all, fmt.Sprintf("NewAccount/s:%d/name:tgtacct", si))
			for j := 0; j < 4; j++ {
				all = append(all, fmt.Sprintf("ImportPrivateKey/s:%d/key:%d", si, j))
				all = append(all, fmt.Sprintf("ImportPublicKey/s:%d/key:%d", si, 10+j))
				all = append(all, fmt.Sprintf("ImportScript/s:%d/script:%d", si, j))
			}
		}
		return nil
	})
	for i := range w.known {
		all = append(all, fmt.Sprintf("MarkUsed/addr:%d", i))
	}
	h := w.mgr.SyncedTo().Height
	all = append(all, fmt.Sprintf("SetSyncedTo/h:%d", h+1))
	if h > 1 {
		all = append(all, fmt.Sprintf("SetSyncedTo/h:%d", h-1))
	}
	all = append(all, "SetSyncedTo/h:-1") // nil blockstamp: back to the start block
	all = append(all, "SetBirthday/t:1234567", fmt.Sprintf("SetBirthdayBlock/h:%d", h))
	all = append(all, "ChangePassphrase/private:1", "ChangePassphrase/private:0", "ConvertToWatchingOnly", "NewScopedKeyManager")
	return pickTargets(rng, all, tier)
}

func addrList(l []waddrmgr.ManagedAddress) string {
	var s []string
	for _, a := range l {
		s = append(s, a.Address().EncodeAddress())
	}
	return strings.Join(s, ",")
}

func (w *addrWorld) runTarget(desc string) (string, error) {
	name, a := descArgs(desc)
	res := ""
	privAfter := w.privCur
	err := w.update(func(ns walletdb.ReadWriteBucket) error {
		switch name {
		case "NextExternalAddresses":
			l, err := w.scoped(atoi(a["s"])).NextExternalAddresses(ns, uint32(atoi(a["acct"])), uint32(atoi(a["n"])))
			res = addrList(l)
			return err
		case "NextInternalAddresses":
			l, err := w.scoped(atoi(a["s"])).NextInternalAddresses(ns, uint32(atoi(a["acct"])), uint32(atoi(a["n"])))
			res = addrList(l)
			return err
		case "ExtendExternalAddresses":
			return w.scoped(atoi(a["s"])).ExtendExternalAddresses(ns, uint32(atoi(a["acct"])), uint32(atoi(a["last"])))
		case "ExtendInternalAddresses":
			return w.scoped(atoi(a["s"])).ExtendInternalAddresses(ns, uint32(atoi(a["acct"])), uint32(atoi(a["last"])))
		case "NewAccount":
			n, err := w.scoped(atoi(a["s"])).NewAccount(ns, a["name"])
			if err == nil {
				res = strconv.Itoa(int(n))
			}
			return err
		case "RenameAccount":
			return w.scoped(atoi(a["s"])).RenameAccount(ns, uint32(atoi(a["acct"])), a["name"])
		case "ImportPrivateKey":
			ma, err := w.scoped(atoi(a["s"])).ImportPrivateKey(ns, wifOf(w.seed, atoi(a["key"])), nil)
			if err == nil {
				res = ma.Address().EncodeAddress()
			}
			return err
		case "ImportPublicKey":
			ma, err := w.scoped(atoi(a["s"])).ImportPublicKey(ns, wifOf(w.seed, atoi(a["key"])).PrivKey.PubKey(), nil)
			if err == nil {
				res = ma.Address().EncodeAddress()
			}
			return err
		case "ImportScript":
			ma, err := w.scoped(atoi(a["s"])).ImportScript(ns, scriptOf(w.seed, atoi(a["script"])), stampAt(0))
			if err == nil {
				res = ma.Address().EncodeAddress()
			}
			return err
		case "MarkUsed":
			// through the scoped manager the address belongs to: Manager.MarkUsed / Manager.Address pick the
			// first scope (in Go map order) that knows the hash160, which is not deterministic when one key
			// lives in two scopes
			i := atoi(a["addr"])
			sm, err := w.mgr.FetchScopedKeyManager(w.knownSc[i])
			if err != nil {
				return err
			}
			return sm.MarkUsed(ns, w.known[i])
		case "SetSyncedTo":
			if h := atoi(a["h"]); h >= 0 {
				return w.mgr.SetSyncedTo(ns, stampAt(int32(h)))
			}
			return w.mgr.SetSyncedTo(ns, nil)
		case "SetBirthday":
			return w.mgr.SetBirthday(ns, time.Unix(int64(atoi(a["t"])), 0))
		case "SetBirthdayBlock":
			return w.mgr.SetBirthdayBlock(ns, *stampAt(int32(atoi(a["h"]))), true)
		case "ChangePassphrase":
			if a["private"] == "1" {
				err := w.mgr.ChangePassphrase(ns, privPass0, privPass1, true, &waddrmgr.FastScryptOptions)
				if err == nil {
					privAfter = privPass1
				}
				return err
			}
			return w.mgr.ChangePassphrase(ns, pubPass0, pubPass1, false, &waddrmgr.FastScryptOptions)
		case "ConvertToWatchingOnly":
			return w.mgr.ConvertToWatchingOnly(ns)
		case "NewScopedKeyManager":
			_, err := w.mgr.NewScopedKeyManager(ns, customScope, customSchema)
			return err
		}
		return fmt.Errorf("unknown target %q", name)
	})
	if err == nil {
		w.privCur = privAfter
	}
	return res, err
}

// ---- observables

func (w *addrWorld) candidates() []btcutil.Address {
	return append(append([]btcutil.Address{}, w.known...), w.extra...)
}

func (w *addrWorld) observeMgr(m *waddrmgr.Manager, fresh bool) []string {
	dryRun := fresh
	var out []string
	st := m.SyncedTo()
	out = append(out, fmt.Sprintf("synced=%d:%s", st.Height, st.Hash.String()[:8]))
	out = append(out, fmt.Sprintf("locked=%v", m.IsLocked()), fmt.Sprintf("watchonly=%v", m.WatchOnly()),
		fmt.Sprintf("birthday=%d", m.Birthday().Unix()))
	_ = w.view(func(ns walletdb.ReadBucket) error {
		bb, ver, err := m.BirthdayBlock(ns)
		out = append(out, fmt.Sprintf("birthdayblock=%d:%v:%v", bb.Height, ver, err != nil))
		for h := int32(0); h <= st.Height+2 && h < 40; h++ {
			bh, err := m.BlockHash(ns, h)
			if err == nil {
				out = append(out, fmt.Sprintf("blockhash(%d)=%s", h, bh.String()[:8]))
			}
		}
		for _, s := range sortedScopes(m) {
			sc := s.Scope()
			tag := fmt.Sprintf("scope(%d,%d)", sc.Purpose, sc.Coin)
			last, err := s.LastAccount(ns)
			out = append(out, fmt.Sprintf("%s.lastaccount=%d/%v", tag, last, err != nil))
			for _, a := range w.accountsOf(ns, s) {
				at := fmt.Sprintf("%s.acct(%d)", tag, a)
				if p, err := s.AccountProperties(ns, a); err == nil {
					out = append(out, fmt.Sprintf("%s.props=name:%s ext:%d int:%d imp:%d wo:%v", at, p.AccountName,
						p.ExternalKeyCount, p.InternalKeyCount, p.ImportedKeyCount, p.IsWatchOnly))
				} else {
					out = append(out, at+".props=err")
				}
				nm, err := s.AccountName(ns, a)
				out = append(out, fmt.Sprintf("%s.name=%s/%v", at, nm, err != nil))
				if a != waddrmgr.ImportedAddrAccount {
					if ma, err := s.LastExternalAddress(ns, a); err == nil {
						out = append(out, at+".lastext="+ma.Address().EncodeAddress())
					} else {
						out = append(out, at+".lastext=err")
					}
					if ma, err := s.LastInternalAddress(ns, a); err == nil {
						out = append(out, at+".lastint="+ma.Address().EncodeAddress())
					} else {
						out = append(out, at+".lastint=err")
					}
				}
				var l []string
				err = s.ForEachAccountAddress(ns, a, func(ma waddrmgr.ManagedAddress) error {
					l = append(l, fmt.Sprintf("%s:%v:%v:%v", ma.Address().EncodeAddress(), ma.Used(ns), ma.Internal(), ma.Imported()))
					return nil
				})
				sort.Strings(l)
				out = append(out, fmt.Sprintf("%s.addrs=%s/%v", at, strings.Join(l, ","), err != nil))
			}
			for _, nm := range candidateNames {
				n, err := s.LookupAccount(ns, nm)
				if err == nil {
					out = append(out, fmt.Sprintf("%s.lookup(%s)=%d", tag, nm, n))
				}
			}
		}
		cands := w.candidates()
		if fresh {
			// a reopened manager has no cache: what it says about the known addresses is the `addrs` listing
			// above; only the addresses the operation creates are looked up one by one
			cands = w.extra
		}
		for _, a := range cands {
			k := a.EncodeAddress()
			for _, s := range sortedScopes(m) {
				sc := s.Scope()
				tag := fmt.Sprintf("scope(%d,%d)", sc.Purpose, sc.Coin)
				if ma, err := s.Address(ns, a); err == nil {
					out = append(out, fmt.Sprintf("%s.address(%s)=found acct:%d used:%v int:%v imp:%v", tag, k, ma.InternalAccount(), ma.Used(ns), ma.Internal(), ma.Imported()))
				} else {
					out = append(out, fmt.Sprintf("%s.address(%s)=notfound", tag, k))
				}
				if acct, err := s.AddrAccount(ns, a); err == nil {
					out = append(out, fmt.Sprintf("%s.addraccount(%s)=%d", tag, k, acct))
				} else {
					out = append(out, fmt.Sprintf("%s.addraccount(%s)=err", tag, k))
				}
			}
		}
		return nil
	})
	if dryRun {
		out = append(out, w.dryRun(m)...)
	}
	return out
}

// dryRun asks for the next external/internal address of account 0 of each used scope inside a transaction that
// is rolled back.
func (w *addrWorld) dryRun(m *waddrmgr.Manager) []string {
	var out []string
	for si, sc := range usedScopes {
		s, err := m.FetchScopedKeyManager(sc)
		if err != nil {
			continue
		}
		for _, internal := range []bool{false, true} {
			got := "err"
			_ = w.update(func(ns walletdb.ReadWriteBucket) error {
				var l []waddrmgr.ManagedAddress
				var err error
				if internal {
					l, err = s.NextInternalAddresses(ns, 0, 1)
				} else {
					l, err = s.NextExternalAddresses(ns, 0, 1)
				}
				if err == nil && len(l) == 1 {
					got = l[0].Address().EncodeAddress()
				}
				return errDryRun
			})
			br := "ext"
			if internal {
				br = "int"
			}
			out = append(out, fmt.Sprintf("next(s%d,%s)=%s", si, br, got))
		}
	}
	return out
}

func (w *addrWorld) observeRunning() []string {
	out := w.observeMgr(w.mgr, false)
	// the private passphrase the running manager accepts (Unlock on an unlocked manager only checks the hash)
	if w.unlocked && !w.mgr.WatchOnly() && !w.mgr.IsLocked() {
		err := w.view(func(ns walletdb.ReadBucket) error { return w.mgr.Unlock(ns, w.privCur) })
		out = append(out, fmt.Sprintf("running.unlock(current)=%v", err == nil))
	}
	return out
}

func (w *addrWorld) observeFresh() []string {
	m, which, err := openMgr(w.db)
	if err != nil {
		return []string{"fresh.open=err"}
	}
	defer m.Close()
	out := []string{"fresh.pubpass=" + which}
	if !m.WatchOnly() {
		ok := "none"
		for _, p := range [][]byte{privPass0, privPass1} {
			if err := w.view(func(ns walletdb.ReadBucket) error { return m.Unlock(ns, p) }); err == nil {
				ok = string(p)
				break
			}
		}
		out = append(out, "fresh.privpass="+ok)
		_ = m.Lock()
	}
	return append(out, w.observeMgr(m, true)...)
}

func (w *addrWorld) finalProbe() []string { return w.dryRun(w.mgr) }

func (w *addrWorld) followUp() []string { return nil }

func (w *addrWorld) dump() string { return dumpDB(w.db, addrNS) }
