package faultops

import (
	"crypto/sha256"
	"encoding/hex"
	"fmt"
	"math"
	"math/rand"
	"sort"
	"strconv"
	"strings"
	"time"

	"github.com/btcsuite/btcd/blockchain"
	"github.com/btcsuite/btcd/chaincfg"
	"github.com/btcsuite/btcd/chaincfg/chainhash"
	"github.com/btcsuite/btcd/wire"
	"github.com/btcsuite/btcwallet/walletdb"
	"github.com/btcsuite/btcwallet/wtxmgr"
	"github.com/lightningnetwork/lnd/clock"
	"verifharness/faultdb"
)

var txNS = []byte("wtxmgr")

var t0 = time.Unix(1700000000, 0)

// txUniverse: a fixed family of transactions derived from the history seed.  tx i spends either an outside
// outpoint or outputs of earlier transactions; `ours[j]` marks outputs that the history credits to the wallet.
// txUniverseSize random transactions, followed by the conflict triple (conflictTriple: a parent and two
// transactions that double-spend its wallet output).
type txInfo struct {
	rec      *wtxmgr.TxRecord
	ours     []bool
	coinbase bool // a block reward: single null-outpoint input; only ever recorded as mined
}

type txWorld struct {
	seed      int64
	txs       []*txInfo
	db        walletdb.DB
	store     *wtxmgr.Store
	top       int32 // highest block height used so far (recomputed on open)
	labels    int
	afterOp   func()
	failAfter bool
}

const txUniverseSize = 9

func blockMeta(h int32) *wtxmgr.BlockMeta {
	hash := sha256.Sum256([]byte("block" + strconv.Itoa(int(h))))
	return &wtxmgr.BlockMeta{
		Block: wtxmgr.Block{Hash: chainhash.Hash(hash), Height: h},
		Time:  t0.Add(time.Duration(h) * 10 * time.Minute),
	}
}

func newTxUniverse(seed int64) []*txInfo {
	rng := rand.New(rand.NewSource(seed*7919 + 17))
	var txs []*txInfo
	type outRef struct {
		tx  int
		idx uint32
	}
	var ourOuts []outRef
	// coinbase transactions (Store.rollback deletes them instead of moving them to the unmined bucket): one at a
	// fixed early position (so that later transactions can spend its outputs: spent and unspent coinbase credits)
	// and each other position with probability 1/5
	cbAt := rng.Intn(4)
	for i := 0; i < txUniverseSize; i++ {
		m := wire.NewMsgTx(2)
		nIn := 1 + rng.Intn(2)
		used := map[outRef]bool{}
		isCB := i == cbAt || rng.Intn(5) == 0
		if isCB {
			nIn = 0
			m.AddTxIn(wire.NewTxIn(wire.NewOutPoint(&chainhash.Hash{}, math.MaxUint32),
				[]byte{0x03, byte(i), byte(seed), byte(seed >> 8), byte(seed >> 16)}, nil))
		}
		for j := 0; j < nIn; j++ {
			if len(ourOuts) > 0 && rng.Intn(3) != 0 {
				// spend one of our earlier outputs (possibly one that another tx also spends: conflict)
				o := ourOuts[rng.Intn(len(ourOuts))]
				if used[o] {
					continue
				}
				used[o] = true
				m.AddTxIn(wire.NewTxIn(wire.NewOutPoint(&txs[o.tx].rec.Hash, o.idx), nil, nil))
			} else {
				var h chainhash.Hash
				copy(h[:], fmt.Sprintf("outside-%d-%d-%d", seed, i, j))
				m.AddTxIn(wire.NewTxIn(wire.NewOutPoint(&h, uint32(j)), nil, nil))
			}
		}
		if len(m.TxIn) == 0 {
			var h chainhash.Hash
			copy(h[:], fmt.Sprintf("outside-%d-%d-x", seed, i))
			m.AddTxIn(wire.NewTxIn(wire.NewOutPoint(&h, 0), nil, nil))
		}
		nOut := 1 + rng.Intn(3)
		ours := make([]bool, nOut)
		for j := 0; j < nOut; j++ {
			m.AddTxOut(wire.NewTxOut(int64(1000*(1+rng.Intn(50))), []byte{0x51, byte(i), byte(j)}))
			ours[j] = rng.Intn(4) != 0
		}
		rec, err := wtxmgr.NewTxRecordFromMsgTx(m, t0.Add(time.Duration(i)*time.Second))
		if err != nil {
			panic(err)
		}
		if isCB != blockchain.IsCoinBaseTx(&rec.MsgTx) {
			panic("faultops: coinbase construction")
		}
		txs = append(txs, &txInfo{rec: rec, ours: ours, coinbase: isCB})
		for j := 0; j < nOut; j++ {
			if ours[j] {
				ourOuts = append(ourOuts, outRef{i, uint32(j)})
			}
		}
	}
	return append(txs, conflictTriple(seed)...)
}

// conflictTriple: three more transactions appended to every universe WITHOUT consuming the universe rng (the first
// txUniverseSize transactions are what they were): P pays the wallet one output; A and B both spend P:0 (a double
// spend / replacement pair) and each pays the wallet a change output.  The store accepts both as unmined at once,
// so the unmined-inputs record of P:0 then names two spenders, and removing/confirming one of them REWRITES that
// record (the Put branch of deleteRawUnminedInput) instead of deleting it.
const (
	txConflictParent = txUniverseSize
	txConflictA      = txUniverseSize + 1
	txConflictB      = txUniverseSize + 2
)

func conflictTriple(seed int64) []*txInfo {
	mk := func(i int, m *wire.MsgTx, ours []bool) *txInfo {
		rec, err := wtxmgr.NewTxRecordFromMsgTx(m, t0.Add(time.Duration(i)*time.Second))
		if err != nil {
			panic(err)
		}
		return &txInfo{rec: rec, ours: ours}
	}
	outside := func(tag string) *wire.OutPoint {
		var h chainhash.Hash
		copy(h[:], fmt.Sprintf("outside-%d-%s", seed, tag))
		return wire.NewOutPoint(&h, 0)
	}
	p := wire.NewMsgTx(2)
	p.AddTxIn(wire.NewTxIn(outside("cp"), nil, nil))
	p.AddTxOut(wire.NewTxOut(70000, []byte{0x51, byte(txConflictParent), 0}))
	pi := mk(txConflictParent, p, []bool{true})
	a := wire.NewMsgTx(2)
	a.AddTxIn(wire.NewTxIn(wire.NewOutPoint(&pi.rec.Hash, 0), nil, nil))
	a.AddTxOut(wire.NewTxOut(31000, []byte{0x51, byte(txConflictA), 0}))
	b := wire.NewMsgTx(2)
	b.AddTxIn(wire.NewTxIn(wire.NewOutPoint(&pi.rec.Hash, 0), nil, nil))
	b.AddTxIn(wire.NewTxIn(outside("cb"), nil, nil))
	b.AddTxOut(wire.NewTxOut(24000, []byte{0x51, byte(txConflictB), 0}))
	b.AddTxOut(wire.NewTxOut(9000, []byte{0x51, byte(txConflictB), 1}))
	return []*txInfo{pi, mk(txConflictA, a, []bool{true}), mk(txConflictB, b, []bool{true, false})}
}

func (w *txWorld) kind() string { return "tx" }

func (w *txWorld) create(db walletdb.DB) error {
	return walletdb.Update(db, func(tx walletdb.ReadWriteTx) error {
		ns, err := tx.CreateTopLevelBucket(txNS)
		if err != nil {
			return err
		}
		return wtxmgr.Create(ns)
	})
}

func (w *txWorld) open(db walletdb.DB) error {
	w.db = db
	w.txs = newTxUniverse(w.seed)
	return walletdb.View(db, func(tx walletdb.ReadTx) error {
		s, err := wtxmgr.Open(tx.ReadBucket(txNS), &chaincfg.SimNetParams)
		if err != nil {
			return err
		}
		s.VerifSetClock(clock.NewTestClock(t0))
		w.store = s
		w.top = 0
		for _, t := range w.txs {
			d, err := s.TxDetails(tx.ReadBucket(txNS), &t.rec.Hash)
			if err == nil && d != nil && d.Block.Height > w.top {
				w.top = d.Block.Height
			}
		}
		return nil
	})
}

func (w *txWorld) close() {}

func (w *txWorld) memRoots() []interface{} { return nil } // wtxmgr.Store keeps no mutable state in memory

func (w *txWorld) setExtra(string) {}

func (w *txWorld) update(f func(ns walletdb.ReadWriteBucket) error) error {
	return walletdb.Update(w.db, func(tx walletdb.ReadWriteTx) error {
		err := f(tx.ReadWriteBucket(txNS))
		if w.afterOp != nil {
			w.afterOp() // still inside the transaction, before commit / rollback
		}
		if err == nil && w.failAfter {
			// "a later write of the same wallet-level operation fails": the transaction is rolled back
			// although this manager operation returned nil
			return faultdb.ErrInjected
		}
		return err
	})
}

func (w *txWorld) view(f func(ns walletdb.ReadBucket) error) error {
	return walletdb.View(w.db, func(tx walletdb.ReadTx) error {
		return f(tx.ReadBucket(txNS))
	})
}

// blockOf returns the block the store currently records for tx i (nil: unmined or unknown), and presence.
func (w *txWorld) blockOf(i int) (*wtxmgr.BlockMeta, bool) {
	var bm *wtxmgr.BlockMeta
	present := false
	_ = w.view(func(ns walletdb.ReadBucket) error {
		d, err := w.store.TxDetails(ns, &w.txs[i].rec.Hash)
		if err == nil && d != nil {
			present = true
			if d.Block.Height >= 0 {
				b := d.Block
				bm = &b
			}
		}
		return nil
	})
	return bm, present
}

func indexOf(l []*txInfo, t *txInfo) int {
	for i, x := range l {
		if x == t {
			return i
		}
	}
	return -1
}

func lockID(n int) wtxmgr.LockID {
	var id wtxmgr.LockID
	id[0] = byte(n)
	id[1] = 0xC1
	return id
}

// ---- history

func (w *txWorld) buildHistory(rng *rand.Rand, n int) {
	if n > 0 && w.seed%2 == 0 {
		// every second non-empty history starts as a mining wallet: the first coinbase of the universe is recorded
		// in block 1 with all its wallet credits (the random steps below may spend, confirm on top of, or detach it)
		for _, t := range w.txs {
			if !t.coinbase {
				continue
			}
			bm := blockMeta(1)
			w.top = 1
			_ = w.update(func(ns walletdb.ReadWriteBucket) error {
				if err := w.store.InsertTx(ns, t.rec, bm); err != nil {
					return err
				}
				credited := false
				for j, o := range t.ours {
					if o || (j == len(t.ours)-1 && !credited) {
						credited = true
						if err := w.store.AddCredit(ns, t.rec, bm, uint32(j), false); err != nil {
							return err
						}
					}
				}
				return nil
			})
			break
		}
	}
	if n > 0 {
		w.leasePrelude()
		w.conflictPrelude()
	}
	for step := 0; step < n; step++ {
		i := rng.Intn(txUniverseSize) // the conflict triple is only touched by its prelude and by targets
		t := w.txs[i]
		switch r := rng.Intn(20); {
		case r < 11: // insert (mined or not) + credits
			var bm *wtxmgr.BlockMeta
			if rng.Intn(3) != 0 || t.coinbase {
				h := w.top + int32(rng.Intn(2))
				if h < 1 {
					h = 1
				}
				if h > w.top {
					w.top = h
				}
				bm = blockMeta(h)
			}
			_ = w.update(func(ns walletdb.ReadWriteBucket) error {
				if err := w.store.InsertTx(ns, t.rec, bm); err != nil {
					return err
				}
				for j, o := range t.ours {
					if o && rng.Intn(5) != 0 {
						if err := w.store.AddCredit(ns, t.rec, bm, uint32(j), j == 1); err != nil {
							return err
						}
					}
				}
				return nil
			})
		case r < 13:
			if w.top > 0 {
				h := 1 + int32(rng.Intn(int(w.top)))
				_ = w.update(func(ns walletdb.ReadWriteBucket) error { return w.store.Rollback(ns, h) })
			}
		case r < 14:
			if _, present := w.blockOf(i); present {
				_ = w.update(func(ns walletdb.ReadWriteBucket) error { return w.store.RemoveUnminedTx(ns, t.rec) })
			}
		case r < 15:
			// lease an output of a recorded transaction that a not yet recorded transaction spends (so that
			// "confirm a spend of a leased output" is among the reachable situations)
			done := false
			for _, sp := range w.txs {
				if _, present := w.blockOf(indexOf(w.txs, sp)); present {
					continue
				}
				for _, in := range sp.rec.MsgTx.TxIn {
					op := in.PreviousOutPoint
					for pi, prev := range w.txs {
						if prev.rec.Hash == op.Hash && !done {
							if _, present := w.blockOf(pi); present {
								_ = w.update(func(ns walletdb.ReadWriteBucket) error {
									_, err := w.store.LockOutput(ns, lockID(0), op, 10*time.Minute)
									return err
								})
								done = true
							}
						}
					}
				}
			}
		case r < 17:
			j := rng.Intn(len(t.ours))
			dur := 10 * time.Minute
			if rng.Intn(3) == 0 {
				dur = 0 // expires at once
			}
			_ = w.update(func(ns walletdb.ReadWriteBucket) error {
				_, err := w.store.LockOutput(ns, lockID(rng.Intn(2)), wire.OutPoint{Hash: t.rec.Hash, Index: uint32(j)}, dur)
				return err
			})
		case r < 18:
			j := rng.Intn(len(t.ours))
			_ = w.update(func(ns walletdb.ReadWriteBucket) error {
				return w.store.UnlockOutput(ns, lockID(rng.Intn(2)), wire.OutPoint{Hash: t.rec.Hash, Index: uint32(j)})
			})
		default:
			_ = w.update(func(ns walletdb.ReadWriteBucket) error {
				return w.store.PutTxLabel(ns, t.rec.Hash, "l"+strconv.Itoa(step))
			})
		}
	}
}

// spendPairs lists (parent, output index, spender) triples of the universe where the parent output is one the
// histories credit to the wallet.
func (w *txWorld) spendPairs() [][3]int {
	var out [][3]int
	for si, sp := range w.txs {
		for _, in := range sp.rec.MsgTx.TxIn {
			op := in.PreviousOutPoint
			for pi, p := range w.txs {
				if p.rec.Hash == op.Hash && int(op.Index) < len(p.ours) && p.ours[op.Index] {
					out = append(out, [3]int{pi, int(op.Index), si})
				}
			}
		}
	}
	return out
}

// leasePrelude: every non-empty history starts with "an output the wallet owns is leased (LockOutput) while the
// transaction spending it is not yet recorded", so that confirming that spender (InsertTx mined: the unlockOutput
// Delete in bucket "lo" among its writes) is a reachable operation in most states.  The parent is a transaction
// already recorded by the mining prelude if it has a spender in the universe, else the first spend pair.
func (w *txWorld) leasePrelude() {
	pairs := w.spendPairs()
	if len(pairs) == 0 {
		return
	}
	pick := pairs[0]
	for _, pr := range pairs {
		if _, present := w.blockOf(pr[0]); present {
			pick = pr
			break
		}
	}
	p := w.txs[pick[0]]
	if _, present := w.blockOf(pick[0]); !present {
		if w.top < 1 {
			w.top = 1
		}
		bm := blockMeta(w.top)
		_ = w.update(func(ns walletdb.ReadWriteBucket) error {
			if err := w.store.InsertTx(ns, p.rec, bm); err != nil {
				return err
			}
			for j, o := range p.ours {
				if o {
					if err := w.store.AddCredit(ns, p.rec, bm, uint32(j), false); err != nil {
						return err
					}
				}
			}
			return nil
		})
	}
	_ = w.update(func(ns walletdb.ReadWriteBucket) error {
		_, err := w.store.LockOutput(ns, lockID(0), wire.OutPoint{Hash: p.rec.Hash, Index: uint32(pick[1])}, 10*time.Minute)
		return err
	})
}

// conflictPrelude: every non-empty history records the conflict triple: P mined (with its credit), then A and B,
// both unconfirmed and both spending P:0, each with its change credit.  The random steps never pick these three
// directly (a Rollback may still detach P's block), so "an outpoint with two unconfirmed spenders" is part of
// almost every reached state.
func (w *txWorld) conflictPrelude() {
	if w.top < 1 {
		w.top = 1
	}
	bm := blockMeta(w.top)
	for _, i := range []int{txConflictParent, txConflictA, txConflictB} {
		t := w.txs[i]
		var b *wtxmgr.BlockMeta
		if i == txConflictParent {
			b = bm
		}
		_ = w.update(func(ns walletdb.ReadWriteBucket) error {
			if err := w.store.InsertTx(ns, t.rec, b); err != nil {
				return err
			}
			for j, o := range t.ours {
				if o {
					if err := w.store.AddCredit(ns, t.rec, b, uint32(j), i != txConflictParent); err != nil {
						return err
					}
				}
			}
			return nil
		})
	}
}

// coSpenders: pairs (i, j), i < j, of universe transactions that are BOTH recorded as unconfirmed right now and
// spend a common outpoint.
func (w *txWorld) coSpenders() [][2]int {
	var unmined []int
	for i := range w.txs {
		if bm, present := w.blockOf(i); present && bm == nil {
			unmined = append(unmined, i)
		}
	}
	var out [][2]int
	for x, i := range unmined {
		for _, j := range unmined[x+1:] {
			shared := false
			for _, a := range w.txs[i].rec.MsgTx.TxIn {
				for _, b := range w.txs[j].rec.MsgTx.TxIn {
					shared = shared || a.PreviousOutPoint == b.PreviousOutPoint
				}
			}
			if shared {
				out = append(out, [2]int{i, j})
			}
		}
	}
	return out
}

// lockedOutpoints: the outpoints ListLockedOutputs reports now.
func (w *txWorld) lockedOutpoints() map[wire.OutPoint]bool {
	m := map[wire.OutPoint]bool{}
	_ = w.view(func(ns walletdb.ReadBucket) error {
		lo, err := w.store.ListLockedOutputs(ns)
		if err == nil {
			for _, o := range lo {
				m[o.Outpoint] = true
			}
		}
		return nil
	})
	return m
}

// ---- targets

// targets enumerates operation descriptors meaningful in the current state.
func (w *txWorld) targets(rng *rand.Rand, tier string) []string {
	var all []string
	for i, t := range w.txs {
		bm, present := w.blockOf(i)
		switch {
		case !present && t.coinbase:
			// a coinbase only exists inside a block
			all = append(all, fmt.Sprintf("InsertTx/t:%d/h:%d", i, w.top+1))
			if w.top > 0 {
				all = append(all, fmt.Sprintf("InsertTx/t:%d/h:%d", i, w.top))
			}
		case !present:
			all = append(all, fmt.Sprintf("InsertTx/t:%d/h:-1", i), fmt.Sprintf("InsertTx/t:%d/h:%d", i, w.top+1))
			if w.top > 0 {
				all = append(all, fmt.Sprintf("InsertTx/t:%d/h:%d", i, w.top))
			}
		case bm == nil:
			all = append(all, fmt.Sprintf("InsertTx/t:%d/h:%d", i, w.top+1), fmt.Sprintf("RemoveUnminedTx/t:%d", i),
				fmt.Sprintf("InsertTx/t:%d/h:-1", i))
		}
		if present {
			for j := range t.ours {
				all = append(all, fmt.Sprintf("AddCredit/t:%d/idx:%d/change:%d", i, j, j%2))
				all = append(all, fmt.Sprintf("LockOutput/t:%d/idx:%d/id:%d/dur:%d", i, j, rng.Intn(2), 600*rng.Intn(2)))
				all = append(all, fmt.Sprintf("UnlockOutput/t:%d/idx:%d/id:%d", i, j, rng.Intn(2)))
			}
			all = append(all, fmt.Sprintf("PutTxLabel/t:%d/label:x%d", i, i))
		}
	}
	for h := int32(1); h <= w.top; h++ {
		all = append(all, fmt.Sprintf("Rollback/h:%d", h))
	}
	all = append(all, "DeleteExpiredLockedOutputs")
	out := pickTargets(rng, all, tier)
	// always: detach the block of a mined coinbase that has wallet credits (the coinbase branch of Store.rollback:
	// credits deleted, not moved to unmined), preferring one with a still unspent credit; at most 2 per state
	forced := 0
	for pass := 0; pass < 2 && forced < 2; pass++ {
		for i, t := range w.txs {
			if !t.coinbase || forced >= 2 {
				continue
			}
			bm, _ := w.blockOf(i)
			if bm == nil {
				continue
			}
			nCred, nUnspent := w.creditsOf(i)
			if nCred == 0 || (pass == 0) != (nUnspent > 0) {
				continue
			}
			d := fmt.Sprintf("Rollback/h:%d", bm.Height)
			dup := false
			for _, x := range out {
				dup = dup || x == d
			}
			if !dup {
				out = append(out, d)
			}
			forced++
		}
	}
	// always: confirm a not yet mined transaction that spends a currently LEASED output (insertMinedTx clears the
	// lease: unlockOutput's Delete is then a write with an effect); at most 2 per state
	locked := w.lockedOutpoints()
	forced = 0
	for i, t := range w.txs {
		if forced >= 2 {
			break
		}
		if bm, _ := w.blockOf(i); bm != nil {
			continue
		}
		spendsLeased := false
		for _, in := range t.rec.MsgTx.TxIn {
			spendsLeased = spendsLeased || locked[in.PreviousOutPoint]
		}
		if !spendsLeased {
			continue
		}
		d := fmt.Sprintf("InsertTx/t:%d/h:%d", i, w.top+1)
		dup := false
		for _, x := range out {
			dup = dup || x == d
		}
		if !dup {
			out = append(out, d)
		}
		forced++
	}
	// always: remove one of two unconfirmed transactions that spend the same outpoint (the spender list of the
	// shared outpoint is rewritten, not deleted: the Put branch of deleteRawUnminedInput), and - in every second
	// state - confirm the other one (deleteUnminedTx rewrites the list, removeDoubleSpends removes the first)
	addForced := func(d string) {
		for _, x := range out {
			if x == d {
				return
			}
		}
		out = append(out, d)
	}
	if cs := w.coSpenders(); len(cs) > 0 {
		pr := cs[len(cs)-1]
		addForced(fmt.Sprintf("RemoveUnminedTx/t:%d", pr[0]))
		if w.seed%2 == 1 {
			addForced(fmt.Sprintf("InsertTx/t:%d/h:%d", pr[1], w.top+1))
		}
	}
	return out
}

// creditsOf: number of wallet credits the store records for tx i, and how many of them are unspent.
func (w *txWorld) creditsOf(i int) (n, unspent int) {
	_ = w.view(func(ns walletdb.ReadBucket) error {
		d, err := w.store.TxDetails(ns, &w.txs[i].rec.Hash)
		if err == nil && d != nil {
			for _, c := range d.Credits {
				n++
				if !c.Spent {
					unspent++
				}
			}
		}
		return nil
	})
	return
}

// pickTargets keeps, in the quick tier, at most 2 random descriptors per operation name.
func pickTargets(rng *rand.Rand, all []string, tier string) []string {
	per := 2
	if tier == "thorough" {
		per = 6
	}
	by := map[string][]string{}
	var names []string
	for _, d := range all {
		n := strings.SplitN(d, "/", 2)[0]
		if _, ok := by[n]; !ok {
			names = append(names, n)
		}
		by[n] = append(by[n], d)
	}
	sort.Strings(names)
	var out []string
	for _, n := range names {
		l := by[n]
		rng.Shuffle(len(l), func(i, j int) { l[i], l[j] = l[j], l[i] })
		if len(l) > per {
			l = l[:per]
		}
		out = append(out, l...)
	}
	return out
}

func descArgs(desc string) (string, map[string]string) {
	parts := strings.Split(desc, "/")
	m := map[string]string{}
	for _, p := range parts[1:] {
		if i := strings.IndexByte(p, ':'); i >= 0 {
			m[p[:i]] = p[i+1:]
		}
	}
	return parts[0], m
}

func atoi(s string) int { n, _ := strconv.Atoi(s); return n }

// runTarget executes the operation inside one walletdb.Update; returns a canonical result string and the error.
func (w *txWorld) runTarget(desc string) (string, error) {
	name, a := descArgs(desc)
	res := ""
	err := w.update(func(ns walletdb.ReadWriteBucket) error {
		switch name {
		case "InsertTx":
			var bm *wtxmgr.BlockMeta
			if h := atoi(a["h"]); h >= 0 {
				bm = blockMeta(int32(h))
			}
			return w.store.InsertTx(ns, w.txs[atoi(a["t"])].rec, bm)
		case "AddCredit":
			i := atoi(a["t"])
			// the block the transaction is recorded in (read through the same transaction)
			var bm *wtxmgr.BlockMeta
			if d, err := w.store.TxDetails(ns, &w.txs[i].rec.Hash); err == nil && d != nil && d.Block.Height >= 0 {
				b := d.Block
				bm = &b
			}
			return w.store.AddCredit(ns, w.txs[i].rec, bm, uint32(atoi(a["idx"])), a["change"] == "1")
		case "Rollback":
			return w.store.Rollback(ns, int32(atoi(a["h"])))
		case "RemoveUnminedTx":
			return w.store.RemoveUnminedTx(ns, w.txs[atoi(a["t"])].rec)
		case "LockOutput":
			exp, err := w.store.LockOutput(ns, lockID(atoi(a["id"])),
				wire.OutPoint{Hash: w.txs[atoi(a["t"])].rec.Hash, Index: uint32(atoi(a["idx"]))},
				time.Duration(atoi(a["dur"]))*time.Second)
			if err == nil {
				res = strconv.FormatInt(exp.Unix(), 10)
			}
			return err
		case "UnlockOutput":
			return w.store.UnlockOutput(ns, lockID(atoi(a["id"])),
				wire.OutPoint{Hash: w.txs[atoi(a["t"])].rec.Hash, Index: uint32(atoi(a["idx"]))})
		case "DeleteExpiredLockedOutputs":
			return w.store.DeleteExpiredLockedOutputs(ns)
		case "PutTxLabel":
			return w.store.PutTxLabel(ns, w.txs[atoi(a["t"])].rec.Hash, a["label"])
		}
		return fmt.Errorf("unknown target %q", name)
	})
	return res, err
}

// ---- observables

func (w *txWorld) observeStore(s *wtxmgr.Store) []string {
	var out []string
	_ = w.view(func(ns walletdb.ReadBucket) error {
		sync := w.top + 2
		for _, mc := range []int32{0, 1, 2, 6} {
			b, err := s.Balance(ns, mc, sync)
			out = append(out, fmt.Sprintf("balance(%d)=%d/%v", mc, int64(b), err != nil))
		}
		// all coinbase credits mature (SimNet maturity 100): immature ones are excluded above
		bm, err := s.Balance(ns, 1, sync+int32(chaincfg.SimNetParams.CoinbaseMaturity)+1)
		out = append(out, fmt.Sprintf("balance(1,mature)=%d/%v", int64(bm), err != nil))
		utx, err := s.UnspentOutputs(ns)
		var l []string
		for _, c := range utx {
			l = append(l, fmt.Sprintf("%s:%d:%d@%d", c.Hash.String()[:8], c.Index, int64(c.Amount), c.Height))
		}
		sort.Strings(l)
		out = append(out, fmt.Sprintf("utxos=%s/%v", strings.Join(l, ","), err != nil))
		// an error of UnspentOutputs / OutputsToWatch (e.g. an unspent-index entry whose transaction is gone) is a
		// difference like any other
		wtx, err := s.OutputsToWatch(ns)
		l = nil
		for _, c := range wtx {
			l = append(l, fmt.Sprintf("%s:%d:%d@%d", c.Hash.String()[:8], c.Index, int64(c.Amount), c.Height))
		}
		sort.Strings(l)
		out = append(out, fmt.Sprintf("watch=%s/%v", strings.Join(l, ","), err != nil))
		hs, err := s.UnminedTxHashes(ns)
		l = nil
		for _, h := range hs {
			l = append(l, h.String()[:8])
		}
		sort.Strings(l)
		out = append(out, fmt.Sprintf("unmined=%s/%v", strings.Join(l, ","), err != nil))
		for i, t := range w.txs {
			d, err := s.TxDetails(ns, &t.rec.Hash)
			if err != nil {
				out = append(out, fmt.Sprintf("tx%d=err", i))
				continue
			}
			if d == nil {
				out = append(out, fmt.Sprintf("tx%d=absent", i))
				continue
			}
			var cs, ds []string
			for _, c := range d.Credits {
				cs = append(cs, fmt.Sprintf("%d:%d:%v:%v", c.Index, int64(c.Amount), c.Spent, c.Change))
			}
			for _, c := range d.Debits {
				ds = append(ds, fmt.Sprintf("%d:%d", c.Index, int64(c.Amount)))
			}
			out = append(out, fmt.Sprintf("tx%d=h%d credits[%s] debits[%s] label=%q", i, d.Block.Height,
				strings.Join(cs, ","), strings.Join(ds, ","), d.Label))
		}
		// the per-block transaction lists (block records are what Rollback and RangeTransactions walk)
		var blocks []string
		err = s.RangeTransactions(ns, 0, -1, func(ds []wtxmgr.TxDetails) (bool, error) {
			if len(ds) == 0 {
				return false, nil
			}
			var hs []string
			for _, d := range ds {
				hs = append(hs, d.Hash.String()[:8])
			}
			sort.Strings(hs)
			blocks = append(blocks, fmt.Sprintf("%d:%s", ds[0].Block.Height, strings.Join(hs, "+")))
			return false, nil
		})
		out = append(out, fmt.Sprintf("range=%s/%v", strings.Join(blocks, " "), err != nil))
		lo, err := s.ListLockedOutputs(ns)
		l = nil
		for _, o := range lo {
			l = append(l, fmt.Sprintf("%s:%d:%x:%d", o.Outpoint.Hash.String()[:8], o.Outpoint.Index, o.LockID[:2], o.Expiration.Unix()))
		}
		sort.Strings(l)
		out = append(out, fmt.Sprintf("locked=%s/%v", strings.Join(l, ","), err != nil))
		return nil
	})
	return out
}

func (w *txWorld) observeRunning() []string { return w.observeStore(w.store) }

// followUp continues the history after the target operation, fault-free, and reports what the queries answer on
// the way: the unconfirmed transactions are removed one by one, leaves first (a transaction no other remaining
// unconfirmed transaction spends from; ties by hash), with Balance / UnspentOutputs / UnminedTxHashes after every
// removal.  A change the operation silently lost that no query shows yet (e.g. a stale spender list in the
// unmined-inputs bucket) becomes visible here: the output it names never gets unspent again.
// Run on the fault-free twin and on a faulted world whose operation reported success; mutates the world.
func (w *txWorld) followUp() []string {
	var out []string
	for step := 0; step < 32; step++ {
		var txs []*wire.MsgTx
		if err := w.view(func(ns walletdb.ReadBucket) error {
			var err error
			txs, err = w.store.UnminedTxs(ns)
			return err
		}); err != nil {
			return append(out, fmt.Sprintf("followup.step(%d).unminedtxs=err", step))
		}
		if len(txs) == 0 {
			break
		}
		hashes := make([]chainhash.Hash, len(txs))
		for i, m := range txs {
			hashes[i] = m.TxHash()
		}
		var leaf *wire.MsgTx
		var leafHash chainhash.Hash
		for i, m := range txs {
			spent := false
			for j, o := range txs {
				if i == j {
					continue
				}
				for _, in := range o.TxIn {
					spent = spent || in.PreviousOutPoint.Hash == hashes[i]
				}
			}
			if !spent && (leaf == nil || hashes[i].String() < leafHash.String()) {
				leaf, leafHash = m, hashes[i]
			}
		}
		if leaf == nil {
			leaf, leafHash = txs[0], hashes[0]
		}
		rec, err := wtxmgr.NewTxRecordFromMsgTx(leaf, t0)
		if err != nil {
			return append(out, fmt.Sprintf("followup.step(%d).record=err", step))
		}
		tag := fmt.Sprintf("followup.rm(%d:%s)", step, leafHash.String()[:8])
		err = w.update(func(ns walletdb.ReadWriteBucket) error { return w.store.RemoveUnminedTx(ns, rec) })
		out = append(out, fmt.Sprintf("%s.removed=%v", tag, err == nil))
		if err != nil {
			break
		}
		_ = w.view(func(ns walletdb.ReadBucket) error {
			for _, mc := range []int32{0, 1} {
				b, err := w.store.Balance(ns, mc, w.top+2)
				out = append(out, fmt.Sprintf("%s.balance(%d)=%d/%v", tag, mc, int64(b), err != nil))
			}
			utx, err := w.store.UnspentOutputs(ns)
			var l []string
			for _, c := range utx {
				l = append(l, fmt.Sprintf("%s:%d:%d@%d", c.Hash.String()[:8], c.Index, int64(c.Amount), c.Height))
			}
			sort.Strings(l)
			out = append(out, fmt.Sprintf("%s.utxos=%s/%v", tag, strings.Join(l, ","), err != nil))
			hs, err := w.store.UnminedTxHashes(ns)
			l = nil
			for _, h := range hs {
				l = append(l, h.String()[:8])
			}
			sort.Strings(l)
			out = append(out, fmt.Sprintf("%s.unmined=%s/%v", tag, strings.Join(l, ","), err != nil))
			return nil
		})
	}
	return out
}

func (w *txWorld) observeFresh() []string {
	var s *wtxmgr.Store
	err := w.view(func(ns walletdb.ReadBucket) error {
		var err error
		s, err = wtxmgr.Open(ns, &chaincfg.SimNetParams)
		return err
	})
	if err != nil {
		return []string{"open=err"}
	}
	s.VerifSetClock(clock.NewTestClock(t0))
	return w.observeStore(s)
}

func (w *txWorld) finalProbe() []string { return nil }

// dump: canonical hash of the whole namespace (all nested buckets, keys, values).
func dumpBucket(b walletdb.ReadBucket, h interface{ Write([]byte) (int, error) }) {
	_ = b.ForEach(func(k, v []byte) error {
		h.Write([]byte{byte(len(k))})
		h.Write(k)
		if v == nil {
			h.Write([]byte("B{"))
			if nb := b.NestedReadBucket(k); nb != nil {
				dumpBucket(nb, h)
			}
			h.Write([]byte("}"))
		} else {
			h.Write([]byte("V"))
			h.Write(v)
		}
		return nil
	})
}

func dumpDB(db walletdb.DB, nsKey []byte) string {
	h := sha256.New()
	_ = walletdb.View(db, func(tx walletdb.ReadTx) error {
		if b := tx.ReadBucket(nsKey); b != nil {
			dumpBucket(b, h)
		}
		return nil
	})
	return hex.EncodeToString(h.Sum(nil)[:8])
}

func (w *txWorld) dump() string { return dumpDB(w.db, txNS) }
