package walletrestart

import (
	"errors"
	"io"
	"sync"

	"github.com/btcsuite/btcwallet/walletdb"
)

// failDB decorates the wallet's walletdb.DB: when armed, the NEXT read-write transaction whose closure succeeded is
// rolled back at Commit time and Commit returns an error (a failed commit: disk full, I/O error).  The transaction
// handed to the closure is the real bdb transaction, so OnCommit closures registered on it are - as with a real
// failed commit - never run.
type failDB struct {
	inner walletdb.DB
	mu    sync.Mutex
	armed bool
	fired bool
	hook  func() // when set: called before every Put of a read-write transaction started through Update (see race.go)
}

var errCommit = errors.New("verif: injected commit failure")

var _ walletdb.DB = (*failDB)(nil)

func (d *failDB) arm(on bool) {
	d.mu.Lock()
	d.armed, d.fired = on, false
	d.mu.Unlock()
}

func (d *failDB) take() bool {
	d.mu.Lock()
	defer d.mu.Unlock()
	if d.armed {
		d.armed, d.fired = false, true
		return true
	}
	return false
}

func (d *failDB) didFire() bool {
	d.mu.Lock()
	defer d.mu.Unlock()
	return d.fired
}

func (d *failDB) BeginReadTx() (walletdb.ReadTx, error) { return d.inner.BeginReadTx() }
func (d *failDB) BeginReadWriteTx() (walletdb.ReadWriteTx, error) {
	tx, err := d.inner.BeginReadWriteTx()
	if err != nil {
		return nil, err
	}
	return &failTx{ReadWriteTx: tx, d: d}, nil
}
func (d *failDB) Copy(w io.Writer) error { return d.inner.Copy(w) }
func (d *failDB) Close() error           { return d.inner.Close() }
func (d *failDB) PrintStats() string     { return d.inner.PrintStats() }
func (d *failDB) View(f func(tx walletdb.ReadTx) error, reset func()) error {
	return d.inner.View(f, reset)
}
func (d *failDB) Batch(f func(tx walletdb.ReadWriteTx) error) error {
	return d.Update(f, func() {})
}

// Update mirrors walletdb/bdb (*db).Update; only Commit is decorated.
func (d *failDB) Update(f func(tx walletdb.ReadWriteTx) error, reset func()) error {
	reset()
	tx, err := d.inner.BeginReadWriteTx()
	if err != nil {
		return err
	}
	finished := false
	defer func() {
		if !finished {
			_ = tx.Rollback()
		}
	}()
	d.mu.Lock()
	hook := d.hook
	d.mu.Unlock()
	if hook != nil {
		err = f(&hookTx{ReadWriteTx: tx, hook: hook})
	} else {
		err = f(tx)
	}
	finished = true
	if err != nil {
		_ = tx.Rollback()
		return err
	}
	if d.take() {
		_ = tx.Rollback()
		return errCommit
	}
	return tx.Commit()
}

type failTx struct {
	walletdb.ReadWriteTx
	d *failDB
}

func (t *failTx) Commit() error {
	if t.d.take() {
		_ = t.ReadWriteTx.Rollback()
		return errCommit
	}
	return t.ReadWriteTx.Commit()
}

func (d *failDB) setHook(h func()) {
	d.mu.Lock()
	d.hook = h
	d.mu.Unlock()
}

// hookTx / hookBucket: a transparent view of the real bdb transaction that calls `hook` before every Put (the real
// transaction does the work; OnCommit, cursors, sequences are the real ones).
type hookTx struct {
	walletdb.ReadWriteTx
	hook func()
}

func (t *hookTx) ReadWriteBucket(key []byte) walletdb.ReadWriteBucket {
	b := t.ReadWriteTx.ReadWriteBucket(key)
	if b == nil {
		return nil
	}
	return &hookBucket{ReadWriteBucket: b, hook: t.hook}
}

type hookBucket struct {
	walletdb.ReadWriteBucket
	hook func()
}

func (b *hookBucket) wrap(n walletdb.ReadWriteBucket) walletdb.ReadWriteBucket {
	if n == nil {
		return nil
	}
	return &hookBucket{ReadWriteBucket: n, hook: b.hook}
}

func (b *hookBucket) NestedReadWriteBucket(key []byte) walletdb.ReadWriteBucket {
	return b.wrap(b.ReadWriteBucket.NestedReadWriteBucket(key))
}

func (b *hookBucket) NestedReadBucket(key []byte) walletdb.ReadBucket {
	n := b.ReadWriteBucket.NestedReadWriteBucket(key)
	if n == nil {
		return nil
	}
	return &hookBucket{ReadWriteBucket: n, hook: b.hook}
}

func (b *hookBucket) CreateBucket(key []byte) (walletdb.ReadWriteBucket, error) {
	n, err := b.ReadWriteBucket.CreateBucket(key)
	if err != nil {
		return nil, err
	}
	return b.wrap(n), nil
}

func (b *hookBucket) CreateBucketIfNotExists(key []byte) (walletdb.ReadWriteBucket, error) {
	n, err := b.ReadWriteBucket.CreateBucketIfNotExists(key)
	if err != nil {
		return nil, err
	}
	return b.wrap(n), nil
}

func (b *hookBucket) Put(key, value []byte) error {
	b.hook()
	return b.ReadWriteBucket.Put(key, value)
}
