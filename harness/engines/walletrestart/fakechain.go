package walletrestart

import (
	"errors"
	"sync"
	"time"

	"github.com/btcsuite/btcd/btcjson"
	"github.com/btcsuite/btcd/btcutil"
	"github.com/btcsuite/btcd/chaincfg/chainhash"
	"github.com/btcsuite/btcd/wire"
	"github.com/btcsuite/btcwallet/chain"
	"github.com/btcsuite/btcwallet/waddrmgr"
)

// fakeChain: the smallest chain.Interface the wallet methods of this engine need (chain client presence,
// BlockStamp, NotifyReceived).  It never delivers a notification, so the wallet's sync goroutines stay idle.
// (copied from engines/addrissue and extended by a scripted NotifyReceived failure)
type fakeChain struct {
	mu         sync.Mutex
	ntfn       chan interface{}
	notifyFail bool
}

func newFakeChain() *fakeChain { return &fakeChain{ntfn: make(chan interface{})} }

var errFake = errors.New("fakechain: not supported")

func (f *fakeChain) setNotifyFail(b bool) { f.mu.Lock(); f.notifyFail = b; f.mu.Unlock() }

func (f *fakeChain) Start() error     { return nil }
func (f *fakeChain) Stop()            {}
func (f *fakeChain) WaitForShutdown() {}
func (f *fakeChain) GetBestBlock() (*chainhash.Hash, int32, error) {
	return &chainhash.Hash{10}, 10, nil
}
func (f *fakeChain) GetBlock(*chainhash.Hash) (*wire.MsgBlock, error)          { return nil, errFake }
func (f *fakeChain) GetBlockHash(int64) (*chainhash.Hash, error)               { return nil, errFake }
func (f *fakeChain) GetBlockHeader(*chainhash.Hash) (*wire.BlockHeader, error) { return nil, errFake }
func (f *fakeChain) IsCurrent() bool                                           { return true }
func (f *fakeChain) FilterBlocks(*chain.FilterBlocksRequest) (*chain.FilterBlocksResponse, error) {
	return nil, errFake
}
func (f *fakeChain) BlockStamp() (*waddrmgr.BlockStamp, error) {
	return &waddrmgr.BlockStamp{Height: 10, Hash: chainhash.Hash{10}, Timestamp: time.Unix(1600001000, 0)}, nil
}
func (f *fakeChain) SendRawTransaction(*wire.MsgTx, bool) (*chainhash.Hash, error) {
	return nil, errFake
}
func (f *fakeChain) Rescan(*chainhash.Hash, []btcutil.Address, map[wire.OutPoint]btcutil.Address) error {
	return nil
}
func (f *fakeChain) NotifyReceived([]btcutil.Address) error {
	f.mu.Lock()
	defer f.mu.Unlock()
	if f.notifyFail {
		return errors.New("fakechain: notification subscription failed")
	}
	return nil
}
func (f *fakeChain) NotifyBlocks() error               { return nil }
func (f *fakeChain) Notifications() <-chan interface{} { return f.ntfn }
func (f *fakeChain) BackEnd() string                   { return "fake" }
func (f *fakeChain) TestMempoolAccept([]*wire.MsgTx, float64) ([]*btcjson.TestMempoolAcceptResult, error) {
	return nil, errFake
}
func (f *fakeChain) MapRPCErr(err error) error { return err }
