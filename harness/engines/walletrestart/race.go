package walletrestart

import (
	"fmt"
	"os"
	"runtime"
	"strings"
	"time"

	"github.com/btcsuite/btcd/btcutil"
)

// raceCtl steers ONE concurrent `Wallet.AddressInfo(addr)` into the window of a running `Wallet.ImportAccountDryRun`
// (op `importdry ... race=1 ra=<designator>`): the lookup by another goroutine, in its own read transaction, of an
// address of the same key scope while the dry run's database transaction is open and the would-be account is cached.
//
// Steering (no verdict depends on it - on the unchanged tree every interleaving ends in the same state, and the reply
// of the op is the dry run's reply alone).  Every section of the dry run (NewAccountWatchingOnly, AccountProperties,
// NextExternalAddresses, NextInternalAddresses, InvalidateAccountCache) holds the scoped manager's write lock and the
// sections follow each other within nanoseconds, so the reader only gets in through sync.Mutex's starvation hand-off:
//   - the dry run is paused at its first Put under NewAccountWatchingOnly; the reader is started and observed parked in
//     `sync.RWMutex.RLock` (goroutine dump); the dry run goes on: the reader's read lock is granted when the section
//     unlocks, it misses the address cache, releases the read lock and queues for the write lock;
//   - the dry run is paused at its first Put under NextExternalAddresses until the reader is observed parked in
//     `sync.Mutex.Lock` / `sync.RWMutex.Lock` and 3 ms more (starvation threshold 1 ms);
//   - the unlock of NextExternalAddresses wakes the reader, which finds the lock taken again by NextInternalAddresses,
//     turns the mutex to starvation mode and parks (the dry run is paused 2 ms at its first Put under
//     NextInternalAddresses to let it); the unlock of NextInternalAddresses hands the lock to the reader: its
//     `loadAndCacheAddress` runs between the dry run's address derivations and its deferred `InvalidateAccountCache`.
//
// Time limits are backstops (30 s, then the dry run simply goes on; after 3 expiries per process 200 ms).
type raceCtl struct {
	w       func(btcutil.Address) error
	addr    btcutil.Address
	stage   int
	started bool
	done    chan error
}

var raceExpiries int

func raceLimit() time.Duration {
	if raceExpiries >= 3 {
		return 200 * time.Millisecond
	}
	return 30 * time.Second
}

// raceLookup is the reader goroutine's body (its name is what waitReader looks for in the goroutine dump).
func (rc *raceCtl) raceLookup() {
	err := rc.w(rc.addr)
	if os.Getenv("VX_DEBUG") != "" {
		fmt.Fprintf(os.Stderr, "race: lookup finished (%v) at %v\n", err, time.Now().Format("05.000000"))
	}
	rc.done <- err
}

func (rc *raceCtl) start() {
	rc.started = true
	rc.done = make(chan error, 1)
	go rc.raceLookup()
}

// waitReader polls the goroutine dump until the reader goroutine is parked in one of the given wait states.
func (rc *raceCtl) waitReader(states ...string) bool {
	deadline := time.Now().Add(raceLimit())
	buf := make([]byte, 1<<20)
	for {
		n := runtime.Stack(buf, true)
		for _, g := range strings.Split(string(buf[:n]), "\n\n") {
			if !strings.Contains(g, "(*raceCtl).raceLookup") {
				continue
			}
			head := g
			if i := strings.IndexByte(g, '\n'); i >= 0 {
				head = g[:i]
			}
			for _, st := range states {
				if strings.Contains(head, "["+st) {
					return true
				}
			}
		}
		if len(rc.done) > 0 {
			return false // the lookup already finished
		}
		if time.Now().After(deadline) {
			raceExpiries++
			return false
		}
		time.Sleep(100 * time.Microsecond)
	}
}

func onStack(names ...string) map[string]bool {
	pcs := make([]uintptr, 64)
	n := runtime.Callers(2, pcs)
	fr := runtime.CallersFrames(pcs[:n])
	found := map[string]bool{}
	for {
		f, more := fr.Next()
		for _, nm := range names {
			if strings.HasSuffix(f.Function, nm) {
				found[nm] = true
			}
		}
		if !more {
			break
		}
	}
	return found
}

// onPut runs in the dry run's goroutine before every Put of its transaction.
func (rc *raceCtl) onPut() {
	if rc.stage >= 3 {
		return
	}
	on := onStack(".ImportAccountDryRun.func1", ".NewAccountWatchingOnly", ".NextExternalAddresses", ".NextInternalAddresses")
	if !on[".ImportAccountDryRun.func1"] {
		return
	}
	dbg := os.Getenv("VX_DEBUG") != ""
	switch {
	case rc.stage == 0 && (on[".NewAccountWatchingOnly"] || on[".NextExternalAddresses"] || on[".NextInternalAddresses"]):
		// the section holds the scoped manager's write lock: the reader parks in RLock; its read lock is granted when
		// the section unlocks, it misses the address cache and queues for the write lock
		rc.stage = 1
		rc.start()
		ok := rc.waitReader("sync.RWMutex.RLock")
		if dbg {
			fmt.Fprintf(os.Stderr, "race: stage 0 reader parked in RLock=%v\n", ok)
		}
	case rc.stage == 1 && on[".NextExternalAddresses"]:
		// let the reader's wait for the write lock exceed the mutex's starvation threshold (1 ms)
		rc.stage = 2
		ok := rc.waitReader("sync.Mutex.Lock", "sync.RWMutex.Lock")
		if ok {
			time.Sleep(3 * time.Millisecond)
		}
		if dbg {
			fmt.Fprintf(os.Stderr, "race: stage 1 reader parked on the write lock=%v\n", ok)
		}
	case rc.stage == 2 && on[".NextInternalAddresses"]:
		// the unlock of NextExternalAddresses woke the reader; give it time to find the lock taken again, switch the
		// mutex to starvation mode and park: the unlock of NextInternalAddresses then hands the lock to it
		rc.stage = 3
		if rc.waitReader("sync.Mutex.Lock", "sync.RWMutex.Lock") {
			time.Sleep(2 * time.Millisecond)
		}
	}
}

// finish: the lookup's result (run now if the dry run never reached a pause point)
func (rc *raceCtl) finish() error {
	if os.Getenv("VX_DEBUG") != "" {
		fmt.Fprintf(os.Stderr, "race: dry run returned at %v\n", time.Now().Format("05.000000"))
	}
	if !rc.started {
		return rc.w(rc.addr)
	}
	return <-rc.done
}
