package walletrestart

import (
	"math/rand"

	"verifharness/core"
)

func (engine) Generate(rng *rand.Rand, tier string) []core.Case {
	return []core.Case{{Ops: []string{"reset", "newaddr sc=wpkh a=0", "cmp"}}}
}
