package walletrestart

import (
	"fmt"
	"math/rand"
	"sync"

	"verifharness/core"
)

// shadow: what the generator remembers about the case so far, only to make most requests meaningful (existing
// accounts, fresh names, funded accounts, xpubs not yet imported into the scope).  Never used as an oracle.
type shadow struct {
	rng      *rand.Rand
	ops      []string
	last     [3]int
	nameUsed map[int]bool   // names ever given to a committed account (any scope; conservative)
	keyUsed  [3]map[int]bool // xpub really imported into the scope
	dryKey   [3]map[int]bool // xpub dry-run-imported into the scope (may be imported for real afterwards)
	funded   map[[2]int]bool
	coins    int
	locked   bool
	full     bool // cmp after every request
	ended    bool // no further requests (the case ran into a known finding whose consequences are open-ended)
	priv     int  // private / public passphrase the generator believes current (only to aim the requests)
	pub      int
	tags     map[string]bool
}

func newShadow(rng *rand.Rand, full bool) *shadow {
	s := &shadow{rng: rng, nameUsed: map[int]bool{1: true}, funded: map[[2]int]bool{}, full: full, tags: map[string]bool{}}
	for i := range s.keyUsed {
		s.keyUsed[i] = map[int]bool{}
		s.dryKey[i] = map[int]bool{}
	}
	s.ops = []string{resetOp()}
	return s
}

// probePubFix runs, once per process, the failing combined passphrase change (public half right, private half wrong)
// on a throw-away wallet and asks whether the running wallet still accepts the OLD public passphrase: false on a tree
// where the handler leaves the new public master key in memory after the rollback (the unchanged tree), true with
// repo-patches/fix-C05-changepassphrases-public-half-rollback.diff.  Only selects the model variant (`reset pf=1`).
var (
	pubFixOnce sync.Once
	pubFix     bool
)

func probePubFix() bool {
	pubFixOnce.Do(func() {
		r := &runner{}
		defer r.Close()
		if err := r.reset(); err != nil {
			return
		}
		if err := r.w.ChangePassphrases(pubPassOf(0), pubPassOf(1), privPassOf(3), privPassOf(2)); err == nil {
			return
		}
		pubFix = r.w.ChangePublicPassphrase(pubPassOf(0), pubPassOf(0)) == nil
	})
	return pubFix
}

func resetOp() string {
	if probePubFix() {
		return "reset pf=1"
	}
	return "reset"
}

func (s *shadow) add(op string) {
	s.ops = append(s.ops, op)
	if s.full || s.rng.Intn(10) < 3 {
		s.ops = append(s.ops, "cmp")
	}
}

// addThenCmp: requests whose commit fails are always followed by a comparison with a restarted wallet
func (s *shadow) addThenCmp(op string) {
	s.ops = append(s.ops, op, "cmp")
}

func (s *shadow) sc() int { return []int{1, 1, 1, 0, 2}[s.rng.Intn(5)] }

func (s *shadow) acct(sc int) int {
	if s.rng.Intn(12) == 0 {
		return s.last[sc] + 1 + s.rng.Intn(2) // unknown account
	}
	return s.rng.Intn(s.last[sc] + 1)
}

func (s *shadow) freshName() int {
	for n := 2; n <= maxNames; n++ {
		if !s.nameUsed[n] {
			return n
		}
	}
	return 2 + s.rng.Intn(maxNames-1)
}

func (s *shadow) name() int {
	switch k := s.rng.Intn(20); {
	case k == 0:
		return 0 // empty name
	case k <= 2:
		return 1 + s.rng.Intn(maxNames) // possibly taken
	}
	return s.freshName()
}

// key picks an xpub that is not yet imported into the scope (an xpub imported twice into one scope makes two
// accounts share every address - outside C08); "bad" sometimes.
func (s *shadow) key(sc int, preferDry bool) string {
	if s.rng.Intn(16) == 0 {
		return "bad"
	}
	if preferDry {
		for k := 1; k <= nImportKeys; k++ {
			if s.dryKey[sc][k] && !s.keyUsed[sc][k] {
				return fmt.Sprint(k)
			}
		}
	}
	var free []int
	for k := 1; k <= nImportKeys; k++ {
		if !s.keyUsed[sc][k] {
			free = append(free, k)
		}
	}
	if len(free) == 0 {
		return ""
	}
	return fmt.Sprint(free[s.rng.Intn(len(free))])
}

func (s *shadow) fund(sc, a int) {
	s.add(fmt.Sprintf("fund sc=%s a=%d", scopes[sc].name, a))
	if a <= s.last[sc] {
		s.funded[[2]int{sc, a}] = true
		s.coins++
	}
}

func (s *shadow) importReal(sc int, name int, key string) {
	s.add(fmt.Sprintf("import sc=%s name=%d key=%s", scopes[sc].name, name, key))
	if key != "bad" && name != 0 && !s.nameUsed[name] {
		var k int
		fmt.Sscan(key, &k)
		s.keyUsed[sc][k] = true
		s.nameUsed[name] = true
		s.last[sc]++
		s.tags["import"] = true
	}
}

func (s *shadow) importDry(sc int, name int, key string, n string) {
	s.add(fmt.Sprintf("importdry sc=%s name=%d key=%s n=%s", scopes[sc].name, name, key, n))
	if key != "bad" {
		var k int
		fmt.Sscan(key, &k)
		s.dryKey[sc][k] = true
	}
	if n == "big" {
		s.tags["importdry-fail"] = true
	} else {
		s.tags["importdry"] = true
	}
}

func (s *shadow) createTx(sc, a int, dry bool, amt string, nf bool) {
	b := func(x bool) int {
		if x {
			return 1
		}
		return 0
	}
	s.add(fmt.Sprintf("createtx sc=%s a=%d dry=%d amt=%s nf=%d", scopes[sc].name, a, b(dry), amt, b(nf)))
	if dry {
		s.tags["createtx-dry"] = true
	} else {
		s.tags["createtx"] = true
	}
}

func (s *shadow) fundedAcct() (int, int, bool) {
	var l [][2]int
	for sc := range scopes {
		for a := 0; a <= s.last[sc]; a++ {
			if s.funded[[2]int{sc, a}] {
				l = append(l, [2]int{sc, a})
			}
		}
	}
	if len(l) == 0 {
		return 0, 0, false
	}
	p := l[s.rng.Intn(len(l))]
	return p[0], p[1], true
}

func (s *shadow) randomOp() {
	rng := s.rng
	sc := s.sc()
	switch k := rng.Intn(105); {
	case k < 10:
		if rng.Intn(5) == 0 {
			s.addThenCmp(fmt.Sprintf("newaddr sc=%s a=%d cf=1", scopes[sc].name, s.acct(sc)))
			s.tags["commit-failed"] = true
			return
		}
		s.add(fmt.Sprintf("newaddr sc=%s a=%d", scopes[sc].name, s.acct(sc)))
	case k < 18:
		if rng.Intn(5) == 0 {
			s.addThenCmp(fmt.Sprintf("newchange sc=%s a=%d cf=1", scopes[sc].name, s.acct(sc)))
			s.tags["commit-failed"] = true
			return
		}
		s.add(fmt.Sprintf("newchange sc=%s a=%d", scopes[sc].name, s.acct(sc)))
	case k < 24:
		s.add(fmt.Sprintf("curaddr sc=%s a=%d", scopes[sc].name, s.acct(sc)))
	case k < 32:
		s.fund(sc, s.acct(sc))
	case k < 52:
		fsc, fa, ok := s.fundedAcct()
		if !ok || rng.Intn(8) == 0 {
			fsc, fa = sc, s.acct(sc)
		}
		dry := rng.Intn(5) < 3
		amt := "small"
		if rng.Intn(7) == 0 {
			amt = "huge"
		}
		if !dry && amt == "small" && rng.Intn(5) == 0 {
			s.addThenCmp(fmt.Sprintf("createtx sc=%s a=%d dry=0 amt=small nf=0 cf=1", scopes[fsc].name, fa))
			s.tags["commit-failed"] = true
			return
		}
		s.createTx(fsc, fa, dry, amt, !dry && rng.Intn(6) == 0)
	case k < 58:
		fsc, fa, ok := s.fundedAcct()
		if !ok {
			fsc, fa = sc, s.acct(sc)
		}
		coin := "-"
		if rng.Intn(2) == 0 {
			coin = fmt.Sprint(rng.Intn(s.coins + 1))
		}
		s.add(fmt.Sprintf("fundpsbt sc=%s a=%d coin=%s", scopes[fsc].name, fa, coin))
		s.tags["fundpsbt"] = true
	case k < 72:
		key := s.key(sc, false)
		if key == "" {
			return
		}
		n := fmt.Sprint(rng.Intn(4))
		if rng.Intn(4) == 0 {
			n = "big"
		}
		s.importDry(sc, s.name(), key, n)
	case k < 82:
		key := s.key(sc, true)
		if key == "" {
			return
		}
		s.importReal(sc, s.name(), key)
	case k < 89:
		a := s.acct(sc)
		n := s.name()
		s.add(fmt.Sprintf("rename sc=%s a=%d name=%d", scopes[sc].name, a, n))
		if a <= s.last[sc] && n != 0 && !s.nameUsed[n] {
			s.nameUsed[n] = true
			s.tags["rename"] = true
		}
	case k < 93:
		n := s.name()
		s.add(fmt.Sprintf("newacct sc=%s name=%d", scopes[sc].name, n))
		if !s.locked && n != 0 && !s.nameUsed[n] && s.last[sc]+1 < nOwnKeys-1 {
			s.nameUsed[n] = true
			s.last[sc]++
		}
	case k < 96:
		if s.locked {
			s.add("unlock")
		} else {
			s.add("lock")
		}
		s.locked = !s.locked
		s.tags["lock"] = true
	case k < 97:
		s.add("unlock")
		s.locked = false
	case k < 98:
		s.add("restart")
		s.locked = true
		s.tags["restart"] = true
	default:
		s.passOp()
	}
}

// otherThan: a passphrase id below n different from x
func (s *shadow) otherThan(n, x int) int { return (x + 1 + s.rng.Intn(n-1)) % n }

// passOp: one passphrase request (right / wrong old passphrases), followed by Unlock probes
func (s *shadow) passOp() {
	rng := s.rng
	s.tags["passphrase"] = true
	switch k := rng.Intn(10); {
	case k < 3: // ChangePrivatePassphrase
		old, nw := s.priv, rng.Intn(nPrivPass)
		if rng.Intn(3) == 0 {
			old = s.otherThan(nPrivPass, s.priv)
		}
		s.ops = append(s.ops, fmt.Sprintf("chpriv old=%d new=%d", old, nw))
		if old == s.priv {
			s.priv = nw
		}
		s.probes()
	case k < 4: // ChangePublicPassphrase
		old, nw := s.pub, rng.Intn(nPubPass)
		if rng.Intn(3) == 0 {
			old = s.otherThan(nPubPass, s.pub)
		}
		s.add(fmt.Sprintf("chpub old=%d new=%d", old, nw))
		if old == s.pub {
			s.pub = nw
		}
	case k < 8: // ChangePassphrases: both right / public wrong / private wrong / both wrong
		po, vo := s.pub, s.priv
		pn, vn := rng.Intn(nPubPass), rng.Intn(nPrivPass)
		switch rng.Intn(5) {
		case 0, 1:
			po = s.otherThan(nPubPass, s.pub)
			if vn == s.priv {
				vn = s.otherThan(nPrivPass, s.priv)
			}
		case 2:
			vo = s.otherThan(nPrivPass, s.priv)
		case 3:
			if rng.Intn(2) == 0 {
				po, vo = s.otherThan(nPubPass, s.pub), s.otherThan(nPrivPass, s.priv)
			}
		}
		s.ops = append(s.ops, fmt.Sprintf("chboth pubold=%d pubnew=%d privold=%d privnew=%d", po, pn, vo, vn))
		if po == s.pub && vo == s.priv {
			s.pub, s.priv = pn, vn
		} else if po == s.pub {
			// the unchanged code keeps the NEW public passphrase in memory after the private half failed (reported
			// finding); the generator does not follow it: later public changes then simply hit the error path
		}
		s.probes()
	default:
		s.probes()
	}
}

// probes: Unlock with the current / a previous / a never-set passphrase after a passphrase request
func (s *shadow) probes() {
	rng := s.rng
	if rng.Intn(2) == 0 {
		s.add("passprobe")
		return
	}
	switch k := rng.Intn(6); {
	case k < 2 && !s.locked:
		s.ops = append(s.ops, "lock")
		s.locked = true
	case k == 2:
		s.ops = append(s.ops, "restart")
		s.locked = true
		s.tags["restart"] = true
	}
	for i := 1 + rng.Intn(3); i > 0; i-- {
		id := rng.Intn(nPrivPass)
		s.ops = append(s.ops, fmt.Sprintf("unlock pass=%d", id))
		s.locked = id != s.priv
	}
	if rng.Intn(3) > 0 {
		s.add("unlock")
		s.locked = false
	}
}

func (s *shadow) finish() core.Case {
	if s.ops[len(s.ops)-1] != "cmp" {
		s.ops = append(s.ops, "cmp")
	}
	var tags []string
	for t := range s.tags {
		tags = append(tags, t)
	}
	if s.full {
		tags = append(tags, "cmp-after-every-op")
	}
	return core.Case{Ops: s.ops, Tags: tags}
}

// scenario prefixes: the property's own examples
func (s *shadow) scenario(k int) {
	rng := s.rng
	sc := s.sc()
	switch k {
	case 0: // dry-run transaction creation, then the real one: same change address
		s.fund(sc, 0)
		for i := rng.Intn(3); i >= 0; i-- {
			s.createTx(sc, 0, true, "small", false)
		}
		s.createTx(sc, 0, false, "small", rng.Intn(3) == 0)
		s.add(fmt.Sprintf("newchange sc=%s a=0", scopes[sc].name))
	case 1: // successful dry-run import, then the real import of the same xpub, then addresses
		n := s.freshName()
		key := fmt.Sprint(1 + rng.Intn(nImportKeys))
		s.importDry(sc, n, key, fmt.Sprint(1+rng.Intn(3)))
		s.importReal(sc, n, key)
		s.add(fmt.Sprintf("newaddr sc=%s a=%d", scopes[sc].name, s.last[sc]))
		s.add(fmt.Sprintf("newchange sc=%s a=%d", scopes[sc].name, s.last[sc]))
	case 2: // FAILING dry-run import (too many preview addresses), then a real import of ANOTHER xpub
		k1 := 1 + rng.Intn(nImportKeys)
		k2 := 1 + (k1+rng.Intn(nImportKeys-1))%nImportKeys
		s.importDry(sc, s.freshName(), fmt.Sprint(k1), "big")
		if rng.Intn(3) == 0 {
			s.add("newaddr sc=" + scopes[sc].name + " a=0")
		}
		s.importReal(sc, s.freshName()+rng.Intn(2), fmt.Sprint(k2))
		s.add(fmt.Sprintf("newaddr sc=%s a=%d", scopes[sc].name, s.last[sc]))
	case 3: // imported account: issue, rename, compare
		s.importReal(sc, s.freshName(), fmt.Sprint(1+rng.Intn(nImportKeys)))
		a := s.last[sc]
		if rng.Intn(2) == 0 {
			s.add(fmt.Sprintf("newaddr sc=%s a=%d", scopes[sc].name, a))
		}
		n := s.freshName()
		s.add(fmt.Sprintf("rename sc=%s a=%d name=%d", scopes[sc].name, a, n))
		s.nameUsed[n] = true
		s.tags["rename"] = true
	case 4: // locked wallet: dry-run import and issuing still work; transactions do not
		s.fund(sc, 0)
		s.add("lock")
		s.locked = true
		s.importDry(sc, s.freshName(), fmt.Sprint(1+rng.Intn(nImportKeys)), fmt.Sprint(rng.Intn(3)))
		s.createTx(sc, 0, true, "small", false)
		s.add(fmt.Sprintf("fundpsbt sc=%s a=0 coin=0", scopes[sc].name))
		s.add("unlock")
		s.locked = false
		s.createTx(sc, 0, true, "small", false)
	case 6: // the COMMIT of an address-issuing request fails: indices must not move, the next request re-issues
		s.fund(sc, 0)
		kinds := []string{
			fmt.Sprintf("newaddr sc=%s a=0 cf=1", scopes[sc].name),
			fmt.Sprintf("newchange sc=%s a=0 cf=1", scopes[sc].name),
			fmt.Sprintf("createtx sc=%s a=0 dry=0 amt=small nf=0 cf=1", scopes[sc].name),
		}
		for i := 1 + rng.Intn(3); i > 0; i-- {
			s.addThenCmp(kinds[rng.Intn(len(kinds))])
		}
		s.add(fmt.Sprintf("newaddr sc=%s a=0", scopes[sc].name))
		s.add(fmt.Sprintf("newchange sc=%s a=0", scopes[sc].name))
		s.createTx(sc, 0, false, "small", false)
		s.tags["commit-failed"] = true
	case 7: // the COMMIT of ImportAccount fails (eager mutator: known finding family; the case ends there)
		if rng.Intn(2) == 0 {
			s.add(fmt.Sprintf("newaddr sc=%s a=0", scopes[sc].name))
		}
		s.addThenCmp(fmt.Sprintf("import sc=%s name=%d key=%d cf=1", scopes[sc].name, s.freshName(), 1+rng.Intn(nImportKeys)))
		s.tags["commit-failed-eager"] = true
		s.ended = true
	case 8: // the COMMIT of RenameAccount fails (eager mutator: known finding family; the case ends there)
		a := 0
		if rng.Intn(2) == 0 {
			s.importReal(sc, s.freshName(), fmt.Sprint(1+rng.Intn(nImportKeys)))
			a = s.last[sc]
		}
		s.addThenCmp(fmt.Sprintf("rename sc=%s a=%d name=%d cf=1", scopes[sc].name, a, s.freshName()))
		s.tags["commit-failed-eager"] = true
		s.ended = true
	case 9: // C05: a REFUSED combined change (one half wrong) must leave the private passphrase as it was - at once
		// (locked and unlocked wallet) and after restart
		if rng.Intn(2) == 0 {
			nw := 1 + rng.Intn(nPrivPass-1)
			s.ops = append(s.ops, fmt.Sprintf("chpriv old=0 new=%d", nw))
			s.priv = nw
		}
		if rng.Intn(2) == 0 {
			s.ops = append(s.ops, "lock")
			s.locked = true
		}
		vn := s.otherThan(nPrivPass, s.priv)
		if rng.Intn(4) > 0 {
			// wrong old PUBLIC passphrase, right old private one
			s.ops = append(s.ops, fmt.Sprintf("chboth pubold=%d pubnew=%d privold=%d privnew=%d",
				s.otherThan(nPubPass, s.pub), rng.Intn(nPubPass), s.priv, vn))
		} else {
			// right old public passphrase, wrong old PRIVATE one
			s.ops = append(s.ops, fmt.Sprintf("chboth pubold=%d pubnew=%d privold=%d privnew=%d",
				s.pub, s.pub, s.otherThan(nPrivPass, s.priv), vn))
		}
		s.probes()
		if rng.Intn(2) == 0 {
			s.add(fmt.Sprintf("newaddr sc=%s a=0", scopes[sc].name))
		}
		s.tags["passphrase"] = true
	case 10: // C05: a successful change (single / combined): the new passphrase works, the old one fails
		nw := 1 + rng.Intn(nPrivPass-1)
		if rng.Intn(2) == 0 {
			s.ops = append(s.ops, fmt.Sprintf("chpriv old=0 new=%d", nw))
		} else {
			pn := rng.Intn(nPubPass)
			s.ops = append(s.ops, fmt.Sprintf("chboth pubold=0 pubnew=%d privold=0 privnew=%d", pn, nw))
			s.pub = pn
		}
		s.priv = nw
		s.probes()
		s.ops = append(s.ops, "lock", "unlock pass=0", fmt.Sprintf("unlock pass=%d", nw))
		s.locked = false
		s.createTx(sc, 0, true, "small", false)
		s.tags["passphrase"] = true
	case 11: // C05/C08: dry-run import with a CONCURRENT AddressInfo of an uncached address of another account of the
		// scope while the wallet is locked (after a restart, or after the address was marked used), then Unlock
		name := scopes[sc].name
		if rng.Intn(2) == 0 {
			s.ops = append(s.ops, fmt.Sprintf("newaddr sc=%s a=0", name))
			if rng.Intn(2) == 0 {
				s.ops = append(s.ops, fmt.Sprintf("newchange sc=%s a=0", name))
			}
			s.ops = append(s.ops, "restart")
		} else {
			s.ops = append(s.ops, fmt.Sprintf("fund sc=%s a=0", name), "lock")
			s.funded[[2]int{sc, 0}] = true
			s.coins++
		}
		s.locked = true
		key := 1 + rng.Intn(nImportKeys)
		s.ops = append(s.ops, fmt.Sprintf("importdry sc=%s name=%d key=%d n=%d race=1 ra=100.0.0", name, s.freshName(), key, 1+rng.Intn(3)))
		s.dryKey[sc][key] = true
		s.tags["importdry-race"] = true
		if rng.Intn(3) == 0 {
			s.ops = append(s.ops, "passprobe")
		}
		s.add("unlock")
		s.locked = false
	case 5: // failing dry runs of every kind, then a new own account takes the number
		s.importDry(sc, 1, "1", "1")                       // duplicate name
		s.importDry(sc, s.freshName(), "bad", "1")         // refused xpub
		s.importDry(sc, 0, "2", "1")                       // empty name
		s.importDry(sc, s.freshName(), "3", "big")         // too many addresses
		n := s.freshName()
		s.add(fmt.Sprintf("newacct sc=%s name=%d", scopes[sc].name, n))
		s.nameUsed[n] = true
		s.last[sc]++
		s.add(fmt.Sprintf("newaddr sc=%s a=%d", scopes[sc].name, s.last[sc]))
	}
}

const nScenarios = 12

func (engine) Generate(rng *rand.Rand, tier string) []core.Case {
	nRandom, nScen := 150, 144
	if tier == "thorough" {
		nRandom, nScen = 600, 360
	}
	var cases []core.Case
	for i := 0; i < nScen; i++ {
		s := newShadow(rng, rng.Intn(5) < 2)
		s.scenario(i % nScenarios)
		for j := rng.Intn(6); j > 0 && !s.ended; j-- {
			s.randomOp()
		}
		c := s.finish()
		c.Tags = append(c.Tags, fmt.Sprintf("scenario-%d", i%nScenarios))
		cases = append(cases, c)
	}
	for i := 0; i < nRandom; i++ {
		s := newShadow(rng, rng.Intn(5) < 2)
		if rng.Intn(3) > 0 {
			s.fund(1, 0)
		}
		for j := 6 + rng.Intn(16); j > 0; j-- {
			s.randomOp()
		}
		cases = append(cases, s.finish())
	}
	if tier == "thorough" {
		cases = append(cases, exhaustive()...)
	}
	// malformed stream
	cases = append(cases, core.Case{Tags: []string{"malformed"}, Ops: []string{
		"reset pf=2", "newaddr sc=wpkh a=0", resetOp(), "frobnicate", "newaddr sc=wpkh", "newaddr sc=xx a=0", "newaddr sc=wpkh a=x",
		"createtx sc=wpkh a=0 dry=2 amt=small nf=0", "createtx sc=wpkh a=0 dry=0 amt=mid nf=0", "createtx sc=wpkh a=0 dry=0 amt=small",
		"fundpsbt sc=wpkh a=0 coin=x", "fundpsbt sc=wpkh a=0", "importdry sc=wpkh name=2 key=9 n=1", "importdry sc=wpkh name=2 key=1 n=99",
		"importdry sc=wpkh name=2 key=1", "import sc=wpkh name=x key=1", "import sc=wpkh key=1", "rename sc=wpkh a=0", "rename sc=wpkh name=2",
		"newacct sc=wpkh", "newacct name=3", "newaddr sc=wpkh a=0 cf=2", "cmp cf=x", "newaddr sc=wpkh a=0 cf=0", "cmp",
		"unlock pass=4", "unlock pass=x", "chpriv old=0", "chpriv old=0 new=4", "chpub old=3 new=0", "chpub new=1",
		"chboth pubold=0 pubnew=1 privold=0", "chboth pubold=0 pubnew=3 privold=0 privnew=1", "passprobe", "unlock pass=0",
		"importdry sc=wpkh name=2 key=1 n=1 race=1", "importdry sc=wpkh name=2 key=1 n=1 race=1 ra=100.0", "importdry sc=wpkh name=2 key=1 n=1 race=2 ra=100.0.0",
		"importdry sc=wpkh name=2 key=1 n=1 race=1 ra=5.0.0", "importdry sc=wpkh name=2 key=1 n=1 race=1 ra=100.2.0", "import sc=wpkh name=2 key=1 race=1 ra=100.0.0",
		"importdry sc=wpkh name=2 key=1 n=1 race=1 ra=100.0.24", "importdry sc=wpkh name=2 key=1 n=1 race=0", "restart", "unlock",
	}})
	return cases
}

// exhaustive: every sequence of up to 3 requests over a small alphabet (the property's examples on one scope),
// after one funding request, with a final comparison.
func exhaustive() []core.Case {
	alpha := []string{
		"newaddr sc=wpkh a=0",
		"newaddr sc=wpkh a=0 cf=1",
		"newchange sc=wpkh a=0",
		"createtx sc=wpkh a=0 dry=1 amt=small nf=0",
		"createtx sc=wpkh a=0 dry=0 amt=small nf=0",
		"createtx sc=wpkh a=0 dry=0 amt=small nf=1",
		"importdry sc=wpkh name=2 key=1 n=1",
		"importdry sc=wpkh name=2 key=1 n=big",
		"import sc=wpkh name=3 key=2",
		"import sc=wpkh name=2 key=1",
		"newaddr sc=wpkh a=1",
		"rename sc=wpkh a=1 name=4",
		"cmp",
	}
	var cases []core.Case
	var rec func(prefix []string, depth int)
	rec = func(prefix []string, depth int) {
		if depth > 0 {
			ops := append([]string{resetOp(), "fund sc=wpkh a=0"}, prefix...)
			ops = append(ops, "cmp")
			cases = append(cases, core.Case{Ops: ops, Tags: []string{"exhaustive"}})
		}
		if depth == 3 {
			return
		}
		for _, a := range alpha {
			rec(append(append([]string{}, prefix...), a), depth+1)
		}
	}
	rec(nil, 0)
	return cases
}
