// Package walletrestart: correspondence engine "wallet-restart" for C08 and C05 at the wallet.Wallet level
// (violations are tagged `C08 key=...` / `C05 key=...`; bin/check counts the ones of the property it checks).
//
// One case = one real wallet.Wallet on a real bdb file (fast scrypt, idle fake chain backend).  After EVERY op the
// database file is copied, a SECOND wallet is opened on the copy (wallet.Open) and asked the queries of the property
// (AccountProperties of every account number 0..last+1 in every scope, AccountName, AccountNumber of every name used
// so far, AddressInfo/HaveAddress of every address handed out so far); the same copy then ISSUES the next external and
// internal address of every account (NewAddress / NewChangeAddress) - "the address a restarted wallet would issue".
// `cmp` asks the running wallet the same queries (this fills its caches, which is why it is an explicit op).
//
// Ops:
//
//	reset [pf=<0|1>]                         pf=1: see probePubFix (gen.go)
//	newaddr sc=<np|wpkh|tr> a=<n>            wallet.NewAddress
//	newchange sc= a=                         wallet.NewChangeAddress
//	curaddr sc= a=                           wallet.CurrentAddress
//	fund sc= a=                              NewAddress + a confirmed 1-BTC credit paying to it + MarkUsed (one tx)
//	createtx sc= a= dry=<0|1> amt=<small|huge> nf=<0|1>   wallet.CreateSimpleTx (nf: NotifyReceived fails)
//	fundpsbt sc= a= coin=<-|i>               wallet.FundPsbt without inputs / with the i-th funded coin as input
//	importdry sc= name=<id> key=<1..4|bad> n=<0..3|big>   wallet.ImportAccountDryRun
//	import sc= name= key=                    wallet.ImportAccount
//	rename sc= a= name=                      wallet.RenameAccount
//	newacct sc= name=                        wallet.NextAccount
//	importdry ... race=1 ra=<key.br.idx>     the dry run with a concurrent wallet.AddressInfo of that address (race.go)
//	restart                                  the running wallet is stopped and opened again on its database
//	lock / unlock [pass=<0..3>]              wallet.Lock / wallet.Unlock (no pass= : the passphrase a restarted wallet accepts)
//	chpriv old=<0..3> new=<0..3>             wallet.ChangePrivatePassphrase
//	chpub old=<0..2> new=<0..2>              wallet.ChangePublicPassphrase
//	chboth pubold= pubnew= privold= privnew= wallet.ChangePassphrases
//	passprobe                                Unlock with every OTHER known private passphrase, then with the current one
//	                                         (= the one a restarted wallet accepts); the lock state is restored
//	cmp                                      running wallet answers every query; oracle: equal to the restarted one
//
// name ids: 0 = "" (invalid), 1 = "default", k = "n<k>".  key ids: 1..4 imported xpubs, 100+a = the wallet's own
// account key of account a.  Addresses are printed as <key>.<branch>.<index> (resolved by the harness's own BIP32
// derivation, independent of the wallet).
package walletrestart

import (
	"bytes"
	"encoding/hex"
	"errors"
	"fmt"
	"io"
	"os"
	"path/filepath"
	"strconv"
	"strings"
	"sync"
	"time"

	"github.com/btcsuite/btcd/btcec/v2/schnorr"
	"github.com/btcsuite/btcd/btcutil"
	"github.com/btcsuite/btcd/btcutil/hdkeychain"
	"github.com/btcsuite/btcd/btcutil/psbt"
	"github.com/btcsuite/btcd/chaincfg"
	"github.com/btcsuite/btcd/chaincfg/chainhash"
	"github.com/btcsuite/btcd/txscript"
	"github.com/btcsuite/btcd/wire"
	"github.com/btcsuite/btcwallet/snacl"
	"github.com/btcsuite/btcwallet/waddrmgr"
	"github.com/btcsuite/btcwallet/wallet"
	"github.com/btcsuite/btcwallet/wallet/txauthor"
	"github.com/btcsuite/btcwallet/walletdb"
	_ "github.com/btcsuite/btcwallet/walletdb/bdb"
	"github.com/btcsuite/btcwallet/wtxmgr"

	"verifharness/core"
)

func init() { core.Register(engine{}) }

type engine struct{}

func (engine) Name() string           { return "wallet-restart" }
func (engine) NewRunner() core.Runner { return &runner{} }

type scopeDef struct {
	name string
	ks   waddrmgr.KeyScope
	impT waddrmgr.AddressType
}

var (
	params   = &chaincfg.SimNetParams
	pubPass  = []byte("public")
	privPass = []byte("private")
	seed     = bytes.Repeat([]byte{0x5c}, 32)
	scopes   = []scopeDef{
		{"np", waddrmgr.KeyScopeBIP0049Plus, waddrmgr.NestedWitnessPubKey},
		{"wpkh", waddrmgr.KeyScopeBIP0084, waddrmgr.WitnessPubKey},
		{"tr", waddrmgr.KeyScopeBIP0086, waddrmgr.TaprootPubKey},
	}
)

// passphrase ids: private 0 = the passphrase of wallet.Create, k = "priv-k"; public 0 = "public", k = "pub-k"
const (
	nPrivPass = 4
	nPubPass  = 3
)

func privPassOf(id int) []byte {
	if id == 0 {
		return privPass
	}
	return []byte(fmt.Sprintf("priv-%d", id))
}

func pubPassOf(id int) []byte {
	if id == 0 {
		return pubPass
	}
	return []byte(fmt.Sprintf("pub-%d", id))
}

func passID(s string, n int) (int, bool) {
	v, ok := atoi(s)
	return v, ok && v < n
}

const (
	nImportKeys = 4
	nOwnKeys    = 12
	tabDepth    = 24
	maxNames    = 9
)

func scopeIdx(s string) int {
	for i, d := range scopes {
		if d.name == s {
			return i
		}
	}
	return -1
}

// ---------------------------------------------------------------- harness-side key and address tables

type des struct {
	sc, key, br, idx int
}

func (d des) String() string { return fmt.Sprintf("%d.%d.%d", d.key, d.br, d.idx) }

var (
	tabOnce  sync.Once
	tabErr   error
	xkeys    [3]map[int]*hdkeychain.ExtendedKey // scope -> key id -> account xpub
	keyOfPub [3]map[string]int                  // scope -> hex(compressed account pubkey) -> key id
	desOf    map[string]des                     // address string -> designator
	addrOf   map[des]btcutil.Address            // designator -> address
	impKeys  map[int]*hdkeychain.ExtendedKey
	badKey   *hdkeychain.ExtendedKey
	template string
)

func impFingerprint(k int) uint32 { return 0xF0000000 + uint32(k) }

func addrFor(sc, key int, pub *hdkeychain.ExtendedKey, br int) (func(idx uint32) (btcutil.Address, error), error) {
	branch, err := pub.Derive(uint32(br))
	if err != nil {
		return nil, err
	}
	return func(idx uint32) (btcutil.Address, error) {
		k, err := branch.Derive(idx)
		if err != nil {
			return nil, err
		}
		pk, err := k.ECPubKey()
		if err != nil {
			return nil, err
		}
		h := btcutil.Hash160(pk.SerializeCompressed())
		kind := "wpkh"
		switch scopes[sc].name {
		case "np":
			// own accounts: BIP0049Plus (nested external, witness internal); imported xpubs are given the
			// BIP0049 schema override by wallet.keyScopeFromPubKey (nested on both branches)
			if key < 100 || br == 0 {
				kind = "np"
			}
		case "tr":
			kind = "tr"
		}
		switch kind {
		case "np":
			wa, err := btcutil.NewAddressWitnessPubKeyHash(h, params)
			if err != nil {
				return nil, err
			}
			script, err := txscript.PayToAddrScript(wa)
			if err != nil {
				return nil, err
			}
			return btcutil.NewAddressScriptHash(script, params)
		case "tr":
			tk := txscript.ComputeTaprootKeyNoScript(pk)
			return btcutil.NewAddressTaproot(schnorr.SerializePubKey(tk), params)
		}
		return btcutil.NewAddressWitnessPubKeyHash(h, params)
	}, nil
}

func buildTables() error {
	waddrmgr.SetSecretKeyGen(func(p *[]byte, _ *waddrmgr.ScryptOptions) (*snacl.SecretKey, error) {
		return snacl.NewSecretKey(p, 16, 8, 1)
	})
	root, err := hdkeychain.NewMaster(seed, params)
	if err != nil {
		return err
	}
	impKeys = map[int]*hdkeychain.ExtendedKey{}
	for k := 1; k <= nImportKeys; k++ {
		m, err := hdkeychain.NewMaster(bytes.Repeat([]byte{byte(0x30 + k)}, 32), params)
		if err != nil {
			return err
		}
		x := m
		for j, i := range []uint32{84, 115, uint32(k)} {
			if x, err = x.Derive(hdkeychain.HardenedKeyStart + i); err != nil {
				return err
			}
			if j == 1 && k == 1 {
				// an extended PUBLIC key of the wrong depth (m/84'/115'): refused by validateExtendedPubKey
				if badKey, err = x.Neuter(); err != nil {
					return err
				}
			}
		}
		if impKeys[k], err = x.Neuter(); err != nil {
			return err
		}
	}
	desOf = map[string]des{}
	addrOf = map[des]btcutil.Address{}
	for sc := range scopes {
		xkeys[sc] = map[int]*hdkeychain.ExtendedKey{}
		keyOfPub[sc] = map[string]int{}
		for k, x := range impKeys {
			xkeys[sc][k] = x
		}
		ks := scopes[sc].ks
		for a := 0; a < nOwnKeys; a++ {
			x := root
			for _, i := range []uint32{ks.Purpose, ks.Coin, uint32(a)} {
				if x, err = x.Derive(hdkeychain.HardenedKeyStart + i); err != nil {
					return err
				}
			}
			if xkeys[sc][100+a], err = x.Neuter(); err != nil {
				return err
			}
		}
		for k, x := range xkeys[sc] {
			pk, err := x.ECPubKey()
			if err != nil {
				return err
			}
			keyOfPub[sc][hex.EncodeToString(pk.SerializeCompressed())] = k
			for br := 0; br < 2; br++ {
				f, err := addrFor(sc, k, x, br)
				if err != nil {
					return err
				}
				for i := 0; i < tabDepth; i++ {
					a, err := f(uint32(i))
					if err != nil {
						return err
					}
					if old, dup := desOf[a.String()]; dup {
						return fmt.Errorf("address table collision %v / %v", old, des{sc, k, br, i})
					}
					desOf[a.String()] = des{sc, k, br, i}
					addrOf[des{sc, k, br, i}] = a
				}
			}
		}
	}
	// template wallet database (created once per process, copied for every case)
	dir, err := os.MkdirTemp(tmpBase(), "vx-wrestart-tpl-")
	if err != nil {
		return err
	}
	template = filepath.Join(dir, "template.db")
	db, err := walletdb.Create("bdb", template, true, 10*time.Second, false)
	if err != nil {
		return err
	}
	defer db.Close()
	return wallet.Create(db, pubPass, privPass, root, params, time.Unix(1600000000, 0))
}

func tmpBase() string {
	if st, err := os.Stat("/dev/shm"); err == nil && st.IsDir() {
		return "/dev/shm"
	}
	return ""
}

func copyFile(src, dst string) error {
	in, err := os.Open(src)
	if err != nil {
		return err
	}
	defer in.Close()
	out, err := os.Create(dst)
	if err != nil {
		return err
	}
	if _, err = io.Copy(out, in); err != nil {
		out.Close()
		return err
	}
	return out.Close()
}

// ---------------------------------------------------------------- names, errors

func nameStr(id string) string {
	switch id {
	case "0":
		return ""
	case "1":
		return "default"
	}
	return "n" + id
}

func nameID(s string) string {
	switch {
	case s == "":
		return "0"
	case s == "default":
		return "1"
	case len(s) >= 2 && s[0] == 'n':
		if _, err := strconv.Atoi(s[1:]); err == nil {
			return s[1:]
		}
	}
	return "?" + s
}

func errClass(err error) string {
	if err == nil {
		return "ok"
	}
	var me waddrmgr.ManagerError
	if errors.As(err, &me) {
		switch me.ErrorCode {
		case waddrmgr.ErrAccountNotFound:
			return "acct-not-found"
		case waddrmgr.ErrDuplicateAccount:
			return "dup-name"
		case waddrmgr.ErrInvalidAccount:
			return "bad-name"
		case waddrmgr.ErrTooManyAddresses:
			return "too-many"
		case waddrmgr.ErrLocked:
			return "locked"
		case waddrmgr.ErrAddressNotFound:
			return "addr-not-found"
		case waddrmgr.ErrWrongPassphrase:
			return "wrong-pass"
		case waddrmgr.ErrDatabase:
			return "db-error"
		}
		return "mgr-" + strconv.Itoa(int(me.ErrorCode))
	}
	var ise txauthor.InputSourceError
	if errors.As(err, &ise) {
		return "insufficient"
	}
	if errors.Is(err, errCommit) {
		return "commit-failed"
	}
	s := err.Error()
	switch {
	case strings.Contains(s, "injected commit failure"):
		return "commit-failed"
	case strings.Contains(s, "insufficient funds"):
		return "insufficient"
	case strings.Contains(s, "notification subscription failed"):
		return "notify-fail"
	case strings.Contains(s, "invalid account key"):
		return "bad-key"
	}
	if os.Getenv("VX_DEBUG") != "" {
		fmt.Fprintf(os.Stderr, "unclassified error: %v\n", err)
	}
	return "other"
}

// ---------------------------------------------------------------- runner

type uaddr struct {
	d         des
	addr      btcutil.Address
	by        string // wallet op that handed it out
	committed bool   // ... in a transaction that committed
}

type coin struct {
	sc, a int
	op    wire.OutPoint
	out   *wire.TxOut
}

type runner struct {
	dir    string
	db     walletdb.DB // the real bdb handle
	fdb    *failDB     // what the wallet sees: commit-failure injection
	w      *wallet.Wallet
	fc     *fakeChain
	u      []*uaddr
	uIdx   map[string]*uaddr
	names  []string // name ids used so far (query universe), in first-use order
	coins  []coin
	prev   *digest           // restarted-wallet answers after the previous op
	blame  map[[2]int]string // (scope, account) -> last wallet op that created / modified / cached it
	copies int
	dryImports int
	prevBlame  string            // blame of the op's (scope, account) before the op ran
	taint      map[[2]int]string // sticky blame: account touched by an eager mutator whose commit failed
	curPub     int               // public passphrase id that opened the last database copy
	passBlame  string            // last wallet op that asked for a passphrase change (C05 oracle keys)
}

func (r *runner) Close() {
	if r.w != nil {
		r.w.Stop()
		r.w.WaitForShutdown()
		r.w = nil
	}
	if r.db != nil {
		_ = r.db.Close()
		r.db = nil
	}
	if r.dir != "" {
		_ = os.RemoveAll(r.dir)
		r.dir = ""
	}
}

func (r *runner) reset() error {
	r.Close()
	tabOnce.Do(func() { tabErr = buildTables() })
	if tabErr != nil {
		return tabErr
	}
	dir, err := os.MkdirTemp(tmpBase(), "vx-wrestart-")
	if err != nil {
		return err
	}
	r.dir = dir
	path := filepath.Join(dir, "wallet.db")
	if err = copyFile(template, path); err != nil {
		return err
	}
	if r.db, err = walletdb.Open("bdb", path, true, 10*time.Second, false); err != nil {
		return err
	}
	r.fdb = &failDB{inner: r.db}
	if r.w, err = wallet.OpenWithRetry(r.fdb, pubPass, nil, params, 0, 10*time.Millisecond); err != nil {
		return err
	}
	r.w.Start()
	r.fc = newFakeChain()
	r.w.SynchronizeRPC(r.fc)
	if err = r.w.Unlock(privPass, nil); err != nil {
		return err
	}
	r.u, r.uIdx, r.names, r.coins, r.prev = nil, map[string]*uaddr{}, []string{"1"}, nil, nil
	r.blame = map[[2]int]string{}
	r.taint = map[[2]int]string{}
	r.dryImports = 0
	r.curPub, r.passBlame = 0, ""
	return nil
}

func canon(id string) string {
	n, _ := strconv.Atoi(id)
	return strconv.Itoa(n)
}

func (r *runner) useName(id string) {
	id = canon(id)
	for _, n := range r.names {
		if n == id {
			return
		}
	}
	r.names = append(r.names, id)
}

// note records an address handed out by the running wallet; returns its designator text.
func (r *runner) note(sc int, a btcutil.Address, by string, committed bool) string {
	d, ok := desOf[a.String()]
	if !ok {
		return "?"
	}
	txt := d.String()
	if d.sc != sc {
		txt = "!" + scopes[d.sc].name + "/" + txt
	}
	if e := r.uIdx[a.String()]; e != nil {
		if committed {
			e.by, e.committed = by, true
		} else if !e.committed {
			// handed out again by another rolled-back operation: the LATEST one is what left it cached
			e.by = by
		}
		return txt
	}
	e := &uaddr{d: d, addr: a, by: by, committed: committed}
	r.u = append(r.u, e)
	r.uIdx[a.String()] = e
	return txt
}

// ---------------------------------------------------------------- the queries of the property

type acctView struct {
	props    string // "-" or "name:key:ext:int" ("!err" for unexpected errors)
	name     string
	key      string
	xpub     string
	fp       uint32
	ext, int uint32
	found    bool
	acctName string // AccountName(number): name id or "-"
}

type addrView struct {
	found   bool
	have    bool
	acct    uint32
	str     string
	detail  string // internal/branch/index/type/imported
	errText string
}

type digest struct {
	last  [3]int
	accts [3][]acctView      // index = account number, 0..last+1
	nums  [3]map[string]string // name id -> account number or "-"
	addrs []addrView         // parallel to runner.u
	next  [3]map[[2]int]string // (account, branch) -> designator the wallet issues next (restarted wallet only)
	priv  int                  // private passphrase id the restarted wallet unlocks with (-1: none of the known ones)
	pub   int                  // public passphrase id the database copy opened with
	hasP  bool                 // restarted wallet only
	str   string
}

func keyID(sc int, p *waddrmgr.AccountProperties) string {
	if p.AccountPubKey == nil {
		return "nokey"
	}
	pk, err := p.AccountPubKey.ECPubKey()
	if err != nil {
		return "badkey"
	}
	k, ok := keyOfPub[sc][hex.EncodeToString(pk.SerializeCompressed())]
	if !ok {
		return "?"
	}
	want := uint32(0)
	if k < 100 {
		want = impFingerprint(k)
	}
	if p.MasterKeyFingerprint != want {
		return fmt.Sprintf("%d!fp", k)
	}
	return strconv.Itoa(k)
}

func (r *runner) query(w *wallet.Wallet) (*digest, error) {
	d := &digest{}
	for sc, sd := range scopes {
		mgr, err := w.Manager.FetchScopedKeyManager(sd.ks)
		if err != nil {
			return nil, err
		}
		var last uint32
		err = walletdb.View(w.Database(), func(tx walletdb.ReadTx) error {
			var err error
			last, err = mgr.LastAccount(tx.ReadBucket([]byte("waddrmgr")))
			return err
		})
		if err != nil {
			return nil, err
		}
		d.last[sc] = int(last)
		for a := uint32(0); a <= last+1; a++ {
			var v acctView
			p, err := w.AccountProperties(sd.ks, a)
			switch {
			case err == nil:
				v.found = true
				v.name, v.key, v.ext, v.int = nameID(p.AccountName), keyID(sc, p), p.ExternalKeyCount, p.InternalKeyCount
				v.fp = p.MasterKeyFingerprint
				if p.AccountPubKey != nil {
					v.xpub = p.AccountPubKey.String()
				}
				v.props = fmt.Sprintf("%s:%s:%d:%d", v.name, v.key, v.ext, v.int)
			case errClass(err) == "acct-not-found":
				v.props = "-"
			default:
				v.props = "!" + errClass(err)
			}
			n, err := w.AccountName(sd.ks, a)
			switch {
			case err == nil:
				v.acctName = nameID(n)
			case errClass(err) == "acct-not-found":
				v.acctName = "-"
			default:
				v.acctName = "!" + errClass(err)
			}
			d.accts[sc] = append(d.accts[sc], v)
		}
		d.nums[sc] = map[string]string{}
		for _, id := range r.names {
			n, err := w.AccountNumber(sd.ks, nameStr(id))
			switch {
			case err == nil:
				d.nums[sc][id] = strconv.Itoa(int(n))
			case errClass(err) == "acct-not-found":
				d.nums[sc][id] = "-"
			default:
				d.nums[sc][id] = "!" + errClass(err)
			}
		}
	}
	for _, e := range r.u {
		var v addrView
		ma, err := w.AddressInfo(e.addr)
		switch {
		case err == nil:
			v.found, v.acct, v.str = true, ma.InternalAccount(), ma.Address().String()
			v.detail = fmt.Sprintf("internal=%v type=%v imported=%v", ma.Internal(), ma.AddrType(), ma.Imported())
			if pka, ok := ma.(waddrmgr.ManagedPubKeyAddress); ok {
				_, path, ok := pka.DerivationInfo()
				v.detail += fmt.Sprintf(" path=%v/%d/%d/%d", ok, path.InternalAccount, path.Branch, path.Index)
			}
		case errClass(err) == "addr-not-found":
		default:
			v.errText = errClass(err)
		}
		v.have, err = w.HaveAddress(e.addr)
		if err != nil && v.errText == "" {
			v.errText = "have:" + errClass(err)
		}
		d.addrs = append(d.addrs, v)
	}
	return d, nil
}

// issueAll lets the (throw-away) wallet issue the next external and internal address of every account.
func (r *runner) issueAll(w *wallet.Wallet, d *digest) {
	for sc, sd := range scopes {
		d.next[sc] = map[[2]int]string{}
		for a := 0; a <= d.last[sc]; a++ {
			for br := 0; br < 2; br++ {
				var addr btcutil.Address
				var err error
				if br == 0 {
					addr, err = w.NewAddress(uint32(a), sd.ks)
				} else {
					addr, err = w.NewChangeAddress(uint32(a), sd.ks)
				}
				txt := ""
				if err != nil {
					txt = "!" + errClass(err)
				} else if ds, ok := desOf[addr.String()]; !ok {
					txt = "?"
				} else if ds.sc != sc || ds.br != br {
					txt = "!" + scopes[ds.sc].name + "/" + ds.String()
				} else {
					txt = fmt.Sprintf("%d.%d", ds.key, ds.idx)
				}
				d.next[sc][[2]int{a, br}] = txt
			}
		}
	}
}

func (r *runner) render(d *digest) {
	var b strings.Builder
	for sc, sd := range scopes {
		if sc > 0 {
			b.WriteByte(' ')
		}
		fmt.Fprintf(&b, "%s{L=%d;A=", sd.name, d.last[sc])
		for a, v := range d.accts[sc] {
			if a > 0 {
				b.WriteByte('|')
			}
			fmt.Fprintf(&b, "%d:%s:%s", a, v.props, v.acctName)
		}
		b.WriteString(";N=")
		for i, id := range r.names {
			if i > 0 {
				b.WriteByte(',')
			}
			fmt.Fprintf(&b, "%s>%s", id, d.nums[sc][id])
		}
		b.WriteString(";X=")
		first := true
		for i, e := range r.u {
			if e.d.sc != sc {
				continue
			}
			if !first {
				b.WriteByte(',')
			}
			first = false
			v := d.addrs[i]
			switch {
			case v.errText != "":
				fmt.Fprintf(&b, "%s>!%s", e.d, v.errText)
			case v.found:
				fmt.Fprintf(&b, "%s>%d", e.d, v.acct)
			default:
				fmt.Fprintf(&b, "%s>-", e.d)
			}
		}
		if d.next[sc] != nil {
			b.WriteString(";NX=")
			for a := 0; a <= d.last[sc]; a++ {
				if a > 0 {
					b.WriteByte(',')
				}
				fmt.Fprintf(&b, "%s/%s", d.next[sc][[2]int{a, 0}], d.next[sc][[2]int{a, 1}])
			}
		}
		b.WriteByte('}')
	}
	if d.hasP {
		fmt.Fprintf(&b, " P=%d/%d", d.priv, d.pub)
	}
	d.str = b.String()
}

// restarted copies the database file, opens a second wallet on the copy, asks it every query and lets it issue the
// next address of every branch.
// openCopy copies the database file and opens a second wallet on the copy with the public passphrase that opened
// the previous copy; when that one is refused the other known public passphrases are tried (the one that works is
// the database's current public passphrase).
func (r *runner) openCopy() (walletdb.DB, *wallet.Wallet, string, error) {
	r.copies++
	path := filepath.Join(r.dir, fmt.Sprintf("copy%d.db", r.copies))
	if err := copyFile(filepath.Join(r.dir, "wallet.db"), path); err != nil {
		return nil, nil, path, err
	}
	db, err := walletdb.Open("bdb", path, true, 10*time.Second, false)
	if err != nil {
		return nil, nil, path, err
	}
	order := []int{r.curPub}
	for id := 0; id < nPubPass; id++ {
		if id != r.curPub {
			order = append(order, id)
		}
	}
	var lastErr error
	for _, id := range order {
		w2, err := wallet.OpenWithRetry(db, pubPassOf(id), nil, params, 0, 10*time.Millisecond)
		if err == nil {
			r.curPub = id
			return db, w2, path, nil
		}
		lastErr = err
		if errClass(err) != "wrong-pass" {
			break
		}
	}
	db.Close()
	return nil, nil, path, lastErr
}

// diskPriv: the private passphrase the (throw-away) restarted wallet's manager unlocks with; `first` is tried first.
func diskPriv(w2 *wallet.Wallet, first int) int {
	order := []int{}
	if first >= 0 && first < nPrivPass {
		order = append(order, first)
	}
	for id := 0; id < nPrivPass; id++ {
		if id != first {
			order = append(order, id)
		}
	}
	for _, id := range order {
		err := walletdb.View(w2.Database(), func(tx walletdb.ReadTx) error {
			return w2.Manager.Unlock(tx.ReadBucket([]byte("waddrmgr")), privPassOf(id))
		})
		if err == nil {
			return id
		}
	}
	return -1
}

// restarted copies the database file, opens a second wallet on the copy, asks it every query and lets it issue the
// next address of every branch; last it finds the private passphrase the copy unlocks with.
func (r *runner) restarted() (*digest, error) {
	db, w2, path, err := r.openCopy()
	defer os.Remove(path)
	if err != nil {
		return nil, err
	}
	defer db.Close()
	w2.SynchronizeRPC(newFakeChain())
	defer func() {
		w2.Stop()
		w2.WaitForShutdown()
	}()
	d, err := r.query(w2)
	if err != nil {
		return nil, err
	}
	r.issueAll(w2, d)
	first := 0
	if r.prev != nil {
		first = r.prev.priv
	}
	d.priv, d.pub, d.hasP = diskPriv(w2, first), r.curPub, true
	r.render(d)
	return d, nil
}

// restartedUnlock: does a wallet restarted on the current database unlock with private passphrase `id`?
func (r *runner) restartedUnlock(id int) error {
	db, w2, path, err := r.openCopy()
	defer os.Remove(path)
	if err != nil {
		return err
	}
	defer db.Close()
	w2.Start()
	defer func() {
		w2.Stop()
		w2.WaitForShutdown()
	}()
	return w2.Unlock(privPassOf(id), nil)
}

// ---------------------------------------------------------------- oracle: running wallet vs restarted wallet

func (r *runner) blameOf(sc, a int) string {
	if b, ok := r.taint[[2]int{sc, a}]; ok {
		return b
	}
	if b, ok := r.blame[[2]int{sc, a}]; ok {
		return b
	}
	return "Unattributed"
}

func (r *runner) compare(run, res *digest) []string {
	var v []string
	add := func(op, what, text string) {
		v = append(v, fmt.Sprintf("C08 key=%s.%s: %s", op, what, text))
	}
	for sc, sd := range scopes {
		if run.last[sc] != res.last[sc] {
			add("Unattributed", "last-account-differs", fmt.Sprintf("scope %s: running %d restarted %d", sd.name, run.last[sc], res.last[sc]))
			continue
		}
		for a := range run.accts[sc] {
			x, y := run.accts[sc][a], res.accts[sc][a]
			who := r.blameOf(sc, a)
			where := fmt.Sprintf("scope %s account %d", sd.name, a)
			switch {
			case x.found && !y.found:
				add(who, "account-cache-not-reverted", where+": the running wallet answers AccountProperties ("+x.props+"), a restarted wallet does not know the account")
			case !x.found && y.found:
				add(who, "account-unknown-to-running-wallet", where+": restarted wallet answers "+y.props+", running wallet "+x.props)
			case x.found && y.found:
				if x.name != y.name {
					add(who, "account-name-differs", fmt.Sprintf("%s: running wallet says name %s, restarted wallet says %s", where, x.name, y.name))
				}
				if x.key != y.key || x.xpub != y.xpub || x.fp != y.fp {
					add(who, "account-key-differs", fmt.Sprintf("%s: running wallet says xpub key%s fingerprint %08x, restarted wallet says key%s fingerprint %08x", where, x.key, x.fp, y.key, y.fp))
				}
				if x.ext != y.ext || x.int != y.int {
					add(who, "key-count-differs", fmt.Sprintf("%s: running wallet says %d/%d, restarted wallet says %d/%d", where, x.ext, x.int, y.ext, y.int))
				}
			case x.props != y.props:
				add(who, "account-error-differs", where+": "+x.props+" vs "+y.props)
			}
			if x.acctName != y.acctName {
				add(who, "account-name-lookup-differs", fmt.Sprintf("%s: AccountName running %s restarted %s", where, x.acctName, y.acctName))
			}
		}
		for _, id := range r.names {
			if run.nums[sc][id] != res.nums[sc][id] {
				add("Unattributed", "account-number-differs", fmt.Sprintf("scope %s name %s: running %s restarted %s", sd.name, id, run.nums[sc][id], res.nums[sc][id]))
			}
		}
	}
	for i, e := range r.u {
		if i >= len(run.addrs) || i >= len(res.addrs) {
			break
		}
		x, y := run.addrs[i], res.addrs[i]
		who := e.by
		where := fmt.Sprintf("address %s/%s", scopes[e.d.sc].name, e.d)
		if !e.committed {
			where += " (handed out by a transaction that was rolled back)"
		}
		switch {
		case x.errText != "" || y.errText != "":
			if x.errText != y.errText {
				add(who, "address-error-differs", where+": running "+x.errText+" restarted "+y.errText)
			}
		case x.found && !y.found:
			add(who, "address-cache-not-reverted", where+": the running wallet knows it (AddressInfo/HaveAddress), a restarted wallet does not")
		case !x.found && y.found:
			add(who, "address-unknown-to-running-wallet", where)
		case x.found && y.found:
			if x.acct != y.acct || x.str != y.str || x.detail != y.detail {
				add(who, "address-info-differs", fmt.Sprintf("%s: running wallet account %d %s [%s], restarted wallet account %d %s [%s]",
					where, x.acct, desText(x.str), x.detail, y.acct, desText(y.str), y.detail))
			}
		}
		if x.have != x.found || y.have != y.found {
			add(who, "have-address-inconsistent", where)
		}
		if e.committed && !y.found && y.errText == "" {
			add(who, "issued-address-lost", where+": handed out by a committed request but unknown to a restarted wallet")
		}
	}
	return v
}

func desText(addr string) string {
	if d, ok := desOf[addr]; ok {
		return scopes[d.sc].name + "/" + d.String()
	}
	return "?"
}

// ---------------------------------------------------------------- ops

func atoi(s string) (int, bool) {
	if s == "" || len(s) > 9 {
		return 0, false
	}
	for _, c := range s {
		if c < '0' || c > '9' {
			return 0, false
		}
	}
	n, err := strconv.Atoi(s)
	return n, err == nil
}

func is01(s string) bool { return s == "0" || s == "1" }

type opResult struct {
	text       string
	rolledBack bool     // the op's database transaction did not commit (error, or dry run)
	issued     []string // "sc/a/br" -> designator, for committed issuing requests
	viol       []string
	newPriv    int // private passphrase a successful change request set (-1: none)
}

func (r *runner) expectNext(res *opResult, name string, sc, a, br int, got des) {
	if r.prev == nil || r.prev.next[sc] == nil {
		return
	}
	want, ok := r.prev.next[sc][[2]int{a, br}]
	if !ok {
		return
	}
	have := fmt.Sprintf("%d.%d", got.key, got.idx)
	if strings.HasSuffix(r.prevBlame, ".commit-failed") {
		name = r.prevBlame
	}
	if got.sc != sc || got.br != br || have != want {
		res.viol = append(res.viol, fmt.Sprintf("C08 key=%s.next-address-differs-from-restart: scope %s account %d branch %d: the running wallet issued %s/%s, a restarted wallet would issue %s",
			name, scopes[sc].name, a, br, scopes[got.sc].name, got, want))
	}
}

func (r *runner) Exec(op string) (string, string) {
	kind, kv := core.KV(op)
	if kind == "reset" {
		// pf=1: the generator's probe found the ChangePassphrases public-half fix in the tree (tells the Lean model
		// which variant to follow; the runner does not care)
		if v, has := kv["pf"]; has && !is01(v) {
			r.Close() // a refused reset ends the case's wallet
			return "bad-op", ""
		}
		if err := r.reset(); err != nil {
			return "harness-error " + err.Error(), ""
		}
		d, err := r.restarted()
		if err != nil {
			return "harness-error " + err.Error(), ""
		}
		r.prev = d
		return "ok D[" + d.str + "]", ""
	}
	if r.w == nil {
		return "bad-op", ""
	}
	sc := scopeIdx(kv["sc"])
	a, aok := atoi(kv["a"])
	res := opResult{newPriv: -1}
	// cf=1: the commit of the request's database transaction fails (newaddr, newchange, createtx, import, rename)
	cf := false
	if v, has := kv["cf"]; has {
		if !is01(v) {
			return "bad-op", ""
		}
		switch kind {
		case "newaddr", "newchange", "createtx", "import", "rename":
			cf = v == "1"
		}
	}
	r.prevBlame = ""
	if sc >= 0 && aok {
		r.prevBlame = r.blameOf(sc, a)
	}
	r.fdb.arm(cf)
	defer r.fdb.arm(false)
	switch kind {
	case "newaddr", "newchange", "curaddr", "fund":
		if sc < 0 || !aok {
			return "bad-op", ""
		}
		r.opAddr(&res, kind, sc, a)
	case "createtx":
		if sc < 0 || !aok {
			return "bad-op", ""
		}
		if _, ok := amount(kv["amt"]); !ok || !is01(kv["dry"]) || !is01(kv["nf"]) {
			return "bad-op", ""
		}
		r.opCreateTx(&res, sc, a, kv["dry"] == "1", kv["amt"], kv["nf"] == "1")
	case "fundpsbt":
		if sc < 0 || !aok {
			return "bad-op", ""
		}
		if !r.opFundPsbt(&res, sc, a, kv["coin"]) {
			return "bad-op", ""
		}
	case "importdry", "import":
		if _, ok := atoi(kv["name"]); sc < 0 || !ok || kv["key"] == "" {
			return "bad-op", ""
		}
		var raceAddr btcutil.Address
		if v, has := kv["race"]; has {
			if !is01(v) || (v == "1" && kind != "importdry") {
				return "bad-op", ""
			}
			if v == "1" {
				var d des
				if n, _ := fmt.Sscanf(kv["ra"], "%d.%d.%d", &d.key, &d.br, &d.idx); n != 3 ||
					kv["ra"] != fmt.Sprintf("%d.%d.%d", d.key, d.br, d.idx) {
					return "bad-op", ""
				}
				d.sc = sc
				if raceAddr = addrOf[d]; raceAddr == nil {
					return "bad-op", ""
				}
			}
		}
		if !r.opImport(&res, kind == "importdry", sc, kv["name"], kv["key"], kv["n"], raceAddr) {
			return "bad-op", ""
		}
	case "rename":
		if _, ok := atoi(kv["name"]); sc < 0 || !aok || !ok {
			return "bad-op", ""
		}
		r.useName(kv["name"])
		err := r.w.RenameAccount(scopes[sc].ks, uint32(a), nameStr(canon(kv["name"])))
		res.text, res.rolledBack = errClass(err), err != nil
		r.blame[[2]int{sc, a}] = "RenameAccount"
	case "newacct":
		if _, ok := atoi(kv["name"]); sc < 0 || !ok {
			return "bad-op", ""
		}
		r.useName(kv["name"])
		if r.prev != nil {
			r.blame[[2]int{sc, r.prev.last[sc] + 1}] = "NextAccount"
		}
		n, err := r.w.NextAccount(scopes[sc].ks, nameStr(canon(kv["name"])))
		res.text, res.rolledBack = errClass(err), err != nil
		if err == nil {
			res.text = fmt.Sprintf("ok acct=%d", n)
		}
	case "restart":
		// the process restarts: stop the running wallet, open it again on its database (locked, empty caches)
		r.w.Stop()
		r.w.WaitForShutdown()
		w, err := wallet.OpenWithRetry(r.fdb, pubPassOf(r.prev.pub), nil, params, 0, 10*time.Millisecond)
		if err != nil {
			return "harness-error restart: " + err.Error(), ""
		}
		r.w = w
		r.w.Start()
		r.fc = newFakeChain()
		r.w.SynchronizeRPC(r.fc)
		res.text = "ok"
	case "lock":
		r.w.Lock()
		res.text = "ok"
	case "unlock":
		id := r.prev.priv
		if v, has := kv["pass"]; has {
			var ok bool
			if id, ok = passID(v, nPrivPass); !ok {
				return "bad-op", ""
			}
		}
		res.text = r.unlockWith(&res, id)
	case "passprobe":
		// Unlock with every other known private passphrase, then with the current one; restore the lock state
		wasLocked := r.w.Locked()
		var parts []string
		for id := 0; id < nPrivPass; id++ {
			if id != r.prev.priv {
				parts = append(parts, fmt.Sprintf("%d:%s", id, r.unlockWith(&res, id)))
			}
		}
		if r.prev.priv >= 0 {
			parts = append(parts, fmt.Sprintf("%d:%s", r.prev.priv, r.unlockWith(&res, r.prev.priv)))
		}
		if wasLocked {
			r.w.Lock()
		}
		res.text = "probe " + strings.Join(parts, ",")
	case "chpriv", "chpub":
		n := nPrivPass
		if kind == "chpub" {
			n = nPubPass
		}
		o, ok1 := passID(kv["old"], n)
		nw, ok2 := passID(kv["new"], n)
		if !ok1 || !ok2 {
			return "bad-op", ""
		}
		var err error
		if kind == "chpriv" {
			r.passBlame = "ChangePrivatePassphrase"
			err = r.w.ChangePrivatePassphrase(privPassOf(o), privPassOf(nw))
		} else {
			err = r.w.ChangePublicPassphrase(pubPassOf(o), pubPassOf(nw))
		}
		res.text, res.rolledBack = errClass(err), err != nil
		if err == nil && kind == "chpriv" {
			res.newPriv = nw
		}
	case "chboth":
		po, ok1 := passID(kv["pubold"], nPubPass)
		pn, ok2 := passID(kv["pubnew"], nPubPass)
		vo, ok3 := passID(kv["privold"], nPrivPass)
		vn, ok4 := passID(kv["privnew"], nPrivPass)
		if !ok1 || !ok2 || !ok3 || !ok4 {
			return "bad-op", ""
		}
		r.passBlame = "ChangePassphrases"
		err := r.w.ChangePassphrases(pubPassOf(po), pubPassOf(pn), privPassOf(vo), privPassOf(vn))
		res.text, res.rolledBack = errClass(err), err != nil
		if err == nil {
			res.newPriv = vn
		}
	case "cmp":
		run, err := r.query(r.w)
		if err != nil {
			return "harness-error " + err.Error(), ""
		}
		r.render(run)
		d, err := r.restarted()
		if err != nil {
			return "harness-error " + err.Error(), ""
		}
		viol := r.compare(run, d)
		if r.prev != nil {
			if diff := r.diskChanged(r.prev, d); diff != "" {
				viol = append(viol, "C08 key=Query.queries-changed-database: "+diff)
			}
		}
		r.prev = d
		return "R[" + run.str + "] D[" + d.str + "]", strings.Join(dedup(viol), "; ")
	default:
		return "bad-op", ""
	}
	if r.fdb.didFire() {
		// the request's transaction was rolled back at commit time: whatever differs from a restarted wallet from
		// now on for this account is blamed on "<WalletOp>.commit-failed"
		who := opName(kind, kv) + ".commit-failed"
		acct := a
		if kind == "import" && r.prev != nil {
			acct = r.prev.last[sc] + 1
		}
		r.blame[[2]int{sc, acct}] = who
		if kind == "import" || kind == "rename" {
			r.taint[[2]int{sc, acct}] = who
		} else if r.prev != nil && r.prev.next[sc] != nil {
			// the address the failed transaction had issued (the caller only got an error): the one a restarted
			// wallet issues next on that branch; it joins the address universe, blamed on this request
			br := 1
			if kind == "newaddr" {
				br = 0
			}
			var k, i int
			if n, _ := fmt.Sscanf(r.prev.next[sc][[2]int{a, br}], "%d.%d", &k, &i); n == 2 {
				if addr, ok := addrOf[des{sc, k, br, i}]; ok {
					r.note(sc, addr, who, false)
				}
			}
		}
		res.rolledBack = true
	}
	r.fdb.arm(false)
	d, err := r.restarted()
	if err != nil {
		return "harness-error " + err.Error(), ""
	}
	if res.rolledBack && r.prev != nil {
		if diff := r.diskChanged(r.prev, d); diff != "" {
			res.viol = append(res.viol, fmt.Sprintf("C08 key=%s.rolled-back-op-changed-database: a request that did not commit (error / dry run) changed what a restarted wallet answers: %s",
				opName(kind, kv), diff))
		}
	}
	// C05: a request that reported a successful private passphrase change makes the new passphrase the one a restarted
	// wallet accepts; every other request (failed changes included) leaves it as it was
	if r.prev != nil {
		switch {
		case res.newPriv >= 0 && d.priv != res.newPriv:
			res.viol = append(res.viol, fmt.Sprintf("C05 key=%s.new-passphrase-refused-after-restart: the change to private passphrase %d succeeded, a restarted wallet unlocks with passphrase %d",
				r.passKey(), res.newPriv, d.priv))
		case res.newPriv < 0 && d.priv != r.prev.priv:
			res.viol = append(res.viol, fmt.Sprintf("C05 key=%s.passphrase-changed-without-successful-change: a restarted wallet unlocked with private passphrase %d before the request and with %d after it",
				opName(kind, kv), r.prev.priv, d.priv))
		}
	}
	r.prev = d
	return res.text + " D[" + d.str + "]", strings.Join(dedup(res.viol), "; ")
}

func (r *runner) passKey() string {
	if r.passBlame != "" {
		return r.passBlame
	}
	return "Unlock"
}

// unlockWith runs wallet.Unlock(private passphrase id) on the RUNNING wallet and evaluates C05's sentence against the
// restarted wallet of the previous op (r.prev.priv = the passphrase a wallet restarted on the database accepts; Unlock
// does not write): the current passphrase unlocks; any other is refused with ErrWrongPassphrase and leaves it locked.
func (r *runner) unlockWith(res *opResult, id int) string {
	err := r.w.Unlock(privPassOf(id), nil)
	cls := errClass(err)
	locked := r.w.Locked()
	cur := r.prev.priv
	who := r.passKey()
	say := func(e error) string {
		if e == nil {
			return "<nil>"
		}
		return strings.ReplaceAll(e.Error(), ";", ",")
	}
	switch {
	case id == cur && cls == "wrong-pass":
		res.viol = append(res.viol, fmt.Sprintf("C05 key=%s.current-passphrase-refused: Unlock with private passphrase %d fails on the running wallet (%s) while a wallet restarted on the same database unlocks with it",
			who, id, say(err)))
	case id == cur && err != nil:
		// not a passphrase verdict (e.g. ErrAccountNotFound from the derive-on-unlock queue): confirm on a restarted wallet
		if e2 := r.restartedUnlock(id); e2 == nil {
			w := "Unattributed"
			if r.dryImports > 0 {
				w = "ImportAccountDryRun"
			}
			text := fmt.Sprintf("Unlock with the right passphrase fails on the running wallet (%s) while a wallet restarted on the same database unlocks", say(err))
			res.viol = append(res.viol, fmt.Sprintf("C08 key=%s.unlock-fails-unlike-restart: %s", w, text),
				fmt.Sprintf("C05 key=%s.unlock-fails-unlike-restart: %s", w, text))
		}
	case id == cur && locked:
		res.viol = append(res.viol, fmt.Sprintf("C05 key=%s.unlocked-wallet-reports-locked: Unlock with the current passphrase %d returned nil but the wallet is locked", who, id))
	case id != cur && err == nil:
		res.viol = append(res.viol, fmt.Sprintf("C05 key=%s.other-passphrase-accepted: Unlock with private passphrase %d succeeds on the running wallet; a wallet restarted on the same database refuses it (its passphrase is %d)",
			who, id, cur))
	case id != cur && cls != "wrong-pass":
		res.viol = append(res.viol, fmt.Sprintf("C05 key=%s.other-passphrase-wrong-error: Unlock with a wrong passphrase: want ErrWrongPassphrase, got %s", who, say(err)))
	case id != cur && !locked:
		res.viol = append(res.viol, fmt.Sprintf("C05 key=%s.wrong-passphrase-left-unlocked: Unlock with wrong passphrase %d was refused but the wallet is not locked", who, id))
	}
	if (id == cur) != (err == nil) && (cls == "ok" || cls == "wrong-pass") {
		res.viol = append(res.viol, fmt.Sprintf("C05 key=%s.running-wallet-passphrase-differs-from-restart: private passphrase %d: running wallet %s, restarted wallet %v",
			who, id, cls, map[bool]string{true: "ok", false: "wrong-pass"}[id == cur]))
	}
	return cls
}

// diskChanged compares two restarted-wallet answer sets over the universe of the OLDER one (names and addresses
// first mentioned by the op in between are new questions, not changed answers); addresses first handed out by the
// op in between must be unknown to the restarted wallet.
func (r *runner) diskChanged(old, cur *digest) string {
	if old.hasP && cur.hasP && (old.priv != cur.priv || old.pub != cur.pub) {
		return fmt.Sprintf("passphrases a restarted wallet accepts (private/public) %d/%d -> %d/%d", old.priv, old.pub, cur.priv, cur.pub)
	}
	for sc, sd := range scopes {
		if old.last[sc] != cur.last[sc] {
			return fmt.Sprintf("scope %s last account %d -> %d", sd.name, old.last[sc], cur.last[sc])
		}
		for a := range old.accts[sc] {
			x, y := old.accts[sc][a], cur.accts[sc][a]
			if x.props != y.props || x.acctName != y.acctName || x.xpub != y.xpub || x.fp != y.fp {
				return fmt.Sprintf("scope %s account %d: %s/%s -> %s/%s", sd.name, a, x.props, x.acctName, y.props, y.acctName)
			}
			for br := 0; br < 2; br++ {
				k := [2]int{a, br}
				if old.next[sc][k] != cur.next[sc][k] {
					return fmt.Sprintf("scope %s account %d branch %d: next address %s -> %s", sd.name, a, br, old.next[sc][k], cur.next[sc][k])
				}
			}
		}
		for id, n := range old.nums[sc] {
			if cur.nums[sc][id] != n {
				return fmt.Sprintf("scope %s name %s: account number %s -> %s", sd.name, id, n, cur.nums[sc][id])
			}
		}
	}
	for i := range cur.addrs {
		if i < len(old.addrs) {
			if old.addrs[i] != cur.addrs[i] {
				return fmt.Sprintf("address %s/%s: %+v -> %+v", scopes[r.u[i].d.sc].name, r.u[i].d, old.addrs[i], cur.addrs[i])
			}
		} else if cur.addrs[i].found {
			return fmt.Sprintf("address %s/%s is known to a restarted wallet", scopes[r.u[i].d.sc].name, r.u[i].d)
		}
	}
	return ""
}

func dedup(v []string) []string {
	seen := map[string]bool{}
	var out []string
	for _, s := range v {
		if !seen[s] {
			seen[s] = true
			out = append(out, s)
		}
	}
	return out
}

func opName(kind string, kv map[string]string) string {
	switch kind {
	case "newaddr", "fund":
		return "NewAddress"
	case "newchange":
		return "NewChangeAddress"
	case "curaddr":
		return "CurrentAddress"
	case "createtx":
		if kv["dry"] == "1" {
			return "CreateSimpleTxDryRun"
		}
		return "CreateSimpleTx"
	case "fundpsbt":
		return "FundPsbt"
	case "importdry":
		return "ImportAccountDryRun"
	case "import":
		return "ImportAccount"
	case "rename":
		return "RenameAccount"
	case "newacct":
		return "NextAccount"
	case "chpriv":
		return "ChangePrivatePassphrase"
	case "chpub":
		return "ChangePublicPassphrase"
	case "chboth":
		return "ChangePassphrases"
	case "unlock", "passprobe":
		return "Unlock"
	case "lock":
		return "Lock"
	}
	return kind
}

func (r *runner) opAddr(res *opResult, kind string, sc, a int) {
	ks := scopes[sc].ks
	var addr btcutil.Address
	var err error
	name := opName(kind, nil)
	br := 0
	switch kind {
	case "newaddr", "fund":
		addr, err = r.w.NewAddress(uint32(a), ks)
	case "newchange":
		br = 1
		addr, err = r.w.NewChangeAddress(uint32(a), ks)
	case "curaddr":
		addr, err = r.w.CurrentAddress(uint32(a), ks)
	}
	r.blame[[2]int{sc, a}] = name
	if err != nil {
		res.text, res.rolledBack = errClass(err), true
		return
	}
	txt := r.note(sc, addr, name, true)
	res.text = "ok " + txt
	if d, ok := desOf[addr.String()]; ok {
		// a freshly issued address of a committed request must be what a restarted wallet would have issued
		// (CurrentAddress may instead return the last issued address again; then nothing was issued)
		if !(kind == "curaddr" && r.wasIssuedBefore(sc, a, d)) {
			r.expectNext(res, name, sc, a, br, d)
		}
	}
	if kind != "fund" {
		return
	}
	// a confirmed 1-BTC credit paying to the address, and the address marked used, as wallet.addRelevantTx does
	pk, err := txscript.PayToAddrScript(addr)
	if err != nil {
		res.text = "harness-error " + err.Error()
		return
	}
	tx := wire.NewMsgTx(2)
	tx.AddTxIn(&wire.TxIn{PreviousOutPoint: wire.OutPoint{Hash: chainhash.Hash{1, byte(len(r.coins))}, Index: 0}, Sequence: wire.MaxTxInSequenceNum})
	tx.AddTxOut(wire.NewTxOut(100000000, pk))
	rec, err := wtxmgr.NewTxRecordFromMsgTx(tx, time.Unix(1600000100, 0))
	if err != nil {
		res.text = "harness-error " + err.Error()
		return
	}
	blk := &wtxmgr.BlockMeta{Block: wtxmgr.Block{Hash: chainhash.Hash{2}, Height: 1}, Time: time.Unix(1600000100, 0)}
	err = walletdb.Update(r.db, func(dbtx walletdb.ReadWriteTx) error {
		ns := dbtx.ReadWriteBucket([]byte("wtxmgr"))
		if err := r.w.TxStore.InsertTx(ns, rec, blk); err != nil {
			return err
		}
		if err := r.w.TxStore.AddCredit(ns, rec, blk, 0, false); err != nil {
			return err
		}
		return r.w.Manager.MarkUsed(dbtx.ReadWriteBucket([]byte("waddrmgr")), addr)
	})
	if err != nil {
		res.text = "harness-error " + err.Error()
		return
	}
	r.coins = append(r.coins, coin{sc, a, wire.OutPoint{Hash: tx.TxHash(), Index: 0}, tx.TxOut[0]})
}

// wasIssuedBefore: CurrentAddress returned an address below the restarted wallet's next index (the last one).
func (r *runner) wasIssuedBefore(sc, a int, d des) bool {
	if r.prev == nil || a >= len(r.prev.accts[sc]) {
		return false
	}
	return uint32(d.idx) < r.prev.accts[sc][a].ext
}

var foreignScript = func() []byte {
	a, _ := btcutil.NewAddressWitnessPubKeyHash(bytes.Repeat([]byte{0x77}, 20), params)
	s, _ := txscript.PayToAddrScript(a)
	return s
}()

func amount(s string) (int64, bool) {
	switch s {
	case "small":
		return 10000, true
	case "huge":
		return 1000 * 100000000, true
	}
	return 0, false
}

func (r *runner) changeOf(tx *txauthor.AuthoredTx) btcutil.Address {
	if tx == nil || tx.ChangeIndex < 0 {
		return nil
	}
	_, addrs, _, err := txscript.ExtractPkScriptAddrs(tx.Tx.TxOut[tx.ChangeIndex].PkScript, params)
	if err != nil || len(addrs) != 1 {
		return nil
	}
	return addrs[0]
}

func (r *runner) opCreateTx(res *opResult, sc, a int, dry bool, amt string, nf bool) {
	v, ok := amount(amt)
	if !ok {
		res.text = "bad-op"
		return
	}
	name := "CreateSimpleTx"
	if dry {
		name = "CreateSimpleTxDryRun"
	}
	ks := scopes[sc].ks
	r.fc.setNotifyFail(nf)
	tx, err := r.w.CreateSimpleTx(&ks, uint32(a), []*wire.TxOut{wire.NewTxOut(v, foreignScript)}, 1, 1000,
		wallet.CoinSelectionLargest, dry)
	r.fc.setNotifyFail(false)
	r.blame[[2]int{sc, a}] = name
	if err != nil {
		res.text, res.rolledBack = errClass(err), true
		return
	}
	res.rolledBack = dry
	chg := r.changeOf(tx)
	if chg == nil {
		res.text = "ok nochange"
		return
	}
	res.text = "ok chg=" + r.note(sc, chg, name, !dry)
	if d, ok := desOf[chg.String()]; ok && !dry {
		r.expectNext(res, name, sc, a, 1, d)
	}
}

func (r *runner) opFundPsbt(res *opResult, sc, a int, coinSel string) bool {
	ks := scopes[sc].ks
	var ins []*wire.OutPoint
	var seqs []uint32
	if coinSel != "-" {
		i, ok := atoi(coinSel)
		if !ok {
			return false
		}
		if i >= len(r.coins) {
			res.text, res.rolledBack = "no-coin", true
			return true
		}
		ins = []*wire.OutPoint{&r.coins[i].op}
		seqs = []uint32{wire.MaxTxInSequenceNum}
	}
	packet, err := psbt.New(ins, []*wire.TxOut{wire.NewTxOut(10000, foreignScript)}, 2, 0, seqs)
	if err != nil {
		res.text = "harness-error " + err.Error()
		return true
	}
	nOut := len(packet.UnsignedTx.TxOut)
	idx, err := r.w.FundPsbt(packet, &ks, 1, uint32(a), 1000, wallet.CoinSelectionLargest)
	r.blame[[2]int{sc, a}] = "FundPsbt"
	if err != nil {
		res.text, res.rolledBack = errClass(err), true
		return true
	}
	if idx < 0 || len(packet.UnsignedTx.TxOut) != nOut+1 {
		res.text = "ok nochange"
		return true
	}
	_, addrs, _, err := txscript.ExtractPkScriptAddrs(packet.UnsignedTx.TxOut[idx].PkScript, params)
	if err != nil || len(addrs) != 1 {
		res.text = "ok chg=?"
		return true
	}
	res.text = "ok chg=" + r.note(sc, addrs[0], "FundPsbt", true)
	if d, ok := desOf[addrs[0].String()]; ok {
		r.expectNext(res, "FundPsbt", sc, a, 1, d)
	}
	return true
}

func (r *runner) opImport(res *opResult, dry bool, sc int, nameId, keyId, nStr string, raceAddr btcutil.Address) bool {
	var key *hdkeychain.ExtendedKey
	fp := uint32(0)
	if keyId == "bad" {
		key = badKey
	} else {
		k, ok := atoi(keyId)
		if !ok || impKeys[k] == nil {
			return false
		}
		key, fp = impKeys[k], impFingerprint(k)
	}
	var n uint32
	if dry {
		if nStr == "big" {
			n = 1 << 31
		} else {
			v, ok := atoi(nStr)
			if !ok || v > 8 {
				return false
			}
			n = uint32(v)
		}
	}
	nameId = canon(nameId)
	r.useName(nameId)
	at := scopes[sc].impT
	name := "ImportAccount"
	if dry {
		name = "ImportAccountDryRun"
	}
	if r.prev != nil {
		r.blame[[2]int{sc, r.prev.last[sc] + 1}] = name
	}
	if !dry {
		p, err := r.w.ImportAccount(nameStr(nameId), key, fp, &at)
		if err != nil {
			res.text, res.rolledBack = errClass(err), true
			return true
		}
		res.text = fmt.Sprintf("ok acct=%d props=%s:%s:%d:%d", p.AccountNumber, nameID(p.AccountName), keyID(sc, p), p.ExternalKeyCount, p.InternalKeyCount)
		return true
	}
	res.rolledBack = true
	r.dryImports++
	var rc *raceCtl
	if raceAddr != nil {
		rc = &raceCtl{addr: raceAddr, w: func(a btcutil.Address) error { _, err := r.w.AddressInfo(a); return err }}
		r.fdb.setHook(rc.onPut)
	}
	p, ext, in, err := r.w.ImportAccountDryRun(nameStr(nameId), key, fp, &at, n)
	if rc != nil {
		r.fdb.setHook(nil)
		_ = rc.finish()
	}
	if err != nil {
		res.text = errClass(err)
		return true
	}
	var e, i []string
	for _, ma := range ext {
		e = append(e, r.note(sc, ma.Address(), name, false))
	}
	for _, ma := range in {
		i = append(i, r.note(sc, ma.Address(), name, false))
	}
	res.text = fmt.Sprintf("ok acct=%d props=%s:%s:%d:%d ext=%s int=%s", p.AccountNumber, nameID(p.AccountName), keyID(sc, p),
		p.ExternalKeyCount, p.InternalKeyCount, strings.Join(e, ","), strings.Join(i, ","))
	return true
}
