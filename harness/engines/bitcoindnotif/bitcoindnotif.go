// Package bitcoindnotif: engine "bitcoindnotif" (C18) — the ONE user of chain.ConcurrentQueue in the tree,
// `chain.BitcoindClient.notificationQueue`, run for real through the exported API only:
//
//	chain.NewBitcoindConn(cfg{Host: <in-process fake bitcoind, HTTP JSON-RPC>, PollingConfig})  ->  conn.NewBitcoindClient()
//	client.SetBirthday(far future) · client.Start() (possibly several times) · client.NotifyBlocks()
//	client.Rescan(&start, nil, nil)   -- the producer: the real rescan goroutine walks the fake chain (getblockhash /
//	                                     getblockheader per block) and enqueues, for every block h,
//	                                     FilteredBlockConnected(h) and BlockConnected(h) back to back, and finally
//	                                     RescanFinished(tip)
//	client.Notifications()            -- the consumer side (the harness is the only consumer)
//
// The error path is part of the scenario: the fake answers the first <f> `getblockchaininfo` calls after the
// connection is up with bitcoind's RPC_IN_WARMUP (-28), so the first Start() fails AFTER it has started the queue;
// the caller retries Start() until it returns nil.  (On the tree as it stands a retried Start() is a guarded no-op;
// a Start() that can be re-entered runs `notificationQueue.Start()` twice => two workers on one queue.)
//
//	new fail=<f> nb=<0|1>   fake + conn + client; Start() until nil (at most f+1 calls); NotifyBlocks() iff nb=1 (without
//	               it a rescan enqueues RescanFinished only); consumes the ClientConnected notification(s)
//	                                                                       -> ok starts=<n> failed=<m> cc=<c>
//	rescan <k>     fake chain grows by k blocks; Rescan from the previous tip; the consumer is IDLE until the rescan
//	               goroutine is through (nb=0: it has returned — WaitForShutdown; nb=1: it has made its last RPC); no
//	               progress for 45 s: producer-blocked                        -> ok len=<len(Notifications())> | busy
//	               ONE PRODUCER AT A TIME: every Rescan runs in a goroutine of its own and the queue preserves ENQUEUE
//	               order, so the expected sequence is only determined if rescan i has enqueued its RescanFinished before
//	               rescan i+1 starts.  nb=0: exact barrier.  nb=1: a (c)rescan is refused (`busy`, no effect) while more
//	               than 20 notifications are pending, and otherwise starts only after everything pending — including the
//	               previous RescanFinished — is visibly in the out-buffer.
//	crescan <k>    same, but a slow consumer receives concurrently until everything pending has arrived
//	                                                                       -> ok got=<n> len=..
//	recv           <-Notifications()                    -> got fbc|bc|fin <h> len=.. | got cc | empty len=..
//	stop           client.Stop()                        -> stopped
//
// Free-running op (one self-contained scenario; only the oracles are evaluated, the reply is a constant when they hold):
//
//	storm fail=<f> nb=<0|1> rounds=<r> m=<m> k=<k>
//	               fresh client as in `new`; r times: m rescans of k blocks each with an idle consumer, then everything
//	               pending is received (nb=1: m must be 1)                       -> ok n=<number received>
//	               nb=1 m=1 k<=9: bursts of back-to-back pairs that fit the 20-slot buffer (the overflow list is never
//	               used); nb=0 k=1 m>20: single notifications ~1 ms apart that spill into the overflow list.
//
// Go-side oracles (C18's sentence on the real outputs), keys `bitcoind-client.{order,duplicate,lost,producer-blocked}`:
// what is received is exactly the enqueued sequence — same order, nothing missing, nothing twice — and the producer
// (the rescan goroutine) is never held up by an idle consumer.
package bitcoindnotif

import (
	"bytes"
	"encoding/hex"
	"encoding/json"
	"fmt"
	"math/rand"
	"net"
	"net/http"
	"runtime"
	"strconv"
	"strings"
	"sync"
	"sync/atomic"
	"time"

	"github.com/btcsuite/btcd/chaincfg"
	"github.com/btcsuite/btcd/chaincfg/chainhash"
	"github.com/btcsuite/btcd/wire"
	"github.com/btcsuite/btcwallet/chain"

	"verifharness/core"
)

const (
	// Something that MUST happen is awaited this long (a starved machine — 16 busy loops on one core — can delay a
	// runnable goroutine by seconds); waits return as soon as the thing happens, so the bound costs nothing on a
	// healthy run.  The wait for the producer is progress-based on top of that (see awaitProducer).
	longWait   = 45 * time.Second
	shortWait  = 6 * time.Millisecond // something that must NOT happen is only watched briefly: never a false alarm
	brokenWait = 80 * time.Millisecond
	queueCap   = 20 // NewConcurrentQueue(20) in (*BitcoindConn).NewBitcoindClient
)

var violatingCases int

type engine struct{}

func init() { core.Register(engine{}) }

func (engine) Name() string { return "bitcoindnotif" }

// ------------------------------------------------------------------ generator

func (engine) Generate(rng *rand.Rand, tier string) []core.Case {
	n := 36
	if tier == "thorough" {
		n = 400
	}
	var cases []core.Case
	// fixed: the retry scenario in its plainest form — first Start fails, retry, burst beyond the buffer with an idle
	// consumer, then drain everything
	// free-running scenarios first (see `storm`): retry after a failed Start, then bursts
	cases = append(cases,
		core.Case{Ops: []string{"storm fail=1 nb=1 rounds=14 m=1 k=9"}, Tags: []string{"storm", "storm-pairs-within-buffer", "fail=1"}},
		core.Case{Ops: []string{"storm fail=1 nb=0 rounds=2 m=27 k=1"}, Tags: []string{"storm", "storm-singles-overflow", "fail=1"}},
		core.Case{Ops: []string{"storm fail=2 nb=1 rounds=3 m=1 k=35"}, Tags: []string{"storm", "storm-pairs-overflow", "fail=2"}},
		core.Case{Ops: []string{"storm fail=0 nb=1 rounds=2 m=1 k=30"}, Tags: []string{"storm", "storm-pairs-overflow", "fail=0"}})
	for _, f := range []int{1, 0, 2} {
		ops := []string{fmt.Sprintf("new fail=%d nb=1", f), "rescan 30"}
		for i := 0; i < 61; i++ {
			ops = append(ops, "recv")
		}
		ops = append(ops, "recv", "crescan 25", "recv", "stop", "recv")
		cases = append(cases, core.Case{Ops: ops, Tags: []string{"fixed-retry-burst-drain", fmt.Sprintf("fail=%d", f)}})
	}
	for i := 0; i < n; i++ {
		f := []int{1, 1, 1, 0, 2, 3}[rng.Intn(6)]
		nb := 1
		if rng.Intn(4) == 0 {
			nb = 0
		}
		ops := []string{fmt.Sprintf("new fail=%d nb=%d", f, nb)}
		tags := map[string]bool{fmt.Sprintf("fail=%d", f): true, fmt.Sprintf("nb=%d", nb): true}
		per := func(k int) int { // notifications enqueued by a rescan over k blocks
			if nb == 1 {
				return 2*k + 1
			}
			return 1
		}
		pending, empties, blocks := 0, 0, 0
		max := 10 + rng.Intn(50)
		maxBlocks := 90
		for len(ops) < max {
			if blocks >= maxBlocks && pending == 0 {
				break // nothing more can be produced in this case
			}
			rescanP := 14
			if nb == 0 {
				rescanP = 45 // one notification per rescan only
			}
			p := rng.Intn(100)
			if nb == 1 && pending > queueCap && p < rescanP+6 {
				if rng.Intn(8) == 0 {
					ops = append(ops, fmt.Sprintf("rescan %d", 1+rng.Intn(5))) // refused: `busy`
					tags["busy"] = true
					continue
				}
				p = 50 // receive instead
			}
			switch {
			case p < rescanP && blocks < maxBlocks:
				k := 1 + rng.Intn(8)
				if rng.Intn(3) == 0 {
					k = 10 + rng.Intn(25) // 2k+1 > 20: the overflow list is used
					tags["burst>cap"] = true
				}
				ops = append(ops, fmt.Sprintf("rescan %d", k))
				pending += per(k)
				blocks += k
			case p < rescanP+6 && blocks < maxBlocks:
				k := 1 + rng.Intn(30)
				ops = append(ops, fmt.Sprintf("crescan %d", k))
				pending = 0
				blocks += k
				tags["concurrent-consumer"] = true
			case p < 92:
				if pending == 0 {
					if empties >= 1 {
						continue
					}
					empties++
					tags["recv-empty"] = true
				} else {
					pending--
				}
				ops = append(ops, "recv")
			default:
				// drain completely
				for ; pending > 0; pending-- {
					ops = append(ops, "recv")
				}
				tags["drain"] = true
			}
		}
		if rng.Intn(2) == 0 {
			for ; pending > 0; pending-- {
				ops = append(ops, "recv")
			}
			tags["drain"] = true
		}
		if rng.Intn(3) == 0 {
			ops = append(ops, "stop")
			for j := rng.Intn(4); j > 0; j-- {
				ops = append(ops, "recv")
			}
			tags["stop"] = true
		}
		var tl []string
		for t := range tags {
			tl = append(tl, t)
		}
		cases = append(cases, core.Case{Ops: ops, Tags: tl})
	}
	cases = append(cases, core.Case{Ops: []string{"new fail=0 nb=1", "new fail=x nb=1", "new", "new fail=1", "new fail=9 nb=0", "new fail=1 nb=2", "recv", "storm fail=1",
		"storm fail=1 nb=1 rounds=0 m=1 k=1", "storm fail=0 nb=1 rounds=1 m=2 k=1", "rescan 30", "rescan 2", "recv", "new fail=1 nb=0", "rescan", "rescan 0", "rescan x", "frob", "recv 1",
		"crescan", "rescan 2", "recv"}, Tags: []string{"malformed"}})
	return cases
}

// ------------------------------------------------------------------ fake bitcoind (HTTP POST JSON-RPC)

type fakeBitcoind struct {
	ln  net.Listener
	srv *http.Server

	mu      sync.Mutex
	headers []wire.BlockHeader
	hashes  []chainhash.Hash
	byHash  map[chainhash.Hash]int

	warmup       atomic.Int32 // number of getblockchaininfo calls still to be answered with -28
	verboseCalls atomic.Int64 // number of answered `getblockheader <hash> true` calls
	calls        atomic.Int64 // number of requests received (progress indicator of the rescan goroutine)
}

func newFakeBitcoind() (*fakeBitcoind, error) {
	ln, err := net.Listen("tcp", "127.0.0.1:0")
	if err != nil {
		return nil, err
	}
	f := &fakeBitcoind{ln: ln, byHash: map[chainhash.Hash]int{}}
	f.push(chaincfg.RegressionNetParams.GenesisBlock.Header)
	f.srv = &http.Server{Handler: http.HandlerFunc(f.serve)}
	go func() { _ = f.srv.Serve(ln) }()
	return f, nil
}

func (f *fakeBitcoind) push(h wire.BlockHeader) {
	hash := h.BlockHash()
	f.byHash[hash] = len(f.headers)
	f.headers = append(f.headers, h)
	f.hashes = append(f.hashes, hash)
}

// extend appends k blocks (timestamps far in the past of the client's birthday).
func (f *fakeBitcoind) extend(k int) {
	f.mu.Lock()
	defer f.mu.Unlock()
	for i := 0; i < k; i++ {
		tip := len(f.headers) - 1
		f.push(wire.BlockHeader{
			Version:   1,
			PrevBlock: f.hashes[tip],
			Timestamp: f.headers[tip].Timestamp.Add(10 * time.Minute),
			Bits:      0x207fffff,
			Nonce:     uint32(tip + 1),
		})
	}
}

func (f *fakeBitcoind) tip() (int, chainhash.Hash) {
	f.mu.Lock()
	defer f.mu.Unlock()
	return len(f.headers) - 1, f.hashes[len(f.hashes)-1]
}

func (f *fakeBitcoind) serve(w http.ResponseWriter, r *http.Request) {
	var req struct {
		ID     interface{}       `json:"id"`
		Method string            `json:"method"`
		Params []json.RawMessage `json:"params"`
	}
	if err := json.NewDecoder(r.Body).Decode(&req); err != nil {
		http.Error(w, err.Error(), http.StatusBadRequest)
		return
	}
	reply := func(status int, result, rpcErr interface{}) {
		w.Header().Set("Content-Type", "application/json")
		w.WriteHeader(status)
		_ = json.NewEncoder(w).Encode(map[string]interface{}{"id": req.ID, "result": result, "error": rpcErr})
	}
	rpcError := func(status, code int, msg string) {
		reply(status, nil, map[string]interface{}{"code": code, "message": msg})
	}
	f.calls.Add(1)
	f.mu.Lock()
	defer f.mu.Unlock()
	tip := len(f.headers) - 1
	switch req.Method {
	case "getinfo":
		rpcError(http.StatusNotFound, -32601, "Method not found")
	case "getnetworkinfo":
		reply(http.StatusOK, map[string]interface{}{"version": 250000, "subversion": "/Satoshi:25.0.0/"}, nil)
	case "getblockchaininfo":
		if f.warmup.Load() > 0 {
			f.warmup.Add(-1)
			rpcError(http.StatusInternalServerError, -28, "Loading block index...")
			return
		}
		reply(http.StatusOK, map[string]interface{}{"chain": "regtest", "blocks": tip, "headers": tip,
			"bestblockhash": f.hashes[tip].String(), "pruned": false, "softforks": map[string]interface{}{}}, nil)
	case "getblockhash":
		var h int
		if len(req.Params) != 1 || json.Unmarshal(req.Params[0], &h) != nil || h < 0 || h > tip {
			rpcError(http.StatusInternalServerError, -8, "Block height out of range")
			return
		}
		reply(http.StatusOK, f.hashes[h].String(), nil)
	case "getblockheader":
		var hs string
		verbose := true
		if len(req.Params) < 1 || json.Unmarshal(req.Params[0], &hs) != nil {
			rpcError(http.StatusInternalServerError, -8, "bad hash")
			return
		}
		if len(req.Params) > 1 {
			_ = json.Unmarshal(req.Params[1], &verbose)
		}
		hash, err := chainhash.NewHashFromStr(hs)
		idx, ok := 0, false
		if err == nil {
			idx, ok = f.byHash[*hash]
		}
		if !ok {
			rpcError(http.StatusInternalServerError, -5, "Block not found")
			return
		}
		hd := f.headers[idx]
		if !verbose {
			var buf bytes.Buffer
			_ = hd.Serialize(&buf)
			reply(http.StatusOK, hex.EncodeToString(buf.Bytes()), nil)
			return
		}
		res := map[string]interface{}{"hash": f.hashes[idx].String(), "confirmations": tip - idx + 1, "height": idx,
			"version": hd.Version, "versionHex": "00000001", "merkleroot": hd.MerkleRoot.String(), "time": hd.Timestamp.Unix(),
			"nonce": hd.Nonce, "bits": "207fffff", "difficulty": 1.0}
		if idx > 0 {
			res["previousblockhash"] = f.hashes[idx-1].String()
		}
		reply(http.StatusOK, res, nil)
		f.verboseCalls.Add(1)
	default:
		rpcError(http.StatusNotFound, -32601, "Method not found")
	}
}

func (f *fakeBitcoind) close() { _ = f.srv.Close() }

// ------------------------------------------------------------------ runner

// notification codes: kind*… kept as (kind, height)
type ntfn struct {
	kind string // cc | fbc | bc | fin | other
	h    int
}

func (n ntfn) String() string {
	if n.kind == "cc" || n.kind == "other" {
		return n.kind
	}
	return fmt.Sprintf("%s %d", n.kind, n.h)
}

type runner struct {
	f       *fakeBitcoind
	conn    *chain.BitcoindConn
	c       *chain.BitcoindClient
	sent    []ntfn // what the client enqueued, in order (ClientConnected excluded: consumed by `new`)
	recvd   []ntfn
	seen    map[ntfn]bool
	nb      bool // NotifyBlocks() was called: rescans enqueue the per-block notifications too
	stopped bool
	viol    []string
	broken  bool
	dead    bool // the case is decided (oracle violation): no further op touches the real code
}

func (engine) NewRunner() core.Runner { return &runner{} }

func (r *runner) Close() {
	if r.c != nil && !r.stopped {
		r.c.Stop()
	}
	if r.conn != nil {
		done := make(chan struct{})
		go func() { r.conn.Stop(); close(done) }()
		select {
		case <-done:
		case <-time.After(r.long()):
		}
	}
	if r.f != nil {
		r.f.close()
	}
	r.c, r.conn, r.f = nil, nil, nil
}

func (r *runner) v(key, format string, a ...interface{}) {
	r.viol = append(r.viol, "C18 key=bitcoind-client."+key+": "+fmt.Sprintf(format, a...))
	if !r.broken {
		r.broken = true
		violatingCases++
	}
}

func (r *runner) long() time.Duration {
	if r.broken || violatingCases > 6 {
		return brokenWait
	}
	return longWait
}

func (r *runner) flush() string {
	s := strings.Join(r.viol, "; ")
	r.viol = nil
	return s
}

func (r *runner) pending() int { return len(r.sent) - len(r.recvd) }

func classify(n interface{}) ntfn {
	switch x := n.(type) {
	case chain.ClientConnected:
		return ntfn{kind: "cc"}
	case chain.FilteredBlockConnected:
		if x.Block == nil {
			return ntfn{kind: "other"}
		}
		return ntfn{"fbc", int(x.Block.Height)}
	case chain.BlockConnected:
		return ntfn{"bc", int(x.Height)}
	case *chain.RescanFinished:
		return ntfn{"fin", int(x.Height)}
	}
	return ntfn{kind: "other"}
}

// quiesce waits until the chanOut buffer holds what a FIFO with unbounded overflow must hold; returns the length.
func (r *runner) quiesce() int {
	out := r.c.Notifications()
	if r.stopped {
		return len(out)
	}
	want := r.pending()
	if want > queueCap {
		want = queueCap
	}
	deadline := time.Now().Add(r.long())
	for i := 0; ; i++ {
		l := len(out)
		if l == want {
			return l
		}
		if time.Now().After(deadline) {
			if l < want {
				r.v("lost", "Notifications() holds %d values, %d pending (cap %d): enqueued notifications are not being moved to the consumer side", l, r.pending(), queueCap)
			} else {
				r.v("duplicate", "Notifications() holds %d values but only %d are pending", l, r.pending())
			}
			return l
		}
		if i < 100 {
			runtime.Gosched()
		} else {
			time.Sleep(20 * time.Microsecond)
		}
	}
}

// received checks one value that came out of Notifications() against the enqueued sequence.
func (r *runner) received(n ntfn) {
	idx := len(r.recvd)
	r.recvd = append(r.recvd, n)
	switch {
	case r.seen[n]:
		r.v("duplicate", "notification `%v` delivered twice (position %d)", n, idx)
	case idx >= len(r.sent):
		r.v("duplicate", "notification `%v` delivered but nothing was pending", n)
	case r.sent[idx] != n:
		r.v("order", "received `%v` at position %d, the client enqueued `%v` there", n, idx, r.sent[idx])
	}
	r.seen[n] = true
}

func (r *runner) start(fail int, nb bool) (starts, failed, cc int, err error) {
	f, err := newFakeBitcoind()
	if err != nil {
		return 0, 0, 0, err
	}
	r.f = f
	conn, err := chain.NewBitcoindConn(&chain.BitcoindConfig{
		ChainParams:   &chaincfg.RegressionNetParams,
		Host:          f.ln.Addr().String(),
		User:          "u",
		Pass:          "p",
		PollingConfig: &chain.PollingConfig{BlockPollingInterval: time.Hour, TxPollingInterval: time.Hour},
	})
	if err != nil {
		return 0, 0, 0, err
	}
	r.conn = conn
	c := conn.NewBitcoindClient()
	r.c = c
	// every block of the fake chain is older than the birthday: the rescan fetches headers only
	c.SetBirthday(time.Date(2100, 1, 1, 0, 0, 0, 0, time.UTC))

	// bitcoind is "still warming up" for the next <fail> getblockchaininfo calls
	f.warmup.Store(int32(fail))
	for starts < fail+1 {
		starts++
		if e := c.Start(); e == nil {
			break
		}
		failed++
	}
	f.warmup.Store(0)
	r.nb = nb
	if nb {
		if e := c.NotifyBlocks(); e != nil {
			return starts, failed, 0, e
		}
	}
	// the ClientConnected notification(s) dispatched by Start
	for {
		d := shortWait
		if cc == 0 {
			d = r.long()
		}
		t := time.NewTimer(d)
		select {
		case n := <-c.Notifications():
			t.Stop()
			if k := classify(n); k.kind != "cc" {
				r.v("order", "notification `%v` delivered although only ClientConnected was enqueued", k)
			}
			cc++
			continue
		case <-t.C:
			if cc == 0 {
				r.v("lost", "the ClientConnected notification dispatched by Start() is never delivered")
			}
		}
		break
	}
	return starts, failed, cc, nil
}

// rescan grows the chain by k blocks, records what the client will enqueue, and starts the real rescan.
func (r *runner) rescan(k int) (before int64, err error) {
	startH, startHash := r.f.tip()
	r.f.extend(k)
	before = r.f.verboseCalls.Load()
	if err := r.c.Rescan(&startHash, nil, nil); err != nil {
		return before, err
	}
	for h := startH + 1; r.nb && h <= startH+k; h++ {
		r.sent = append(r.sent, ntfn{"fbc", h}, ntfn{"bc", h})
	}
	r.sent = append(r.sent, ntfn{"fin", startH + k})
	return before, nil
}

// rescanDone: the rescan goroutine makes exactly three `getblockheader <hash> true` calls, the last one right before
// it enqueues RescanFinished and returns.
func (r *runner) rescanDone(before int64) bool { return r.f.verboseCalls.Load() >= before+3 }

// Exec: once an oracle has spoken the case is decided; the real client is shut down at once and the remaining ops of
// the case are answered `skipped` (a queue with two workers corrupts its overflow list and sooner or later crashes the
// process with a nil dereference inside container/list — there is nothing more to learn from running it further).
// After the first violating case the remaining cases are skipped as a whole for the same reason.
// awaitProducer: idle consumer — the rescan goroutine must get through all k blocks on its own.  The verdict is
// progress-based: `producer-blocked` only if the goroutine has made no RPC for a whole longWait.
//
// nb=0 (no NotifyBlocks, hence no ntfnHandler goroutine in the client's WaitGroup): WaitForShutdown() returns exactly
// when the rescan goroutine has returned, i.e. AFTER its `ChanIn() <- RescanFinished` completed — an exact barrier, so
// consecutive rescans are sequential producers by construction.
// nb=1: the barrier is not available (ntfnHandler lives until Stop); the goroutine's last RPC is observed instead and
// the enqueue of RescanFinished that follows it is NOT — which is why `canRescan` only lets the next rescan start
// once that RescanFinished is observably in the out-buffer or has been received.
func (r *runner) awaitProducer(before int64, k int) {
	var done chan struct{}
	if !r.nb {
		done = make(chan struct{})
		c := r.c
		go func() { c.WaitForShutdown(); close(done) }()
	}
	lastCalls, lastProgress := r.f.calls.Load(), time.Now()
	for {
		if r.nb && r.rescanDone(before) {
			return
		}
		select {
		case <-done: // nil (blocks forever) when nb=1
			return
		default:
		}
		if c := r.f.calls.Load(); c != lastCalls {
			lastCalls, lastProgress = c, time.Now()
		}
		if time.Since(lastProgress) > r.long() {
			r.v("producer-blocked", "rescan of %d blocks: the rescan goroutine has made no progress for %v — it is stuck "+
				"enqueueing a notification while the consumer is idle (pending %d)", k, r.long(), r.pending())
			return
		}
		time.Sleep(50 * time.Microsecond)
	}
}

// canRescan: the harness may start the next producer only when the previous one has provably enqueued everything.
// nb=0: always (exact barrier, or everything was received).  nb=1: when everything still pending sits in the 20-slot
// out-buffer (then the previous RescanFinished, the last thing enqueued, is in there too) — with more than 20 pending
// the tail is in the overflow list or still on its way, which cannot be told apart from outside.
func (r *runner) canRescan() bool {
	if !r.nb {
		return true
	}
	return r.pending() <= queueCap && r.quiesce() == r.pending()
}

// recvOne receives one notification (waiting d) and runs the oracles on it.
func (r *runner) recvOne(d time.Duration) (ntfn, bool) {
	t := time.NewTimer(d)
	defer t.Stop()
	select {
	case n := <-r.c.Notifications():
		k := classify(n)
		r.received(k)
		return k, true
	case <-t.C:
		return ntfn{}, false
	}
}

// storm: see the package comment.  Stops at the first oracle violation.
func (r *runner) storm(rounds, m, k int) (string, string) {
	got := 0
	for round := 0; round < rounds && len(r.viol) == 0; round++ {
		for i := 0; i < m && len(r.viol) == 0; i++ {
			before, err := r.rescan(k)
			if err != nil {
				return "rescan-failed", ""
			}
			r.awaitProducer(before, k)
		}
		r.quiesce()
		for r.pending() > 0 && len(r.viol) == 0 {
			if _, ok := r.recvOne(r.long()); !ok {
				r.v("lost", "%d notifications pending but receive timed out", r.pending())
				break
			}
			got++
			if !r.nb {
				time.Sleep(100 * time.Microsecond) // let the worker finish its bookkeeping before the next slot frees up
			}
		}
		// nothing may arrive beyond what was enqueued
		if len(r.viol) == 0 {
			if _, ok := r.recvOne(shortWait); ok {
				got++
			}
		}
	}
	if len(r.viol) > 0 {
		return "bad", r.flush()
	}
	r.Close() // a storm is a whole scenario: later ops need a `new`
	return fmt.Sprintf("ok n=%d", got), ""
}

func (r *runner) Exec(op string) (string, string) {
	if r.dead {
		return "skipped", ""
	}
	reply, viol := r.exec(op)
	if viol != "" {
		r.Close()
		r.dead = true
	}
	return reply, viol
}

func (r *runner) exec(op string) (string, string) {
	f := strings.Fields(op)
	if len(f) == 0 {
		return "bad-op", ""
	}
	if (f[0] == "new" && len(f) == 3) || (f[0] == "storm" && len(f) == 6) {
		_, kv := core.KV(op)
		fail, e1 := strconv.Atoi(kv["fail"])
		nb, e2 := strconv.Atoi(kv["nb"])
		if e1 != nil || e2 != nil || fail < 0 || fail > 8 || nb < 0 || nb > 1 {
			return "bad-op", ""
		}
		var rounds, m, k int
		if f[0] == "storm" {
			var e3, e4, e5 error
			rounds, e3 = strconv.Atoi(kv["rounds"])
			m, e4 = strconv.Atoi(kv["m"])
			k, e5 = strconv.Atoi(kv["k"])
			if e3 != nil || e4 != nil || e5 != nil || rounds <= 0 || m <= 0 || k <= 0 || rounds*m*k > 5000 || (nb == 1 && m != 1) {
				return "bad-op", "" // nb=1: one producer at a time, see canRescan
			}
		}
		r.Close()
		if violatingCases >= 1 {
			*r = runner{dead: true}
			return "skipped", ""
		}
		*r = runner{seen: map[ntfn]bool{}}
		starts, failed, cc, err := r.start(fail, nb == 1)
		if err != nil {
			return "start-failed " + strings.ReplaceAll(err.Error(), " ", "_"), r.flush()
		}
		if f[0] == "new" {
			return fmt.Sprintf("ok starts=%d failed=%d cc=%d", starts, failed, cc), r.flush()
		}
		return r.storm(rounds, m, k)
	}
	if r.c == nil {
		return "bad-op", ""
	}
	switch {
	case (f[0] == "rescan" || f[0] == "crescan") && len(f) == 2:
		k, err := strconv.Atoi(f[1])
		if err != nil || k <= 0 || k > 5000 {
			return "bad-op", ""
		}
		if r.stopped {
			return "bad-op", "" // never generated
		}
		if r.nb && r.pending() > queueCap {
			return "busy", "" // the previous rescan's RescanFinished is not observably enqueued yet
		}
		if !r.canRescan() {
			return "busy", r.flush() // quiesce has reported `lost`
		}
		before, err := r.rescan(k)
		if err != nil {
			return "rescan-failed", ""
		}
		if f[0] == "rescan" {
			r.awaitProducer(before, k)
			return fmt.Sprintf("ok len=%d", r.quiesce()), r.flush()
		}
		// slow concurrent consumer: receive until everything pending has arrived
		rng := rand.New(rand.NewSource(int64(k)*7919 + int64(len(r.sent))))
		got := 0
		for r.pending() > 0 {
			if rng.Intn(3) == 0 {
				time.Sleep(time.Duration(rng.Intn(150)) * time.Microsecond)
			}
			t := time.NewTimer(r.long())
			select {
			case n := <-r.c.Notifications():
				t.Stop()
				r.received(classify(n))
				got++
				continue
			case <-t.C:
				r.v("lost", "%d notifications pending but receive timed out", r.pending())
			}
			break
		}
		return fmt.Sprintf("ok got=%d len=%d", got, r.quiesce()), r.flush()
	case f[0] == "recv" && len(f) == 1:
		d := shortWait
		expect := len(r.c.Notifications()) > 0 || (!r.stopped && r.pending() > 0)
		if expect {
			d = r.long()
		}
		t := time.NewTimer(d)
		defer t.Stop()
		select {
		case n := <-r.c.Notifications():
			k := classify(n)
			r.received(k)
			if k.kind == "cc" || k.kind == "other" {
				return fmt.Sprintf("got %v", k), r.flush()
			}
			return fmt.Sprintf("got %v len=%d", k, r.quiesce()), r.flush()
		case <-t.C:
			if expect {
				r.v("lost", "%d notifications pending but receive timed out after %v", r.pending(), d)
			}
			return fmt.Sprintf("empty len=%d", r.quiesce()), r.flush()
		}
	case f[0] == "stop" && len(f) == 1:
		if !r.stopped {
			r.quiesce()
			r.c.Stop()
			r.stopped = true
		}
		return "stopped", r.flush()
	}
	return "bad-op", ""
}
