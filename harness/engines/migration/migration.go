package migration

import (
	"errors"
	"fmt"
	"math/rand"
	"os"
	"path/filepath"
	"sort"
	"strconv"
	"strings"
	"time"


	"github.com/btcsuite/btcd/chaincfg"
	"github.com/btcsuite/btcd/chaincfg/chainhash"
	"github.com/btcsuite/btcd/wire"
	"github.com/btcsuite/btcwallet/snacl"
	"github.com/btcsuite/btcwallet/waddrmgr"
	"github.com/btcsuite/btcwallet/wallet"
	"github.com/btcsuite/btcwallet/walletdb"
	_ "github.com/btcsuite/btcwallet/walletdb/bdb"
	"github.com/btcsuite/btcwallet/walletdb/migration"
	"github.com/btcsuite/btcwallet/wtxmgr"

	"verifharness/core"
)

// ---- engine "migration" (C19): walletdb/migration.Upgrade on a real bdb database ----

type migEngine struct{}

func init() { core.Register(migEngine{}) }

func (migEngine) Name() string { return "migration" }

func (migEngine) Generate(rng *rand.Rand, tier string) []core.Case {
	n := 1500
	if tier == "thorough" {
		n = 40000
	}
	var cases []core.Case
	var ops []string
	add := func(op string) {
		ops = append(ops, op)
		if len(ops) == 50 {
			cases = append(cases, core.Case{Ops: ops})
			ops = nil
		}
	}
	// exhaustive small scope: tables <= 3 entries over numbers {1,2,3}, nil or not, stored version 0..4,
	// failure at each number or none, in tx / not, setversion failing or not
	if tier == "thorough" {
		type ent struct {
			n   int
			nil_ bool
		}
		var ents []ent
		for n := 1; n <= 3; n++ {
			ents = append(ents, ent{n, false}, ent{n, true})
		}
		var tables [][]ent
		tables = append(tables, nil)
		for _, a := range ents {
			tables = append(tables, []ent{a})
			for _, b := range ents {
				tables = append(tables, []ent{a, b})
				for _, c := range ents {
					tables = append(tables, []ent{a, b, c})
				}
			}
		}
		for _, t := range tables {
			var vs []string
			for i, e := range t {
				if e.nil_ {
					vs = append(vs, fmt.Sprintf("%d:nil", e.n))
				} else {
					vs = append(vs, fmt.Sprintf("%d:%d", e.n, 100+i))
				}
			}
			for cur := 0; cur <= 4; cur++ {
				for fail := 0; fail <= 3; fail++ {
					fn := ""
					if fail > 0 {
						fn = strconv.Itoa(fail)
					}
					for tx := 0; tx <= 1; tx++ {
						add(fmt.Sprintf("up cur=%d sf=0 tx=%d vs=%s failnums=%s", cur, tx, strings.Join(vs, ","), fn))
					}
				}
				add(fmt.Sprintf("up cur=%d sf=1 tx=1 vs=%s failnums=", cur, strings.Join(vs, ",")))
			}
		}
	}
	// real wallet.Open on databases whose component versions are behind / at / ahead of the software
	{
		tl, al := realLatest()
		for _, tc := range []int{tl - 1, tl, tl + 1} {
			for _, ac := range []int{al, al + 1} {
				add(fmt.Sprintf("wopen txcur=%d txlatest=%d addrcur=%d addrlatest=%d", tc, tl, ac, al))
			}
		}
	}
	// two upgrades sharing one table slice in one process
	for i := 0; i < n/10+20; i++ {
		k := 1 + rng.Intn(6)
		var vs []string
		used := map[int]bool{}
		for j := 0; j < k; j++ {
			num := 1 + rng.Intn(k+2)
			for t := 0; used[num] && t < 8; t++ {
				num = 1 + rng.Intn(k+3)
			}
			used[num] = true
			if rng.Intn(5) == 0 {
				vs = append(vs, fmt.Sprintf("%d:nil", num))
			} else {
				vs = append(vs, fmt.Sprintf("%d:%d", num, 100+j))
			}
		}
		add(fmt.Sprintf("up2 cur1=%d cur2=%d vs=%s", rng.Intn(k+3), rng.Intn(k+3), strings.Join(vs, ",")))
	}
	for i := 0; i < n; i++ {
		k := rng.Intn(9)
		if rng.Intn(20) == 0 {
			k = 13 + rng.Intn(30) // long tables: sort.Slice leaves insertion-sort territory
		}
		maxNum := 1 + rng.Intn(12)
		var vs []string
		nums := map[int]bool{}
		for j := 0; j < k; j++ {
			num := 1 + rng.Intn(maxNum)
			if rng.Intn(4) != 0 { // mostly distinct numbers, sometimes duplicates
				for t := 0; nums[num] && t < 5; t++ {
					num = 1 + rng.Intn(maxNum+k)
				}
			}
			nums[num] = true
			if rng.Intn(5) == 0 {
				vs = append(vs, fmt.Sprintf("%d:nil", num))
			} else {
				vs = append(vs, fmt.Sprintf("%d:%d", num, 100+j))
			}
		}
		cur := rng.Intn(maxNum + k + 3)
		curS := strconv.Itoa(cur)
		if rng.Intn(40) == 0 {
			curS = "err"
		}
		var fn []string
		if rng.Intn(2) == 0 && len(nums) > 0 {
			for num := range nums {
				if rng.Intn(3) == 0 {
					fn = append(fn, strconv.Itoa(num))
				}
			}
			sort.Strings(fn)
		}
		sf := 0
		if rng.Intn(8) == 0 {
			sf = 1
		}
		add(fmt.Sprintf("up cur=%s sf=%d tx=%d vs=%s failnums=%s", curS, sf, rng.Intn(2), strings.Join(vs, ","), strings.Join(fn, ",")))
	}
	if len(ops) > 0 {
		cases = append(cases, core.Case{Ops: ops})
	}
	return cases
}

type migRunner struct {
	dir string
	db  walletdb.DB
	n   int
}

func (migEngine) NewRunner() core.Runner {
	dir, err := os.MkdirTemp("", "vxmig")
	if err != nil {
		panic(err)
	}
	db, err := walletdb.Create("bdb", filepath.Join(dir, "m.db"), true, 10*time.Second, false)
	if err != nil {
		panic(err)
	}
	return &migRunner{dir: dir, db: db}
}

func (r *migRunner) Close() {
	r.db.Close()
	os.RemoveAll(r.dir)
}

var errMig = errors.New("migration failed")
var errSetVer = errors.New("set version failed")
var errCurVer = errors.New("current version failed")

type migMgr struct {
	ns       walletdb.ReadWriteBucket
	vs       []migration.Version
	curErr   bool
	setFails bool
	trace    *[]string
}

func (m *migMgr) Name() string                          { return "vx" }
func (m *migMgr) Namespace() walletdb.ReadWriteBucket    { return m.ns }
func (m *migMgr) Versions() []migration.Version          { return m.vs }
func (m *migMgr) CurrentVersion(b walletdb.ReadBucket) (uint32, error) {
	if m.curErr {
		return 0, errCurVer
	}
	v := m.ns.Get([]byte("version"))
	n, _ := strconv.Atoi(string(v))
	return uint32(n), nil
}
func (m *migMgr) SetVersion(b walletdb.ReadWriteBucket, v uint32) error {
	if m.setFails {
		*m.trace = append(*m.trace, fmt.Sprintf("x%d", v))
		return errSetVer
	}
	*m.trace = append(*m.trace, fmt.Sprintf("s%d", v))
	return b.Put([]byte("version"), []byte(strconv.Itoa(int(v))))
}

// up2: TWO upgrades in one process whose managers return the SAME shared version table (as the package-level tables
// of wtxmgr / waddrmgr are shared by every wallet opened in a process). Each upgrade must behave as if it were alone.
func (r *migRunner) up2(kv map[string]string) (string, string) {
	type decl struct {
		n, id int
		nil_  bool
	}
	var decls []decl
	var shared []migration.Version
	var calls *[]string
	for _, t := range core.CSV(kv["vs"]) {
		p := strings.Split(t, ":")
		if len(p) != 2 {
			return "bad-op", ""
		}
		n, err := strconv.Atoi(p[0])
		if err != nil {
			return "bad-op", ""
		}
		if p[1] == "nil" {
			shared = append(shared, migration.Version{Number: uint32(n)})
			decls = append(decls, decl{n, 0, true})
			continue
		}
		id, err := strconv.Atoi(p[1])
		if err != nil {
			return "bad-op", ""
		}
		decls = append(decls, decl{n, id, false})
		n2, id2 := n, id
		shared = append(shared, migration.Version{Number: uint32(n), Migration: func(b walletdb.ReadWriteBucket) error {
			*calls = append(*calls, fmt.Sprintf("a%d:%d", n2, id2))
			return nil
		}})
	}
	var out, viol []string
	for i, key := range []string{"cur1", "cur2"} {
		cur, err := strconv.Atoi(kv[key])
		if err != nil {
			return "bad-op", ""
		}
		r.n++
		bucket := []byte(fmt.Sprintf("ns%d", r.n))
		var tr []string
		calls = &tr
		var upErr error
		_ = walletdb.Update(r.db, func(tx walletdb.ReadWriteTx) error {
			b, err := tx.CreateTopLevelBucket(bucket)
			if err != nil {
				return err
			}
			if err := b.Put([]byte("version"), []byte(strconv.Itoa(cur))); err != nil {
				return err
			}
			m := &migMgr{ns: b, vs: shared, trace: &tr} // the SAME slice for both upgrades
			upErr = migration.Upgrade(m)
			return upErr
		})
		// expected from the DECLARED table
		maxNum := 0
		var want []string
		type pn struct{ n, id int }
		var pend []pn
		for _, d := range decls {
			if d.n > maxNum {
				maxNum = d.n
			}
			if !d.nil_ && d.n > cur {
				pend = append(pend, pn{d.n, d.id})
			}
		}
		sort.Slice(pend, func(a, b int) bool {
			if pend[a].n != pend[b].n {
				return pend[a].n < pend[b].n
			}
			return pend[a].id < pend[b].id
		})
		if cur < maxNum {
			for _, p := range pend {
				want = append(want, fmt.Sprintf("a%d:%d", p.n, p.id))
			}
			want = append(want, fmt.Sprintf("s%d", maxNum))
		}
		// canonicalise ties like the single-upgrade op does (applied events sorted by number,id; rest after)
		var app, rest []string
		for _, e := range tr {
			if strings.HasPrefix(e, "a") {
				app = append(app, e)
			} else {
				rest = append(rest, e)
			}
		}
		sort.SliceStable(app, func(a, b int) bool {
			var n1, i1, n2, i2 int
			fmt.Sscanf(app[a], "a%d:%d", &n1, &i1)
			fmt.Sscanf(app[b], "a%d:%d", &n2, &i2)
			if n1 != n2 {
				return n1 < n2
			}
			return i1 < i2
		})
		got := append(app, rest...)
		es := "none"
		if upErr != nil {
			if errors.Is(upErr, migration.ErrReversion) {
				es = "reversion"
			} else {
				es = "other"
			}
		}
		out = append(out, fmt.Sprintf("err%d=%s t%d=%s", i+1, es, i+1, strings.Join(got, ",")))
		if cur <= maxNum && strings.Join(got, ",") != strings.Join(want, ",") {
			viol = append(viol, fmt.Sprintf("C19 key=Upgrade.shared-table-second-upgrade: upgrade #%d from version %d ran [%s], the declared table requires [%s]",
				i+1, cur, strings.Join(tr, ","), strings.Join(want, ",")))
		}
	}
	return strings.Join(out, " "), strings.Join(viol, "; ")
}

func realLatest() (int, int) {
	tl := migration.GetLatestVersion(append([]migration.Version{}, wtxmgr.NewMigrationManager(nil).Versions()...))
	al := migration.GetLatestVersion(append([]migration.Version{}, waddrmgr.NewMigrationManager(nil).Versions()...))
	return int(tl), int(al)
}

var wtxmgrNS = []byte("wtxmgr")
var waddrmgrNS = []byte("waddrmgr")

func dumpBucket(b walletdb.ReadBucket, prefix string, out *[]string) {
	_ = b.ForEach(func(k, v []byte) error {
		if v == nil {
			if nb := b.NestedReadBucket(k); nb != nil {
				*out = append(*out, fmt.Sprintf("%s/%x/", prefix, k))
				dumpBucket(nb, fmt.Sprintf("%s/%x", prefix, k), out)
				return nil
			}
		}
		*out = append(*out, fmt.Sprintf("%s/%x=%x", prefix, k, v))
		return nil
	})
}

func dumpNS(db walletdb.DB, ns []byte) string {
	var out []string
	_ = walletdb.View(db, func(tx walletdb.ReadTx) error {
		dumpBucket(tx.ReadBucket(ns), string(ns), &out)
		return nil
	})
	return strings.Join(out, "\n")
}

// wopen: create a real wallet database, set the stored component versions, call wallet.Open, observe.
func (r *migRunner) wopen(kv map[string]string) (string, string) {
	tc, e1 := strconv.Atoi(kv["txcur"])
	ac, e2 := strconv.Atoi(kv["addrcur"])
	tl, al := realLatest()
	gtl, _ := strconv.Atoi(kv["txlatest"])
	gal, _ := strconv.Atoi(kv["addrlatest"])
	if e1 != nil || e2 != nil || gtl != tl || gal != al {
		return "bad-op", ""
	}
	old := waddrmgr.SetSecretKeyGen(func(p *[]byte, _ *waddrmgr.ScryptOptions) (*snacl.SecretKey, error) {
		return snacl.NewSecretKey(p, 16, 8, 1)
	})
	defer waddrmgr.SetSecretKeyGen(old)
	r.n++
	db, err := walletdb.Create("bdb", filepath.Join(r.dir, fmt.Sprintf("w%d.db", r.n)), true, 10*time.Second, false)
	if err != nil {
		panic(err)
	}
	defer db.Close()
	pub := []byte("pub")
	if err := wallet.Create(db, pub, []byte("priv"), nil, &chaincfg.SimNetParams, time.Now()); err != nil {
		panic(err)
	}
	err = walletdb.Update(db, func(tx walletdb.ReadWriteTx) error {
		txNs := tx.ReadWriteBucket(wtxmgrNS)
		addrNs := tx.ReadWriteBucket(waddrmgrNS)
		store, err := wtxmgr.Open(txNs, &chaincfg.SimNetParams)
		if err != nil {
			return err
		}
		m := wire.NewMsgTx(2)
		m.AddTxIn(wire.NewTxIn(wire.NewOutPoint(&chainhash.Hash{1}, 0), nil, nil))
		m.AddTxOut(wire.NewTxOut(100000, []byte{0x51}))
		rec, err := wtxmgr.NewTxRecordFromMsgTx(m, time.Now())
		if err != nil {
			return err
		}
		if err := store.InsertTx(txNs, rec, nil); err != nil {
			return err
		}
		if err := wtxmgr.NewMigrationManager(txNs).SetVersion(nil, uint32(tc)); err != nil {
			return err
		}
		return waddrmgr.NewMigrationManager(addrNs).SetVersion(nil, uint32(ac))
	})
	if err != nil {
		panic(err)
	}
	beforeTx, beforeAddr := dumpNS(db, wtxmgrNS), dumpNS(db, waddrmgrNS)
	w, openErr := wallet.Open(db, pub, nil, &chaincfg.SimNetParams, 10)
	_ = w
	afterTx, afterAddr := dumpNS(db, wtxmgrNS), dumpNS(db, waddrmgrNS)
	var tv, av uint32
	_ = walletdb.View(db, func(tx walletdb.ReadTx) error {
		tv, _ = wtxmgr.NewMigrationManager(tx.ReadBucket(wtxmgrNS).(walletdb.ReadWriteBucket)).CurrentVersion(nil)
		av, _ = waddrmgr.NewMigrationManager(tx.ReadBucket(waddrmgrNS).(walletdb.ReadWriteBucket)).CurrentVersion(nil)
		return nil
	})
	es := "none"
	if openErr != nil {
		if errors.Is(openErr, migration.ErrReversion) {
			es = "reversion"
		} else {
			es = "other:" + openErr.Error()
		}
	}
	// data of the tx manager changed (beyond the version key)? compare unmined-tx presence
	txdata := 0
	if int(tv) != tc && beforeTx != afterTx {
		txdata = 1
	}
	viol := ""
	if openErr != nil && (beforeTx != afterTx || beforeAddr != afterAddr) {
		viol = "C19 key=wallet.Open.failed-upgrade-modified-db: wallet.Open failed (" + es + ") but the database was modified"
	}
	if openErr == nil && (int(tv) != tl || int(av) != al) {
		viol = "C19: wallet.Open succeeded but a component is not at its latest version"
	}
	return fmt.Sprintf("err=%s txver=%d addrver=%d txdata=%d", es, tv, av, txdata), viol
}

func (r *migRunner) Exec(op string) (string, string) {
	name, kv := core.KV(op)
	if name == "wopen" {
		return r.wopen(kv)
	}
	if name == "up2" {
		return r.up2(kv)
	}
	if name != "up" {
		return "bad-op", ""
	}
	r.n++
	bucket := []byte(fmt.Sprintf("ns%d", r.n))
	failNums := map[int]bool{}
	for _, s := range core.CSV(kv["failnums"]) {
		n, err := strconv.Atoi(s)
		if err != nil {
			return "bad-op", ""
		}
		failNums[n] = true
	}
	type app struct{ n, id int }
	var applied []app
	var rest []string
	var order []int // numbers in the order migrations were invoked (incl. failing)
	var vs []migration.Version
	type decl struct {
		n   int
		id  int
		nil_ bool
	}
	var decls []decl
	for _, t := range core.CSV(kv["vs"]) {
		p := strings.Split(t, ":")
		if len(p) != 2 {
			return "bad-op", ""
		}
		n, err := strconv.Atoi(p[0])
		if err != nil {
			return "bad-op", ""
		}
		if p[1] == "nil" {
			vs = append(vs, migration.Version{Number: uint32(n)})
			decls = append(decls, decl{n, 0, true})
			continue
		}
		id, err := strconv.Atoi(p[1])
		if err != nil {
			return "bad-op", ""
		}
		decls = append(decls, decl{n, id, false})
		n2, id2 := n, id
		vs = append(vs, migration.Version{Number: uint32(n), Migration: func(b walletdb.ReadWriteBucket) error {
			order = append(order, n2)
			if failNums[n2] {
				rest = append(rest, fmt.Sprintf("f%d", n2))
				return errMig
			}
			applied = append(applied, app{n2, id2})
			return b.Put([]byte(fmt.Sprintf("mig%d", id2)), []byte{1})
		}})
	}
	declared := append([]migration.Version{}, vs...) // Upgrade sorts vs in place; keep the declared order
	curErr := kv["cur"] == "err"
	cur := 0
	if !curErr {
		var err error
		cur, err = strconv.Atoi(kv["cur"])
		if err != nil {
			return "bad-op", ""
		}
	}
	// prepare namespace with stored version
	err := walletdb.Update(r.db, func(tx walletdb.ReadWriteTx) error {
		b, err := tx.CreateTopLevelBucket(bucket)
		if err != nil {
			return err
		}
		return b.Put([]byte("version"), []byte(strconv.Itoa(cur)))
	})
	if err != nil {
		panic(err)
	}
	var upErr error
	inTx := kv["tx"] == "1"
	run := func(tx walletdb.ReadWriteTx) error {
		m := &migMgr{ns: tx.ReadWriteBucket(bucket), vs: vs, curErr: curErr, setFails: kv["sf"] == "1", trace: &rest}
		upErr = migration.Upgrade(m)
		return upErr
	}
	if inTx {
		_ = walletdb.Update(r.db, run)
	} else {
		// not one managed transaction: commit whatever was written even if Upgrade failed
		_ = walletdb.Update(r.db, func(tx walletdb.ReadWriteTx) error { _ = run(tx); return nil })
	}
	// read back
	ver := 0
	var data []int
	_ = walletdb.View(r.db, func(tx walletdb.ReadTx) error {
		b := tx.ReadBucket(bucket)
		ver, _ = strconv.Atoi(string(b.Get([]byte("version"))))
		return b.ForEach(func(k, v []byte) error {
			if strings.HasPrefix(string(k), "mig") {
				id, _ := strconv.Atoi(string(k[3:]))
				data = append(data, id)
			}
			return nil
		})
	})
	sort.Ints(data)
	sort.Slice(applied, func(i, j int) bool {
		if applied[i].n != applied[j].n {
			return applied[i].n < applied[j].n
		}
		return applied[i].id < applied[j].id
	})
	var tr []string
	for _, a := range applied {
		tr = append(tr, fmt.Sprintf("a%d:%d", a.n, a.id))
	}
	tr = append(tr, rest...)
	es := "none"
	switch {
	case upErr == nil:
	case errors.Is(upErr, migration.ErrReversion):
		es = "reversion"
	case errors.Is(upErr, errMig):
		es = fmt.Sprintf("migration:%d", order[len(order)-1])
	case errors.Is(upErr, errSetVer):
		es = "setversion"
	case errors.Is(upErr, errCurVer):
		es = "currentversion"
	default:
		es = "other:" + upErr.Error()
	}
	if curErr {
		return fmt.Sprintf("err=%s trace=%s", es, strings.Join(tr, ",")), ""
	}
	var viol []string
	// also exercise the exported helpers
	toApply := migration.VersionsToApply(uint32(cur), append([]migration.Version{}, declared...))
	var ta []string
	for _, v := range toApply {
		ta = append(ta, strconv.Itoa(int(v.Number)))
	}
	latest := migration.GetLatestVersion(append([]migration.Version{}, declared...))
	for i := 1; i < len(toApply); i++ {
		if toApply[i-1].Number > toApply[i].Number {
			viol = append(viol, "C19: VersionsToApply result not ascending")
			break
		}
	}
	ds := make([]string, len(data))
	for i, d := range data {
		ds[i] = strconv.Itoa(d)
	}
	reply := fmt.Sprintf("err=%s trace=%s ver=%d data=%s toapply=%s latest=%d", es, strings.Join(tr, ","), ver, strings.Join(ds, ","), strings.Join(ta, ","), latest)

	// ---- property oracle on the REAL outputs (independent of the Lean model) ----
	maxNum := 0
	pend := map[int]int{} // id -> number, non-nil pending
	for _, d := range decls {
		if d.n > maxNum {
			maxNum = d.n
		}
		if !d.nil_ && d.n > cur {
			pend[d.id] = d.n
		}
	}
	if !sort.IntsAreSorted(order) {
		viol = append(viol, "migrations invoked out of ascending order")
	}
	seen := map[int]bool{}
	for _, a := range applied {
		if seen[a.id] {
			viol = append(viol, "migration applied twice")
		}
		seen[a.id] = true
		if _, ok := pend[a.id]; !ok {
			viol = append(viol, "non-pending migration applied")
		}
	}
	switch {
	case cur > maxNum:
		if es != "reversion" || ver != cur || len(data) != 0 || len(order) != 0 {
			viol = append(viol, "newer database not refused untouched")
		}
	case upErr == nil:
		if ver != maxNum {
			viol = append(viol, "latest version not recorded after success")
		}
		if cur < maxNum {
			for id := range pend {
				if !seen[id] {
					viol = append(viol, "pending migration skipped")
				}
			}
			if len(rest) == 0 || rest[len(rest)-1] != fmt.Sprintf("s%d", maxNum) {
				viol = append(viol, "version not recorded last")
			}
		}
	default:
		if ver != cur {
			viol = append(viol, "stored version changed although upgrade failed")
		}
		if inTx && len(data) != 0 {
			viol = append(viol, "data changed although upgrade failed inside one transaction")
		}
	}
	return reply, strings.Join(viol, "; ")
}
