// Package author: engine "author" (C07).
//
// Runs the REAL txauthor.NewUnsignedTransaction (and txsizes / txrules functions) on generated requests, really signs
// the result with generated keys (txauthor.AddAllInputScripts), executes the script engine on every input and measures
// the signed transaction with blockchain.GetTransactionWeight / mempool.GetTxVirtualSize.  The canonical reply is
// compared with the Lean model by bin/check; the property oracles below are evaluated on the real outputs only.
package author

import (
	"bytes"
	"crypto/sha256"
	"encoding/binary"
	"errors"
	"fmt"
	"math/rand"
	"strconv"
	"strings"

	"github.com/btcsuite/btcd/blockchain"
	"github.com/btcsuite/btcd/btcec/v2"
	"github.com/btcsuite/btcd/btcutil"
	"github.com/btcsuite/btcd/chaincfg"
	"github.com/btcsuite/btcd/chaincfg/chainhash"
	"github.com/btcsuite/btcd/mempool"
	"github.com/btcsuite/btcd/txscript"
	"github.com/btcsuite/btcd/wire"
	"github.com/btcsuite/btcwallet/wallet/txauthor"
	"github.com/btcsuite/btcwallet/wallet/txrules"
	"github.com/btcsuite/btcwallet/wallet/txsizes"

	"verifharness/core"
)

type engine struct{}

func init() { core.Register(engine{}) }

func (engine) Name() string { return "author" }

var params = &chaincfg.MainNetParams

// ------------------------------------------------------------------------------------------------ scripts & keys

func h(tag string, i int, n int) []byte {
	var out []byte
	for c := 0; len(out) < n; c++ {
		var b [16]byte
		binary.BigEndian.PutUint64(b[:8], uint64(i))
		binary.BigEndian.PutUint64(b[8:], uint64(c))
		s := sha256.Sum256(append([]byte("vx-author-"+tag), b[:]...))
		out = append(out, s[:]...)
	}
	return out[:n]
}

var keyCache = map[int]*btcec.PrivateKey{}

func keyFor(i int) *btcec.PrivateKey {
	if k, ok := keyCache[i]; ok {
		return k
	}
	k, _ := btcec.PrivKeyFromBytes(h("key", i, 32))
	if len(keyCache) < 200000 {
		keyCache[i] = k
	}
	return k
}

func natSuffix(tok, pfx string) (int, bool) {
	if !strings.HasPrefix(tok, pfx) {
		return 0, false
	}
	r := tok[len(pfx):]
	if r == "" || (len(r) > 1 && r[0] == '0') || len(r) > 7 {
		return 0, false
	}
	for _, c := range r {
		if c < '0' || c > '9' {
			return 0, false
		}
	}
	n, err := strconv.Atoi(r)
	return n, err == nil
}

// buildScript builds a real script for a protocol token.  `key` (>= 0) selects the key pair for the four key-spend
// classes (so the coin can be signed); key < 0 uses arbitrary hash bytes.
func buildScript(tok string, key int) ([]byte, bool) {
	pub := keyFor(abs(key) + 1).PubKey()
	pkHash := btcutil.Hash160(pub.SerializeCompressed())
	switch tok {
	case "pkh":
		s, _ := txscript.NewScriptBuilder().AddOp(txscript.OP_DUP).AddOp(txscript.OP_HASH160).AddData(pkHash).
			AddOp(txscript.OP_EQUALVERIFY).AddOp(txscript.OP_CHECKSIG).Script()
		return s, true
	case "sh":
		wp, _ := txscript.NewScriptBuilder().AddOp(txscript.OP_0).AddData(pkHash).Script()
		s, _ := txscript.NewScriptBuilder().AddOp(txscript.OP_HASH160).AddData(btcutil.Hash160(wp)).AddOp(txscript.OP_EQUAL).Script()
		return s, true
	case "wpkh":
		s, _ := txscript.NewScriptBuilder().AddOp(txscript.OP_0).AddData(pkHash).Script()
		return s, true
	case "wsh":
		s, _ := txscript.NewScriptBuilder().AddOp(txscript.OP_0).AddData(h("wsh", key, 32)).Script()
		return s, true
	case "tr":
		s, _ := txscript.PayToTaprootScript(txscript.ComputeTaprootKeyNoScript(pub))
		return s, true
	case "pk":
		s, _ := txscript.NewScriptBuilder().AddData(pub.SerializeCompressed()).AddOp(txscript.OP_CHECKSIG).Script()
		return s, true
	}
	if n, ok := natSuffix(tok, "wit"); ok {
		if n < 2 || n > 40 {
			return nil, false
		}
		return append([]byte{txscript.OP_2, byte(n)}, h("wit", key, n)...), true
	}
	if n, ok := natSuffix(tok, "nd"); ok {
		switch {
		case n == 1:
			return []byte{txscript.OP_RETURN}, true
		case n >= 3 && n <= 77:
			return append([]byte{txscript.OP_RETURN, byte(n - 2)}, h("nd", key, n-2)...), true
		case n >= 79 && n <= 83:
			return append([]byte{txscript.OP_RETURN, txscript.OP_PUSHDATA1, byte(n - 3)}, h("nd", key, n-3)...), true
		}
		return nil, false
	}
	if n, ok := natSuffix(tok, "ret"); ok {
		if n < 3 || n > 100000 {
			return nil, false
		}
		return append([]byte{txscript.OP_RETURN}, bytes.Repeat([]byte{txscript.OP_1}, n-1)...), true
	}
	if n, ok := natSuffix(tok, "raw"); ok {
		if n > 100000 {
			return nil, false
		}
		return bytes.Repeat([]byte{txscript.OP_1}, n), true
	}
	return nil, false
}

func abs(i int) int {
	if i < 0 {
		return -i
	}
	return i
}

func b01(b bool) string {
	if b {
		return "1"
	}
	return "0"
}

// secrets implements txauthor.SecretsSource over the generated keys.
type secrets struct{ keys map[string]*btcec.PrivateKey }

func (s secrets) GetKey(a btcutil.Address) (*btcec.PrivateKey, bool, error) {
	k, ok := s.keys[a.EncodeAddress()]
	if !ok {
		return nil, false, errors.New("no key")
	}
	return k, true, nil
}
func (s secrets) GetScript(a btcutil.Address) ([]byte, error) { return nil, errors.New("no script") }
func (s secrets) ChainParams() *chaincfg.Params              { return params }

// ------------------------------------------------------------------------------------------------ request parsing

type coin struct {
	val    int64
	tok    string
	script []byte
	key    int
}

type request struct {
	rate    int64
	outs    []*wire.TxOut
	csSize  int
	csTok   string
	csScr   []byte
	coins   []coin
	src     string
	failAt  int
	sigs    []int
	hasSigs bool
}

func parseInt(s string) (int64, bool) {
	if s == "" || s == "-" || s == "+" {
		return 0, false
	}
	// Lean's String.toInt?: optional '-' then digits (no '+', no '_' handling needed for our generator)
	d := s
	if d[0] == '-' {
		d = d[1:]
	}
	if d == "" || len(d) > 18 {
		return 0, false
	}
	for _, c := range d {
		if c < '0' || c > '9' {
			return 0, false
		}
	}
	v, err := strconv.ParseInt(s, 10, 64)
	return v, err == nil
}

func parseNat(s string) (int, bool) {
	v, ok := parseInt(s)
	if !ok || v < 0 || s[0] == '-' {
		return 0, false
	}
	return int(v), true
}

func parseOuts(s string, needVal bool) ([]*wire.TxOut, bool) {
	var outs []*wire.TxOut
	for _, t := range core.CSV(s) {
		n := 1
		if i := strings.IndexByte(t, '*'); i >= 0 {
			var ok bool
			n, ok = parseNat(t[i+1:])
			if !ok || strings.Count(t, "*") != 1 {
				return nil, false
			}
			t = t[:i]
		}
		p := strings.Split(t, ":")
		if len(p) != 2 {
			return nil, false
		}
		v, ok := parseInt(p[0])
		if !ok {
			return nil, false
		}
		for j := 0; j < n; j++ {
			scr, ok := buildScript(p[1], -(len(outs) + 1000))
			if !ok {
				return nil, false
			}
			outs = append(outs, wire.NewTxOut(v, scr))
		}
	}
	return outs, true
}

func parseRequest(kv map[string]string) (*request, bool) {
	for _, k := range []string{"rate", "outs", "cs", "coins", "src", "failat"} {
		if _, ok := kv[k]; !ok {
			return nil, false
		}
	}
	r := &request{}
	var ok bool
	if r.rate, ok = parseInt(kv["rate"]); !ok {
		return nil, false
	}
	if r.outs, ok = parseOuts(kv["outs"], true); !ok {
		return nil, false
	}
	cs := strings.Split(kv["cs"], ":")
	if len(cs) != 2 {
		return nil, false
	}
	sz, ok := parseInt(cs[0])
	if !ok {
		return nil, false
	}
	r.csSize = int(sz)
	r.csTok = cs[1]
	if r.csTok != "err" {
		if r.csScr, ok = buildScript(r.csTok, -7); !ok {
			return nil, false
		}
	}
	for i, t := range core.CSV(kv["coins"]) {
		p := strings.Split(t, ":")
		if len(p) != 2 {
			return nil, false
		}
		v, ok := parseInt(p[0])
		if !ok {
			return nil, false
		}
		scr, ok := buildScript(p[1], i)
		if !ok {
			return nil, false
		}
		r.coins = append(r.coins, coin{v, p[1], scr, i})
	}
	r.src = kv["src"]
	if r.src != "prefix" && r.src != "const" {
		return nil, false
	}
	if r.failAt, ok = parseNat(kv["failat"]); !ok {
		return nil, false
	}
	if s, has := kv["sigs"]; has {
		r.hasSigs = true
		for _, t := range core.CSV(s) {
			v, ok := parseInt(t)
			if !ok {
				return nil, false
			}
			r.sigs = append(r.sigs, int(v))
		}
	}
	return r, true
}

// ------------------------------------------------------------------------------------------------ input sources

var errSource = errors.New("vx: input source failure")

type srcState struct {
	targets []int64
	calls   int
}

func outpointFor(i int) wire.OutPoint {
	var hh chainhash.Hash
	copy(hh[:], h("outpoint", i, 32))
	return wire.OutPoint{Hash: hh, Index: uint32(i)}
}

// makeSource returns the harness's input source.  "prefix" has the semantics of wallet.makeInputSource (coins in
// the given order, accumulate while currentTotal < target), "const" those of wallet.constantInputSource.
func makeSource(r *request, st *srcState) txauthor.InputSource {
	eligible := append([]coin{}, r.coins...)
	currentTotal := btcutil.Amount(0)
	var currentInputs []*wire.TxIn
	var currentScripts [][]byte
	var currentValues []btcutil.Amount
	take := func(c coin) {
		op := outpointFor(c.key)
		currentInputs = append(currentInputs, wire.NewTxIn(&op, nil, nil))
		currentTotal += btcutil.Amount(c.val)
		currentScripts = append(currentScripts, c.script)
		currentValues = append(currentValues, btcutil.Amount(c.val))
	}
	if r.src == "const" {
		for _, c := range eligible {
			take(c)
		}
		eligible = nil
	}
	return func(target btcutil.Amount) (btcutil.Amount, []*wire.TxIn, []btcutil.Amount, [][]byte, error) {
		st.calls++
		st.targets = append(st.targets, int64(target))
		if st.calls == r.failAt {
			return 0, nil, nil, nil, errSource
		}
		if r.src == "prefix" {
			for currentTotal < target && len(eligible) != 0 {
				take(eligible[0])
				eligible = eligible[1:]
			}
		}
		return currentTotal, currentInputs, currentValues, currentScripts, nil
	}
}

func classOf(script []byte) string {
	switch {
	case txscript.IsPayToScriptHash(script):
		return "nested"
	case txscript.IsPayToWitnessPubKeyHash(script):
		return "p2wpkh"
	case txscript.IsPayToTaproot(script):
		return "p2tr"
	}
	return "p2pkh"
}

func counts(scripts [][]byte) (p2pkh, p2tr, p2wpkh, nested int) {
	for _, s := range scripts {
		switch classOf(s) {
		case "nested":
			nested++
		case "p2wpkh":
			p2wpkh++
		case "p2tr":
			p2tr++
		default:
			p2pkh++
		}
	}
	return
}

var stdCoinTok = map[string]bool{"pkh": true, "sh": true, "wpkh": true, "tr": true}

func varintSize(n int) int { return wire.VarIntSerializeSize(uint64(n)) }

// feeAtRate is the oracle's own statement of "rate (sat per 1000 vbytes) applied to a size", independent of
// txrules.FeeForSerializeSize: floor(rate*size/1000), capped at the 21e14 sat money supply.
func feeAtRate(rate, size int64) int64 {
	f := rate * size / 1000
	if f > 2100000000000000 {
		f = 2100000000000000
	}
	return f
}

// ------------------------------------------------------------------------------------------------ the author op

type authorResult struct {
	reply string
	viol  []string
	sigs  []int // observed signature lengths (when signing was possible)
	ok    bool
}

func joinTargets(t []int64) string {
	var s []string
	for _, v := range t {
		s = append(s, strconv.FormatInt(v, 10))
	}
	return strings.Join(s, ";")
}

// runAuthor executes the request on the real code.  sign: try to sign when every chosen input is a key-spend class.
func runAuthor(r *request, sign bool) authorResult {
	res := authorResult{}
	st := &srcState{}
	src := makeSource(r, st)
	requested := make([]*wire.TxOut, len(r.outs))
	copy(requested, r.outs)
	snapshot := make([]wire.TxOut, len(r.outs))
	for i, o := range r.outs {
		snapshot[i] = wire.TxOut{Value: o.Value, PkScript: append([]byte{}, o.PkScript...)}
	}
	scriptCalls := 0
	cs := &txauthor.ChangeSource{ScriptSize: r.csSize, NewScript: func() ([]byte, error) {
		scriptCalls++
		if r.csTok == "err" {
			return nil, errors.New("vx: change script failure")
		}
		return r.csScr, nil
	}}
	// the caller's slice has spare capacity, as slices built with append usually do
	callerOuts := make([]*wire.TxOut, len(r.outs), len(r.outs)+4)
	copy(callerOuts, r.outs)
	atx, err := txauthor.NewUnsignedTransaction(callerOuts, btcutil.Amount(r.rate), src, cs)
	viol := func(key, f string, a ...interface{}) {
		res.viol = append(res.viol, fmt.Sprintf("C07 key=%s: %s", key, fmt.Sprintf(f, a...)))
	}
	// the property's domain (see notes/C07.md): rate from the relay floor upward, a well-formed change source
	inDomain := r.rate >= int64(txrules.DefaultRelayFeePerKb) && r.csSize > 0 && r.csTok != "err" && len(r.csScr) <= r.csSize
	var sumOuts int64
	for _, o := range snapshot {
		sumOuts += o.Value
	}
	if err != nil {
		kind := "other"
		var ise txauthor.InputSourceError
		switch {
		case err == errSource:
			kind = "source"
		case errors.As(err, &ise):
			kind = "insufficient"
		case strings.Contains(err.Error(), "change script failure"):
			kind = "change"
		}
		res.reply = fmt.Sprintf("err=%s targets=%s", kind, joinTargets(st.targets))
		if kind == "insufficient" && r.failAt == 0 && r.rate >= int64(txrules.DefaultRelayFeePerKb) {
			// oracle C07-insufficient: all offered coins together cannot cover outputs + required fee
			var all [][]byte
			var total int64
			for _, c := range r.coins {
				all = append(all, c.script)
				total += c.val
			}
			p, t, w, n := counts(all)
			need := sumOuts + feeAtRate(r.rate, int64(txsizes.EstimateVirtualSize(p, t, w, n, requested, r.csSize)))
			if total >= need {
				key := "NewUnsignedTransaction.insufficient-but-covered"
				if len(r.coins) == 1 && classOf(r.coins[0].script) == "p2tr" {
					key = "NewUnsignedTransaction.initial-fee-assumes-p2wpkh"
				}
				viol(key, "insufficient funds reported but the offered coins (%d sat, %d coins) cover outputs + required fee = %d sat", total, len(r.coins), need)
			}
		}
		return res
	}
	res.ok = true
	tx := atx.Tx
	nIn := len(tx.TxIn)
	var sumIn, sumTxOut int64
	for _, v := range atx.PrevInputValues {
		sumIn += int64(v)
	}
	for _, o := range tx.TxOut {
		sumTxOut += o.Value
	}
	fee := sumIn - sumTxOut
	chg := "none"
	if atx.ChangeIndex >= 0 && atx.ChangeIndex < len(tx.TxOut) {
		chg = fmt.Sprintf("%d:%d", atx.ChangeIndex, tx.TxOut[atx.ChangeIndex].Value)
	} else if atx.ChangeIndex >= 0 {
		chg = fmt.Sprintf("%d:out-of-range", atx.ChangeIndex)
	}
	// author a second, different transaction from the SAME caller slice, then look at the first result again
	stable := 1
	{
		firstPtrs := append([]*wire.TxOut{}, tx.TxOut...)
		firstVals := make([]int64, len(tx.TxOut))
		for i, o := range tx.TxOut {
			firstVals[i] = o.Value
		}
		r2 := *r
		r2.coins = append([]coin{}, r.coins...)
		for i := range r2.coins {
			r2.coins[i].val += 777
		}
		r2.failAt = 0
		st2 := &srcState{}
		cs2 := &txauthor.ChangeSource{ScriptSize: r.csSize, NewScript: func() ([]byte, error) {
			return append([]byte{}, r.csScr...), nil
		}}
		_, _ = txauthor.NewUnsignedTransaction(callerOuts, btcutil.Amount(r.rate), makeSource(&r2, st2), cs2)
		if len(tx.TxOut) != len(firstPtrs) {
			stable = 0
		}
		for i := 0; stable == 1 && i < len(firstPtrs); i++ {
			if tx.TxOut[i] != firstPtrs[i] || tx.TxOut[i].Value != firstVals[i] {
				stable = 0
			}
		}
	}
	res.reply = fmt.Sprintf("ok n=%d total=%d nout=%d chg=%s fee=%d targets=%s st=%d", nIn, int64(atx.TotalInput), len(tx.TxOut), chg, fee, joinTargets(st.targets), stable)

	// ---- oracles on the real result
	if stable == 0 {
		viol("NewUnsignedTransaction.result-aliases-caller-slice", "authoring a second transaction from the same outputs slice (cap > len) changed the outputs of the first authored transaction")
	}
	// outputs kept
	kept := len(tx.TxOut) >= len(snapshot) && len(callerOuts) == len(snapshot)
	for i := 0; kept && i < len(snapshot); i++ {
		kept = tx.TxOut[i].Value == snapshot[i].Value && bytes.Equal(tx.TxOut[i].PkScript, snapshot[i].PkScript) &&
			callerOuts[i] == requested[i] && callerOuts[i].Value == snapshot[i].Value && bytes.Equal(callerOuts[i].PkScript, snapshot[i].PkScript)
	}
	if !kept {
		viol("NewUnsignedTransaction.outputs-changed", "requested outputs are not a prefix of the authored outputs (or the caller's slice was modified)")
	}
	if atx.ChangeIndex < 0 {
		if len(tx.TxOut) != len(snapshot) {
			viol("NewUnsignedTransaction.outputs-changed", "no change index but %d outputs for %d requested", len(tx.TxOut), len(snapshot))
		}
	} else if atx.ChangeIndex != len(snapshot) || len(tx.TxOut) != len(snapshot)+1 || !bytes.Equal(tx.TxOut[len(snapshot)].PkScript, r.csScr) {
		viol("NewUnsignedTransaction.change-position", "change index %d with %d outputs for %d requested", atx.ChangeIndex, len(tx.TxOut), len(snapshot))
	}
	// conservation
	if len(atx.PrevScripts) != nIn || len(atx.PrevInputValues) != nIn || sumIn != int64(atx.TotalInput) {
		viol("NewUnsignedTransaction.conservation", "inputs %d / scripts %d / values %d, sum of values %d, TotalInput %d", nIn, len(atx.PrevScripts), len(atx.PrevInputValues), sumIn, int64(atx.TotalInput))
	}
	if sumIn != sumTxOut+fee || (inDomain && fee < 0) {
		viol("NewUnsignedTransaction.conservation", "inputs %d != outputs %d + fee %d", sumIn, sumTxOut, fee)
	}
	// no dust / zero change
	if atx.ChangeIndex >= 0 && atx.ChangeIndex < len(tx.TxOut) {
		c := tx.TxOut[atx.ChangeIndex]
		if c.Value <= 0 || txrules.IsDustOutput(c, txrules.DefaultRelayFeePerKb) {
			viol("NewUnsignedTransaction.dust-change", "change output of %d sat is zero, negative or dust", c.Value)
		}
		if !txscript.IsUnspendable(c.PkScript) && c.Value < mempool.GetDustThreshold(c) {
			viol("NewUnsignedTransaction.dust-change", "change output of %d sat is below the dust threshold %d", c.Value, mempool.GetDustThreshold(c))
		}
	}
	// fee upper bound: rate applied to the worst-case estimate plus one dust threshold of the change script
	p, t, w, n := counts(atx.PrevScripts)
	estimate := txsizes.EstimateVirtualSize(p, t, w, n, requested, r.csSize)
	maxFee := int64(txrules.FeeForSerializeSize(btcutil.Amount(r.rate), estimate))
	if inDomain && !txscript.IsUnspendable(r.csScr) {
		thr := mempool.GetDustThreshold(wire.NewTxOut(0, r.csScr))
		if fee > maxFee+thr {
			viol("NewUnsignedTransaction.fee-above-bound", "fee %d > rate applied to the estimate (%d) + dust threshold (%d)", fee, maxFee, thr)
		}
		if atx.ChangeIndex >= 0 && fee != maxFee {
			viol("NewUnsignedTransaction.fee-above-bound", "with a change output the fee %d should equal the required fee %d", fee, maxFee)
		}
	}

	// ---- really sign, validate and measure
	if !sign {
		return res
	}
	signable := nIn > 0
	keys := map[string]*btcec.PrivateKey{}
	for i, scr := range atx.PrevScripts {
		var c *coin
		for j := range r.coins {
			if tx.TxIn[i].PreviousOutPoint == outpointFor(r.coins[j].key) {
				c = &r.coins[j]
			}
		}
		if c == nil || !stdCoinTok[c.tok] || !bytes.Equal(c.script, scr) {
			signable = false
			break
		}
		_, addrs, _, err := txscript.ExtractPkScriptAddrs(scr, params)
		if err != nil || len(addrs) != 1 {
			signable = false
			break
		}
		keys[addrs[0].EncodeAddress()] = keyFor(c.key + 1)
	}
	if !signable {
		return res
	}
	signed := tx.Copy()
	if err := txauthor.AddAllInputScripts(signed, atx.PrevScripts, atx.PrevInputValues, secrets{keys}); err != nil {
		viol("AddAllInputScripts.failed", "signing failed: %v", err)
		return res
	}
	fetcher, _ := txauthor.TXPrevOutFetcher(signed, atx.PrevScripts, atx.PrevInputValues)
	hc := txscript.NewTxSigHashes(signed, fetcher)
	for i := range signed.TxIn {
		vm, err := txscript.NewEngine(atx.PrevScripts[i], signed, i, txscript.StandardVerifyFlags, nil, hc, int64(atx.PrevInputValues[i]), fetcher)
		if err == nil {
			err = vm.Execute()
		}
		if err != nil {
			viol("AddAllInputScripts.invalid-signature", "input %d does not verify: %v", i, err)
		}
		var sl int
		switch classOf(atx.PrevScripts[i]) {
		case "p2pkh":
			ss := signed.TxIn[i].SignatureScript
			if len(ss) > 0 {
				sl = int(ss[0]) - 1
			}
		case "p2tr":
			if len(signed.TxIn[i].Witness) > 0 {
				sl = len(signed.TxIn[i].Witness[0])
			}
		default:
			if len(signed.TxIn[i].Witness) > 0 {
				sl = len(signed.TxIn[i].Witness[0]) - 1
			}
		}
		res.sigs = append(res.sigs, sl)
	}
	weight := blockchain.GetTransactionWeight(btcutil.NewTx(signed))
	vsize := mempool.GetTxVirtualSize(btcutil.NewTx(signed))
	res.reply += fmt.Sprintf(" w=%d vs=%d", weight, vsize)
	if inDomain {
		if int64(estimate) < vsize {
			key := "EstimateVirtualSize.below-real-vsize"
			if r.csSize > 0 && varintSize(len(snapshot)) != varintSize(len(snapshot)+1) {
				key = "EstimateVirtualSize.outputCount-varint-252"
			}
			viol(key, "worst-case estimate %d vB < real signed vsize %d vB (%d outputs requested, change %v)", estimate, vsize, len(snapshot), atx.ChangeIndex >= 0)
		}
		need := feeAtRate(r.rate, vsize)
		if fee < need {
			key := "NewUnsignedTransaction.fee-below-rate"
			if r.csSize > 0 && varintSize(len(snapshot)) != varintSize(len(snapshot)+1) {
				key = "EstimateVirtualSize.outputCount-varint-252"
			}
			viol(key, "fee %d sat < rate %d sat/kvB applied to the real signed vsize %d vB = %d sat (%d outputs requested + change %v, inputs %d/%d/%d/%d)",
				fee, r.rate, vsize, need, len(snapshot), atx.ChangeIndex >= 0, p, t, w, n)
		}
	}
	return res
}

// ------------------------------------------------------------------------------------------------ runner

type runner struct{}

func (engine) NewRunner() core.Runner { return runner{} }
func (runner) Close()                 {}

func dedup(v []string) string {
	seen := map[string]bool{}
	var out []string
	for _, s := range v {
		if !seen[s] {
			seen[s] = true
			out = append(out, s)
		}
	}
	return strings.Join(out, "; ")
}

func (runner) Exec(op string) (string, string) {
	name, kv := core.KV(op)
	switch name {
	case "author":
		r, ok := parseRequest(kv)
		if !ok {
			return "bad-op", ""
		}
		res := runAuthor(r, r.hasSigs)
		if r.hasSigs && res.ok {
			if res.sigs == nil {
				// not signable: the model prints sizes for whatever lengths were given; Go cannot
				if len(r.sigs) != nInputs(res.reply) {
					return "bad-sigs", dedup(res.viol)
				}
				return res.reply + " unsigned", dedup(res.viol)
			}
			if len(r.sigs) != len(res.sigs) {
				return "bad-sigs", dedup(res.viol)
			}
			for i := range r.sigs {
				if r.sigs[i] != res.sigs[i] {
					return res.reply + fmt.Sprintf(" sigs-differ(actual=%v)", res.sigs), dedup(res.viol)
				}
			}
		}
		return res.reply, dedup(res.viol)
	case "wchange":
		rate, ok1 := parseInt(kv["rate"])
		coinAmt, ok2 := parseInt(kv["coin"])
		pay, ok3 := parseInt(kv["pay"])
		if !ok1 || !ok2 || !ok3 {
			return "bad-op", ""
		}
		return runWChange(kv["acct"], rate, coinAmt, pay)
	case "script":
		s, ok := buildScript(kv["tok"], -3)
		if !ok {
			return "bad-op", ""
		}
		return fmt.Sprintf("script len=%d sh=%s wpkh=%s tr=%s wit=%s unsp=%s nd=%s", len(s), b01(txscript.IsPayToScriptHash(s)),
			b01(txscript.IsPayToWitnessPubKeyHash(s)), b01(txscript.IsPayToTaproot(s)), b01(txscript.IsWitnessProgram(s)),
			b01(txscript.IsUnspendable(s)), b01(txscript.GetScriptClass(s) == txscript.NullDataTy)), ""
	case "dust":
		v, ok1 := parseInt(kv["val"])
		s, ok2 := buildScript(kv["tok"], -3)
		rl, ok3 := parseInt(kv["relay"])
		if !ok1 || !ok2 || !ok3 {
			return "bad-op", ""
		}
		o := wire.NewTxOut(v, s)
		return fmt.Sprintf("dust dust=%s mdust=%s thr=%d ser=%d", b01(txrules.IsDustOutput(o, btcutil.Amount(rl))),
			b01(mempool.IsDust(o, btcutil.Amount(rl))), mempool.GetDustThreshold(o), o.SerializeSize()), ""
	case "est":
		var a [5]int64
		for i, k := range []string{"p", "t", "w", "n", "cs"} {
			v, ok := parseInt(kv[k])
			if !ok {
				return "bad-op", ""
			}
			a[i] = v
		}
		if _, has := kv["outs"]; !has {
			return "bad-op", ""
		}
		outs, ok := parseOuts(kv["outs"], true)
		if !ok {
			return "bad-op", ""
		}
		return fmt.Sprintf("est vsize=%d sum=%d vals=%d", txsizes.EstimateVirtualSize(int(a[0]), int(a[1]), int(a[2]), int(a[3]), outs, int(a[4])),
			txsizes.SumOutputSerializeSizes(outs), int64(txauthor.SumOutputValues(outs))), ""
	case "ser":
		n, ok1 := parseInt(kv["in"])
		if _, has := kv["outs"]; !has || !ok1 || (kv["chg"] != "0" && kv["chg"] != "1") {
			return "bad-op", ""
		}
		outs, ok := parseOuts(kv["outs"], true)
		if !ok {
			return "bad-op", ""
		}
		return fmt.Sprintf("ser size=%d", txsizes.EstimateSerializeSize(int(n), outs, kv["chg"] == "1")), ""
	case "fee":
		r, ok1 := parseInt(kv["rate"])
		s, ok2 := parseInt(kv["size"])
		if !ok1 || !ok2 {
			return "bad-op", ""
		}
		return fmt.Sprintf("fee fee=%d", int64(txrules.FeeForSerializeSize(btcutil.Amount(r), int(s)))), ""
	case "minin":
		s, ok := buildScript(kv["tok"], -3)
		if !ok {
			return "bad-op", ""
		}
		return fmt.Sprintf("minin vsize=%d", txsizes.GetMinInputVirtualSize(s)), ""
	}
	return "bad-op", ""
}

func nInputs(reply string) int {
	_, kv := core.KV(reply)
	n, _ := strconv.Atoi(kv["n"])
	return n
}

// ------------------------------------------------------------------------------------------------ generator

var outToks = []string{"pkh", "sh", "wpkh", "wsh", "tr", "pk", "wit2", "wit20", "wit40", "nd1", "nd22", "nd40", "nd83", "ret5", "raw0", "raw1", "raw30"}
var stdOutToks = []string{"pkh", "sh", "wpkh", "wsh", "tr"}
var coinToks = []string{"pkh", "sh", "wpkh", "tr"}
var csChoices = [][2]string{{"25", "pkh"}, {"23", "sh"}, {"22", "wpkh"}, {"34", "tr"}, {"34", "wsh"}}

func pick(rng *rand.Rand, l []string) string { return l[rng.Intn(len(l))] }

type gen struct {
	rng  *rand.Rand
	tier string
}

func (g *gen) outs(n int, big bool) string {
	rng := g.rng
	var parts []string
	if n > 40 {
		// long lists: a few runs (run-length form keeps the line short)
		left := n
		for left > 0 {
			k := 1 + rng.Intn(left)
			if rng.Intn(3) == 0 {
				k = left
			}
			tok := pick(rng, stdOutToks)
			if rng.Intn(6) == 0 {
				tok = pick(rng, outToks)
			}
			parts = append(parts, fmt.Sprintf("%d:%s*%d", 600+rng.Intn(5000), tok, k))
			left -= k
		}
		return strings.Join(parts, ",")
	}
	for i := 0; i < n; i++ {
		tok := pick(rng, stdOutToks)
		switch rng.Intn(10) {
		case 0:
			tok = pick(rng, outToks)
		case 1:
			if big {
				tok = fmt.Sprintf("raw%d", []int{252, 253, 254, 10000, 10001, 65535, 65536}[rng.Intn(7)])
			}
		}
		v := int64(600 + rng.Intn(200000))
		switch rng.Intn(25) {
		case 0:
			v = 0
		case 1:
			v = int64(rng.Intn(600))
		}
		parts = append(parts, fmt.Sprintf("%d:%s", v, tok))
	}
	return strings.Join(parts, ",")
}

func (g *gen) rate() int64 {
	rng := g.rng
	switch rng.Intn(12) {
	case 0:
		return 1000
	case 1:
		return 1001
	case 2:
		return 1999
	case 3:
		return int64(1000 + rng.Intn(1000))
	case 4:
		return 250000
	case 5:
		return int64(1000 + rng.Intn(2000000))
	}
	return int64(1000 + rng.Intn(100000))
}

// authorOp builds one structured request whose coin values sit next to a decision boundary of the real code.
func (g *gen) authorOp(nOut int, kinds []string, cs [2]string, rate int64, src string) string {
	rng := g.rng
	outs := g.outs(nOut, rng.Intn(8) == 0)
	wouts, _ := parseOuts(outs, true)
	var sum int64
	for _, o := range wouts {
		sum += o.Value
	}
	csSize, _ := strconv.Atoi(cs[0])
	// how many of the coins should be needed
	k := len(kinds)
	if k > 1 && rng.Intn(3) == 0 {
		k = 1 + rng.Intn(k)
	}
	var scripts [][]byte
	for i := 0; i < k; i++ {
		s, _ := buildScript(kinds[i], i)
		scripts = append(scripts, s)
	}
	p, t, w, n := counts(scripts)
	need := sum + int64(txrules.FeeForSerializeSize(btcutil.Amount(rate), txsizes.EstimateVirtualSize(p, t, w, n, wouts, csSize)))
	var thr int64 = 546
	if cs[1] != "err" {
		if scr, ok := buildScript(cs[1], -7); ok {
			thr = mempool.GetDustThreshold(wire.NewTxOut(0, scr))
		}
	}
	var delta int64
	switch rng.Intn(14) {
	case 0, 1, 2:
		delta = int64(rng.Intn(5)) - 2
	case 3, 4, 5:
		delta = thr + int64(rng.Intn(5)) - 2
	case 6:
		delta = -int64(1 + rng.Intn(3000))
	case 7:
		delta = int64(rng.Intn(int(thr) + 50))
	case 8:
		// between the estimate for these coins and the one with a P2WPKH / P2TR first input
		delta = int64(rng.Intn(40)) * rate / 1000 * []int64{-1, 1}[rng.Intn(2)]
	default:
		delta = int64(rng.Intn(2000000))
	}
	total := need + delta
	if total < 0 {
		total = 0
	}
	vals := make([]int64, len(kinds))
	left := total
	for i := 0; i < k; i++ {
		if i == k-1 {
			vals[i] = left
		} else {
			share := left / int64(k-i)
			if share > 0 && rng.Intn(2) == 0 {
				share = rng.Int63n(share + 1)
			}
			vals[i] = share
			left -= share
		}
	}
	for i := k; i < len(kinds); i++ {
		vals[i] = int64(rng.Intn(100000))
		if rng.Intn(4) == 0 {
			vals[i] = int64(rng.Intn(300))
		}
	}
	if rng.Intn(5) == 0 { // descending order, as the wallet arranges coins
		for i := 0; i < len(vals); i++ {
			for j := i + 1; j < len(vals); j++ {
				if vals[j] > vals[i] {
					vals[i], vals[j] = vals[j], vals[i]
					kinds[i], kinds[j] = kinds[j], kinds[i]
				}
			}
		}
	}
	var cl []string
	for i := range kinds {
		cl = append(cl, fmt.Sprintf("%d:%s", vals[i], kinds[i]))
	}
	failAt := 0
	if rng.Intn(40) == 0 {
		failAt = 1 + rng.Intn(3)
	}
	return fmt.Sprintf("author rate=%d outs=%s cs=%s:%s coins=%s src=%s failat=%d", rate, outs, cs[0], cs[1], strings.Join(cl, ","), src, failAt)
}

// finish runs the op once on the real code to learn the signature lengths (signing is deterministic: RFC 6979 /
// BIP-340 with fixed aux data is not guaranteed, so lengths are re-checked in Exec) and appends `sigs=`.
func finish(op string) string {
	_, kv := core.KV(op)
	r, ok := parseRequest(kv)
	if !ok {
		return op
	}
	res := runAuthor(r, true)
	if !res.ok || res.sigs == nil {
		return op
	}
	var s []string
	for _, v := range res.sigs {
		s = append(s, strconv.Itoa(v))
	}
	return op + " sigs=" + strings.Join(s, ",")
}

func (g *gen) kinds(n int) []string {
	rng := g.rng
	var k []string
	mode := rng.Intn(4)
	one := pick(rng, coinToks)
	for i := 0; i < n; i++ {
		switch {
		case mode == 0:
			k = append(k, one)
		case rng.Intn(25) == 0:
			k = append(k, pick(rng, []string{"wsh", "pk", "raw30", "wit20"}))
		default:
			k = append(k, pick(rng, coinToks))
		}
	}
	return k
}

func (g *gen) cs() [2]string {
	rng := g.rng
	c := csChoices[rng.Intn(len(csChoices))]
	switch rng.Intn(30) {
	case 0:
		return [2]string{"0", c[1]}
	case 1:
		return [2]string{c[0], "err"}
	case 2:
		return [2]string{strconv.Itoa(rng.Intn(60)), pick(rng, outToks)}
	case 3:
		return [2]string{"22", "tr"} // declared smaller than the real script
	case 4:
		return [2]string{"34", "wpkh"} // declared larger
	}
	return c
}

func (engine) Generate(rng *rand.Rand, tier string) []core.Case {
	g := &gen{rng, tier}
	var cases []core.Case
	var ops []string
	tags := map[string]bool{}
	flush := func() {
		if len(ops) > 0 {
			var tl []string
			for t := range tags {
				tl = append(tl, t)
			}
			cases = append(cases, core.Case{Ops: ops, Tags: tl})
			ops = nil
			tags = map[string]bool{}
		}
	}
	add := func(tag, op string) {
		ops = append(ops, op)
		tags[tag] = true
		if len(ops) >= 40 {
			flush()
		}
	}
	thorough := tier == "thorough"

	// 1. classification table and dust rule: every token class, values around each threshold
	toks := append([]string{}, outToks...)
	for _, n := range []int{2, 3, 39, 40} {
		toks = append(toks, fmt.Sprintf("wit%d", n))
	}
	for _, n := range []int{1, 3, 4, 76, 77, 79, 80, 83} {
		toks = append(toks, fmt.Sprintf("nd%d", n))
	}
	for _, n := range []int{0, 1, 2, 22, 23, 25, 34, 35, 252, 253, 254, 9999, 10000, 10001, 65535, 65536, 65537} {
		toks = append(toks, fmt.Sprintf("raw%d", n))
	}
	for _, n := range []int{3, 100, 10001} {
		toks = append(toks, fmt.Sprintf("ret%d", n))
	}
	toks = append(toks, "nd2", "nd78", "nd84", "wit1", "wit41", "bogus", "raw", "raw-1", "ret2") // malformed tokens
	for _, t := range toks {
		add("script", "script tok="+t)
		add("minin", "minin tok="+t)
		scr, ok := buildScript(t, -3)
		thr := int64(546)
		if ok {
			thr = mempool.GetDustThreshold(wire.NewTxOut(0, scr))
		}
		for _, relay := range []int64{1000, 0, 1, 999, 3000, 12345} {
			base := thr * relay / 1000
			for _, d := range []int64{-2, -1, 0, 1, 2} {
				add("dust", fmt.Sprintf("dust val=%d tok=%s relay=%d", base+d, t, relay))
			}
		}
		add("dust", fmt.Sprintf("dust val=0 tok=%s relay=1000", t))
		add("dust", fmt.Sprintf("dust val=-5 tok=%s relay=1000", t))
	}
	flush()

	// 2. the translated arithmetic, directly
	nArith := 600
	if thorough {
		nArith = 8000
	}
	cnt := func() int {
		switch rng.Intn(10) {
		case 0:
			return 0
		case 1:
			return []int{251, 252, 253, 254, 65535, 65536}[rng.Intn(6)]
		case 2:
			return -rng.Intn(4)
		}
		return rng.Intn(12)
	}
	for i := 0; i < nArith; i++ {
		nOut := rng.Intn(6)
		if rng.Intn(4) == 0 {
			nOut = 248 + rng.Intn(9)
		}
		outs := g.outs(nOut, true)
		csz := []int{0, 22, 23, 25, 34, 1, 252, 253, 65535, 65536, -1}[rng.Intn(11)]
		add("est", fmt.Sprintf("est p=%d t=%d w=%d n=%d outs=%s cs=%d", cnt(), cnt(), cnt(), cnt(), outs, csz))
		if i%3 == 0 {
			add("ser", fmt.Sprintf("ser in=%d outs=%s chg=%d", cnt(), outs, rng.Intn(2)))
			rate := []int64{0, 1, 999, 1000, 1001, -1, -1000, 5000000000000, int64(rng.Intn(300000))}[rng.Intn(9)]
			size := []int64{0, 1, 10, 999, 1000, 1001, 1000000, int64(rng.Intn(100000)), -5}[rng.Intn(9)]
			add("fee", fmt.Sprintf("fee rate=%d size=%d", rate, size))
		}
	}
	flush()

	// 3. directed classes at the compact-size boundary of the output count and at the initial-estimate window
	for _, nOut := range []int{251, 252, 253} {
		for _, k := range coinToks {
			for _, c := range csChoices[:4] {
				rate := []int64{1000, 50000, 12345}[rng.Intn(3)]
				outs := fmt.Sprintf("1000:%s*%d", pick(rng, stdOutToks), nOut)
				wouts, _ := parseOuts(outs, true)
				scr, _ := buildScript(k, 0)
				p, t, w, n := counts([][]byte{scr})
				csSize, _ := strconv.Atoi(c[0])
				need := int64(nOut)*1000 + int64(txrules.FeeForSerializeSize(btcutil.Amount(rate), txsizes.EstimateVirtualSize(p, t, w, n, wouts, csSize)))
				add("boundary-252", finish(fmt.Sprintf("author rate=%d outs=%s cs=%s:%s coins=%d:%s src=prefix failat=0", rate, outs, c[0], c[1], need+100000, k)))
			}
		}
	}
	for _, k := range coinToks {
		for _, rate := range []int64{1000, 20000} {
			outs := "50000:wpkh"
			wouts, _ := parseOuts(outs, true)
			scr, _ := buildScript(k, 0)
			p, t, w, n := counts([][]byte{scr})
			need := int64(50000) + int64(txrules.FeeForSerializeSize(btcutil.Amount(rate), txsizes.EstimateVirtualSize(p, t, w, n, wouts, 22)))
			for _, d := range []int64{-1, 0, 1, 5 * rate / 1000, 10 * rate / 1000} {
				add("single-coin-window", finish(fmt.Sprintf("author rate=%d outs=%s cs=22:wpkh coins=%d:%s src=prefix failat=0", rate, outs, need+d, k)))
				add("single-coin-window", finish(fmt.Sprintf("author rate=%d outs=%s cs=22:wpkh coins=%d:%s,%d:pkh src=prefix failat=0", rate, outs, need+d, k, 1+rng.Intn(200))))
			}
		}
	}
	flush()

	// 3b. coin prefixes that hit a fetch target EXACTLY (sufficiency test `<` vs `<=`)
	firstTarget := func(rate int64, outs string, csSize int) int64 {
		wouts, _ := parseOuts(outs, true)
		var t0 int64 = -1
		_, _ = txauthor.NewUnsignedTransaction(wouts, btcutil.Amount(rate), func(target btcutil.Amount) (btcutil.Amount, []*wire.TxIn, []btcutil.Amount, [][]byte, error) {
			t0 = int64(target)
			return 0, nil, nil, nil, errSource
		}, &txauthor.ChangeSource{ScriptSize: csSize, NewScript: func() ([]byte, error) { return nil, errSource }})
		return t0
	}
	for i := 0; i < 24; i++ {
		rate := g.rate()
		nOut := 1 + rng.Intn(3)
		outs := g.outs(nOut, false)
		wouts, _ := parseOuts(outs, true)
		var sum int64
		for _, o := range wouts {
			sum += o.Value
		}
		c := csChoices[rng.Intn(4)]
		csSize, _ := strconv.Atoi(c[0])
		t0 := firstTarget(rate, outs, csSize)
		k1, k2, k3 := pick(rng, coinToks), pick(rng, coinToks), pick(rng, coinToks)
		scr1, _ := buildScript(k1, 0)
		p, t, w, n := counts([][]byte{scr1})
		tf1 := int64(txrules.FeeForSerializeSize(btcutil.Amount(rate), txsizes.EstimateVirtualSize(p, t, w, n, wouts, csSize)))
		for _, d := range []int64{-1, 0, 1} {
			add("exact-target", finish(fmt.Sprintf("author rate=%d outs=%s cs=%s:%s coins=%d:%s,%d:%s src=prefix failat=0", rate, outs, c[0], c[1], t0+d, k1, 500000+rng.Intn(1000), k2)))
			// second level: c1 reaches the first target, c1+c2 reaches the raised target exactly
			c2 := sum + tf1 - t0 + d
			if c2 > 0 {
				add("exact-target", finish(fmt.Sprintf("author rate=%d outs=%s cs=%s:%s coins=%d:%s,%d:%s,%d:%s src=prefix failat=0", rate, outs, c[0], c[1], t0, k1, c2, k2, 500000+rng.Intn(1000), k3)))
			}
		}
	}
	flush()

	// 4. random structured requests
	nAuthor := 2500
	if thorough {
		nAuthor = 14000
	}
	for i := 0; i < nAuthor; i++ {
		nOut := rng.Intn(5)
		switch rng.Intn(40) {
		case 0, 1:
			nOut = 248 + rng.Intn(9)
		case 2:
			nOut = 5 + rng.Intn(596)
		case 3:
			nOut = 0
		}
		nCoins := rng.Intn(6)
		switch rng.Intn(40) {
		case 0:
			nCoins = 250 + rng.Intn(8)
			if !thorough && rng.Intn(2) == 0 {
				nCoins = 20 + rng.Intn(20)
			}
		case 1, 2:
			nCoins = 6 + rng.Intn(20)
		}
		src := "prefix"
		if rng.Intn(5) == 0 {
			src = "const"
		}
		op := g.authorOp(nOut, g.kinds(nCoins), g.cs(), g.rate(), src)
		tag := "author"
		if nOut >= 248 && nOut <= 256 {
			tag = "author-hot-252"
		}
		add(tag, finish(op))
	}
	flush()

	// 4b. wallet level (seed C07-6): the change-script size the wallet hands to txauthor, per imported account kind
	{
		nw := 42
		if thorough {
			nw = 150
		}
		wk := []string{"imp49n", "imp49p", "imp84"}
		for i := 0; i < nw; i++ {
			k := wk[i%3]
			rate := []int64{1000, 1001, 2500, 10000, 50000, 100000}[rng.Intn(6)]
			if rng.Intn(2) == 0 {
				rate = 1000 + rng.Int63n(99001)
			}
			coinAmt := 500000 + rng.Int63n(5000000)
			pay := 10000 + rng.Int63n(coinAmt/2-10000)
			add("wchange-"+k, fmt.Sprintf("wchange acct=%s rate=%d coin=%d pay=%d", k, rate, coinAmt, pay))
			if i%6 == 5 {
				flush()
			}
		}
		flush()
	}

	// 5. thorough only: 65533..65537 requested outputs
	if thorough {
		for nOut := 65533; nOut <= 65537; nOut++ {
			for _, k := range coinToks {
				c := csChoices[rng.Intn(4)]
				outs := fmt.Sprintf("600:%s*%d", pick(rng, stdOutToks), nOut)
				add("boundary-65535", finish(fmt.Sprintf("author rate=1000 outs=%s cs=%s:%s coins=%d:%s src=prefix failat=0", outs, c[0], c[1], int64(nOut)*600+5000000, k)))
			}
		}
		flush()
	}

	// 6. malformed stream: odd rates, negative values, broken syntax
	bad := []string{
		"author rate=0 outs=1000:pkh cs=22:wpkh coins=5000:wpkh src=prefix failat=0",
		"author rate=1 outs=1000:pkh cs=22:wpkh coins=5000:wpkh src=prefix failat=0",
		"author rate=999 outs=1000:pkh cs=22:wpkh coins=5000:pkh,7:tr src=prefix failat=0",
		"author rate=-1000 outs=1000:pkh cs=22:wpkh coins=5000:wpkh src=prefix failat=0",
		"author rate=1000 outs=-1000:pkh cs=22:wpkh coins=5000:wpkh src=prefix failat=0",
		"author rate=1000 outs=1000:pkh cs=22:wpkh coins=-5:wpkh,5000:sh src=prefix failat=0",
		"author rate=1000 outs= cs=22:wpkh coins= src=prefix failat=0",
		"author rate=1000 outs= cs=0:raw0 coins=5000:tr src=const failat=0",
		"author rate=1000 outs=1000:pkh cs=-3:wpkh coins=5000:wpkh src=const failat=0",
		"author rate=1000 outs=1000:pkh cs=22:wpkh coins=5000:wpkh src=const failat=1",
		"author rate=1000 outs=1000:pkh cs=22:wpkh coins=5000:wpkh src=prefix failat=0 sigs=71,71",
		"author rate=1000 outs=1000:pkh cs=22:wpkh coins=5000:wpkh src=prefix failat=0 sigs=x",
		"author rate=1000 outs=1000:pkh cs=22:wpkh coins=5000:wpkh src=other failat=0",
		"author rate=1000 outs=1000:pkh cs=22 coins=5000:wpkh src=prefix failat=0",
		"author rate=1000 outs=1000:bogus cs=22:wpkh coins=5000:wpkh src=prefix failat=0",
		"author rate=abc outs=1000:pkh cs=22:wpkh coins=5000:wpkh src=prefix failat=0",
		"author outs=1000:pkh cs=22:wpkh coins=5000:wpkh src=prefix failat=0",
		"author rate=1000 outs=1000:pkh*x cs=22:wpkh coins=5000:wpkh src=prefix failat=0",
		"est p=1 t=1 w=1 n=1 cs=22",
		"fee rate=1000",
		"frobnicate",
		"dust val=1 tok=pkh",
	}
	for _, b := range bad {
		add("malformed", b)
	}
	for i := 0; i < 150; i++ {
		op := g.authorOp(rng.Intn(4), g.kinds(rng.Intn(4)), g.cs(), []int64{0, 1, 500, 999, -7}[rng.Intn(5)], "prefix")
		add("malformed", op)
	}
	flush()
	return cases
}
