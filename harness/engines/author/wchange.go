package author

// Op "wchange" (round-4 seed C07-6): the change-script SIZE the wallet hands to txauthor.
//
//	wchange acct=<imp49n|imp49p|imp84> rate=<sat/kvB> coin=<sat> pay=<sat>
//
// A REAL wallet (temp dir, fast scrypt) imports an account xpub derived from a fixed root key:
//
//	imp49n  plain tpub + addrType NestedWitnessPubKey  -> scope BIP0049Plus with the traditional BIP-0049 schema
//	        OVERRIDE on the account: nested P2WPKH receive AND change (23-byte change script)
//	imp49p  upub-versioned key + addrType WitnessPubKey -> scope BIP0049Plus, no override: nested receive, P2WPKH change
//	imp84   plain tpub + addrType WitnessPubKey        -> scope BIP0084: P2WPKH receive and change
//
// One coin is credited to the account's first receive address, the PUBLIC Wallet.CreateSimpleTx authors the payment
// (watch-only account: the wallet does not sign), the harness signs with the externally derived key
// (AuthoredTx.AddAllInputScripts), runs the script engine and measures mempool.GetTxVirtualSize.
// Oracle (independent of the model): fee >= rate applied to the real signed virtual size.

import (
	"encoding/binary"
	"errors"
	"fmt"
	"os"
	"sync"
	"time"

	"github.com/btcsuite/btcd/btcec/v2"
	"github.com/btcsuite/btcd/btcjson"
	"github.com/btcsuite/btcd/btcutil"
	"github.com/btcsuite/btcd/btcutil/hdkeychain"
	"github.com/btcsuite/btcd/chaincfg"
	"github.com/btcsuite/btcd/chaincfg/chainhash"
	"github.com/btcsuite/btcd/mempool"
	"github.com/btcsuite/btcd/txscript"
	"github.com/btcsuite/btcd/wire"
	"github.com/btcsuite/btcwallet/chain"
	"github.com/btcsuite/btcwallet/snacl"
	"github.com/btcsuite/btcwallet/waddrmgr"
	"github.com/btcsuite/btcwallet/wallet"
	"github.com/btcsuite/btcwallet/walletdb"
	_ "github.com/btcsuite/btcwallet/walletdb/bdb"
	"github.com/btcsuite/btcwallet/wtxmgr"
)

var wcParams = &chaincfg.TestNet3Params

const wcRoot = "tprv8ZgxMBicQKsPeWwrFuNjEGTTDSY4mRLwd2KDJAPGa1AYquw38bZqNMSuB3V1Va3hqJBo9Pt8Sx7kBQer5cNMrb8SYquoWPt9Y3BZdhdtUcw"

// quietChain: the least chain.Interface that lets CreateSimpleTx pass requireChainClient.  It never announces
// ClientConnected, so the wallet never starts syncing.
type quietChain struct {
	ntfn chan interface{}
	hash chainhash.Hash
}

func (f *quietChain) Start() error     { return nil }
func (f *quietChain) Stop()            {}
func (f *quietChain) WaitForShutdown() {}
func (f *quietChain) GetBestBlock() (*chainhash.Hash, int32, error) {
	return &f.hash, 10, nil
}
func (f *quietChain) GetBlock(*chainhash.Hash) (*wire.MsgBlock, error) {
	return nil, errors.New("quiet: unsupported")
}
func (f *quietChain) GetBlockHash(int64) (*chainhash.Hash, error) { return &f.hash, nil }
func (f *quietChain) GetBlockHeader(*chainhash.Hash) (*wire.BlockHeader, error) {
	return &wire.BlockHeader{Timestamp: time.Unix(1700000000, 0)}, nil
}
func (f *quietChain) IsCurrent() bool { return true }
func (f *quietChain) FilterBlocks(*chain.FilterBlocksRequest) (*chain.FilterBlocksResponse, error) {
	return nil, nil
}
func (f *quietChain) BlockStamp() (*waddrmgr.BlockStamp, error) {
	return &waddrmgr.BlockStamp{Height: 10, Hash: f.hash, Timestamp: time.Unix(1700000000, 0)}, nil
}
func (f *quietChain) SendRawTransaction(*wire.MsgTx, bool) (*chainhash.Hash, error) {
	return nil, errors.New("quiet: unsupported")
}
func (f *quietChain) Rescan(*chainhash.Hash, []btcutil.Address, map[wire.OutPoint]btcutil.Address) error {
	return nil
}
func (f *quietChain) NotifyReceived([]btcutil.Address) error { return nil }
func (f *quietChain) NotifyBlocks() error                    { return nil }
func (f *quietChain) Notifications() <-chan interface{}      { return f.ntfn }
func (f *quietChain) BackEnd() string                        { return "quiet" }
func (f *quietChain) TestMempoolAccept([]*wire.MsgTx, float64) ([]*btcjson.TestMempoolAcceptResult, error) {
	return nil, errors.New("quiet: unsupported")
}
func (f *quietChain) MapRPCErr(err error) error { return err }

type wcSecrets struct {
	keys    map[string]*btcec.PrivateKey
	scripts map[string][]byte
}

func (s wcSecrets) ChainParams() *chaincfg.Params { return wcParams }
func (s wcSecrets) GetKey(a btcutil.Address) (*btcec.PrivateKey, bool, error) {
	k, ok := s.keys[a.EncodeAddress()]
	if !ok {
		return nil, false, errors.New("no key")
	}
	return k, true, nil
}
func (s wcSecrets) GetScript(a btcutil.Address) ([]byte, error) {
	sc, ok := s.scripts[a.EncodeAddress()]
	if !ok {
		return nil, errors.New("no script")
	}
	return sc, nil
}

var wcOnce sync.Once

func hard(i uint32) uint32 { return i + hdkeychain.HardenedKeyStart }

// runWChange returns (reply, violation).
func runWChange(kind string, rate, coinAmt, pay int64) (string, string) {
	wcOnce.Do(func() {
		waddrmgr.SetSecretKeyGen(func(p *[]byte, _ *waddrmgr.ScryptOptions) (*snacl.SecretKey, error) {
			return snacl.NewSecretKey(p, 16, 8, 1)
		})
	})
	var scope waddrmgr.KeyScope
	var addrType waddrmgr.AddressType
	var version uint32 // 0 = keep the plain tpub version
	switch kind {
	case "imp49n":
		scope, addrType = waddrmgr.KeyScopeBIP0049Plus, waddrmgr.NestedWitnessPubKey
	case "imp49p":
		scope, addrType, version = waddrmgr.KeyScopeBIP0049Plus, waddrmgr.WitnessPubKey, uint32(waddrmgr.HDVersionTestNetBIP0049)
	case "imp84":
		scope, addrType = waddrmgr.KeyScopeBIP0084, waddrmgr.WitnessPubKey
	default:
		return "bad-op", ""
	}
	fail := func(stage string, err error) (string, string) {
		return fmt.Sprintf("wchange err=%s", stage), fmt.Sprintf("C07 key=createtx.change-size-estimate.%s: harness stage %s failed: %v", kind, stage, err)
	}

	dir, err := os.MkdirTemp("", "vx-wchange-")
	if err != nil {
		return fail("tmpdir", err)
	}
	defer os.RemoveAll(dir)
	loader := wallet.NewLoader(wcParams, dir, true, 10*time.Second, 0, wallet.WithWalletSyncRetryInterval(10*time.Millisecond))
	seed := chainhash.HashB([]byte("vx-wchange-seed"))
	w, err := loader.CreateNewWallet([]byte("pub"), []byte("priv"), seed, time.Unix(1700000000, 0))
	if err != nil {
		return fail("create", err)
	}
	defer func() {
		w.Stop()
		w.WaitForShutdown()
		_ = loader.UnloadWallet()
	}()
	w.Start()
	fc := &quietChain{ntfn: make(chan interface{}), hash: chainhash.HashH([]byte("vx-wchange-tip"))}
	w.SynchronizeRPC(fc)
	if err := w.Unlock([]byte("priv"), nil); err != nil {
		return fail("unlock", err)
	}

	root, err := hdkeychain.NewKeyFromString(wcRoot)
	if err != nil {
		return fail("root", err)
	}
	acctKey := root
	for _, p := range []uint32{hard(scope.Purpose), hard(scope.Coin), hard(0)} {
		if acctKey, err = acctKey.Derive(p); err != nil {
			return fail("derive", err)
		}
	}
	acctPub, err := acctKey.Neuter()
	if err != nil {
		return fail("neuter", err)
	}
	if version != 0 {
		var vb [4]byte
		binary.BigEndian.PutUint32(vb[:], version)
		if acctPub, err = acctPub.CloneWithVersion(vb[:]); err != nil {
			return fail("version", err)
		}
	}
	acct, err := w.ImportAccount("imp", acctPub, root.ParentFingerprint(), &addrType)
	if err != nil {
		return fail("import", err)
	}
	recvAddr, err := w.NewAddress(acct.AccountNumber, scope)
	if err != nil {
		return fail("newaddress", err)
	}
	recvScript, err := txscript.PayToAddrScript(recvAddr)
	if err != nil {
		return fail("recvscript", err)
	}
	leaf := acctKey
	for _, p := range []uint32{0, 0} {
		if leaf, err = leaf.Derive(p); err != nil {
			return fail("derive-leaf", err)
		}
	}
	priv, err := leaf.ECPrivKey()
	if err != nil {
		return fail("privkey", err)
	}
	wpkh, err := btcutil.NewAddressWitnessPubKeyHash(btcutil.Hash160(priv.PubKey().SerializeCompressed()), wcParams)
	if err != nil {
		return fail("wpkh", err)
	}
	witnessProgram, _ := txscript.PayToAddrScript(wpkh)
	sec := wcSecrets{
		keys:    map[string]*btcec.PrivateKey{recvAddr.EncodeAddress(): priv, wpkh.EncodeAddress(): priv},
		scripts: map[string][]byte{recvAddr.EncodeAddress(): witnessProgram},
	}

	// fund: one confirmed coin
	funding := &wire.MsgTx{Version: 2, TxIn: []*wire.TxIn{{}}, TxOut: []*wire.TxOut{wire.NewTxOut(coinAmt, recvScript)}}
	rec, err := wtxmgr.NewTxRecordFromMsgTx(funding, time.Unix(1700000000, 0))
	if err != nil {
		return fail("record", err)
	}
	err = walletdb.Update(w.Database(), func(tx walletdb.ReadWriteTx) error {
		ns := tx.ReadWriteBucket([]byte("wtxmgr"))
		blk := &wtxmgr.BlockMeta{Block: wtxmgr.Block{Hash: chainhash.HashH([]byte("vx-wchange-b1")), Height: 1}, Time: time.Unix(1700000000, 0)}
		if err := w.TxStore.InsertTx(ns, rec, blk); err != nil {
			return err
		}
		return w.TxStore.AddCredit(ns, rec, blk, 0, false)
	})
	if err != nil {
		return fail("fund", err)
	}

	payScript := append([]byte{txscript.OP_0, 0x14}, h("wchange-pay", 0, 20)...)
	outputs := []*wire.TxOut{wire.NewTxOut(pay, payScript)}
	tx, err := w.CreateSimpleTx(&scope, acct.AccountNumber, outputs, 1, btcutil.Amount(rate), wallet.CoinSelectionLargest, false)
	if err != nil {
		return fail("createsimpletx", err)
	}
	chg, chglen := "none", 0
	if tx.ChangeIndex >= 0 {
		cs := tx.Tx.TxOut[tx.ChangeIndex].PkScript
		chg, chglen = classOf(cs), len(cs)
	}
	var outSum int64
	for _, o := range tx.Tx.TxOut {
		outSum += o.Value
	}
	fee := int64(tx.TotalInput) - outSum
	reply := fmt.Sprintf("wchange nin=%d chg=%s chglen=%d fee=%d", len(tx.Tx.TxIn), chg, chglen, fee)

	if err := tx.AddAllInputScripts(sec); err != nil {
		return fail("sign", err)
	}
	for i := range tx.Tx.TxIn {
		fetcher := txscript.NewCannedPrevOutputFetcher(tx.PrevScripts[i], int64(tx.PrevInputValues[i]))
		vm, err := txscript.NewEngine(tx.PrevScripts[i], tx.Tx, i, txscript.StandardVerifyFlags, nil,
			txscript.NewTxSigHashes(tx.Tx, fetcher), int64(tx.PrevInputValues[i]), fetcher)
		if err == nil {
			err = vm.Execute()
		}
		if err != nil {
			return fail("validate", err)
		}
	}
	vsize := mempool.GetTxVirtualSize(btcutil.NewTx(tx.Tx))
	need := feeAtRate(rate, vsize)
	viol := ""
	if fee < need {
		viol = fmt.Sprintf("C07 key=createtx.change-size-estimate.%s: fee %d below rate×signed vsize %d (rate %d, signed vsize %d, change script %s/%d bytes)",
			kind, fee, need, rate, vsize, chg, chglen)
	}
	return reply, viol
}
