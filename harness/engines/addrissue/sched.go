package addrissue

// Schedule controller + walletdb.DB decorator.
//
// The decorator makes three places of every read-write transaction of the REAL wallet code schedule points:
//   begin  : entry of DB.Update, before the inner BeginReadWriteTx (bbolt writer lock)
//   commit : the closure has returned, before the inner Commit / Rollback
//   cb     : inside the inner Commit, after bbolt released the writer lock, before a callback registered with
//            tx.OnCommit runs (buckets are wrapped so that ns.Tx().OnCommit goes through the decorator)
// A caller goroutine arriving at a point parks until the controller resumes it.  The controller runs one caller at
// a time and decides "caller is blocked (on w.newAddrMtx)" by *quiescence*: every goroutine of the process except
// the controller is in a waiting state and the caller has not arrived at a point — no timeouts are involved.

import (
	"bytes"
	"fmt"
	"io"
	"runtime"
	"strings"
	"sync/atomic"
	"time"

	"github.com/btcsuite/btcwallet/walletdb"
)

type arrival struct {
	kind   string
	resume chan struct{}
}

type controller struct {
	active   atomic.Bool
	arrivals chan arrival
}

func newController() *controller {
	return &controller{arrivals: make(chan arrival, 64)}
}

// park is called on the goroutine of the real code.
func (c *controller) park(kind string) {
	if c == nil || !c.active.Load() {
		return
	}
	a := arrival{kind, make(chan struct{})}
	c.arrivals <- a
	<-a.resume
}

// othersQuiescent: all goroutines except the calling one are waiting (not running / runnable / in a syscall).
func othersQuiescent(buf []byte) (bool, string) {
	n := runtime.Stack(buf, true)
	dump := buf[:n]
	first := true
	for len(dump) > 0 {
		i := bytes.Index(dump, []byte("\n\n"))
		var blk []byte
		if i < 0 {
			blk, dump = dump, nil
		} else {
			blk, dump = dump[:i], dump[i+2:]
		}
		if first { // the caller itself
			first = false
			continue
		}
		if !bytes.HasPrefix(blk, []byte("goroutine ")) {
			continue
		}
		l := bytes.IndexByte(blk, '[')
		r := bytes.IndexByte(blk, ']')
		if l < 0 || r < l {
			return false, "unparsed"
		}
		st := string(blk[l+1 : r])
		if j := strings.IndexByte(st, ','); j >= 0 {
			st = st[:j]
		}
		if !blockedStates[st] {
			return false, st
		}
	}
	return true, ""
}

// blockedStates: the goroutine states (runtime wait reasons, go1.23 runtime2.go) in which a goroutine stays until ANOTHER
// goroutine does something for it.  Everything else counts as "can still move": running / runnable / syscall /
// preempted / sleep, and also the transient waits a busy goroutine passes through on its own, e.g. "GC assist wait",
// "GC assist marking", "wait for GC cycle" — a caller caught in one of those during the dump used to look "blocked on
// a lock" (a deny-list of states was used), which under memory/CPU pressure could misattribute an event.  An unknown
// state can only delay the quiescence verdict, never produce a wrong one.
var blockedStates = map[string]bool{
	"chan receive": true, "chan send": true, "select": true,
	"chan receive (nil chan)": true, "chan send (nil chan)": true, "select (no cases)": true,
	"semacquire": true, "sync.Mutex.Lock": true, "sync.RWMutex.RLock": true, "sync.RWMutex.Lock": true,
	"sync.Cond.Wait": true, "sync.WaitGroup.Wait": true, "IO wait": true, "finalizer wait": true,
}

// ---------------------------------------------------------------- decorated DB

type schedDB struct {
	inner walletdb.DB
	ctl   *controller
}

var _ walletdb.DB = (*schedDB)(nil)

func (d *schedDB) BeginReadTx() (walletdb.ReadTx, error) { return d.inner.BeginReadTx() }
func (d *schedDB) BeginReadWriteTx() (walletdb.ReadWriteTx, error) {
	tx, err := d.inner.BeginReadWriteTx()
	if err != nil {
		return nil, err
	}
	return &schedTx{ReadWriteTx: tx, d: d}, nil
}
func (d *schedDB) Copy(w io.Writer) error { return d.inner.Copy(w) }
func (d *schedDB) Close() error           { return d.inner.Close() }
func (d *schedDB) PrintStats() string     { return d.inner.PrintStats() }
func (d *schedDB) View(f func(tx walletdb.ReadTx) error, reset func()) error {
	return d.inner.View(f, reset)
}
func (d *schedDB) Batch(f func(tx walletdb.ReadWriteTx) error) error {
	return d.Update(f, func() {})
}

// Update mirrors walletdb/bdb (*db).Update statement by statement, with the schedule points added.
func (d *schedDB) Update(f func(tx walletdb.ReadWriteTx) error, reset func()) error {
	reset()
	d.ctl.park("begin")
	itx, err := d.inner.BeginReadWriteTx()
	if err != nil {
		return err
	}
	tx := &schedTx{ReadWriteTx: itx, d: d}
	finished := false
	defer func() {
		if !finished {
			_ = itx.Rollback()
		}
	}()
	err = f(tx)
	d.ctl.park("commit")
	finished = true
	if err != nil {
		_ = itx.Rollback()
		return err
	}
	return itx.Commit()
}

type schedTx struct {
	walletdb.ReadWriteTx
	d *schedDB
}

func (t *schedTx) ReadWriteBucket(key []byte) walletdb.ReadWriteBucket {
	b := t.ReadWriteTx.ReadWriteBucket(key)
	if b == nil {
		return nil
	}
	return &schedBucket{ReadWriteBucket: b, tx: t}
}
func (t *schedTx) CreateTopLevelBucket(key []byte) (walletdb.ReadWriteBucket, error) {
	b, err := t.ReadWriteTx.CreateTopLevelBucket(key)
	if err != nil || b == nil {
		return nil, err
	}
	return &schedBucket{ReadWriteBucket: b, tx: t}, nil
}
func (t *schedTx) OnCommit(f func()) {
	t.ReadWriteTx.OnCommit(func() {
		// bbolt has already released the writer lock here (tx.close() precedes the commit handlers)
		t.d.ctl.park("cb")
		f()
	})
}

type schedBucket struct {
	walletdb.ReadWriteBucket
	tx *schedTx
}

func (b *schedBucket) wrap(n walletdb.ReadWriteBucket) walletdb.ReadWriteBucket {
	if n == nil {
		return nil
	}
	return &schedBucket{ReadWriteBucket: n, tx: b.tx}
}
func (b *schedBucket) NestedReadWriteBucket(key []byte) walletdb.ReadWriteBucket {
	return b.wrap(b.ReadWriteBucket.NestedReadWriteBucket(key))
}
func (b *schedBucket) CreateBucket(key []byte) (walletdb.ReadWriteBucket, error) {
	n, err := b.ReadWriteBucket.CreateBucket(key)
	if err != nil {
		return nil, err
	}
	return b.wrap(n), nil
}
func (b *schedBucket) CreateBucketIfNotExists(key []byte) (walletdb.ReadWriteBucket, error) {
	n, err := b.ReadWriteBucket.CreateBucketIfNotExists(key)
	if err != nil {
		return nil, err
	}
	return b.wrap(n), nil
}
func (b *schedBucket) Tx() walletdb.ReadWriteTx { return b.tx }

// ---------------------------------------------------------------- controlled execution

type callerState int

const (
	csNotStarted callerState = iota
	csBlockedEntry
	csParked
	csDone
)

type doneMsg struct {
	id  int
	res callResult
}

type ctlCaller struct {
	st     callerState
	kind   string // park kind when csParked
	resume chan struct{}
	res    callResult
}

// runSchedule executes the schedule on real callers; returns the event list and whether all callers returned.
func (c *controller) runSchedule(calls []func() callResult, sched []int) (events []string, res []callResult, allDone bool, err error) {
	n := len(calls)
	cs := make([]*ctlCaller, n)
	for i := range cs {
		cs[i] = &ctlCaller{}
	}
	dones := make(chan doneMsg, n)
	writerHeld := false
	buf := make([]byte, 1<<20)
	c.active.Store(true)
	defer c.active.Store(false)

	blockedOne := func() int {
		for j, x := range cs {
			if x.st == csBlockedEntry {
				return j
			}
		}
		return -1
	}
	// settle waits until the system is quiescent and attributes what happened. cur = stepping caller,
	// fromStart = the step started it.
	settle := func(cur int, fromStart bool) error {
		deadline := time.Now().Add(60 * time.Second)
		handleArrival := func(a arrival) error {
			who := cur
			if a.kind == "begin" && !(fromStart && cs[cur].st == csNotStarted) {
				who = blockedOne()
			}
			if who < 0 {
				return fmt.Errorf("unattributed arrival %s", a.kind)
			}
			if cs[who].st == csDone {
				return fmt.Errorf("arrival %s after done", a.kind)
			}
			cs[who].st, cs[who].kind, cs[who].resume = csParked, a.kind, a.resume
			return nil
		}
		poll := 100 * time.Microsecond
		for {
			// Exactly one caller runs at a time.  Once it has parked nothing else can move; once it has returned
			// only a caller blocked on entry can still move (it may now get w.newAddrMtx).
			if cs[cur].st == csParked || (cs[cur].st == csDone && blockedOne() < 0) {
				return nil
			}
			tick := false
			select {
			case a := <-c.arrivals:
				if err := handleArrival(a); err != nil {
					return err
				}
			case d := <-dones:
				cs[d.id].st, cs[d.id].res = csDone, d.res
			case <-time.After(poll):
				tick = true
			}
			if tick {
				if q, _ := othersQuiescent(buf); q && len(c.arrivals) == 0 && len(dones) == 0 {
					// everything is waiting and nothing arrived: the running caller (or the caller blocked on
					// entry) is blocked on a lock
					return nil
				}
				if poll < 2*time.Millisecond {
					poll *= 2
				}
				if time.Now().After(deadline) {
					_, st := othersQuiescent(buf)
					return fmt.Errorf("no quiescence (goroutine state %q)", st)
				}
			}
		}
	}

	ev := func(s string) { events = append(events, s) }
	for _, i := range sched {
		if i < 0 || i >= n {
			ev("bad")
			continue
		}
		x := cs[i]
		switch x.st {
		case csDone:
			ev("done")
		case csBlockedEntry:
			ev("blocked")
		case csNotStarted:
			if blockedOne() >= 0 {
				ev("defer")
				continue
			}
			id, call := i, calls[i]
			go func() { dones <- doneMsg{id, call()} }()
			if err = settle(i, true); err != nil {
				return
			}
			if x.st == csNotStarted {
				x.st = csBlockedEntry
				ev("blocked")
			} else {
				ev("begin")
			}
		case csParked:
			switch x.kind {
			case "begin":
				if writerHeld {
					ev("wait")
					continue
				}
				writerHeld = true
				x.st = csNotStarted // transient: running
				close(x.resume)
				if err = settle(i, false); err != nil {
					return
				}
				if x.st != csParked || x.kind != "commit" {
					err = fmt.Errorf("caller %d did not reach the commit point", i)
					return
				}
				ev("tx")
			case "commit":
				x.st = csNotStarted
				close(x.resume)
				if err = settle(i, false); err != nil {
					return
				}
				writerHeld = false
				if x.st == csParked && x.kind == "cb" {
					ev("commit")
				} else if x.st == csDone {
					ev("end")
				} else {
					err = fmt.Errorf("caller %d lost after commit", i)
					return
				}
			case "cb":
				x.st = csNotStarted
				close(x.resume)
				if err = settle(i, false); err != nil {
					return
				}
				if x.st == csNotStarted {
					err = fmt.Errorf("caller %d lost after callback", i)
					return
				}
				ev("cb")
			}
		}
	}
	// finish whatever is still running so the wallet stays usable (not part of the reply)
	allDone = true
	for _, x := range cs {
		if x.st != csDone {
			allDone = false
		}
	}
	if !allDone {
		c.active.Store(false) // later arrivals pass straight through
		started := 0
		for _, x := range cs {
			if x.st == csParked {
				close(x.resume)
			}
			if x.st == csParked || x.st == csBlockedEntry {
				started++
			}
		}
		tm := time.After(60 * time.Second)
		for started > 0 {
			select {
			case a := <-c.arrivals:
				close(a.resume)
			case d := <-dones:
				cs[d.id].st, cs[d.id].res = csDone, d.res
				started--
			case <-tm:
				err = fmt.Errorf("callers did not finish during cleanup")
				return
			}
		}
	}
	res = make([]callResult, n)
	for i, x := range cs {
		res[i] = x.res
	}
	return
}
