// Package addrissue: correspondence engine for C09 (concurrent address issuing).
//
// Ops (one case = one real wallet.Wallet on a real bdb file behind the schedule-point decorator of sched.go):
//
//	reset                                   first op of every case (fresh runner / fresh model state)
//	setup                                   create + fund the wallet (one external address issued, one 1-BTC credit)
//	markused                                mark the most recently issued external address as used
//	rename                                  Wallet.RenameAccount of account 0 (a fresh name each time): rewrites the account
//	                                        row; must leave the next indices alone, in memory and in the database
//	sched c=<kind;kind;...> s=<i,i,...>     run the callers under the forced schedule (ids into c)
//	race g=<n> m=<n> mix=<kind,kind,...>    n goroutines x m calls, free running (Go scheduler decides)
//
// kinds: new (NewAddress) change (NewChangeAddress) cur (CurrentAddress) tx (CreateSimpleTx with change ->
// txToOutputs) tximp (CreateSimpleTx spending from the IMPORTED account: its change address comes from account 0)
// txdry (CreateSimpleTx with dryRun) psbt (FundPsbt with explicit inputs) import (ImportAccountDryRun).
// Everything is on key scope BIP0084, account 0.
package addrissue

import (
	"bytes"
	"fmt"
	"math/rand"
	"os"
	"path/filepath"
	"sort"
	"strconv"
	"strings"
	"sync"
	"time"

	"github.com/btcsuite/btcd/btcec/v2"
	"github.com/btcsuite/btcd/btcutil"
	"github.com/btcsuite/btcd/btcutil/hdkeychain"
	"github.com/btcsuite/btcd/btcutil/psbt"
	"github.com/btcsuite/btcd/chaincfg"
	"github.com/btcsuite/btcd/chaincfg/chainhash"
	"github.com/btcsuite/btcd/txscript"
	"github.com/btcsuite/btcd/wire"
	"github.com/btcsuite/btcwallet/snacl"
	"github.com/btcsuite/btcwallet/waddrmgr"
	"github.com/btcsuite/btcwallet/wallet"
	"github.com/btcsuite/btcwallet/walletdb"
	_ "github.com/btcsuite/btcwallet/walletdb/bdb"
	"github.com/btcsuite/btcwallet/wtxmgr"

	"verifharness/core"
)

func init() { core.Register(engine{}) }

type engine struct{}

func (engine) Name() string { return "addrissue" }

var (
	scope    = waddrmgr.KeyScopeBIP0084
	params   = &chaincfg.SimNetParams
	pubPass  = []byte("public")
	privPass = []byte("private")
	fastOnce sync.Once
)

// site name (as in the extracted table) per caller kind
var siteOf = map[string]string{
	"new": "NewAddress", "change": "NewChangeAddress", "cur": "CurrentAddress", "tx": "txToOutputs",
	"txdry": "txToOutputs", "psbt": "FundPsbt", "import": "ImportAccountDryRun", "tximp": "txToOutputs",
}

// branch per kind: 0 external, 1 internal, -1 none
var branchOf = map[string]int{"new": 0, "cur": 0, "change": 1, "tx": 1, "txdry": 1, "psbt": 1, "import": -1, "tximp": 1}

// strict issuers: a successful call must have obtained an address nobody else obtained
var strict = map[string]bool{"new": true, "change": true, "tx": true, "psbt": true, "tximp": true}

type callResult struct {
	addr   string
	branch int
	index  int // -1 unknown / none
	err    string
}

// ---------------------------------------------------------------- runner

type runner struct {
	renames int
	dir    string
	inner  walletdb.DB
	ctl    *controller
	w      *wallet.Wallet
	fake   *fakeChain
	utxo   wire.OutPoint
	utxoTx *wire.MsgTx
	known  map[string][2]int // address -> (branch,index) resolved so far
	impKey *hdkeychain.ExtendedKey
	impN   int
	broken string
	leak   bool
	// database indices read at the end of the previous op (nothing runs between ops)
	lastDisk [2]int
	haveDisk bool
}

func (r *runner) base() (int, int, error) {
	if r.haveDisk {
		return r.lastDisk[0], r.lastDisk[1], nil
	}
	return r.diskNext()
}

func (engine) NewRunner() core.Runner { return &runner{known: map[string][2]int{}} }

func (r *runner) Close() {
	if r.leak {
		// a caller is stuck inside the wallet (lock-order inversion in the code under test): stopping the wallet or
		// closing the database would block for ever; abandon them (own temp dir, goroutines stay parked)
		return
	}
	if r.w != nil {
		r.w.Stop()
		r.w.WaitForShutdown()
	}
	if r.inner != nil {
		_ = r.inner.Close()
	}
	if r.dir != "" {
		_ = os.RemoveAll(r.dir)
	}
}

func tmpBase() string {
	if st, err := os.Stat("/dev/shm"); err == nil && st.IsDir() {
		return "/dev/shm"
	}
	return ""
}

func (r *runner) setup() error {
	fastOnce.Do(func() {
		waddrmgr.SetSecretKeyGen(func(p *[]byte, _ *waddrmgr.ScryptOptions) (*snacl.SecretKey, error) {
			return snacl.NewSecretKey(p, 16, 8, 1)
		})
	})
	dir, err := os.MkdirTemp(tmpBase(), "vx-addrissue-")
	if err != nil {
		return err
	}
	r.dir = dir
	r.inner, err = walletdb.Create("bdb", filepath.Join(dir, "wallet.db"), true, 10*time.Second, false)
	if err != nil {
		return err
	}
	r.ctl = newController()
	sdb := &schedDB{inner: r.inner, ctl: r.ctl}
	loader, err := wallet.NewLoaderWithDB(params, 10, sdb, func() (bool, error) { return false, nil },
		wallet.WithWalletSyncRetryInterval(10*time.Millisecond))
	if err != nil {
		return err
	}
	seed := bytes.Repeat([]byte{0x5a}, 32)
	r.w, err = loader.CreateNewWallet(pubPass, privPass, seed, time.Unix(1600000000, 0))
	if err != nil {
		return err
	}
	r.fake = newFakeChain()
	r.w.SynchronizeRPC(r.fake)
	if err = r.w.Unlock(privPass, nil); err != nil {
		return err
	}
	// funding: one external address, one confirmed 1-BTC credit paying to it
	a, err := r.w.NewAddress(0, scope)
	if err != nil {
		return err
	}
	pk, err := txscript.PayToAddrScript(a)
	if err != nil {
		return err
	}
	tx := wire.NewMsgTx(2)
	tx.AddTxIn(&wire.TxIn{PreviousOutPoint: wire.OutPoint{Hash: chainhash.Hash{1}, Index: 0}, Sequence: wire.MaxTxInSequenceNum})
	tx.AddTxOut(wire.NewTxOut(100000000, pk))
	rec, err := wtxmgr.NewTxRecordFromMsgTx(tx, time.Unix(1600000100, 0))
	if err != nil {
		return err
	}
	blk := &wtxmgr.BlockMeta{Block: wtxmgr.Block{Hash: chainhash.Hash{2}, Height: 1}, Time: time.Unix(1600000100, 0)}
	err = walletdb.Update(r.inner, func(dbtx walletdb.ReadWriteTx) error {
		ns := dbtx.ReadWriteBucket([]byte("wtxmgr"))
		if err := r.w.TxStore.InsertTx(ns, rec, blk); err != nil {
			return err
		}
		return r.w.TxStore.AddCredit(ns, rec, blk, 0, false)
	})
	if err != nil {
		return err
	}
	r.utxo = wire.OutPoint{Hash: tx.TxHash(), Index: 0}
	r.utxoTx = tx
	// an imported private key (imported account of the same scope) with its own confirmed credit
	priv, _ := btcec.PrivKeyFromBytes(bytes.Repeat([]byte{0x42}, 32))
	wif, err := btcutil.NewWIF(priv, params, true)
	if err != nil {
		return err
	}
	sm, err := r.w.Manager.FetchScopedKeyManager(scope)
	if err != nil {
		return err
	}
	err = walletdb.Update(r.inner, func(dbtx walletdb.ReadWriteTx) error {
		_, err := sm.ImportPrivateKey(dbtx.ReadWriteBucket([]byte("waddrmgr")), wif, &waddrmgr.BlockStamp{
			Height: 0, Hash: *params.GenesisHash, Timestamp: time.Unix(1500000000, 0)})
		return err
	})
	if err != nil {
		return err
	}
	ia, err := btcutil.NewAddressWitnessPubKeyHash(btcutil.Hash160(priv.PubKey().SerializeCompressed()), params)
	if err != nil {
		return err
	}
	ipk, err := txscript.PayToAddrScript(ia)
	if err != nil {
		return err
	}
	tx2 := wire.NewMsgTx(2)
	tx2.AddTxIn(&wire.TxIn{PreviousOutPoint: wire.OutPoint{Hash: chainhash.Hash{3}, Index: 0}, Sequence: wire.MaxTxInSequenceNum})
	tx2.AddTxOut(wire.NewTxOut(50000000, ipk))
	rec2, err := wtxmgr.NewTxRecordFromMsgTx(tx2, time.Unix(1600000100, 0))
	if err != nil {
		return err
	}
	err = walletdb.Update(r.inner, func(dbtx walletdb.ReadWriteTx) error {
		ns := dbtx.ReadWriteBucket([]byte("wtxmgr"))
		if err := r.w.TxStore.InsertTx(ns, rec2, blk); err != nil {
			return err
		}
		return r.w.TxStore.AddCredit(ns, rec2, blk, 0, false)
	})
	if err != nil {
		return err
	}
	// account key for ImportAccountDryRun
	master, err := hdkeychain.NewMaster(bytes.Repeat([]byte{0x33}, 32), params)
	if err != nil {
		return err
	}
	k := master
	for _, i := range []uint32{84, 115, 9} {
		if k, err = k.Derive(hdkeychain.HardenedKeyStart + i); err != nil {
			return err
		}
	}
	if r.impKey, err = k.Neuter(); err != nil {
		return err
	}
	return nil
}

// memNext: what the running wallet says (in-memory account info).
func (r *runner) memNext() (int, int, error) {
	p, err := r.w.AccountProperties(scope, 0)
	if err != nil {
		return 0, 0, err
	}
	return int(p.ExternalKeyCount), int(p.InternalKeyCount), nil
}

// diskNext: what a freshly opened manager reads from the database file.
func (r *runner) diskNext() (e, i int, err error) {
	err = walletdb.View(r.inner, func(tx walletdb.ReadTx) error {
		ns := tx.ReadBucket([]byte("waddrmgr"))
		m, err := waddrmgr.Open(ns, pubPass, params)
		if err != nil {
			return err
		}
		defer m.Close()
		sm, err := m.FetchScopedKeyManager(scope)
		if err != nil {
			return err
		}
		p, err := sm.AccountProperties(ns, 0)
		if err != nil {
			return err
		}
		e, i = int(p.ExternalKeyCount), int(p.InternalKeyCount)
		return nil
	})
	if err == nil {
		r.lastDisk, r.haveDisk = [2]int{e, i}, true
	}
	return
}

func (r *runner) resolve(res *callResult, a btcutil.Address) {
	res.addr = a.EncodeAddress()
	res.index = -1
	if k, ok := r.known[res.addr]; ok {
		res.branch, res.index = k[0], k[1]
		return
	}
	if ma, err := r.w.AddressInfo(a); err == nil {
		if pk, ok := ma.(waddrmgr.ManagedPubKeyAddress); ok {
			if _, path, ok := pk.DerivationInfo(); ok {
				res.branch, res.index = int(path.Branch), int(path.Index)
				r.known[res.addr] = [2]int{res.branch, res.index}
				return
			}
		}
	}
	// not recorded (rolled-back dry run): find it by derivation
	sm, err := r.w.Manager.FetchScopedKeyManager(scope)
	if err != nil {
		return
	}
	_ = walletdb.View(r.inner, func(tx walletdb.ReadTx) error {
		ns := tx.ReadBucket([]byte("waddrmgr"))
		for b := uint32(0); b < 2; b++ {
			for i := uint32(0); i < 4096; i++ {
				ma, err := sm.DeriveFromKeyPath(ns, waddrmgr.DerivationPath{InternalAccount: 0, Account: hdkeychain.HardenedKeyStart, Branch: b, Index: i})
				if err != nil {
					return nil
				}
				if ma.Address().EncodeAddress() == res.addr {
					res.branch, res.index = int(b), int(i)
					return nil
				}
			}
		}
		return nil
	})
}

func (r *runner) payOut() *wire.TxOut {
	// pay to a fixed foreign P2WPKH script
	return wire.NewTxOut(20000, append([]byte{0x00, 0x14}, bytes.Repeat([]byte{0x77}, 20)...))
}

// call builds the closure that performs one real call of the given kind.  Address resolution happens later, on
// the controller goroutine (it needs a read transaction).
func (r *runner) call(kind string) func() callResult {
	type raw struct {
		a   btcutil.Address
		err error
	}
	fin := func(x raw) callResult {
		res := callResult{branch: branchOf[kind], index: -1}
		if x.err != nil {
			res.err = x.err.Error()
			return res
		}
		if x.a != nil {
			res.addr = "?" + x.a.EncodeAddress()
		}
		return res
	}
	changeAddr := func(tx *wire.MsgTx, idx int) (btcutil.Address, error) {
		if idx < 0 {
			return nil, nil
		}
		_, addrs, _, err := txscript.ExtractPkScriptAddrs(tx.TxOut[idx].PkScript, params)
		if err != nil || len(addrs) != 1 {
			return nil, fmt.Errorf("bad change script")
		}
		return addrs[0], nil
	}
	switch kind {
	case "new":
		return func() callResult { a, err := r.w.NewAddress(0, scope); return fin(raw{a, err}) }
	case "change":
		return func() callResult { a, err := r.w.NewChangeAddress(0, scope); return fin(raw{a, err}) }
	case "cur":
		return func() callResult { a, err := r.w.CurrentAddress(0, scope); return fin(raw{a, err}) }
	case "tx", "txdry", "tximp":
		dry := kind == "txdry"
		acct := uint32(0)
		if kind == "tximp" {
			acct = waddrmgr.ImportedAddrAccount
		}
		return func() callResult {
			atx, err := r.w.CreateSimpleTx(&scope, acct, []*wire.TxOut{r.payOut()}, 1, 2000,
				wallet.CoinSelectionLargest, dry)
			if err != nil {
				return fin(raw{nil, err})
			}
			a, err := changeAddr(atx.Tx, atx.ChangeIndex)
			return fin(raw{a, err})
		}
	case "psbt":
		return func() callResult {
			tx := wire.NewMsgTx(2)
			tx.AddTxIn(&wire.TxIn{PreviousOutPoint: r.utxo, Sequence: wire.MaxTxInSequenceNum})
			tx.AddTxOut(r.payOut())
			pkt, err := psbt.NewFromUnsignedTx(tx)
			if err != nil {
				return fin(raw{nil, err})
			}
			ci, err := r.w.FundPsbt(pkt, &scope, 1, 0, 2000, wallet.CoinSelectionLargest)
			if err != nil {
				return fin(raw{nil, err})
			}
			a, err := changeAddr(pkt.UnsignedTx, int(ci))
			return fin(raw{a, err})
		}
	case "import":
		return func() callResult {
			at := waddrmgr.WitnessPubKey
			_, _, _, err := r.w.ImportAccountDryRun("imp", r.impKey, 0, &at, 2)
			return fin(raw{nil, err})
		}
	}
	return func() callResult { return callResult{err: "bad-kind", index: -1} }
}

func (r *runner) finish(res *callResult) {
	if strings.HasPrefix(res.addr, "?") {
		a, err := btcutil.DecodeAddress(res.addr[1:], params)
		if err != nil {
			res.err = "decode: " + err.Error()
			return
		}
		r.resolve(res, a)
	}
}

func retStr(res callResult) string {
	switch {
	case res.err != "":
		return "E"
	case res.addr == "":
		return "-"
	case res.index < 0:
		return "?"
	}
	return strconv.Itoa(res.index)
}

// oracle: the statement of C09 evaluated on the real results. kinds[i] is the kind of call i.
func oracle(kinds []string, res []callResult, baseE, baseI, memE, memI, diskE, diskI int) string {
	var v []string
	// (1) strict issuers obtained pairwise distinct addresses
	type who struct{ kind string }
	seen := map[string]string{}
	for i, k := range kinds {
		if !strict[k] || res[i].err != "" || res[i].addr == "" {
			continue
		}
		if prev, dup := seen[res[i].addr]; dup {
			pair := []string{siteOf[prev], siteOf[k]}
			sort.Strings(pair)
			v = append(v, fmt.Sprintf("C09 key=duplicate.%s+%s: two successful calls obtained the same address %s (branch %d index %d)",
				pair[0], pair[1], res[i].addr, res[i].branch, res[i].index))
		} else {
			seen[res[i].addr] = k
		}
	}
	// (2) indices handed out on each branch are exactly [base, diskNext)
	for b, rng := range [][2]int{{baseE, diskE}, {baseI, diskI}} {
		got := map[int]bool{}
		for i, k := range kinds {
			if k == "txdry" || k == "import" || res[i].err != "" || res[i].index < 0 || res[i].branch != b {
				continue
			}
			if res[i].index >= rng[0] {
				got[res[i].index] = true
			}
		}
		ok := len(got) == rng[1]-rng[0]
		for x := rng[0]; x < rng[1]; x++ {
			ok = ok && got[x]
		}
		if !ok {
			var l []int
			for x := range got {
				l = append(l, x)
			}
			sort.Ints(l)
			v = append(v, fmt.Sprintf("C09 key=gap.branch%d: indices handed out %v are not the range [%d,%d) recorded in the database", b, l, rng[0], rng[1]))
		}
	}
	// (3) database agrees with memory
	if memE != diskE {
		v = append(v, fmt.Sprintf("C09 key=mem-disk.branch0: in-memory next external index %d, reopened database %d", memE, diskE))
	}
	if memI != diskI {
		v = append(v, fmt.Sprintf("C09 key=mem-disk.branch1: in-memory next internal index %d, reopened database %d", memI, diskI))
	}
	return strings.Join(v, "; ")
}

func (r *runner) Exec(op string) (string, string) {
	name, kv := core.KV(op)
	if r.broken != "" && name != "reset" {
		return "broken " + r.broken, ""
	}
	if name == "reset" { // first op of every case: the model driver forgets its state, the runner starts afresh
		r.Close()
		*r = runner{known: map[string][2]int{}}
		return "ok", ""
	}
	if name != "setup" && r.w == nil {
		return "err no-setup", ""
	}
	switch name {
	case "setup":
		if r.w != nil {
			return "err already", ""
		}
		if err := r.setup(); err != nil {
			r.broken = "setup"
			return "err setup " + err.Error(), ""
		}
		return r.state("ok")
	case "rename":
		r.renames++
		if err := r.w.RenameAccount(scope, 0, fmt.Sprintf("acct-%d", r.renames)); err != nil {
			return "err rename", ""
		}
		rep, _ := r.state("ok")
		var v []string
		if memE, memI, err := r.memNext(); err == nil {
			if diskE, diskI, err := r.diskNext(); err == nil {
				if memE != diskE {
					v = append(v, fmt.Sprintf("C09 key=mem-disk.branch0: after RenameAccount the in-memory next external index is %d, a reopened database says %d (a restart would hand out addresses again or skip some)", memE, diskE))
				}
				if memI != diskI {
					v = append(v, fmt.Sprintf("C09 key=mem-disk.branch1: after RenameAccount the in-memory next internal index is %d, a reopened database says %d (a restart would hand out addresses again or skip some)", memI, diskI))
				}
			}
		}
		return rep, strings.Join(v, "; ")
	case "markused":
		e, _, err := r.memNext()
		if err != nil || e == 0 {
			return "none", ""
		}
		var target string
		for a, k := range r.known {
			if k[0] == 0 && k[1] == e-1 {
				target = a
			}
		}
		if target == "" {
			// the funding address (index 0) or one we have not resolved: derive it
			sm, _ := r.w.Manager.FetchScopedKeyManager(scope)
			_ = walletdb.View(r.inner, func(tx walletdb.ReadTx) error {
				ma, err := sm.DeriveFromKeyPath(tx.ReadBucket([]byte("waddrmgr")), waddrmgr.DerivationPath{
					InternalAccount: 0, Account: hdkeychain.HardenedKeyStart, Branch: 0, Index: uint32(e - 1)})
				if err == nil {
					target = ma.Address().EncodeAddress()
				}
				return nil
			})
		}
		a, err := btcutil.DecodeAddress(target, params)
		if err != nil {
			return "none", ""
		}
		err = walletdb.Update(r.inner, func(tx walletdb.ReadWriteTx) error {
			return r.w.Manager.MarkUsed(tx.ReadWriteBucket([]byte("waddrmgr")), a)
		})
		if err != nil {
			return "err markused", ""
		}
		return fmt.Sprintf("ok idx=%d", e-1), ""
	case "sched":
		kinds := strings.Split(kv["c"], ";")
		var sched []int
		for _, t := range core.CSV(kv["s"]) {
			n, err := strconv.Atoi(t)
			if err != nil {
				return "bad-op", ""
			}
			sched = append(sched, n)
		}
		var calls []func() callResult
		for _, k := range kinds {
			if _, ok := siteOf[k]; !ok {
				return "bad-op", ""
			}
			calls = append(calls, r.call(k))
		}
		baseE, baseI, err := r.base()
		if err != nil {
			return "err disk", ""
		}
		events, res, allDone, err := r.ctl.runSchedule(calls, sched)
		if err != nil {
			r.broken = "controller: " + err.Error()
			r.leak = true
			return "err controller " + err.Error(), ""
		}
		var rets []string
		for i := range res {
			if allDone || res[i].addr != "" || res[i].err != "" {
				r.finish(&res[i])
			}
			rets = append(rets, retStr(res[i]))
		}
		memE, memI, err1 := r.memNext()
		diskE, diskI, err2 := r.diskNext()
		if err1 != nil || err2 != nil {
			return "err props", ""
		}
		if !allDone {
			// the started callers were run to completion outside the schedule: the case cannot continue
			r.broken = "incomplete"
			return fmt.Sprintf("incomplete ev=%s", strings.Join(events, ",")), ""
		}
		viol := oracle(kinds, res, baseE, baseI, memE, memI, diskE, diskI)
		return fmt.Sprintf("ev=%s ret=%s mem=%d/%d disk=%d/%d", strings.Join(events, ","), strings.Join(rets, ","),
			memE, memI, diskE, diskI), viol
	case "race":
		g, _ := strconv.Atoi(kv["g"])
		m, _ := strconv.Atoi(kv["m"])
		mix := core.CSV(kv["mix"])
		if g <= 0 || m <= 0 || len(mix) == 0 || g > 256 || m > 1000 {
			return "bad-op", ""
		}
		for _, k := range mix {
			if _, ok := siteOf[k]; !ok {
				return "bad-op", ""
			}
		}
		baseE, baseI, err := r.diskNext()
		if err != nil {
			return "err disk", ""
		}
		kinds := make([]string, 0, g*m)
		res := make([]callResult, g*m)
		for j := 0; j < g; j++ {
			for c := 0; c < m; c++ {
				kinds = append(kinds, mix[j%len(mix)])
			}
		}
		var wg sync.WaitGroup
		start := make(chan struct{})
		for j := 0; j < g; j++ {
			wg.Add(1)
			go func(j int) {
				defer wg.Done()
				f := r.call(mix[j%len(mix)])
				<-start
				for c := 0; c < m; c++ {
					res[j*m+c] = f()
				}
			}(j)
		}
		close(start)
		finished := make(chan struct{})
		go func() { wg.Wait(); close(finished) }()
		// a wallet whose code under test has a lock-order inversion really deadlocks here; detect it by quiescence
		// (every goroutine waiting, the race not finished) instead of hanging
		buf := make([]byte, 1<<20)
		for quiet := 0; ; {
			stuck := false
			select {
			case <-finished:
			case <-time.After(50 * time.Millisecond):
				if q, _ := othersQuiescent(buf); q {
					quiet++
				} else {
					quiet = 0
				}
				if quiet < 3 {
					continue
				}
				stuck = true
			}
			if stuck {
				r.broken, r.leak = "race deadlocked", true
				return "err race-deadlock", ""
			}
			break
		}
		nerr := 0
		for i := range res {
			r.finish(&res[i])
			if res[i].err != "" {
				nerr++
			}
		}
		memE, memI, err1 := r.memNext()
		diskE, diskI, err2 := r.diskNext()
		if err1 != nil || err2 != nil {
			return "err props", ""
		}
		viol := oracle(kinds, res, baseE, baseI, memE, memI, diskE, diskI)
		return fmt.Sprintf("ok errs=%d mem=%d/%d disk=%d/%d", nerr, memE, memI, diskE, diskI), viol
	}
	return "bad-op", ""
}

func (r *runner) state(prefix string) (string, string) {
	memE, memI, err1 := r.memNext()
	diskE, diskI, err2 := r.diskNext()
	if err1 != nil || err2 != nil {
		return "err props", ""
	}
	return fmt.Sprintf("%s mem=%d/%d disk=%d/%d", prefix, memE, memI, diskE, diskI), ""
}

// ---------------------------------------------------------------- generator

var allKinds = []string{"new", "change", "cur", "tx", "psbt", "import", "txdry", "tximp"}

// interleavings of a zeros and b ones
func interleavings(a, b int) [][]int {
	if a == 0 && b == 0 {
		return [][]int{{}}
	}
	var out [][]int
	if a > 0 {
		for _, t := range interleavings(a-1, b) {
			out = append(out, append([]int{0}, t...))
		}
	}
	if b > 0 {
		for _, t := range interleavings(a, b-1) {
			out = append(out, append([]int{1}, t...))
		}
	}
	return out
}

func schedStr(s []int) string {
	t := make([]string, len(s))
	for i, x := range s {
		t[i] = strconv.Itoa(x)
	}
	return strings.Join(t, ",")
}

func drain(n, rounds int) []int {
	var s []int
	for r := 0; r < rounds; r++ {
		for i := 0; i < n; i++ {
			s = append(s, i)
		}
	}
	return s
}

func isTx(k string) bool { return k == "tx" || k == "txdry" || k == "tximp" }

func (engine) Generate(rng *rand.Rand, tier string) []core.Case {
	var cases []core.Case
	thorough := tier == "thorough"
	il := interleavings(4, 4)
	// (1) every pair of sites, every placement of each caller's begin / tx / commit / callback (N = 2)
	for ai, a := range allKinds {
		for _, b := range allKinds[ai:] {
			if isTx(a) && isTx(b) {
				continue // CreateSimpleTx calls are serialised by the wallet's txCreator goroutine
			}
			for _, mark := range []bool{false, true} {
				if mark && a != "cur" && b != "cur" {
					continue
				}
				c := core.Case{Ops: []string{"reset", "setup"}, Tags: []string{"pair:" + siteOf[a] + "+" + siteOf[b]}}
				if mark {
					c.Tags = append(c.Tags, "cur-last-used")
				}
				for _, s := range il {
					if mark {
						c.Ops = append(c.Ops, "markused")
					}
					full := append(append([]int{}, s...), drain(2, 9)...)
					c.Ops = append(c.Ops, fmt.Sprintf("sched c=%s;%s s=%s", a, b, schedStr(full)))
					if len(c.Ops)%7 == 0 {
						// an account rename between two rounds of issuing (seed C09-6): the counters must survive it
						c.Ops = append(c.Ops, "rename")
					}
				}
				cases = append(cases, c)
			}
		}
	}
	// (1b) three callers, the "late callback" template for every issuing site X in the first position:
	// X commits and its callback stays pending while two other calls on the same branch run completely, then X's
	// callback runs (without the mutex at X this moves the in-memory index backwards).  Plus neighbours of it.
	for _, x := range []string{"new", "cur", "change", "tx", "psbt", "tximp"} {
		partner := "new"
		if branchOf[x] == 1 {
			partner = "change"
		}
		c := core.Case{Ops: []string{"reset", "setup"}, Tags: []string{"late-callback:" + siteOf[x]}}
		tmpl := []int{0, 0, 0, 1, 1, 1, 1, 2, 2, 2, 2, 0}
		for j := 0; j < 12; j++ {
			s := append([]int{}, tmpl...)
			if j > 0 { // neighbour: swap two adjacent steps
				k := rng.Intn(len(s) - 1)
				s[k], s[k+1] = s[k+1], s[k]
			}
			s = append(s, drain(3, 13)...)
			if x == "cur" {
				c.Ops = append(c.Ops, "markused")
			}
			c.Ops = append(c.Ops, fmt.Sprintf("sched c=%s;%s;%s s=%s", x, partner, partner, schedStr(s)))
		}
		cases = append(cases, c)
	}
	// (2) three callers, random schedules
	n3 := 6
	per := 40
	if thorough {
		n3, per = 60, 120
	}
	for i := 0; i < n3; i++ {
		var ks []string
		for len(ks) < 3 {
			k := allKinds[rng.Intn(len(allKinds))]
			ok := true
			for _, x := range ks {
				if isTx(x) && isTx(k) {
					ok = false
				}
			}
			if ok {
				ks = append(ks, k)
			}
		}
		c := core.Case{Ops: []string{"reset", "setup"}, Tags: []string{"triple"}}
		for j := 0; j < per; j++ {
			var s []int
			for k := 0; k < 12; k++ {
				s = append(s, rng.Intn(3))
			}
			s = append(s, drain(3, 13)...)
			if rng.Intn(4) == 0 {
				c.Ops = append(c.Ops, "markused")
			}
			c.Ops = append(c.Ops, fmt.Sprintf("sched c=%s s=%s", strings.Join(ks, ";"), schedStr(s)))
		}
		cases = append(cases, c)
	}
	// (3) free-running races
	nr := 6
	if thorough {
		nr = 60
	}
	mixes := [][]string{{"new"}, {"change"}, {"new", "change"}, {"new", "change", "cur", "tx"}, {"change", "tximp", "psbt"},
		{"new", "cur", "import", "txdry", "change"}}
	for i := 0; i < nr; i++ {
		c := core.Case{Ops: []string{"reset", "setup"}, Tags: []string{"race"}}
		reps := 3
		if thorough {
			reps = 6
		}
		for j := 0; j < reps; j++ {
			mix := mixes[(i+j)%len(mixes)]
			g := 2 + rng.Intn(7)
			m := 1 + rng.Intn(6)
			c.Ops = append(c.Ops, fmt.Sprintf("race g=%d m=%d mix=%s", g, m, strings.Join(mix, ",")))
		}
		cases = append(cases, c)
	}
	// (4) malformed stream
	cases = append(cases, core.Case{Ops: []string{"reset", "sched c=new s=0", "setup", "setup", "sched c=bogus s=0", "sched c=new s=x",
		"race g=0 m=1 mix=new", "frobnicate", "sched c=new s=7,0,0,0,0,0"}, Tags: []string{"malformed"}})
	return cases
}
