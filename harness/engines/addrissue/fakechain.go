package addrissue

import (
	"errors"
	"time"

	"github.com/btcsuite/btcd/btcjson"
	"github.com/btcsuite/btcd/btcutil"
	"github.com/btcsuite/btcd/chaincfg/chainhash"
	"github.com/btcsuite/btcd/wire"
	"github.com/btcsuite/btcwallet/chain"
	"github.com/btcsuite/btcwallet/waddrmgr"
)

// fakeChain: the smallest chain.Interface the address-issuing methods need (they only ask for the chain client,
// BlockStamp and NotifyReceived).  It never delivers a notification, so the wallet's sync goroutines stay idle.
type fakeChain struct {
	ntfn chan interface{}
	quit chan struct{}
}

func newFakeChain() *fakeChain {
	return &fakeChain{ntfn: make(chan interface{}), quit: make(chan struct{})}
}

var errFake = errors.New("fakechain: not supported")

func (f *fakeChain) Start() error     { return nil }
func (f *fakeChain) Stop()            {}
func (f *fakeChain) WaitForShutdown() {}
func (f *fakeChain) GetBestBlock() (*chainhash.Hash, int32, error) {
	return &chainhash.Hash{10}, 10, nil
}
func (f *fakeChain) GetBlock(*chainhash.Hash) (*wire.MsgBlock, error)          { return nil, errFake }
func (f *fakeChain) GetBlockHash(int64) (*chainhash.Hash, error)               { return nil, errFake }
func (f *fakeChain) GetBlockHeader(*chainhash.Hash) (*wire.BlockHeader, error) { return nil, errFake }
func (f *fakeChain) IsCurrent() bool                                           { return true }
func (f *fakeChain) FilterBlocks(*chain.FilterBlocksRequest) (*chain.FilterBlocksResponse, error) {
	return nil, errFake
}
func (f *fakeChain) BlockStamp() (*waddrmgr.BlockStamp, error) {
	return &waddrmgr.BlockStamp{Height: 10, Hash: chainhash.Hash{10}, Timestamp: time.Unix(1600001000, 0)}, nil
}
func (f *fakeChain) SendRawTransaction(*wire.MsgTx, bool) (*chainhash.Hash, error) {
	return nil, errFake
}
func (f *fakeChain) Rescan(*chainhash.Hash, []btcutil.Address, map[wire.OutPoint]btcutil.Address) error {
	return nil
}
func (f *fakeChain) NotifyReceived([]btcutil.Address) error { return nil }
func (f *fakeChain) NotifyBlocks() error                    { return nil }
func (f *fakeChain) Notifications() <-chan interface{}      { return f.ntfn }
func (f *fakeChain) BackEnd() string                        { return "fake" }
func (f *fakeChain) TestMempoolAccept([]*wire.MsgTx, float64) ([]*btcjson.TestMempoolAcceptResult, error) {
	return nil, errFake
}
func (f *fakeChain) MapRPCErr(err error) error { return err }
