package kv

import (
	"fmt"
	"math/rand"
	"sort"
	"strings"

	"verifharness/core"
)

// ---------------------------------------------------------------------------------------------- generator

var topNames = []string{"61", "62", "63"}
var nestNames = []string{"6e31", "6e32", "6b31", "6e"}
var keyPool = []string{"6b31", "6b32", "6b33", "6b", "6b3100", "00", "ff", "ffff", "6e31", "6e32", "6b31ff", "01.02.03"}
var oddKeys = []string{"-", "78*32768", "78*32769", "78*33000", "00*40", "ff*41"}
var valPool = []string{"-", "76", "7631", "00", "aa*300", "bb*41", "0102030405"}
var bigVals = []string{"cc*5000", "dd*70000", "ee*4096"}

type genState struct {
	rng     *rand.Rand
	buckets map[string]bool            // existing bucket paths (token form, e.g. "61/6e31")
	keys    map[string]map[string]bool // bucket -> keys believed present
	big     bool
}

func (g *genState) clone() *genState {
	c := &genState{rng: g.rng, buckets: map[string]bool{}, keys: map[string]map[string]bool{}, big: g.big}
	for k := range g.buckets {
		c.buckets[k] = true
	}
	for k, m := range g.keys {
		c.keys[k] = map[string]bool{}
		for x := range m {
			c.keys[k][x] = true
		}
	}
	return c
}

func (g *genState) pick(l []string) string { return l[g.rng.Intn(len(l))] }

func (g *genState) sortedBuckets() []string {
	var l []string
	for b := range g.buckets {
		l = append(l, b)
	}
	sort.Strings(l)
	return l
}

// somePath: mostly an existing bucket, sometimes a path that does not resolve.
func (g *genState) somePath() string {
	l := g.sortedBuckets()
	if len(l) > 0 && g.rng.Intn(25) != 0 {
		return l[g.rng.Intn(len(l))]
	}
	switch g.rng.Intn(4) {
	case 0:
		return g.pick(topNames)
	case 1:
		return g.pick(topNames) + "/" + g.pick(nestNames)
	case 2:
		return g.pick(topNames) + "/" + g.pick(nestNames) + "/" + g.pick(nestNames)
	}
	return "7a7a/" + g.pick(keyPool)
}

func (g *genState) someKey(b string) string {
	r := g.rng.Intn(20)
	if r == 0 {
		return g.pick(oddKeys)
	}
	if r < 8 {
		if m := g.keys[b]; len(m) > 0 {
			var l []string
			for k := range m {
				l = append(l, k)
			}
			sort.Strings(l)
			return l[g.rng.Intn(len(l))]
		}
	}
	if r < 10 {
		n := 1 + g.rng.Intn(4)
		s := ""
		for i := 0; i < n; i++ {
			s += fmt.Sprintf("%02x", g.rng.Intn(256))
		}
		return s
	}
	return g.pick(keyPool)
}

func (g *genState) someVal() string {
	r := g.rng.Intn(30)
	if r == 0 && g.big {
		return g.pick(bigVals)
	}
	if r < 4 {
		n := 1 + g.rng.Intn(12)
		s := ""
		for i := 0; i < n; i++ {
			s += fmt.Sprintf("%02x", g.rng.Intn(256))
		}
		return s
	}
	return g.pick(valPool)
}

func depth(p string) int { return strings.Count(p, "/") + 1 }

// genOps produces the calls of one transaction; `writable` steers the gen-side bookkeeping only.
func (g *genState) genOps(n int, writable bool) []string {
	var ops []string
	curs := map[int]string{}
	closed := false
	for len(ops) < n {
		r := g.rng.Intn(100)
		if len(g.buckets) == 0 && writable && !closed && g.rng.Intn(3) != 0 {
			r = 40 // nothing to work on yet: create a bucket
		}
		p := g.somePath()
		switch {
		case r < 22:
			k, v := g.someKey(p), g.someVal()
			ops = append(ops, fmt.Sprintf("put %s %s %s", p, k, v))
			if writable && !closed && g.buckets[p] && !g.buckets[p+"/"+k] {
				if g.keys[p] == nil {
					g.keys[p] = map[string]bool{}
				}
				g.keys[p][k] = true
			}
		case r < 30:
			k := g.someKey(p)
			ops = append(ops, fmt.Sprintf("get %s %s", p, k))
		case r < 37:
			k := g.someKey(p)
			ops = append(ops, fmt.Sprintf("del %s %s", p, k))
			if writable && !closed && g.keys[p] != nil {
				delete(g.keys[p], k)
			}
		case r < 47:
			// create a bucket (top level or nested), up to 3 nesting levels below the top
			if len(g.buckets) == 0 || g.rng.Intn(4) == 0 {
				name := g.pick(topNames)
				if g.rng.Intn(40) == 0 {
					name = g.pick([]string{"-", "7a*33000", "7a*300"})
				}
				ops = append(ops, "mkif / "+name)
				if writable && !closed && name != "-" {
					g.buckets[name] = true
				}
			} else {
				name := g.pick(nestNames)
				if g.rng.Intn(30) == 0 {
					name = g.pick([]string{"-", "7a*33000", "6b32"})
				}
				verb := "mk"
				if g.rng.Intn(2) == 0 {
					verb = "mkif"
				}
				ops = append(ops, fmt.Sprintf("%s %s %s", verb, p, name))
				if writable && !closed && g.buckets[p] && name != "-" && depth(p) < 4 && !(g.keys[p] != nil && g.keys[p][name]) {
					g.buckets[p+"/"+name] = true
				}
			}
		case r < 53:
			// delete a bucket
			l := g.sortedBuckets()
			if len(l) > 0 && g.rng.Intn(5) != 0 {
				b := l[g.rng.Intn(len(l))]
				i := strings.LastIndex(b, "/")
				if i < 0 {
					ops = append(ops, "rmb / "+b)
				} else {
					ops = append(ops, fmt.Sprintf("rmb %s %s", b[:i], b[i+1:]))
				}
				if writable && !closed {
					for x := range g.buckets {
						if under(x, b) {
							delete(g.buckets, x)
							delete(g.keys, x)
						}
					}
				}
			} else {
				ops = append(ops, fmt.Sprintf("rmb %s %s", p, g.someKey(p)))
			}
		case r < 57:
			if g.rng.Intn(3) == 0 {
				ops = append(ops, "nb / "+g.pick(topNames))
			} else {
				ops = append(ops, fmt.Sprintf("nb %s %s", p, g.pick(append(nestNames, keyPool...))))
			}
		case r < 63:
			if g.rng.Intn(4) == 0 {
				p = "/"
			}
			if g.rng.Intn(4) == 0 {
				ops = append(ops, fmt.Sprintf("each %s %d", p, g.rng.Intn(4)))
			} else {
				ops = append(ops, "each "+p)
			}
		case r < 66:
			ops = append(ops, "seq "+p)
		case r < 69:
			n := uint64(g.rng.Intn(100))
			switch g.rng.Intn(8) {
			case 0:
				n = 18446744073709551615
			case 1:
				n = 18446744073709551614
			}
			ops = append(ops, fmt.Sprintf("setseq %s %d", p, n))
		case r < 74:
			ops = append(ops, "nextseq "+p)
		case r < 92:
			// cursor activity
			c := g.rng.Intn(3)
			if _, ok := curs[c]; !ok || g.rng.Intn(6) == 0 {
				ops = append(ops, fmt.Sprintf("copen %d %s", c, p))
				curs[c] = p
			}
			switch g.rng.Intn(10) {
			case 0, 1:
				ops = append(ops, fmt.Sprintf("cfirst %d", c))
				for i := g.rng.Intn(6); i > 0; i-- {
					ops = append(ops, fmt.Sprintf("cnext %d", c))
				}
			case 2, 3:
				ops = append(ops, fmt.Sprintf("clast %d", c))
				for i := g.rng.Intn(6); i > 0; i-- {
					ops = append(ops, fmt.Sprintf("cprev %d", c))
				}
			case 4, 5:
				ops = append(ops, fmt.Sprintf("cseek %d %s", c, g.someKey(curs[c])))
				if g.rng.Intn(2) == 0 {
					ops = append(ops, fmt.Sprintf("cnext %d", c))
				} else {
					ops = append(ops, fmt.Sprintf("cprev %d", c))
				}
			case 6:
				// walk to the end and beyond, then back
				ops = append(ops, fmt.Sprintf("clast %d", c), fmt.Sprintf("cnext %d", c), fmt.Sprintf("cnext %d", c), fmt.Sprintf("cprev %d", c))
			case 7:
				ops = append(ops, fmt.Sprintf("cfirst %d", c), fmt.Sprintf("cprev %d", c), fmt.Sprintf("cnext %d", c))
			case 8:
				ops = append(ops, fmt.Sprintf("cseek %d %s", c, g.someKey(curs[c])), fmt.Sprintf("cdel %d", c))
				if g.rng.Intn(3) == 0 {
					ops = append(ops, fmt.Sprintf("cnext %d", c)) // stale: must be repositioned first
				}
				ops = append(ops, fmt.Sprintf("cfirst %d", c))
				if writable && !closed {
					delete(g.keys, curs[c]) // bookkeeping only: forget what we believed
				}
			case 9:
				ops = append(ops, fmt.Sprintf("c%s %d", g.pick([]string{"next", "prev", "del", "first", "last"}), g.rng.Intn(4)))
			}
		case r < 95:
			ops = append(ops, "oncommit")
		case r < 97:
			// the closure ends the transaction itself
			if g.rng.Intn(3) != 0 {
				if g.rng.Intn(2) == 0 {
					ops = append(ops, "commit")
					if writable {
						closed = true
					}
				} else {
					ops = append(ops, "rollback")
					closed = true
				}
			}
		default:
			ops = append(ops, g.pick([]string{"put 61", "frob 61 62", "get 6g 00", "put / 6b 76", "setseq 61 x", "cfirst", "mk / 61", "get 61/ 00", "each", "seq /", "put 61 6b*2 00", "put 61 .6b 00x"}))
		}
	}
	return ops
}

func (engine) Generate(rng *rand.Rand, tier string) []core.Case {
	var cases []core.Case
	nCases := 500
	if tier == "thorough" {
		nCases = 4000
	}
	kinds := []string{"update", "update", "update", "update", "update", "view", "view", "beginrw", "beginro", "batch"}
	for ci := 0; ci < nCases; ci++ {
		g := &genState{rng: rng, buckets: map[string]bool{}, keys: map[string]map[string]bool{}, big: ci%4 == 0}
		ops := []string{"reset"}
		tags := map[string]bool{}
		nTx := 3 + rng.Intn(8)
		for t := 0; t < nTx; t++ {
			kind := kinds[rng.Intn(len(kinds))]
			if t == 0 {
				kind = "update"
			}
			if kind == "batch" && rng.Intn(3) != 0 {
				kind = "update" // Batch waits 10 ms per call
			}
			writable := kind == "update" || kind == "batch" || kind == "beginrw"
			snap := g.clone()
			ops = append(ops, kind)
			n := 1 + rng.Intn(30)
			if rng.Intn(10) == 0 {
				n = 0
			}
			body := g.genOps(n, writable)
			ops = append(ops, body...)
			explicit := false
			for _, o := range body {
				if o == "commit" {
					explicit = true
				}
			}
			commits := false
			switch kind {
			case "update", "view", "batch":
				o := []string{"ok", "ok", "ok", "err", "panic"}[rng.Intn(5)]
				if t == 0 {
					o = "ok"
				}
				ops = append(ops, "end "+o)
				commits = writable && (o == "ok" || explicit)
				tags[kind+"-"+o] = true
			default:
				if !explicit && rng.Intn(2) == 0 {
					if writable && rng.Intn(3) != 0 {
						ops = append(ops, "commit")
						explicit = true
					} else {
						ops = append(ops, "rollback")
					}
				}
				if rng.Intn(4) == 0 {
					ops = append(ops, g.pick([]string{"put 61 6b31 76", "commit", "rollback", "mkif / 62", "each /", "cfirst 0", "nextseq 61", "each 61", "cdel 0", "get 61 6b31", "oncommit"}))
				}
				ops = append(ops, "drop")
				commits = writable && explicit
				tags[kind] = true
			}
			if explicit {
				tags["explicit-commit"] = true
			}
			if !commits {
				*g = *snap
			}
			ops = append(ops, "dump")
			if rng.Intn(14) == 0 {
				// concurrent walletdb.Batch callers on one bucket, pairwise different keys, some failing
				if l := g.sortedBuckets(); len(l) > 0 {
					b := l[rng.Intn(len(l))]
					nc := 2 + rng.Intn(4)
					var cs []string
					for i := 0; i < nc; i++ {
						o := []string{"ok", "ok", "ok", "err", "panic"}[rng.Intn(5)]
						k := fmt.Sprintf("cb%02x", i)
						if rng.Intn(12) == 0 {
							k = g.pick([]string{"-", "78*32769"}) // Put fails: the closure hands back Put's error
						}
						cs = append(cs, fmt.Sprintf("%s:%s:%s", k, g.someVal(), o))
						if o == "ok" && len(k) == 4 {
							if g.keys[b] == nil {
								g.keys[b] = map[string]bool{}
							}
							g.keys[b][k] = true
						}
					}
					ops = append(ops, fmt.Sprintf("cbatch %s %s", b, strings.Join(cs, ",")), "dump")
					tags["concurrent-batch"] = true
				}
			}
			switch rng.Intn(12) {
			case 0, 1:
				ops = append(ops, "reopen", "dump")
				tags["reopen"] = true
			case 2:
				ops = append(ops, g.pick([]string{"end ok", "drop", "get 61 6b31", "put 61 6b31 76", "commit", "frob"}))
			}
		}
		var tl []string
		for t := range tags {
			tl = append(tl, t)
		}
		sort.Strings(tl)
		cases = append(cases, core.Case{Ops: ops, Tags: tl})
	}
	if tier == "thorough" {
		cases = append(cases, exhaustive()...)
	}
	return cases
}

// exhaustive: every program of at most 4 calls over 2 keys x 2 buckets (one nested) with every outcome, run one after
// the other on the same database so that each meets a different prior state.
func exhaustive() []core.Case {
	alpha := []string{
		"mkif / 61", "rmb / 61", "mk 61 6e31", "rmb 61 6e31",
		"put 61 6b31 76", "put 61 6b32 7632", "del 61 6b31", "put 61 6e31 00",
		"put 61/6e31 6b31 77", "del 61/6e31 6b31", "nextseq 61/6e31",
	}
	var progs [][]string
	var rec func(cur []string, d int)
	rec = func(cur []string, d int) {
		progs = append(progs, append([]string{}, cur...))
		if d == 4 {
			return
		}
		for _, a := range alpha {
			rec(append(cur, a), d+1)
		}
	}
	rec(nil, 0)
	var cases []core.Case
	ops := []string{"reset"}
	cnt := 0
	flush := func() {
		if len(ops) > 1 {
			cases = append(cases, core.Case{Ops: ops, Tags: []string{"exhaustive"}})
		}
		ops = []string{"reset"}
	}
	outcomes := []string{"ok", "err", "panic"}
	for i, p := range progs {
		for oi, o := range outcomes {
			// programs of full length get one failing outcome each (alternating) to keep the run bounded
			if len(p) == 4 && oi > 0 && (i+oi)%2 == 0 {
				continue
			}
			ops = append(ops, "update")
			ops = append(ops, p...)
			ops = append(ops, "end "+o, "dump")
			cnt++
			if cnt%150 == 0 {
				flush()
			}
		}
	}
	flush()
	return cases
}
