// Package kv is the correspondence engine for C11: random / exhaustive transaction programs executed through the
// real walletdb.Update / View / Batch / Begin* on a bdb (bbolt) database file, reply by reply, plus Go-side oracles
// (atomicity, commit visibility, reopen, read-only, frame / read-your-writes, cursor order) evaluated on the real outputs.
package kv

import (
	"encoding/hex"
	"errors"
	"fmt"
	"hash/fnv"
	"os"
	"path/filepath"
	"sort"
	"strconv"
	"strings"
	"time"

	"github.com/btcsuite/btcwallet/walletdb"
	_ "github.com/btcsuite/btcwallet/walletdb/bdb"
	"go.etcd.io/bbolt"

	"verifharness/core"
)

type engine struct{}

func init() { core.Register(engine{}) }

func (engine) Name() string { return "kv" }

// ---------------------------------------------------------------------------------------------- tokens

func parsePart(s string) ([]byte, bool) {
	if i := strings.IndexByte(s, '*'); i >= 0 {
		if strings.Count(s, "*") != 1 {
			return nil, false
		}
		b, ok := hexDec(s[:i])
		if !ok || len(b) != 1 {
			return nil, false
		}
		n, ok := parseNat(s[i+1:])
		if !ok || n > 1<<26 {
			return nil, false
		}
		out := make([]byte, n)
		for j := range out {
			out[j] = b[0]
		}
		return out, true
	}
	return hexDec(s)
}

func hexDec(s string) ([]byte, bool) {
	for _, c := range s {
		if !(c >= '0' && c <= '9' || c >= 'a' && c <= 'f') {
			return nil, false
		}
	}
	b, err := hex.DecodeString(s)
	if err != nil {
		return nil, false
	}
	return b, true
}

func parseNat(s string) (uint64, bool) {
	if s == "" {
		return 0, false
	}
	for _, c := range s {
		if c < '0' || c > '9' {
			return 0, false
		}
	}
	n, err := strconv.ParseUint(s, 10, 64)
	if err != nil {
		return 0, false
	}
	return n, true
}

// parseBytes: "-" = empty (non-nil), else parts joined by "." (hex or hh*count).
func parseBytes(s string) ([]byte, bool) {
	if s == "-" {
		return []byte{}, true
	}
	if s == "" {
		return nil, false
	}
	out := []byte{}
	for _, p := range strings.Split(s, ".") {
		b, ok := parsePart(p)
		if !ok {
			return nil, false
		}
		out = append(out, b...)
	}
	return out, true
}

func parsePath(s string) ([][]byte, bool) {
	if s == "/" {
		return [][]byte{}, true
	}
	if s == "" {
		return nil, false
	}
	var out [][]byte
	for _, c := range strings.Split(s, "/") {
		b, ok := parseBytes(c)
		if !ok {
			return nil, false
		}
		out = append(out, b)
	}
	return out, true
}

func showBytes(b []byte) string {
	if len(b) == 0 {
		return "-"
	}
	if len(b) <= 40 {
		return hex.EncodeToString(b)
	}
	h := fnv.New32a()
	h.Write(b)
	return fmt.Sprintf("#%d:%08x", len(b), h.Sum32())
}

func showVal(v []byte) string {
	if v == nil {
		return "nil"
	}
	return showBytes(v)
}

func showPath(p [][]byte) string {
	s := make([]string, len(p))
	for i, c := range p {
		s[i] = showBytes(c)
	}
	return strings.Join(s, "/")
}

var errUser = errors.New("user error from closure")

type panicToken struct{}

func errName(err error) string {
	switch {
	case err == nil:
		return "ok"
	case err == errUser:
		return "err:user"
	case err == walletdb.ErrTxClosed:
		return "err:ErrTxClosed"
	case err == walletdb.ErrTxNotWritable:
		return "err:ErrTxNotWritable"
	case err == walletdb.ErrBucketNotFound:
		return "err:ErrBucketNotFound"
	case err == walletdb.ErrBucketExists:
		return "err:ErrBucketExists"
	case err == walletdb.ErrBucketNameRequired:
		return "err:ErrBucketNameRequired"
	case err == walletdb.ErrKeyRequired:
		return "err:ErrKeyRequired"
	case err == walletdb.ErrKeyTooLarge:
		return "err:ErrKeyTooLarge"
	case err == walletdb.ErrValueTooLarge:
		return "err:ErrValueTooLarge"
	case err == walletdb.ErrIncompatibleValue:
		return "err:ErrIncompatibleValue"
	case err == bbolt.ErrTxClosed:
		return "err:bolt.ErrTxClosed"
	case err == bbolt.ErrTxNotWritable:
		return "err:bolt.ErrTxNotWritable"
	}
	return "err:other:" + strings.ReplaceAll(err.Error(), " ", "_")
}

// ---------------------------------------------------------------------------------------------- one transaction

type cursorSt struct {
	c          walletdb.ReadWriteCursor
	path       [][]byte
	positioned bool
	dead       bool
	lastKey    []byte // key the cursor sits on (oracle bookkeeping)
}

// txState is the runner's view of one open transaction handle.
type txState struct {
	kind       string
	writable   bool
	rtx        walletdb.ReadTx
	tx         walletdb.ReadWriteTx // the same handle seen through the read-write interface (type assertion for read txs)
	closed     bool
	cursors    map[int]*cursorSt
	lastHandle walletdb.ReadWriteBucket
	committed  bool // an explicit Commit through the handle succeeded
	commitDump string // what the transaction saw just before that Commit
	fired      int
	topOps     int // top-level create/delete requests so far (every second one goes through a bucket handle's Tx())
	viol       []string
	noOracle   bool
}

func newTxState(kind string, rtx walletdb.ReadTx) *txState {
	s := &txState{kind: kind, rtx: rtx, cursors: map[int]*cursorSt{}}
	s.writable = kind == "update" || kind == "batch" || kind == "beginrw"
	if w, ok := rtx.(walletdb.ReadWriteTx); ok {
		s.tx = w
	}
	return s
}

func (s *txState) v(key, msg string) {
	s.viol = append(s.viol, fmt.Sprintf("C11 key=%s: %s", key, msg))
}

// resolve walks the bucket path through the API the transaction kind offers.
func (s *txState) resolve(p [][]byte) walletdb.ReadWriteBucket {
	if len(p) == 0 {
		return nil
	}
	if s.writable {
		b := s.tx.ReadWriteBucket(p[0])
		for _, n := range p[1:] {
			if b == nil {
				return nil
			}
			b = b.NestedReadWriteBucket(n)
		}
		if b != nil {
			s.lastHandle = b
		}
		return b
	}
	rb := s.rtx.ReadBucket(p[0])
	for _, n := range p[1:] {
		if rb == nil {
			return nil
		}
		rb = rb.NestedReadBucket(n)
	}
	if rb == nil {
		return nil
	}
	b, ok := rb.(walletdb.ReadWriteBucket) // read-only misuse: the concrete bucket has the write methods
	if !ok {
		return nil
	}
	s.lastHandle = b
	return b
}

// dumpMap: whole database as seen by this transaction: path -> "=value" | "@seq".
func (s *txState) dumpMap() map[string]string {
	m := map[string]string{}
	var rec func(prefix string, b walletdb.ReadBucket)
	rec = func(prefix string, b walletdb.ReadBucket) {
		_ = b.ForEach(func(k, v []byte) error {
			name := prefix + "/" + showBytes(k)
			if v == nil {
				nb := b.NestedReadBucket(k)
				if nb == nil {
					m[name] = "=nil"
					return nil
				}
				m[name] = "@" + strconv.FormatUint(nb.Sequence(), 10)
				rec(name, nb)
				return nil
			}
			m[name] = "=" + showBytes(v)
			return nil
		})
	}
	var tops [][]byte
	_ = s.rtx.ForEachBucket(func(k []byte) error {
		tops = append(tops, append([]byte{}, k...))
		return nil
	})
	for _, k := range tops {
		b := s.rtx.ReadBucket(k)
		if b == nil {
			continue
		}
		name := showBytes(k)
		m[name] = "@" + strconv.FormatUint(b.Sequence(), 10)
		rec(name, b)
	}
	return m
}

func dumpString(rtx walletdb.ReadTx) (string, []string) {
	var out []string
	var viol []string
	var rec func(prefix string, b walletdb.ReadBucket)
	rec = func(prefix string, b walletdb.ReadBucket) {
		var last []byte
		first := true
		_ = b.ForEach(func(k, v []byte) error {
			if !first && !(string(last) < string(k)) {
				viol = append(viol, "C11 key=foreach-order: ForEach keys not strictly ascending")
			}
			first = false
			last = append([]byte{}, k...)
			name := prefix + "/" + showBytes(k)
			if v == nil {
				nb := b.NestedReadBucket(k)
				if nb == nil {
					out = append(out, name+"=nil")
					return nil
				}
				out = append(out, name+"@"+strconv.FormatUint(nb.Sequence(), 10))
				rec(name, nb)
				return nil
			}
			out = append(out, name+"="+showBytes(v))
			return nil
		})
	}
	var tops [][]byte
	_ = rtx.ForEachBucket(func(k []byte) error {
		tops = append(tops, append([]byte{}, k...))
		return nil
	})
	for _, k := range tops {
		b := rtx.ReadBucket(k)
		if b == nil {
			continue
		}
		name := showBytes(k)
		out = append(out, name+"@"+strconv.FormatUint(b.Sequence(), 10))
		rec(name, b)
	}
	return "dump:" + strings.Join(out, ","), viol
}

func under(k, pre string) bool { return k == pre || strings.HasPrefix(k, pre+"/") }

func changedKeys(a, b map[string]string) []string {
	var ch []string
	for k, v := range a {
		if w, ok := b[k]; !ok || w != v {
			ch = append(ch, k)
		}
	}
	for k := range b {
		if _, ok := a[k]; !ok {
			ch = append(ch, k)
		}
	}
	sort.Strings(ch)
	return ch
}

// keysOf lists bucket b's keys (an independent look through ForEach) for the Seek/First/Last oracle.
func keysOf(b walletdb.ReadBucket) [][]byte {
	var ks [][]byte
	_ = b.ForEach(func(k, _ []byte) error {
		ks = append(ks, append([]byte{}, k...))
		return nil
	})
	return ks
}

func kvReply(k, v []byte) string {
	if k == nil {
		return "kv:nil"
	}
	return "kv:" + showBytes(k) + "=" + showVal(v)
}

// exec runs one call on the real code (panics recovered per call, like user code with its own recover).
func (s *txState) exec(op string) (reply string) {
	defer func() {
		if p := recover(); p != nil {
			if os.Getenv("VX_DEBUG") != "" {
				fmt.Fprintf(os.Stderr, "kv: panic in %q: %v\n", op, p)
			}
			reply = "panic"
		}
	}()
	f := strings.Split(op, " ")
	bad := "bad-op"
	if !syntaxOK(f) {
		return bad
	}
	needPath := func(i int) ([][]byte, bool) {
		p, ok := parsePath(f[i])
		return p, ok
	}
	switch f[0] {
	case "put", "del", "mk", "mkif", "rmb", "setseq", "nextseq":
		return s.execMutator(f)
	case "get", "seq", "nb", "copen":
		var p [][]byte
		var k []byte
		var cid uint64
		var ok bool
		switch f[0] {
		case "get", "nb":
			if len(f) != 3 {
				return bad
			}
			if p, ok = needPath(1); !ok {
				return bad
			}
			if k, ok = parseBytes(f[2]); !ok {
				return bad
			}
		case "seq":
			if len(f) != 2 {
				return bad
			}
			if p, ok = needPath(1); !ok {
				return bad
			}
		case "copen":
			if len(f) != 3 {
				return bad
			}
			if cid, ok = parseNat(f[1]); !ok {
				return bad
			}
			if p, ok = needPath(2); !ok {
				return bad
			}
		}
		if len(p) == 0 && f[0] != "nb" {
			return bad
		}
		if s.closed {
			return "unsafe"
		}
		var b walletdb.ReadWriteBucket
		if len(p) > 0 {
			if b = s.resolve(p); b == nil {
				return "nobucket"
			}
		}
		switch f[0] {
		case "get":
			return "val:" + showVal(b.Get(k))
		case "seq":
			return "num:" + strconv.FormatUint(b.Sequence(), 10)
		case "nb":
			found := s.resolve(append(append([][]byte{}, p...), k)) != nil
			if found {
				return "found:1"
			}
			return "found:0"
		default: // copen
			var c walletdb.ReadWriteCursor
			if s.writable {
				c = b.ReadWriteCursor()
			} else {
				rc := walletdb.ReadBucket(b).ReadCursor()
				c, ok = rc.(walletdb.ReadWriteCursor)
				if !ok {
					return "err:other:no-write-cursor"
				}
			}
			s.cursors[int(cid)] = &cursorSt{c: c, path: p}
			return "ok"
		}
	case "each":
		if len(f) != 2 && len(f) != 3 {
			return bad
		}
		p, ok := needPath(1)
		if !ok {
			return bad
		}
		limit := -1
		if len(f) == 3 {
			n, ok := parseNat(f[2])
			if !ok {
				return bad
			}
			if n > 1<<30 {
				n = 1 << 30
			}
			limit = int(n)
		}
		var items []string
		i := 0
		var last []byte
		cb := func(k, v []byte) error {
			if i > 0 && !(string(last) < string(k)) {
				s.v("foreach-order", "ForEach keys not strictly ascending")
			}
			last = append([]byte{}, k...)
			items = append(items, showBytes(k)+"="+showVal(v))
			if i == limit {
				return errUser
			}
			i++
			return nil
		}
		var err error
		if len(p) == 0 {
			err = s.rtx.ForEachBucket(func(k []byte) error { return cb(k, nil) })
		} else {
			var b walletdb.ReadWriteBucket
			if s.closed {
				if b = s.lastHandle; b == nil {
					return "nohandle"
				}
			} else if b = s.resolve(p); b == nil {
				return "nobucket"
			}
			err = b.ForEach(cb)
		}
		if s.closed {
			return errName(err)
		}
		r := "list:" + strings.Join(items, ",")
		if err != nil {
			r += ";" + errName(err)
		}
		return r
	case "cfirst", "clast", "cnext", "cprev", "cseek":
		want := 2
		if f[0] == "cseek" {
			want = 3
		}
		if len(f) != want {
			return bad
		}
		cid, ok := parseNat(f[1])
		if !ok {
			return bad
		}
		var key []byte
		if f[0] == "cseek" {
			if key, ok = parseBytes(f[2]); !ok {
				return bad
			}
		}
		c := s.cursors[int(cid)]
		if c == nil {
			return "nocursor"
		}
		needPos := f[0] == "cnext" || f[0] == "cprev"
		if !s.closed && (c.dead || (needPos && !c.positioned)) {
			return "stale"
		}
		var k, v []byte
		switch f[0] {
		case "cfirst":
			k, v = c.c.First()
		case "clast":
			k, v = c.c.Last()
		case "cnext":
			k, v = c.c.Next()
		case "cprev":
			k, v = c.c.Prev()
		case "cseek":
			k, v = c.c.Seek(key)
		}
		c.positioned = true
		s.cursorOracle(c, f[0], key, k)
		if k != nil {
			c.lastKey = append([]byte{}, k...)
		} else if f[0] == "cseek" {
			c.lastKey = append([]byte{}, key...)
		}
		return kvReply(k, v)
	case "cdel":
		if len(f) != 2 {
			return bad
		}
		cid, ok := parseNat(f[1])
		if !ok {
			return bad
		}
		c := s.cursors[int(cid)]
		if c == nil {
			return "nocursor"
		}
		if !s.closed && s.writable && (c.dead || !c.positioned) {
			return "stale"
		}
		var before map[string]string
		if !s.closed && !s.noOracle {
			before = s.dumpMap()
		}
		err := c.c.Delete()
		if !s.closed && s.writable {
			s.touch(c.path)
		}
		if before != nil {
			s.frameOracle("cdel", showPath(c.path), "", nil, errName(err), before)
		}
		return errName(err)
	case "commit":
		if len(f) != 1 {
			return bad
		}
		if s.tx == nil {
			return "err:other:no-commit-method"
		}
		var inside string
		if !s.closed && s.writable && s.kind != "batch" && !s.noOracle {
			inside, _ = dumpString(s.rtx)
		}
		err := s.tx.Commit()
		if err == nil {
			s.closed = true
			s.committed = true
			s.commitDump = inside
		}
		return errName(err)
	case "rollback":
		if len(f) != 1 {
			return bad
		}
		err := s.rtx.Rollback()
		if err == nil {
			s.closed = true
		}
		return errName(err)
	case "oncommit":
		if len(f) != 1 {
			return bad
		}
		if s.tx == nil {
			return "err:other:no-oncommit-method"
		}
		s.tx.OnCommit(func() { s.fired++ })
		return "ok"
	}
	return bad
}

// syntaxOK mirrors the Lean driver's parser (EngKV.parseOp + rootOk): same accept set, or replies would diverge.
func syntaxOK(f []string) bool {
	for _, t := range f {
		if t == "" {
			return false
		}
	}
	if len(f) == 0 {
		return false
	}
	path := func(i int, rootAllowed bool) bool {
		p, ok := parsePath(f[i])
		return ok && (rootAllowed || len(p) > 0)
	}
	byt := func(i int) bool { _, ok := parseBytes(f[i]); return ok }
	nat := func(i int) bool { _, ok := parseNat(f[i]); return ok }
	switch f[0] {
	case "put":
		return len(f) == 4 && path(1, false) && byt(2) && byt(3)
	case "get", "del", "mk":
		return len(f) == 3 && path(1, false) && byt(2)
	case "mkif", "rmb", "nb":
		return len(f) == 3 && path(1, true) && byt(2)
	case "each":
		return (len(f) == 2 || len(f) == 3 && nat(2)) && path(1, true)
	case "seq", "nextseq":
		return len(f) == 2 && path(1, false)
	case "setseq":
		return len(f) == 3 && path(1, false) && nat(2)
	case "copen":
		return len(f) == 3 && nat(1) && path(2, false)
	case "cfirst", "clast", "cnext", "cprev", "cdel":
		return len(f) == 2 && nat(1)
	case "cseek":
		return len(f) == 3 && nat(1) && byt(2)
	case "commit", "rollback", "oncommit":
		return len(f) == 1
	}
	return false
}

// touch: a mutator ran on bucket p of a writable open tx: cursors over p must be repositioned (bbolt leaves them
// unspecified); the model applies the same rule.
func (s *txState) touch(p [][]byte) {
	ps := showPath(p)
	for _, c := range s.cursors {
		if showPath(c.path) == ps && len(c.path) == len(p) {
			c.positioned = false
		}
	}
}

func (s *txState) kill(p [][]byte) {
	for _, c := range s.cursors {
		if len(c.path) >= len(p) {
			same := true
			for i := range p {
				if string(c.path[i]) != string(p[i]) {
					same = false
					break
				}
			}
			if same {
				c.positioned = false
				c.dead = true
			}
		}
	}
}

// topTx: the transaction a top-level create/delete is addressed to.  Callers reach the transaction either directly or
// through a bucket they hold (`ns.Tx()`, the idiom of the wallet's drop-and-recreate and migration helpers); both are
// the same database transaction, so every second request takes the second route when a live handle exists.
func (s *txState) topTx() walletdb.ReadWriteTx {
	s.topOps++
	if s.topOps%2 == 0 && !s.closed && s.writable && s.lastHandle != nil {
		if t := s.lastHandle.Tx(); t != nil {
			return t
		}
	}
	return s.tx
}

func (s *txState) execMutator(f []string) string {
	p, _ := parsePath(f[1])
	var k, val []byte
	var n uint64
	switch f[0] {
	case "put":
		k, _ = parseBytes(f[2])
		val, _ = parseBytes(f[3])
	case "del", "mk", "mkif", "rmb":
		k, _ = parseBytes(f[2])
	case "setseq":
		n, _ = parseNat(f[2])
	}
	var b walletdb.ReadWriteBucket
	if len(p) > 0 {
		if s.closed {
			if b = s.lastHandle; b == nil {
				return "nohandle"
			}
		} else if b = s.resolve(p); b == nil {
			return "nobucket"
		}
	} else if s.tx == nil {
		return "err:other:no-write-tx-methods"
	}
	var before map[string]string
	if !s.closed && !s.noOracle {
		before = s.dumpMap()
	}
	var err error
	extra := ""
	switch f[0] {
	case "put":
		err = b.Put(k, val)
	case "del":
		err = b.Delete(k)
	case "mk":
		_, err = b.CreateBucket(k)
	case "mkif":
		if len(p) == 0 {
			_, err = s.topTx().CreateTopLevelBucket(k)
		} else {
			_, err = b.CreateBucketIfNotExists(k)
		}
	case "rmb":
		if len(p) == 0 {
			err = s.topTx().DeleteTopLevelBucket(k)
			if err == nil && !s.closed && s.writable && !s.noOracle && s.tx.ReadWriteBucket(k) != nil {
				s.v("read-your-writes", "ReadWriteBucket still returns a top-level bucket that this transaction has just deleted")
			}
		} else {
			err = b.DeleteNestedBucket(k)
		}
	case "setseq":
		err = b.SetSequence(n)
	case "nextseq":
		var x uint64
		x, err = b.NextSequence()
		extra = "num:" + strconv.FormatUint(x, 10)
	}
	if !s.closed && s.writable {
		s.touch(p)
		if f[0] == "rmb" && err == nil {
			s.kill(append(append([][]byte{}, p...), k))
		}
	}
	rep := errName(err)
	if err == nil && extra != "" {
		rep = extra
	}
	if before != nil {
		s.frameOracle(f[0], showPath(p), showBytes(k), val, errName(err), before)
		if f[0] == "put" && err == nil {
			if got := b.Get(k); got == nil || string(got) != string(val) {
				s.v("read-your-writes", "Get after a successful Put in the same transaction does not return the value")
			}
		}
		if f[0] == "del" && err == nil {
			if got := b.Get(k); got != nil {
				s.v("read-your-writes", "Get after a successful Delete in the same transaction still returns a value")
			}
		}
	}
	if !s.writable && err == nil {
		s.v("readonly-mutator-succeeded", f[0]+" succeeded inside a read-only transaction")
	}
	return rep
}

// frameOracle: the op changed exactly what it may change (nested buckets are independent namespaces; reads see own
// writes; a failing call changes nothing) — evaluated on two real in-transaction dumps.
func (s *txState) frameOracle(op, path, key string, val []byte, res string, before map[string]string) {
	after := s.dumpMap()
	ch := changedKeys(before, after)
	ent := key
	if path != "" {
		ent = path + "/" + key
	}
	if res != "ok" {
		if len(ch) != 0 {
			s.v("failed-call-changed-state", fmt.Sprintf("%s answered %s but changed %v", op, res, ch))
		}
		return
	}
	if !s.writable {
		if len(ch) != 0 {
			s.v("readonly-changed-state", fmt.Sprintf("%s changed %v inside a read-only transaction", op, ch))
		}
		return
	}
	outside := func(pred func(string) bool) {
		for _, c := range ch {
			if !pred(c) {
				s.v("frame-"+op, fmt.Sprintf("%s on %s changed %s outside its footprint", op, ent, c))
				return
			}
		}
	}
	switch op {
	case "put":
		outside(func(c string) bool { return c == ent })
		if after[ent] != "="+showBytes(val) {
			s.v("read-your-writes", "entry after Put is "+after[ent])
		}
	case "del":
		outside(func(c string) bool { return c == ent })
		if _, ok := after[ent]; ok {
			s.v("read-your-writes", "entry still present after Delete")
		}
	case "mk", "mkif":
		outside(func(c string) bool { return c == ent })
		if !strings.HasPrefix(after[ent], "@") {
			s.v("frame-"+op, "bucket missing after successful create")
		}
		if _, was := before[ent]; !was {
			for c := range after {
				if c != ent && under(c, ent) {
					s.v("frame-"+op, "fresh bucket is not empty: "+c)
				}
			}
			if after[ent] != "@0" {
				s.v("frame-"+op, "fresh bucket sequence "+after[ent])
			}
		}
	case "rmb":
		outside(func(c string) bool { return under(c, ent) })
		for c := range after {
			if under(c, ent) {
				s.v("frame-rmb", "entry survives bucket deletion: "+c)
			}
		}
	case "setseq", "nextseq":
		outside(func(c string) bool { return c == path })
	case "cdel":
		outside(func(c string) bool {
			return strings.HasPrefix(c, path+"/") && !strings.Contains(c[len(path)+1:], "/")
		})
		if len(ch) > 1 {
			s.v("frame-cdel", fmt.Sprintf("cursor delete removed %d entries", len(ch)))
		}
	}
}

// cursorOracle: order of what the cursor returns, against the previous position and an independent listing.
func (s *txState) cursorOracle(c *cursorSt, op string, seek, k []byte) {
	if s.closed || s.noOracle {
		return
	}
	b := s.resolve(c.path)
	if b == nil {
		return
	}
	ks := keysOf(b)
	for i := 1; i < len(ks); i++ {
		if !(string(ks[i-1]) < string(ks[i])) {
			s.v("foreach-order", "ForEach keys not strictly ascending")
			return
		}
	}
	want := func(x []byte, what string) {
		if (x == nil) != (k == nil) || (x != nil && string(x) != string(k)) {
			s.v("cursor-"+op, fmt.Sprintf("%s returned %s, expected %s (%s)", op, showVal(k), showVal(x), what))
		}
	}
	switch op {
	case "cfirst":
		if len(ks) == 0 {
			want(nil, "empty bucket")
		} else {
			want(ks[0], "smallest key")
		}
	case "clast":
		if len(ks) == 0 {
			want(nil, "empty bucket")
		} else {
			want(ks[len(ks)-1], "largest key")
		}
	case "cseek":
		var x []byte
		for _, q := range ks {
			if string(q) >= string(seek) {
				x = q
				break
			}
		}
		want(x, "least key >= sought key")
	case "cnext":
		if k != nil && c.lastKey != nil && !(string(c.lastKey) < string(k)) {
			s.v("cursor-cnext", "Next did not move to a larger key")
		}
		if c.lastKey != nil {
			var x []byte
			for _, q := range ks {
				if string(q) > string(c.lastKey) {
					x = q
					break
				}
			}
			want(x, "successor of previous position")
		}
	case "cprev":
		if k != nil && c.lastKey != nil && !(string(k) < string(c.lastKey)) {
			s.v("cursor-cprev", "Prev did not move to a smaller key")
		}
		if c.lastKey != nil {
			var x []byte
			for _, q := range ks {
				if string(q) < string(c.lastKey) {
					x = q
				}
			}
			want(x, "predecessor of previous position")
		}
	}
}

// ---------------------------------------------------------------------------------------------- runner

type managed struct {
	req      chan string
	rep      chan string
	done     chan string
	invoc    int
	recOps   []string
	recReps  []string
	outcome  string
	inside   string // dump seen by the closure just before it returned nil
	lastSt   *txState
	retryBad []string
}

type runner struct {
	dir    string
	path   string
	db     walletdb.DB
	kind   string
	mg     *managed
	st     *txState // manual transactions
	before string   // committed dump when the current transaction began
	wedged bool
}

// opTimeout bounds waits for something the unchanged database always does (a leaked writer lock would block for ever);
// generous so that a starved machine cannot turn slowness into "timeout" / db-unusable; after 3 wedged runners no further
// case is executed, so a failing run pays it a bounded number of times.
const opTimeout = 30 * time.Second

// wedges counts runners whose database stopped accepting transactions (a leaked writer lock). After a few, later
// cases are not executed any more (every wait would run into its time limit); the violation is already recorded.
var wedges int

func (r *runner) wedge() {
	if !r.wedged {
		r.wedged = true
		wedges++
	}
}

func (engine) NewRunner() core.Runner {
	if wedges >= 3 {
		return &runner{wedged: true}
	}
	dir, err := os.MkdirTemp("", "vxkv")
	if err != nil {
		panic(err)
	}
	r := &runner{dir: dir, path: filepath.Join(dir, "kv.db")}
	db, err := walletdb.Create("bdb", r.path, true, 10*time.Second, false)
	if err != nil {
		panic(err)
	}
	r.db = db
	return r
}

func (r *runner) Close() {
	if r.db == nil {
		return
	}
	if r.mg != nil && !r.wedged {
		r.finishManaged("err")
	}
	if r.st != nil && !r.st.closed {
		_ = r.st.rtx.Rollback()
	}
	if !r.wedged {
		r.db.Close()
	}
	os.RemoveAll(r.dir)
}

func (r *runner) dumpDB() (string, []string) {
	var d string
	var viol []string
	err := walletdb.View(r.db, func(tx walletdb.ReadTx) error {
		d, viol = dumpString(tx)
		return nil
	})
	if err != nil {
		return "dump-error:" + err.Error(), viol
	}
	return d, viol
}

// serve is the body of the closure handed to walletdb.Update / View / Batch.
func (m *managed) serve(kind string, rtx walletdb.ReadTx) error {
	m.invoc++
	st := newTxState(kind, rtx)
	m.lastSt = st
	finish := func() error {
		if !st.closed {
			m.inside, _ = dumpString(rtx)
		}
		switch m.outcome {
		case "ok":
			return nil
		case "err":
			return errUser
		}
		panic(panicToken{})
	}
	if m.invoc > 1 {
		// bbolt Batch re-runs a failed closure on its own: the first attempt must have left no trace, so the same
		// calls must give the same answers.
		st.noOracle = true
		for i, op := range m.recOps {
			if got := st.exec(op); got != m.recReps[i] {
				m.retryBad = append(m.retryBad, fmt.Sprintf("%s: first %s retry %s", op, m.recReps[i], got))
			}
		}
		return finish()
	}
	m.rep <- "started"
	for op := range m.req {
		if strings.HasPrefix(op, "end ") {
			m.outcome = op[4:]
			return finish()
		}
		rep := st.exec(op)
		m.recOps = append(m.recOps, op)
		m.recReps = append(m.recReps, rep)
		m.rep <- rep
	}
	m.outcome = "err"
	return errUser
}

func (r *runner) startManaged(kind string) string {
	m := &managed{req: make(chan string), rep: make(chan string), done: make(chan string, 1)}
	go func() {
		res := ""
		func() {
			defer func() {
				if p := recover(); p != nil {
					res = "res:panic"
					if _, ok := p.(panicToken); !ok {
						res = fmt.Sprintf("res:panic:unexpected:%v", p)
					}
				}
			}()
			var err error
			switch kind {
			case "update":
				err = walletdb.Update(r.db, func(tx walletdb.ReadWriteTx) error { return m.serve(kind, tx) })
			case "view":
				err = walletdb.View(r.db, func(tx walletdb.ReadTx) error { return m.serve(kind, tx) })
			case "batch":
				err = walletdb.Batch(r.db, func(tx walletdb.ReadWriteTx) error { return m.serve(kind, tx) })
			}
			res = "res:" + errName(err)
		}()
		m.done <- res
	}()
	select {
	case <-m.rep:
		r.mg = m
		r.kind = kind
		return "ok"
	case res := <-m.done:
		return "begin-failed:" + res
	case <-time.After(opTimeout):
		r.wedge()
		return "timeout"
	}
}

func (r *runner) callManaged(op string) string {
	select {
	case r.mg.req <- op:
	case <-time.After(opTimeout):
		r.wedge()
		return "timeout"
	}
	select {
	case rep := <-r.mg.rep:
		return rep
	case res := <-r.mg.done:
		r.mg.done <- res
		return "closure-ended:" + res
	case <-time.After(opTimeout):
		r.wedge()
		return "timeout"
	}
}

func (r *runner) finishManaged(outcome string) (string, *managed) {
	m := r.mg
	select {
	case m.req <- "end " + outcome:
	case <-time.After(opTimeout):
		r.wedge()
		return "timeout", m
	}
	var res string
	select {
	case res = <-m.done:
	case <-time.After(opTimeout):
		r.wedge()
		return "timeout", m
	}
	r.mg = nil
	return res, m
}

// probe: the database still accepts a write transaction (bounded wait: a leaked writer lock would block forever).
func (r *runner) probe() bool {
	ch := make(chan error, 1)
	go func() {
		ch <- walletdb.Update(r.db, func(tx walletdb.ReadWriteTx) error { return errUser })
	}()
	select {
	case <-ch:
		return true
	case <-time.After(opTimeout):
		r.wedge()
		return false
	}
}

func (r *runner) Exec(op string) (string, string) {
	if r.wedged {
		return "wedged", ""
	}
	var viol []string
	add := func(v ...string) { viol = append(viol, v...) }
	vio := func(key, msg string) { add(fmt.Sprintf("C11 key=%s: %s", key, msg)) }
	out := func(rep string) (string, string) { return rep, strings.Join(dedup(viol), "; ") }
	f := strings.Split(op, " ")
	switch f[0] {
	case "reset":
		if len(f) != 1 {
			return out("bad-op")
		}
		// a fresh runner is created per case; "reset" only marks the start for the model driver
		if r.mg != nil || r.st != nil {
			return out("busy")
		}
		return out("ok")
	case "update", "view", "batch", "beginrw", "beginro":
		if len(f) != 1 {
			return out("bad-op")
		}
		if r.mg != nil || r.st != nil {
			return out("busy")
		}
		var dv []string
		r.before, dv = r.dumpDB()
		add(dv...)
		switch f[0] {
		case "beginrw":
			tx, err := r.db.BeginReadWriteTx()
			if err != nil {
				return out("begin-failed:" + errName(err))
			}
			r.st = newTxState(f[0], tx)
			r.kind = f[0]
			return out("ok")
		case "beginro":
			tx, err := r.db.BeginReadTx()
			if err != nil {
				return out("begin-failed:" + errName(err))
			}
			r.st = newTxState(f[0], tx)
			r.kind = f[0]
			return out("ok")
		}
		rep := r.startManaged(f[0])
		if rep == "timeout" {
			vio("db-unusable", "a new "+f[0]+" transaction could not start within the time limit")
		}
		return out(rep)
	case "end":
		if len(f) != 2 || (f[1] != "ok" && f[1] != "err" && f[1] != "panic") {
			return out("bad-op")
		}
		if r.mg == nil && r.st == nil {
			return out("notx")
		}
		if r.mg == nil {
			return out("bad-state")
		}
		kind := r.kind
		res, m := r.finishManaged(f[1])
		if res == "timeout" {
			vio("db-unusable", "transaction did not finish within the time limit")
			return out(res)
		}
		st := m.lastSt
		after, dv := r.dumpDB()
		add(dv...)
		add(st.viol...)
		st.viol = nil
		for _, b := range m.retryBad {
			vio("batch-retry-differs", "the solo re-run of a failed Batch closure saw different answers: "+b)
		}
		fired := st.fired
		writable := kind == "update" || kind == "batch"
		switch {
		case !writable:
			if after != r.before {
				vio("view-changed-db", "database changed by a read-only transaction")
			}
		case st.committed:
			// the closure committed through the handle itself: outside the managed contract
			if st.commitDump != "" && after != st.commitDump {
				vio("commit-not-visible", "state after an explicit Commit differs from what the transaction saw")
			}
		case f[1] == "ok" && !st.closed:
			if res != "res:ok" {
				vio("commit-failed", "Update/Batch of a closure that returned nil answered "+res)
			} else if after != m.inside {
				vio("commit-not-visible", "committed state differs from what the transaction saw before returning nil")
			}
		default:
			if after != r.before {
				if f[1] == "ok" {
					vio("rollback-changed-db", "database changed although the transaction was rolled back by hand")
				} else if f[1] == "err" {
					vio("update-failed-changed-db", "database changed although the closure returned an error")
				} else {
					vio("update-panic-changed-db", "database changed although the closure panicked")
				}
			}
		}
		if f[1] != "ok" && res == "res:ok" && writable && !st.committed && m.inside != r.before && after != m.inside {
			vio("nil-return-without-commit", kind+" answered nil for a closure that ended with "+f[1]+
				" although its writes are not in the database")
		}
		if f[1] == "err" && res != "res:err:user" {
			vio("error-not-returned", "closure error was not handed back: "+res)
		}
		wantFired := -1
		if writable && !st.committed {
			if f[1] == "ok" && !st.closed {
				wantFired = -2 // all registered
			} else {
				wantFired = 0
			}
		}
		if wantFired == 0 && fired != 0 {
			vio("oncommit-fired-without-commit", "OnCommit handlers ran although nothing was committed")
		}
		if f[1] != "ok" || kind == "batch" {
			if !r.probe() {
				vio("db-unusable", "database does not accept a write transaction after a "+f[1]+" outcome")
			}
		}
		return out(fmt.Sprintf("%s fired=%d", res, fired))
	case "drop":
		if len(f) != 1 {
			return out("bad-op")
		}
		if r.mg == nil && r.st == nil {
			return out("notx")
		}
		if r.st == nil {
			return out("bad-state")
		}
		st := r.st
		if !st.closed {
			_ = st.rtx.Rollback()
		}
		r.st = nil
		after, dv := r.dumpDB()
		add(dv...)
		add(st.viol...)
		if st.committed {
			if st.commitDump != "" && after != st.commitDump {
				vio("commit-not-visible", "state after Commit differs from what the transaction saw")
			}
		} else if after != r.before {
			if st.writable {
				vio("rollback-changed-db", "database changed by a transaction that was never committed")
			} else {
				vio("view-changed-db", "database changed by a read-only transaction")
			}
		}
		if !st.committed && st.fired != 0 {
			vio("oncommit-fired-without-commit", "OnCommit handlers ran although nothing was committed")
		}
		return out(fmt.Sprintf("ok fired=%d", st.fired))
	case "cbatch":
		if len(f) != 3 {
			return out("bad-op")
		}
		p, ok := parsePath(f[1])
		if !ok || len(p) == 0 {
			return out("bad-op")
		}
		type call struct {
			k, v []byte
			o    string
		}
		var calls []call
		for _, c := range strings.Split(f[2], ",") {
			q := strings.Split(c, ":")
			if len(q) != 3 || (q[2] != "ok" && q[2] != "err" && q[2] != "panic") {
				return out("bad-op")
			}
			k, ok1 := parseBytes(q[0])
			v, ok2 := parseBytes(q[1])
			if !ok1 || !ok2 {
				return out("bad-op")
			}
			calls = append(calls, call{k, v, q[2]})
		}
		if r.mg != nil || r.st != nil {
			return out("busy")
		}
		resolveRO := func(tx walletdb.ReadTx) walletdb.ReadBucket {
			b := tx.ReadBucket(p[0])
			for _, n := range p[1:] {
				if b == nil {
					return nil
				}
				b = b.NestedReadBucket(n)
			}
			return b
		}
		read := func() []string {
			vals := make([]string, len(calls))
			_ = walletdb.View(r.db, func(tx walletdb.ReadTx) error {
				b := resolveRO(tx)
				for i, c := range calls {
					if b == nil {
						vals[i] = "nobucket"
					} else {
						vals[i] = showVal(b.Get(c.k))
					}
				}
				return nil
			})
			return vals
		}
		beforeVals := read()
		results := make([]string, len(calls))
		doneCh := make(chan int, len(calls))
		launch := func(i int) {
			c := calls[i]
			go func() {
				defer func() {
					if pv := recover(); pv != nil {
						results[i] = "panic"
						if _, ok := pv.(panicToken); !ok {
							results[i] = fmt.Sprintf("panic:unexpected:%v", pv)
						}
					}
					doneCh <- i
				}()
				err := walletdb.Batch(r.db, func(tx walletdb.ReadWriteTx) error {
					b := tx.ReadWriteBucket(p[0])
					for _, n := range p[1:] {
						if b == nil {
							return errUser
						}
						b = b.NestedReadWriteBucket(n)
					}
					if b == nil {
						return errUser
					}
					if err := b.Put(c.k, c.v); err != nil {
						return err
					}
					switch c.o {
					case "ok":
						return nil
					case "err":
						return errUser
					}
					panic(panicToken{})
				})
				results[i] = errName(err)
			}()
		}
		// well-behaved callers enter the batch first, the failing ones join it inside bbolt's 10 ms window
		n := 0
		for i, c := range calls {
			if c.o == "ok" {
				launch(i)
				n++
			}
		}
		time.Sleep(2 * time.Millisecond)
		for i, c := range calls {
			if c.o != "ok" {
				launch(i)
				n++
			}
		}
		for ; n > 0; n-- {
			select {
			case <-doneCh:
			case <-time.After(opTimeout):
				r.wedge()
				vio("db-unusable", "concurrent Batch callers did not finish within the time limit")
				return out("timeout")
			}
		}
		afterVals := read()
		for i, c := range calls {
			if results[i] == "ok" {
				if afterVals[i] != showVal(c.v) {
					vio("batch-nil-return-write-lost", "Batch answered nil but the caller's write is not visible to a later transaction")
				}
			} else if afterVals[i] != beforeVals[i] {
				vio("batch-failed-write-visible", "Batch answered "+results[i]+" but the caller's write is visible afterwards")
			}
			if c.o == "err" && !strings.HasPrefix(results[i], "err:") {
				vio("error-not-returned", "Batch did not hand back the closure's error: "+results[i])
			}
		}
		return out("cb:" + strings.Join(results, ","))
	case "reopen":
		if len(f) != 1 {
			return out("bad-op")
		}
		if r.mg != nil || r.st != nil {
			return out("busy")
		}
		before, dv := r.dumpDB()
		add(dv...)
		if err := r.db.Close(); err != nil {
			return out("close-failed:" + err.Error())
		}
		db, err := walletdb.Open("bdb", r.path, true, 10*time.Second, false)
		if err != nil {
			r.wedge()
			vio("reopen-failed", err.Error())
			return out("open-failed")
		}
		r.db = db
		after, dv := r.dumpDB()
		add(dv...)
		if after != before {
			vio("reopen-differs", "database content differs after closing and reopening the file")
		}
		return out("ok")
	case "dump":
		if len(f) != 1 {
			return out("bad-op")
		}
		if r.mg != nil || r.st != nil {
			return out("busy")
		}
		d, dv := r.dumpDB()
		add(dv...)
		return out(d)
	}
	if !syntaxOK(f) {
		return out("bad-op")
	}
	if r.mg == nil && r.st == nil {
		return out("notx")
	}
	if r.st != nil {
		rep := r.st.exec(op)
		add(r.st.viol...)
		r.st.viol = nil
		return out(rep)
	}
	rep := r.callManaged(op)
	if st := r.mg.lastSt; st != nil {
		add(st.viol...)
		st.viol = nil
	}
	return out(rep)
}

func dedup(v []string) []string {
	seen := map[string]bool{}
	var out []string
	for _, x := range v {
		if !seen[x] {
			seen[x] = true
			out = append(out, x)
		}
	}
	return out
}
