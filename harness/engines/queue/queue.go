// Package queue: engine "queue" (C18) — chain.ConcurrentQueue, the real goroutine, driven through its public API
// (NewConcurrentQueue, Start, ChanIn, ChanOut, Stop) only.
//
// Stepwise ops: the harness is the only producer and the only consumer, performs one action at a time and lets the
// worker goroutine become quiescent in between (observed through len(ChanOut()), legal on a receive-only channel),
// so every reply is schedule-independent and can be compared with the Lean model run on the same script.
//
//	new cap=<n>   NewConcurrentQueue(n); Start()
//	send <v>      ChanIn() <- v                      -> ok|blocked len=<len(ChanOut())>
//	recv          <-ChanOut() (gives up when nothing can arrive)   -> got <v>|empty len=..
//	xfer <v>      a consumer goroutine is already receiving when v is sent -> xfer recv=<v|empty> send=ok|blocked len=..
//	stop          Stop(); waits for the worker goroutine to exit   -> stopped exited=1|0
//	len           -> len n=<len(ChanOut())> cap=<cap(ChanOut())>
//
// Free-running op (only the property oracle is evaluated; the reply is a constant when it holds):
//
//	stress cap=<n> n=<k> seed=<s> stop=<i|-1> prod=burst|sleepy cons=idle|slow|fast
//
// Go-side oracles (independent of the Lean model), violation keys:
//
//	order             a received value is not the next value of the sent sequence (reordering or loss)
//	duplicate         a received value had been received before / nothing was pending
//	lost              a pending value never arrives (receive times out) / chanOut never refills from the overflow
//	producer-blocked  a send does not complete although Stop() was not called (consumer idle or slow)
//	stop-not-terminating   the worker goroutine is still alive after Stop()
package queue

import (
	"fmt"
	"math/rand"
	"runtime"
	"strconv"
	"strings"
	"sync"
	"sync/atomic"
	"time"

	"github.com/btcsuite/btcwallet/chain"

	"verifharness/core"
)

// longWait bounds waits for something that MUST happen.  It is never reached on a correct queue, so it only costs
// time on a failing run; it has to be long enough that a machine which starves the worker goroutine for seconds
// (single CPU shared with many busy processes) cannot turn slowness into a "lost"/"producer-blocked"/
// "stop-not-terminating" verdict (notes/FLAKES.md).
// shortWait confirms that nothing happens in situations where nothing CAN happen (the worker goroutine has exited /
// nothing is pending): its expiry is the expected outcome and does not depend on how fast the machine is.
const (
	longWait  = 30 * time.Second
	shortWait = 4 * time.Millisecond
)

// After an oracle violation the run is already decided; waiting the full longWait for every further op of a broken
// implementation would only make the check slow.  The first few violating cases keep the long waits (so their
// replies stay meaningful for shrinking), then everything falls back to a short "broken" wait.
const brokenWait = 60 * time.Millisecond

var violatingCases int

// longExpired counts waits for the worker's exit that ran into longWait (also in Close, where no violation can be
// reported): a queue whose worker does not terminate would otherwise cost one longWait per case.
var longExpired int

// decided: enough has been seen; the rest of the run uses brokenWait.
func decided() bool { return violatingCases > 2 || longExpired > 2 }

type engine struct{}

func init() { core.Register(engine{}) }

func (engine) Name() string { return "queue" }

// ------------------------------------------------------------------ generator

type gen struct {
	rng  *rand.Rand
	ops  []string
	next int
	tags map[string]bool
}

func (g *gen) add(op string) { g.ops = append(g.ops, op) }
func (g *gen) send()         { g.add(fmt.Sprintf("send %d", g.next)); g.next++ }
func (g *gen) xfer()         { g.add(fmt.Sprintf("xfer %d", g.next)); g.next++ }

func script(rng *rand.Rand, cap int, maxOps int) core.Case {
	g := &gen{rng: rng, next: rng.Intn(1000), tags: map[string]bool{}}
	g.add(fmt.Sprintf("new cap=%d", cap))
	g.tags[fmt.Sprintf("cap=%d", cap)] = true
	pending := 0 // generator's own rough idea, only used to shape the script
	empties := 0
	stopAt := -1
	if rng.Intn(2) == 0 {
		stopAt = 1 + rng.Intn(maxOps)
		g.tags["stop"] = true
	}
	unit := cap
	if unit == 0 {
		unit = 1
	}
	for len(g.ops) < maxOps {
		if len(g.ops) == stopAt {
			g.add("stop")
			// after Stop: whatever sits in the chanOut buffer can still be read; sends must not be accepted
			k := rng.Intn(cap + 2)
			for i := 0; i < k; i++ {
				g.add("recv")
			}
			g.send()
			g.add("len")
			break
		}
		switch p := rng.Intn(100); {
		case p < 8: // burst exceeding the buffer (up to 10x cap)
			k := unit + 1 + rng.Intn(9*unit+1)
			for i := 0; i < k; i++ {
				g.send()
			}
			pending += k
			g.tags["burst>cap"] = true
		case p < 14: // drain completely
			for pending > 0 {
				g.add("recv")
				pending--
			}
			if empties < 2 {
				g.add("recv")
				empties++
				g.tags["recv-empty"] = true
			}
			g.tags["drain"] = true
		case p < 50:
			g.send()
			pending++
		case p < 85:
			if pending == 0 && empties >= 2 {
				g.send()
				pending++
				break
			}
			if pending == 0 {
				empties++
				g.tags["recv-empty"] = true
			} else {
				pending--
			}
			g.add("recv")
		case p < 95:
			g.xfer()
			g.tags["xfer"] = true
		default:
			g.add("len")
		}
	}
	var tags []string
	for t := range g.tags {
		tags = append(tags, t)
	}
	return core.Case{Ops: g.ops, Tags: tags}
}

func stressCase(rng *rand.Rand, cap, n int, stop bool) core.Case {
	prod := []string{"burst", "sleepy"}[rng.Intn(2)]
	cons := []string{"idle", "slow", "fast"}[rng.Intn(3)]
	st := -1
	if stop {
		st = rng.Intn(n + 1)
	}
	return core.Case{
		Ops:  []string{fmt.Sprintf("stress cap=%d n=%d seed=%d stop=%d prod=%s cons=%s", cap, n, rng.Intn(1<<30), st, prod, cons)},
		Tags: []string{"stress", "stress-prod=" + prod, "stress-cons=" + cons, fmt.Sprintf("cap=%d", cap)},
	}
}

func (engine) Generate(rng *rand.Rand, tier string) []core.Case {
	caps := []int{0, 1, 2, 7}
	var cases []core.Case
	nScripts, nStress, stressN := 200, 6, 300
	enumLen := 4 // exhaustive small scope: every action sequence of this length over {send, recv, xfer, stop}
	if tier == "thorough" {
		nScripts, nStress, stressN = 1200, 60, 3000
		enumLen = 5
	}
	// (at most one stop, no xfer after it) for cap 0, 1, 2 — prefixes cover the shorter sequences
	alpha := []string{"send", "recv", "xfer", "stop"}
	for _, cap := range []int{0, 1, 2} {
		var rec func(prefix []string, stopped bool)
		rec = func(prefix []string, stopped bool) {
			if len(prefix) == enumLen {
				ops := []string{fmt.Sprintf("new cap=%d", cap)}
				v := 0
				for _, a := range prefix {
					switch a {
					case "send", "xfer":
						ops = append(ops, fmt.Sprintf("%s %d", a, v))
						v++
					default:
						ops = append(ops, a)
					}
				}
				ops = append(ops, "len")
				cases = append(cases, core.Case{Ops: ops, Tags: []string{fmt.Sprintf("exhaustive-len%d", enumLen), fmt.Sprintf("cap=%d", cap)}})
				return
			}
			for _, a := range alpha {
				if stopped && (a == "stop" || a == "xfer") {
					continue
				}
				rec(append(append([]string{}, prefix...), a), stopped || a == "stop")
			}
		}
		rec(nil, false)
	}
	// a few fixed scripts that pin the hand-over between chanOut and the overflow list
	for _, cap := range caps {
		ops := []string{fmt.Sprintf("new cap=%d", cap)}
		for i := 0; i < cap+3; i++ {
			ops = append(ops, fmt.Sprintf("send %d", i))
		}
		ops = append(ops, "recv", fmt.Sprintf("send %d", cap+3), "recv", fmt.Sprintf("xfer %d", cap+4))
		for i := 0; i < cap+4; i++ {
			ops = append(ops, "recv")
		}
		ops = append(ops, "len", "stop", "send 99", "len")
		cases = append(cases, core.Case{Ops: ops, Tags: []string{"fixed-handover", fmt.Sprintf("cap=%d", cap)}})
	}
	for _, cap := range caps {
		for i := 0; i < nScripts; i++ {
			max := 10 + rng.Intn(41)
			cases = append(cases, script(rng, cap, max))
		}
	}
	for _, cap := range caps {
		for i := 0; i < nStress; i++ {
			cases = append(cases, stressCase(rng, cap, 1+rng.Intn(stressN), i%3 == 2))
		}
	}
	// one burst far beyond any plausible bound on the overflow list, with a consumer that does nothing meanwhile
	// ("however slow the consumer is ... all burst lengths exceeding the buffer")
	for _, cap := range []int{0, 2} {
		cases = append(cases, core.Case{
			Ops:  []string{fmt.Sprintf("stress cap=%d n=%d seed=%d stop=-1 prod=burst cons=idle", cap, 12000+rng.Intn(1000), rng.Intn(1<<30))},
			Tags: []string{"stress", "stress-long-burst-idle-consumer", fmt.Sprintf("cap=%d", cap)}})
	}
	// a malformed stream: the model driver must answer bad-op exactly like the harness
	cases = append(cases, core.Case{Ops: []string{"new cap=1", "send x", "frob", "recv 3", "send", "send -1", "stress cap=1", "new cap=x", "new cap=-1", "send 5", "recv"},
		Tags: []string{"malformed"}})
	return cases
}

// ------------------------------------------------------------------ runner

var (
	baseOnce sync.Once
	baseG    int
)

type runner struct {
	q        *chain.ConcurrentQueue
	cap      int
	sent     []int // values accepted by ChanIn(), in order
	recvd    []int // values received from ChanOut(), in order
	stopped  bool
	viol     []string
	seenRecv map[int]bool
	broken   bool // an oracle violation was already reported for this case
}

func (engine) NewRunner() core.Runner {
	baseOnce.Do(func() { baseG = runtime.NumGoroutine() })
	return &runner{}
}

// waitExit waits until no goroutine beyond the harness's own is alive.
func waitExit(d time.Duration) bool {
	deadline := time.Now().Add(d)
	for i := 0; ; i++ {
		if runtime.NumGoroutine() <= baseG {
			return true
		}
		if time.Now().After(deadline) {
			baseG = runtime.NumGoroutine() // a leaked worker stays; judge later cases on their own
			longExpired++
			return false
		}
		if i < 200 {
			runtime.Gosched()
		} else {
			time.Sleep(50 * time.Microsecond)
		}
	}
}

func (r *runner) Close() {
	if r.q != nil && !r.stopped {
		r.q.Stop()
		r.stopped = true
		waitExit(r.long())
	}
	r.q = nil
}

func (r *runner) v(key, format string, a ...interface{}) {
	r.viol = append(r.viol, "C18 key="+key+": "+fmt.Sprintf(format, a...))
	if !r.broken {
		r.broken = true
		violatingCases++
	}
}

// long is the time to wait for something that must happen.
func (r *runner) long() time.Duration {
	if r.broken || decided() {
		return brokenWait
	}
	return longWait
}

func (r *runner) pending() int { return len(r.sent) - len(r.recvd) }

// quiesce waits until the chanOut buffer holds what a FIFO with unbounded overflow must hold; returns len(ChanOut()).
func (r *runner) quiesce() int {
	out := r.q.ChanOut()
	if r.stopped {
		return len(out)
	}
	want := r.pending()
	if want > r.cap {
		want = r.cap
	}
	deadline := time.Now().Add(r.long())
	for i := 0; ; i++ {
		l := len(out)
		if l == want {
			return l
		}
		if time.Now().After(deadline) {
			if l < want {
				r.v("lost", "chanOut holds %d values, %d pending (cap %d): the overflow is not being moved to chanOut", l, r.pending(), r.cap)
			} else {
				r.v("duplicate", "chanOut holds %d values but only %d are pending", l, r.pending())
			}
			return l
		}
		if i < 100 {
			runtime.Gosched()
		} else {
			time.Sleep(20 * time.Microsecond)
		}
	}
}

func (r *runner) send(val int) bool {
	d := r.long()
	if r.stopped {
		d = shortWait
	}
	t := time.NewTimer(d)
	defer t.Stop()
	select {
	case r.q.ChanIn() <- val:
		r.sent = append(r.sent, val)
		return true
	case <-t.C:
		if !r.stopped {
			r.v("producer-blocked", "send %d not accepted within %v (pending %d, cap %d, Stop not called)", val, d, r.pending(), r.cap)
		}
		return false
	}
}

// check a value that came out of ChanOut() against the sent sequence.
func (r *runner) received(val int) {
	idx := len(r.recvd)
	r.recvd = append(r.recvd, val)
	switch {
	case r.seenRecv[val]:
		r.v("duplicate", "value %d received twice (position %d)", val, idx)
	case idx >= len(r.sent):
		r.v("duplicate", "value %d received but nothing was pending", val)
	case r.sent[idx] != val:
		r.v("order", "received %d at position %d, sent sequence has %d there", val, idx, r.sent[idx])
	}
	if r.seenRecv == nil {
		r.seenRecv = map[int]bool{}
	}
	r.seenRecv[val] = true
}

// recvWait: how long a receive waits, and whether a value must arrive.
func (r *runner) recvWait() (time.Duration, bool) {
	if len(r.q.ChanOut()) > 0 || (!r.stopped && r.pending() > 0) {
		return r.long(), true
	}
	return shortWait, false
}

func (r *runner) flush() string {
	s := strings.Join(r.viol, "; ")
	r.viol = nil
	return s
}

func (r *runner) Exec(op string) (string, string) {
	f := strings.Fields(op)
	if len(f) == 0 {
		return "bad-op", ""
	}
	switch {
	case f[0] == "new":
		_, kv := core.KV(op)
		c, err := strconv.Atoi(kv["cap"])
		if err != nil || c < 0 {
			return "bad-op", ""
		}
		r.Close()
		*r = runner{cap: c}
		r.q = chain.NewConcurrentQueue(c)
		r.q.Start()
		return fmt.Sprintf("ok cap=%d", c), ""
	case f[0] == "stress":
		_, kv := core.KV(op)
		c, e1 := strconv.Atoi(kv["cap"])
		n, e2 := strconv.Atoi(kv["n"])
		seed, e3 := strconv.ParseInt(kv["seed"], 10, 64)
		st, e4 := strconv.Atoi(kv["stop"])
		if e1 != nil || e2 != nil || e3 != nil || e4 != nil || c < 0 || n < 0 || seed < 0 {
			return "bad-op", ""
		}
		return stress(c, n, seed, st, kv["prod"], kv["cons"])
	}
	if r.q == nil {
		return "bad-op", ""
	}
	switch {
	case f[0] == "send" && len(f) == 2:
		val, err := strconv.Atoi(f[1])
		if err != nil || val < 0 {
			return "bad-op", ""
		}
		ok := r.send(val)
		l := r.quiesce()
		if ok {
			return fmt.Sprintf("ok len=%d", l), r.flush()
		}
		return fmt.Sprintf("blocked len=%d", l), r.flush()
	case f[0] == "recv" && len(f) == 1:
		d, expect := r.recvWait()
		t := time.NewTimer(d)
		defer t.Stop()
		select {
		case x := <-r.q.ChanOut():
			r.received(x.(int))
			return fmt.Sprintf("got %d len=%d", x.(int), r.quiesce()), r.flush()
		case <-t.C:
			if expect {
				r.v("lost", "%d values pending but receive timed out after %v", r.pending(), d)
			}
			return fmt.Sprintf("empty len=%d", r.quiesce()), r.flush()
		}
	case f[0] == "xfer" && len(f) == 2:
		val, err := strconv.Atoi(f[1])
		if err != nil || val < 0 {
			return "bad-op", ""
		}
		// after Stop nothing can arrive beyond the buffer; before Stop the consumer gets the oldest pending value or val
		d := r.long()
		if r.stopped && len(r.q.ChanOut()) == 0 {
			d = shortWait
		}
		res := make(chan interface{}, 1)
		out := r.q.ChanOut()
		go func() {
			t := time.NewTimer(d)
			defer t.Stop()
			select {
			case x := <-out:
				res <- x
			case <-t.C:
				res <- nil
			}
		}()
		runtime.Gosched()
		time.Sleep(30 * time.Microsecond) // let the consumer block first (either order gives the same observable result)
		ok := r.send(val)
		x := <-res
		got := "empty"
		if x != nil {
			r.received(x.(int))
			got = strconv.Itoa(x.(int))
		} else if !r.stopped {
			r.v("lost", "a waiting consumer received nothing within %v although %d was sent", d, val)
		}
		sendS := "blocked"
		if ok {
			sendS = "ok"
		}
		return fmt.Sprintf("xfer recv=%s send=%s len=%d", got, sendS, r.quiesce()), r.flush()
	case f[0] == "stop" && len(f) == 1:
		if r.stopped {
			return "panic", "" // close of closed channel; never generated
		}
		r.q.Stop()
		r.stopped = true
		if d := r.long(); waitExit(d) {
			return "stopped exited=1", ""
		} else {
			r.v("stop-not-terminating", "worker goroutine still alive %v after Stop() (no producer, no consumer active)", d)
		}
		return "stopped exited=0", r.flush()
	case f[0] == "len" && len(f) == 1:
		return fmt.Sprintf("len n=%d cap=%d", len(r.q.ChanOut()), cap(r.q.ChanOut())), ""
	}
	return "bad-op", ""
}

// ------------------------------------------------------------------ free-running stress

func longG() time.Duration {
	if decided() {
		return brokenWait
	}
	return longWait
}

func stress(capN, n int, seed int64, stopAt int, prod, cons string) (string, string) {
	longWait := longG()
	q := chain.NewConcurrentQueue(capN)
	q.Start()
	var (
		viol        []string
		mu          sync.Mutex
		received    []int
		stopped     atomic.Bool
		accepted    atomic.Int64
		prodDone    = make(chan struct{})
		consStop    = make(chan struct{})
		wg          sync.WaitGroup
		blockedSend = -1
	)
	addV := func(key, format string, a ...interface{}) {
		mu.Lock()
		viol = append(viol, "C18 key="+key+": "+fmt.Sprintf(format, a...))
		mu.Unlock()
	}
	wg.Add(2)
	go func() { // producer
		defer wg.Done()
		defer close(prodDone)
		rng := rand.New(rand.NewSource(seed))
		for i := 0; i < n; i++ {
			if i == stopAt {
				q.Stop()
				stopped.Store(true)
			}
			if prod == "sleepy" && rng.Intn(4) == 0 {
				time.Sleep(time.Duration(rng.Intn(40)) * time.Microsecond)
			}
			d := longWait
			if stopped.Load() {
				d = shortWait
			}
			t := time.NewTimer(d)
			select {
			case q.ChanIn() <- i:
				t.Stop()
				accepted.Add(1)
			case <-t.C:
				if !stopped.Load() {
					blockedSend = i
				}
				return
			}
		}
		if stopAt == n {
			q.Stop()
			stopped.Store(true)
		}
	}()
	go func() { // consumer
		defer wg.Done()
		rng := rand.New(rand.NewSource(seed + 1))
		if cons == "idle" {
			<-prodDone // the consumer does nothing at all while the producer runs
		}
		for {
			if cons == "slow" && rng.Intn(3) == 0 {
				time.Sleep(time.Duration(rng.Intn(120)) * time.Microsecond)
			}
			select {
			case x := <-q.ChanOut():
				mu.Lock()
				received = append(received, x.(int))
				cnt := len(received)
				mu.Unlock()
				if stopAt < 0 && cnt == n {
					return
				}
			case <-consStop:
				return
			}
		}
	}()
	<-prodDone
	if blockedSend >= 0 {
		addV("producer-blocked", "stress: send %d not accepted within %v, Stop not called (cap %d, consumer %s)", blockedSend, longWait, capN, cons)
	}
	if stopAt < 0 {
		// everything sent must arrive; the wait is progress-based: it only gives up when NOT ONE further value has
		// arrived for longWait (draining a long burst through a starved worker can take arbitrarily long in total)
		deadline := time.Now().Add(longWait)
		for last := -1; ; {
			mu.Lock()
			cnt := len(received)
			mu.Unlock()
			if cnt != last {
				last, deadline = cnt, time.Now().Add(longWait)
			}
			if cnt >= n || time.Now().After(deadline) {
				break
			}
			time.Sleep(50 * time.Microsecond)
		}
		q.Stop()
		stopped.Store(true)
	}
	close(consStop)
	wg.Wait()
	if !waitExit(longWait) {
		addV("stop-not-terminating", "stress: worker goroutine still alive %v after Stop()", longWait)
	}
	// after the worker has exited, whatever is left in the buffer is still in order
	for {
		select {
		case x := <-q.ChanOut():
			received = append(received, x.(int))
			continue
		default:
		}
		break
	}
	for i, x := range received {
		if x != i {
			key := "order"
			if x < i {
				key = "duplicate"
			}
			addV(key, "stress: position %d holds %d (cap %d prod %s cons %s)", i, x, capN, prod, cons)
			break
		}
	}
	if int64(len(received)) > accepted.Load() {
		addV("duplicate", "stress: %d received, %d accepted", len(received), accepted.Load())
	}
	if stopAt < 0 && len(received) != n {
		addV("lost", "stress: %d of %d values received (cap %d prod %s cons %s)", len(received), n, capN, prod, cons)
	}
	if len(viol) > 0 {
		violatingCases++
		return "bad " + strconv.Itoa(len(viol)), strings.Join(viol, "; ")
	}
	if stopAt < 0 {
		return fmt.Sprintf("ok n=%d", n), ""
	}
	return "ok stopped", ""
}
