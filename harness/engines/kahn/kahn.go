// Package kahn is the correspondence engine for C14: wtxmgr.DependencySort and Store.UnminedTxs on generated
// spend DAGs.
//
// Go's map iteration order cannot be observed or controlled from outside, so the tie to the Lean model
// (BtcwVerif/Model/Kahn.lean) is output-set membership: the generator runs the REAL code many times on each
// shape and emits one op line per distinct order it returned (`got=`); the Lean driver answers whether that order
// is a permutation / parents-first per the specification functions and (<= 5 transactions) whether it is one of
// the outputs of the model over all pairs of iteration orders.  Exec re-runs the real code (fresh maps, many
// repetitions) and evaluates the property oracles -- permutation and parents-first, written here independently of
// the Lean model -- on every real output.
//
//	sort    txs=<id:ph.idx/ph.idx;id:;...> got=<id,id,...>     wtxmgr.DependencySort on a fresh map
//	unmined [cr=none|all|odd|first] txs=... got=...             Store.UnminedTxs on a real store (bdb); cr selects which
//	                                                            outputs are also registered as wallet credits (AddCredit)
//	reply: n=<n> perm=<0|1> pf=<0|1> member=<1|na>
//
// Ids < extBase name transactions of the set; a `ph` that is not an id of the set is a transaction outside the set.
package kahn

import (
	"crypto/sha256"
	"fmt"
	"math/rand"
	"os"
	"path/filepath"
	"sort"
	"strconv"
	"strings"
	"time"

	"github.com/btcsuite/btcd/chaincfg"
	"github.com/btcsuite/btcd/chaincfg/chainhash"
	"github.com/btcsuite/btcd/wire"
	"github.com/btcsuite/btcwallet/walletdb"
	_ "github.com/btcsuite/btcwallet/walletdb/bdb"
	"github.com/btcsuite/btcwallet/wtxmgr"

	"verifharness/core"
)

const memberLimit = 5

type in struct{ prev, idx int }
type txd struct {
	id  int
	ins []in
}

type engine struct{}

func init() { core.Register(engine{}) }

func (engine) Name() string { return "kahn" }

// ---------------------------------------------------------------- op syntax

func fmtTxs(txs []txd) string {
	var ts []string
	for _, t := range txs {
		var is []string
		for _, i := range t.ins {
			is = append(is, fmt.Sprintf("%d.%d", i.prev, i.idx))
		}
		ts = append(ts, fmt.Sprintf("%d:%s", t.id, strings.Join(is, "/")))
	}
	return strings.Join(ts, ";")
}

func fmtIDs(ids []int) string {
	var s []string
	for _, i := range ids {
		s = append(s, strconv.Itoa(i))
	}
	return strings.Join(s, ",")
}

func natOf(s string) (int, bool) {
	if s == "" || len(s) > 9 {
		return 0, false
	}
	for _, c := range s {
		if c < '0' || c > '9' {
			return 0, false
		}
	}
	n, _ := strconv.Atoi(s)
	return n, true
}

func parseTxs(s string) ([]txd, bool) {
	var out []txd
	if s == "" {
		return out, true
	}
	seen := map[int]bool{}
	for _, t := range strings.Split(s, ";") {
		p := strings.Split(t, ":")
		if len(p) != 2 {
			return nil, false
		}
		id, ok := natOf(p[0])
		if !ok || seen[id] {
			return nil, false
		}
		seen[id] = true
		d := txd{id: id}
		if p[1] != "" {
			for _, i := range strings.Split(p[1], "/") {
				q := strings.Split(i, ".")
				if len(q) != 2 {
					return nil, false
				}
				a, ok1 := natOf(q[0])
				b, ok2 := natOf(q[1])
				if !ok1 || !ok2 {
					return nil, false
				}
				d.ins = append(d.ins, in{a, b})
			}
		}
		out = append(out, d)
	}
	return out, true
}

func parseIDs(s string) ([]int, bool) {
	var out []int
	if s == "" {
		return out, true
	}
	for _, t := range strings.Split(s, ",") {
		n, ok := natOf(t)
		if !ok {
			return nil, false
		}
		out = append(out, n)
	}
	return out, true
}

// ---------------------------------------------------------------- real transactions from a shape

type built struct {
	txs  []txd
	msg  map[int]*wire.MsgTx
	hash map[int]chainhash.Hash
	id   map[chainhash.Hash]int
}

func extHash(id int) chainhash.Hash {
	return chainhash.Hash(sha256.Sum256([]byte(fmt.Sprintf("outside-the-set-%d", id))))
}

// build creates real wire.MsgTx values whose inputs reference the real hashes of their parents.  This needs the
// shape to be acyclic (a transaction hash commits to its inputs); ok=false otherwise.
func build(txs []txd) (*built, bool) {
	b := &built{txs: txs, msg: map[int]*wire.MsgTx{}, hash: map[int]chainhash.Hash{}, id: map[chainhash.Hash]int{}}
	byID := map[int]txd{}
	nOut := map[int]int{}
	for _, t := range txs {
		byID[t.id] = t
	}
	for _, t := range txs {
		for _, i := range t.ins {
			if _, ok := byID[i.prev]; ok && i.idx+1 > nOut[i.prev] {
				nOut[i.prev] = i.idx + 1
			}
		}
	}
	state := map[int]int{} // 1 = in progress, 2 = done
	var visit func(id int) bool
	visit = func(id int) bool {
		switch state[id] {
		case 1:
			return false
		case 2:
			return true
		}
		state[id] = 1
		t := byID[id]
		m := wire.NewMsgTx(2)
		for _, i := range t.ins {
			var h chainhash.Hash
			if _, ok := byID[i.prev]; ok {
				if !visit(i.prev) {
					return false
				}
				h = b.hash[i.prev]
			} else {
				h = extHash(i.prev)
			}
			m.AddTxIn(wire.NewTxIn(wire.NewOutPoint(&h, uint32(i.idx)), nil, nil))
		}
		if len(t.ins) == 0 {
			// wire cannot round-trip a transaction without inputs (it reads as the segwit marker); give it one
			// input from outside the set, which DependencySort ignores.
			h := extHash(-1 - id)
			m.AddTxIn(wire.NewTxIn(wire.NewOutPoint(&h, 0), nil, nil))
		}
		k := nOut[id]
		if k == 0 {
			k = 1
		}
		if k > 64 {
			k = 64
		}
		for o := 0; o < k; o++ {
			m.AddTxOut(wire.NewTxOut(int64(100000+1000*id+o), []byte{0x51, byte(id), byte(id >> 8)}))
		}
		h := m.TxHash()
		b.msg[id], b.hash[id], b.id[h] = m, h, id
		state[id] = 2
		return true
	}
	for _, t := range txs {
		if !visit(t.id) {
			return nil, false
		}
	}
	return b, true
}

// ---------------------------------------------------------------- running the real code

type outcome struct {
	ids   []int // -1 = nil pointer, -2 = transaction not in the set
	panic string
}

func (b *built) toIDs(out []*wire.MsgTx) []int {
	ids := make([]int, 0, len(out))
	for _, m := range out {
		if m == nil {
			ids = append(ids, -1)
			continue
		}
		if id, ok := b.id[m.TxHash()]; ok {
			ids = append(ids, id)
		} else {
			ids = append(ids, -2)
		}
	}
	return ids
}

func guarded(f func() []*wire.MsgTx) (out []*wire.MsgTx, pan string) {
	type res struct {
		out []*wire.MsgTx
		pan string
	}
	ch := make(chan res, 1)
	go func() {
		var r res
		defer func() {
			if p := recover(); p != nil {
				r.pan = fmt.Sprint(p)
			}
			ch <- r
		}()
		r.out = f()
	}()
	// non-termination guard for a pure function on a small graph: generous (a starved process can be off the CPU for
	// seconds), but a sort that really loops must not cost the full limit on every later call
	limit := 30 * time.Second
	if guardTimeouts >= 3 {
		limit = 2 * time.Second
	}
	select {
	case r := <-ch:
		return r.out, r.pan
	case <-time.After(limit):
		guardTimeouts++
		return nil, "timeout"
	}
}

var guardTimeouts int

// runSort calls the exported wtxmgr.DependencySort on a fresh map (fresh random iteration order).
func (b *built) runSort(rng *rand.Rand) outcome {
	set := make(map[chainhash.Hash]*wire.MsgTx, rng.Intn(2)*len(b.txs))
	for _, k := range rng.Perm(len(b.txs)) {
		id := b.txs[k].id
		set[b.hash[id]] = b.msg[id]
	}
	out, pan := guarded(func() []*wire.MsgTx { return wtxmgr.DependencySort(set) })
	return outcome{b.toIDs(out), pan}
}

// store with the set inserted unmined.
type liveStore struct {
	db walletdb.DB
	s  *wtxmgr.Store
	ns []byte
}

// credited says whether output idx of transaction id is registered as a wallet credit (AddCredit) in mode cr.
// UnminedTxs must order by spends whether or not the spent outputs are wallet credits.
func credited(cr string, id, idx int) bool {
	switch cr {
	case "all":
		return true
	case "odd":
		return (id+idx)%2 == 1
	case "first":
		return idx == 0
	}
	return false
}

var creditModes = []string{"none", "all", "odd", "first"}

func validCredit(cr string) bool {
	for _, m := range creditModes {
		if m == cr {
			return true
		}
	}
	return false
}

func (b *built) newStore(db walletdb.DB, nsName []byte, rng *rand.Rand, cr string) (*liveStore, error) {
	ls := &liveStore{db: db, ns: nsName}
	// insertion order is arbitrary (children may arrive before parents, as from a mempool)
	order := rng.Perm(len(b.txs))
	insert := func(ns walletdb.ReadWriteBucket, ks []int) error {
		for _, k := range ks {
			rec, err := wtxmgr.NewTxRecordFromMsgTx(b.msg[b.txs[k].id], time.Unix(1700000000, 0))
			if err != nil {
				return err
			}
			if err := ls.s.InsertTx(ns, rec, nil); err != nil {
				return err
			}
			for o := range rec.MsgTx.TxOut {
				if credited(cr, b.txs[k].id, o) {
					if err := ls.s.AddCredit(ns, rec, nil, uint32(o), o%2 == 1); err != nil {
						return err
					}
				}
			}
		}
		return nil
	}
	// The set arrives in two database transactions.  While the second one is still open (its inserts done, not yet
	// committed) a reader in a transaction of its own asks for the unconfirmed transactions, as the re-broadcast
	// goroutine may at any moment (Wallet.resendUnminedTxs runs its own walletdb.View).  What that reader is told is not
	// judged here (it rightly sees the first part only); what matters is that every LATER answer is about the committed
	// set, whatever an earlier, overlapping call saw.
	cut := len(order) / 2
	err := walletdb.Update(db, func(tx walletdb.ReadWriteTx) error {
		ns, err := tx.CreateTopLevelBucket(nsName)
		if err != nil {
			return err
		}
		if err := wtxmgr.Create(ns); err != nil {
			return err
		}
		ls.s, err = wtxmgr.Open(ns, &chaincfg.TestNet3Params)
		if err != nil {
			return err
		}
		return insert(ns, order[:cut])
	})
	if err != nil {
		return ls, err
	}
	err = walletdb.Update(db, func(tx walletdb.ReadWriteTx) error {
		if err := insert(tx.ReadWriteBucket(nsName), order[cut:]); err != nil {
			return err
		}
		done := make(chan struct{})
		go func() {
			defer close(done)
			_ = b.runUnmined(ls)
		}()
		<-done
		return nil
	})
	return ls, err
}

var errAbort = fmt.Errorf("abort")

// abortedRemoval removes transaction k (and its descendants) inside a database transaction, asks for the unconfirmed
// transactions there, and rolls the transaction back.  Nothing of it may be visible afterwards.
func (b *built) abortedRemoval(ls *liveStore, k int) {
	_ = walletdb.Update(ls.db, func(tx walletdb.ReadWriteTx) error {
		ns := tx.ReadWriteBucket(ls.ns)
		_, _ = guarded(func() []*wire.MsgTx {
			rec, err := wtxmgr.NewTxRecordFromMsgTx(b.msg[b.txs[k].id], time.Unix(1700000000, 0))
			if err != nil {
				return nil
			}
			if err := ls.s.RemoveUnminedTx(ns, rec); err != nil {
				return nil
			}
			_, _ = ls.s.UnminedTxs(ns)
			return nil
		})
		return errAbort
	})
}

func (b *built) runUnmined(ls *liveStore) outcome {
	var o outcome
	_ = walletdb.View(ls.db, func(tx walletdb.ReadTx) error {
		ns := tx.ReadBucket(ls.ns)
		out, pan := guarded(func() []*wire.MsgTx {
			txs, err := ls.s.UnminedTxs(ns)
			if err != nil {
				panic("UnminedTxs error: " + err.Error())
			}
			return txs
		})
		o = outcome{b.toIDs(out), pan}
		return nil
	})
	return o
}

// ---------------------------------------------------------------- property oracles (independent of the model)

// isPerm: every transaction of the set exactly once, nothing else.
func isPerm(txs []txd, out []int) bool {
	if len(out) != len(txs) {
		return false
	}
	cnt := map[int]int{}
	for _, id := range out {
		cnt[id]++
	}
	for _, t := range txs {
		if cnt[t.id] != 1 {
			return false
		}
	}
	return true
}

// parentsFirst: for every input of c that spends an output of a transaction p of the set, p is placed before c.
func parentsFirst(txs []txd, out []int) bool {
	pos := map[int]int{}
	for i := len(out) - 1; i >= 0; i-- {
		pos[out[i]] = i // first occurrence
	}
	at := func(id int) int {
		if p, ok := pos[id]; ok {
			return p
		}
		return len(out)
	}
	inSet := map[int]bool{}
	for _, t := range txs {
		inSet[t.id] = true
	}
	for _, c := range txs {
		for _, i := range c.ins {
			if inSet[i.prev] && !(at(i.prev) < at(c.id)) {
				return false
			}
		}
	}
	return true
}

func b01(x bool) string {
	if x {
		return "1"
	}
	return "0"
}

func judge(site string, txs []txd, o outcome, what string) string {
	if o.panic == "timeout" {
		return fmt.Sprintf("C14 key=%s.timeout: %s did not return on txs=%s", site, what, fmtTxs(txs))
	}
	if o.panic != "" {
		return fmt.Sprintf("C14 key=%s.panic: %s panicked (%s) on txs=%s", site, what, o.panic, fmtTxs(txs))
	}
	if !isPerm(txs, o.ids) {
		return fmt.Sprintf("C14 key=%s.not-each-exactly-once: %s returned [%s] for txs=%s", site, what, fmtIDs2(o.ids), fmtTxs(txs))
	}
	if !parentsFirst(txs, o.ids) {
		return fmt.Sprintf("C14 key=%s.child-before-parent: %s returned [%s] for txs=%s", site, what, fmtIDs2(o.ids), fmtTxs(txs))
	}
	return ""
}

func fmtIDs2(ids []int) string {
	var s []string
	for _, i := range ids {
		switch i {
		case -1:
			s = append(s, "nil")
		case -2:
			s = append(s, "foreign")
		default:
			s = append(s, strconv.Itoa(i))
		}
	}
	return strings.Join(s, ",")
}

// ---------------------------------------------------------------- runner

type runner struct {
	dir string
	db  walletdb.DB
	n   int
	rng *rand.Rand
}

func (engine) NewRunner() core.Runner {
	return &runner{rng: rand.New(rand.NewSource(14))}
}

func (r *runner) Close() {
	if r.db != nil {
		r.db.Close()
		os.RemoveAll(r.dir)
	}
}

func (r *runner) database() walletdb.DB {
	if r.db == nil {
		dir, err := os.MkdirTemp("", "vxkahn")
		if err != nil {
			panic(err)
		}
		db, err := walletdb.Create("bdb", filepath.Join(dir, "k.db"), true, 10*time.Second, false)
		if err != nil {
			panic(err)
		}
		r.dir, r.db = dir, db
	}
	return r.db
}

func repsFor(n int) int {
	switch {
	case n <= 1:
		return 3
	case n <= 5:
		return 40
	case n <= 12:
		return 30
	default:
		return 20
	}
}

func (r *runner) Exec(op string) (string, string) {
	name, kv := core.KV(op)
	if name != "sort" && name != "unmined" {
		return "bad-op", ""
	}
	txsS, ok1 := kv["txs"]
	gotS, ok2 := kv["got"]
	if !ok1 || !ok2 {
		return "bad-op", ""
	}
	txs, ok := parseTxs(txsS)
	if !ok {
		return "bad-op", ""
	}
	if gotS == "panic" {
		return "recorded-panic", fmt.Sprintf("C14 key=%s.panic: the real code panicked or hung at generation time on txs=%s", site(name), txsS)
	}
	got, ok := parseIDs(gotS)
	if !ok {
		return "bad-op", ""
	}
	cr := "none"
	if v, has := kv["cr"]; has {
		if name != "unmined" || !validCredit(v) {
			return "bad-op", ""
		}
		cr = v
	}
	b, ok := build(txs)
	if !ok {
		// a cyclic spend graph cannot be realised with real transaction hashes
		return "unbuildable-cyclic", ""
	}
	reps := repsFor(len(txs))
	if v := os.Getenv("VX_KAHN_REPS"); v != "" {
		if n, err := strconv.Atoi(v); err == nil {
			reps = n
		}
	}
	viols := map[string]string{}
	note := func(v string) {
		if v == "" {
			return
		}
		k := v[:strings.Index(v, ":")]
		if _, dup := viols[k]; !dup {
			viols[k] = v
		}
	}
	if name == "sort" {
		for i := 0; i < reps; i++ {
			note(judge("DependencySort", txs, b.runSort(r.rng), "wtxmgr.DependencySort"))
		}
	} else {
		r.n++
		ls, err := b.newStore(r.database(), []byte(fmt.Sprintf("ns%d", r.n)), r.rng, cr)
		if err != nil {
			return "store-error", fmt.Sprintf("C14 key=UnminedTxs.store-error: %v", err)
		}
		for i := 0; i < reps; i++ {
			if i%2 == 1 && len(b.txs) > 0 {
				// an aborted database transaction in between (removal of one transaction, a query, rollback)
				b.abortedRemoval(ls, (i/2)%len(b.txs))
			}
			note(judge("UnminedTxs", txs, b.runUnmined(ls), "Store.UnminedTxs"))
		}
	}
	// the order recorded in the op line was returned by the real code when the case was generated
	note(judge(site(name), txs, outcome{ids: got}, "(recorded run) "+site(name)))
	member := "na"
	if len(txs) <= memberLimit {
		member = "1"
	}
	reply := fmt.Sprintf("n=%d perm=%s pf=%s member=%s", len(txs), b01(isPerm(txs, got)), b01(parentsFirst(txs, got)), member)
	var vs []string
	for _, v := range viols {
		vs = append(vs, v)
	}
	sort.Strings(vs)
	return reply, strings.Join(vs, "; ")
}

func site(op string) string {
	if op == "unmined" {
		return "UnminedTxs"
	}
	return "DependencySort"
}

// ---------------------------------------------------------------- generator

// shape in topological labelling: node j may only spend nodes i < j.
func randomShape(rng *rand.Rand, maxN int) ([]txd, []string) {
	n := 1 + rng.Intn(maxN)
	dens := []float64{0, 0.08, 0.2, 0.4, 0.7, 1.0}[rng.Intn(6)]
	multi := rng.Intn(3) == 0
	ext := rng.Intn(2) == 0
	txs := make([]txd, n)
	tags := map[string]bool{}
	for j := 0; j < n; j++ {
		txs[j].id = j
		for i := 0; i < j; i++ {
			if rng.Float64() < dens {
				k := 1
				if multi && rng.Intn(3) == 0 {
					k = 2 + rng.Intn(2)
					tags["multi-edge"] = true
				}
				for e := 0; e < k; e++ {
					// few distinct output indexes => siblings often spend the same outpoint (conflicts)
					txs[j].ins = append(txs[j].ins, in{i, rng.Intn(3)})
				}
			}
		}
		if ext && rng.Intn(3) == 0 || len(txs[j].ins) == 0 && rng.Intn(4) != 0 {
			txs[j].ins = append(txs[j].ins, in{1000 + rng.Intn(5), rng.Intn(2)})
			tags["outside-input"] = true
		}
		rng.Shuffle(len(txs[j].ins), func(a, b int) { txs[j].ins[a], txs[j].ins[b] = txs[j].ins[b], txs[j].ins[a] })
	}
	return txs, classify(txs, tags)
}

func classify(txs []txd, tags map[string]bool) []string {
	inSet := map[int]bool{}
	for _, t := range txs {
		inSet[t.id] = true
	}
	edges := 0
	spent := map[in]int{}
	parents := map[int]map[int]int{}
	for _, t := range txs {
		parents[t.id] = map[int]int{}
		seen := map[in]bool{}
		for _, i := range t.ins {
			if inSet[i.prev] {
				edges++
				parents[t.id][i.prev]++
				if !seen[i] {
					spent[i]++
					seen[i] = true
				}
			} else {
				tags["outside-input"] = true
			}
		}
	}
	if edges == 0 {
		tags["no-edges-shortcut"] = true
	}
	for _, c := range spent {
		if c > 1 {
			tags["conflicting-siblings"] = true
		}
	}
	for _, ps := range parents {
		if len(ps) >= 2 {
			tags["multi-parent"] = true
		}
		for _, m := range ps {
			if m >= 2 {
				tags["multi-edge"] = true
			}
		}
	}
	switch {
	case len(txs) <= 5:
		tags["n<=5"] = true
	case len(txs) <= 12:
		tags["n<=12"] = true
	default:
		tags["n>12"] = true
	}
	var out []string
	for t := range tags {
		out = append(out, t)
	}
	sort.Strings(out)
	return out
}

// relabel applies a random renaming of ids and shuffles the listing, so ids carry no topological information.
func relabel(rng *rand.Rand, txs []txd) []txd {
	n := len(txs)
	p := rng.Perm(n)
	out := make([]txd, n)
	for j, t := range txs {
		nt := txd{id: p[t.id]}
		for _, i := range t.ins {
			if i.prev < n {
				nt.ins = append(nt.ins, in{p[i.prev], i.idx})
			} else {
				nt.ins = append(nt.ins, i)
			}
		}
		out[j] = nt
	}
	rng.Shuffle(n, func(a, b int) { out[a], out[b] = out[b], out[a] })
	return out
}

func fixedShapes() [][]txd {
	e := func(p, i int) in { return in{p, i} }
	return [][]txd{
		{},
		{{0, nil}},
		{{0, []in{e(1000, 0)}}},
		// chain
		{{0, []in{e(1000, 0)}}, {1, []in{e(0, 0)}}, {2, []in{e(1, 0)}}, {3, []in{e(2, 0)}}},
		// diamond
		{{0, nil}, {1, []in{e(0, 0)}}, {2, []in{e(0, 1)}}, {3, []in{e(1, 0), e(2, 0)}}},
		// double and triple edge between the same pair
		{{0, nil}, {1, []in{e(0, 0), e(0, 1)}}},
		{{0, nil}, {1, []in{e(0, 0), e(0, 1), e(0, 2)}}, {2, []in{e(1, 0), e(0, 3)}}},
		// the same outpoint twice in one transaction
		{{0, nil}, {1, []in{e(0, 0), e(0, 0)}}},
		// conflicting siblings (same outpoint) and a grandchild of each
		{{0, nil}, {1, []in{e(0, 0)}}, {2, []in{e(0, 0)}}, {3, []in{e(1, 0)}}, {4, []in{e(2, 0)}}},
		// independent components
		{{0, nil}, {1, []in{e(0, 0)}}, {2, nil}, {3, []in{e(2, 0)}}, {4, []in{e(1001, 0)}}},
		// no edges at all: the len(roots)==len(txs) shortcut
		{{0, []in{e(1000, 0)}}, {1, []in{e(1000, 1)}}, {2, []in{e(1001, 0)}}, {3, nil}},
		// star out / star in
		{{0, nil}, {1, []in{e(0, 0)}}, {2, []in{e(0, 1)}}, {3, []in{e(0, 2)}}, {4, []in{e(0, 3)}}},
		{{0, nil}, {1, nil}, {2, nil}, {3, nil}, {4, []in{e(0, 0), e(1, 0), e(2, 0), e(3, 0)}}},
		// long edge over a chain: 0->1->2->3 and 0->3 (twice)
		{{0, nil}, {1, []in{e(0, 0)}}, {2, []in{e(1, 0)}}, {3, []in{e(0, 1), e(2, 0), e(0, 2)}}},
		// one root only, everything else below it, two levels, 7 nodes
		{{0, nil}, {1, []in{e(0, 0)}}, {2, []in{e(0, 1)}}, {3, []in{e(1, 0)}}, {4, []in{e(1, 1), e(2, 0)}}, {5, []in{e(2, 1)}}, {6, []in{e(3, 0), e(4, 0), e(5, 0)}}},
	}
}

// all shapes on n nodes (fixed topological labelling) with edge multiplicities 0..maxMult.
func allShapes(n, maxMult int) [][]txd {
	type pair struct{ i, j int }
	var pairs []pair
	for j := 0; j < n; j++ {
		for i := 0; i < j; i++ {
			pairs = append(pairs, pair{i, j})
		}
	}
	var out [][]txd
	mult := make([]int, len(pairs))
	for {
		txs := make([]txd, n)
		for j := range txs {
			txs[j].id = j
		}
		for k, p := range pairs {
			for e := 0; e < mult[k]; e++ {
				txs[p.j].ins = append(txs[p.j].ins, in{p.i, e})
			}
		}
		out = append(out, txs)
		k := 0
		for k < len(mult) {
			mult[k]++
			if mult[k] <= maxMult {
				break
			}
			mult[k] = 0
			k++
		}
		if k == len(mult) {
			break
		}
	}
	return out
}

func (e engine) Generate(rng *rand.Rand, tier string) []core.Case {
	var cases []core.Case
	var ops []string
	tagset := map[string]bool{}
	flush := func() {
		if len(ops) > 0 {
			var tags []string
			for t := range tagset {
				tags = append(tags, t)
			}
			sort.Strings(tags)
			cases = append(cases, core.Case{Ops: ops, Tags: tags})
			ops, tagset = nil, map[string]bool{}
		}
	}
	// The generator needs a store of its own to obtain real UnminedTxs outputs.
	gr := engine{}.NewRunner().(*runner)
	defer gr.Close()
	gr.rng = rng // generation-time randomness from the seed (Go's map order stays random: that is the point)

	allCredits := false
	emit := func(txs []txd, tags []string, maxDistinct int) {
		b, ok := build(txs)
		if !ok {
			return
		}
		reps := repsFor(len(txs))
		if tier == "thorough" && len(txs) > 2 {
			reps *= 3
		}
		txsS := fmtTxs(txs)
		kinds := []string{"sort", "unmined cr=" + creditModes[rng.Intn(len(creditModes))]}
		if allCredits {
			kinds = []string{"sort"}
			for _, m := range creditModes {
				kinds = append(kinds, "unmined cr="+m)
			}
		}
		for _, kind := range kinds {
			seen := map[string]bool{}
			var ls *liveStore
			if strings.HasPrefix(kind, "unmined") {
				gr.n++
				var err error
				ls, err = b.newStore(gr.database(), []byte(fmt.Sprintf("g%d", gr.n)), rng, strings.TrimPrefix(kind, "unmined cr="))
				if err != nil {
					ops = append(ops, fmt.Sprintf("%s txs=%s got=panic", kind, txsS))
					continue
				}
			}
			for i := 0; i < reps && len(seen) < maxDistinct; i++ {
				var o outcome
				if kind == "sort" {
					o = b.runSort(rng)
				} else {
					o = b.runUnmined(ls)
				}
				g := "panic"
				if o.panic == "" {
					ok := true
					for _, id := range o.ids {
						if id < 0 {
							ok = false
						}
					}
					if ok {
						g = fmtIDs(o.ids)
					} else {
						// nil / foreign entries: describe by an id that is not in the set
						var s []string
						for _, id := range o.ids {
							if id < 0 {
								s = append(s, "999999")
							} else {
								s = append(s, strconv.Itoa(id))
							}
						}
						g = strings.Join(s, ",")
					}
				}
				if !seen[g] {
					seen[g] = true
					ops = append(ops, fmt.Sprintf("%s txs=%s got=%s", kind, txsS, g))
				}
			}
		}
		for _, t := range tags {
			tagset[t] = true
		}
		if len(ops) >= 40 {
			flush()
		}
		// keep the generator's database small
		if gr.n >= 400 {
			gr.Close()
			gr.db, gr.n = nil, 0
		}
	}

	allCredits = true
	for _, s := range fixedShapes() {
		emit(relabel(rng, s), classify(s, map[string]bool{"fixed": true}), 24)
	}
	allCredits = false
	// exhaustive small scope
	exN, exM := 3, 2
	if tier == "thorough" {
		exN = 4
	}
	for n := 2; n <= exN; n++ {
		for _, s := range allShapes(n, exM) {
			emit(s, classify(s, map[string]bool{"exhaustive": true}), 24)
		}
	}
	if tier == "thorough" {
		for _, s := range allShapes(5, 1) {
			emit(s, classify(s, map[string]bool{"exhaustive": true}), 12)
		}
	}
	nRandom, maxN := 300, 12
	if tier == "thorough" {
		nRandom, maxN = 6000, 40
	}
	for k := 0; k < nRandom; k++ {
		m := maxN
		if k%3 == 0 {
			m = 5 // keep many graphs inside the membership bound
		}
		s, tags := randomShape(rng, m)
		md := 8
		if len(s) > 12 {
			md = 4
		}
		emit(relabel(rng, s), tags, md)
	}
	flush()
	// malformed stream: both sides must answer bad-op
	cases = append(cases, core.Case{Tags: []string{"malformed"}, Ops: []string{
		"sort txs=0:;0: got=0,0",
		"sort txs=0:1 got=0",
		"sort txs=0:;1:0.0 got=0;1",
		"sort txs=0:;1:0.0",
		"sort got=0",
		"sorted txs=0: got=0",
		"unmined txs=a: got=0",
		"unmined txs=0:1.x got=0",
		"unmined cr=some txs=0: got=0",
		"sort cr=all txs=0: got=0",
	}})
	return cases
}
