// Package crypto is the correspondence engine for C17: snacl (CryptoKey.Encrypt/Decrypt, SecretKey
// Marshal/Unmarshal/DeriveKey, NewSecretKey) and waddrmgr.Manager.Encrypt/Decrypt/Unlock on the REAL code.
//
// Real nonces, salts and keys come from crypto/rand, so the correspondence with the Lean model (which runs a toy
// but lawful AEAD/KDF) is structural: op lines carry key ids, lengths, bit positions, truncation lengths and
// passphrases; replies are canonical result kinds (`ok len=… eq=…`, `err=malformed|decrypt|invalidpass|kdf`,
// `panic`) plus, where the real output is deterministic (Marshal/Unmarshal), the exact bytes.
//
// Go-side oracles (independent of the Lean model) evaluate C17 itself on the real outputs: decrypt∘encrypt = id;
// tampered / truncated / extended / wrong-key / garbage input ⇒ error and no data; nonces never repeat and equal
// plaintexts never give equal ciphertexts; only the creating passphrase derives; tampered stored parameters are
// rejected; parameters round-trip byte for byte.
//
// `encpar k=<id> len=<n> g=<goroutines> per=<count>` runs g goroutines × per calls of CryptoKey.Encrypt of ONE
// plaintext under ONE key CONCURRENTLY (started together behind a barrier) on the real code: all g·per ciphertexts
// and all g·per 24-byte nonces must be pairwise distinct ("encrypting equal plaintexts twice never yields equal
// ciphertexts" for every schedule, not only the sequential one).  Reply `ok n=<total> distinct=<distinct cts>`.
// Every real nonce (sequential ops too) additionally goes through a structural freshness check: no two nonces of a
// run may share their first 16 bytes or any aligned 8-byte word (chance < N²·2⁻⁶³ for 24 fresh random bytes) — a
// "random prefix once + message counter" nonce is reported even when no race manifests.
package crypto

import (
	"bytes"
	"crypto/sha256"
	"encoding/binary"
	"encoding/hex"
	"errors"
	"fmt"
	"math"
	"math/big"
	"math/rand"
	"os"
	"path/filepath"
	"strconv"
	"strings"
	"sync"
	"time"

	"github.com/btcsuite/btcd/btcutil/hdkeychain"
	"github.com/btcsuite/btcd/chaincfg"
	"github.com/btcsuite/btcwallet/snacl"
	"github.com/btcsuite/btcwallet/waddrmgr"
	"github.com/btcsuite/btcwallet/walletdb"
	_ "github.com/btcsuite/btcwallet/walletdb/bdb"

	"verifharness/core"
)

type eng struct{}

func init() { core.Register(eng{}) }

func (eng) Name() string { return "crypto" }

// ------------------------------------------------------------------ generator

func hx(b []byte) string { return hex.EncodeToString(b) }

// scryptCheck mirrors the parameter check of x/crypto/scrypt.Key; used ONLY to keep the generator/runner from
// starting a derivation that would allocate gigabytes (the verdict itself always comes from the real code).
// returns "ok", "err" or "panic".
func scryptCheck(N, r, p int) string {
	const maxInt = int(^uint(0) >> 1)
	if N <= 1 || N&(N-1) != 0 {
		return "err"
	}
	if uint64(r)*uint64(p) >= 1<<30 {
		return "err"
	}
	if p == 0 {
		return "panic"
	}
	if r > maxInt/128/p || r > maxInt/256 {
		return "err"
	}
	if r == 0 {
		return "panic"
	}
	if N > maxInt/128/r {
		return "err"
	}
	return "ok"
}

func expensive(N, r, p int) bool {
	if scryptCheck(N, r, p) != "ok" {
		return false
	}
	prod := new(big.Int).Mul(big.NewInt(int64(N)), big.NewInt(int64(r)))
	prod.Mul(prod, big.NewInt(int64(p)))
	return prod.Cmp(big.NewInt(65536)) > 0
}

type gen struct {
	rng   *rand.Rand
	cases []core.Case
}

func (g *gen) add(tag string, ops []string) {
	g.cases = append(g.cases, core.Case{Ops: append([]string{"reset"}, ops...), Tags: []string{tag}})
}

// cipherCase: one ciphertext of plaintext length L: round trip, wrong keys, EVERY bit flip, EVERY truncation,
// extensions, nonce swap, second encryption of the same plaintext.
func (g *gen) cipherCase(L int, prefix string) {
	pat := g.rng.Intn(256)
	k := 1 + g.rng.Intn(5)
	k2 := k + 1 + g.rng.Intn(3)
	var ops []string
	encOp, decOp, kArg := "enc", "dec", fmt.Sprintf("k=%d", k)
	if prefix == "sk" {
		ops = append(ops, "sknew id=1 pass=70617373 N=16 R=8 P=1")
		encOp, decOp, kArg = "skenc", "skdec", "id=1"
	}
	ops = append(ops, fmt.Sprintf("%s %s len=%d pat=%d", encOp, kArg, L, pat))
	ops = append(ops, fmt.Sprintf("%s %s ct=0", decOp, kArg))
	ops = append(ops, fmt.Sprintf("dec k=%d ct=0", k2), "dec k=zero ct=0")
	n := L + 40
	for i := 0; i < 8*n; i++ {
		ops = append(ops, fmt.Sprintf("%s %s ct=0 flip=%d", decOp, kArg, i))
	}
	for j := 0; j < n; j++ {
		ops = append(ops, fmt.Sprintf("%s %s ct=0 trunc=%d", decOp, kArg, j))
	}
	ops = append(ops, fmt.Sprintf("%s %s ct=0 trunc=%d", decOp, kArg, n)) // not a truncation: still decrypts
	ops = append(ops, fmt.Sprintf("%s %s ct=0 ext=00", decOp, kArg))
	ops = append(ops, fmt.Sprintf("%s %s ct=0 ext=%s", decOp, kArg, hx(g.bytes(1+g.rng.Intn(20)))))
	// same plaintext again: ciphertexts must differ; nonce of one with box of the other must fail
	ops = append(ops, fmt.Sprintf("%s %s len=%d pat=%d", encOp, kArg, L, pat), "cmp a=0 b=1")
	ops = append(ops, fmt.Sprintf("%s %s ct=0 nonceof=1", decOp, kArg), fmt.Sprintf("%s %s ct=1 nonceof=0", decOp, kArg))
	ops = append(ops, fmt.Sprintf("%s %s ct=1", decOp, kArg))
	// a few combined tamperings
	for t := 0; t < 6; t++ {
		ops = append(ops, fmt.Sprintf("%s %s ct=0 flip=%d trunc=%d", decOp, kArg, g.rng.Intn(8*n), 1+g.rng.Intn(n)))
	}
	g.add(prefix+"cipher", ops)
}

func (g *gen) bytes(n int) []byte {
	b := make([]byte, n)
	g.rng.Read(b)
	return b
}

// parCase: concurrent encryptions of one plaintext under one key (op `encpar`), framed by sequential ones whose
// nonces take part in the same distinctness / freshness checks.
func (g *gen) parCase(goroutines, per int) {
	k := 1 + g.rng.Intn(5)
	L := g.rng.Intn(48)
	pat := g.rng.Intn(256)
	ops := []string{
		fmt.Sprintf("enc k=%d len=%d pat=%d", k, L, pat),
		fmt.Sprintf("encpar k=%d len=%d pat=%d g=%d per=%d", k, L, pat, goroutines, per),
		fmt.Sprintf("enc k=%d len=%d pat=%d", k, L, pat),
		"cmp a=0 b=1", fmt.Sprintf("dec k=%d ct=0", k), fmt.Sprintf("dec k=%d ct=1", k),
		// malformed variants: answered bad-op by both sides
		fmt.Sprintf("encpar k=%d len=%d pat=%d g=0 per=%d", k, L, pat, per),
		fmt.Sprintf("encpar k=%d len=%d pat=%d g=%d per=0", k, L, pat, goroutines),
		fmt.Sprintf("encpar k=%d len=%d pat=%d g=%d", k, L, pat, goroutines),
		fmt.Sprintf("encpar k=%d len=%d pat=%d g=65 per=1", k, L, pat),
		fmt.Sprintf("encpar k=%d len=5000 pat=%d g=2 per=2", k, pat),
		fmt.Sprintf("encpar k=%d len=%d pat=%d g=64 per=100000", k, L, pat),
		fmt.Sprintf("encpar k=x len=%d pat=%d g=2 per=2", L, pat),
	}
	g.add("concurrent", ops)
}

func (g *gen) garbageCase(maxLen int) {
	var ops []string
	for l := 0; l <= maxLen; l++ {
		ops = append(ops, fmt.Sprintf("decraw k=%d hex=%s", 1+g.rng.Intn(3), hx(g.bytes(l))))
		if l%7 == 0 {
			ops = append(ops, fmt.Sprintf("decraw k=zero hex=%s", hx(make([]byte, l))))
		}
	}
	g.add("garbage", ops)
}

// nearMisses of a passphrase: every single-bit flip (bounded), one-char changes, every proper prefix, trailing /
// leading NUL, empty, doubled, case swap, trailing space/newline.
func (g *gen) nearMisses(p []byte, allBits bool) [][]byte {
	var out [][]byte
	nb := 8 * len(p)
	for i := 0; i < nb; i++ {
		if !allBits && nb > 64 && g.rng.Intn(nb) >= 64 {
			continue
		}
		q := append([]byte{}, p...)
		q[i/8] ^= 1 << (i % 8)
		out = append(out, q)
	}
	for i := range p {
		q := append([]byte{}, p...)
		q[i] = byte(g.rng.Intn(256))
		if !bytes.Equal(q, p) {
			out = append(out, q)
		}
	}
	for i := 0; i < len(p); i++ {
		out = append(out, append([]byte{}, p[:i]...))
	}
	out = append(out, append(append([]byte{}, p...), 0), append([]byte{0}, p...), []byte{}, append(append([]byte{}, p...), p...),
		append(append([]byte{}, p...), ' '), append(append([]byte{}, p...), '\n'),
		bytes.ToUpper(p), bytes.ToLower(p), append(append([]byte{}, p...), 0, 0),
		append([]byte{' '}, p...), append([]byte{'\t'}, p...), append([]byte{'\n'}, p...), append([]byte{'\r'}, p...),
		append(append([]byte{}, p...), '\t'), append(append([]byte{}, p...), '\r'), append(append([]byte{}, p...), '\r', '\n'),
		append(append([]byte{' '}, p...), ' '), append(append([]byte{}, p...), 0xc2, 0xa0), append(append([]byte{}, p...), 0x0b), append(append([]byte{}, p...), 0x0c),
		append(append([]byte{}, p...), 0x85), bytes.TrimSpace(p), bytes.TrimLeft(p, " \t\r\n"), bytes.TrimRight(p, " \t\r\n"))
	for i := 1; i < len(p) && i <= 4; i++ {
		out = append(out, append([]byte{}, p[i:]...)) // suffixes
	}
	var res [][]byte
	for _, q := range out {
		if !bytes.Equal(q, p) {
			res = append(res, q)
		}
	}
	return res
}

func (g *gen) passCase(p []byte, allBits bool) {
	ops := []string{
		fmt.Sprintf("sknew id=1 pass=%s N=16 R=8 P=1", hx(p)),
		"skmarshal id=1",
		"skenc id=1 len=17 pat=9",
		fmt.Sprintf("skderive id=1 pass=%s via=marshal", hx(p)),
		"skdec id=1 ct=0",
		fmt.Sprintf("skderive id=1 pass=%s via=direct", hx(p)),
		"skdec id=1 ct=0",
	}
	for i, q := range g.nearMisses(p, allBits) {
		via := "marshal"
		if i%2 == 1 {
			via = "direct"
		}
		ops = append(ops, fmt.Sprintf("skderive id=1 pass=%s via=%s", hx(q), via))
		if i%5 == 0 {
			// after a rejected passphrase the object must not decrypt what the right key sealed
			ops = append(ops, "skdec id=1 ct=0")
		}
		if i%9 == 0 {
			ops = append(ops, fmt.Sprintf("skderive id=1 pass=%s via=%s", hx(p), via), "skdec id=1 ct=0")
		}
	}
	ops = append(ops, fmt.Sprintf("skderive id=1 pass=%s via=direct", hx(p)), "skdec id=1 ct=0")
	g.add("passphrase", ops)
}

// every byte of the 88-byte stored parameters tampered (digest bytes catch "compare digest[:16]").
func (g *gen) paramTamperCase(p []byte) {
	ops := []string{fmt.Sprintf("sknew id=1 pass=%s N=16 R=8 P=1", hx(p)), "skmarshal id=1"}
	for i := 0; i < 88; i++ {
		vals := []int{1, 0x80, 1 + g.rng.Intn(255)}
		if i >= 32 && i < 64 {
			vals = []int{1, 2, 4, 8, 16, 32, 64, 128, 255}
		}
		for _, v := range vals {
			ops = append(ops, fmt.Sprintf("skderive id=1 pass=%s via=marshal xorbyte=%d xorval=%d", hx(p), i, v))
		}
	}
	ops = append(ops, fmt.Sprintf("skderive id=1 pass=%s via=marshal", hx(p)))
	g.add("param-tamper", ops)
}

var extremeInts = []int64{0, 1, -1, 2, 3, 8, 15, 16, 17, 255, 256, 16384, 1 << 20, 1<<30 - 1, 1 << 30, 1 << 31, 1<<32 - 1, 1 << 32,
	1 << 33, 1 << 34, 1 << 40, 1 << 55, 1<<55 - 1, 1 << 56, 1 << 62, math.MaxInt64, math.MinInt64, math.MinInt64 + 1, -2, -16, -(1 << 30), -(1 << 34), -(1 << 62)}

func (g *gen) anyInt() int64 {
	switch g.rng.Intn(3) {
	case 0:
		return extremeInts[g.rng.Intn(len(extremeInts))]
	case 1:
		return int64(g.rng.Uint64())
	default:
		return int64(g.rng.Uint64()) >> uint(g.rng.Intn(64))
	}
}

func (g *gen) encodingCase(n int, exhaustiveLens bool) {
	var ops []string
	for i := 0; i < n; i++ {
		ops = append(ops, fmt.Sprintf("skparams salt=%s digest=%s N=%d R=%d P=%d", hx(g.bytes(32)), hx(g.bytes(32)), g.anyInt(), g.anyInt(), g.anyInt()))
	}
	// all three fields through every extreme value
	for _, v := range extremeInts {
		ops = append(ops, fmt.Sprintf("skparams salt=%s digest=%s N=%d R=%d P=%d", hx(g.bytes(32)), hx(g.bytes(32)), v, v+0, v))
		ops = append(ops, fmt.Sprintf("skparams salt=%s digest=%s N=%d R=%d P=%d", hx(make([]byte, 32)), hx(make([]byte, 32)), v, 1, 2))
		ops = append(ops, fmt.Sprintf("skparams salt=%s digest=%s N=%d R=%d P=%d", hx(make([]byte, 32)), hx(make([]byte, 32)), 1, v, 2))
		ops = append(ops, fmt.Sprintf("skparams salt=%s digest=%s N=%d R=%d P=%d", hx(make([]byte, 32)), hx(make([]byte, 32)), 1, 2, v))
	}
	maxLen := 130
	if exhaustiveLens {
		maxLen = 400
	}
	for l := 0; l <= maxLen; l++ {
		ops = append(ops, fmt.Sprintf("skunmarshal hex=%s", hx(g.bytes(l))))
	}
	for i := 0; i < n; i++ {
		b := g.bytes(88)
		if i%3 == 0 { // sign-boundary encodings
			for _, off := range []int{64, 72, 80} {
				binary.LittleEndian.PutUint64(b[off:], uint64(extremeInts[g.rng.Intn(len(extremeInts))]))
			}
		}
		ops = append(ops, fmt.Sprintf("skunmarshal hex=%s", hx(b)))
	}
	g.add("encoding", ops)
}

// NewSecretKey / DeriveKey with parameters scrypt rejects (or panics on), and cheap valid ones.
func (g *gen) kdfParamCase(n int) {
	Ns := []int64{0, 1, 2, 3, 4, 15, 16, 17, 32, 1024, -16, 1 << 62, math.MinInt64, math.MaxInt64, 1 << 20}
	Rs := []int64{0, 1, 2, 8, -1, 1 << 29, 1 << 30, 1 << 34, 1 << 55, 1 << 56, 1 << 62, math.MinInt64, math.MaxInt64, -(1 << 30)}
	Ps := []int64{0, 1, 2, -1, 1 << 29, 1 << 30, 1 << 34, 1 << 62, math.MinInt64, math.MaxInt64, -(1 << 34)}
	var ops []string
	id := 1
	emit := func(N, R, P int64) {
		ops = append(ops, fmt.Sprintf("sknew id=%d pass=6162 N=%d R=%d P=%d", id, N, R, P))
		ops = append(ops, fmt.Sprintf("skderive id=%d pass=6162 via=marshal", id)) // bad-op when sknew failed
		id++
	}
	for _, N := range Ns {
		for _, R := range Rs {
			emit(N, R, Ps[g.rng.Intn(len(Ps))])
		}
	}
	for _, R := range Rs {
		for _, P := range Ps {
			emit(16, R, P)
		}
	}
	for i := 0; i < n; i++ {
		emit(Ns[g.rng.Intn(len(Ns))], g.anyInt(), g.anyInt())
		emit(int64(1)<<uint(g.rng.Intn(8)), int64(g.rng.Intn(10)), int64(g.rng.Intn(5)))
	}
	g.add("kdf-params", ops)
}

func (g *gen) mgrCase(watchOnly bool, exhaustiveFlips bool) {
	pub := g.bytes(1 + g.rng.Intn(12))
	priv := g.bytes(1 + g.rng.Intn(12))
	wo := 0
	if watchOnly {
		wo = 1
	}
	ops := []string{fmt.Sprintf("mgrnew wo=%d pub=%s priv=%s", wo, hx(pub), hx(priv))}
	nct := 0
	encAll := func() []int {
		var made []int
		for kt := 0; kt <= 3; kt++ {
			ops = append(ops, fmt.Sprintf("mgrenc kt=%d len=%d pat=%d", kt, g.rng.Intn(70), g.rng.Intn(256)))
			made = append(made, kt)
		}
		return made
	}
	// The generator cannot know which encryptions succeed without the semantics; it tracks them the same way the
	// code does: kt 2 always; kt 0/1 only when unlocked and not watch-only; kt 3 never.
	locked := true
	type ctInfo struct{ idx, kt, n int }
	var cts []ctInfo
	enc := func(kt, l int) {
		ops = append(ops, fmt.Sprintf("mgrenc kt=%d len=%d pat=%d", kt, l, g.rng.Intn(256)))
		okay := kt == 2 || (kt <= 1 && !locked && !watchOnly)
		if okay {
			cts = append(cts, ctInfo{nct, kt, l + 40})
			nct++
		}
	}
	_ = encAll
	probe := func() {
		for _, c := range cts {
			for kt := 0; kt <= 3; kt++ {
				ops = append(ops, fmt.Sprintf("mgrdec kt=%d ct=%d", kt, c.idx))
			}
			ops = append(ops, fmt.Sprintf("dec k=zero ct=%d", c.idx))
		}
	}
	// a "legacy row": sealed directly under the all-zero key; Decrypt(CKTScript) must still read it while unlocked
	// (read-side fallback), refuse it while locked, and refuse every tampering of it
	legacyLen := g.rng.Intn(40)
	ops = append(ops, fmt.Sprintf("enc k=zero len=%d pat=%d", legacyLen, g.rng.Intn(256)))
	cts = append(cts, ctInfo{nct, 1, legacyLen + 40})
	nct++
	for kt := 0; kt <= 3; kt++ {
		enc(kt, g.rng.Intn(70))
	}
	enc(2, 0)
	probe()
	// wrong private passphrases (near misses), manager must stay locked
	miss := g.nearMisses(priv, false)
	g.rng.Shuffle(len(miss), func(i, j int) { miss[i], miss[j] = miss[j], miss[i] })
	if len(miss) > 12 {
		miss = miss[:12]
	}
	for _, q := range miss {
		ops = append(ops, fmt.Sprintf("mgrunlock pass=%s", hx(q)), "mgrenc kt=0 len=1 pat=1")
	}
	ops = append(ops, fmt.Sprintf("mgrunlock pass=%s", hx(priv)))
	if !watchOnly {
		locked = false
	}
	for kt := 0; kt <= 3; kt++ {
		enc(kt, g.rng.Intn(70))
		enc(kt, 0)
	}
	probe()
	// tampering through the manager
	for _, c := range cts {
		flips := []int{0, 8*24 - 1, 8 * 24, 8*40 - 1, 8*c.n - 1}
		if exhaustiveFlips {
			flips = nil
			for i := 0; i < 8*c.n; i++ {
				flips = append(flips, i)
			}
		} else {
			for t := 0; t < 10; t++ {
				flips = append(flips, g.rng.Intn(8*c.n))
			}
		}
		for _, i := range flips {
			ops = append(ops, fmt.Sprintf("mgrdec kt=%d ct=%d flip=%d", c.kt, c.idx, i))
		}
		for _, j := range []int{0, 1, 23, 24, 25, 39, 40, c.n - 1} {
			if j < c.n {
				ops = append(ops, fmt.Sprintf("mgrdec kt=%d ct=%d trunc=%d", c.kt, c.idx, j))
			}
		}
	}
	// unlock again while unlocked: right pass keeps it unlocked, wrong pass locks it
	ops = append(ops, fmt.Sprintf("mgrunlock pass=%s", hx(priv)), "mgrenc kt=0 len=2 pat=2")
	if !locked {
		cts = append(cts, ctInfo{nct, 0, 42})
		nct++
	}
	if len(miss) > 0 {
		ops = append(ops, fmt.Sprintf("mgrunlock pass=%s", hx(miss[0])), "mgrenc kt=0 len=2 pat=2")
		locked = true
	}
	// quirk: the NUL-padded private passphrase is accepted while locked but refused (and locks) while unlocked,
	// because the unlocked path compares the salted sha512 of the passphrase, not the derived key
	ops = append(ops, fmt.Sprintf("mgrunlock pass=%s", hx(priv)), fmt.Sprintf("mgrunlock pass=%s00", hx(priv)), "mgrenc kt=0 len=3 pat=3",
		fmt.Sprintf("mgrunlock pass=%s00", hx(priv)), "mgrenc kt=0 len=3 pat=3")
	if !watchOnly {
		locked = false
		cts = append(cts, ctInfo{nct, 0, 43})
		nct++
	}
	probe()
	ops = append(ops, fmt.Sprintf("mgrunlock pass=%s", hx(priv)))
	if !watchOnly {
		locked = false
	}
	probe()
	// ChangePassphrase (private) while UNLOCKED: the new passphrase must be the one the still-unlocked manager
	// accepts, the old one must be refused (and locks); then while LOCKED; then the public one.
	priv2 := append(append([]byte{}, priv...), 'x')
	priv3 := g.bytes(1 + g.rng.Intn(10))
	// two Unlock calls guarantee "unlocked, cached hash = hash(priv)" whatever the state was (the first may lock)
	ops = append(ops, fmt.Sprintf("mgrunlock pass=%s", hx(priv)), fmt.Sprintf("mgrunlock pass=%s", hx(priv)))
	if len(miss) > 0 {
		ops = append(ops, fmt.Sprintf("mgrchpass priv=1 old=%s new=%s", hx(miss[0]), hx(priv2)))
	}
	ops = append(ops, fmt.Sprintf("mgrchpass priv=1 old=%s new=%s", hx(priv), hx(priv2)),
		fmt.Sprintf("mgrunlock pass=%s", hx(priv2)), "mgrenc kt=0 len=4 pat=4")
	if !watchOnly {
		cts = append(cts, ctInfo{nct, 0, 44})
		nct++
	}
	ops = append(ops, fmt.Sprintf("mgrunlock pass=%s", hx(priv)), "mgrenc kt=0 len=4 pat=4",
		fmt.Sprintf("mgrunlock pass=%s", hx(priv)), fmt.Sprintf("mgrunlock pass=%s", hx(priv2)))
	probe()
	ops = append(ops, "mgrlock", "mgrlock")
	locked = true
	if !watchOnly {
		priv = priv2
	}
	ops = append(ops, fmt.Sprintf("mgrchpass priv=1 old=%s new=%s", hx(priv), hx(priv3)),
		fmt.Sprintf("mgrunlock pass=%s", hx(priv)), fmt.Sprintf("mgrunlock pass=%s", hx(priv3)))
	if !watchOnly {
		priv = priv3
		locked = false
	}
	probe()
	ops = append(ops, "mgrlock")
	locked = true
	pub2 := g.bytes(1 + g.rng.Intn(10))
	ops = append(ops, fmt.Sprintf("mgrchpass priv=0 old=%s00ff new=%s", hx(pub), hx(pub2)),
		fmt.Sprintf("mgrchpass priv=0 old=%s new=%s", hx(pub), hx(pub2)),
		fmt.Sprintf("mgropen pub=%s", hx(pub)), fmt.Sprintf("mgropen pub=%s", hx(pub2)))
	pub = pub2
	probe()
	ops = append(ops, fmt.Sprintf("mgrunlock pass=%s", hx(priv)))
	if !watchOnly {
		locked = false
	}
	probe()
	ops = append(ops, "mgrlock", "mgrlock")
	locked = true
	probe()
	// reopen: wrong public passphrases, then the right one; old ciphertexts must still decrypt (restart)
	pm := g.nearMisses(pub, false)
	g.rng.Shuffle(len(pm), func(i, j int) { pm[i], pm[j] = pm[j], pm[i] })
	if len(pm) > 6 {
		pm = pm[:6]
	}
	for _, q := range pm {
		ops = append(ops, fmt.Sprintf("mgropen pub=%s", hx(q)), "mgrenc kt=2 len=1 pat=1")
	}
	ops = append(ops, fmt.Sprintf("mgropen pub=%s", hx(pub)))
	probe()
	ops = append(ops, fmt.Sprintf("mgrunlock pass=%s", hx(priv)))
	probe()
	tag := "manager"
	if watchOnly {
		tag = "manager-watchonly"
	}
	g.add(tag, ops)
}

func (eng) Generate(rng *rand.Rand, tier string) []core.Case {
	g := &gen{rng: rng}
	thorough := tier == "thorough"
	maxL := 64
	if thorough {
		maxL = 300
	}
	for L := 0; L <= maxL; L++ {
		g.cipherCase(L, "")
	}
	for _, L := range []int{0, 1, 15, 16, 17, 31, 32, 33, 63, 64, 65} {
		g.cipherCase(L, "sk")
	}
	// concurrent Encrypt calls (8 × 20 000 showed duplicates in every run of the C17-5 demo, also with GOMAXPROCS=1)
	g.parCase(8, 20000)
	g.parCase(16, 10000)
	g.parCase(2+rng.Intn(7), 20000)
	if thorough {
		for i := 0; i < 6; i++ {
			g.parCase(2+rng.Intn(15), 30000)
		}
	}
	g.garbageCase(80)
	if thorough {
		for i := 0; i < 20; i++ {
			g.garbageCase(200)
		}
	}
	passes := [][]byte{[]byte("a"), []byte("password"), []byte("Tr0ub4dor&3"), {0}, []byte("p\x00q"), []byte("pässwörd"), []byte(" lead"), []byte("  hunter2\n"), []byte("trail \r\n"), g.bytes(24)}
	for _, p := range passes {
		g.passCase(p, true)
	}
	g.passCase([]byte{}, true)
	g.passCase(g.bytes(40), false)
	g.passCase(g.bytes(64), false)
	g.passCase(g.bytes(65), false)
	g.passCase(g.bytes(70), false)
	np := 3
	if thorough {
		np = 40
		for i := 0; i < 30; i++ {
			g.passCase(g.bytes(1+rng.Intn(20)), true)
		}
		g.passCase(g.bytes(300), false)
	}
	for i := 0; i < np; i++ {
		g.paramTamperCase(g.bytes(rng.Intn(16)))
	}
	ne := 60
	if thorough {
		ne = 500
	}
	g.encodingCase(ne, thorough)
	g.kdfParamCase(ne)
	nm := 3
	if thorough {
		nm = 25
	}
	for i := 0; i < nm; i++ {
		g.mgrCase(false, thorough && i < 3)
	}
	g.mgrCase(true, false)
	if thorough {
		g.mgrCase(true, false)
	}
	return g.cases
}

// ------------------------------------------------------------------ runner

type ctEnt struct {
	ct, pt []byte
	key    [32]byte // key it was sealed under (for the wrong-key oracle)
	// mgr: sealed by Manager.Encrypt — the real key is not observable; `key` is then a tag (generation, key type)
	mgr bool
}

type skEnt struct {
	cur  *snacl.SecretKey
	orig [32]byte
	pass []byte
}

type runner struct {
	keys   map[string]*snacl.CryptoKey
	cts    []ctEnt
	nonces map[[24]byte]bool
	// structural freshness of the real nonces: first 16 bytes and the three aligned 8-byte words seen so far
	pre16 map[[16]byte]bool
	word8 [3]map[[8]byte]bool
	sks   map[int]*skEnt

	dir     string
	db      walletdb.DB
	mgr     *waddrmgr.Manager
	mgrPriv []byte
	mgrPub  []byte
	mgrN    int
	// passphrase that last unlocked the manager (nil when locked)
	mgrUnlockedWith []byte
	// what each key type of the current manager must be able to open (oracle bookkeeping)
}

func freshRunner() runner {
	return runner{keys: map[string]*snacl.CryptoKey{}, nonces: map[[24]byte]bool{}, sks: map[int]*skEnt{},
		pre16: map[[16]byte]bool{}, word8: [3]map[[8]byte]bool{{}, {}, {}}}
}

func (eng) NewRunner() core.Runner { r := freshRunner(); return &r }

// noteNonce records a real nonce and evaluates the freshness checks on it. reuse: the full 24 bytes were seen
// before; notFresh: it shares its first 16 bytes or an aligned 8-byte word with an earlier nonce of the run.
func (r *runner) noteNonce(ct []byte) (reuse bool, notFresh string) {
	if len(ct) < 24 {
		return false, ""
	}
	var n [24]byte
	copy(n[:], ct)
	reuse = r.nonces[n]
	r.nonces[n] = true
	if reuse {
		return true, ""
	}
	var p [16]byte
	copy(p[:], ct)
	if r.pre16[p] {
		notFresh = "the first 16 bytes of a nonce equal those of an earlier nonce"
	}
	r.pre16[p] = true
	for w := 0; w < 3; w++ {
		var x [8]byte
		copy(x[:], ct[8*w:])
		if r.word8[w][x] && notFresh == "" {
			notFresh = fmt.Sprintf("bytes %d..%d of a nonce equal those of an earlier nonce", 8*w, 8*w+7)
		}
		r.word8[w][x] = true
	}
	return false, notFresh
}

func (r *runner) closeMgr() {
	if r.mgr != nil {
		r.mgr.Close()
		r.mgr = nil
	}
	if r.db != nil {
		r.db.Close()
		r.db = nil
	}
	if r.dir != "" {
		os.RemoveAll(r.dir)
		r.dir = ""
	}
}

func (r *runner) Close() { r.closeMgr() }

func plain(l, pat int) []byte {
	b := make([]byte, l)
	for i := range b {
		b[i] = byte(pat + i*7 + i/5)
	}
	return b
}

func (r *runner) key(id string) (*snacl.CryptoKey, bool) {
	if id == "zero" {
		return &snacl.CryptoKey{}, true
	}
	if _, err := strconv.Atoi(id); err != nil || id == "" {
		return nil, false
	}
	if k, ok := r.keys[id]; ok {
		return k, true
	}
	k, err := snacl.GenerateCryptoKey()
	if err != nil {
		panic(err)
	}
	r.keys[id] = k
	return k, true
}

func errKind(err error) string {
	switch {
	case errors.Is(err, snacl.ErrMalformed):
		return "err=malformed"
	case errors.Is(err, snacl.ErrDecryptFailed):
		return "err=decrypt"
	case errors.Is(err, snacl.ErrInvalidPassword):
		return "err=invalidpass"
	case strings.HasPrefix(err.Error(), "scrypt:"):
		return "err=kdf"
	}
	return "err=other:" + err.Error()
}

func mgrErrKind(err error) string {
	var me waddrmgr.ManagerError
	if !errors.As(err, &me) {
		return "err=other:" + err.Error()
	}
	switch me.ErrorCode {
	case waddrmgr.ErrLocked:
		return "err=locked"
	case waddrmgr.ErrInvalidKeyType:
		return "err=invalidkeytype"
	case waddrmgr.ErrWrongPassphrase:
		return "err=wrongpass"
	case waddrmgr.ErrWatchingOnly:
		return "err=watchonly"
	case waddrmgr.ErrCrypto:
		if me.Err != nil {
			return "err=crypto:" + strings.TrimPrefix(errKind(me.Err), "err=")
		}
		return "err=crypto:nil"
	}
	return "err=code:" + me.ErrorCode.String()
}

// hmacBlock is the HMAC-SHA256 key block of a password (keys > 64 bytes are hashed; zero padded to 64): the only
// way a password enters scrypt/PBKDF2. Used to CLASSIFY an accepted wrong passphrase (stable finding key).
func hmacBlock(p []byte) [64]byte {
	var b [64]byte
	if len(p) > 64 {
		h := sha256.Sum256(p)
		copy(b[:], h[:])
	} else {
		copy(b[:], p)
	}
	return b
}

// KnownNULKey is the stable key of the defect present in the unchanged tree: DeriveKey (hence Open / Unlock /
// ChangePassphrase) accepts every passphrase with the same HMAC key block as the creating one — trailing NUL bytes
// up to 64 bytes, and the sha256 of a longer passphrase.
const KnownNULKey = "DeriveKey.trailing-NUL-passphrase"

func wrongPassKey(site string, got, want []byte) string {
	if hmacBlock(got) == hmacBlock(want) {
		return KnownNULKey
	}
	return site + ".wrong-pass-accepted"
}

func viol(key, text string) string { return fmt.Sprintf("C17 key=%s: %s", key, text) }

// tamper applies flip/trunc/ext/nonceof; tampered reports whether the result differs from c.
func (r *runner) tamper(kv map[string]string, c []byte) (out []byte, ok bool) {
	out = append([]byte{}, c...)
	if s, has := kv["flip"]; has {
		i, err := strconv.Atoi(s)
		if err != nil || i < 0 || i >= 8*len(out) {
			return nil, false
		}
		out[i/8] ^= 1 << (i % 8)
	}
	if s, has := kv["trunc"]; has {
		j, err := strconv.Atoi(s)
		if err != nil || j < 0 || j > len(out) {
			return nil, false
		}
		out = out[:j]
	}
	if s, has := kv["ext"]; has {
		e, err := hex.DecodeString(s)
		if err != nil {
			return nil, false
		}
		out = append(out, e...)
	}
	if s, has := kv["nonceof"]; has {
		j, err := strconv.Atoi(s)
		if err != nil || j < 0 || j >= len(r.cts) {
			return nil, false
		}
		n2 := r.cts[j].ct
		if len(n2) > 24 {
			n2 = n2[:24]
		}
		rest := []byte{}
		if len(out) > 24 {
			rest = out[24:]
		}
		out = append(append([]byte{}, n2...), rest...)
	}
	return out, true
}

// recordCt stores a fresh ciphertext and runs the encryption oracles.
func (r *runner) recordCt(ct, pt []byte, key [32]byte, isMgr bool) (string, string) {
	var v []string
	if len(ct) != len(pt)+snacl.NonceSize+snacl.Overhead {
		v = append(v, viol("encrypt.length", fmt.Sprintf("ciphertext length %d for plaintext length %d", len(ct), len(pt))))
	}
	if reuse, notFresh := r.noteNonce(ct); reuse {
		v = append(v, viol("encrypt.nonce-reuse", "nonce repeated within one run"))
	} else if notFresh != "" {
		v = append(v, viol("encrypt.nonce-not-fresh-random", notFresh+" (24 fresh random bytes per call do that with probability < 2^-60: the nonce is not drawn afresh)"))
	}
	for _, e := range r.cts {
		if bytes.Equal(e.ct, ct) {
			v = append(v, viol("encrypt.nonce-reuse", "two encryptions produced equal ciphertexts"))
			break
		}
	}
	if len(pt) >= 8 && bytes.Contains(ct, pt) {
		v = append(v, viol("encrypt.plaintext-visible", "ciphertext contains the plaintext"))
	}
	r.cts = append(r.cts, ctEnt{ct: ct, pt: pt, key: key, mgr: isMgr})
	return fmt.Sprintf("ok ct=%d len=%d", len(r.cts)-1, len(ct)), strings.Join(v, "; ")
}

// judgeDec: reply + oracle for a decryption of (possibly tampered) c' of entry e under key `key`.
func judgeDec(out []byte, err error, e ctEnt, cPrime []byte, key [32]byte, kind func(error) string) (string, string) {
	genuine := bytes.Equal(cPrime, e.ct) && key == e.key
	if err != nil {
		v := ""
		if out != nil {
			v = viol("decrypt.data-with-error", "data returned together with an error")
		}
		if genuine {
			v = viol("decrypt.roundtrip", "genuine ciphertext under its own key rejected: "+err.Error())
		}
		return kind(err), v
	}
	eq := 0
	if bytes.Equal(out, e.pt) {
		eq = 1
	}
	v := ""
	switch {
	case genuine && eq == 0:
		v = viol("decrypt.roundtrip", "decrypt(encrypt(m)) != m")
	case !genuine && key != e.key:
		v = viol("decrypt.wrong-key-accepted", fmt.Sprintf("ciphertext opened under a different key (%d bytes returned)", len(out)))
	case !genuine:
		v = viol("decrypt.tamper-accepted", fmt.Sprintf("altered/truncated ciphertext (len %d→%d) decrypted to %d bytes", len(e.ct), len(cPrime), len(out)))
	}
	return fmt.Sprintf("ok len=%d eq=%d", len(out), eq), v
}

func atoi(kv map[string]string, k string) (int, bool) {
	s, ok := kv[k]
	if !ok {
		return 0, false
	}
	n, err := strconv.Atoi(s)
	if err != nil || n < 0 {
		return 0, false
	}
	return n, true
}

func aint(kv map[string]string, k string) (int, bool) {
	s, ok := kv[k]
	if !ok {
		return 0, false
	}
	n, err := strconv.ParseInt(s, 10, 64)
	if err != nil {
		return 0, false
	}
	return int(n), true
}

func ahex(kv map[string]string, k string) ([]byte, bool) {
	s, ok := kv[k]
	if !ok {
		return nil, false
	}
	b, err := hex.DecodeString(s)
	if err != nil || strings.ToLower(s) != s {
		return nil, false
	}
	return b, true
}

func keyState(cur *snacl.CryptoKey, orig [32]byte) string {
	switch {
	case [32]byte(*cur) == orig:
		return "same"
	case [32]byte(*cur) == [32]byte{}:
		return "zero"
	}
	return "other"
}

// decodeInt64LE: independent decoding of the stored integer fields (no encoding/binary): two's complement via big.Int.
func decodeInt64LE(b []byte) string {
	v := new(big.Int)
	for i := 7; i >= 0; i-- {
		v.Lsh(v, 8)
		v.Or(v, big.NewInt(int64(b[i])))
	}
	if v.Bit(63) == 1 {
		v.Sub(v, new(big.Int).Lsh(big.NewInt(1), 64))
	}
	return v.String()
}

func (r *runner) Exec(op string) (string, string) {
	name, kv := core.KV(op)
	switch name {
	case "reset":
		if len(strings.Fields(op)) != 1 {
			return "bad-op", ""
		}
		r.closeMgr()
		*r = freshRunner()
		return "ok", ""

	case "enc":
		k, ok1 := r.key(kv["k"])
		l, ok2 := atoi(kv, "len")
		pat, ok3 := atoi(kv, "pat")
		if !ok1 || !ok2 || !ok3 {
			return "bad-op", ""
		}
		pt := plain(l, pat)
		ct, err := k.Encrypt(pt)
		if err != nil {
			return errKind(err), ""
		}
		return r.recordCt(ct, pt, *k, false)

	case "encpar":
		k, ok1 := r.key(kv["k"])
		l, ok2 := atoi(kv, "len")
		pat, ok3 := atoi(kv, "pat")
		gn, ok4 := atoi(kv, "g")
		per, ok5 := atoi(kv, "per")
		if !ok1 || !ok2 || !ok3 || !ok4 || !ok5 || gn < 1 || gn > 64 || per < 1 || per > 100000 || gn*per > 1000000 || l > 4096 {
			return "bad-op", ""
		}
		return r.encPar(k, plain(l, pat), gn, per)

	case "dec":
		k, ok1 := r.key(kv["k"])
		ci, ok2 := atoi(kv, "ct")
		if !ok1 || !ok2 || ci >= len(r.cts) {
			return "bad-op", ""
		}
		e := r.cts[ci]
		c2, ok := r.tamper(kv, e.ct)
		if !ok {
			return "bad-op", ""
		}
		out, err := k.Decrypt(append([]byte{}, c2...))
		if e.mgr {
			// sealed by the manager under a key we cannot see (CKTScript is the all-zero key, DESIGN §7 O1):
			// reply only, the comparison with the model decides.
			if err != nil {
				return errKind(err), ""
			}
			v := ""
			if *k == (snacl.CryptoKey{}) {
				// nothing the manager seals may open under the publicly known all-zero key (DESIGN §7 O1, fixed by
				// /repo b81a3ff): such data is bound to no passphrase at all
				v = viol("manager.sealed-under-zero-key", fmt.Sprintf("ciphertext sealed by Manager.Encrypt(key type %d) opens under the all-zero key", e.key[1]))
			}
			return fmt.Sprintf("ok len=%d eq=%d", len(out), b2i(bytes.Equal(out, e.pt))), v
		}
		return judgeDec(out, err, e, c2, *k, errKind)

	case "decraw":
		k, ok1 := r.key(kv["k"])
		c, ok2 := ahex(kv, "hex")
		if !ok1 || !ok2 {
			return "bad-op", ""
		}
		out, err := k.Decrypt(c)
		if err != nil {
			return errKind(err), ""
		}
		return fmt.Sprintf("ok len=%d eq=%d", len(out), b2i(len(out) == 0)),
			viol("decrypt.garbage-accepted", fmt.Sprintf("%d arbitrary bytes decrypted", len(c)))

	case "cmp":
		a, ok1 := atoi(kv, "a")
		b, ok2 := atoi(kv, "b")
		if !ok1 || !ok2 || a >= len(r.cts) || b >= len(r.cts) {
			return "bad-op", ""
		}
		ca, cb := r.cts[a].ct, r.cts[b].ct
		eq := bytes.Equal(ca, cb)
		neq := bytes.Equal(firstN(ca, 24), firstN(cb, 24))
		v := ""
		if a != b && (eq || neq) {
			v = viol("encrypt.nonce-reuse", "two encryptions share nonce/ciphertext")
		}
		return fmt.Sprintf("eq=%d nonceeq=%d", b2i(eq), b2i(neq)), v

	case "sknew":
		id, ok1 := atoi(kv, "id")
		pass, ok2 := ahex(kv, "pass")
		N, ok3 := aint(kv, "N")
		R, ok4 := aint(kv, "R")
		P, ok5 := aint(kv, "P")
		if !(ok1 && ok2 && ok3 && ok4 && ok5) {
			return "bad-op", ""
		}
		if expensive(N, R, P) {
			return "skipped", ""
		}
		p := append([]byte{}, pass...)
		sk, err := snacl.NewSecretKey(&p, N, R, P)
		if err != nil {
			return errKind(err), ""
		}
		v := ""
		if sha256.Sum256(sk.Key[:]) != sk.Parameters.Digest {
			v = viol("newsecretkey.digest", "stored digest is not sha256 of the derived key")
		}
		r.sks[id] = &skEnt{cur: sk, orig: *sk.Key, pass: pass}
		if len(pass) > 64 {
			// Go-only probe (the toy hash of the model is not sha256): the 32-byte sha256 of a long passphrase
			h := sha256.Sum256(pass)
			hp := h[:]
			var sk2 snacl.SecretKey
			if err := sk2.Unmarshal(sk.Marshal()); err == nil && sk2.DeriveKey(&hp) == nil {
				v = joinV(v, viol(wrongPassKey("derive", h[:], pass), fmt.Sprintf("DeriveKey accepted sha256(passphrase) for a %d-byte passphrase", len(pass))))
			}
		}
		return "ok", v

	case "skmarshal":
		id, ok := atoi(kv, "id")
		e := r.sks[id]
		if !ok || e == nil {
			return "bad-op", ""
		}
		b := e.cur.Marshal()
		var sk2 snacl.SecretKey
		rt := 0
		if err := sk2.Unmarshal(b); err == nil && sk2.Parameters == e.cur.Parameters {
			rt = 1
		}
		v := ""
		if rt == 0 {
			v = viol("marshal.roundtrip", "Unmarshal(Marshal(params)) != params")
		}
		if len(b) != 88 {
			return fmt.Sprintf("ok len=%d", len(b)), viol("marshal.layout", "marshalled length is not 88")
		}
		if !bytes.Equal(b[:32], e.cur.Parameters.Salt[:]) || !bytes.Equal(b[32:64], e.cur.Parameters.Digest[:]) {
			v = viol("marshal.layout", "salt/digest not at offsets 0/32")
		}
		return fmt.Sprintf("ok len=%d N=%s R=%s P=%s rt=%d", len(b), decodeInt64LE(b[64:72]), decodeInt64LE(b[72:80]), decodeInt64LE(b[80:88]), rt), v

	case "skparams":
		salt, ok1 := ahex(kv, "salt")
		dig, ok2 := ahex(kv, "digest")
		N, ok3 := aint(kv, "N")
		R, ok4 := aint(kv, "R")
		P, ok5 := aint(kv, "P")
		if !(ok1 && ok2 && ok3 && ok4 && ok5) || len(salt) != 32 || len(dig) != 32 {
			return "bad-op", ""
		}
		sk := snacl.SecretKey{Key: &snacl.CryptoKey{}}
		copy(sk.Parameters.Salt[:], salt)
		copy(sk.Parameters.Digest[:], dig)
		sk.Parameters.N, sk.Parameters.R, sk.Parameters.P = N, R, P
		b := sk.Marshal()
		var sk2 snacl.SecretKey
		v := ""
		if err := sk2.Unmarshal(b); err != nil || sk2.Parameters != sk.Parameters {
			v = viol("marshal.roundtrip", fmt.Sprintf("Unmarshal(Marshal(params)) != params for N=%d R=%d P=%d", N, R, P))
		}
		return "ok hex=" + hx(b), v

	case "skunmarshal":
		b, ok := ahex(kv, "hex")
		if !ok {
			return "bad-op", ""
		}
		var sk snacl.SecretKey
		err := sk.Unmarshal(append([]byte{}, b...))
		if err != nil {
			v := ""
			if len(b) == 88 {
				v = viol("unmarshal.length", "88-byte encoding rejected")
			}
			return errKind(err), v
		}
		re := sk.Marshal()
		v := ""
		if len(b) != 88 {
			v = viol("unmarshal.length", fmt.Sprintf("%d-byte parameter encoding accepted", len(b)))
		} else if !bytes.Equal(re, b) {
			v = viol("marshal.roundtrip", "Marshal(Unmarshal(b)) != b")
		}
		p := sk.Parameters
		return fmt.Sprintf("ok N=%d R=%d P=%d salt=%s digest=%s re=%d", p.N, p.R, p.P, hx(p.Salt[:]), hx(p.Digest[:]), b2i(bytes.Equal(re, b))), v

	case "skderive":
		id, ok1 := atoi(kv, "id")
		pass, ok2 := ahex(kv, "pass")
		via := kv["via"]
		e := r.sks[id]
		if !ok1 || !ok2 || e == nil {
			return "bad-op", ""
		}
		var obj *snacl.SecretKey
		tampered := false
		switch via {
		case "direct":
			if _, has := kv["xorbyte"]; has {
				return "bad-op", ""
			}
			if _, has := kv["xorval"]; has {
				return "bad-op", ""
			}
			obj = e.cur
			obj.Zero()
		case "marshal":
			b := e.cur.Marshal()
			_, h1 := kv["xorbyte"]
			_, h2 := kv["xorval"]
			if h1 != h2 {
				return "bad-op", ""
			}
			if h1 {
				i, oka := atoi(kv, "xorbyte")
				x, okb := atoi(kv, "xorval")
				if !oka || !okb || i >= len(b) || x <= 0 || x >= 256 {
					return "bad-op", ""
				}
				b[i] ^= byte(x)
				tampered = true
			}
			obj = &snacl.SecretKey{}
			if err := obj.Unmarshal(b); err != nil {
				return errKind(err), ""
			}
		default:
			return "bad-op", ""
		}
		pr := obj.Parameters
		if expensive(pr.N, pr.R, pr.P) {
			return "skipped", ""
		}
		p := append([]byte{}, pass...)
		err := obj.DeriveKey(&p) // a panic (scrypt division by zero) is recovered by core.SafeExec: state unchanged
		if !tampered {
			e.cur = obj
		}
		right := bytes.Equal(pass, e.pass)
		ks := keyState(obj.Key, e.orig)
		var v []string
		if err == nil {
			switch {
			case tampered:
				v = append(v, viol("derive.tampered-params-accepted", fmt.Sprintf("DeriveKey accepted stored parameters with byte %s altered", kv["xorbyte"])))
			case !right:
				v = append(v, viol(wrongPassKey("derive", pass, e.pass), fmt.Sprintf("DeriveKey accepted passphrase %x for a key created from %x", pass, e.pass)))
			case ks != "same":
				v = append(v, viol("derive.key-differs", "right passphrase re-derived a different key"))
			}
			return "ok key=" + ks, strings.Join(v, "; ")
		}
		if right && !tampered {
			v = append(v, viol("derive.right-pass-rejected", "creating passphrase rejected: "+err.Error()))
		}
		if !right && ks == "same" {
			v = append(v, viol("derive.wrong-pass-key", "wrong passphrase left the right key in the object"))
		}
		return errKind(err) + " key=" + ks, strings.Join(v, "; ")

	case "skenc":
		id, ok1 := atoi(kv, "id")
		l, ok2 := atoi(kv, "len")
		pat, ok3 := atoi(kv, "pat")
		e := r.sks[id]
		if !ok1 || !ok2 || !ok3 || e == nil {
			return "bad-op", ""
		}
		pt := plain(l, pat)
		ct, err := e.cur.Encrypt(pt)
		if err != nil {
			return errKind(err), ""
		}
		return r.recordCt(ct, pt, *e.cur.Key, false)

	case "skdec":
		id, ok1 := atoi(kv, "id")
		ci, ok2 := atoi(kv, "ct")
		e := r.sks[id]
		if !ok1 || !ok2 || e == nil || ci >= len(r.cts) {
			return "bad-op", ""
		}
		ent := r.cts[ci]
		c2, ok := r.tamper(kv, ent.ct)
		if !ok {
			return "bad-op", ""
		}
		out, err := e.cur.Decrypt(append([]byte{}, c2...))
		return judgeDec(out, err, ent, c2, *e.cur.Key, errKind)

	case "mgrnew":
		wo, ok1 := atoi(kv, "wo")
		pub, ok2 := ahex(kv, "pub")
		priv, ok3 := ahex(kv, "priv")
		if !ok1 || !ok2 || !ok3 || wo > 1 {
			return "bad-op", ""
		}
		return r.mgrNew(wo == 1, pub, priv)

	case "mgropen":
		pub, ok := ahex(kv, "pub")
		if !ok || r.db == nil {
			return "bad-op", ""
		}
		return r.mgrOpen(pub)

	case "mgrunlock":
		pass, ok := ahex(kv, "pass")
		if !ok || r.mgr == nil {
			return "bad-op", ""
		}
		var err error
		_ = walletdb.View(r.db, func(tx walletdb.ReadTx) error {
			err = r.mgr.Unlock(tx.ReadBucket(nsKey), append([]byte{}, pass...))
			return nil
		})
		lk := b2i(r.mgr.IsLocked())
		right := bytes.Equal(pass, r.mgrPriv) && !r.mgr.WatchOnly()
		prevUnlock := r.mgrUnlockedWith
		if err != nil || r.mgr.IsLocked() {
			r.mgrUnlockedWith = nil
		} else {
			r.mgrUnlockedWith = append([]byte{}, pass...)
		}
		if err != nil {
			v := ""
			if right && prevUnlock != nil && !bytes.Equal(prevUnlock, pass) && hmacBlock(prevUnlock) == hmacBlock(pass) {
				// consequence of the known defect: the manager had been unlocked with a NUL-padded variant, whose
				// salted hash is what the unlocked fast path compares against
				v = viol(KnownNULKey, fmt.Sprintf("Unlock rejected the private passphrase %x after having accepted %x", pass, prevUnlock))
			} else if right {
				v = viol("manager.right-pass-rejected", "Unlock rejected the private passphrase: "+err.Error())
			} else if !r.mgr.IsLocked() && !r.mgr.WatchOnly() {
				v = viol("manager.unlocked-after-failed-unlock", "manager unlocked after a failed Unlock")
			}
			return fmt.Sprintf("%s locked=%d", mgrErrKind(err), lk), v
		}
		v := ""
		if !right {
			v = viol(wrongPassKey("manager.unlock", pass, r.mgrPriv), fmt.Sprintf("Unlock accepted %x (private passphrase %x)", pass, r.mgrPriv))
		}
		return fmt.Sprintf("ok locked=%d", lk), v

	case "mgrlock":
		if len(strings.Fields(op)) != 1 || r.mgr == nil {
			return "bad-op", ""
		}
		if err := r.mgr.Lock(); err != nil {
			return mgrErrKind(err), ""
		}
		r.mgrUnlockedWith = nil
		return "ok", ""

	case "mgrchpass":
		pv, ok1 := atoi(kv, "priv")
		oldP, ok2 := ahex(kv, "old")
		newP, ok3 := ahex(kv, "new")
		if !ok1 || !ok2 || !ok3 || pv > 1 || r.mgr == nil {
			return "bad-op", ""
		}
		var err error
		_ = walletdb.Update(r.db, func(tx walletdb.ReadWriteTx) error {
			err = r.mgr.ChangePassphrase(tx.ReadWriteBucket(nsKey), append([]byte{}, oldP...), append([]byte{}, newP...), pv == 1,
				&waddrmgr.FastScryptOptions)
			return err
		})
		cur := r.mgrPub
		if pv == 1 {
			cur = r.mgrPriv
		}
		right := bytes.Equal(oldP, cur) && !(pv == 1 && r.mgr.WatchOnly())
		if err != nil {
			v := ""
			if right {
				v = viol("manager.right-pass-rejected", "ChangePassphrase rejected the current passphrase: "+err.Error())
			}
			return mgrErrKind(err), v
		}
		v := ""
		if !right {
			v = viol(wrongPassKey("manager.changepass", oldP, cur), fmt.Sprintf("ChangePassphrase accepted %x as the current passphrase %x", oldP, cur))
		}
		if pv == 1 {
			r.mgrPriv = append([]byte{}, newP...)
			if r.mgrUnlockedWith != nil {
				r.mgrUnlockedWith = append([]byte{}, newP...)
			}
		} else {
			r.mgrPub = append([]byte{}, newP...)
		}
		return "ok", v

	case "mgrenc":
		kt, ok1 := atoi(kv, "kt")
		l, ok2 := atoi(kv, "len")
		pat, ok3 := atoi(kv, "pat")
		if !ok1 || !ok2 || !ok3 || r.mgr == nil || kt > 255 {
			return "bad-op", ""
		}
		pt := plain(l, pat)
		ct, err := r.mgr.Encrypt(waddrmgr.CryptoKeyType(kt), pt)
		if err != nil {
			v := ""
			if ct != nil {
				v = viol("manager.data-with-error", "Encrypt returned data with an error")
			}
			return mgrErrKind(err), v
		}
		v := ""
		if kt <= 1 && (r.mgr.IsLocked() || r.mgr.WatchOnly()) {
			v = viol("manager.private-key-while-locked", "Encrypt with a private key type succeeded on a locked/watch-only manager")
		}
		// the key is not observable; tag the ciphertext with the manager generation + key type instead
		var tagKey [32]byte
		tagKey[0], tagKey[1], tagKey[2] = 0xff, byte(kt), byte(r.mgrN)
		reply, v2 := r.recordCt(ct, pt, tagKey, true)
		return reply, joinV(v, v2)

	case "mgrdec":
		kt, ok1 := atoi(kv, "kt")
		ci, ok2 := atoi(kv, "ct")
		if !ok1 || !ok2 || r.mgr == nil || ci >= len(r.cts) || kt > 255 {
			return "bad-op", ""
		}
		ent := r.cts[ci]
		c2, ok := r.tamper(kv, ent.ct)
		if !ok {
			return "bad-op", ""
		}
		out, err := r.mgr.Decrypt(waddrmgr.CryptoKeyType(kt), append([]byte{}, c2...))
		var tagKey [32]byte
		tagKey[0], tagKey[1], tagKey[2] = 0xff, byte(kt), byte(r.mgrN)
		if kt == 1 && !ent.mgr && ent.key == ([32]byte{}) {
			// /repo b81a3ff: Decrypt(CKTScript) keeps a READ-side fallback to the all-zero key for rows sealed by
			// versions that never restored the script key; such a blob is "genuine" for kt=script (documented
			// compatibility decision). Anything tampered must still fail.
			tagKey = ent.key
		}
		reply, v := judgeDec(out, err, ent, c2, tagKey, mgrErrKind)
		if err != nil && strings.Contains(v, "decrypt.roundtrip") {
			// a genuine ciphertext may legitimately be refused while locked (ErrLocked)
			if waddrmgr.IsError(err, waddrmgr.ErrLocked) && (r.mgr.IsLocked() || r.mgr.WatchOnly()) {
				v = ""
			}
		}
		if err == nil && kt <= 1 && (r.mgr.IsLocked() || r.mgr.WatchOnly()) {
			v = joinV(v, viol("manager.private-key-while-locked", "Decrypt with a private key type succeeded on a locked/watch-only manager"))
		}
		return reply, v
	}
	return "bad-op", ""
}

// encPar: gn goroutines, released together, each sealing the SAME plaintext `per` times under the SAME key.
// Oracle (the property's sentence for concurrent callers): all ciphertexts pairwise distinct, all nonces pairwise
// distinct (also against the nonces of the sequential ops of the run), every ciphertext well-formed.
func (r *runner) encPar(k *snacl.CryptoKey, pt []byte, gn, per int) (string, string) {
	outs := make([][][]byte, gn)
	errs := make([]error, gn)
	start := make(chan struct{})
	var wg sync.WaitGroup
	for g := 0; g < gn; g++ {
		wg.Add(1)
		go func(g int) {
			defer wg.Done()
			res := make([][]byte, 0, per)
			<-start
			for i := 0; i < per; i++ {
				ct, err := k.Encrypt(pt)
				if err != nil {
					errs[g] = err
					break
				}
				res = append(res, ct)
			}
			outs[g] = res
		}(g)
	}
	close(start)
	wg.Wait()
	for _, err := range errs {
		if err != nil {
			return errKind(err), ""
		}
	}
	total := gn * per
	seen := make(map[string]struct{}, total)
	dupCt, dupNonce, badLen, notFreshN := 0, 0, 0, 0
	notFreshText := ""
	for _, res := range outs {
		for _, ct := range res {
			if len(ct) != len(pt)+snacl.NonceSize+snacl.Overhead {
				badLen++
			}
			if _, dup := seen[string(ct)]; dup {
				dupCt++
			}
			seen[string(ct)] = struct{}{}
			reuse, nf := r.noteNonce(ct)
			if reuse {
				dupNonce++
			}
			if nf != "" {
				notFreshN++
				notFreshText = nf
			}
		}
	}
	var v []string
	if dupCt > 0 || dupNonce > 0 {
		v = append(v, viol("encrypt.nonce-reuse-concurrent", fmt.Sprintf(
			"%d goroutines x %d concurrent Encrypt calls of one %d-byte plaintext under one key: %d of %d ciphertexts are byte-for-byte repeats, %d nonces repeated",
			gn, per, len(pt), dupCt, total, dupNonce)))
	}
	if notFreshN > 0 {
		v = append(v, viol("encrypt.nonce-not-fresh-random", fmt.Sprintf("%d of %d nonces: %s", notFreshN, total, notFreshText)))
	}
	if badLen > 0 {
		v = append(v, viol("encrypt.length", fmt.Sprintf("%d of %d concurrent ciphertexts have the wrong length", badLen, total)))
	}
	// one sample must still decrypt (the concurrent calls did not corrupt each other)
	if out, err := k.Decrypt(append([]byte{}, outs[gn-1][per-1]...)); err != nil || !bytes.Equal(out, pt) {
		v = append(v, viol("decrypt.roundtrip", "a ciphertext produced by a concurrent Encrypt call does not decrypt to the plaintext"))
	}
	return fmt.Sprintf("ok n=%d distinct=%d", total, len(seen)), strings.Join(v, "; ")
}

func joinV(a, b string) string {
	switch {
	case a == "":
		return b
	case b == "":
		return a
	}
	return a + "; " + b
}

func firstN(b []byte, n int) []byte {
	if len(b) > n {
		return b[:n]
	}
	return b
}

func b2i(b bool) int {
	if b {
		return 1
	}
	return 0
}

var nsKey = []byte("waddrmgr")

var seedBytes = bytes.Repeat([]byte{0x2a}, 32)

func (r *runner) mgrNew(watchOnly bool, pub, priv []byte) (string, string) {
	r.closeMgr()
	dir, err := os.MkdirTemp("", "vxcrypto")
	if err != nil {
		panic(err)
	}
	r.dir = dir
	db, err := walletdb.Create("bdb", filepath.Join(dir, "w.db"), true, 10*time.Second, false)
	if err != nil {
		panic(err)
	}
	r.db = db
	r.mgrN++
	r.mgrPub, r.mgrPriv = append([]byte{}, pub...), append([]byte{}, priv...)
	var rootKey *hdkeychain.ExtendedKey
	if !watchOnly {
		rootKey, err = hdkeychain.NewMaster(seedBytes, &chaincfg.SimNetParams)
		if err != nil {
			panic(err)
		}
	}
	err = walletdb.Update(db, func(tx walletdb.ReadWriteTx) error {
		ns, err := tx.CreateTopLevelBucket(nsKey)
		if err != nil {
			return err
		}
		return waddrmgr.Create(ns, rootKey, append([]byte{}, pub...), append([]byte{}, priv...), &chaincfg.SimNetParams,
			&waddrmgr.FastScryptOptions, time.Unix(1600000000, 0))
	})
	if err != nil {
		return mgrErrKind(err), ""
	}
	return r.mgrOpen(pub)
}

func (r *runner) mgrOpen(pub []byte) (string, string) {
	if r.mgr != nil {
		r.mgr.Close()
		r.mgr = nil
	}
	var m *waddrmgr.Manager
	err := walletdb.View(r.db, func(tx walletdb.ReadTx) error {
		var err error
		m, err = waddrmgr.Open(tx.ReadBucket(nsKey), append([]byte{}, pub...), &chaincfg.SimNetParams)
		return err
	})
	right := bytes.Equal(pub, r.mgrPub)
	if err != nil {
		v := ""
		if right {
			v = viol("manager.right-pass-rejected", "Open rejected the public passphrase: "+err.Error())
		}
		return mgrErrKind(err), v
	}
	r.mgr = m
	r.mgrUnlockedWith = nil
	v := ""
	if !right {
		v = viol(wrongPassKey("manager.open", pub, r.mgrPub), fmt.Sprintf("Open accepted %x (public passphrase %x)", pub, r.mgrPub))
	}
	return "ok", v
}
