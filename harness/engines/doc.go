// Package engines holds one correspondence engine per modelled component.
package engines
