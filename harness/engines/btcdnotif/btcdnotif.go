// Package btcdnotif: engine "btcdnotif" (C18) — the notification queue inside chain/btcd.go `(*RPCClient).handler`,
// run for real: an in-process fake btcd (websocket JSON-RPC server on 127.0.0.1) answers the few requests the client
// makes (`getcurrentnet`, `getbestblock`, …) and pushes `blockconnected` notifications; a real chain.RPCClient
// (rpcclient websocket client + onBlockConnected callback + handler loop) receives them; the harness is the only
// consumer of `Notifications()`.
//
//	new          fake server + NewRPCClient + Start(); consumes the initial ClientConnected      -> ok
//	push <h>     server sends a blockconnected notification for height h                          -> ok
//	burst <h> <k>  k notifications h, h+1, … while the consumer is idle, then one RPC round trip
//	             (the reply is handled by the same rpcclient goroutine that runs the callbacks:
//	             it only comes back if no callback is blocked on the queue)                       -> ok
//	recv         <-Notifications()                                   -> got <h> | empty | closed
//	stop         Stop(); WaitForShutdown()                                                         -> stopped exited=1|0
//
// Oracle keys: order, duplicate, lost, producer-blocked, stop-not-terminating.
package btcdnotif

import (
	"encoding/json"
	"fmt"
	"math/rand"
	"net"
	"net/http"
	"strconv"
	"strings"
	"sync"
	"time"

	"github.com/btcsuite/btcd/chaincfg"
	"github.com/btcsuite/btcwallet/chain"
	"github.com/btcsuite/websocket"

	"verifharness/core"
)

// longWait bounds waits for something that MUST happen (a pushed notification arrives, the RPC round trip after a
// burst comes back, Stop terminates).  A notification crosses a TCP connection and four goroutines; on a starved
// machine that takes seconds, so the limit is generous: it is never reached on a correct client and only costs time on a
// failing run (bounded by brokenCases below).  shortWait confirms "nothing arrives" when nothing was sent.
const (
	longWait  = 30 * time.Second
	shortWait = 6 * time.Millisecond
)

// brokenCases counts cases in which an oracle violation was reported.  After a few of them the run is decided and the
// remaining cases use short waits (a broken client would otherwise cost one longWait per case).
var brokenCases int

const decidedWait = 1 * time.Second

type engine struct{}

func init() { core.Register(engine{}) }

func (engine) Name() string { return "btcdnotif" }

func (engine) Generate(rng *rand.Rand, tier string) []core.Case {
	// kept small: when the loop's liveness is broken every case costs one full longWait inside the real client's
	// shutdown path, which the harness cannot shorten
	n := 60
	if tier == "thorough" {
		n = 1500
	}
	var cases []core.Case
	for i := 0; i < n; i++ {
		ops := []string{"new"}
		h := 1 + rng.Intn(500)
		pending, empties := 0, 0
		max := 8 + rng.Intn(40)
		stopped := false
		for len(ops) < max && !stopped {
			switch p := rng.Intn(100); {
			case p < 40:
				ops = append(ops, fmt.Sprintf("push %d", h))
				h++
				pending++
			case p < 50:
				k := 2 + rng.Intn(60)
				ops = append(ops, fmt.Sprintf("burst %d %d", h, k))
				h += k
				pending += k
			case p < 90:
				if pending == 0 {
					if empties >= 1 {
						continue
					}
					empties++
				} else {
					pending--
				}
				ops = append(ops, "recv")
			case p < 94 && len(ops) > 3:
				ops = append(ops, "stop", "recv")
				stopped = true
			}
		}
		if !stopped && rng.Intn(2) == 0 {
			for ; pending > 0; pending-- {
				ops = append(ops, "recv")
			}
		}
		cases = append(cases, core.Case{Ops: ops, Tags: []string{"btcd-handler"}})
	}
	// one long burst with an idle consumer
	cases = append(cases, core.Case{Ops: []string{"new", "burst 1 5000", "recv", "recv", "recv", "stop", "recv"}, Tags: []string{"btcd-handler", "long-burst"}})
	cases = append(cases, core.Case{Ops: []string{"new", "push x", "frob", "burst 1", "recv 2", "push 7", "recv"}, Tags: []string{"malformed"}})
	return cases
}

// ------------------------------------------------------------------ fake btcd

type fakeBtcd struct {
	ln   net.Listener
	srv  *http.Server
	mu   sync.Mutex
	conn *websocket.Conn
	up   chan struct{}
}

type rpcReq struct {
	ID     interface{}       `json:"id"`
	Method string            `json:"method"`
	Params []json.RawMessage `json:"params"`
}

func newFakeBtcd() (*fakeBtcd, error) {
	ln, err := net.Listen("tcp", "127.0.0.1:0")
	if err != nil {
		return nil, err
	}
	f := &fakeBtcd{ln: ln, up: make(chan struct{})}
	mux := http.NewServeMux()
	mux.HandleFunc("/ws", func(w http.ResponseWriter, r *http.Request) {
		c, err := websocket.Upgrade(w, r, nil, 4096, 4096)
		if err != nil {
			return
		}
		f.mu.Lock()
		first := f.conn == nil
		f.conn = c
		f.mu.Unlock()
		if first {
			close(f.up)
		}
		for {
			_, msg, err := c.ReadMessage()
			if err != nil {
				return
			}
			var req rpcReq
			if json.Unmarshal(msg, &req) != nil {
				continue
			}
			var result interface{}
			switch req.Method {
			case "getcurrentnet":
				result = uint32(chaincfg.SimNetParams.Net)
			case "getbestblock":
				result = map[string]interface{}{"hash": strings.Repeat("00", 32), "height": 0}
			default:
				result = nil
			}
			f.write(map[string]interface{}{"result": result, "error": nil, "id": req.ID})
		}
	})
	f.srv = &http.Server{Handler: mux}
	go func() { _ = f.srv.Serve(ln) }()
	return f, nil
}

func (f *fakeBtcd) write(v interface{}) error {
	b, _ := json.Marshal(v)
	f.mu.Lock()
	defer f.mu.Unlock()
	if f.conn == nil {
		return fmt.Errorf("no connection")
	}
	return f.conn.WriteMessage(websocket.TextMessage, b)
}

func (f *fakeBtcd) pushBlock(h int) error {
	hash := fmt.Sprintf("%064x", h)
	return f.write(map[string]interface{}{"jsonrpc": "1.0", "id": nil, "method": "blockconnected",
		"params": []interface{}{hash, h, 1700000000 + h}})
}

func (f *fakeBtcd) close() {
	_ = f.srv.Close()
	f.mu.Lock()
	if f.conn != nil {
		_ = f.conn.Close()
	}
	f.mu.Unlock()
}

// ------------------------------------------------------------------ runner

type runner struct {
	f       *fakeBtcd
	c       *chain.RPCClient
	sent    []int
	recvd   []int
	seen    map[int]bool
	stopped bool
	closed  bool
	viol    []string
	broken  bool
}

func (engine) NewRunner() core.Runner { return &runner{} }

func (r *runner) Close() {
	if r.c != nil && !r.stopped {
		r.c.Stop()
		done := make(chan struct{})
		go func() { r.c.WaitForShutdown(); close(done) }()
		select {
		case <-done:
		case <-time.After(r.long()):
			// no violation can be reported from Close; a client that does not shut down must still not cost longWait
			// in every case
			if !r.broken {
				r.broken = true
				brokenCases++
			}
		}
	}
	if r.f != nil {
		r.f.close()
	}
	r.c, r.f = nil, nil
}

func (r *runner) v(key, format string, a ...interface{}) {
	r.viol = append(r.viol, "C18 key=btcd-handler."+key+": "+fmt.Sprintf(format, a...))
	if !r.broken {
		r.broken = true
		brokenCases++
	}
}

func (r *runner) long() time.Duration {
	if r.broken {
		return 100 * time.Millisecond
	}
	if brokenCases >= 3 {
		return decidedWait
	}
	return longWait
}

func (r *runner) flush() string {
	s := strings.Join(r.viol, "; ")
	r.viol = nil
	return s
}

func (r *runner) pending() int { return len(r.sent) - len(r.recvd) }

func (r *runner) start() error {
	f, err := newFakeBtcd()
	if err != nil {
		return err
	}
	r.f = f
	c, err := chain.NewRPCClient(&chaincfg.SimNetParams, f.ln.Addr().String(), "u", "p", nil, true, 1)
	if err != nil {
		return err
	}
	if err := c.Start(); err != nil {
		return err
	}
	r.c = c
	select {
	case n := <-c.Notifications():
		if _, ok := n.(chain.ClientConnected); !ok {
			return fmt.Errorf("first notification is %T", n)
		}
	case <-time.After(r.long()):
		r.v("lost", "the ClientConnected notification enqueued on connect is never delivered")
		return fmt.Errorf("no ClientConnected")
	}
	return nil
}

func (r *runner) Exec(op string) (string, string) {
	f := strings.Fields(op)
	if len(f) == 0 {
		return "bad-op", ""
	}
	if f[0] == "new" && len(f) == 1 {
		r.Close()
		*r = runner{seen: map[int]bool{}}
		if err := r.start(); err != nil {
			return "start-failed " + strings.ReplaceAll(err.Error(), " ", "_"), r.flush()
		}
		return "ok", ""
	}
	if r.c == nil {
		return "bad-op", ""
	}
	switch {
	case f[0] == "push" && len(f) == 2:
		h, err := strconv.Atoi(f[1])
		if err != nil || h <= 0 {
			return "bad-op", ""
		}
		if r.stopped {
			return "ok", "" // nobody listens any more; nothing is sent
		}
		if err := r.f.pushBlock(h); err != nil {
			return "push-failed", ""
		}
		r.sent = append(r.sent, h)
		return "ok", ""
	case f[0] == "burst" && len(f) == 3:
		h, e1 := strconv.Atoi(f[1])
		k, e2 := strconv.Atoi(f[2])
		if e1 != nil || e2 != nil || h <= 0 || k <= 0 {
			return "bad-op", ""
		}
		if r.stopped {
			return "ok", ""
		}
		for i := 0; i < k; i++ {
			if err := r.f.pushBlock(h + i); err != nil {
				return "push-failed", ""
			}
			r.sent = append(r.sent, h+i)
		}
		// The reply to this request is processed by rpcclient's single inbound goroutine AFTER the k notifications,
		// i.e. after all k callbacks have handed their notification to the handler loop — with nobody consuming.
		done := make(chan error, 1)
		go func() { _, err := r.c.GetCurrentNet(); done <- err }()
		select {
		case err := <-done:
			if err != nil {
				r.v("producer-blocked", "RPC after a burst of %d failed: %v", k, err)
			}
		case <-time.After(r.long()):
			r.v("producer-blocked", "burst of %d notifications with an idle consumer: the client's inbound handler is stuck (pending %d)", k, r.pending())
		}
		return "ok", r.flush()
	case f[0] == "recv" && len(f) == 1:
		d := shortWait
		expect := !r.stopped && r.pending() > 0
		if expect || (r.stopped && !r.closed) {
			d = r.long()
		}
		t := time.NewTimer(d)
		defer t.Stop()
		select {
		case n, ok := <-r.c.Notifications():
			if !ok {
				r.closed = true
				if !r.stopped {
					r.v("lost", "notification channel closed although Stop was not called")
				}
				return "closed", r.flush()
			}
			bc, isBC := n.(chain.BlockConnected)
			if !isBC {
				r.v("order", "unexpected notification %T", n)
				return "got other", r.flush()
			}
			h := int(bc.Height)
			idx := len(r.recvd)
			r.recvd = append(r.recvd, h)
			switch {
			case r.seen[h]:
				r.v("duplicate", "height %d received twice", h)
			case idx >= len(r.sent):
				r.v("duplicate", "height %d received but nothing was pending", h)
			case r.sent[idx] != h:
				r.v("order", "received height %d at position %d, sent sequence has %d there", h, idx, r.sent[idx])
			}
			r.seen[h] = true
			return fmt.Sprintf("got %d", h), r.flush()
		case <-t.C:
			if expect {
				r.v("lost", "%d notifications pending but receive timed out", r.pending())
			}
			if r.stopped && !r.closed {
				r.v("stop-not-terminating", "Notifications() not closed after Stop")
			}
			return "empty", r.flush()
		}
	case f[0] == "stop" && len(f) == 1:
		if r.stopped {
			return "stopped exited=1", ""
		}
		r.c.Stop()
		r.stopped = true
		done := make(chan struct{})
		go func() { r.c.WaitForShutdown(); close(done) }()
		select {
		case <-done:
			return "stopped exited=1", ""
		case <-time.After(r.long()):
			r.v("stop-not-terminating", "handler goroutine still running after Stop()")
			return "stopped exited=0", r.flush()
		}
	}
	return "bad-op", ""
}
