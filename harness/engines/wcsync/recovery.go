package wcsync

import (
	"fmt"
	"math/rand"
	"sort"
	"strconv"
	"strings"
	"sync"
	"time"

	"github.com/btcsuite/btcd/btcutil"
	"github.com/btcsuite/btcd/chaincfg"
	"github.com/btcsuite/btcd/chaincfg/chainhash"
	"github.com/btcsuite/btcd/wire"
	"github.com/btcsuite/btcwallet/chain"
	"github.com/btcsuite/btcwallet/waddrmgr"
	"github.com/btcsuite/btcwallet/wallet"
	"github.com/btcsuite/btcwallet/walletdb"
	"github.com/btcsuite/btcwallet/wtxmgr"

	"verifharness/core"
)

// ---- engine "walletchain-recovery" (C16) ----
//
// (a) BranchRecoveryState through its exported methods:
//   bnew w=<W> | bext | badd i=<n> | binv i=<n> | bfound i=<n> | bexpand inv=<i,j,..> | bst
// (b) full recovery loop: real wallet restored from seed against a fake chain
//   rinit seed=<k> scopes=44,49,84,86 batch=2000 [net=main]   net=main: wallet and backend on chaincfg.MainNetParams (a
//                                                          production network: syncWithChain waits for the backend)
//   rnotcurrent until=<h>                                  (net=main only) the backend is a full node still downloading the
//                                                          chain when the wallet next connects: IsCurrent() = false and only
//                                                          heights <= h are served until the wallet has polled IsCurrent
//                                                          twice; then the full chain and IsCurrent() = true
//   rblk t=<unix> txs=<id>:<in>+<in>:<out>+<out>;...      in = e | <txid>.<idx>;  out = x.<amt> | <scope>.<0|1>.<idx>.<amt>
//   rrecover w=<W> locked=<0|1> failat=<n>                 create from seed, sync (n-th FilterBlocks call fails once)
//   rrestart w=<W> failat=<n>                              stop, reopen, sync (recovery resumes above the wallet's tip)
//     both take the INTERRUPTION options
//       lockat=<k> how=lock|timeout|stop   while recovery() fetches block k (it is parked inside the backend's
//                                          GetBlockHash(k)) the wallet is locked (Wallet.Lock), its unlock timeout
//                                          fires, or it is stopped and unloaded; then the loop is released.  lock /
//                                          timeout: the wallet carries on in-process (reply as usual); stop: reply
//                                          `interrupted-and-stopped`, a later rrestart resumes.
//       failat=<n> halt=1                  the wallet runs with a 1 h sync retry interval; when the n-th FilterBlocks
//                                          call fails the wallet is stopped and unloaded BEFORE any in-process retry:
//                                          reply `failed-and-stopped`, a later rrestart resumes in a "new process".
//   rstate
//   rlease op=<txid>.<idx> | rrelease op=<txid>.<idx>      Wallet.LeaseOutput (1 h) / ReleaseOutput on a recovered output
//   rmempool tx=<id>:<in>+<in>:<out>                       an unmined relevant tx (no wallet outputs) reaches the wallet;
//                                                          a later `rblk txs=..;m<id>` mines it
// (c) locateBirthdayBlock through the start-up path of a fresh wallet
//   bday best=<n> ts=<t1,...,tn> b=<birthday> delta=7200 g=<genesis time>

type recEngine struct{}

func init() { core.Register(recEngine{}) }

func (recEngine) Name() string           { return "walletchain-recovery" }
func (recEngine) NewRunner() core.Runner { return &recRunner{} }

var scopeByTag = map[int]waddrmgr.KeyScope{
	44: waddrmgr.KeyScopeBIP0044,
	49: waddrmgr.KeyScopeBIP0049Plus,
	84: waddrmgr.KeyScopeBIP0084,
	86: waddrmgr.KeyScopeBIP0086,
}

// ---- truth addresses: derived with the real waddrmgr from the same seed in a wallet that is never synced ----

type truthKey struct{ seed, scope, branch, index int }

var (
	truthMu    sync.Mutex
	truthEnvs  = map[int]*wenv{}
	truthAddrs = map[truthKey]btcutil.Address{}
)

func truthAddr(seed, scope, branch, index int) (btcutil.Address, error) {
	truthMu.Lock()
	defer truthMu.Unlock()
	k := truthKey{seed, scope, branch, index}
	if a, ok := truthAddrs[k]; ok {
		return a, nil
	}
	env := truthEnvs[seed]
	if env == nil {
		var err error
		if env, err = newEnv(); err != nil {
			return nil, err
		}
		if err = env.create(seedFor(seed), time.Unix(1300000000, 0), 0); err != nil {
			return nil, err
		}
		truthEnvs[seed] = env
	}
	mgr, err := env.w.Manager.FetchScopedKeyManager(scopeByTag[scope])
	if err != nil {
		return nil, err
	}
	var a btcutil.Address
	err = walletdb.View(env.w.Database(), func(tx walletdb.ReadTx) error {
		ma, err := mgr.DeriveFromKeyPath(tx.ReadBucket(namespaces.addr), waddrmgr.DerivationPath{
			InternalAccount: 0, Account: 0, Branch: uint32(branch), Index: uint32(index)})
		if err != nil {
			return err
		}
		a = ma.Address()
		return nil
	})
	if err == nil {
		truthAddrs[k] = a
	}
	return a, err
}

// ---- runner ----

type rOut struct {
	scope, branch, index int // scope 0 = foreign
	amt                  int64
}

type rTx struct {
	id   int
	ins  []wire.OutPoint // resolved
	inRf [][2]int        // (txid, idx) or (-1,-1) for external
	outs []rOut
	msg  *wire.MsgTx
	h    int32
}

type recRunner struct {
	// (a)
	br  *wallet.BranchRecoveryState
	brW uint32
	// the script so far only used bexpand with one invalid set and bfound on watched indexes: the state is one the
	// recovery loop can reach, so the counting form of the horizon clause applies
	brDisc bool
	brInv  string
	// (b)
	env     *wenv
	seed    int
	scopes  []int
	txs     map[int]*rTx
	order   []*rTx
	nextBlk int
	w       uint32
	scanned int32 // height up to which the wallet has scanned
	hypOK   bool  // the look-ahead hypothesis held for every block scanned so far
	tainted bool  // an injected FilterBlocks failure fired (in-process retry): the rest of the case is not compared
	paidMax map[[2]int]int
	leased  map[[2]int]bool // outputs currently leased through rlease
	leases  int             // number of rlease ops so far (context tag of the oracle keys)
	mempool int             // number of rmempool ops so far
	pending string          // how the previous run ended if it was stopped mid-recovery (context tag of the next rrestart)
	mainnet bool            // rinit net=main
}

// recBatch is wallet.recoveryBatchSize.
const recBatch = 2000

func (r *recRunner) Close() {
	if r.env != nil {
		r.env.close()
		r.env = nil
	}
}

var dummyAddr = func() btcutil.Address {
	a, _ := btcutil.NewAddressWitnessPubKeyHash(make([]byte, 20), params)
	return a
}()

func (r *recRunner) branchState() string {
	var ks []int
	for k := range r.br.Addrs() {
		ks = append(ks, int(k))
	}
	sort.Ints(ks)
	var ss []string
	for _, k := range ks {
		ss = append(ss, strconv.Itoa(k))
	}
	return fmt.Sprintf("nu=%d ninv=%d addrs=%s", r.br.NextUnfound(), r.br.NumInvalidInHorizon(), strings.Join(ss, ","))
}

func (r *recRunner) Exec(op string) (string, string) {
	kind, kv := core.KV(op)
	if r.tainted && kind != "rinit" && strings.HasPrefix(kind, "r") {
		return "tainted", ""
	}
	switch kind {
	case "bnew":
		r.brW = uint32(atoi(kv["w"]))
		r.br = wallet.NewBranchRecoveryState(r.brW)
		r.brDisc, r.brInv = true, "-"
		return "ok", ""
	case "bext", "badd", "binv", "bfound", "bexpand", "bst":
		if r.br == nil {
			r.br = wallet.NewBranchRecoveryState(0)
		}
	}
	switch kind {
	case "bext":
		r.brDisc = false
		h, d := r.br.ExtendHorizon()
		return fmt.Sprintf("h=%d d=%d", h, d), ""
	case "badd":
		r.brDisc = false
		r.br.AddAddr(uint32(atoi(kv["i"])), dummyAddr)
		return "ok", ""
	case "binv":
		r.brDisc = false
		r.br.MarkInvalidChild(uint32(atoi(kv["i"])))
		return "ok", ""
	case "bfound":
		if _, ok := r.br.Addrs()[uint32(atoi(kv["i"]))]; !ok {
			r.brDisc = false
		}
		r.br.ReportFound(uint32(atoi(kv["i"])))
		return "ok", ""
	case "bst":
		return r.branchState(), ""
	case "bexpand":
		inv := map[uint32]bool{}
		for _, s := range core.CSV(kv["inv"]) {
			inv[uint32(atoi(s))] = true
		}
		if r.brInv == "-" {
			r.brInv = kv["inv"]
		} else if r.brInv != kv["inv"] {
			r.brDisc = false
		}
		// the loop of expandScopeHorizons, with derivation failure given by `inv`
		hor, win := r.br.ExtendHorizon()
		count, child := uint32(0), hor
		for count < win {
			if inv[child] {
				r.br.MarkInvalidChild(child)
				child++
				continue
			}
			r.br.AddAddr(child, dummyAddr)
			child++
			count++
		}
		// C16 (branch horizon) on the real state: every valid index below nextUnfound + W is watched
		v := ""
		addrs := r.br.Addrs()
		for i := uint32(0); i < r.br.NextUnfound()+r.brW; i++ {
			if _, ok := addrs[i]; !ok && !inv[i] && i >= hor {
				v = fmt.Sprintf("C16 key=branch-horizon: after expansion valid child %d < nextUnfound(%d)+window(%d) is not watched", i, r.br.NextUnfound(), r.brW)
				break
			}
		}
		if r.brDisc && v == "" {
			// counting form: at least `window` valid children at or above nextUnfound are watched
			n := uint32(0)
			for i := range addrs {
				if i >= r.br.NextUnfound() {
					n++
				}
			}
			if n < r.brW {
				v = fmt.Sprintf("C16 key=branch-horizon-count: after expansion only %d valid children at or above nextUnfound(%d) are watched, window is %d (invalid children must extend the horizon)", n, r.br.NextUnfound(), r.brW)
			}
		}
		return r.branchState(), v

	case "rinit":
		if n, ok := kv["net"]; ok && n != "main" && n != "sim" {
			return "bad-op", ""
		}
		r.Close()
		r.mainnet = kv["net"] == "main"
		net := params
		if r.mainnet {
			net = &chaincfg.MainNetParams
		}
		env, err := newEnvNet(net)
		if err != nil {
			return "err env", ""
		}
		r.env = env
		r.seed = atoi(kv["seed"])
		r.scopes = nil
		for _, s := range core.CSV(kv["scopes"]) {
			r.scopes = append(r.scopes, atoi(s))
		}
		r.txs, r.order, r.nextBlk, r.scanned, r.hypOK, r.tainted = map[int]*rTx{}, nil, 1, 0, true, false
		r.paidMax = map[[2]int]int{}
		r.leases, r.mempool, r.leased, r.pending = 0, 0, map[[2]int]bool{}, ""
		return "ok", ""
	case "rnotcurrent":
		h, err := strconv.Atoi(kv["until"])
		if r.env == nil || !r.mainnet || err != nil || h < 0 || int32(h) > r.env.fc.tip().height {
			return "bad-op", ""
		}
		r.env.fc.armNotCurrent(int32(h))
		return "ok", ""
	case "rlease", "rrelease":
		if r.env == nil || r.env.w == nil {
			return "bad-op", ""
		}
		q := strings.Split(kv["op"], ".")
		if len(q) != 2 || r.txs[atoi(q[0])] == nil {
			return "bad-op", ""
		}
		op := wire.OutPoint{Hash: r.txs[atoi(q[0])].msg.TxHash(), Index: uint32(atoi(q[1]))}
		id := wtxmgr.LockID{0x16}
		if kind == "rlease" {
			if _, err := r.env.w.LeaseOutput(id, op, time.Hour); err != nil {
				return "err lease", ""
			}
			r.leases++
			r.leased[[2]int{atoi(q[0]), atoi(q[1])}] = true
			return "ok", ""
		}
		if err := r.env.w.ReleaseOutput(id, op); err != nil {
			return "err release", ""
		}
		delete(r.leased, [2]int{atoi(q[0]), atoi(q[1])})
		return r.state(), r.oracle(r.ctx("release"))
	case "rmempool":
		if r.env == nil || r.env.w == nil || !r.env.running {
			return "bad-op", ""
		}
		t, err := r.parseTx(kv["tx"])
		if err != nil {
			return "bad-op", ""
		}
		for _, o := range t.outs {
			if o.scope != 0 {
				return "bad-op", "" // unmined credits are outside this engine's model
			}
		}
		rec, _ := wtxmgr.NewTxRecordFromMsgTx(t.msg, time.Unix(1500000000, 0))
		if !r.env.fc.deliver(chain.RelevantTx{TxRecord: rec}) {
			return "deliver-timeout", ""
		}
		r.mempool++
		return r.state(), ""
	case "rblk":
		if r.env == nil {
			return "bad-op", ""
		}
		var msgs []*wire.MsgTx
		var added []*rTx
		for _, ts := range strings.Split(kv["txs"], ";") {
			if ts == "" {
				continue
			}
			if strings.HasPrefix(ts, "m") { // a transaction the wallet already holds unmined
				t := r.txs[atoi(ts[1:])]
				if t == nil || t.h != 0 {
					return "bad-op", ""
				}
				added = append(added, t)
				msgs = append(msgs, t.msg)
				continue
			}
			t, err := r.parseTx(ts)
			if err != nil {
				return "bad-op", ""
			}
			added = append(added, t)
			msgs = append(msgs, t.msg)
		}
		id := r.nextBlk
		b, err := r.env.fc.declare(id, id-1, int64(atoi(kv["t"])), msgs)
		if err != nil || r.env.fc.push(b) != nil {
			return "bad-op", ""
		}
		r.nextBlk++
		for _, t := range added {
			t.h = b.height
		}
		return "ok", ""
	case "rrecover":
		if r.env == nil || r.env.w != nil || r.env.loader != nil || !r.interruptOK(kv) {
			return "bad-op", ""
		}
		r.w = uint32(atoi(kv["w"]))
		r.env.retry = retryFor(kv)
		if err := r.env.create(seedFor(r.seed), r.env.net.GenesisBlock.Header.Timestamp.Add(-240*time.Hour), r.w); err != nil {
			return "err create", ""
		}
		if kv["locked"] == "0" {
			r.env.w.Start()
			if err := r.env.w.Unlock(prvPass, nil); err != nil {
				return "err unlock", ""
			}
		}
		return r.syncAndReport(kv, "recover")
	case "rrestart":
		if r.env == nil || r.env.loader == nil || !r.interruptOK(kv) {
			return "bad-op", ""
		}
		r.env.stop()
		r.w = uint32(atoi(kv["w"]))
		r.env.retry = retryFor(kv)
		if err := r.env.reopen(r.w); err != nil {
			return "err open", ""
		}
		base := "resume"
		if r.pending != "" {
			base += "." + r.pending
			r.pending = ""
		}
		return r.syncAndReport(kv, r.ctx(base))
	case "rstate":
		if r.env == nil || r.env.w == nil {
			return "bad-op", ""
		}
		return r.state(), ""
	case "bday":
		return r.birthday(kv)
	}
	return "bad-op", ""
}

func (r *recRunner) parseTx(s string) (*rTx, error) {
	p := strings.Split(s, ":")
	if len(p) != 3 {
		return nil, fmt.Errorf("tx syntax")
	}
	t := &rTx{id: atoi(p[0])}
	if r.txs[t.id] != nil {
		return nil, fmt.Errorf("dup tx")
	}
	msg := wire.NewMsgTx(2)
	for k, in := range strings.Split(p[1], "+") {
		if in == "" {
			continue
		}
		if in == "e" {
			op := extOutPoint(t.id*16 + k)
			msg.AddTxIn(wire.NewTxIn(&op, nil, nil))
			t.inRf = append(t.inRf, [2]int{-1, -1})
			continue
		}
		q := strings.Split(in, ".")
		if len(q) != 2 || r.txs[atoi(q[0])] == nil {
			return nil, fmt.Errorf("in syntax")
		}
		op := wire.OutPoint{Hash: r.txs[atoi(q[0])].msg.TxHash(), Index: uint32(atoi(q[1]))}
		msg.AddTxIn(wire.NewTxIn(&op, nil, nil))
		t.inRf = append(t.inRf, [2]int{atoi(q[0]), atoi(q[1])})
	}
	for k, o := range strings.Split(p[2], "+") {
		if o == "" {
			continue
		}
		q := strings.Split(o, ".")
		if q[0] == "x" && len(q) == 2 {
			msg.AddTxOut(wire.NewTxOut(int64(atoi(q[1])), foreignScript(t.id*16+k)))
			t.outs = append(t.outs, rOut{0, 0, 0, int64(atoi(q[1]))})
			continue
		}
		if len(q) != 4 {
			return nil, fmt.Errorf("out syntax")
		}
		a, err := truthAddr(r.seed, atoi(q[0]), atoi(q[1]), atoi(q[2]))
		if err != nil {
			return nil, err
		}
		msg.AddTxOut(wire.NewTxOut(int64(atoi(q[3])), payScript(a)))
		t.outs = append(t.outs, rOut{atoi(q[0]), atoi(q[1]), atoi(q[2]), int64(atoi(q[3]))})
	}
	t.msg = msg
	r.txs[t.id] = t
	r.order = append(r.order, t)
	return t, nil
}

// interruptOK validates the interruption options of rrecover / rrestart (the Lean driver applies the same rules).
func (r *recRunner) interruptOK(kv map[string]string) bool {
	lockat, failat := atoi(kv["lockat"]), atoi(kv["failat"])
	if kv["halt"] != "" && (kv["halt"] != "1" || failat == 0) {
		return false
	}
	if lockat == 0 {
		return kv["how"] == ""
	}
	if failat != 0 {
		return false
	}
	switch kv["how"] {
	case "lock", "timeout":
		return true
	case "stop":
		// stopping while the LAST block is fetched races with the final rescan: not generated
		return int32(lockat) > r.scanned && int32(lockat) < r.env.fc.tip().height
	}
	return false
}

func retryFor(kv map[string]string) time.Duration {
	if kv["halt"] == "1" {
		return time.Hour
	}
	return 0
}

// account does the ground-truth bookkeeping for the blocks up to height upTo, scanned with the window in force: the
// look-ahead hypothesis (every index a block pays is < W beyond the highest index paid in EARLIER blocks).
func (r *recRunner) account(upTo int32) {
	for h := r.scanned + 1; h <= upTo; h++ {
		blockMax := map[[2]int]int{}
		for _, t := range r.order {
			if t.h != h {
				continue
			}
			for _, o := range t.outs {
				if o.scope == 0 || !r.hasScope(o.scope) {
					continue
				}
				k := [2]int{o.scope, o.branch}
				nu := 0
				if m, ok := r.paidMax[k]; ok {
					nu = m + 1
				}
				if o.index >= nu+int(r.w) {
					r.hypOK = false
				}
				if m, ok := blockMax[k]; !ok || o.index > m {
					blockMax[k] = o.index
				}
			}
		}
		for k, m := range blockMax {
			if old, ok := r.paidMax[k]; !ok || m > old {
				r.paidMax[k] = m
			}
		}
	}
	if upTo > r.scanned {
		r.scanned = upTo
	}
}

// waitParked waits until a goroutine running `fn` is blocked on a channel receive (the wallet's locker goroutine or
// Stop waiting for recovery() to return: by then the recovery's quit flag is set).
//
// The condition is a state of the real wallet, not a guess about elapsed time; the limit is only a backstop against a
// wallet that never gets there (it used to be 2 s, which a starved machine can exceed: the hold would then be released
// before the quit flag is set and the recovery would run on uninterrupted — notes/FLAKES.md).
func waitParked(fn string) bool {
	deadline := time.Now().Add(hardLimit(2 * time.Second))
	for {
		if goroutineParked(fn, "chan receive") {
			return true
		}
		if time.Now().After(deadline) {
			noteHardTimeout()
			return false
		}
		time.Sleep(time.Millisecond)
	}
}

func (r *recRunner) syncAndReport(kv map[string]string, ctx string) (string, string) {
	fc := r.env.fc
	lockat, how, halt := int32(atoi(kv["lockat"])), kv["how"], kv["halt"] == "1"
	fc.mu.Lock()
	fc.filterCalls = 0
	fc.filterFailAt = atoi(kv["failat"])
	fc.failHeight = 0
	fc.mu.Unlock()
	tip := fc.tip().height
	catchingUp := fc.notCurrent()
	if catchingUp {
		// C16 quantifies over every backend the wallet may be started against: a node in initial block download
		ctx += ".backend-catching-up"
	}
	// the quit flag is looked at once per height, before the block is fetched: an interruption while the last block
	// (or a block outside the range) is fetched changes nothing
	interrupts := lockat > r.scanned && lockat < tip
	if lockat != 0 {
		fc.armHold(lockat)
		defer fc.disarmHold()
	}
	if !r.env.beginSync() {
		return "sync-stuck", ""
	}
wait:
	for {
		switch r.env.waitSync(generousLimit) {
		case "stuck":
			return "sync-stuck", ""
		case "done":
			break wait
		case "failed":
			if !halt {
				continue // syncWithChain fails and is retried in-process by waitForSync
			}
			// Stop waits for the failed attempt to unwind (the batch's database transaction is rolled back); the
			// retry timer (1 h) never fires: the next attempt is made by a "new process" (rrestart)
			r.env.stop()
			fc.mu.Lock()
			fh := fc.failHeight
			fc.mu.Unlock()
			// what the earlier batches committed stays
			r.account(r.scanned + (fh-1-r.scanned)/recBatch*recBatch)
			r.pending = "after-failed-batch"
			return "failed-and-stopped", ""
		case "hold":
			fc.mu.Lock()
			release := fc.holdRelease
			fc.mu.Unlock()
			switch how {
			case "lock":
				r.env.w.Lock()
				waitParked("wallet.(*Wallet).walletLocker")
			case "timeout":
				ch := make(chan time.Time)
				if err := r.env.w.Unlock(prvPass, ch); err != nil {
					close(release)
					return "err unlock", ""
				}
				ch <- time.Now()
				waitParked("wallet.(*Wallet).walletLocker")
			case "stop":
				done := make(chan struct{})
				go func() { r.env.stop(); close(done) }()
				waitParked("wallet.(*Wallet).Stop")
				close(release)
				select {
				case <-done:
				case <-time.After(stopTimeout + 10*time.Second): // env.stop gives up by itself after stopTimeout
					return "sync-stuck", ""
				}
				// the batches completed before the interruption are committed
				r.account(r.scanned + (lockat-r.scanned)/recBatch*recBatch)
				r.pending = "after-stop-interrupt"
				return "interrupted-and-stopped", ""
			}
			close(release)
		}
	}
	if fc.notCurrent() {
		// the wallet completed its start-up sync without ever waiting for the backend to become current: it is synced to
		// what the node served, not to the chain of the script — outside this engine's ground truth
		fc.liftNotCurrent()
		r.tainted = true
		return "synced-to-backend-not-current", ""
	}
	// ground truth bookkeeping: look-ahead hypothesis for the blocks just scanned, with the window in force
	r.account(tip)
	fc.mu.Lock()
	fired := fc.filterFailAt != 0 && fc.filterCalls >= fc.filterFailAt
	fc.mu.Unlock()
	if fired {
		// syncWithChain failed once and was retried in-process by waitForSync
		r.tainted = true
		return "retried-after-failure", r.oracle("retry-after-failed-batch")
	}
	if interrupts {
		ctx += map[string]string{"lock": ".interrupted-by-lock", "timeout": ".interrupted-by-unlock-timeout"}[how]
	}
	// hyp: the oracle's own evaluation of the look-ahead hypothesis; the Lean driver evaluates the hypotheses of
	// theorem C16_complete (checkWF && checkLA) on the same chain and the two must agree
	hyp := 0
	if r.hypOK {
		hyp = 1
	}
	return fmt.Sprintf("%s hyp=%d", r.state(), hyp), r.oracle(ctx)
}

// ctx tags the oracle keys of a resumed recovery with what happened to recovered outputs before it.
func (r *recRunner) ctx(base string) string {
	if r.leases > 0 {
		base += ".leased-output"
	}
	if r.mempool > 0 {
		base += ".unmined-spend"
	}
	return base
}

func (r *recRunner) hasScope(s int) bool {
	for _, x := range r.scopes {
		if x == s {
			return true
		}
	}
	return false
}

type utxo struct {
	tx, idx int
	amt     int64
}

func (r *recRunner) observe() (next map[[2]int]int, used [][3]int, bal int64, utxos []utxo, txs [][2]int) {
	next = map[[2]int]int{}
	w := r.env.w
	idOf := map[chainhash.Hash]int{}
	for _, t := range r.order {
		idOf[t.msg.TxHash()] = t.id
	}
	_ = walletdb.View(w.Database(), func(tx walletdb.ReadTx) error {
		ans := tx.ReadBucket(namespaces.addr)
		tns := tx.ReadBucket(namespaces.tx)
		for _, s := range r.scopes {
			mgr, err := w.Manager.FetchScopedKeyManager(scopeByTag[s])
			if err != nil {
				continue
			}
			props, err := mgr.AccountProperties(ans, 0)
			if err != nil {
				continue
			}
			next[[2]int{s, 0}] = int(props.ExternalKeyCount)
			next[[2]int{s, 1}] = int(props.InternalKeyCount)
			for b := 0; b < 2; b++ {
				for i := 0; i < next[[2]int{s, b}]; i++ {
					a, err := truthAddr(r.seed, s, b, i)
					if err != nil {
						continue
					}
					ma, err := w.Manager.Address(ans, a)
					if err != nil {
						used = append(used, [3]int{s, b, -1 - i}) // not known although below next: shows as negative
						continue
					}
					if ma.Used(ans) {
						used = append(used, [3]int{s, b, i})
					}
				}
			}
		}
		cs, _ := w.TxStore.UnspentOutputs(tns)
		for _, c := range cs {
			id, ok := idOf[c.OutPoint.Hash]
			if !ok {
				id = -1
			}
			utxos = append(utxos, utxo{id, int(c.OutPoint.Index), int64(c.Amount)})
		}
		if b := tns.NestedReadBucket([]byte("t")); b != nil {
			_ = b.ForEach(func(k, _ []byte) error {
				if len(k) != 68 {
					return nil
				}
				var th chainhash.Hash
				copy(th[:], k[:32])
				id, ok := idOf[th]
				if !ok {
					id = -1
				}
				txs = append(txs, [2]int{id, int(uint32(k[32])<<24 | uint32(k[33])<<16 | uint32(k[34])<<8 | uint32(k[35]))})
				return nil
			})
		}
		return nil
	})
	b, err := w.CalculateBalance(1)
	if err == nil {
		bal = int64(b)
	} else {
		bal = -1
	}
	sort.Slice(used, func(i, j int) bool {
		for k := 0; k < 3; k++ {
			if used[i][k] != used[j][k] {
				return used[i][k] < used[j][k]
			}
		}
		return false
	})
	sort.Slice(utxos, func(i, j int) bool {
		if utxos[i].tx != utxos[j].tx {
			return utxos[i].tx < utxos[j].tx
		}
		return utxos[i].idx < utxos[j].idx
	})
	sort.Slice(txs, func(i, j int) bool { return txs[i][0] < txs[j][0] })
	return
}

func (r *recRunner) state() string {
	next, used, bal, utxos, txs := r.observe()
	var ns, us, os, ts []string
	for _, s := range r.scopes {
		ns = append(ns, fmt.Sprintf("%d:%d/%d", s, next[[2]int{s, 0}], next[[2]int{s, 1}]))
	}
	for _, u := range used {
		us = append(us, fmt.Sprintf("%d.%d.%d", u[0], u[1], u[2]))
	}
	for _, o := range utxos {
		os = append(os, fmt.Sprintf("%d.%d:%d", o.tx, o.idx, o.amt))
	}
	for _, t := range txs {
		ts = append(ts, fmt.Sprintf("%d@%d", t[0], t[1]))
	}
	return fmt.Sprintf("next=%s used=%s bal=%d utxo=%s txs=%s", strings.Join(ns, ","), strings.Join(us, ","), bal,
		strings.Join(os, ","), strings.Join(ts, ","))
}

// oracle: ground truth computed from the script alone (C16 "complete"), only when the look-ahead hypothesis held
// for every scanned block.
func (r *recRunner) oracle(ctx string) string {
	v := r.oracle1(ctx)
	if ctx == "retry-after-failed-batch" && v != "" {
		// one stable key for every consequence of the in-memory/on-disk desync after a rolled-back batch
		first := strings.SplitN(v, "; ", 2)[0]
		if i := strings.Index(first, ": "); i >= 0 {
			first = first[i+2:]
		}
		return "C16 key=retry-after-failed-batch: recovery retried in-process after a failed batch: " + first
	}
	if (r.leases > 0 || r.mempool > 0) && v != "" {
		// one stable key for every consequence of Resurrect being fed UnspentOutputs (wallet.go:732): leased outputs
		// and outputs spent by an unmined transaction are not re-watched by a resumed recovery
		first := strings.SplitN(v, "; ", 2)[0]
		if i := strings.Index(first, ": "); i >= 0 {
			first = first[i+2:]
		}
		return "C16 key=resume-unwatched-output: resumed recovery does not watch a leased output / an output spent by an unmined transaction (" + ctx + "): " + first
	}
	return v
}

func (r *recRunner) oracle1(ctx string) string {
	if !r.hypOK {
		return ""
	}
	next, used, bal, utxos, txs := r.observe()
	var v []string
	// next index above the highest used one, every paid key used
	usedSet := map[[3]int]bool{}
	for _, u := range used {
		usedSet[u] = true
	}
	for k, m := range r.paidMax {
		if next[k] <= m {
			v = append(v, fmt.Sprintf("C16 key=next-index.%s: scope %d branch %d next index %d is not above the highest paid index %d", ctx, k[0], k[1], next[k], m))
			break
		}
	}
	wantTx := map[int]bool{}
	spent := map[[2]int]bool{}
	own := map[[2]int]int64{}
	for _, t := range r.order {
		if t.h == 0 || t.h > r.scanned {
			continue
		}
		rel := false
		for i, o := range t.outs {
			if o.scope != 0 && r.hasScope(o.scope) {
				rel = true
				own[[2]int{t.id, i}] = o.amt
				if !usedSet[[3]int{o.scope, o.branch, o.index}] {
					v = append(v, fmt.Sprintf("C16 key=used-address.%s: paid address %d/%d/%d (tx %d) not found / not marked used", ctx, o.scope, o.branch, o.index, t.id))
				}
			}
		}
		for _, in := range t.inRf {
			if _, ok := own[in]; ok {
				rel = true
				spent[in] = true
			}
		}
		if rel {
			wantTx[t.id] = true
		}
	}
	have := map[int]bool{}
	for _, t := range txs {
		have[t[0]] = true
	}
	for id := range wantTx {
		if !have[id] {
			v = append(v, fmt.Sprintf("C16 key=missing-tx.%s: transaction %d pays to or spends from the wallet but is not recorded", ctx, id))
			break
		}
	}
	// CalculateBalance / UnspentOutputs legitimately leave out leased outputs and outputs spent by an unmined
	// transaction the wallet holds
	for _, t := range r.order {
		if t.h == 0 {
			for _, in := range t.inRf {
				if _, ok := own[in]; ok {
					spent[in] = true
				}
			}
		}
	}
	for op := range r.leased {
		spent[op] = true
	}
	var want int64
	wantU := map[[2]int]int64{}
	for op, a := range own {
		if !spent[op] {
			want += a
			wantU[op] = a
		}
	}
	if bal != want {
		v = append(v, fmt.Sprintf("C16 key=balance.%s: balance %d, ledger truth %d", ctx, bal, want))
	}
	if len(utxos) != len(wantU) {
		v = append(v, fmt.Sprintf("C16 key=utxo-set.%s: %d unspent outputs, ledger truth %d", ctx, len(utxos), len(wantU)))
	} else {
		for _, u := range utxos {
			if wantU[[2]int{u.tx, u.idx}] != u.amt {
				v = append(v, fmt.Sprintf("C16 key=utxo-set.%s: unexpected unspent output %d.%d", ctx, u.tx, u.idx))
				break
			}
		}
	}
	if len(v) > 3 {
		v = v[:3]
	}
	return strings.Join(v, "; ")
}

// birthday: a fresh wallet (birthday block not set) started against a chain with the given timestamps runs
// locateBirthdayBlock inside syncWithChain and stores the result as its birthday block.
func (r *recRunner) birthday(kv map[string]string) (string, string) {
	env, err := newEnv()
	if err != nil {
		return "err env", ""
	}
	defer env.close()
	best := atoi(kv["best"])
	ts := core.CSV(kv["ts"])
	if len(ts) != best {
		return "bad-op", ""
	}
	times := []int64{params.GenesisBlock.Header.Timestamp.Unix()}
	for i, s := range ts {
		t, _ := strconv.ParseInt(s, 10, 64)
		b, err := env.fc.declare(i+1, i, t, nil)
		if err != nil || env.fc.push(b) != nil {
			return "bad-op", ""
		}
		times = append(times, t)
	}
	bd, _ := strconv.ParseInt(kv["b"], 10, 64)
	// waddrmgr.Create stores birthday-48h ("margin of safety"); `b` is the manager's birthday, the value
	// syncWithChain passes to locateBirthdayBlock.
	if err := env.create(seedFor(1), time.Unix(bd, 0).Add(48*time.Hour), 0); err != nil {
		return "err create", ""
	}
	if env.w.Manager.Birthday().Unix() != bd {
		return "err birthday-offset", ""
	}
	if !env.startSync(generousLimit) {
		return "sync-stuck", ""
	}
	bs, err := env.w.BirthdayBlock()
	if err != nil {
		return "err bday", ""
	}
	rh := int(bs.Height)
	v := ""
	delta, _ := strconv.ParseInt(kv["delta"], 10, 64)
	// C16 (birthday not late), on the real result: r = 0, or the timestamp of r (hence of every block up to r) is at
	// most birthday + delta; scanning starts at r + 1.
	if rh != 0 && times[rh] > bd+delta {
		v = fmt.Sprintf("C16 key=birthday-late: birthday block %d has timestamp %d > birthday %d + %d", rh, times[rh], bd, delta)
	}
	if s := env.w.Manager.SyncedTo(); int(s.Height) != best {
		v = joinV(v, fmt.Sprintf("C16 key=birthday-sync: wallet did not sync to the tip after locating the birthday block (%d of %d)", s.Height, best))
	}
	return fmt.Sprintf("r=%d", rh), v
}

// ---- generator ----

func (recEngine) Generate(rng *rand.Rand, tier string) []core.Case {
	var cases []core.Case
	thorough := tier == "thorough"

	// (a) branch API scripts
	nScripts := 1500
	if thorough {
		nScripts = 20000
	}
	for i := 0; i < nScripts/25; i++ {
		var ops []string
		for k := 0; k < 25; k++ {
			w := []int{0, 1, 1, 2, 3, 5, 20}[rng.Intn(7)]
			ops = append(ops, fmt.Sprintf("bnew w=%d", w))
			var inv []int
			for j := 0; j < rng.Intn(4); j++ {
				inv = append(inv, rng.Intn(3*w+8))
			}
			invs := func() string {
				var s []string
				for _, x := range inv {
					s = append(s, strconv.Itoa(x))
				}
				return strings.Join(s, ",")
			}
			found := 0
			for j := 0; j < 3+rng.Intn(10); j++ {
				switch x := rng.Intn(10); {
				case x < 4:
					ops = append(ops, "bexpand inv="+invs())
				case x < 7:
					// found within / at the edge of / beyond the watched range
					f := found + rng.Intn(w+2)
					ops = append(ops, fmt.Sprintf("bfound i=%d", f))
					if f >= found {
						found = f + 1
					}
				case x < 8:
					ops = append(ops, "bext")
				case x < 9:
					ops = append(ops, fmt.Sprintf("binv i=%d", rng.Intn(3*w+8)))
				default:
					ops = append(ops, fmt.Sprintf("badd i=%d", rng.Intn(3*w+8)))
				}
				if rng.Intn(3) == 0 {
					ops = append(ops, "bst")
				}
			}
			ops = append(ops, "bexpand inv="+invs(), "bst")
		}
		cases = append(cases, core.Case{Ops: ops, Tags: []string{"branch-api"}})
	}

	// (a') disciplined scripts: one invalid set, founds only on watched indexes (what the recovery loop does)
	for i := 0; i < nScripts/50; i++ {
		var ops []string
		for k := 0; k < 10; k++ {
			w := []int{1, 1, 2, 3, 5, 20}[rng.Intn(6)]
			ops = append(ops, fmt.Sprintf("bnew w=%d", w))
			invSet := map[int]bool{}
			for j := 0; j < rng.Intn(5); j++ {
				invSet[rng.Intn(2*w+6)] = true
			}
			var invL []string
			for x := 0; x < 2*w+6; x++ {
				if invSet[x] {
					invL = append(invL, strconv.Itoa(x))
				}
			}
			inv := strings.Join(invL, ",")
			nu := 0
			for j := 0; j < 2+rng.Intn(6); j++ {
				ops = append(ops, "bexpand inv="+inv)
				// report a watched valid index in [nu, nu+w): pick the next valid ones
				f := nu + rng.Intn(w)
				for invSet[f] {
					f++
				}
				ops = append(ops, fmt.Sprintf("bfound i=%d", f))
				if f >= nu {
					nu = f + 1
				}
			}
			ops = append(ops, "bexpand inv="+inv, "bst")
		}
		cases = append(cases, core.Case{Ops: ops, Tags: []string{"branch-api", "disciplined"}})
	}

	// (b) full loop
	gt := params.GenesisBlock.Header.Timestamp.Unix()
	nChains := 10
	ws := []int{1, 2, 5}
	if thorough {
		nChains = 150
		ws = []int{1, 2, 3, 5, 20}
	}
	for c := 0; c < nChains; c++ {
		for _, w := range ws {
			cases = append(cases, genChain(rng, gt, w, 8+rng.Intn(18), false, c))
		}
	}
	// (b') a recovered output is leased / spent by an unmined transaction before the recovery is resumed
	nHidden := 8
	if thorough {
		nHidden = 80
	}
	for c := 0; c < nHidden; c++ {
		cases = append(cases, genHidden(rng, gt, c))
	}
	// batch boundary: > 2000 blocks, payments on both sides of the boundary, failure in the second batch
	nLong := 2
	if thorough {
		nLong = 4
	}
	for c := 0; c < nLong; c++ {
		cases = append(cases, genChain(rng, gt, 3, 2100, true, c))
	}

	// (c) birthday
	nB := 120
	if thorough {
		nB = 1500
	}
	var ops []string
	for i := 0; i < nB; i++ {
		best := []int{0, 1, 2, 3, 4, 7, 16, 33}[rng.Intn(8)]
		if rng.Intn(4) == 0 {
			best = rng.Intn(60)
		}
		t := gt
		var ts []string
		var all []int64
		for h := 1; h <= best; h++ {
			switch rng.Intn(5) {
			case 0:
				// equal timestamps
			case 1:
				t += int64(rng.Intn(4 * 3600))
			default:
				t += int64(rng.Intn(1800))
			}
			ts = append(ts, strconv.FormatInt(t, 10))
			all = append(all, t)
		}
		var b int64
		switch rng.Intn(6) {
		case 0:
			b = gt - int64(rng.Intn(100000))
		case 1:
			b = t + int64(rng.Intn(100000))
		case 2:
			if len(all) > 0 {
				b = all[rng.Intn(len(all))] + []int64{-7201, -7200, -7199, 0, 7199, 7200, 7201}[rng.Intn(7)]
			} else {
				b = gt
			}
		default:
			b = gt + rng.Int63n(t-gt+1)
		}
		ops = append(ops, fmt.Sprintf("bday best=%d ts=%s b=%d delta=7200 g=%d", best, strings.Join(ts, ","), b, gt))
		if len(ops) == 20 {
			cases = append(cases, core.Case{Ops: ops, Tags: []string{"birthday"}})
			ops = nil
		}
	}
	if len(ops) > 0 {
		cases = append(cases, core.Case{Ops: ops, Tags: []string{"birthday"}})
	}

	// (b'') interrupted-and-resumed recoveries (generated last: the cases above do not depend on them)
	nIntr := 6
	if thorough {
		nIntr = 40
	}
	for c := 0; c < nIntr; c++ {
		for _, kind := range []string{"lock", "timeout", "stop", "halt"} {
			for _, resumed := range []bool{false, true} {
				w := ws[rng.Intn(len(ws))]
				cases = append(cases, genInterrupted(rng, gt, w, 6+rng.Intn(16), false, kind, resumed, c))
			}
		}
	}
	// … across the batch boundary: the first batch is committed when the run ends early
	for i, kind := range []string{"lock", "stop", "halt", "timeout"} {
		if i >= 3 && !thorough {
			break
		}
		cases = append(cases, genInterrupted(rng, gt, 3, 2100, true, kind, i%2 == 1, i))
	}
	// (b-main) production-network parameters, backend still in initial block download when the wallet connects
	// (round-3 seed C16-7): generated last; every start-up sync on MainNet costs >= 1 s (the wait's first tick)
	mgt := chaincfg.MainNetParams.GenesisBlock.Header.Timestamp.Unix()
	nNC := 1
	if thorough {
		nNC = 6
	}
	for c := 0; c < nNC; c++ {
		for _, resumed := range []bool{false, true} {
			w := ws[rng.Intn(len(ws))]
			cases = append(cases, genNotCurrent(rng, mgt, w, 8+rng.Intn(10), resumed, c))
		}
	}
	return cases
}

// genNotCurrent: a wallet on MainNet parameters is restored from seed (or restarted after the chain grew) while its
// full-node backend is still downloading the chain: the node serves heights <= k only and reports IsCurrent() = false
// when the wallet connects, and has the whole chain the second time it is polled.  Payments above k go to addresses
// that are only reachable through the look-ahead.  The completeness oracle is evaluated at the end, as everywhere.
func genNotCurrent(rng *rand.Rand, gt int64, w, nBlocks int, resumed bool, c int) core.Case {
	tags := []string{"full-loop", fmt.Sprintf("window-%d", w), "mainnet", "backend-catching-up"}
	ops := []string{fmt.Sprintf("rinit seed=%d scopes=44,49,84,86 batch=2000 net=main", 1+c%3)}
	g := newChainGen(rng, gt, w, false)
	from := 0
	if resumed {
		tags = append(tags, "resumed")
		first := 1 + rng.Intn(nBlocks-3)
		ops = append(ops, g.blocks(first)...)
		ops = append(ops, fmt.Sprintf("rrecover w=%d locked=%d failat=0", w, rng.Intn(2)))
		ops = append(ops, g.blocks(nBlocks-first)...)
		from = first
	} else {
		ops = append(ops, g.blocks(nBlocks)...)
	}
	// the node's download height when the wallet connects: anywhere from the wallet's own tip to just below the tip
	k := from + rng.Intn(nBlocks-from-1)
	ops = append(ops, fmt.Sprintf("rnotcurrent until=%d", k))
	if resumed {
		ops = append(ops, fmt.Sprintf("rrestart w=%d failat=0", w))
	} else {
		ops = append(ops, fmt.Sprintf("rrecover w=%d locked=%d failat=0", w, rng.Intn(2)))
	}
	ops = append(ops, "rstate")
	// and once more against a current backend after the chain grew
	ops = append(ops, g.blocks(1+rng.Intn(3))...)
	ops = append(ops, fmt.Sprintf("rrestart w=%d failat=0", w), "rstate")
	return core.Case{Ops: ops, Tags: tags}
}

// genHidden: block 1 pays a wallet address, recovery finds the output; then the output is leased or an unmined
// transaction spending it reaches the wallet (or neither: control), the wallet is stopped, the next block spends the
// output without paying the wallet (or pays the wallet elsewhere: control), and the recovery is resumed.
func genHidden(rng *rand.Rand, gt int64, c int) core.Case {
	w := 2 + rng.Intn(3)
	sc := []int{44, 49, 84, 86}[rng.Intn(4)]
	br, idx := rng.Intn(2), rng.Intn(w)
	amt := 20000 + rng.Intn(50000)
	ops := []string{fmt.Sprintf("rinit seed=%d scopes=44,49,84,86 batch=2000", 1+c%3)}
	h := 1
	blk := func(txs string) {
		ops = append(ops, fmt.Sprintf("rblk t=%d txs=%s", gt+int64(h)*600, txs))
		h++
	}
	blk(fmt.Sprintf("1:e:%d.%d.%d.%d+x.1234", sc, br, idx, amt))
	for i := 0; i < rng.Intn(3); i++ {
		blk("")
	}
	ops = append(ops, fmt.Sprintf("rrecover w=%d locked=%d failat=0", w, rng.Intn(2)))
	variant := c % 4
	tags := []string{"full-loop", "resumed", []string{"leased-output-spent", "unmined-spend-mined", "leased-output-kept", "plain-spend"}[variant]}
	spend := fmt.Sprintf("2:1.0:x.%d", amt-1000)
	switch variant {
	case 0: // leased, then spent on chain while the wallet is down
		ops = append(ops, "rlease op=1.0")
		blk(spend)
	case 1: // spent by an unmined transaction the wallet knows, mined while the wallet is down
		ops = append(ops, "rmempool tx="+spend)
		blk("m2")
	case 2: // control: leased, not spent; another payment arrives
		ops = append(ops, "rlease op=1.0")
		blk(fmt.Sprintf("2:e:%d.%d.%d.%d", sc, br, idx+1, amt/2))
	default: // control: spent, nothing hidden
		blk(spend)
	}
	for i := 0; i < rng.Intn(2); i++ {
		blk("")
	}
	ops = append(ops, fmt.Sprintf("rrestart w=%d failat=0", w))
	if variant == 0 || variant == 2 {
		ops = append(ops, "rrelease op=1.0")
	}
	ops = append(ops, "rstate")
	return core.Case{Ops: ops, Tags: tags}
}

// chainGen produces the blocks of one full-loop case: payments to chosen (scope, branch, index) patterns relative to
// the next unfound index before the block (reuse, next, jump of exactly W-1, anything within the window, and — when
// `violate` — W and W+1, outside the hypothesis), spends of own outputs.
type chainGen struct {
	rng     *rand.Rand
	gt      int64
	w       int
	long    bool
	violate bool
	next    map[[2]int]int // next unfound per branch according to the payments so far
	unspent [][2]int
	txid    int
	h       int
}

func newChainGen(rng *rand.Rand, gt int64, w int, long bool) *chainGen {
	return &chainGen{rng: rng, gt: gt, w: w, long: long, next: map[[2]int]int{}, txid: 1, h: 1}
}

func (g *chainGen) mkBlock(dense bool) string {
	rng, w := g.rng, g.w
	scopes := []int{44, 49, 84, 86}
	var txs []string
	n := 0
	if dense {
		n = 1 + rng.Intn(3)
	} else if !g.long && rng.Intn(3) > 0 {
		n = 1 + rng.Intn(2)
	}
	blockNext := map[[2]int]int{}
	for k, v := range g.next {
		blockNext[k] = v
	}
	for i := 0; i < n; i++ {
		var ins, outs []string
		// inputs: external, or spend an own unspent output
		if len(g.unspent) > 0 && rng.Intn(3) == 0 {
			k := rng.Intn(len(g.unspent))
			ins = append(ins, fmt.Sprintf("%d.%d", g.unspent[k][0], g.unspent[k][1]))
			g.unspent = append(g.unspent[:k], g.unspent[k+1:]...)
		} else {
			ins = append(ins, "e")
		}
		nout := 1 + rng.Intn(3)
		for o := 0; o < nout; o++ {
			if rng.Intn(5) == 0 {
				outs = append(outs, fmt.Sprintf("x.%d", 1000+rng.Intn(1000)))
				continue
			}
			s := scopes[rng.Intn(4)]
			b := rng.Intn(2)
			k := [2]int{s, b}
			// index relative to the next unfound index BEFORE this block: reuse, next, jump of exactly W-1 beyond, W (edge), W+1 (miss)
			base := g.next[k]
			var idx int
			switch x := rng.Intn(10); {
			case x < 2 && base > 0:
				idx = rng.Intn(base)
			case x < 5:
				idx = base
			case x < 8:
				idx = base + w - 1
			case x < 9 || !g.violate:
				idx = base + rng.Intn(w)
			default:
				idx = base + w + rng.Intn(2)
			}
			if idx+1 > blockNext[k] {
				blockNext[k] = idx + 1
			}
			outs = append(outs, fmt.Sprintf("%d.%d.%d.%d", s, b, idx, 10000+g.txid*10+o))
			g.unspent = append(g.unspent, [2]int{g.txid, o})
		}
		txs = append(txs, fmt.Sprintf("%d:%s:%s", g.txid, strings.Join(ins, "+"), strings.Join(outs, "+")))
		g.txid++
	}
	g.next = blockNext
	return fmt.Sprintf("rblk t=%d txs=%s", g.gt+int64(g.h)*600, strings.Join(txs, ";"))
}

// blocks emits the next n blocks (long chains: dense only around the batch boundary and at a few heights).
func (g *chainGen) blocks(n int) []string {
	var ops []string
	for i := 0; i < n; i++ {
		dense := !g.long || (g.h%997 == 3) || (g.h >= 1995 && g.h <= 2006)
		ops = append(ops, g.mkBlock(dense))
		g.h++
	}
	return ops
}

// genChain builds one full-loop case: a chain paying chosen (scope, branch, index) patterns.
func genChain(rng *rand.Rand, gt int64, w, nBlocks int, long bool, c int) core.Case {
	tags := []string{"full-loop", fmt.Sprintf("window-%d", w)}
	ops := []string{fmt.Sprintf("rinit seed=%d scopes=44,49,84,86 batch=2000", 1+c%3)}
	g := newChainGen(rng, gt, w, long)
	g.violate = rng.Intn(4) == 0 // allow jumps beyond the window (may be missed; not flagged)
	if g.violate {
		tags = append(tags, "beyond-window")
	}
	first := nBlocks
	if !long && rng.Intn(2) == 0 {
		first = 1 + rng.Intn(nBlocks)
	}
	ops = append(ops, g.blocks(first)...)
	fail := 0
	if rng.Intn(3) == 0 {
		fail = 1 + rng.Intn(6)
		tags = append(tags, "filterblocks-failure")
	}
	if long {
		fail = 0
		if c > 0 {
			fail = 4 + rng.Intn(4)
		}
		tags = append(tags, "batch-boundary")
	}
	ops = append(ops, fmt.Sprintf("rrecover w=%d locked=%d failat=%d", w, rng.Intn(2), fail))
	if first < nBlocks {
		ops = append(ops, g.blocks(nBlocks-first)...)
		tags = append(tags, "resumed")
		ops = append(ops, fmt.Sprintf("rrestart w=%d failat=%d", w, rng.Intn(3)))
	}
	ops = append(ops, "rstate")
	return core.Case{Ops: ops, Tags: tags}
}

// genInterrupted builds one full-loop case in which a run of recovery() ENDS EARLY and the recovery is resumed:
//
//	kind lock / timeout  the wallet is locked (Wallet.Lock / unlock timeout) while the block loop fetches block k:
//	                     syncWithChain fails and is retried in-process
//	kind stop            the wallet is stopped and unloaded at that point; a later rrestart resumes
//	kind halt            FilterBlocks fails inside a batch and the wallet is stopped before any in-process retry
//	                     (sync retry interval 1 h); a later rrestart resumes in a "new process"
//
// in the first run (`resumed` = false: recovery from seed) or in a later run over new blocks (`resumed` = true).
// C16 quantifies over interrupted-and-resumed recoveries: the completeness oracle is evaluated on every final state.
func genInterrupted(rng *rand.Rand, gt int64, w, nBlocks int, long bool, kind string, resumed bool, c int) core.Case {
	tags := []string{"full-loop", fmt.Sprintf("window-%d", w), "interrupted", "interrupted-" + kind}
	ops := []string{fmt.Sprintf("rinit seed=%d scopes=44,49,84,86 batch=2000", 1+c%3)}
	g := newChainGen(rng, gt, w, long)
	g.violate = rng.Intn(6) == 0
	if g.violate {
		tags = append(tags, "beyond-window")
	}
	if long {
		tags = append(tags, "batch-boundary")
	}
	from := 0 // height the interrupted run starts above
	if resumed {
		tags = append(tags, "resumed")
		first := 1 + rng.Intn(nBlocks-2)
		if long {
			first = 3 + rng.Intn(20)
		}
		ops = append(ops, g.blocks(first)...)
		ops = append(ops, fmt.Sprintf("rrecover w=%d locked=%d failat=0", w, rng.Intn(2)))
		ops = append(ops, g.blocks(nBlocks-first)...)
		from = first
	} else {
		ops = append(ops, g.blocks(nBlocks)...)
	}
	head := fmt.Sprintf("rrestart w=%d", w)
	if !resumed {
		head = fmt.Sprintf("rrecover w=%d locked=%d", w, rng.Intn(2))
	}
	stopped := false
	switch kind {
	case "lock", "timeout":
		// anywhere in the run; the last block (not noticed) is a control
		k := from + 1 + rng.Intn(nBlocks-from)
		if long {
			k = from + recBatch + rng.Intn(nBlocks-from-recBatch) // after the first batch was committed
		}
		ops = append(ops, fmt.Sprintf("%s failat=0 lockat=%d how=%s", head, k, kind))
	case "stop":
		k := from + 1 + rng.Intn(nBlocks-from-1)
		if long {
			k = from + recBatch + rng.Intn(nBlocks-from-recBatch)
		}
		ops = append(ops, fmt.Sprintf("%s failat=0 lockat=%d how=stop", head, k))
		stopped = true
	case "halt":
		n := 1 + rng.Intn(3)
		if long {
			n = 10 + rng.Intn(5) // batch 1 makes about 9 requests (its dense blocks), batch 2 about 7
		}
		ops = append(ops, fmt.Sprintf("%s failat=%d halt=1", head, n))
		stopped = true // unless the run makes fewer than n requests: then the rrestart below is a plain restart
	}
	// the chain may grow while the wallet is down / before the next restart
	more := 0
	if !long && rng.Intn(2) == 0 {
		more = 1 + rng.Intn(4)
		ops = append(ops, g.blocks(more)...)
	}
	if stopped || more > 0 || rng.Intn(2) == 0 {
		ops = append(ops, fmt.Sprintf("rrestart w=%d failat=0", w))
	}
	ops = append(ops, "rstate")
	return core.Case{Ops: ops, Tags: tags}
}
