// Package wcsync holds the engines "walletchain-sync" (C15) and "walletchain-recovery" (C16): a real
// wallet.Wallet driven through SynchronizeRPC by a scripted fake chain.Interface.
package wcsync

import (
	"encoding/binary"
	"errors"
	"fmt"
	"runtime"
	"strings"
	"sync"
	"sync/atomic"
	"time"

	"github.com/btcsuite/btcd/btcjson"
	"github.com/btcsuite/btcd/btcutil"
	"github.com/btcsuite/btcd/chaincfg"
	"github.com/btcsuite/btcd/chaincfg/chainhash"
	"github.com/btcsuite/btcd/txscript"
	"github.com/btcsuite/btcd/wire"
	"github.com/btcsuite/btcwallet/chain"
	"github.com/btcsuite/btcwallet/waddrmgr"
	"github.com/btcsuite/btcwallet/wtxmgr"
)

var errNoBlock = errors.New("fakechain: block not found")

// fblock is one block of the scripted backend.  id is the script's name for the block (also its nonce).
type fblock struct {
	id     int
	hdr    wire.BlockHeader
	hash   chainhash.Hash
	height int32
	parent *fblock
	txs    []*wire.MsgTx
}

func (b *fblock) meta() wtxmgr.BlockMeta {
	return wtxmgr.BlockMeta{Block: wtxmgr.Block{Hash: b.hash, Height: b.height}, Time: b.hdr.Timestamp}
}

// sentinel is a notification type the wallet ignores; used to wait for quiescence.
type sentinel struct{}

// fakeChain implements chain.Interface.  The best chain is `best` (index = height).
type fakeChain struct {
	params *chaincfg.Params

	mu     sync.Mutex
	best   []*fblock
	byHash map[chainhash.Hash]*fblock
	byID   map[int]*fblock

	c *conn

	// beforeFinish runs in the rescan goroutine right before RescanFinished is sent (blocks arriving meanwhile)
	beforeFinish func(c *conn)

	filterCalls  int
	filterFailAt int // the n-th FilterBlocks call fails (once); 0 = never
	rescans      int

	// holdCh != nil: the next Rescan call is held in flight — its RelevantTx notifications are delivered, then the
	// rescan is announced on holdCh and RescanFinished is withheld until finishHeld (a rescan from an early block
	// takes minutes to hours on a real chain; blocks keep arriving meanwhile)
	holdCh chan *heldRescan
	held   *heldRescan

	// failFired (buffered) receives a token when the injected FilterBlocks failure fires; failHeight is the height
	// of the first block of the failing request (= of the rest of the recovery batch being scanned).
	failFired  chan struct{}
	failHeight int32
	// holdAt != 0: the GetBlockHash(holdAt) call made by the block loop of (*Wallet).recovery blocks (once) until
	// holdRelease is closed; holdReached (buffered) tells the runner that the loop is parked there.
	holdAt      int32
	holdReached chan struct{}
	holdRelease chan struct{}

	// limited: the backend is a full node still in initial block download — IsCurrent() is false and only the heights
	// <= limitH of the best chain are served (GetBestBlock, GetBlockHash, BlockStamp, Rescan) until the wallet has
	// polled IsCurrent twice: the second poll finds the node caught up (full chain, true).  curPolls counts the polls.
	limited  bool
	limitH   int32
	curPolls int

	// syncAttempts counts BackEnd() calls = syncWithChain attempts of the wallet (atomic; see wenv.waitSync)
	syncAttempts int64
}

// heldRescan is a rescan whose RescanFinished notification the backend has not sent yet.
type heldRescan struct {
	tip     *fblock       // the best-chain tip when Rescan was called (what RescanFinished will report)
	release chan struct{} // closed by finishHeld
	done    chan struct{} // closed once RescanFinished was handed to the wallet (or the connection went away)
}

// armHold parks the next recovery loop that fetches the hash of block `height`.
func (fc *fakeChain) armHold(height int32) {
	fc.mu.Lock()
	defer fc.mu.Unlock()
	fc.holdAt = height
	fc.holdReached = make(chan struct{}, 1)
	fc.holdRelease = make(chan struct{})
}

func (fc *fakeChain) disarmHold() {
	fc.mu.Lock()
	defer fc.mu.Unlock()
	fc.holdAt = 0
}

// calledFrom reports whether a function whose name ends in `suffix` is on the caller's stack.
func calledFrom(suffix string) bool {
	pc := make([]uintptr, 32)
	n := runtime.Callers(2, pc)
	frames := runtime.CallersFrames(pc[:n])
	for {
		f, more := frames.Next()
		if strings.HasSuffix(f.Function, suffix) {
			return true
		}
		if !more {
			return false
		}
	}
}

// goroutineParked reports whether some goroutine with `fn` on its stack is currently blocked in state `state`
// (e.g. "chan receive"), according to the runtime's goroutine dump.
func goroutineParked(fn, state string) bool {
	buf := make([]byte, 1<<16)
	for {
		n := runtime.Stack(buf, true)
		if n < len(buf) {
			buf = buf[:n]
			break
		}
		buf = make([]byte, 2*len(buf))
	}
	for _, g := range strings.Split(string(buf), "\n\n") {
		nl := strings.IndexByte(g, '\n')
		if nl < 0 {
			continue
		}
		if strings.Contains(g[:nl], "["+state) && strings.Contains(g[nl:], fn) {
			return true
		}
	}
	return false
}

// conn is one "connection" of a wallet to the backend: a notification channel and its shutdown signal.
type conn struct {
	ntfn       chan interface{}
	quit       chan struct{}
	once       sync.Once
	rescanDone chan struct{}
}

func (c *conn) send(n interface{}) bool {
	select {
	case c.ntfn <- n:
		return true
	case <-c.quit:
		return false
	case <-time.After(hardLimit(20 * time.Second)):
		// the wallet's handler loop does not take a notification: it is blocked for good (never on the unchanged tree)
		noteHardTimeout()
		return false
	}
}

func newFakeChain(params *chaincfg.Params) *fakeChain {
	fc := &fakeChain{
		params: params,
		byHash: map[chainhash.Hash]*fblock{},
		byID:   map[int]*fblock{},
	}
	g := &fblock{id: 0, hdr: params.GenesisBlock.Header, hash: *params.GenesisHash, height: 0}
	fc.best = []*fblock{g}
	fc.byHash[g.hash] = g
	fc.byID[0] = g
	fc.resetConn()
	return fc
}

// resetConn prepares a fresh notification channel (a new "connection") for a (re)started wallet.
func (fc *fakeChain) resetConn() {
	fc.mu.Lock()
	defer fc.mu.Unlock()
	fc.c = &conn{ntfn: make(chan interface{}), quit: make(chan struct{}), rescanDone: make(chan struct{}, 16)}
	fc.held, fc.holdCh = nil, nil
}

func (fc *fakeChain) conn() *conn {
	fc.mu.Lock()
	defer fc.mu.Unlock()
	return fc.c
}

// declare creates a block with the given parent (not yet on the best chain).
func (fc *fakeChain) declare(id, parentID int, t int64, txs []*wire.MsgTx) (*fblock, error) {
	fc.mu.Lock()
	defer fc.mu.Unlock()
	p := fc.byID[parentID]
	if p == nil {
		return nil, fmt.Errorf("unknown parent %d", parentID)
	}
	if fc.byID[id] != nil {
		return nil, fmt.Errorf("duplicate block id %d", id)
	}
	var mr chainhash.Hash
	binary.LittleEndian.PutUint32(mr[:], uint32(len(txs)))
	for i, tx := range txs {
		h := tx.TxHash()
		for j := range mr {
			mr[j] ^= h[(j+i)%32]
		}
	}
	b := &fblock{id: id, height: p.height + 1, parent: p, txs: txs}
	b.hdr = wire.BlockHeader{Version: 1, PrevBlock: p.hash, MerkleRoot: mr, Timestamp: time.Unix(t, 0), Bits: 0x207fffff, Nonce: uint32(id)}
	b.hash = b.hdr.BlockHash()
	fc.byHash[b.hash] = b
	fc.byID[id] = b
	return b, nil
}

func (fc *fakeChain) tip() *fblock {
	fc.mu.Lock()
	defer fc.mu.Unlock()
	return fc.best[len(fc.best)-1]
}

func (fc *fakeChain) at(h int32) *fblock {
	fc.mu.Lock()
	defer fc.mu.Unlock()
	if h < 0 || int(h) >= len(fc.best) {
		return nil
	}
	return fc.best[h]
}

func (fc *fakeChain) block(id int) *fblock {
	fc.mu.Lock()
	defer fc.mu.Unlock()
	return fc.byID[id]
}

func (fc *fakeChain) blockByHash(h chainhash.Hash) *fblock {
	fc.mu.Lock()
	defer fc.mu.Unlock()
	return fc.byHash[h]
}

func (fc *fakeChain) idOf(h chainhash.Hash) string {
	if h == (chainhash.Hash{}) {
		return "z"
	}
	fc.mu.Lock()
	defer fc.mu.Unlock()
	if b := fc.byHash[h]; b != nil {
		return fmt.Sprint(b.id)
	}
	return "?"
}

// push appends b (whose parent must be the tip); pop removes the tip.
func (fc *fakeChain) push(b *fblock) error {
	fc.mu.Lock()
	defer fc.mu.Unlock()
	if b.parent != fc.best[len(fc.best)-1] {
		return fmt.Errorf("block %d does not extend the tip", b.id)
	}
	fc.best = append(fc.best, b)
	return nil
}

func (fc *fakeChain) pop() *fblock {
	fc.mu.Lock()
	defer fc.mu.Unlock()
	if len(fc.best) <= 1 {
		return nil
	}
	b := fc.best[len(fc.best)-1]
	fc.best = fc.best[:len(fc.best)-1]
	return b
}

// deliver sends one notification and waits until the wallet's handler has finished processing it.
func (fc *fakeChain) deliver(n interface{}) bool {
	if !fc.send(n) {
		return false
	}
	return fc.send(sentinel{})
}

func (fc *fakeChain) send(n interface{}) bool { return fc.conn().send(n) }

// ---- chain.Interface ----

func (fc *fakeChain) Start() error { return nil }
func (fc *fakeChain) Stop() {
	c := fc.conn()
	c.once.Do(func() { close(c.quit) })
}
func (fc *fakeChain) WaitForShutdown() { <-fc.conn().quit }

// armNotCurrent: see the `limited` field.
func (fc *fakeChain) armNotCurrent(h int32) {
	fc.mu.Lock()
	defer fc.mu.Unlock()
	fc.limited, fc.limitH, fc.curPolls = true, h, 0
}

// notCurrent reports whether the backend still serves the limited view; lift ends it.
func (fc *fakeChain) notCurrent() bool {
	fc.mu.Lock()
	defer fc.mu.Unlock()
	return fc.limited
}

func (fc *fakeChain) liftNotCurrent() {
	fc.mu.Lock()
	defer fc.mu.Unlock()
	fc.limited = false
}

// vbest is the part of the best chain the backend serves to the wallet (fc.mu held).
func (fc *fakeChain) vbest() []*fblock {
	if fc.limited && int(fc.limitH)+1 < len(fc.best) {
		return fc.best[:fc.limitH+1]
	}
	return fc.best
}

func (fc *fakeChain) vtip() *fblock {
	fc.mu.Lock()
	defer fc.mu.Unlock()
	v := fc.vbest()
	return v[len(v)-1]
}

func (fc *fakeChain) GetBestBlock() (*chainhash.Hash, int32, error) {
	b := fc.vtip()
	h := b.hash
	return &h, b.height, nil
}

func (fc *fakeChain) GetBlock(h *chainhash.Hash) (*wire.MsgBlock, error) {
	fc.mu.Lock()
	defer fc.mu.Unlock()
	b := fc.byHash[*h]
	if b == nil {
		return nil, errNoBlock
	}
	return &wire.MsgBlock{Header: b.hdr, Transactions: b.txs}, nil
}

func (fc *fakeChain) GetBlockHash(height int64) (*chainhash.Hash, error) {
	fc.mu.Lock()
	if fc.holdAt != 0 && int64(fc.holdAt) == height && calledFrom("wallet.(*Wallet).recovery") {
		fc.holdAt = 0
		reached, release := fc.holdReached, fc.holdRelease
		fc.mu.Unlock()
		reached <- struct{}{}
		select {
		case <-release:
		case <-time.After(10 * time.Minute): // the runner always releases; only a crashed runner would leave it parked
		}
		fc.mu.Lock()
	}
	defer fc.mu.Unlock()
	if height < 0 || height >= int64(len(fc.vbest())) {
		return nil, errNoBlock
	}
	h := fc.best[height].hash
	return &h, nil
}

func (fc *fakeChain) GetBlockHeader(h *chainhash.Hash) (*wire.BlockHeader, error) {
	fc.mu.Lock()
	defer fc.mu.Unlock()
	b := fc.byHash[*h]
	if b == nil {
		return nil, errNoBlock
	}
	hdr := b.hdr
	return &hdr, nil
}

func (fc *fakeChain) IsCurrent() bool {
	fc.mu.Lock()
	defer fc.mu.Unlock()
	if !fc.limited {
		return true
	}
	fc.curPolls++
	if fc.curPolls >= 2 {
		fc.limited = false // the node has caught up
		return true
	}
	return false
}

// FilterBlocks is the btcd client's implementation verbatim: the real chain.BlockFilterer over the batch.
func (fc *fakeChain) FilterBlocks(req *chain.FilterBlocksRequest) (*chain.FilterBlocksResponse, error) {
	fc.mu.Lock()
	fc.filterCalls++
	fail := fc.filterFailAt != 0 && fc.filterCalls == fc.filterFailAt
	fired := fc.failFired
	if fail && len(req.Blocks) > 0 {
		fc.failHeight = req.Blocks[0].Height
	}
	fc.mu.Unlock()
	if fail {
		if fired != nil {
			select {
			case fired <- struct{}{}:
			default:
			}
		}
		return nil, errors.New("fakechain: injected FilterBlocks failure")
	}
	bf := chain.NewBlockFilterer(fc.params, req)
	for i, block := range req.Blocks {
		raw, err := fc.GetBlock(&block.Hash)
		if err != nil {
			return nil, err
		}
		if !bf.FilterBlock(raw) {
			continue
		}
		return &chain.FilterBlocksResponse{
			BatchIndex:         uint32(i),
			BlockMeta:          block,
			FoundExternalAddrs: bf.FoundExternal,
			FoundInternalAddrs: bf.FoundInternal,
			FoundOutPoints:     bf.FoundOutPoints,
			RelevantTxns:       bf.RelevantTxns,
		}, nil
	}
	return nil, nil
}

func (fc *fakeChain) BlockStamp() (*waddrmgr.BlockStamp, error) {
	b := fc.vtip()
	return &waddrmgr.BlockStamp{Height: b.height, Hash: b.hash, Timestamp: b.hdr.Timestamp}, nil
}

func (fc *fakeChain) SendRawTransaction(tx *wire.MsgTx, _ bool) (*chainhash.Hash, error) {
	h := tx.TxHash()
	return &h, nil
}

// Rescan behaves like a btcd rescan: for every best-chain block above the start block it reports the
// transactions paying one of addrs or spending one of outpoints (outputs found on the way are watched too), then
// RescanFinished for the tip.  Notifications are sent asynchronously.
func (fc *fakeChain) Rescan(start *chainhash.Hash, addrs []btcutil.Address, outpoints map[wire.OutPoint]btcutil.Address) error {
	fc.mu.Lock()
	sb := fc.byHash[*start]
	vb := fc.vbest()
	if sb == nil || int(sb.height) >= len(vb) || vb[sb.height] != sb {
		fc.mu.Unlock()
		return errors.New("fakechain: rescan start block not on the best chain")
	}
	blocks := append([]*fblock{}, vb[sb.height+1:]...)
	tip := vb[len(vb)-1]
	fc.rescans++
	c := fc.c
	hook := fc.beforeFinish
	fc.beforeFinish = nil
	var held *heldRescan
	holdCh := fc.holdCh
	if holdCh != nil {
		held = &heldRescan{tip: tip, release: make(chan struct{}), done: make(chan struct{})}
		fc.holdCh = nil
		fc.held = held
	}
	fc.mu.Unlock()

	watchA := map[string]struct{}{}
	for _, a := range addrs {
		watchA[a.EncodeAddress()] = struct{}{}
	}
	watchO := map[wire.OutPoint]struct{}{}
	for op := range outpoints {
		watchO[op] = struct{}{}
	}
	go func() {
		defer func() {
			if held != nil {
				close(held.done)
				return
			}
			c.rescanDone <- struct{}{}
		}()
		for _, b := range blocks {
			m := b.meta()
			for _, tx := range b.txs {
				rel := false
				for _, in := range tx.TxIn {
					if _, ok := watchO[in.PreviousOutPoint]; ok {
						rel = true
					}
				}
				for i, out := range tx.TxOut {
					_, as, _, err := txscript.ExtractPkScriptAddrs(out.PkScript, fc.params)
					if err != nil {
						continue
					}
					for _, a := range as {
						if _, ok := watchA[a.EncodeAddress()]; ok {
							rel = true
							watchO[wire.OutPoint{Hash: tx.TxHash(), Index: uint32(i)}] = struct{}{}
						}
					}
				}
				if !rel {
					continue
				}
				rec, err := wtxmgr.NewTxRecordFromMsgTx(tx, b.hdr.Timestamp)
				if err != nil {
					continue
				}
				mm := m
				if !c.send(chain.RelevantTx{TxRecord: rec, Block: &mm}) {
					return
				}
			}
		}
		if held != nil {
			holdCh <- held
			select {
			case <-held.release:
			case <-c.quit:
				return
			}
		}
		if hook != nil {
			hook(c)
		}
		h := tip.hash
		c.send(&chain.RescanFinished{Hash: &h, Height: tip.height, Time: tip.hdr.Timestamp})
	}()
	return nil
}

// armRescanHold makes the next Rescan call a held one and returns the channel on which it is announced (after its RelevantTx
// notifications were handed to the wallet).
func (fc *fakeChain) armRescanHold() chan *heldRescan {
	fc.mu.Lock()
	defer fc.mu.Unlock()
	fc.holdCh = make(chan *heldRescan, 1)
	return fc.holdCh
}

func (fc *fakeChain) disarmRescanHold() {
	fc.mu.Lock()
	defer fc.mu.Unlock()
	fc.holdCh = nil
}

// finishHeld lets the held rescan report RescanFinished and waits until the wallet has fully processed it.
func (fc *fakeChain) finishHeld() bool {
	fc.mu.Lock()
	h := fc.held
	fc.held = nil
	fc.mu.Unlock()
	if h == nil {
		return false
	}
	close(h.release)
	select {
	case <-h.done:
	case <-time.After(hardLimit(20 * time.Second)):
		noteHardTimeout()
		return false
	}
	return fc.send(sentinel{})
}

func (fc *fakeChain) NotifyReceived([]btcutil.Address) error { return nil }
func (fc *fakeChain) NotifyBlocks() error                    { return nil }
func (fc *fakeChain) Notifications() <-chan interface{}      { return fc.conn().ntfn }
func (fc *fakeChain) BackEnd() string {
	// wallet.syncWithChain asks for the backend type first thing (its only caller in package wallet)
	atomic.AddInt64(&fc.syncAttempts, 1)
	return "fake"
}
func (fc *fakeChain) TestMempoolAccept([]*wire.MsgTx, float64) ([]*btcjson.TestMempoolAcceptResult, error) {
	return nil, errors.New("fakechain: testmempoolaccept not supported")
}
func (fc *fakeChain) MapRPCErr(err error) error { return err }

var _ chain.Interface = (*fakeChain)(nil)
