package wcsync

import (
	"crypto/sha256"
	"encoding/binary"
	"fmt"
	"os"
	"sync"
	"time"

	"github.com/btcsuite/btcd/btcutil"
	"github.com/btcsuite/btcd/chaincfg"
	"github.com/btcsuite/btcd/chaincfg/chainhash"
	"github.com/btcsuite/btcd/txscript"
	"github.com/btcsuite/btcd/wire"
	"github.com/btcsuite/btclog"
	"github.com/btcsuite/btcwallet/chain"
	"github.com/btcsuite/btcwallet/snacl"
	"github.com/btcsuite/btcwallet/waddrmgr"
	"github.com/btcsuite/btcwallet/wallet"
	_ "github.com/btcsuite/btcwallet/walletdb/bdb"
	"github.com/btcsuite/btcwallet/wtxmgr"
)

var (
	params  = &chaincfg.SimNetParams
	pubPass = []byte("public")
	prvPass = []byte("private")
	keyOnce sync.Once
)

func fastKeys() {
	keyOnce.Do(func() {
		if os.Getenv("VX_WLOG") != "" {
			be := btclog.NewBackend(os.Stderr)
			l := be.Logger("WLLT")
			l.SetLevel(btclog.LevelDebug)
			wallet.UseLogger(l)
			t := be.Logger("TMGR")
			t.SetLevel(btclog.LevelDebug)
			wtxmgr.UseLogger(t)
		}
		waddrmgr.SetSecretKeyGen(func(p *[]byte, _ *waddrmgr.ScryptOptions) (*snacl.SecretKey, error) {
			return snacl.NewSecretKey(p, 16, 8, 1)
		})
	})
}

func seedFor(k int) []byte {
	s := sha256.Sum256([]byte(fmt.Sprintf("btcw-verif-seed-%d", k)))
	return s[:]
}

// wenv is one wallet directory + fake backend; the wallet can be stopped and reopened.
type wenv struct {
	dir     string
	fc      *fakeChain
	loader  *wallet.Loader
	w       *wallet.Wallet
	running bool
	// retry != 0: sync retry interval of the next loaded wallet (default 10 ms: a failed syncWithChain is retried
	// in-process at once; an hour = "the process is stopped before any retry")
	retry time.Duration
}

func newEnv() (*wenv, error) {
	fastKeys()
	dir, err := os.MkdirTemp("", "wcsync")
	if err != nil {
		return nil, err
	}
	return &wenv{dir: dir, fc: newFakeChain(params)}, nil
}

func (e *wenv) close() {
	e.stop()
	os.RemoveAll(e.dir)
}

func (e *wenv) newLoader(recW uint32) *wallet.Loader {
	retry := 10 * time.Millisecond
	if e.retry != 0 {
		retry = e.retry
	}
	return wallet.NewLoader(params, e.dir, true, 10*time.Second, recW,
		wallet.WithWalletSyncRetryInterval(retry))
}

func (e *wenv) create(seed []byte, birthday time.Time, recW uint32) error {
	e.loader = e.newLoader(recW)
	w, err := e.loader.CreateNewWallet(pubPass, prvPass, seed, birthday)
	if err != nil {
		return err
	}
	e.w = w
	return nil
}

func (e *wenv) reopen(recW uint32) error {
	e.loader = e.newLoader(recW)
	w, err := e.loader.OpenExistingWallet(pubPass, false)
	if err != nil {
		return err
	}
	e.w = w
	return nil
}

// startSync connects the wallet to the fake backend and waits until the initial sync (incl. the rescan) has been
// fully processed.  false = the wallet did not get through syncWithChain within the timeout.
func (e *wenv) startSync(timeout time.Duration) bool {
	if !e.beginSync() {
		return false
	}
	for {
		switch e.waitSync(timeout) {
		case "done":
			return true
		case "stuck":
			return false
		}
	}
}

// beginSync connects the wallet to the fake backend; waitSync reports the next event of the start-up sync:
// "done" (initial sync incl. the final rescan fully processed), "hold" (the recovery loop is parked at the armed
// height, see fakeChain.armHold), "failed" (the injected FilterBlocks failure fired) or "stuck" (timeout).
func (e *wenv) beginSync() bool {
	e.fc.resetConn()
	e.fc.mu.Lock()
	e.fc.failFired = make(chan struct{}, 1)
	e.fc.mu.Unlock()
	c := e.fc.conn()
	e.w.Start()
	e.w.SynchronizeRPC(e.fc)
	e.running = true
	return c.send(chain.ClientConnected{})
}

func (e *wenv) waitSync(timeout time.Duration) string {
	c := e.fc.conn()
	e.fc.mu.Lock()
	reached, fired := e.fc.holdReached, e.fc.failFired
	e.fc.mu.Unlock()
	select {
	case <-c.rescanDone:
		if c.send(sentinel{}) {
			return "done"
		}
		return "stuck"
	case <-reached:
		return "hold"
	case <-fired:
		return "failed"
	case <-time.After(timeout):
		return "stuck"
	}
}

func (e *wenv) stop() {
	if e.w == nil {
		return
	}
	if e.loader != nil {
		_ = e.loader.UnloadWallet()
	}
	e.w = nil
	e.running = false
}

// ---- transactions ----

func nullOutPoint() wire.OutPoint {
	return wire.OutPoint{Hash: chainhash.Hash{}, Index: 0xffffffff}
}

// extOutPoint is a deterministic non-wallet outpoint for tag k.
func extOutPoint(k int) wire.OutPoint {
	var b [8]byte
	binary.LittleEndian.PutUint64(b[:], uint64(k))
	return wire.OutPoint{Hash: chainhash.Hash(sha256.Sum256(append([]byte("ext-outpoint"), b[:]...))), Index: 0}
}

func payScript(a btcutil.Address) []byte {
	s, err := txscript.PayToAddrScript(a)
	if err != nil {
		panic(err)
	}
	return s
}

// foreignScript pays a key hash that no wallet of the harness owns.
func foreignScript(k int) []byte {
	h := sha256.Sum256([]byte(fmt.Sprintf("foreign-%d", k)))
	a, err := btcutil.NewAddressWitnessPubKeyHash(h[:20], params)
	if err != nil {
		panic(err)
	}
	return payScript(a)
}
