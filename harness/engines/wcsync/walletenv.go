package wcsync

import (
	"crypto/sha256"
	"encoding/binary"
	"errors"
	"fmt"
	"os"
	"path/filepath"
	"runtime"
	"strings"
	"sync"
	"sync/atomic"
	"time"

	"github.com/btcsuite/btcd/btcec/v2"
	"github.com/btcsuite/btcd/btcutil"
	"github.com/btcsuite/btcd/chaincfg"
	"github.com/btcsuite/btcd/chaincfg/chainhash"
	"github.com/btcsuite/btcd/txscript"
	"github.com/btcsuite/btcd/wire"
	"github.com/btcsuite/btclog"
	"github.com/btcsuite/btcwallet/chain"
	"github.com/btcsuite/btcwallet/snacl"
	"github.com/btcsuite/btcwallet/waddrmgr"
	"github.com/btcsuite/btcwallet/wallet"
	_ "github.com/btcsuite/btcwallet/walletdb/bdb"
	"github.com/btcsuite/btcwallet/wtxmgr"
)

var (
	params  = &chaincfg.SimNetParams
	pubPass = []byte("public")
	prvPass = []byte("private")
	keyOnce sync.Once
)

func fastKeys() {
	keyOnce.Do(func() {
		if os.Getenv("VX_WLOG") != "" {
			be := btclog.NewBackend(os.Stderr)
			l := be.Logger("WLLT")
			l.SetLevel(btclog.LevelDebug)
			wallet.UseLogger(l)
			t := be.Logger("TMGR")
			t.SetLevel(btclog.LevelDebug)
			wtxmgr.UseLogger(t)
		}
		waddrmgr.SetSecretKeyGen(func(p *[]byte, _ *waddrmgr.ScryptOptions) (*snacl.SecretKey, error) {
			return snacl.NewSecretKey(p, 16, 8, 1)
		})
	})
}

func seedFor(k int) []byte {
	s := sha256.Sum256([]byte(fmt.Sprintf("btcw-verif-seed-%d", k)))
	return s[:]
}

// wenv is one wallet directory + fake backend; the wallet can be stopped and reopened.
type wenv struct {
	dir     string
	fc      *fakeChain
	loader  *wallet.Loader
	w       *wallet.Wallet
	running bool
	// retry != 0: sync retry interval of the next loaded wallet (default 10 ms: a failed syncWithChain is retried
	// in-process at once; an hour = "the process is stopped before any retry")
	retry time.Duration
}

func newEnv() (*wenv, error) {
	fastKeys()
	dir, err := os.MkdirTemp("", "wcsync")
	if err != nil {
		return nil, err
	}
	return &wenv{dir: dir, fc: newFakeChain(params)}, nil
}

func (e *wenv) close() {
	e.stop()
	os.RemoveAll(e.dir)
}

func (e *wenv) newLoader(recW uint32) *wallet.Loader {
	retry := 10 * time.Millisecond
	if e.retry != 0 {
		retry = e.retry
	}
	return wallet.NewLoader(params, e.dir, true, 10*time.Second, recW,
		wallet.WithWalletSyncRetryInterval(retry))
}

func (e *wenv) create(seed []byte, birthday time.Time, recW uint32) error {
	e.loader = e.newLoader(recW)
	w, err := e.loader.CreateNewWallet(pubPass, prvPass, seed, birthday)
	if err != nil {
		return err
	}
	e.w = w
	return nil
}

func (e *wenv) reopen(recW uint32) error {
	e.loader = e.newLoader(recW)
	w, err := e.loader.OpenExistingWallet(pubPass, false)
	if err != nil {
		return err
	}
	e.w = w
	return nil
}

// startSync connects the wallet to the fake backend and waits until the initial sync (incl. the rescan) has been
// fully processed.  false = the wallet did not get through syncWithChain within the timeout.
func (e *wenv) startSync(timeout time.Duration) bool {
	if !e.beginSync() {
		return false
	}
	for {
		switch e.waitSync(timeout) {
		case "done":
			return true
		case "stuck":
			return false
		}
	}
}

// beginSync connects the wallet to the fake backend; waitSync reports the next event of the start-up sync:
// "done" (initial sync incl. the final rescan fully processed), "hold" (the recovery loop is parked at the armed
// height, see fakeChain.armHold), "failed" (the injected FilterBlocks failure fired) or "stuck" (timeout).
func (e *wenv) beginSync() bool {
	e.fc.resetConn()
	e.fc.mu.Lock()
	e.fc.failFired = make(chan struct{}, 1)
	e.fc.mu.Unlock()
	c := e.fc.conn()
	e.w.Start()
	e.w.SynchronizeRPC(e.fc)
	e.running = true
	return c.send(chain.ClientConnected{})
}

func (e *wenv) waitSync(timeout time.Duration) string {
	c := e.fc.conn()
	e.fc.mu.Lock()
	reached, fired := e.fc.holdReached, e.fc.failFired
	e.fc.mu.Unlock()
	select {
	case <-c.rescanDone:
		if c.send(sentinel{}) {
			return "done"
		}
		return "stuck"
	case <-reached:
		return "hold"
	case <-fired:
		return "failed"
	case <-time.After(timeout):
		return "stuck"
	}
}

// stopTimeout bounds Loader.UnloadWallet (Stop + WaitForShutdown + db.Close).  A shutdown that does not come back
// (wallet goroutine blocked for ever) must not hang the harness: the database file is copied to a fresh directory and
// the case goes on from there; the blocked wallet object is abandoned.
var stopTimeout = 20 * time.Second

// stopHangs counts abandoned shutdowns (reported on stderr; see notes/C15.md "shutdown").
var stopHangs int32

func (e *wenv) stop() {
	if e.w == nil {
		return
	}
	if e.loader != nil {
		l := e.loader
		done := make(chan struct{})
		go func() {
			_ = l.UnloadWallet()
			close(done)
		}()
		select {
		case <-done:
		case <-time.After(stopTimeout):
			n := atomic.AddInt32(&stopHangs, 1)
			fmt.Fprintf(os.Stderr, "wcsync: wallet shutdown did not return within %s (hang #%d); continuing on a copy of the database\n", stopTimeout, n)
			fmt.Fprintf(os.Stderr, "wcsync: ops of the case so far:\n  %s\n", strings.Join(recentOps, "\n  "))
			if n == 1 {
				buf := make([]byte, 1<<20)
				buf = buf[:runtime.Stack(buf, true)]
				for _, g := range strings.Split(string(buf), "\n\n") {
					if strings.Contains(g, "btcwallet/wallet.") {
						fmt.Fprintf(os.Stderr, "%s\n\n", g)
					}
				}
			}
			if nd, err := os.MkdirTemp("", "wcsync"); err == nil {
				if data, err := os.ReadFile(filepath.Join(e.dir, wallet.WalletDBName)); err == nil {
					_ = os.WriteFile(filepath.Join(nd, wallet.WalletDBName), data, 0600)
				}
				e.dir = nd
			}
		}
	}
	e.w = nil
	e.running = false
}

// reconnect delivers chain.ClientConnected to the RUNNING wallet again (the backend connection was re-established):
// handleChainNotifications runs syncWithChain once more — rollback loop, recovery when a recovery window is set, rescan
// from the synced-to block.  The rescan is held in flight by the backend: reconnect returns when its RelevantTx
// notifications have been processed; RescanFinished is sent by fc.finishHeld.  false = syncWithChain did not get to the
// rescan within the timeout (it keeps failing and retrying).
func (e *wenv) reconnect(timeout time.Duration) bool {
	ch := e.fc.armRescanHold()
	if !e.fc.send(chain.ClientConnected{}) {
		e.fc.disarmRescanHold()
		return false
	}
	select {
	case <-ch:
	case <-time.After(timeout):
		e.fc.disarmRescanHold()
		return false
	}
	return e.fc.send(sentinel{})
}

// importWIF is the deterministic private key number k of the harness.
func importWIF(k int) *btcutil.WIF {
	h := sha256.Sum256([]byte(fmt.Sprintf("btcw-verif-import-key-%d", k)))
	priv, _ := btcec.PrivKeyFromBytes(h[:])
	wif, err := btcutil.NewWIF(priv, params, true)
	if err != nil {
		panic(err)
	}
	return wif
}

// importKey imports private key k with rescan=true from best-chain block `from` on the running wallet
// (Wallet.ImportPrivateKey -> SubmitRescan -> rescanBatchHandler -> rescanRPCHandler -> chainClient.Rescan).  The
// rescan is held in flight; importKey returns when the backend has evaluated the request.
func (e *wenv) importKey(k int, from *fblock, timeout time.Duration) error {
	if err := e.w.Unlock(prvPass, nil); err != nil {
		return err
	}
	ch := e.fc.armRescanHold()
	bs := waddrmgr.BlockStamp{Height: from.height, Hash: from.hash, Timestamp: from.hdr.Timestamp}
	if _, err := e.w.ImportPrivateKey(waddrmgr.KeyScopeBIP0084, importWIF(k), &bs, true); err != nil {
		e.fc.disarmRescanHold()
		return err
	}
	select {
	case <-ch:
	case <-time.After(timeout):
		e.fc.disarmRescanHold()
		return errors.New("rescan request not seen")
	}
	if !e.fc.send(sentinel{}) {
		return errors.New("deliver-timeout")
	}
	return nil
}

// ---- transactions ----

func nullOutPoint() wire.OutPoint {
	return wire.OutPoint{Hash: chainhash.Hash{}, Index: 0xffffffff}
}

// extOutPoint is a deterministic non-wallet outpoint for tag k.
func extOutPoint(k int) wire.OutPoint {
	var b [8]byte
	binary.LittleEndian.PutUint64(b[:], uint64(k))
	return wire.OutPoint{Hash: chainhash.Hash(sha256.Sum256(append([]byte("ext-outpoint"), b[:]...))), Index: 0}
}

func payScript(a btcutil.Address) []byte {
	s, err := txscript.PayToAddrScript(a)
	if err != nil {
		panic(err)
	}
	return s
}

// foreignScript pays a key hash that no wallet of the harness owns.
func foreignScript(k int) []byte {
	h := sha256.Sum256([]byte(fmt.Sprintf("foreign-%d", k)))
	a, err := btcutil.NewAddressWitnessPubKeyHash(h[:20], params)
	if err != nil {
		panic(err)
	}
	return payScript(a)
}
