package wcsync

import (
	"crypto/sha256"
	"encoding/binary"
	"errors"
	"fmt"
	"os"
	"path/filepath"
	"runtime"
	"strings"
	"sync"
	"sync/atomic"
	"time"

	"github.com/btcsuite/btcd/btcec/v2"
	"github.com/btcsuite/btcd/btcutil"
	"github.com/btcsuite/btcd/chaincfg"
	"github.com/btcsuite/btcd/chaincfg/chainhash"
	"github.com/btcsuite/btcd/txscript"
	"github.com/btcsuite/btcd/wire"
	"github.com/btcsuite/btclog"
	"github.com/btcsuite/btcwallet/chain"
	"github.com/btcsuite/btcwallet/snacl"
	"github.com/btcsuite/btcwallet/waddrmgr"
	"github.com/btcsuite/btcwallet/wallet"
	_ "github.com/btcsuite/btcwallet/walletdb/bdb"
	"github.com/btcsuite/btcwallet/wtxmgr"
)

var (
	params  = &chaincfg.SimNetParams
	pubPass = []byte("public")
	prvPass = []byte("private")
	keyOnce sync.Once
)

func fastKeys() {
	keyOnce.Do(func() {
		if os.Getenv("VX_WLOG") != "" {
			be := btclog.NewBackend(os.Stderr)
			l := be.Logger("WLLT")
			l.SetLevel(btclog.LevelDebug)
			wallet.UseLogger(l)
			t := be.Logger("TMGR")
			t.SetLevel(btclog.LevelDebug)
			wtxmgr.UseLogger(t)
		}
		waddrmgr.SetSecretKeyGen(func(p *[]byte, _ *waddrmgr.ScryptOptions) (*snacl.SecretKey, error) {
			return snacl.NewSecretKey(p, 16, 8, 1)
		})
	})
}

func seedFor(k int) []byte {
	s := sha256.Sum256([]byte(fmt.Sprintf("btcw-verif-seed-%d", k)))
	return s[:]
}

// wenv is one wallet directory + fake backend; the wallet can be stopped and reopened.
type wenv struct {
	net     *chaincfg.Params // chain parameters of the wallet and of the fake backend (default: SimNet)
	dir     string
	fc      *fakeChain
	loader  *wallet.Loader
	w       *wallet.Wallet
	running bool
	// retry != 0: sync retry interval of the next loaded wallet (default 10 ms: a failed syncWithChain is retried
	// in-process at once; an hour = "the process is stopped before any retry")
	retry time.Duration
	// attemptBase: fc.syncAttempts when the current connection was announced (see waitSync)
	attemptBase int64
}

func newEnv() (*wenv, error) { return newEnvNet(params) }

// newEnvNet: a wallet + fake backend on the given chain parameters.  On a production network (MainNet, TestNet3)
// syncWithChain first waits until the backend reports itself current (waitUntilBackendSynced polls IsCurrent once a
// second); SimNet / RegTest skip the wait.
func newEnvNet(net *chaincfg.Params) (*wenv, error) {
	fastKeys()
	dir, err := os.MkdirTemp("", "wcsync")
	if err != nil {
		return nil, err
	}
	return &wenv{net: net, dir: dir, fc: newFakeChain(net)}, nil
}

func (e *wenv) close() {
	e.stop()
	os.RemoveAll(e.dir)
}

func (e *wenv) newLoader(recW uint32) *wallet.Loader {
	retry := 10 * time.Millisecond
	if e.retry != 0 {
		retry = e.retry
	}
	return wallet.NewLoader(e.net, e.dir, true, 10*time.Second, recW,
		wallet.WithWalletSyncRetryInterval(retry))
}

func (e *wenv) create(seed []byte, birthday time.Time, recW uint32) error {
	e.loader = e.newLoader(recW)
	w, err := e.loader.CreateNewWallet(pubPass, prvPass, seed, birthday)
	if err != nil {
		return err
	}
	e.w = w
	return nil
}

func (e *wenv) reopen(recW uint32) error {
	e.loader = e.newLoader(recW)
	w, err := e.loader.OpenExistingWallet(pubPass, false)
	if err != nil {
		return err
	}
	e.w = w
	return nil
}

// startSync connects the wallet to the fake backend and waits until the initial sync (incl. the rescan) has been
// fully processed.  false = the wallet did not get through syncWithChain within the timeout.
func (e *wenv) startSync(timeout time.Duration) bool {
	if !e.beginSync() {
		return false
	}
	for {
		switch e.waitSync(timeout) {
		case "done":
			return true
		case "stuck":
			return false
		}
	}
}

// beginSync connects the wallet to the fake backend; waitSync reports the next event of the start-up sync:
// "done" (initial sync incl. the final rescan fully processed), "hold" (the recovery loop is parked at the armed
// height, see fakeChain.armHold), "failed" (the injected FilterBlocks failure fired) or "stuck" (timeout).
func (e *wenv) beginSync() bool {
	e.fc.resetConn()
	e.fc.mu.Lock()
	e.fc.failFired = make(chan struct{}, 1)
	e.fc.mu.Unlock()
	e.attemptBase = atomic.LoadInt64(&e.fc.syncAttempts)
	c := e.fc.conn()
	e.w.Start()
	e.w.SynchronizeRPC(e.fc)
	e.running = true
	return c.send(chain.ClientConnected{})
}

//
// "stuck" is decided by PROGRESS, not by the clock: a wallet whose syncWithChain fails is retried by waitForSync every
// syncRetryInterval (10 ms), and every attempt starts with chainClient.BackEnd() — its only call site in package
// wallet — which the fake backend counts.  The sync is stuck once stuckAttempts attempts were started without one of
// them getting to the rescan (the wallet state an attempt starts from does not change between failing attempts: a
// failed rollback transaction leaves the database as it was).  A slow or starved machine only makes the attempts come
// later.  The time limit is a backstop for a syncWithChain that blocks instead of failing; it is never reached on the
// unchanged tree (notes/FLAKES.md).
func (e *wenv) waitSync(timeout time.Duration) string {
	c := e.fc.conn()
	e.fc.mu.Lock()
	reached, fired := e.fc.holdReached, e.fc.failFired
	e.fc.mu.Unlock()
	deadline := time.Now().Add(hardLimit(timeout))
	tick := time.NewTicker(2 * time.Millisecond)
	defer tick.Stop()
	for {
		select {
		case <-c.rescanDone:
			if c.send(sentinel{}) {
				return "done"
			}
			return "stuck"
		case <-reached:
			return "hold"
		case <-fired:
			return "failed"
		case <-tick.C:
			if e.stuckByAttempts() {
				return "stuck"
			}
			if time.Now().After(deadline) {
				noteHardTimeout()
				return "stuck"
			}
		}
	}
}

// stuckAttempts: number of syncWithChain attempts (since the connection was announced) after which the sync counts as
// failing for ever.  The former 1.5 s limit corresponded to > 100 attempts on an idle machine, and to fewer than one on
// a starved one.
const stuckAttempts = 25

func (e *wenv) stuckByAttempts() bool {
	return atomic.LoadInt64(&e.fc.syncAttempts)-e.attemptBase >= stuckAttempts
}

// generousLimit is the hard limit of every wait for something the unchanged wallet always does.  It can only be
// reached on a failing run; after a few such time-outs the run is decided and the original short limits come back so
// that a wallet that blocks in every case does not cost generousLimit per case.
const generousLimit = 30 * time.Second

var hardTimeouts int32

func noteHardTimeout() { atomic.AddInt32(&hardTimeouts, 1) }

func hardLimit(short time.Duration) time.Duration {
	if atomic.LoadInt32(&hardTimeouts) >= 3 || short > generousLimit {
		return short
	}
	return generousLimit
}

// stopTimeout bounds Loader.UnloadWallet (Stop + WaitForShutdown + db.Close).  A shutdown that does not come back
// (wallet goroutine blocked for ever) must not hang the harness: the database file is copied to a fresh directory and
// the case goes on from there; the blocked wallet object is abandoned.
var stopTimeout = 30 * time.Second

// stopHangs counts abandoned shutdowns (reported on stderr; see notes/C15.md "shutdown").
var stopHangs int32

func (e *wenv) stop() {
	if e.w == nil {
		return
	}
	if e.loader != nil {
		l := e.loader
		done := make(chan struct{})
		go func() {
			_ = l.UnloadWallet()
			close(done)
		}()
		limit := stopTimeout
		if atomic.LoadInt32(&stopHangs) >= 3 {
			limit = 10 * time.Second // shutdowns keep hanging: the run is decided, do not pay stopTimeout every time
		}
		select {
		case <-done:
		case <-time.After(limit):
			n := atomic.AddInt32(&stopHangs, 1)
			fmt.Fprintf(os.Stderr, "wcsync: wallet shutdown did not return within %s (hang #%d); continuing on a copy of the database\n", limit, n)
			fmt.Fprintf(os.Stderr, "wcsync: ops of the case so far:\n  %s\n", strings.Join(recentOps, "\n  "))
			if n == 1 {
				buf := make([]byte, 1<<20)
				buf = buf[:runtime.Stack(buf, true)]
				for _, g := range strings.Split(string(buf), "\n\n") {
					if strings.Contains(g, "btcwallet/wallet.") {
						fmt.Fprintf(os.Stderr, "%s\n\n", g)
					}
				}
			}
			if nd, err := os.MkdirTemp("", "wcsync"); err == nil {
				if data, err := os.ReadFile(filepath.Join(e.dir, wallet.WalletDBName)); err == nil {
					_ = os.WriteFile(filepath.Join(nd, wallet.WalletDBName), data, 0600)
				}
				e.dir = nd
			}
		}
	}
	e.w = nil
	e.running = false
}

// reconnect delivers chain.ClientConnected to the RUNNING wallet again (the backend connection was re-established):
// handleChainNotifications runs syncWithChain once more — rollback loop, recovery when a recovery window is set, rescan
// from the synced-to block.  The rescan is held in flight by the backend: reconnect returns when its RelevantTx
// notifications have been processed; RescanFinished is sent by fc.finishHeld.  false = syncWithChain did not get to the
// rescan within the timeout (it keeps failing and retrying).
func (e *wenv) reconnect(timeout time.Duration) bool {
	ch := e.fc.armRescanHold()
	e.attemptBase = atomic.LoadInt64(&e.fc.syncAttempts)
	if !e.fc.send(chain.ClientConnected{}) {
		e.fc.disarmRescanHold()
		return false
	}
	// progress-based like waitSync: "never gets to the rescan" = stuckAttempts failed attempts, not elapsed time
	deadline := time.Now().Add(hardLimit(timeout))
	tick := time.NewTicker(2 * time.Millisecond)
	defer tick.Stop()
wait:
	for {
		select {
		case <-ch:
			break wait
		case <-tick.C:
			hard := time.Now().After(deadline)
			if hard {
				noteHardTimeout()
			}
			if hard || e.stuckByAttempts() {
				e.fc.disarmRescanHold()
				return false
			}
		}
	}
	return e.fc.send(sentinel{})
}

// importWIF is the deterministic private key number k of the harness.
func importWIF(k int) *btcutil.WIF {
	h := sha256.Sum256([]byte(fmt.Sprintf("btcw-verif-import-key-%d", k)))
	priv, _ := btcec.PrivKeyFromBytes(h[:])
	wif, err := btcutil.NewWIF(priv, params, true)
	if err != nil {
		panic(err)
	}
	return wif
}

// importKey imports private key k with rescan=true from best-chain block `from` on the running wallet
// (Wallet.ImportPrivateKey -> SubmitRescan -> rescanBatchHandler -> rescanRPCHandler -> chainClient.Rescan).  The
// rescan is held in flight; importKey returns when the backend has evaluated the request.
func (e *wenv) importKey(k int, from *fblock, timeout time.Duration) error {
	if err := e.w.Unlock(prvPass, nil); err != nil {
		return err
	}
	ch := e.fc.armRescanHold()
	bs := waddrmgr.BlockStamp{Height: from.height, Hash: from.hash, Timestamp: from.hdr.Timestamp}
	if _, err := e.w.ImportPrivateKey(waddrmgr.KeyScopeBIP0084, importWIF(k), &bs, true); err != nil {
		e.fc.disarmRescanHold()
		return err
	}
	select {
	case <-ch:
	case <-time.After(hardLimit(timeout)):
		noteHardTimeout()
		e.fc.disarmRescanHold()
		return errors.New("rescan request not seen")
	}
	if !e.fc.send(sentinel{}) {
		return errors.New("deliver-timeout")
	}
	return nil
}

// ---- transactions ----

func nullOutPoint() wire.OutPoint {
	return wire.OutPoint{Hash: chainhash.Hash{}, Index: 0xffffffff}
}

// extOutPoint is a deterministic non-wallet outpoint for tag k.
func extOutPoint(k int) wire.OutPoint {
	var b [8]byte
	binary.LittleEndian.PutUint64(b[:], uint64(k))
	return wire.OutPoint{Hash: chainhash.Hash(sha256.Sum256(append([]byte("ext-outpoint"), b[:]...))), Index: 0}
}

func payScript(a btcutil.Address) []byte {
	s, err := txscript.PayToAddrScript(a)
	if err != nil {
		panic(err)
	}
	return s
}

// foreignScript pays a key hash that no wallet of the harness owns.
func foreignScript(k int) []byte {
	h := sha256.Sum256([]byte(fmt.Sprintf("foreign-%d", k)))
	a, err := btcutil.NewAddressWitnessPubKeyHash(h[:20], params)
	if err != nil {
		panic(err)
	}
	return payScript(a)
}
