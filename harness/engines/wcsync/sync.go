package wcsync

import (
	"encoding/binary"
	"fmt"
	"math"
	"math/rand"
	"os"
	"sort"
	"strconv"
	"strings"
	"sync"
	"time"

	"github.com/btcsuite/btcd/btcutil"
	"github.com/btcsuite/btcd/chaincfg/chainhash"
	"github.com/btcsuite/btcd/wire"
	"github.com/btcsuite/btcwallet/chain"
	"github.com/btcsuite/btcwallet/waddrmgr"
	"github.com/btcsuite/btcwallet/wallet"
	"github.com/btcsuite/btcwallet/walletdb"
	"github.com/btcsuite/btcwallet/wtxmgr"

	"verifharness/core"
)

// ---- engine "walletchain-sync" (C15) ----
//
// ops (one reply line each; the Lean driver engine of the same name interprets the same lines on the model):
//   init W=<MaxReorgDepth> batch=<recoveryBatchSize> recw=<n> naddr=<k> gt=<genesis unix time>
//   blk id=<k> parent=<p> t=<unix> txs=<id>[c],...     declare a block (content only)
//   ext id=<k> mode=<a|b|f>                            best chain grows by block k (+ notifications if running)
//   reorg d=<n> br=<k1,k2,...> mode=<a|b|f> [rfin=<k>] drop d blocks, connect the branch bottom-up (rfin: the held rescan's
//                                                      RescanFinished arrives after the first k block events of this reorg)
//   stale id=<k>                                       BlockDisconnected for a block that is not on the best chain
//   dupc | duptx h=<n> | mtx tx=<id>                   repeated BlockConnected(tip) / RelevantTx / unmined tx
//   raw k=<c|d> id=<k>                                 malformed stream: a notification the backend state does not justify
//   stop | start recw=<n> | startx id=<k> mode=<m> | state | hashes from=<a> to=<b>
//   disc                                               the backend connection is lost: ext/reorg move the backend silently
//   reconnect recw=<n>                                 chain.ClientConnected again on the RUNNING wallet: syncWithChain runs once
//                                                      more (rollback loop, recovery, rescan); its rescan is held in flight
//   importkey k=<n> from=<h>                           ImportPrivateKey(rescan=true) from best-chain height h; rescan held in flight
//   gettxs from=<h|-1> to=<h|-1>                       Wallet.GetTransactions(height from, height to) on the running wallet
//                                                      (-1 = mempool height; from > to walks backwards): reply
//                                                      `gettxs mined=<height>:<tx>+<tx>/... unmined=<tx>+...` (blocks in the
//                                                      order reported, transactions of a block ascending) + the C13 oracle
//   rfin                                               the backend reports the held rescan finished (RescanFinished for the tip
//                                                      at the time of the request); every notification op may run in between
//
// Every reply that shows the running wallet ("run ...") ends with ` ntf=<n1>|<n2>|...`: the TransactionNotifications the
// wallet's NotificationServer delivered to a client (registered before SynchronizeRPC) since the previous such reply,
// each as `A=<height>:<block id>[<tx>+<tx>]/...,D=<block id>/...,U=<tx>` (attached blocks in order, detached block
// hashes in order, newly added unmined transactions).

// recentOps: the ops of the current case (diagnostics when a wallet shutdown hangs)
var recentOps []string

var namespaces = struct{ addr, tx []byte }{[]byte("waddrmgr"), []byte("wtxmgr")}

type syncEngine struct{}

func init() { core.Register(syncEngine{}) }

func (syncEngine) Name() string { return "walletchain-sync" }

func (syncEngine) NewRunner() core.Runner { return &syncRunner{} }

type txSpec struct {
	id       int
	coinbase bool
}

type syncRunner struct {
	env            *wenv
	addrs          []btcutil.Address
	txs            map[int]*wire.MsgTx
	txID           map[chainhash.Hash]int
	blkTxs         map[int][]txSpec
	top            int32 // highest height of any declared block
	maxTip         int32 // highest height the wallet was ever asked to connect
	malformed      bool  // a raw op was executed: oracles off for the rest of the case
	recW           uint32
	zeroAt         map[int32]bool // heights at which an all-zero remembered hash was observed in this case
	brokenReported bool
	recoveryTaint  bool // a start-up with a recovery window left stale state behind: later violations are its consequences
	broken         bool // RangeTransactions failed: the transaction store is inconsistent (sticky)

	// C02 (wallet level): every wallet transaction that was delivered to the wallet (its block was on the best chain while
	// the wallet was running and synced, it was found by a start-up rescan/recovery, or it arrived unconfirmed)
	seen map[int]txSpec

	// NotificationServer client of the running wallet and the notification oracle's view
	col    *ntfnCollector
	cchain []chainhash.Hash // the chain a client following the attached blocks has (index = height)

	// backend connection / rescans in flight (ops disc, reconnect, importkey, rfin)
	connected bool   // false between `disc` and `reconnect`: the backend evolves without the wallet being told
	silent    bool   // the backend moved while disconnected
	inflight  string // "" | "reconnect" | "import-rescan": a rescan whose RescanFinished is still to come
	missed    bool   // the rescan in flight has something to catch up (reconnect after a silent evolution)
	raceTaint bool   // a block notification arrived while a catching-up rescan was in flight: the race the TODO in
	// catchUpHashes documents (DESIGN §6 C15: explored, not flagged) — oracles off for the rest of the case
	replayOff bool // the wallet rolled back / caught up silently inside syncWithChain (no attach/detach calls): a client
	// following the TransactionNotifications cannot reconstruct the chain; replay oracle off until restart
	sentDisc []chainhash.Hash // hashes of the BlockDisconnected notifications that make disconnectBlock notify, in order
	gotDet   []chainhash.Hash // DetachedBlocks delivered so far, in order
}

// ntfnCollector receives from the (unbuffered) TransactionNotifications channel of one wallet object.
type ntfnCollector struct {
	client wallet.TransactionNotificationsClient
	mu     sync.Mutex
	got    []*wallet.TransactionNotifications
	ping   chan chan struct{}
	quit   chan struct{}
}

func newCollector(w *wallet.Wallet) *ntfnCollector {
	c := &ntfnCollector{client: w.NtfnServer.TransactionNotifications(), ping: make(chan chan struct{}), quit: make(chan struct{})}
	go func() {
		for {
			select {
			case n, ok := <-c.client.C:
				if !ok {
					return
				}
				c.mu.Lock()
				c.got = append(c.got, n)
				c.mu.Unlock()
			case ack := <-c.ping:
				ack <- struct{}{}
			case <-c.quit:
				return
			}
		}
	}()
	return c
}

// drain returns what was delivered so far.  The wallet's handler has finished the notifications the engine sent (the
// sentinel was accepted), so every send to the client channel has completed; the ping makes sure the collector has
// stored what it received.
func (c *ntfnCollector) drain() []*wallet.TransactionNotifications {
	ack := make(chan struct{})
	select {
	case c.ping <- ack:
		<-ack
	case <-c.quit:
	}
	c.mu.Lock()
	defer c.mu.Unlock()
	out := c.got
	c.got = nil
	return out
}

func (c *ntfnCollector) stop() {
	select {
	case <-c.quit:
	default:
		close(c.quit)
	}
}

// register attaches a fresh client to the wallet object that is about to be started and resets the oracle's view: a
// client that (re)connects learns the chain from the backend, not from notifications.
func (r *syncRunner) register() {
	if r.col != nil {
		r.col.stop()
	}
	r.col = newCollector(r.env.w)
	r.cchain, r.sentDisc, r.gotDet = nil, nil, nil
	r.connected, r.silent, r.inflight, r.missed, r.replayOff = true, false, "", false, false
}

func (r *syncRunner) resetClientChain() {
	r.cchain = nil
	for h := int32(0); ; h++ {
		b := r.env.fc.at(h)
		if b == nil {
			break
		}
		r.cchain = append(r.cchain, b.hash)
	}
}

// disconnectNotifies reports whether disconnectBlock will reach notifyDetachedBlock for b (it returns early with an
// error when b's height is at or below the tip but no hash is remembered for it).
func (r *syncRunner) disconnectNotifies(b *fblock) bool {
	w := r.env.w
	if !w.ChainSynced() {
		return false
	}
	if b.height > w.Manager.SyncedTo().Height {
		return true
	}
	ok := false
	_ = walletdb.View(w.Database(), func(tx walletdb.ReadTx) error {
		_, err := w.Manager.BlockHash(tx.ReadBucket(namespaces.addr), b.height)
		ok = err == nil
		return nil
	})
	return ok
}

// ntfns drains the client, renders the delivered notifications and runs the notification oracle:
//   - the DetachedBlocks delivered so far are, in order, the hashes of the disconnected blocks the engine sent
//     (key ntfn.detached-mismatch); when a notification with attached blocks is delivered none is outstanding
//     (ntfn.detached-missing);
//   - every attached block is a block of the backend with that height, its transactions are transactions of that
//     block (ntfn.attached-unknown-block, ntfn.tx-not-in-block);
//   - a client that follows the notifications (an attached block at height h replaces what the client has from h up,
//     a block it already has at that height changes nothing; then every detached block that is the client's tip is
//     removed) never sees a gap (ntfn.attached-gap) and, whenever a notification with attached blocks was delivered
//     during the op, ends the op with exactly the backend's best chain (ntfn.replay-mismatch).
func (r *syncRunner) ntfns() (string, string) {
	if r.col == nil {
		return "", ""
	}
	got := r.col.drain()
	var out, v []string
	flushed := false
	add := func(s string) {
		if len(v) < 3 {
			v = append(v, s)
		}
	}
	for _, n := range got {
		var as, ds, us []string
		for _, b := range n.AttachedBlocks {
			var ts []string
			fb := r.env.fc.blockByHash(*b.Hash)
			for _, t := range b.Transactions {
				id, ok := r.txID[*t.Hash]
				if !ok {
					id = -1
				}
				ts = append(ts, strconv.Itoa(id))
				if fb != nil {
					in := false
					for _, spec := range r.blkTxs[fb.id] {
						if spec.id == id {
							in = true
						}
					}
					if !in {
						add(fmt.Sprintf("C15 key=ntfn.tx-not-in-block: transaction %d notified in attached block %d which does not contain it", id, fb.id))
					}
				}
			}
			as = append(as, fmt.Sprintf("%d:%s[%s]", b.Height, r.env.fc.idOf(*b.Hash), strings.Join(ts, "+")))
			flushed = true
			if fb == nil || fb.height != b.Height {
				add(fmt.Sprintf("C15 key=ntfn.attached-unknown-block: attached block %s at height %d is not a block of the backend at that height", r.env.fc.idOf(*b.Hash), b.Height))
				continue
			}
			h := int(b.Height)
			switch {
			case h < len(r.cchain) && r.cchain[h] == *b.Hash:
			case h > len(r.cchain):
				add(fmt.Sprintf("C15 key=ntfn.attached-gap: attached block %d at height %d but the notifications so far describe a chain of height %d", fb.id, h, len(r.cchain)-1))
			default:
				r.cchain = append(r.cchain[:h:h], *b.Hash)
			}
		}
		for _, d := range n.DetachedBlocks {
			ds = append(ds, r.env.fc.idOf(*d))
			r.gotDet = append(r.gotDet, *d)
			// a detached block that is (still) the client's tip after the attached blocks were applied: the chain
			// got shorter (pure rollback); any other detached block was replaced by an attached one or never seen
			if k := len(r.cchain); k > 1 && r.cchain[k-1] == *d {
				r.cchain = r.cchain[:k-1]
			}
		}
		for _, t := range n.UnminedTransactions {
			id, ok := r.txID[*t.Hash]
			if !ok {
				id = -1
			}
			us = append(us, strconv.Itoa(id))
		}
		out = append(out, "A="+strings.Join(as, "/")+",D="+strings.Join(ds, "/")+",U="+strings.Join(us, "/"))
	}
	if r.malformed || r.raceTaint {
		return strings.Join(out, "|"), ""
	}
	for i, d := range r.gotDet {
		if i >= len(r.sentDisc) || r.sentDisc[i] != d {
			exp := "none"
			if i < len(r.sentDisc) {
				exp = r.env.fc.idOf(r.sentDisc[i])
			}
			add(fmt.Sprintf("C15 key=ntfn.detached-mismatch: detached block #%d notified is %s, the block disconnected was %s", i, r.env.fc.idOf(d), exp))
			break
		}
	}
	if flushed && len(r.gotDet) < len(r.sentDisc) {
		add(fmt.Sprintf("C15 key=ntfn.detached-missing: a notification with attached blocks was delivered but only %d of %d disconnected blocks were notified as detached", len(r.gotDet), len(r.sentDisc)))
	}
	if r.replayOff {
		// attached-gap (collected above) and replay-mismatch presuppose that every tip change was notified
		var keep []string
		for _, x := range v {
			if !strings.Contains(x, "key=ntfn.attached-gap") {
				keep = append(keep, x)
			}
		}
		v = keep
	}
	if flushed && !r.replayOff {
		okc := len(r.cchain) == int(r.env.fc.tip().height)+1
		for h := 0; okc && h < len(r.cchain); h++ {
			if b := r.env.fc.at(int32(h)); b == nil || b.hash != r.cchain[h] {
				okc = false
			}
		}
		if !okc {
			tip := "-"
			if len(r.cchain) > 0 {
				tip = r.env.fc.idOf(r.cchain[len(r.cchain)-1])
			}
			add(fmt.Sprintf("C15 key=ntfn.replay-mismatch: following the attached blocks gives a chain of height %d with tip %s, backend best chain has height %d tip %d", len(r.cchain)-1, tip, r.env.fc.tip().height, r.env.fc.tip().id))
		}
	}
	return strings.Join(out, "|"), strings.Join(v, "; ")
}

func (r *syncRunner) Close() {
	if r.col != nil {
		r.col.stop()
		r.col = nil
	}
	if r.env != nil {
		r.env.close()
		r.env = nil
	}
}

func atoi(s string) int { n, _ := strconv.Atoi(s); return n }

func (r *syncRunner) mkTx(s txSpec) *wire.MsgTx {
	if tx, ok := r.txs[s.id]; ok {
		return tx
	}
	tx := wire.NewMsgTx(2)
	if s.coinbase {
		op := nullOutPoint()
		tx.AddTxIn(wire.NewTxIn(&op, []byte{0x51, byte(s.id), byte(s.id >> 8), byte(s.id >> 16)}, nil))
	} else {
		op := extOutPoint(s.id)
		tx.AddTxIn(wire.NewTxIn(&op, nil, nil))
	}
	a := r.addrs[s.id%len(r.addrs)]
	tx.AddTxOut(wire.NewTxOut(int64(100000+s.id), payScript(a)))
	r.txs[s.id] = tx
	r.txID[tx.TxHash()] = s.id
	return tx
}

func parseTxSpecs(s string) []txSpec {
	var out []txSpec
	for _, t := range core.CSV(s) {
		cb := strings.HasSuffix(t, "c")
		out = append(out, txSpec{atoi(strings.TrimSuffix(t, "c")), cb})
	}
	return out
}

func (r *syncRunner) Exec(op string) (string, string) {
	if strings.HasPrefix(op, "init ") {
		recentOps = recentOps[:0]
	}
	recentOps = append(recentOps, op)
	reply, v := r.exec1(op)
	if strings.HasPrefix(reply, "run ") {
		ns, nv := r.ntfns()
		reply += " ntf=" + ns
		v = joinV(v, nv)
	}
	return reply, v
}

func (r *syncRunner) exec1(op string) (string, string) {
	kind, kv := core.KV(op)
	if kind != "init" && r.env == nil {
		return "bad-op", ""
	}
	if kind != "init" && r.broken {
		return "store-inconsistent", "" // the case is over (reported once by the oracle)
	}
	switch kind {
	case "init":
		r.Close()
		env, err := newEnv()
		if err != nil {
			return "err env", ""
		}
		r.env = env
		r.txs, r.txID, r.blkTxs = map[int]*wire.MsgTx{}, map[chainhash.Hash]int{}, map[int][]txSpec{}
		r.top, r.maxTip, r.malformed, r.zeroAt, r.broken, r.brokenReported, r.recoveryTaint = 0, 0, false, map[int32]bool{}, false, false, false
		r.raceTaint = false
		r.seen = map[int]txSpec{}
		r.addrs = nil
		r.recW = uint32(atoi(kv["recw"]))
		if atoi(kv["W"]) != waddrmgr.MaxReorgDepth {
			return "err W", ""
		}
		// birthday far in the past: the birthday block is the genesis block
		if err := env.create(seedFor(1), params.GenesisBlock.Header.Timestamp.Add(-240*time.Hour), r.recW); err != nil {
			return "err create " + err.Error(), ""
		}
		r.register()
		r.resetClientChain()
		if !env.startSync(10 * time.Second) {
			return "sync-stuck", ""
		}
		for i := 0; i < atoi(kv["naddr"]); i++ {
			a, err := env.w.NewAddress(0, waddrmgr.KeyScopeBIP0084)
			if err != nil {
				return "err addr " + err.Error(), ""
			}
			r.addrs = append(r.addrs, a)
		}
		return r.state(), r.oracle("init")
	case "blk":
		specs := parseTxSpecs(kv["txs"])
		var txs []*wire.MsgTx
		for _, s := range specs {
			txs = append(txs, r.mkTx(s))
		}
		b, err := r.env.fc.declare(atoi(kv["id"]), atoi(kv["parent"]), int64(atoi(kv["t"])), txs)
		if err != nil {
			return "bad-op", ""
		}
		r.blkTxs[b.id] = specs
		if b.height > r.top {
			r.top = b.height
		}
		return "ok", ""
	case "ext":
		b := r.env.fc.block(atoi(kv["id"]))
		if b == nil || r.env.fc.push(b) != nil {
			return "bad-op", ""
		}
		if !r.env.running {
			return r.state(), ""
		}
		if !r.connected {
			r.silent = true
			return r.state(), ""
		}
		r.noteRace()
		if !r.connect(b, kv["mode"]) {
			return "deliver-timeout", ""
		}
		return r.state(), r.oracle("ntfn")
	case "reorg":
		d := atoi(kv["d"])
		var br []*fblock
		for _, s := range core.CSV(kv["br"]) {
			b := r.env.fc.block(atoi(s))
			if b == nil {
				return "bad-op", ""
			}
			br = append(br, b)
		}
		if d >= len(r.env.fc.best) {
			return "bad-op", ""
		}
		// the backend switches to its new best chain first; the notifications describing the switch are processed by
		// the wallet afterwards (a real node is always ahead of its notification queue)
		var dropped []*fblock
		for i := 0; i < d; i++ {
			dropped = append(dropped, r.env.fc.pop())
		}
		for _, b := range br {
			if r.env.fc.push(b) != nil {
				return "bad-op", ""
			}
		}
		if r.env.running && !r.connected {
			r.silent = true
			return r.state(), ""
		}
		// rfin=<k>: the held rescan's RescanFinished is delivered after the first k block events of this reorg
		// (disconnects tip-first, then the connects) — the backend has already switched to the new branch
		rf, ctx := -1, "ntfn"
		if x, ok := kv["rfin"]; ok {
			rf = atoi(x)
			if !r.env.running || r.inflight == "" || rf > len(dropped)+len(br) {
				return "bad-op", ""
			}
		}
		events := 0
		fin := func() bool {
			if rf != events {
				return true
			}
			ctx = r.inflight
			if !r.env.fc.finishHeld() {
				return false
			}
			if ctx == "import-rescan" {
				settleRescanHandOver()
			}
			r.inflight, r.missed = "", false
			return true
		}
		if r.env.running {
			r.noteRace()
			for _, b := range dropped {
				if !fin() {
					return "deliver-timeout", ""
				}
				events++
				if r.env.w.ChainSynced() {
					// disconnectBlock returns before notifyDetachedBlock while the wallet is not chain-synced
					r.sentDisc = append(r.sentDisc, b.hash)
				}
				if !r.env.fc.deliver(chain.BlockDisconnected(b.meta())) {
					return "deliver-timeout", ""
				}
				r.noteZero()
			}
			for _, b := range br {
				if !fin() {
					return "deliver-timeout", ""
				}
				events++
				if !r.connect(b, kv["mode"]) {
					return "deliver-timeout", ""
				}
			}
			if !fin() {
				return "deliver-timeout", ""
			}
		}
		if !r.env.running {
			return r.state(), ""
		}
		return r.state(), r.oracle(ctx)
	case "stale":
		b := r.env.fc.block(atoi(kv["id"]))
		if b == nil || !r.env.running || !r.connected {
			return "bad-op", ""
		}
		if on := r.env.fc.at(b.height); on == b {
			return "bad-op", "" // not stale
		}
		before := r.state()
		if r.disconnectNotifies(b) {
			r.sentDisc = append(r.sentDisc, b.hash)
		}
		if !r.env.fc.deliver(chain.BlockDisconnected(b.meta())) {
			return "deliver-timeout", ""
		}
		after := r.state()
		v := r.oracle("stale")
		if before != after && !r.malformed && !r.raceTaint {
			v = joinV(v, "C15 key=stale-disconnect-changed-state: a disconnect for a block that is not on the best chain changed the wallet: "+before+" -> "+after)
		}
		return after, v
	case "dupc":
		if !r.env.running || !r.connected {
			return "bad-op", ""
		}
		r.noteRace()
		before := r.state()
		if !r.env.fc.deliver(chain.BlockConnected(r.env.fc.tip().meta())) {
			return "deliver-timeout", ""
		}
		after := r.state()
		v := r.oracle("dup")
		if before != after && !r.malformed && !r.raceTaint {
			v = joinV(v, "C15 key=repeated-connect-changed-state: "+before+" -> "+after)
		}
		return after, v
	case "duptx":
		b := r.env.fc.at(int32(atoi(kv["h"])))
		if b == nil || !r.env.running || !r.connected {
			return "bad-op", ""
		}
		r.noteRace()
		if !r.sendTxs(b) {
			return "deliver-timeout", ""
		}
		return r.state(), r.oracle("dup")
	case "mtx":
		if !r.env.running || !r.connected {
			return "bad-op", ""
		}
		tx := r.mkTx(txSpec{atoi(kv["tx"]), false})
		r.seen[atoi(kv["tx"])] = txSpec{atoi(kv["tx"]), false}
		rec, _ := wtxmgr.NewTxRecordFromMsgTx(tx, time.Unix(1500000000, 0))
		if !r.env.fc.deliver(chain.RelevantTx{TxRecord: rec}) {
			return "deliver-timeout", ""
		}
		return r.state(), r.oracle("ntfn")
	case "raw":
		b := r.env.fc.block(atoi(kv["id"]))
		if b == nil || !r.env.running || !r.connected {
			return "bad-op", ""
		}
		r.malformed = true
		var n interface{}
		if kv["k"] == "c" {
			n = chain.BlockConnected(b.meta())
			if b.height > r.maxTip {
				r.maxTip = b.height
			}
		} else {
			n = chain.BlockDisconnected(b.meta())
		}
		if !r.env.fc.deliver(n) {
			return "deliver-timeout", ""
		}
		return r.state(), ""
	case "stop":
		if r.col != nil {
			r.col.stop()
			r.col = nil
		}
		r.env.stop()
		r.connected, r.silent, r.inflight, r.missed = true, false, "", false
		return r.state(), ""
	case "disc":
		if !r.env.running || !r.connected || r.inflight != "" {
			return "bad-op", ""
		}
		r.connected = false
		return r.state(), ""
	case "reconnect":
		if !r.env.running || r.inflight != "" || uint32(atoi(kv["recw"])) != r.recW {
			return "bad-op", ""
		}
		if _, ok := kv["recw"]; !ok {
			return "bad-op", ""
		}
		r.missed = r.silent
		if r.silent {
			r.replayOff = true
		}
		if !r.env.reconnect(3 * time.Second) {
			if r.col != nil {
				r.col.stop()
				r.col = nil
			}
			r.env.stop()
			r.connected, r.silent, r.inflight, r.missed = true, false, "", false
			v := ""
			if !r.malformed && !r.raceTaint {
				// the generator only reconnects against a best chain at least as high as the wallet's tip
				v = fmt.Sprintf("C15 key=reconnect-stuck: after a valid evolution of the backend while the connection was down, syncWithChain never gets to the rescan (backend tip %d)", r.env.fc.tip().height)
			}
			return "sync-stuck", v
		}
		r.connected, r.silent, r.inflight = true, false, "reconnect"
		if t := r.env.fc.tip().height; t > r.maxTip && r.recW > 0 {
			r.maxTip = t // recovery marks the wallet synced to every block it scans
		}
		return r.state(), r.oracle("reconnect")
	case "importkey":
		from := r.env.fc.at(int32(atoi(kv["from"])))
		if _, ok := kv["from"]; !ok || !r.env.running || !r.connected || r.inflight != "" || from == nil {
			return "bad-op", ""
		}
		if _, ok := kv["k"]; !ok {
			return "bad-op", ""
		}
		if err := r.env.importKey(atoi(kv["k"]), from, 5*time.Second); err != nil {
			return "err import " + err.Error(), ""
		}
		r.inflight, r.missed = "import-rescan", false
		return r.state(), r.oracle("import-rescan")
	case "rfin":
		if !r.env.running || r.inflight == "" {
			return "bad-op", ""
		}
		ctx := r.inflight
		if !r.env.fc.finishHeld() {
			return "deliver-timeout", ""
		}
		if ctx == "import-rescan" {
			// Unchanged-tree shutdown hang (notes/C15.md "Shutdown hang"): rescanBatchHandler hands RescanFinished over
			// to rescanProgressHandler in a select that also listens on quit; when Stop() wins, it sends
			// ErrWalletShuttingDown on the job's error channel, which ImportPrivateKey never drains (it still holds the
			// rescan RPC's nil) — the goroutine blocks for ever and WaitForShutdown never returns.  Give the hand-over
			// time to complete before a following `stop` (env.stop has a timeout for the case it still happens).
			settleRescanHandOver()
		}
		r.inflight, r.missed = "", false
		if t := r.env.fc.tip().height; t > r.maxTip && ctx == "reconnect" {
			// catchUpHashes may have marked the wallet synced up to the height the rescan reported
			if h := r.env.w.Manager.SyncedTo().Height; h > r.maxTip {
				r.maxTip = h
			}
		}
		return r.state(), r.oracle(ctx)
	case "start":
		if r.env.running {
			return "bad-op", ""
		}
		r.recW = uint32(atoi(kv["recw"]))
		if err := r.env.reopen(r.recW); err != nil {
			return "err open " + err.Error(), ""
		}
		r.register()
		r.resetClientChain()
		if !r.env.startSync(1500 * time.Millisecond) {
			r.env.stop()
			v := ""
			if !r.malformed {
				// the generator only restarts against a best chain at least as high as the wallet's tip
				key := "startup-stuck"
				if len(r.zeroAt) > 0 {
					key = "disconnect-zero-hash.startup-stuck"
				}
				v = fmt.Sprintf("C15 key=%s: after a valid evolution of the backend while the wallet was stopped, syncWithChain never succeeds (backend tip %d)", key, r.env.fc.tip().height)
			}
			return "sync-stuck", v
		}
		if t := r.env.fc.tip().height; t > r.maxTip {
			r.maxTip = t
		}
		ctx := "startup"
		if r.recW > 0 {
			ctx = "startup-recovery"
		}
		return r.state(), r.oracle(ctx)
	case "startx":
		// restart; block id (child of the tip) arrives after the rescan request was evaluated: its notifications are
		// queued ahead of RescanFinished
		b := r.env.fc.block(atoi(kv["id"]))
		if r.env.running || b == nil || b.parent != r.env.fc.tip() {
			return "bad-op", ""
		}
		if err := r.env.reopen(0); err != nil {
			return "err open " + err.Error(), ""
		}
		r.recW = 0
		r.register()
		r.resetClientChain()
		mode := kv["mode"]
		r.env.fc.mu.Lock()
		r.env.fc.beforeFinish = func(c *conn) {
			_ = r.env.fc.push(b)
			m := b.meta()
			var recs []*wtxmgr.TxRecord
			for _, tx := range b.txs {
				rec, _ := wtxmgr.NewTxRecordFromMsgTx(tx, b.hdr.Timestamp)
				recs = append(recs, rec)
			}
			sendTxs := func() {
				for _, rec := range recs {
					mm := m
					c.send(chain.RelevantTx{TxRecord: rec, Block: &mm})
				}
			}
			switch mode {
			case "a":
				c.send(chain.BlockConnected(m))
				sendTxs()
			case "b":
				sendTxs()
				c.send(chain.BlockConnected(m))
			default:
				c.send(chain.FilteredBlockConnected{Block: &m, RelevantTxs: recs})
				c.send(chain.BlockConnected(m))
			}
		}
		r.env.fc.mu.Unlock()
		if !r.env.startSync(1500 * time.Millisecond) {
			r.env.stop()
			return "sync-stuck", ""
		}
		if b.height > r.maxTip {
			r.maxTip = b.height
		}
		return r.state(), r.oracle("startup-block-during-rescan")
	case "state":
		return r.state(), ""
	case "gettxs":
		from, err1 := strconv.Atoi(kv["from"])
		to, err2 := strconv.Atoi(kv["to"])
		if !r.env.running || err1 != nil || err2 != nil || from < -1 || to < -1 {
			return "bad-op", ""
		}
		return r.getTxs(int32(from), int32(to))
	case "hashes":
		if !r.env.running {
			return "bad-op", ""
		}
		return "hashes=" + r.hashes(int32(atoi(kv["from"])), int32(atoi(kv["to"]))), ""
	}
	return "bad-op", ""
}

// noteRace: a block / transaction notification is about to be delivered while a rescan that has something to catch up
// is in flight.  The wallet's sync point is below the heights the rescan reports transactions for, so a disconnect of
// such a block is "in the future" for disconnectBlock and its records stay: the reorg-during-rescan race the TODO in
// catchUpHashes documents.  DESIGN §6 C15 puts it outside the property's text: explored (differential), not flagged.
func (r *syncRunner) noteRace() {
	if r.inflight != "" && r.missed {
		r.raceTaint = true
	}
}

// noteZero records that the synced-to hash is all-zero right now (attribution of later consequences).
func (r *syncRunner) noteZero() {
	if s := r.env.w.Manager.SyncedTo(); s.Hash == (chainhash.Hash{}) {
		r.zeroAt[s.Height] = true
	}
}

// settleRescanHandOver waits until rescanBatchHandler has handed the RescanFinished it just received over to
// rescanProgressHandler and is back in its main select.  When the caller's sentinel was taken, handleChainNotifications
// had completed `w.rescanNotifications <- n`, i.e. rescanBatchHandler had received the notification (it is runnable or
// further); rescanProgressHandler is idle in its select, so the hand-over completes as soon as rescanBatchHandler runs,
// and the next time that goroutine is parked in a select it is the outer one.  This is a state of the real wallet, not
// a sleep (it used to be 2 ms, which is too short on a loaded machine: the unchanged-tree shutdown hang then costs
// stopTimeout per occurrence).  VX_NO_SETTLE=1 skips the wait to reproduce the hang.
func settleRescanHandOver() {
	if os.Getenv("VX_NO_SETTLE") != "" {
		return
	}
	deadline := time.Now().Add(5 * time.Second) // best effort: env.stop has its own time limit if the hang happens
	for !goroutineParked("wallet.(*Wallet).rescanBatchHandler", "select") && time.Now().Before(deadline) {
		time.Sleep(200 * time.Microsecond)
	}
}

func joinV(a, b string) string {
	if a == "" {
		return b
	}
	if b == "" {
		return a
	}
	return a + "; " + b
}

func (r *syncRunner) sendTxs(b *fblock) bool {
	m := b.meta()
	for _, tx := range b.txs {
		rec, _ := wtxmgr.NewTxRecordFromMsgTx(tx, b.hdr.Timestamp)
		if !r.env.fc.deliver(chain.RelevantTx{TxRecord: rec, Block: &m}) {
			return false
		}
	}
	return true
}

func (r *syncRunner) connect(b *fblock, mode string) bool {
	if b.height > r.maxTip {
		r.maxTip = b.height
	}
	m := b.meta()
	switch mode {
	case "a":
		return r.env.fc.deliver(chain.BlockConnected(m)) && r.sendTxs(b)
	case "b":
		return r.sendTxs(b) && r.env.fc.deliver(chain.BlockConnected(m))
	default:
		var recs []*wtxmgr.TxRecord
		for _, tx := range b.txs {
			rec, _ := wtxmgr.NewTxRecordFromMsgTx(tx, b.hdr.Timestamp)
			recs = append(recs, rec)
		}
		return r.env.fc.deliver(chain.FilteredBlockConnected{Block: &m, RelevantTxs: recs}) &&
			r.env.fc.deliver(chain.BlockConnected(m))
	}
}

func (r *syncRunner) hashes(from, to int32) string {
	var out []string
	_ = walletdb.View(r.env.w.Database(), func(tx walletdb.ReadTx) error {
		ns := tx.ReadBucket(namespaces.addr)
		for h := from; h <= to; h++ {
			hash, err := r.env.w.Manager.BlockHash(ns, h)
			if err != nil {
				continue
			}
			out = append(out, fmt.Sprintf("%d:%s", h, r.env.fc.idOf(*hash)))
		}
		return nil
	})
	return strings.Join(out, ",")
}

type minedRec struct {
	tx     int
	height int32
	hash   chainhash.Hash
}

// records reads the wtxmgr tx-record bucket directly (key = tx hash | height | block hash): "tx t is recorded in
// block b", independent of the per-height block records.  reported is what RangeTransactions (the public API)
// reports; rangeErr is its error.
func (r *syncRunner) records() (mined []minedRec, unmined []int, reported []minedRec, rangeErr error) {
	_ = walletdb.View(r.env.w.Database(), func(tx walletdb.ReadTx) error {
		ns := tx.ReadBucket(namespaces.tx)
		if b := ns.NestedReadBucket([]byte("t")); b != nil {
			_ = b.ForEach(func(k, _ []byte) error {
				if len(k) != 68 {
					return nil
				}
				var th, bh chainhash.Hash
				copy(th[:], k[:32])
				copy(bh[:], k[36:68])
				id, ok := r.txID[th]
				if !ok {
					id = -1
				}
				mined = append(mined, minedRec{id, int32(binary.BigEndian.Uint32(k[32:36])), bh})
				return nil
			})
		}
		rangeErr = r.env.w.TxStore.RangeTransactions(ns, 0, math.MaxInt32, func(ds []wtxmgr.TxDetails) (bool, error) {
			for _, d := range ds {
				id, ok := r.txID[d.Hash]
				if !ok {
					id = -1
				}
				reported = append(reported, minedRec{id, d.Block.Height, d.Block.Hash})
			}
			return false, nil
		})
		us, _ := r.env.w.TxStore.UnminedTxHashes(ns)
		for _, h := range us {
			id, ok := r.txID[*h]
			if !ok {
				id = -1
			}
			unmined = append(unmined, id)
		}
		return nil
	})
	for i := range mined {
		for j := range mined {
			if mined[i].height == mined[j].height && mined[i].hash != mined[j].hash {
				r.broken = true
			}
		}
	}
	return
}

func (r *syncRunner) idNum(h chainhash.Hash) int {
	switch s := r.env.fc.idOf(h); s {
	case "z":
		return -1
	case "?":
		return -2
	default:
		return atoi(s)
	}
}

func (r *syncRunner) window() (int32, int32) {
	from := int32(0)
	if r.top > 64 {
		from = r.top - 64
	}
	return from, r.top
}

func (r *syncRunner) state() string {
	bt := r.env.fc.tip()
	if !r.env.running {
		return fmt.Sprintf("stopped btip=%d:%d", bt.height, bt.id)
	}
	w := r.env.w
	s := w.Manager.SyncedTo()
	sync := 0
	if w.ChainSynced() {
		sync = 1
	}
	bday := "-"
	_ = walletdb.View(w.Database(), func(tx walletdb.ReadTx) error {
		bs, _, err := w.Manager.BirthdayBlock(tx.ReadBucket(namespaces.addr))
		if err == nil {
			bday = fmt.Sprintf("%d:%s", bs.Height, r.env.fc.idOf(bs.Hash))
		}
		return nil
	})
	mined, unmined, _, _ := r.records()
	if r.broken {
		return "store-inconsistent"
	}
	var ms []string
	sort.Slice(mined, func(i, j int) bool {
		if mined[i].tx != mined[j].tx {
			return mined[i].tx < mined[j].tx
		}
		if mined[i].height != mined[j].height {
			return mined[i].height < mined[j].height
		}
		return r.idNum(mined[i].hash) < r.idNum(mined[j].hash)
	})
	for _, m := range mined {
		ms = append(ms, fmt.Sprintf("%d@%d:%s", m.tx, m.height, r.env.fc.idOf(m.hash)))
	}
	sort.Ints(unmined)
	var us []string
	for _, u := range unmined {
		us = append(us, strconv.Itoa(u))
	}
	from, to := r.window()
	return fmt.Sprintf("run sync=%d tip=%d:%s:%d bday=%s hashes=%s mined=%s unmined=%s", sync, s.Height,
		r.env.fc.idOf(s.Hash), s.Timestamp.Unix(), bday, r.hashes(from, to), strings.Join(ms, ","), strings.Join(us, ","))
}

// oracle evaluates C15 directly on the real wallet against the fake backend (no model involved).
//
// Attribution: violations that are consequences of the all-zero hash written by disconnectBlock get keys starting
// with "disconnect-zero-hash" (the remembered or synced-to hash IS zero; a tx left in a stale block at a height
// whose remembered hash had been zero, so that its disconnect was taken for a stale one; a start-up that cannot find
// a common block); everything else keeps a generic key.
func (r *syncRunner) oracle(ctx string) string {
	if r.raceTaint || !r.connected {
		return ""
	}
	if r.inflight != "" && r.env.running && (r.missed || !r.env.w.ChainSynced()) {
		// A rescan is in flight and the wallet does not claim to be in sync with the backend (it still has to catch
		// up, or — on a changed tree — it reports itself as not chain-synced): DESIGN §6 C15 excludes the not-yet-synced
		// window.  The window closes with `rfin`; the oracles are evaluated then, on the quiescent wallet that reports
		// itself chain-synced again, and after every later op.
		return ""
	}
	v := r.oracle1(ctx)
	if v != "" && ctx == "startup-recovery" {
		r.recoveryTaint = true
	}
	return joinV(v, r.oracleC02(ctx))
}

// oracleC02 is C02's wallet-level clause on the real wallet, against the ground truth of the fake backend (no model):
// what the wallet reports per transaction (Store.TxDetails, Store.RangeTransactions) must equal
//   - every wallet transaction of a best-chain block: confirmed in exactly that block
//     (wallet.tx-missing, wallet.tx-on-best-chain-reported-unconfirmed, wallet.tx-confirmed-in-wrong-block);
//   - every delivered transaction that is in no best-chain block (its block was disconnected, or it never was mined):
//     unconfirmed if it is not a coinbase, gone if it is (wallet.stale-tx-still-confirmed, wallet.stale-tx-lost,
//     wallet.stale-coinbase-kept).
//
// The engine's transactions spend external outputs only, so there are no dependants and no conflicts.  Skipped where
// the ground truth is not unambiguous: malformed streams, an inconsistent store, a not yet chain-synced wallet, cases
// tainted by a start-up with a recovery window that left stale state behind.
func (r *syncRunner) oracleC02(ctx string) string {
	if r.malformed || !r.env.running || r.broken || r.recoveryTaint || !r.env.w.ChainSynced() {
		return ""
	}
	w := r.env.w
	onBest := map[int]*fblock{}
	for h := int32(1); ; h++ {
		b := r.env.fc.at(h)
		if b == nil {
			break
		}
		for _, spec := range r.blkTxs[b.id] {
			onBest[spec.id] = b
			r.seen[spec.id] = spec
		}
	}
	ids := make([]int, 0, len(r.seen))
	for id := range r.seen {
		ids = append(ids, id)
	}
	sort.Ints(ids)
	var v []string
	add := func(key, f string, a ...interface{}) {
		if len(v) < 3 {
			v = append(v, "C02 key=wallet."+key+"."+ctx+": "+fmt.Sprintf(f, a...))
		}
	}
	_ = walletdb.View(w.Database(), func(tx walletdb.ReadTx) error {
		ns := tx.ReadBucket(namespaces.tx)
		for _, id := range ids {
			spec := r.seen[id]
			mtx := r.txs[id]
			if mtx == nil {
				continue
			}
			h := mtx.TxHash()
			d, err := w.TxStore.TxDetails(ns, &h)
			if err != nil {
				add("tx-details-error", "TxDetails(tx %d): %v", id, err)
				continue
			}
			b := onBest[id]
			switch {
			case b != nil && d == nil:
				add("tx-missing", "tx %d is in best-chain block %d (height %d) and was delivered, but the wallet does not know it", id, b.id, b.height)
			case b != nil && d.Block.Height == -1:
				add("tx-on-best-chain-reported-unconfirmed", "tx %d is in best-chain block %d (height %d) but the wallet reports it unconfirmed", id, b.id, b.height)
			case b != nil && (d.Block.Height != b.height || d.Block.Hash != b.hash):
				add("tx-confirmed-in-wrong-block", "tx %d is in best-chain block %d (height %d) but the wallet reports it confirmed at height %d in block %s", id, b.id, b.height, d.Block.Height, r.env.fc.idOf(d.Block.Hash))
			case b == nil && d != nil && d.Block.Height != -1:
				add("stale-tx-still-confirmed", "tx %d is in no best-chain block but the wallet reports it confirmed at height %d in block %s", id, d.Block.Height, r.env.fc.idOf(d.Block.Hash))
			case b == nil && !spec.coinbase && d == nil:
				add("stale-tx-lost", "tx %d was delivered and is in no best-chain block: it should be unconfirmed, the wallet does not know it any more", id)
			case b == nil && spec.coinbase && d != nil:
				add("stale-coinbase-kept", "coinbase tx %d of a disconnected block is still in the wallet (unconfirmed)", id)
			}
		}
		return nil
	})
	// nothing else is reported confirmed
	_, _, reported, _ := r.records()
	for _, m := range reported {
		b := onBest[m.tx]
		if b == nil {
			add("stale-tx-still-confirmed", "tx %d is reported confirmed at height %d in block %s but is in no best-chain block", m.tx, m.height, r.env.fc.idOf(m.hash))
		} else if b.height != m.height || b.hash != m.hash {
			add("tx-confirmed-in-wrong-block", "tx %d is reported confirmed at height %d in block %s, the best chain has it in block %d (height %d)", m.tx, m.height, r.env.fc.idOf(m.hash), b.id, b.height)
		}
	}
	return strings.Join(v, "; ")
}

// getTxs runs Wallet.GetTransactions over the height range and evaluates C13's wallet-level sentence on the answer
// against the ground truth of the fake backend (no model): every wallet transaction that was delivered to the wallet is
// reported EXACTLY ONCE — under the best-chain block that confirms it when that block's height is in the range, as
// unconfirmed when no best-chain block holds it (and the range includes the mempool height), and nowhere else:
//   - GetTransactions.missing         a transaction confirmed in range (or unconfirmed, range incl. -1) is not reported
//   - GetTransactions.reported-twice  a transaction occurs more than once in the answer (under two blocks, twice in one
//                                     block, or mined and unmined)
//   - GetTransactions.wrong-block     a transaction is reported under a block (height, hash) that does not confirm it on
//                                     the best chain / as unmined although confirmed / although out of range
//   - GetTransactions.summary-tx-differs-from-hash   TransactionSummary.Tx does not hash to TransactionSummary.Hash
//   - GetTransactions.block-order     the blocks are not reported ascending (from < to) / descending (otherwise)
// The ground truth and the windows in which it is unambiguous are those of oracleC02.
func (r *syncRunner) getTxs(from, to int32) (string, string) {
	w := r.env.w
	res, err := w.GetTransactions(wallet.NewBlockIdentifierFromHeight(from), wallet.NewBlockIdentifierFromHeight(to), "", nil)
	if err != nil {
		return "err gettxs", fmt.Sprintf("C13 key=GetTransactions.error: GetTransactions(%d, %d): %v", from, to, err)
	}
	idOf := func(h *chainhash.Hash) int {
		if h != nil {
			if id, ok := r.txID[*h]; ok {
				return id
			}
		}
		return -1
	}
	type rep struct {
		height int32 // -1 = unmined
		hash   chainhash.Hash
	}
	reported := map[int][]rep{}
	var v []string
	add := func(key, f string, a ...interface{}) {
		if len(v) < 4 {
			v = append(v, fmt.Sprintf("C13 key=GetTransactions.%s: GetTransactions(%d, %d): ", key, from, to)+fmt.Sprintf(f, a...))
		}
	}
	sumOK := func(s *wallet.TransactionSummary, where string) {
		if s.Hash == nil || s.Tx == nil || s.Tx.TxHash() != *s.Hash {
			add("summary-tx-differs-from-hash", "%s: the summary's transaction does not hash to the summary's hash", where)
		}
	}
	var ms []string
	for _, b := range res.MinedTransactions {
		var ids []int
		for i := range b.Transactions {
			s := &b.Transactions[i]
			id := idOf(s.Hash)
			ids = append(ids, id)
			var bh chainhash.Hash
			if b.Hash != nil {
				bh = *b.Hash
			}
			reported[id] = append(reported[id], rep{b.Height, bh})
			sumOK(s, fmt.Sprintf("block at height %d", b.Height))
		}
		sort.Ints(ids)
		var ss []string
		for _, id := range ids {
			ss = append(ss, strconv.Itoa(id))
		}
		ms = append(ms, fmt.Sprintf("%d:%s", b.Height, strings.Join(ss, "+")))
	}
	var uids []int
	for i := range res.UnminedTransactions {
		s := &res.UnminedTransactions[i]
		id := idOf(s.Hash)
		uids = append(uids, id)
		reported[id] = append(reported[id], rep{height: -1})
		sumOK(s, "unmined")
	}
	sort.Ints(uids)
	var us []string
	for _, id := range uids {
		us = append(us, strconv.Itoa(id))
	}
	reply := fmt.Sprintf("gettxs mined=%s unmined=%s", strings.Join(ms, "/"), strings.Join(us, "+"))

	// the oracle's windows: as for oracle / oracleC02
	if r.raceTaint || !r.connected || r.malformed || r.broken || r.recoveryTaint || !w.ChainSynced() ||
		(r.inflight != "" && r.missed) {
		return reply, ""
	}
	bound := func(x int32) int32 {
		if x < 0 {
			return math.MaxInt32
		}
		return x
	}
	lo, hi, forward := bound(from), bound(to), bound(from) < bound(to)
	if lo > hi {
		lo, hi = hi, lo
	}
	withUnmined := from < 0 || to < 0
	dir := "forwards"
	if !forward {
		dir = "backwards"
	}
	for i := 1; i < len(res.MinedTransactions); i++ {
		a, b := res.MinedTransactions[i-1].Height, res.MinedTransactions[i].Height
		if (forward && a >= b) || (!forward && a <= b) {
			add("block-order", "walking %s, block at height %d is reported before the block at height %d", dir, a, b)
			break
		}
	}
	onBest := map[int]*fblock{}
	all := map[int]txSpec{}
	for id, spec := range r.seen {
		all[id] = spec
	}
	for h := int32(1); ; h++ {
		b := r.env.fc.at(h)
		if b == nil {
			break
		}
		for _, spec := range r.blkTxs[b.id] {
			onBest[spec.id] = b
			all[spec.id] = spec
		}
	}
	ids := make([]int, 0, len(all))
	for id := range all {
		ids = append(ids, id)
	}
	sort.Ints(ids)
	where := func(x rep) string {
		if x.height == -1 {
			return "as unmined"
		}
		return fmt.Sprintf("under block %s at height %d", r.env.fc.idOf(x.hash), x.height)
	}
	for _, id := range ids {
		reps := reported[id]
		b := onBest[id]
		if len(reps) > 1 {
			var ws []string
			for _, x := range reps {
				ws = append(ws, where(x))
			}
			add("reported-twice", "walking %s, tx %d is reported %d times (%s), want exactly once", dir, id, len(reps), strings.Join(ws, ", "))
			continue
		}
		switch {
		case b != nil && b.height >= lo && b.height <= hi:
			if len(reps) == 0 {
				add("missing", "walking %s, tx %d is confirmed in best-chain block %d (height %d) and was delivered, but is not reported", dir, id, b.id, b.height)
			} else if reps[0].height != b.height || reps[0].hash != b.hash {
				add("wrong-block", "walking %s, tx %d is confirmed in best-chain block %d (height %d) but reported %s", dir, id, b.id, b.height, where(reps[0]))
			}
		case b != nil:
			if len(reps) == 1 {
				add("wrong-block", "walking %s, tx %d is confirmed in best-chain block %d (height %d, outside the range) but reported %s", dir, id, b.id, b.height, where(reps[0]))
			}
		case all[id].coinbase:
			if len(reps) == 1 {
				add("wrong-block", "walking %s, coinbase tx %d is in no best-chain block but reported %s", dir, id, where(reps[0]))
			}
		default:
			// delivered, in no best-chain block: unconfirmed
			if len(reps) == 1 && reps[0].height != -1 {
				add("wrong-block", "walking %s, tx %d is in no best-chain block but reported %s", dir, id, where(reps[0]))
			} else if len(reps) == 0 && withUnmined {
				add("missing", "walking %s, tx %d was delivered and is in no best-chain block: it should be reported as unmined, it is not reported", dir, id)
			} else if len(reps) == 1 && !withUnmined {
				add("wrong-block", "walking %s, unconfirmed tx %d is reported although the range does not include the mempool height", dir, id)
			}
		}
	}
	if n := len(reported[-1]); n > 0 {
		add("wrong-block", "walking %s, %d reported transactions are not transactions of the wallet", dir, n)
	}
	return reply, strings.Join(v, "; ")
}

func (r *syncRunner) oracle1(ctx string) string {
	if r.malformed || !r.env.running {
		return ""
	}
	if r.recoveryTaint {
		ctx = "startup-recovery"
	}
	if r.broken {
		if r.brokenReported {
			return ""
		}
		r.brokenReported = true
		key := "store-inconsistent." + ctx
		if len(r.zeroAt) > 0 {
			key = "disconnect-zero-hash.store-inconsistent"
		}
		return fmt.Sprintf("C15 key=%s: the store holds transaction records of two different blocks at one height (a disconnect was not applied): some transaction is recorded in a block that is not on the best chain", key)
	}
	w := r.env.w
	bt := r.env.fc.tip()
	zero := chainhash.Hash{}
	var v []string
	s := w.Manager.SyncedTo()
	if s.Height != bt.height || s.Hash != bt.hash {
		key := "tip." + ctx
		if s.Height == bt.height && s.Hash == zero {
			key = "disconnect-zero-hash.tip"
		}
		v = append(v, fmt.Sprintf("C15 key=%s: synced-to %d:%s but backend tip %d:%d", key, s.Height, r.env.fc.idOf(s.Hash), bt.height, bt.id))
	}
	if s.Height == bt.height && s.Hash == bt.hash && s.Timestamp.Unix() != bt.hdr.Timestamp.Unix() {
		v = append(v, fmt.Sprintf("C15 key=tip-time.%s: synced-to timestamp %d, block's %d", ctx, s.Timestamp.Unix(), bt.hdr.Timestamp.Unix()))
	}
	// remembered hashes: every remembered height <= tip carries the best-chain hash, and every height in
	// (maxTip - MaxReorgDepth, tip] is remembered (the birthday block is the genesis block in this engine).
	lo := r.maxTip - waddrmgr.MaxReorgDepth + 1
	if lo < 0 {
		lo = 0
	}
	from := lo - 3
	if from < 0 {
		from = 0
	}
	if bt.height-from > 200 {
		from = bt.height - 200 // long chains: the recent part every step, the far edge via `hashes` ops
	}
	var bad, badZero string
	_ = walletdb.View(w.Database(), func(tx walletdb.ReadTx) error {
		ns := tx.ReadBucket(namespaces.addr)
		for h := from; h <= bt.height+2; h++ {
			hash, err := w.Manager.BlockHash(ns, h)
			if err == nil && *hash == zero {
				r.zeroAt[h] = true
			}
			if h > bt.height {
				continue
			}
			on := r.env.fc.at(h)
			if err != nil {
				if h >= lo && bad == "" {
					bad = fmt.Sprintf("C15 key=hash-missing.%s: no hash remembered for height %d (tip %d, highest tip ever %d)", ctx, h, bt.height, r.maxTip)
				}
				continue
			}
			if *hash == zero {
				if badZero == "" {
					badZero = fmt.Sprintf("C15 key=disconnect-zero-hash.hash: remembered hash at height %d is all-zero, best chain has block %d", h, on.id)
				}
			} else if *hash != on.hash && bad == "" {
				bad = fmt.Sprintf("C15 key=hash-stale.%s: remembered hash at height %d is block %s, best chain has %d", ctx, h, r.env.fc.idOf(*hash), on.id)
			}
		}
		return nil
	})
	if bad != "" {
		v = append(v, bad)
	}
	if badZero != "" {
		v = append(v, badZero)
	}
	_, _, reported, rerr := r.records()
	if rerr != nil {
		v = append(v, fmt.Sprintf("C15 key=range-transactions-error.%s: %v", ctx, rerr))
	}
	for _, m := range reported {
		on := r.env.fc.at(m.height)
		if on == nil || on.hash != m.hash {
			key := "offchain-tx." + ctx
			if r.zeroAt[m.height] || r.zeroAt[m.height-1] {
				// the block's disconnect was taken for a stale one (remembered hash at its height was zero) or
				// failed (GetBlockHeader of the zero hash below it)
				key = "disconnect-zero-hash.offchain-tx"
			}
			v = append(v, fmt.Sprintf("C15 key=%s: tx %d reported confirmed at height %d in block %s which is not on the best chain", key, m.tx, m.height, r.env.fc.idOf(m.hash)))
			break
		}
	}
	return strings.Join(v, "; ")
}

// ---- generator ----

type gblock struct {
	id, parent, height int
	txs                []txSpec
}

type syncGen struct {
	rng     *rand.Rand
	ops     []string
	blocks  map[int]*gblock
	best    []int // ids by height
	nextBlk int
	nextTx  int
	gt      int64
	running bool
	tags    map[string]bool
	nextKey int
	forceN  int          // > 0: the next block gets exactly forceN-1 new wallet transactions (one-shot)
	dense   bool         // blocks hold 1..3 wallet transactions more often than none (history queries over several blocks)
	shallow bool         // only depth-1 reorgs whose fork height is not zero-marked (keeps clear of the zero-hash cascade)
	zero    map[int]bool // heights whose remembered hash is all-zero if disconnectBlock has the quirk
}

func (g *syncGen) emit(f string, a ...interface{}) { g.ops = append(g.ops, fmt.Sprintf(f, a...)) }

func (g *syncGen) mode() string { return []string{"a", "b", "f"}[g.rng.Intn(3)] }

// newBlock declares a block on top of parent, optionally re-mining some given transactions.
func (g *syncGen) newBlock(parent int, remine []txSpec) int {
	p := g.blocks[parent]
	id := g.nextBlk
	g.nextBlk++
	var txs []txSpec
	txs = append(txs, remine...)
	n := 0
	switch x := g.rng.Intn(10); {
	case x < 4:
		n = 0
	case x < 8:
		n = 1
	default:
		n = 2
	}
	if g.dense {
		n = []int{0, 1, 1, 2, 3}[g.rng.Intn(5)]
	}
	if g.forceN > 0 {
		n, g.forceN = g.forceN-1, 0
	}
	for i := 0; i < n; i++ {
		cb := g.rng.Intn(6) == 0 && i == 0 && len(remine) == 0
		txs = append(txs, txSpec{g.nextTx, cb})
		g.nextTx++
	}
	b := &gblock{id: id, parent: parent, height: p.height + 1, txs: txs}
	g.blocks[id] = b
	var ts []string
	for _, t := range txs {
		s := strconv.Itoa(t.id)
		if t.coinbase {
			s += "c"
		}
		ts = append(ts, s)
	}
	g.emit("blk id=%d parent=%d t=%d txs=%s", id, parent, g.gt+int64(b.height)*600+int64(g.rng.Intn(300)), strings.Join(ts, ","))
	return id
}

func (g *syncGen) tip() int { return g.best[len(g.best)-1] }

func (g *syncGen) extend() {
	id := g.newBlock(g.tip(), nil)
	g.best = append(g.best, id)
	delete(g.zero, len(g.best)-1)
	g.emit("ext id=%d mode=%s", id, g.mode())
}

func (g *syncGen) reorg(maxDepth int, minLen func(d int) int) {
	h := len(g.best) - 1
	if h == 0 {
		g.extend()
		return
	}
	d := 1 + g.rng.Intn(maxDepth)
	if d > h {
		d = h
	}
	if g.shallow {
		if g.zero[h-1] {
			g.extend()
			return
		}
		d = 1
	}
	n := minLen(d)
	if g.shallow && n < 1 {
		n = 1
	}
	if g.running {
		g.zero[h-d] = true
	}
	// non-coinbase transactions of the dropped blocks may be mined again on the new branch
	var pool []txSpec
	for _, id := range g.best[len(g.best)-d:] {
		for _, t := range g.blocks[id].txs {
			if !t.coinbase && g.rng.Intn(2) == 0 {
				pool = append(pool, t)
			}
		}
	}
	g.best = g.best[:len(g.best)-d]
	var br []string
	for i := 0; i < n; i++ {
		var re []txSpec
		if len(pool) > 0 && g.rng.Intn(2) == 0 {
			k := 1 + g.rng.Intn(len(pool))
			re, pool = pool[:k], pool[k:]
		}
		id := g.newBlock(g.tip(), re)
		g.best = append(g.best, id)
		delete(g.zero, len(g.best)-1)
		br = append(br, strconv.Itoa(id))
	}
	g.tags[fmt.Sprintf("reorg-depth-%d", d)] = true
	g.emit("reorg d=%d br=%s mode=%s", d, strings.Join(br, ","), g.mode())
}

func (g *syncGen) staleID() (int, bool) {
	var c []int
	for id, b := range g.blocks {
		if b.height >= len(g.best) || g.best[b.height] != id {
			c = append(c, id)
		}
	}
	if len(c) == 0 {
		return 0, false
	}
	sort.Ints(c)
	return c[g.rng.Intn(len(c))], true
}

func (g *syncGen) step(allowRestart bool, recw int) {
	x := g.rng.Intn(100)
	switch {
	case x < 40:
		g.extend()
	case x < 62:
		g.reorg(4, func(d int) int { return d + g.rng.Intn(3) - g.rng.Intn(2)*g.rng.Intn(2) })
	case x < 66:
		g.reorg(20, func(d int) int { return d + 1 })
	case x < 76:
		if id, ok := g.staleID(); ok {
			g.emit("stale id=%d", id)
			g.tags["stale-disconnect"] = true
		} else {
			g.extend()
		}
	case x < 80:
		g.emit("dupc")
	case x < 85:
		g.emit("duptx h=%d", g.rng.Intn(len(g.best)))
	case x < 88:
		g.emit("mtx tx=%d", g.nextTx)
		g.nextTx++
	case x < 97 && allowRestart:
		g.offline(recw)
	default:
		g.emit("state")
	}
}

// offline: stop, let the backend evolve, restart.  The new best chain is at least as high as the wallet's tip
// (otherwise syncWithChain keeps failing until the backend catches up: explored separately).
func (g *syncGen) offline(recw int) {
	g.emit("stop")
	g.running = false
	defer func() { g.running = true }()
	wtip := len(g.best) - 1
	g.tags["restart"] = true
	if g.rng.Intn(5) == 0 && recw == 0 {
		// nothing happened while stopped, but a block arrives while the start-up rescan is in flight
		id := g.newBlock(g.tip(), nil)
		g.best = append(g.best, id)
		delete(g.zero, len(g.best)-1)
		g.emit("startx id=%d mode=%s", id, g.mode())
		g.tags["block-during-rescan"] = true
		return
	}
	g.unseenEvolution(wtip, "restart-after-reorg")
	g.emit("start recw=%d", recw)
}

// unseenEvolution: the backend moves while the wallet is not told (stopped, or its connection is down), ending at least
// as high as the wallet's tip wtip.
func (g *syncGen) unseenEvolution(wtip int, reorgTag string) {
	switch g.rng.Intn(4) {
	case 0: // nothing happened
	case 1: // pure extension
		for i := 0; i < 1+g.rng.Intn(3); i++ {
			g.extend()
		}
	default: // reorg, ending at least as high as before
		g.reorg(6, func(d int) int { return d + g.rng.Intn(3) })
		for i := 0; i < g.rng.Intn(3); i++ {
			if g.rng.Intn(3) == 0 {
				g.reorg(2, func(d int) int { return d + g.rng.Intn(2) })
			} else {
				g.extend()
			}
		}
		for len(g.best)-1 < wtip {
			g.extend()
		}
		g.tags[reorgTag] = true
	}
}

// windowSteps: n notification steps while a rescan is in flight on the running wallet (between the rescan request and
// its RescanFinished): extensions, reorgs with wallet transactions in the dropped blocks (longer, equal, shorter and
// empty new branches), stale / repeated notifications.
func (g *syncGen) windowSteps(n int) {
	for i := 0; i < n; i++ {
		switch x := g.rng.Intn(20); {
		case x < 4:
			g.extend()
		case x < 12:
			g.reorg(4, func(d int) int { return d + g.rng.Intn(3) - g.rng.Intn(2)*g.rng.Intn(2) })
			g.tags["reorg-during-rescan"] = true
		case x < 14:
			g.reorg(3, func(d int) int { return 0 })
			g.tags["reorg-during-rescan"] = true
		case x < 16:
			if id, ok := g.staleID(); ok {
				g.emit("stale id=%d", id)
			} else {
				g.extend()
			}
		case x < 17:
			g.emit("dupc")
		case x < 18:
			g.emit("duptx h=%d", g.rng.Intn(len(g.best)))
		case x < 19:
			g.emit("mtx tx=%d", g.nextTx)
			g.nextTx++
		default:
			g.emit("state")
		}
	}
}

// finishRescan closes the window: plain `rfin`, or (1 in 4) RescanFinished lands in the middle of one more reorg —
// after k of its block events, the backend already being on the new branch.
func (g *syncGen) finishRescan() {
	if g.rng.Intn(4) != 0 || len(g.best) < 2 {
		g.emit("rfin")
		return
	}
	g.reorg(3, func(d int) int { return d + g.rng.Intn(3) - g.rng.Intn(2) })
	last := g.ops[len(g.ops)-1]
	kind, kv := core.KV(last)
	if kind != "reorg" {
		g.emit("rfin")
		return
	}
	total := atoi(kv["d"]) + len(core.CSV(kv["br"]))
	g.ops[len(g.ops)-1] = fmt.Sprintf("%s rfin=%d", last, g.rng.Intn(total+1))
	g.tags["rescan-finished-mid-reorg"] = true
}

// blockN extends the best chain by a block with exactly n new wallet transactions.
func (g *syncGen) blockN(n int) {
	g.forceN = n + 1
	g.extend()
}

// getTxs asks for the wallet's transaction history over a height range: the whole chain in both directions with and
// without the mempool, or a random sub-range in a random direction.
func (g *syncGen) getTxs() {
	tip := len(g.best) - 1
	var from, to int
	switch g.rng.Intn(8) {
	case 0:
		from, to = 0, -1
	case 1:
		from, to = -1, 0
	case 2:
		from, to = 0, tip
	case 3:
		from, to = tip, 0
	default:
		from, to = g.rng.Intn(tip+2)-1, g.rng.Intn(tip+3)-1
	}
	g.emit("gettxs from=%d to=%d", from, to)
	g.tags["gettxs"] = true
}

// txBlock extends the best chain by a block that holds at least one wallet transaction.
func (g *syncGen) txBlock() {
	t := txSpec{g.nextTx, false}
	g.nextTx++
	id := g.newBlock(g.tip(), []txSpec{t})
	g.best = append(g.best, id)
	delete(g.zero, len(g.best)-1)
	g.emit("ext id=%d mode=%s", id, g.mode())
}

// importRescan: a private key is imported with rescan=true on the running, synced wallet; the backend keeps the rescan
// in flight while `win` notification steps happen; then RescanFinished — or the wallet is stopped with the rescan
// still in flight and restarted.
func (g *syncGen) importRescan(win int, recw int) {
	if g.rng.Intn(2) == 0 {
		g.txBlock() // a wallet transaction near the tip, where the reorgs of the window reach it
	}
	g.nextKey++
	g.emit("importkey k=%d from=%d", g.nextKey, g.rng.Intn(len(g.best)))
	g.tags["import-rescan"] = true
	g.windowSteps(win)
	if g.rng.Intn(8) == 0 {
		g.offline(recw)
		g.tags["stop-with-rescan-in-flight"] = true
		return
	}
	g.finishRescan()
}

// reconnect: the backend connection is re-established on the running wallet.  silent = the connection was down for a
// while and the backend moved meanwhile (then nothing happens while the catching-up rescan is in flight, except when
// race is set: explored only).
func (g *syncGen) reconnect(silent bool, win int, recw int, race bool) {
	if silent {
		g.emit("disc")
		g.running = false
		g.unseenEvolution(len(g.best)-1, "reconnect-after-reorg")
		g.running = true
		g.emit("reconnect recw=%d", recw)
		g.tags["reconnect-missed-blocks"] = true
		if race {
			// block notifications while the catching-up rescan is in flight: explored only (differential).  The
			// backend never gets lower than the height the rescan will report: a catchUpHashes transaction that
			// fails half-way leaves waddrmgr's in-memory sync point ahead of the database (C08's subject, not
			// modelled here).
			for i := 0; i < 1+g.rng.Intn(2); i++ {
				switch g.rng.Intn(4) {
				case 0:
					g.extend()
				case 1:
					g.emit("dupc")
				default:
					g.reorg(3, func(d int) int { return d + g.rng.Intn(2) })
				}
			}
			g.tags["rescan-race"] = true
		}
		g.emit("rfin")
		return
	}
	if g.rng.Intn(2) == 0 {
		g.txBlock()
	}
	g.emit("reconnect recw=%d", recw)
	g.tags["reconnect"] = true
	g.windowSteps(win)
	if g.rng.Intn(10) == 0 {
		g.offline(recw)
		g.tags["stop-with-rescan-in-flight"] = true
		return
	}
	g.finishRescan()
}

func (syncEngine) Generate(rng *rand.Rand, tier string) []core.Case {
	gt := params.GenesisBlock.Header.Timestamp.Unix()
	n, steps := 36, 45
	if tier == "thorough" {
		n, steps = 450, 60 // thorough tier: ~5 min per seed on the Go side, 4 seeds (each op also drains the NtfnServer and runs the C02 wallet-level oracle); the long pruning-window chain below is kept
	}
	var cases []core.Case
	mk := func(recw int) *syncGen {
		g := &syncGen{rng: rng, blocks: map[int]*gblock{0: {id: 0}}, best: []int{0}, nextBlk: 1, nextTx: 1, gt: gt, running: true, tags: map[string]bool{}, zero: map[int]bool{}}
		g.emit("init W=%d batch=2000 recw=%d naddr=4 gt=%d", waddrmgr.MaxReorgDepth, recw, gt)
		return g
	}
	fin := func(g *syncGen, extra ...string) {
		var tags []string
		for t := range g.tags {
			tags = append(tags, t)
		}
		sort.Strings(tags)
		cases = append(cases, core.Case{Ops: g.ops, Tags: append(tags, extra...)})
	}
	for i := 0; i < n; i++ {
		g := mk(0)
		for j := 0; j < steps; j++ {
			g.step(true, 0)
		}
		fin(g, "valid-evolution")
	}
	// shallow reorgs only: stays clear of the zero-hash cascade, so the whole case is compared on the unchanged tree
	for i := 0; i < n/2; i++ {
		g := mk(0)
		g.shallow = true
		for j := 0; j < steps; j++ {
			g.step(true, 0)
		}
		fin(g, "valid-evolution", "shallow-reorgs")
	}
	// restarts of a wallet that was opened with a recovery window (recovery runs before the rollback loop)
	for i := 0; i < n/6+1; i++ {
		recw := 1 + rng.Intn(5)
		g := mk(recw)
		for j := 0; j < steps/2; j++ {
			g.step(true, recw)
		}
		fin(g, "valid-evolution", "recovery-window")
	}
	// start-up path, densely: every few steps the wallet is stopped, the backend extends or reorganises (wallet
	// transactions in the stale blocks, some mined again on the new branch), and the wallet restarts — alternately
	// with and without a recovery window
	for i := 0; i < n/4 && i < 60; i++ {
		recw := 0
		if i%2 == 1 {
			recw = 1 + rng.Intn(5)
		}
		g := mk(recw)
		for j := 0; j < steps/2; j++ {
			if j%4 == 3 {
				g.offline(recw)
			} else {
				g.step(false, recw)
			}
		}
		fin(g, "valid-evolution", "dense-restarts")
	}
	// recovery in more than one batch (recoveryBatchSize = 2000 is a constant of the wallet): the backend grows by
	// 2100 blocks while the wallet is stopped, wallet transactions on both sides of the batch boundary
	{
		g := mk(2)
		for j := 0; j < 3; j++ {
			g.extend()
		}
		g.emit("stop")
		g.running = false
		for j := 0; j < 2100; j++ {
			if j >= 1990 && j < 2005 {
				g.extend()
				continue
			}
			id := g.nextBlk
			g.nextBlk++
			g.blocks[id] = &gblock{id: id, parent: g.tip(), height: len(g.best)}
			g.emit("blk id=%d parent=%d t=%d txs=", id, g.tip(), gt+int64(len(g.best))*600)
			g.best = append(g.best, id)
			g.emit("ext id=%d mode=a", id)
		}
		g.emit("start recw=2")
		g.running = true
		g.emit("hashes from=1980 to=2110")
		for j := 0; j < 8; j++ {
			g.step(true, 2)
		}
		fin(g, "valid-evolution", "recovery-two-batches")
	}
	// notification coalescing: pure rollbacks (empty branch), repeated connects, equal-length reorgs and the
	// BlockConnected-before-RelevantTx order, which leave entries pending in the NotificationServer
	for i := 0; i < n/3 && i < 60; i++ {
		g := mk(0)
		for j := 0; j < steps; j++ {
			switch x := rng.Intn(12); {
			case x < 3:
				id := g.newBlock(g.tip(), nil)
				g.best = append(g.best, id)
				g.emit("ext id=%d mode=%s", id, []string{"a", "a", "b", "f"}[rng.Intn(4)])
			case x < 5:
				g.reorg(3, func(d int) int { return 0 })
				g.tags["pure-rollback"] = true
			case x < 7:
				g.reorg(3, func(d int) int { return d })
			case x < 9:
				g.emit("dupc")
			default:
				g.step(true, 0)
			}
		}
		fin(g, "valid-evolution", "ntfn-coalescing")
	}
	// malformed streams: differential only
	for i := 0; i < n/4+1; i++ {
		g := mk(0)
		for j := 0; j < steps/2; j++ {
			if rng.Intn(4) == 0 {
				var ids []int
				for id := range g.blocks {
					ids = append(ids, id)
				}
				sort.Ints(ids)
				g.emit("raw k=%s id=%d", []string{"c", "d"}[rng.Intn(2)], ids[rng.Intn(len(ids))])
			} else if rng.Intn(6) == 0 {
				// gapped connect: a block two above the tip whose predecessor height the wallet has never seen
				a := g.newBlock(g.tip(), nil)
				b := g.newBlock(a, nil)
				g.emit("raw k=c id=%d", b)
			} else if rng.Intn(5) == 0 {
				// a declared but never connected side block, target for raw ops
				g.newBlock(g.best[rng.Intn(len(g.best))], nil)
			} else {
				g.step(false, 0)
			}
		}
		fin(g, "malformed-stream")
	}
	// ---- rescans on a running, synced wallet (round-2 seeds C02-4, C15-5) ----
	// scripted: the two histories of the seeds' demos and their closest variants
	script := func(tag string, f func(g *syncGen)) {
		g := mk(0)
		f(g)
		fin(g, "valid-evolution", "rescan-in-flight", tag)
	}
	chain := func(g *syncGen, n int) {
		for j := 0; j < n; j++ {
			g.extend()
		}
	}
	// reconnect, then the tip (holding a wallet transaction) is disconnected before RescanFinished
	script("reconnect-then-disconnect", func(g *syncGen) {
		chain(g, 2)
		g.txBlock()
		g.emit("reconnect recw=0")
		g.reorg(1, func(int) int { return 0 })
		g.emit("rfin")
		g.extend()
		g.emit("stop")
		g.running = false
		g.emit("start recw=0")
		g.running = true
	})
	// reconnect, depth-2 reorg to a longer branch before RescanFinished
	script("reconnect-then-reorg", func(g *syncGen) {
		chain(g, 2)
		g.txBlock()
		g.extend()
		g.emit("reconnect recw=0")
		g.reorg(2, func(d int) int { return d + 1 })
		g.emit("rfin")
		g.extend()
	})
	// import with rescan; depth-2 reorg (wallet transaction in the lower dropped block) while the rescan is in flight
	script("import-then-reorg", func(g *syncGen) {
		chain(g, 3)
		g.txBlock()
		g.extend()
		g.emit("importkey k=1 from=1")
		g.reorg(2, func(d int) int { return d + 1 })
		g.emit("rfin")
		g.extend()
		g.emit("stop")
		g.running = false
		g.emit("start recw=0")
		g.running = true
		g.extend()
	})
	// import with rescan; the reorg's disconnects arrive before, its connects after RescanFinished
	script("import-rescan-finished-mid-reorg", func(g *syncGen) {
		chain(g, 3)
		g.txBlock()
		g.txBlock()
		g.emit("importkey k=1 from=0")
		g.reorg(2, func(int) int { return 0 })
		g.emit("rfin")
		chain(g, 3)
		g.txBlock()
		g.emit("importkey k=2 from=2")
		g.reorg(2, func(d int) int { return d + 1 })
		g.ops[len(g.ops)-1] += " rfin=2" // both disconnects, RescanFinished (catchUpHashes from the new branch), the connects
		g.txBlock()
		g.emit("reconnect recw=0")
		g.reorg(2, func(d int) int { return d })
		g.ops[len(g.ops)-1] += " rfin=1"
	})
	nw := n / 3
	if nw > 40 {
		nw = 40
	}
	for i := 0; i < nw; i++ {
		g := mk(0)
		for j := 0; j < steps/2; j++ {
			if j%5 == 4 {
				g.importRescan(g.rng.Intn(4), 0)
			} else {
				g.step(true, 0)
			}
		}
		fin(g, "valid-evolution", "rescan-in-flight")
	}
	for i := 0; i < nw; i++ {
		recw := 0
		if i%3 == 2 {
			recw = 1 + rng.Intn(5)
		}
		g := mk(recw)
		for j := 0; j < steps/2; j++ {
			switch {
			case j%5 == 4 && rng.Intn(3) == 0:
				g.reconnect(true, 0, recw, rng.Intn(6) == 0)
			case j%5 == 4:
				g.reconnect(false, rng.Intn(4), recw, false)
			case j%11 == 7:
				g.importRescan(g.rng.Intn(3), recw)
			default:
				g.step(true, recw)
			}
		}
		fin(g, "valid-evolution", "rescan-in-flight", "backend-reconnect")
	}
	// ---- wallet-level transaction history (C13; round-3 seed C13-6): Wallet.GetTransactions over ranges visiting
	// several blocks with wallet transactions, forwards and backwards, with and without the mempool ----
	hist := func(tag string, f func(g *syncGen)) {
		g := mk(0)
		f(g)
		fin(g, "valid-evolution", "history-ranges", tag)
	}
	allRanges := func(g *syncGen) {
		tip := len(g.best) - 1
		for _, ft := range [][2]int{{0, -1}, {-1, 0}, {0, tip}, {tip, 0}, {1, tip - 1}, {tip - 1, 1}, {tip, tip}, {-1, -1}, {2, -1}, {-1, 2}} {
			g.emit("gettxs from=%d to=%d", ft[0], ft[1])
		}
		g.tags["gettxs"] = true
	}
	// 2, 1, 1 wallet transactions in three consecutive blocks (a later block fits the array of an earlier one walking
	// forwards), then 1, 2 (fits walking backwards only), empty blocks in between
	hist("blocks-2-1-1", func(g *syncGen) {
		chain(g, 1)
		g.blockN(2)
		g.blockN(1)
		g.blockN(1)
		g.blockN(0)
		allRanges(g)
	})
	hist("blocks-1-2", func(g *syncGen) {
		g.blockN(1)
		g.blockN(0)
		g.blockN(2)
		g.blockN(0)
		allRanges(g)
	})
	hist("blocks-1-1-unmined", func(g *syncGen) {
		g.blockN(1)
		g.blockN(1)
		g.emit("mtx tx=%d", g.nextTx)
		g.nextTx++
		g.blockN(3)
		g.blockN(2)
		allRanges(g)
	})
	// the history after a reorg (transactions of the dropped blocks unconfirmed again or mined again) and after a restart
	hist("reorg-restart", func(g *syncGen) {
		g.blockN(2)
		g.blockN(1)
		g.blockN(2)
		allRanges(g)
		g.reorg(2, func(d int) int { return d + 1 })
		allRanges(g)
		g.emit("stop")
		g.running = false
		g.blockN(1)
		g.emit("start recw=0")
		g.running = true
		allRanges(g)
	})
	nh := n / 3
	if nh > 40 {
		nh = 40
	}
	for i := 0; i < nh; i++ {
		g := mk(0)
		g.dense = true
		for j := 0; j < steps/2; j++ {
			switch x := rng.Intn(10); {
			case x < 3 && len(g.best) > 2:
				g.getTxs()
			case x < 5:
				g.extend()
			default:
				g.step(true, 0)
			}
		}
		g.getTxs()
		fin(g, "valid-evolution", "history-ranges")
	}
	if tier == "thorough" {
		// one long chain crossing the MaxReorgDepth pruning window, with reorgs near the far edge
		g := mk(0)
		for j := 0; j < waddrmgr.MaxReorgDepth+40; j++ {
			id := g.nextBlk
			g.nextBlk++
			g.blocks[id] = &gblock{id: id, parent: g.tip(), height: len(g.best)}
			g.emit("blk id=%d parent=%d t=%d txs=", id, g.tip(), gt+int64(len(g.best))*600)
			g.best = append(g.best, id)
			g.emit("ext id=%d mode=a", id)
		}
		g.emit("hashes from=0 to=80")
		g.reorg(20, func(d int) int { return d + 1 })
		g.emit("hashes from=0 to=80")
		for j := 0; j < 30; j++ {
			g.step(true, 0)
		}
		g.emit("hashes from=0 to=120")
		fin(g, "valid-evolution", "long-chain")
	}
	return cases
}
