package txstore

import (
	"fmt"
	"time"

	"github.com/btcsuite/btcd/chaincfg/chainhash"
	"github.com/btcsuite/btcd/wire"
	"github.com/btcsuite/btcwallet/wtxmgr"

	"verifharness/core"
)

// sb builds scripted cases.
type sb struct {
	ops []string
	n   uint32
	txs []*txDef
}

func newSB(mat int) *sb {
	b := &sb{}
	b.add("reset mat=%d", mat)
	return b
}

func (b *sb) add(f string, a ...interface{}) { b.ops = append(b.ops, fmt.Sprintf(f, a...)) }

func (b *sb) tx(ins []wire.OutPoint, outs ...int64) *txDef {
	b.n++
	t := mkTx(fmt.Sprintf("s%d", b.n), 1000+b.n, ins, outs)
	b.txs = append(b.txs, t)
	b.add("%s", t.defLine())
	return t
}

func (b *sb) foreign() wire.OutPoint {
	b.n++
	var h chainhash.Hash
	h[0], h[31] = 0xee, byte(b.n)
	return wire.OutPoint{Hash: h, Index: 0}
}

func out(t *txDef, i uint32) wire.OutPoint { return wire.OutPoint{Hash: t.hash, Index: i} }

func blk(h int32, br int) *simBlock {
	return &simBlock{height: h, hash: blockHash(h, br), time: 1500000000 + int64(h)*600 + int64(br)}
}

func (b *sb) conf(t *txDef, bl *simBlock, cr string) {
	b.add("ev conf %s %d %s %d cr=%s", t.tid, bl.height, hx(bl.hash), bl.time, cr)
}
func (b *sb) seen(t *txDef, cr string) { b.add("ev seen %s cr=%s", t.tid, cr) }

func (b *sb) probe(top int) {
	b.add("probe %d", top)
	b.add("spec probe %d", top)
	b.add("inv %d", top)
	b.add("refcheck")
	for _, t := range b.txs {
		b.add("details %s", hx(t.hash))
		b.add("spec details %s", hx(t.hash))
	}
	b.add("range 0 -1")
	b.add("spec range 0 -1")
	b.add("range -1 0")
	b.add("spec range -1 0")
	b.add("watch")
	b.add("spec watch")
	b.add("dump")
}

func (b *sb) done(tag string) core.Case {
	return core.Case{Ops: b.ops, Tags: []string{"scripted", tag}}
}

func scripted() []core.Case {
	var cs []core.Case

	// F6: zero-value credit, confirmed spender rolled back and then abandoned
	{
		b := newSB(3)
		p := b.tx([]wire.OutPoint{b.foreign()}, 0, 5000)
		t := b.tx([]wire.OutPoint{out(p, 0)}, 1000)
		b.conf(p, blk(1, 1), "0:0,1:0")
		b.conf(t, blk(2, 1), "0:0")
		b.probe(2)
		b.add("rollback 2")
		b.probe(1)
		b.add("removeunmined %s", t.tid)
		b.probe(1)
		cs = append(cs, b.done("zero-value-credit"))
	}
	// F8: lease granted to a sub-second instant, probed inside the truncated second
	{
		b := newSB(3)
		p := b.tx([]wire.OutPoint{b.foreign()}, 4000, 6000)
		b.add("clock 1700000000500000000")
		b.conf(p, blk(1, 1), "0:0,1:1")
		b.add("lock 1 %s 1200000000", opLong(out(p, 0)))
		b.probe(1)
		b.add("clock 1700000001000000000")
		b.probe(1)
		b.add("clock 1700000001699999999")
		b.probe(1)
		b.add("lock 2 %s 1000000000", opLong(out(p, 0)))
		b.probe(1)
		b.add("clock 1700000001700000000")
		b.probe(1)
		cs = append(cs, b.done("lease-subsecond"))
	}
	// whole-second lease: boundary instants e-1ns, e, e+1ns; other id; extend; unknown; reopen; sweep
	{
		b := newSB(3)
		p := b.tx([]wire.OutPoint{b.foreign()}, 4000, 6000)
		u := b.tx([]wire.OutPoint{b.foreign()}, 700)
		b.add("clock 1700000000000000000")
		b.conf(p, blk(1, 1), "0:0,1:1")
		b.seen(u, "0:0")
		b.add("lock 1 %s 2000000000", opLong(out(p, 0)))
		b.add("lock 2 %s 2000000000", opLong(out(p, 0)))
		b.add("unlock 2 %s", opLong(out(p, 0)))
		b.add("lock 1 %s 5000000000", opLong(out(p, 0)))
		b.add("lock 2 %s 1000000000", opLong(out(u, 0)))
		b.add("lock 1 %s 1000000000", opLong(out(u, 3)))
		b.add("lock 1 %s 1000000000", opLong(b.foreign()))
		b.probe(1)
		b.add("reopen")
		b.probe(1)
		for _, t := range []int64{1700000000999999999, 1700000001000000000, 1700000001000000001, 1700000004999999999, 1700000005000000000, 1700000005000000001} {
			b.add("clock %d", t)
			b.add("listlocked")
			b.probe(1)
		}
		b.add("sweep")
		b.probe(1)
		cs = append(cs, b.done("lease-boundaries"))
	}
	// leased and spent by an unconfirmed transaction (must be subtracted once); leased immature coinbase; confirmed spend clears the lease
	{
		b := newSB(4)
		c := b.tx([]wire.OutPoint{nullOut()}, 50000)
		p := b.tx([]wire.OutPoint{b.foreign()}, 4000, 6000)
		t := b.tx([]wire.OutPoint{out(p, 0)}, 3500)
		b.add("clock 1700000000000000000")
		b.conf(c, blk(1, 1), "0:0")
		b.conf(p, blk(1, 1), "0:0,1:1")
		b.add("lock 1 %s 60000000000", opLong(out(p, 0)))
		b.add("lock 1 %s 60000000000", opLong(out(c, 0)))
		b.probe(1)
		b.seen(t, "0:1")
		b.probe(2)
		b.add("lock 2 %s 60000000000", opLong(out(t, 0)))
		b.probe(3)
		b.conf(t, blk(3, 1), "0:1")
		b.probe(3)
		b.probe(6)
		b.add("rollback 3")
		b.probe(2)
		cs = append(cs, b.done("leased-and-unconfirmed-spent"))
	}
	// a block holding a credit and its spender; rollback of that block; reconnect in another block and order
	{
		b := newSB(3)
		p := b.tx([]wire.OutPoint{b.foreign()}, 4000, 6000)
		t := b.tx([]wire.OutPoint{out(p, 0)}, 3500, 100)
		q := b.tx([]wire.OutPoint{out(t, 0), out(p, 1)}, 9000)
		b.conf(p, blk(5, 1), "0:0,1:0")
		b.conf(t, blk(5, 1), "0:1")
		b.conf(q, blk(6, 1), "0:0")
		b.probe(6)
		b.add("rollback 5")
		b.probe(4)
		b.conf(p, blk(5, 2), "0:0,1:0")
		b.probe(5)
		b.conf(t, blk(6, 2), "0:1")
		b.conf(q, blk(6, 2), "0:0")
		b.probe(6)
		b.add("rollback 6")
		b.add("rollback 6")
		b.probe(5)
		cs = append(cs, b.done("credit-and-spender-in-one-block"))
	}
	// coinbase with a spend chain of length 3, reorg below the coinbase
	{
		b := newSB(2)
		c := b.tx([]wire.OutPoint{nullOut()}, 50000, 7000)
		t1 := b.tx([]wire.OutPoint{out(c, 0)}, 49000)
		t2 := b.tx([]wire.OutPoint{out(t1, 0)}, 48000)
		t3 := b.tx([]wire.OutPoint{out(t2, 0)}, 47000)
		o := b.tx([]wire.OutPoint{b.foreign()}, 1234)
		b.conf(c, blk(1, 1), "0:0")
		b.conf(t1, blk(3, 1), "0:0")
		b.seen(t2, "0:0")
		b.seen(t3, "0:1")
		b.seen(o, "0:0")
		b.probe(3)
		b.add("rollback 3")
		b.probe(2)
		b.add("rollback 1")
		b.probe(0)
		cs = append(cs, b.done("coinbase-spend-chain"))
	}
	// a transaction paying the wallet that spends a NON-credited output of a coinbase whose block is disconnected
	{
		b := newSB(2)
		c := b.tx([]wire.OutPoint{nullOut()}, 50000, 7000)
		t := b.tx([]wire.OutPoint{out(c, 1)}, 6500)
		b.conf(c, blk(1, 1), "0:0")
		b.seen(t, "0:0")
		b.probe(3)
		b.add("rollback 1")
		b.probe(0)
		cs = append(cs, b.done("spender-of-uncredited-coinbase-output"))
	}
	// double spend confirmed against a pool chain of two
	{
		b := newSB(3)
		p := b.tx([]wire.OutPoint{b.foreign()}, 4000, 6000)
		a1 := b.tx([]wire.OutPoint{out(p, 0)}, 3900)
		a2 := b.tx([]wire.OutPoint{out(a1, 0), out(p, 1)}, 9800)
		d := b.tx([]wire.OutPoint{out(p, 0)}, 3800)
		o := b.tx([]wire.OutPoint{b.foreign()}, 1234)
		b.conf(p, blk(1, 1), "0:0,1:0")
		b.seen(a1, "0:1")
		b.seen(a2, "0:1")
		b.seen(o, "0:0")
		b.probe(1)
		b.conf(d, blk(2, 1), "0:0")
		b.probe(2)
		b.add("rollback 2")
		b.probe(1)
		b.seen(a1, "0:1")
		b.probe(1)
		cs = append(cs, b.done("confirmed-double-spend-vs-pool-chain"))
	}
	// redelivery (InsertTx + AddCredit again) of a confirmed tx whose credit a confirmed tx has spent meanwhile; the
	// same for an unconfirmed spender; redelivery of the unconfirmed notification after confirmation
	{
		b := newSB(3)
		p := b.tx([]wire.OutPoint{b.foreign()}, 100000, 777)
		t := b.tx([]wire.OutPoint{out(p, 0)}, 40000, 59000)
		u := b.tx([]wire.OutPoint{out(t, 0)}, 39000)
		b.conf(p, blk(10, 1), "0:0")
		b.conf(t, blk(11, 1), "1:1")
		b.probe(11)
		b.add("ev conf! %s %d %s %d cr=0:0", p.tid, 10, hx(blk(10, 1).hash), blk(10, 1).time)
		b.probe(11)
		b.add("ev seen! %s cr=0:0", p.tid)
		b.probe(11)
		b.seen(u, "0:0")
		b.add("ev conf! %s %d %s %d cr=1:1", t.tid, 11, hx(blk(11, 1).hash), blk(11, 1).time)
		b.add("ev seen! %s cr=0:0", u.tid)
		b.probe(12)
		b.add("rollback 11")
		b.add("ev seen! %s cr=1:1", t.tid)
		b.add("ev conf! %s %d %s %d cr=0:0", p.tid, 10, hx(blk(10, 1).hash), blk(10, 1).time)
		b.probe(10)
		cs = append(cs, b.done("redelivery-after-spend"))
	}
	// credit spent by a confirmed tx; both rolled back; the credit's tx re-confirmed; the spender abandoned / replaced
	{
		b := newSB(3)
		a := b.tx([]wire.OutPoint{b.foreign()}, 5000, 600)
		t := b.tx([]wire.OutPoint{out(a, 0)}, 4900)
		d := b.tx([]wire.OutPoint{out(a, 0)}, 4800)
		b.conf(a, blk(5, 1), "0:0,1:1")
		b.conf(t, blk(5, 1), "0:0") // same block, after the tx whose credit it spends
		b.probe(6)
		b.add("rollback 5")
		b.probe(4)
		b.conf(a, blk(5, 2), "0:0,1:1")
		b.probe(5)
		b.add("removeunmined %s", t.tid)
		b.probe(5)
		b.conf(d, blk(6, 2), "0:0")
		b.probe(6)
		b.add("rollback 6")
		b.probe(5)
		cs = append(cs, b.done("respent-after-reconfirm"))
	}
	// rollback to a height that has no block record (blocks without wallet transactions in between)
	{
		b := newSB(3)
		p := b.tx([]wire.OutPoint{b.foreign()}, 5000)
		q := b.tx([]wire.OutPoint{out(p, 0)}, 4000)
		r := b.tx([]wire.OutPoint{b.foreign()}, 3000)
		b.conf(p, blk(3, 1), "0:0")
		b.conf(q, blk(6, 1), "0:0")
		b.conf(r, blk(8, 1), "0:0")
		b.probe(9)
		b.add("rollback 7")
		b.probe(6)
		b.add("range 7 0")
		b.add("spec range 7 0")
		b.add("range 5 4")
		b.add("spec range 5 4")
		b.add("range 4 9")
		b.add("spec range 4 9")
		b.add("rollback 4")
		b.probe(3)
		b.add("range 7 0")
		b.add("spec range 7 0")
		b.add("range 2 -1")
		b.add("spec range 2 -1")
		cs = append(cs, b.done("rollback-to-height-without-record"))
	}
	// an unconfirmed descendant hanging off a NON-credited output of a conflicting / abandoned transaction;
	// a leased unconfirmed credit; a lease that survives the rollback of its output's block
	{
		b := newSB(3)
		p := b.tx([]wire.OutPoint{b.foreign()}, 4000, 6000)
		a := b.tx([]wire.OutPoint{out(p, 0)}, 1000, 2900) // output 1 not credited
		c := b.tx([]wire.OutPoint{out(a, 1)}, 2800)       // hangs off the non-credited output
		d := b.tx([]wire.OutPoint{out(p, 0)}, 3900)       // conflicts with a
		e := b.tx([]wire.OutPoint{out(p, 1)}, 5900)
		b.add("clock 1700000000000000000")
		b.conf(p, blk(1, 1), "0:0,1:0")
		b.seen(a, "0:1")
		b.seen(c, "0:0")
		b.add("lock 1 %s 60000000000", opLong(out(c, 0)))
		b.probe(1)
		b.conf(d, blk(2, 1), "0:0")
		b.probe(2)
		b.seen(e, "0:0")
		b.add("lock 2 %s 60000000000", opLong(out(p, 1)))
		b.add("lock 1 %s 60000000000", opLong(out(e, 0)))
		b.probe(2)
		b.add("removeunmined %s", e.tid)
		b.probe(2)
		b.add("lock 1 %s 60000000000", opLong(out(d, 0)))
		b.add("rollback 2")
		b.probe(1)
		b.add("rollback 1")
		b.probe(0)
		cs = append(cs, b.done("descendant-via-foreign-output+leases"))
	}
	// OUTSIDE the quantifier of C01/C02/C12/C13 (no validating node emits these; the runner's tracker answers
	// strict=0 and the property oracles stay silent; Go<->Lean correspondence is still checked on every op):
	// (1) an unconfirmed transaction delivered although it double-spends an output a CONFIRMED transaction spends
	//     (the store keeps no debit for the output the chain already spent; the ledger reading would list one);
	{
		b := newSB(2)
		c := b.tx([]wire.OutPoint{nullOut()}, 50000)
		a := b.tx([]wire.OutPoint{out(c, 0)}, 20000, 29000)
		x := b.tx([]wire.OutPoint{out(a, 0)}, 19000)
		y := b.tx([]wire.OutPoint{out(a, 0), out(a, 1)}, 48000)
		b.conf(a, blk(1, 1), "0:0,1:1")
		b.conf(x, blk(1, 1), "0:0")
		b.probe(1)
		b.seen(y, "0:0")
		b.probe(1)
		b.add("rollback 1")
		b.probe(0)
		cs = append(cs, b.done("outside-quantifier:unconfirmed-conflicts-with-confirmed"))
	}
	// (2) an input that names a known transaction but none of its outputs.
	{
		b := newSB(3)
		p := b.tx([]wire.OutPoint{b.foreign()}, 4000, 6000)
		t := b.tx([]wire.OutPoint{out(p, 7)}, 3500)
		u := b.tx([]wire.OutPoint{out(p, 0)}, 3900)
		b.conf(p, blk(1, 1), "0:0,1:0")
		b.seen(u, "0:0")
		b.probe(1)
		b.seen(t, "0:0")
		b.probe(1)
		b.add("removeunmined %s", u.tid)
		b.probe(1)
		cs = append(cs, b.done("outside-quantifier:input-names-missing-output"))
	}
	return cs
}

// exhaustive: every history of at most 5 events that passes ledger.consistent, over a 4-transaction universe
// (coinbase, a chain of two, a conflicting spend); the final state of each history is probed (prefixes are histories
// too).  Histories in which some event fails ledger.extra (e.g. the unconfirmed delivery of y after its rival x has
// confirmed: no validating node emits that) lie outside the quantifier of C01/C02/C12/C13: they are kept, tagged
// `exhaustive-outside-quantifier`, for the Go<->Lean correspondence (which holds on all inputs); the runner's own
// tracker (r.strict) switches the property oracles off for them.
var maxDepth = 5

func exhaustive() []core.Case {
	type ev struct {
		line string
		e    event
	}
	b := newSB(2)
	c := b.tx([]wire.OutPoint{nullOut()}, 50000)
	a := b.tx([]wire.OutPoint{out(c, 0)}, 20000, 29000)
	x := b.tx([]wire.OutPoint{out(a, 0)}, 19000)
	y := b.tx([]wire.OutPoint{out(a, 0), out(a, 1)}, 48000) // conflicts with x
	header := append([]string{}, b.ops...)
	txs := []*txDef{c, a, x, y}
	cr := map[*txDef]string{c: "0:0", a: "0:0,1:1", x: "0:0", y: "0:0"}
	crs := map[*txDef][]credSpec{c: {{0, false}}, a: {{0, false}, {1, true}}, x: {{0, false}}, y: {{0, false}}}
	var cases []core.Case
	var rec func(l *ledger, lines []string, top int32, branch int, depth int, strict bool)
	clone := func(l *ledger) *ledger { return l.clone() }
	rec = func(l *ledger, lines []string, top int32, branch int, depth int, strict bool) {
		if depth > 0 {
			tag := "exhaustive"
			if !strict {
				tag = "exhaustive-outside-quantifier"
			}
			ops := append(append([]string{}, header...), lines...)
			ops = append(ops, fmt.Sprintf("probe %d", top), fmt.Sprintf("spec probe %d", top), fmt.Sprintf("inv %d", top), "refcheck")
			for _, t := range txs {
				ops = append(ops, "details "+hx(t.hash), "spec details "+hx(t.hash))
			}
			ops = append(ops, "range 0 -1", "spec range 0 -1", "range -1 0", "spec range -1 0", "dump")
			cases = append(cases, core.Case{Ops: ops, Tags: []string{tag}})
		}
		if depth == maxDepth {
			return
		}
		var cands []ev
		for _, t := range txs {
			cands = append(cands, ev{fmt.Sprintf("ev seen %s cr=%s", t.tid, cr[t]), event{kind: "seen", tx: t, credits: crs[t]}})
			for _, h := range []int32{top, top + 1} {
				if h == 0 {
					continue
				}
				br := branch
				if h == top+1 {
					br = branch + 1
				}
				bl := blk(h, br)
				cands = append(cands, ev{fmt.Sprintf("ev conf %s %d %s %d cr=%s", t.tid, bl.height, hx(bl.hash), bl.time, cr[t]),
					event{kind: "conf", tx: t, bm: &wtxmgr.BlockMeta{Block: wtxmgr.Block{Hash: bl.hash, Height: bl.height}, Time: time.Unix(bl.time, 0)}, credits: crs[t]}})
			}
			cands = append(cands, ev{"removeunmined " + t.tid, event{kind: "abandon", tx: t}})
		}
		for _, h := range []int32{top, top - 1} {
			if h >= 1 {
				cands = append(cands, ev{fmt.Sprintf("rollback %d", h), event{kind: "disc", height: int64(h)}})
			}
		}
		for _, cnd := range cands {
			if !l.consistent(cnd.e) {
				continue
			}
			st := strict && l.extra(cnd.e)
			n := clone(l)
			n.apply(cnd.e)
			nt, nb := top, branch
			switch cnd.e.kind {
			case "conf":
				if cnd.e.bm.Height > top {
					nt, nb = cnd.e.bm.Height, branch+1
				}
			case "disc":
				nt = int32(cnd.e.height) - 1
				nb = branch + 1
			}
			rec(n, append(append([]string{}, lines...), cnd.line), nt, nb, depth+1, st)
		}
	}
	rec(newLedger(), nil, 0, 0, 0, true)
	return cases
}
