package txstore

// Go-side specification and property oracles for C01, C02, C12, C13.
//
// The ledger below is recomputed from the event history only; it never looks at the store.  It is written from
// the property texts: known transactions = those in blocks + unconfirmed ones; an output is spent when a known
// transaction spends it; balance(minConf) = sum of credited, unspent, unleased, sufficiently confirmed (and, for
// coinbases, matured) outputs; events change the ledger as the sentences of C02 say.

import (
	"bytes"
	"fmt"
	"regexp"
	"sort"
	"strings"

	"github.com/btcsuite/btcd/chaincfg/chainhash"
	"github.com/btcsuite/btcd/wire"
	"github.com/btcsuite/btcwallet/wtxmgr"
)

type oBlock struct {
	height int32
	hash   chainhash.Hash
	time   int64
	txs    []*txDef
}

type oLease struct {
	id     uint64
	expiry int64 // ns, as handed to the caller
}

type ledger struct {
	chain  []*oBlock // ascending height
	pool   []*txDef  // arrival order
	credit map[wire.OutPoint]bool
	leases map[wire.OutPoint]oLease
	now    int64
	// truncate lease expiries to whole seconds when deciding "leased" (used only to attribute a mismatch to F8)
	trunc bool
	// alternative reading used only to attribute a mismatch: on disconnect, only spenders of CREDITED coinbase
	// outputs (and their descendants) disappear
	cbCreditedOnly bool
}

func (l *ledger) clone() *ledger {
	n := newLedger()
	for _, bl := range l.chain {
		nb := *bl
		nb.txs = append([]*txDef{}, bl.txs...)
		n.chain = append(n.chain, &nb)
	}
	n.pool = append([]*txDef{}, l.pool...)
	for k, v := range l.credit {
		n.credit[k] = v
	}
	for k, v := range l.leases {
		n.leases[k] = v
	}
	n.now, n.trunc, n.cbCreditedOnly = l.now, l.trunc, l.cbCreditedOnly
	return n
}

func newLedger() *ledger {
	return &ledger{credit: map[wire.OutPoint]bool{}, leases: map[wire.OutPoint]oLease{}}
}

type event struct {
	kind    string // seen conf disc abandon lease release sweep clock
	tx      *txDef
	bm      *wtxmgr.BlockMeta
	credits []credSpec
	height  int64
	id      uint64
	op      wire.OutPoint
	dur     int64
	t       int64
}

func (t *txDef) coinbase() bool { return len(t.ins) == 1 && isNull(t.ins[0]) }

func (t *txDef) spends(op wire.OutPoint) bool {
	for _, i := range t.ins {
		if i == op {
			return true
		}
	}
	return false
}

func (t *txDef) spendsTx(h chainhash.Hash) bool {
	for _, i := range t.ins {
		if i.Hash == h {
			return true
		}
	}
	return false
}

type knownTx struct {
	tx  *txDef
	blk *oBlock // nil = unconfirmed
}

func (l *ledger) known() []knownTx {
	var k []knownTx
	for _, b := range l.chain {
		for _, t := range b.txs {
			k = append(k, knownTx{t, b})
		}
	}
	for _, t := range l.pool {
		k = append(k, knownTx{t, nil})
	}
	return k
}

func (l *ledger) find(h chainhash.Hash) *knownTx {
	for _, t := range l.pool {
		if t.hash == h {
			return &knownTx{t, nil}
		}
	}
	for _, b := range l.chain {
		for _, t := range b.txs {
			if t.hash == h {
				return &knownTx{t, b}
			}
		}
	}
	return nil
}

func (l *ledger) inPool(h chainhash.Hash) bool {
	k := l.find(h)
	return k != nil && k.blk == nil
}

func (l *ledger) inChain(h chainhash.Hash) *oBlock {
	for _, b := range l.chain {
		for _, t := range b.txs {
			if t.hash == h {
				return b
			}
		}
	}
	return nil
}

func (l *ledger) spent(op wire.OutPoint) bool {
	for _, k := range l.known() {
		if k.tx.spends(op) {
			return true
		}
	}
	return false
}

func (l *ledger) spentConfirmed(op wire.OutPoint) bool {
	for _, k := range l.known() {
		if k.blk != nil && k.tx.spends(op) {
			return true
		}
	}
	return false
}

func (l *ledger) leaseOf(op wire.OutPoint) (oLease, bool) {
	ls, ok := l.leases[op]
	if !ok {
		return oLease{}, false
	}
	e := ls.expiry
	if l.trunc {
		e = floorDiv(e, 1e9) * 1e9
	}
	if l.now < e {
		return ls, true
	}
	return oLease{}, false
}

// granted: the expiry a lease is granted: now + duration, rounded up to the next whole second (leases have second
// granularity; the caller is told the rounded instant).
func granted(now, dur int64) int64 {
	e := now + dur
	if r := e - floorDiv(e, 1e9)*1e9; r != 0 {
		e = (floorDiv(e, 1e9) + 1) * 1e9
	}
	return e
}

func floorDiv(a, b int64) int64 {
	q := a / b
	if a%b != 0 && (a < 0) != (b < 0) {
		q--
	}
	return q
}

// inF8Window: outpoints whose lease has expired by the stored (whole second) expiry but not by the expiry
// that LockOutput returned to the caller.
func (l *ledger) inF8Window() []wire.OutPoint {
	var w []wire.OutPoint
	for op, ls := range l.leases {
		if floorDiv(ls.expiry, 1e9)*1e9 <= l.now && l.now < ls.expiry {
			w = append(w, op)
		}
	}
	return w
}

func (l *ledger) top() int64 {
	var t int64
	for _, b := range l.chain {
		if int64(b.height) > t {
			t = int64(b.height)
		}
	}
	return t
}

// ---- observables written from C01 ----

func (l *ledger) balance(minConf, sync, maturity int64) int64 {
	var sum int64
	for _, k := range l.known() {
		var confs int64
		if k.blk != nil {
			confs = sync - int64(k.blk.height) + 1
		}
		for i, v := range k.tx.outs {
			op := wire.OutPoint{Hash: k.tx.hash, Index: uint32(i)}
			if _, ok := l.credit[op]; !ok {
				continue
			}
			if l.spent(op) {
				continue
			}
			if _, leased := l.leaseOf(op); leased {
				continue
			}
			if k.blk == nil && minConf != 0 { // unconfirmed ones count only at zero
				continue
			}
			if confs < minConf {
				continue
			}
			if k.tx.coinbase() && confs < maturity {
				continue
			}
			sum += v
		}
	}
	return sum
}

type oCredit struct {
	op     wire.OutPoint
	amount int64
	blk    *oBlock
	cb     bool
}

func (c oCredit) str() string {
	b := "-1/-/0"
	if c.blk != nil {
		b = fmt.Sprintf("%d/%s/%d", c.blk.height, h12(c.blk.hash), c.blk.time)
	}
	return fmt.Sprintf("%s=%d@%s/%s", opStr(c.op), c.amount, b, b01(c.cb))
}

func (l *ledger) utxos() []oCredit {
	var out []oCredit
	for _, k := range l.known() {
		for i, v := range k.tx.outs {
			op := wire.OutPoint{Hash: k.tx.hash, Index: uint32(i)}
			if _, ok := l.credit[op]; !ok || l.spent(op) {
				continue
			}
			if _, leased := l.leaseOf(op); leased {
				continue
			}
			out = append(out, oCredit{op, v, k.blk, k.tx.coinbase()})
		}
	}
	sort.Slice(out, func(i, j int) bool { return opLess(out[i].op, out[j].op) })
	return out
}

func (l *ledger) watchSet() []wire.OutPoint {
	var out []wire.OutPoint
	for _, k := range l.known() {
		for i := range k.tx.outs {
			op := wire.OutPoint{Hash: k.tx.hash, Index: uint32(i)}
			if _, ok := l.credit[op]; ok && !l.spentConfirmed(op) {
				out = append(out, op)
			}
		}
	}
	sort.Slice(out, func(i, j int) bool { return opLess(out[i], out[j]) })
	return out
}

func (l *ledger) locked() []string {
	var ops []wire.OutPoint
	for op := range l.leases {
		if _, ok := l.leaseOf(op); ok {
			ops = append(ops, op)
		}
	}
	sort.Slice(ops, func(i, j int) bool { return opLess(ops[i], ops[j]) })
	var out []string
	for _, op := range ops {
		out = append(out, fmt.Sprintf("%s=%d/%d", opStr(op), l.leases[op].id, l.leases[op].expiry))
	}
	return out
}

func (l *ledger) poolHashes() []chainhash.Hash {
	var hs []chainhash.Hash
	for _, t := range l.pool {
		hs = append(hs, t.hash)
	}
	sort.Slice(hs, func(i, j int) bool { return bytes.Compare(hs[i][:], hs[j][:]) < 0 })
	return hs
}

func (l *ledger) probeStr(mat int64, minConfs, syncs []int64) string {
	var bals []string
	for _, m := range minConfs {
		for _, sy := range syncs {
			bals = append(bals, fmt.Sprintf("%d/%d:%d", m, sy, l.balance(m, sy, mat)))
		}
	}
	var ut []string
	for _, c := range l.utxos() {
		ut = append(ut, c.str())
	}
	var un []string
	for _, h := range l.poolHashes() {
		un = append(un, h12(h))
	}
	return fmt.Sprintf("bal=%s utxos=%s unmined=%s locked=%s", strings.Join(bals, ","), strings.Join(ut, ","), strings.Join(un, ","), strings.Join(l.locked(), ","))
}

// ---- C13 ----

type oDetails struct {
	tx      *txDef
	blk     *oBlock
	credits []string // idx:amount:spent:change
	debits  []string // idx:amount
}

func (d *oDetails) str() string {
	b := "-1/-/0"
	if d.blk != nil {
		b = fmt.Sprintf("%d/%s/%d", d.blk.height, h12(d.blk.hash), d.blk.time)
	}
	return fmt.Sprintf("%s@%s{c%s}{d%s}", h12(d.tx.hash), b, strings.Join(d.credits, ","), strings.Join(d.debits, ","))
}

func (l *ledger) creditValue(op wire.OutPoint) (int64, bool) {
	if _, ok := l.credit[op]; !ok {
		return 0, false
	}
	k := l.find(op.Hash)
	if k == nil || int(op.Index) >= len(k.tx.outs) {
		return 0, false
	}
	return k.tx.outs[op.Index], true
}

func (l *ledger) detailsOf(k knownTx) *oDetails {
	d := &oDetails{tx: k.tx, blk: k.blk}
	for i, v := range k.tx.outs {
		op := wire.OutPoint{Hash: k.tx.hash, Index: uint32(i)}
		if chg, ok := l.credit[op]; ok {
			d.credits = append(d.credits, fmt.Sprintf("%d:%d:%s:%s", i, v, b01(l.spent(op)), b01(chg)))
		}
	}
	for j, in := range k.tx.ins {
		if v, ok := l.creditValue(in); ok {
			d.debits = append(d.debits, fmt.Sprintf("%d:%d", j, v))
		}
	}
	return d
}

func (l *ledger) details(h chainhash.Hash) *oDetails {
	k := l.find(h)
	if k == nil {
		return nil
	}
	return l.detailsOf(*k)
}

func (l *ledger) rangeTx(b, e int64) [][]*oDetails {
	const inf = int64(0x7fffffff)
	b2, e2 := b, e
	if b2 < 0 {
		b2 = inf
	}
	if e2 < 0 {
		e2 = inf
	}
	var un []*oDetails
	for _, t := range l.pool {
		un = append(un, l.detailsOf(knownTx{t, nil}))
	}
	var out [][]*oDetails
	if b < 0 && len(un) > 0 {
		out = append(out, un)
	}
	blkBatch := func(bl *oBlock) []*oDetails {
		var ds []*oDetails
		for _, t := range bl.txs {
			ds = append(ds, l.detailsOf(knownTx{t, bl}))
		}
		return ds
	}
	if b2 < e2 {
		for _, bl := range l.chain {
			if b2 <= int64(bl.height) && int64(bl.height) <= e2 {
				out = append(out, blkBatch(bl))
			}
		}
	} else {
		for i := len(l.chain) - 1; i >= 0; i-- {
			bl := l.chain[i]
			if e2 <= int64(bl.height) && int64(bl.height) <= b2 {
				out = append(out, blkBatch(bl))
			}
		}
	}
	if b >= 0 && e < 0 && len(un) > 0 {
		out = append(out, un)
	}
	return out
}

func oBatchesStr(bs [][]*oDetails) string {
	var parts []string
	for _, b := range bs {
		b = append([]*oDetails{}, b...)
		sort.Slice(b, func(i, j int) bool { return bytes.Compare(b[i].tx.hash[:], b[j].tx.hash[:]) < 0 })
		var l []string
		for _, d := range b {
			l = append(l, d.str())
		}
		parts = append(parts, strings.Join(l, ";"))
	}
	return strings.Join(parts, " | ")
}

func (l *ledger) factsStr() string {
	var bl []string
	for _, b := range l.chain {
		var hs []chainhash.Hash
		for _, t := range b.txs {
			hs = append(hs, t.hash)
		}
		sort.Slice(hs, func(i, j int) bool { return bytes.Compare(hs[i][:], hs[j][:]) < 0 })
		var s []string
		for _, h := range hs {
			s = append(s, h12(h))
		}
		bl = append(bl, fmt.Sprintf("%d/%s/%d[%s]", b.height, h12(b.hash), b.time, strings.Join(s, ",")))
	}
	var pool []string
	for _, h := range l.poolHashes() {
		pool = append(pool, h12(h))
	}
	var ops []wire.OutPoint
	for op := range l.credit {
		ops = append(ops, op)
	}
	sort.Slice(ops, func(i, j int) bool { return opLess(ops[i], ops[j]) })
	var cr []string
	for _, op := range ops {
		cr = append(cr, opStr(op)+"/"+b01(l.credit[op]))
	}
	return fmt.Sprintf("chain=%s pool=%s credit=%s", strings.Join(bl, ","), strings.Join(pool, ","), strings.Join(cr, ","))
}

// ---- events: the sentences of C02 ----

// descendants: the given hashes plus every unconfirmed transaction that (transitively) spends one of their outputs.
func descendants(pool []*txDef, roots map[chainhash.Hash]bool) map[chainhash.Hash]bool {
	gone := map[chainhash.Hash]bool{}
	for h := range roots {
		gone[h] = true
	}
	for changed := true; changed; {
		changed = false
		for _, t := range pool {
			if gone[t.hash] {
				continue
			}
			for _, in := range t.ins {
				if gone[in.Hash] {
					gone[t.hash] = true
					changed = true
					break
				}
			}
		}
	}
	return gone
}

func (l *ledger) forget(gone map[chainhash.Hash]bool) {
	var pool []*txDef
	for _, t := range l.pool {
		if !gone[t.hash] {
			pool = append(pool, t)
		}
	}
	l.pool = pool
	for op := range l.credit {
		if gone[op.Hash] {
			delete(l.credit, op)
		}
	}
}

func (l *ledger) addCredits(t *txDef, cr []credSpec) {
	for _, c := range cr {
		op := wire.OutPoint{Hash: t.hash, Index: c.idx}
		if int(c.idx) < len(t.outs) {
			if _, have := l.credit[op]; !have {
				l.credit[op] = c.change
			}
		}
	}
}

func (l *ledger) leasable(op wire.OutPoint) bool {
	_, cr := l.credit[op]
	return cr && l.find(op.Hash) != nil && !l.spentConfirmed(op)
}

func (l *ledger) apply(e event) {
	switch e.kind {
	case "seen":
		if l.find(e.tx.hash) != nil {
			return
		}
		l.pool = append(l.pool, e.tx)
		l.addCredits(e.tx, e.credits)
	case "conf":
		if l.inChain(e.tx.hash) != nil {
			return
		}
		// every unconfirmed transaction that conflicts with it, and all unconfirmed descendants of those, disappear
		roots := map[chainhash.Hash]bool{}
		for _, u := range l.pool {
			if u.hash == e.tx.hash {
				continue
			}
			for _, in := range e.tx.ins {
				if u.spends(in) {
					roots[u.hash] = true
				}
			}
		}
		if len(roots) > 0 {
			l.forget(descendants(l.pool, roots))
		}
		var pool []*txDef
		for _, u := range l.pool {
			if u.hash != e.tx.hash {
				pool = append(pool, u)
			}
		}
		l.pool = pool
		placed := false
		for i, b := range l.chain {
			if b.height == e.bm.Height {
				b.txs = append(b.txs, e.tx)
				placed = true
				break
			}
			if b.height > e.bm.Height {
				nb := &oBlock{e.bm.Height, e.bm.Hash, e.bm.Time.Unix(), []*txDef{e.tx}}
				l.chain = append(l.chain[:i], append([]*oBlock{nb}, l.chain[i:]...)...)
				placed = true
				break
			}
		}
		if !placed {
			l.chain = append(l.chain, &oBlock{e.bm.Height, e.bm.Hash, e.bm.Time.Unix(), []*txDef{e.tx}})
		}
		l.addCredits(e.tx, e.credits)
		// a confirmed spend of the output removes the lease
		for _, in := range e.tx.ins {
			delete(l.leases, in)
		}
	case "disc":
		var keep []*oBlock
		var cut []*oBlock
		for _, b := range l.chain {
			if int64(b.height) < e.height {
				keep = append(keep, b)
			} else {
				cut = append(cut, b)
			}
		}
		l.chain = keep
		cbs := map[chainhash.Hash]bool{}
		for i := len(cut) - 1; i >= 0; i-- {
			for _, t := range cut[i].txs {
				if t.coinbase() {
					cbs[t.hash] = true // coinbases of disconnected blocks disappear
				} else {
					l.pool = append(l.pool, t) // the others become unconfirmed again with their credits intact
				}
			}
		}
		if len(cbs) > 0 && !l.cbCreditedOnly {
			l.forget(descendants(l.pool, cbs)) // ... and every transaction depending on them
		}
		if len(cbs) > 0 && l.cbCreditedOnly {
			roots := map[chainhash.Hash]bool{}
			for _, t := range l.pool {
				for _, in := range t.ins {
					if _, cr := l.credit[in]; cr && cbs[in.Hash] {
						roots[t.hash] = true
					}
				}
			}
			gone := descendants(l.pool, roots)
			for h := range cbs {
				gone[h] = true
			}
			l.forget(gone)
		}
	case "abandon":
		if !l.inPool(e.tx.hash) {
			return
		}
		l.forget(descendants(l.pool, map[chainhash.Hash]bool{e.tx.hash: true}))
	case "lease":
		if !l.leasable(e.op) {
			return
		}
		if ls, ok := l.leaseOf(e.op); ok && ls.id != e.id {
			return
		}
		l.leases[e.op] = oLease{e.id, granted(l.now, e.dur)}
	case "release":
		if !l.leasable(e.op) {
			return
		}
		if ls, ok := l.leaseOf(e.op); ok && ls.id == e.id {
			delete(l.leases, e.op)
		}
	case "sweep":
		for op, ls := range l.leases {
			if !(l.now < ls.expiry) {
				delete(l.leases, op)
			}
		}
	case "clock":
		l.now = e.t
	}
}

func sameTx(a, b *txDef) bool {
	if a.hash != b.hash || len(a.ins) != len(b.ins) || len(a.outs) != len(b.outs) {
		return false
	}
	for i := range a.ins {
		if a.ins[i] != b.ins[i] {
			return false
		}
	}
	for i := range a.outs {
		if a.outs[i] != b.outs[i] {
			return false
		}
	}
	return true
}

// consistent: could a validating node emit this event next?
func (l *ledger) consistent(e event) bool {
	switch e.kind {
	case "seen", "conf":
		t := e.tx
		k := l.find(t.hash)
		fresh := k == nil
		if k != nil && !sameTx(k.tx, t) {
			return false
		}
		for _, c := range e.credits {
			if int(c.idx) >= len(t.outs) {
				return false
			}
		}
		if fresh {
			// parents are delivered first
			for _, o := range l.known() {
				if o.tx.spendsTx(t.hash) {
					return false
				}
			}
		}
		if e.kind == "seen" {
			return !(fresh && t.coinbase())
		}
		for _, b := range l.chain {
			if b.height == e.bm.Height && (b.hash != e.bm.Hash || b.time != e.bm.Time.Unix()) {
				return false // one block per height
			}
		}
		if b := l.inChain(t.hash); b != nil && (b.height != e.bm.Height || b.hash != e.bm.Hash || b.time != e.bm.Time.Unix()) {
			return false // already confirmed elsewhere
		}
		seen := map[wire.OutPoint]bool{}
		for _, in := range t.ins {
			if seen[in] {
				return false
			}
			seen[in] = true
		}
		for _, o := range l.known() {
			if o.blk == nil || o.tx.hash == t.hash {
				continue
			}
			for _, in := range t.ins {
				if o.tx.spends(in) {
					return false // confirmed double spend
				}
			}
		}
		for _, in := range t.ins {
			if p := l.find(in.Hash); p != nil {
				if p.blk == nil || p.blk.height > e.bm.Height {
					return false // known parent not confirmed at or below
				}
			}
		}
		if t.coinbase() && l.inPool(t.hash) {
			return false
		}
		for _, o := range l.known() {
			if o.blk != nil && o.tx.spendsTx(t.hash) && o.blk.height < e.bm.Height {
				return false
			}
		}
		return true
	case "abandon":
		return l.inPool(e.tx.hash)
	}
	return true
}

// extra: the rest of the properties' quantifier ("event histories a validating node could emit"), i.e. what Lean's
// `TxStore.Consistent` demands on top of `Ledger.consistent` (`Ledger.extra` + the `bound` clause):
//   - a transaction accepted into the mempool (seen for the first time) does not conflict with a confirmed one,
//   - an input naming a known transaction names one of its outputs,
//   - the abandoned transaction IS the unconfirmed transaction with that hash,
//   - fewer than 2^32-1 outputs, no transaction spends an output of itself.
//
// consistent && extra is the independent Go-side tracker that decides whether the C01/C02/C12/C13 oracles apply;
// `consistent` alone keeps deciding the `cons=` field of the replies and the `spec …` ops, which are compared with
// the Lean driver on ALL inputs.
func (l *ledger) extra(e event) bool {
	validRefs := func(t *txDef) bool {
		for _, in := range t.ins {
			if p := l.find(in.Hash); p != nil && int64(in.Index) >= int64(len(p.tx.outs)) {
				return false
			}
		}
		return true
	}
	bound := func(t *txDef) bool {
		if int64(len(t.outs)) > 0xffffffff {
			return false
		}
		return !t.spendsTx(t.hash)
	}
	switch e.kind {
	case "seen":
		if !bound(e.tx) {
			return false
		}
		if l.find(e.tx.hash) != nil {
			return true
		}
		for _, in := range e.tx.ins {
			if l.spentConfirmed(in) {
				return false // the node's mempool rejects a transaction conflicting with the chain
			}
		}
		return validRefs(e.tx)
	case "conf":
		if !bound(e.tx) {
			return false
		}
		return l.find(e.tx.hash) != nil || validRefs(e.tx)
	case "abandon":
		for _, t := range l.pool {
			if t.hash == e.tx.hash {
				return sameTx(t, e.tx)
			}
		}
		return false
	}
	return true
}

// ---------------------------------------------------------------------------------------------------------
// oracles: the property statements evaluated on the REAL outputs

// specReady: the property oracles apply only while the history delivered so far lies inside the properties'
// quantifier (r.strict: every event was `consistent` and `extra` when it was delivered).
func (r *runner) specReady() bool {
	if !r.cons || !r.strict || r.oracleOff {
		return false
	}
	r.jled.now = r.now
	return true
}

var reZeroCredit = regexp.MustCompile(`([{,]c?\d+:0:)[01](:[01])`)
var reZeroDebit = regexp.MustCompile(`(\{d|,)\d+:0([,}])`)
var reZeroUtxo = regexp.MustCompile(`[0-9a-f]{12}:\d+=0@[^,; ]*,?`)

// normZero masks what DESIGN §7-F6 (zero-value credits) can change: the spent flag of zero-value credits,
// zero-amount debits, zero-value entries of the spendable list.
func normZero(s string) string {
	s = reZeroCredit.ReplaceAllString(s, "${1}*${2}")
	for {
		t := reZeroDebit.ReplaceAllString(s, "${1}${2}")
		t = strings.ReplaceAll(t, "{d,", "{d")
		t = strings.ReplaceAll(t, ",}", "}")
		t = strings.ReplaceAll(t, ",,", ",")
		if t == s {
			break
		}
		s = t
	}
	s = reZeroUtxo.ReplaceAllString(s, "")
	return strings.ReplaceAll(s, ", ", " ")
}

// after a rollback: C02's "coinbase transactions of disconnected blocks and every transaction depending on them
// disappear".  before = ledger before the event.
func (r *runner) checkRollback(before *ledger, height int64, v func(string, ...interface{})) {
	if !r.specReady() {
		return
	}
	p := r.probe(0)
	real := map[string]bool{}
	for _, h := range p.unmin {
		real[h12(h)] = true
	}
	spec := map[string]bool{}
	for _, h := range r.jled.poolHashes() {
		spec[h12(h)] = true
	}
	d := setDiff(real, spec)
	if d == "" {
		// "... become unconfirmed again with their credits intact"
		for _, t := range r.jled.pool {
			want := r.jled.details(t.hash)
			got, err := r.details(t.hash)
			if err != nil || got == nil || want == nil {
				v("C02 key=rollback.details: after Rollback(%d) TxDetails(%s) is missing or fails", height, h12(t.hash))
				continue
			}
			var gc []string
			for _, c := range got.Credits {
				gc = append(gc, fmt.Sprintf("%d:%d:%s", c.Index, int64(c.Amount), b01(c.Change)))
			}
			var wc []string
			for _, c := range want.credits {
				f := strings.Split(c, ":")
				wc = append(wc, f[0]+":"+f[1]+":"+f[3])
			}
			if strings.Join(gc, ",") != strings.Join(wc, ",") || got.Block.Height != -1 {
				v("C02 key=rollback.credits-not-intact: after Rollback(%d) transaction %s is reported at height %d with credits [%s], ledger truth: unconfirmed with [%s]",
					height, h12(t.hash), got.Block.Height, strings.Join(gc, ","), strings.Join(wc, ","))
			}
		}
		return
	}
	alt := before.clone()
	alt.cbCreditedOnly = true
	alt.apply(event{kind: "disc", height: height})
	altSet := map[string]bool{}
	for _, h := range alt.poolHashes() {
		altSet[h12(h)] = true
	}
	if setDiff(real, altSet) == "" {
		v("C02 key=rollback.spender-of-uncredited-coinbase-output-kept: after Rollback(%d) the unconfirmed set still holds transactions that spend an output of a removed coinbase (only spenders of CREDITED coinbase outputs are removed): %s", height, d)
	} else {
		v("C02 key=unmined-set: after Rollback(%d): %s", height, d)
	}
	r.oracleOff = true // one report; the rest of this history would only repeat it
}

// C01 (balance, spendable outputs), C02 (unconfirmed set), C12 (lease list) after any op.
func (r *runner) oracleProbe(p *probeRes, top int64, v func(string, ...interface{})) {
	if !r.specReady() {
		return
	}
	l := r.jled
	f8 := l.inF8Window()
	// --- C12: leases in force
	var realLocked []string
	for _, x := range p.locked {
		realLocked = append(realLocked, fmt.Sprintf("%s=%d", opStr(x.Outpoint), lockNum(x.LockID)))
	}
	sort.Strings(realLocked)
	specLocked := func() []string {
		var out []string
		for op := range l.leases {
			if ls, ok := l.leaseOf(op); ok {
				out = append(out, fmt.Sprintf("%s=%d", opStr(op), ls.id))
			}
		}
		sort.Strings(out)
		return out
	}
	if strings.Join(realLocked, ",") != strings.Join(specLocked(), ",") {
		l.trunc = true
		if !(len(f8) > 0 && strings.Join(realLocked, ",") == strings.Join(specLocked(), ",")) {
			v("C12 key=lease-set: leases in force: store [%s] ledger [%s]", strings.Join(realLocked, ","), strings.Join(specLocked(), ","))
		}
		l.trunc = false
	}
	for _, x := range p.locked {
		if ls, ok := l.leases[x.Outpoint]; ok && x.Expiration.Unix() != floorDiv(ls.expiry, 1e9) {
			v("C12 key=lease-expiry: %s stored expiry %d, granted %d ns", opStr(x.Outpoint), x.Expiration.Unix(), ls.expiry)
		}
	}
	if len(f8) > 0 {
		l.trunc = true
		defer func() { l.trunc = false }()
		{
			// decide whether the early release is visible to callers: is the output offered as spendable?
			for _, op := range f8 {
				for i := range p.utxos {
					if p.utxos[i].OutPoint == op {
						v("C12 key=lease.expiry-truncated-to-seconds: %s was leased until %d ns (value returned by LockOutput) but at %d ns it is already listed by UnspentOutputs and absent from ListLockedOutputs (stored expiry %d s)",
							opStr(op), l.leases[op].expiry, l.now, floorDiv(l.leases[op].expiry, 1e9))
					}
				}
			}
		}
	}
	// --- C01: balance for every probe point
	for _, m := range r.minConfs() {
		for _, sy := range r.syncs(top) {
			if sy < l.top() || m < 0 {
				continue
			}
			want := fmt.Sprintf("%d", l.balance(m, sy, r.mat))
			if got := p.bals[[2]int64{m, sy}]; got != want {
				v("C01 key=balance: Balance(minConf=%d, syncHeight=%d) = %s, ledger truth %s", m, sy, got, want)
				// C12 "excluded from the balance": is the difference explained by the leases in force?
				if len(l.locked()) > 0 {
					noLease := l.clone()
					noLease.leases = map[wire.OutPoint]oLease{}
					var twice int64
					for op := range l.leases {
						if _, ok := l.leaseOf(op); ok && l.spent(op) && !l.spentConfirmed(op) {
							if k := l.find(op.Hash); k != nil && k.blk != nil {
								val, _ := l.creditValue(op)
								twice += val
							}
						}
					}
					switch got {
					case fmt.Sprintf("%d", noLease.balance(m, sy, r.mat)):
						v("C12 key=leased-counted-in-balance: Balance(minConf=%d, syncHeight=%d) = %s counts leased outputs (ledger truth %s, leases in force: %s)", m, sy, got, want, strings.Join(l.locked(), ","))
					case fmt.Sprintf("%d", l.balance(m, sy, r.mat)-twice):
						v("C12 key=leased-subtracted-twice: Balance(minConf=%d, syncHeight=%d) = %s subtracts a leased output with an unconfirmed spend twice (ledger truth %s)", m, sy, got, want)
					default:
						v("C12 key=balance-with-leases: Balance(minConf=%d, syncHeight=%d) = %s, ledger truth %s, with leases in force: %s", m, sy, got, want, strings.Join(l.locked(), ","))
					}
				}
			}
		}
	}
	// --- C01: spendable outputs (positive value; zero-value ones are reported apart, DESIGN §7-F6)
	if p.uerr != "" {
		v("C01 key=utxos: UnspentOutputs failed: %s", p.uerr)
	} else {
		real := map[string]bool{}
		realZero := map[string]bool{}
		for i := range p.utxos {
			if p.utxos[i].Amount > 0 {
				real[creditStr(&p.utxos[i])] = true
			} else {
				realZero[creditStr(&p.utxos[i])] = true
			}
		}
		spec := map[string]bool{}
		specZero := map[string]bool{}
		for _, c := range l.utxos() {
			if c.amount > 0 {
				spec[c.str()] = true
			} else {
				specZero[c.str()] = true
			}
		}
		if d := setDiff(real, spec); d != "" {
			v("C01 key=utxos: UnspentOutputs vs ledger truth: %s", d)
		}
		// C12 "excluded from the spendable set"
		for i := range p.utxos {
			if ls, ok := l.leaseOf(p.utxos[i].OutPoint); ok {
				v("C12 key=leased-in-utxos: UnspentOutputs lists %s, which is leased to id %d until %d (now %d)", opStr(p.utxos[i].OutPoint), ls.id, ls.expiry, l.now)
			}
		}
		if d := setDiff(realZero, specZero); d != "" {
			v("C01 key=rollback.zero-value-credit: zero-value credited outputs, UnspentOutputs vs ledger truth: %s", d)
		}
	}
	// --- C02: the unconfirmed set
	var un []string
	hs := append([]chainhash.Hash{}, p.unmin...)
	sort.Slice(hs, func(i, j int) bool { return bytes.Compare(hs[i][:], hs[j][:]) < 0 })
	for _, h := range hs {
		un = append(un, h12(h))
	}
	var want []string
	for _, h := range l.poolHashes() {
		want = append(want, h12(h))
	}
	if strings.Join(un, ",") != strings.Join(want, ",") {
		v("C02 key=unmined-set: unconfirmed transactions: store [%s] ledger [%s]", strings.Join(un, ","), strings.Join(want, ","))
	}
}

func setDiff(real, spec map[string]bool) string {
	var extra, missing []string
	for k := range real {
		if !spec[k] {
			extra = append(extra, k)
		}
	}
	for k := range spec {
		if !real[k] {
			missing = append(missing, k)
		}
	}
	if len(extra) == 0 && len(missing) == 0 {
		return ""
	}
	sort.Strings(extra)
	sort.Strings(missing)
	return fmt.Sprintf("reported but not true [%s] / true but not reported [%s]", strings.Join(extra, ","), strings.Join(missing, ","))
}

func (r *runner) oracleWatch(cs []wtxmgr.Credit, v func(string, ...interface{})) {
	if !r.specReady() {
		return
	}
	real := map[string]bool{}
	for i := range cs {
		real[opStr(cs[i].OutPoint)] = true
	}
	spec := map[string]bool{}
	zero := map[string]bool{}
	for _, op := range r.jled.watchSet() {
		spec[opStr(op)] = true
		if val, _ := r.jled.creditValue(op); val == 0 {
			zero[opStr(op)] = true
		}
	}
	nz := func(m map[string]bool, z bool) map[string]bool {
		o := map[string]bool{}
		for k := range m {
			if zero[k] == z {
				o[k] = true
			}
		}
		return o
	}
	if d := setDiff(nz(real, false), nz(spec, false)); d != "" {
		v("C01 key=watch: OutputsToWatch vs ledger truth: %s", d)
	}
	if d := setDiff(nz(real, true), nz(spec, true)); d != "" {
		v("C01 key=rollback.zero-value-credit: zero-value credited outputs, OutputsToWatch vs ledger truth: %s", d)
	}
}

func (r *runner) oracleDetails(h chainhash.Hash, d *wtxmgr.TxDetails, v func(string, ...interface{})) {
	if !r.specReady() {
		return
	}
	want := r.jled.details(h)
	got, exp := "none", "none"
	if d != nil {
		got = detailsStr(d)
	}
	if want != nil {
		exp = want.str()
	}
	if got != exp {
		if normZero(got) == normZero(exp) {
			v("C13 key=rollback.zero-value-credit: TxDetails(%s) = %s, ledger truth %s", h12(h), got, exp)
		} else {
			v("C13 key=details: TxDetails(%s) = %s, ledger truth %s", h12(h), got, exp)
		}
	}
}

func (r *runner) oracleUnique(h chainhash.Hash, blk *wtxmgr.Block, d *wtxmgr.TxDetails, v func(string, ...interface{})) {
	if !r.specReady() {
		return
	}
	want := r.jled.details(h)
	if want != nil {
		if (blk == nil) != (want.blk == nil) || (blk != nil && (want.blk.height != blk.Height || want.blk.hash != blk.Hash)) {
			want = nil // asked under a block that does not currently confirm it
		}
	}
	got, exp := "none", "none"
	if d != nil {
		got = detailsStr(d)
	}
	if want != nil {
		exp = want.str()
	}
	if got != exp {
		if normZero(got) == normZero(exp) {
			v("C13 key=rollback.zero-value-credit: UniqueTxDetails(%s) = %s, ledger truth %s", h12(h), got, exp)
		} else {
			v("C13 key=unique-details: UniqueTxDetails(%s) = %s, ledger truth %s", h12(h), got, exp)
		}
	}
}

func (r *runner) oracleRange(b, e int64, bs [][]wtxmgr.TxDetails, v func(string, ...interface{})) {
	if !r.specReady() {
		return
	}
	got := batchesStr(bs, true)
	want := oBatchesStr(r.jled.rangeTx(b, e))
	if got != want {
		if normZero(got) == normZero(want) {
			v("C13 key=rollback.zero-value-credit: RangeTransactions(%d,%d) = [%s], ledger truth [%s]", b, e, got, want)
		} else {
			v("C13 key=range: RangeTransactions(%d,%d) = [%s], ledger truth [%s]", b, e, got, want)
		}
	}
}

// C12: outcome of LockOutput, judged before the ledger applies the event.
func (r *runner) oracleLock(id uint64, op wire.OutPoint, dur int64, reply string, v func(string, ...interface{})) (resync bool) {
	if !r.specReady() {
		return false
	}
	l := r.jled
	_, credited := l.credit[op]
	knownOut := credited && l.find(op.Hash) != nil
	ls, leased := l.leaseOf(op)
	switch {
	case !knownOut:
		if reply != "err unknown-output" {
			v("C12 key=lock-unknown: LockOutput on an output the wallet does not know returned %q", reply)
		}
	case leased && ls.id != id:
		if reply != "err already-locked" {
			if floorDiv(ls.expiry, 1e9)*1e9 <= l.now {
				v("C12 key=lease.expiry-truncated-to-seconds: %s is leased to id %d until %d ns (value returned by LockOutput) but at %d ns LockOutput by id %d returned %q",
					opStr(op), ls.id, ls.expiry, l.now, id, reply)
				resync = strings.HasPrefix(reply, "ok")
			} else {
				v("C12 key=lock-other-id: %s is leased to id %d until %d, LockOutput by id %d at %d returned %q", opStr(op), ls.id, ls.expiry, id, l.now, reply)
			}
		}
	case l.leasable(op):
		if want := fmt.Sprintf("ok %d", granted(l.now, dur)); reply != want {
			v("C12 key=lock-result: LockOutput(%s) returned %q, expected %q (now %d + duration %d, rounded up to a whole second)", opStr(op), reply, want, l.now, dur)
		}
		// independent of the rounding rule: never before now+duration, less than a second after it
		var got int64
		if _, err := fmt.Sscanf(reply, "ok %d", &got); err == nil && (got < l.now+dur || got >= l.now+dur+1e9) {
			v("C12 key=lock-expiry-bounds: LockOutput(%s) at %d for %d ns returned expiry %d", opStr(op), l.now, dur, got)
		}
	}
	return resync
}

func (r *runner) oracleUnlock(id uint64, op wire.OutPoint, reply string, v func(string, ...interface{})) {
	if !r.specReady() {
		return
	}
	l := r.jled
	ls, leased := l.leaseOf(op)
	if l.leasable(op) && leased && ls.id != id && reply != "err unlock-not-allowed" && floorDiv(ls.expiry, 1e9)*1e9 > l.now {
		v("C12 key=unlock-other-id: %s is leased to id %d, UnlockOutput by id %d returned %q", opStr(op), ls.id, id, reply)
	}
	if l.leasable(op) && (!leased || ls.id == id) && reply != "ok" {
		v("C12 key=unlock-result: UnlockOutput(%s) by the holder returned %q", opStr(op), reply)
	}
}
