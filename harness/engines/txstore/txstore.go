// Package txstore is the correspondence engine for the transaction store wtxmgr (C01 C02 C12 C13): it runs
// the REAL wtxmgr.Store on a real bdb file, op by op, prints canonical replies that the Lean model driver
// must reproduce, and evaluates the property oracles (oracle.go: an independent ledger recomputed from the
// event history) on the real outputs.
package txstore

import (
	"bytes"
	"encoding/binary"
	"encoding/hex"
	"errors"
	"fmt"
	"math/rand"
	"os"
	"path/filepath"
	"sort"
	"strconv"
	"strings"
	"time"

	"github.com/btcsuite/btcd/chaincfg"
	"github.com/btcsuite/btcd/chaincfg/chainhash"
	"github.com/btcsuite/btcd/wire"
	"github.com/btcsuite/btcwallet/walletdb"
	_ "github.com/btcsuite/btcwallet/walletdb/bdb"
	"github.com/btcsuite/btcwallet/wtxmgr"
	"github.com/lightningnetwork/lnd/clock"

	"verifharness/core"
)

type engine struct{}

func init() { core.Register(engine{}) }

func (engine) Name() string { return "txstore" }

func (engine) Generate(rng *rand.Rand, tier string) []core.Case { return generate(rng, tier) }

func (engine) NewRunner() core.Runner {
	return &runner{txs: map[string]*txDef{}, scripts: map[string]string{}, snaps: map[string][3]string{}, mat: 100}
}

var nsKey = []byte("wtxmgr")

// txDef is one transaction of the universe.
type txDef struct {
	tid  string
	lt   uint32
	ins  []wire.OutPoint
	outs []int64
	msg  *wire.MsgTx
	hash chainhash.Hash
	rec  *wtxmgr.TxRecord
}

func pkScriptFor(lt uint32, idx int) []byte {
	s := make([]byte, 22)
	s[0], s[1] = 0x00, 0x14
	binary.BigEndian.PutUint32(s[2:], lt)
	binary.BigEndian.PutUint32(s[6:], uint32(idx))
	return s
}

func isNull(op wire.OutPoint) bool { return op.Index == 0xffffffff && op.Hash == (chainhash.Hash{}) }

// buildTx is the one place where a universe transaction becomes a wire.MsgTx (generator and runner share it).
func buildTx(lt uint32, ins []wire.OutPoint, outs []int64) *wire.MsgTx {
	m := wire.NewMsgTx(1)
	for i := range ins {
		op := ins[i]
		var sig []byte
		if len(ins) == 1 && isNull(op) {
			sig = make([]byte, 4)
			binary.BigEndian.PutUint32(sig, lt)
		}
		m.AddTxIn(wire.NewTxIn(&op, sig, nil))
	}
	for i, v := range outs {
		m.AddTxOut(wire.NewTxOut(v, pkScriptFor(lt, i)))
	}
	m.LockTime = lt
	return m
}

func hx(h chainhash.Hash) string  { return hex.EncodeToString(h[:]) }
func h12(h chainhash.Hash) string { return hex.EncodeToString(h[:6]) }
func opStr(op wire.OutPoint) string {
	return h12(op.Hash) + ":" + strconv.FormatUint(uint64(op.Index), 10)
}
func opLong(op wire.OutPoint) string {
	return hx(op.Hash) + ":" + strconv.FormatUint(uint64(op.Index), 10)
}
func b01(b bool) string {
	if b {
		return "1"
	}
	return "0"
}

func parseHash(s string) (chainhash.Hash, bool) {
	var h chainhash.Hash
	if len(s) == 0 || len(s) > 64 {
		return h, false
	}
	for _, c := range s {
		if !(c >= '0' && c <= '9' || c >= 'a' && c <= 'f') {
			return h, false
		}
	}
	// numeric semantics like the model: left-pad
	s = strings.Repeat("0", 64-len(s)) + s
	b, err := hex.DecodeString(s)
	if err != nil {
		return h, false
	}
	copy(h[:], b)
	return h, true
}

func parseNat(s string) (uint64, bool) {
	if s == "" {
		return 0, false
	}
	for _, c := range s {
		if c < '0' || c > '9' {
			return 0, false
		}
	}
	v, err := strconv.ParseUint(s, 10, 63)
	return v, err == nil
}

func parseInt(s string) (int64, bool) {
	if strings.HasPrefix(s, "-") {
		v, ok := parseNat(s[1:])
		return -int64(v), ok
	}
	v, ok := parseNat(s)
	return int64(v), ok
}

func parseOp(s string) (wire.OutPoint, bool) {
	p := strings.Split(s, ":")
	if len(p) != 2 {
		return wire.OutPoint{}, false
	}
	h, ok := parseHash(p[0])
	i, ok2 := parseNat(p[1])
	if !ok || !ok2 || i > 0xffffffff {
		return wire.OutPoint{}, false
	}
	return wire.OutPoint{Hash: h, Index: uint32(i)}, true
}

type credSpec struct {
	idx    uint32
	change bool
}

func parseCredits(s string) ([]credSpec, bool) {
	var out []credSpec
	for _, t := range core.CSV(s) {
		p := strings.Split(t, ":")
		if len(p) != 2 || (p[1] != "0" && p[1] != "1") {
			return nil, false
		}
		i, ok := parseNat(p[0])
		if !ok || i > 0xffffffff {
			return nil, false
		}
		out = append(out, credSpec{uint32(i), p[1] == "1"})
	}
	return out, true
}

func parseBlockMeta(f []string) (*wtxmgr.BlockMeta, bool) {
	if len(f) == 0 {
		return nil, true
	}
	if len(f) != 3 {
		return nil, false
	}
	h, ok1 := parseNat(f[0])
	bh, ok2 := parseHash(f[1])
	t, ok3 := parseNat(f[2])
	if !ok1 || !ok2 || !ok3 || h > 0x7fffffff {
		return nil, false
	}
	return &wtxmgr.BlockMeta{Block: wtxmgr.Block{Hash: bh, Height: int32(h)}, Time: time.Unix(int64(t), 0)}, true
}

func parseBlock(f []string) (*wtxmgr.Block, bool) {
	if len(f) == 0 {
		return nil, true
	}
	if len(f) != 2 {
		return nil, false
	}
	h, ok1 := parseNat(f[0])
	bh, ok2 := parseHash(f[1])
	if !ok1 || !ok2 || h > 0x7fffffff {
		return nil, false
	}
	return &wtxmgr.Block{Hash: bh, Height: int32(h)}, true
}

var errPanic = errors.New("panic")

func errCode(err error) string {
	switch {
	case err == errPanic:
		return "panic"
	case errors.Is(err, wtxmgr.ErrUnknownOutput):
		return "unknown-output"
	case errors.Is(err, wtxmgr.ErrOutputAlreadyLocked):
		return "already-locked"
	case errors.Is(err, wtxmgr.ErrOutputUnlockNotAllowed):
		return "unlock-not-allowed"
	case errors.Is(err, wtxmgr.ErrDuplicateTx):
		return "duplicate"
	}
	if e, ok := err.(wtxmgr.Error); ok {
		switch e.Code {
		case wtxmgr.ErrData:
			return "data"
		case wtxmgr.ErrInput:
			return "input"
		case wtxmgr.ErrDatabase:
			return "database"
		}
		return "code-" + e.Code.String()
	}
	return "other"
}

// ---------------------------------------------------------------------------------------------------------

type runner struct {
	dir     string
	db      walletdb.DB
	store   *wtxmgr.Store
	clk     *clock.TestClock
	params  chaincfg.Params
	mat     int64
	now     int64
	txs     map[string]*txDef
	scripts map[string]string // pkScript hex -> short outpoint
	snaps   map[string][3]string
	led     *ledger // Go-side specification state (oracle.go); answers the `spec ...` ops
	jled    *ledger // the ledger the oracles judge against: = led, except that it follows the store after a reported lease hand-over (F8)
	cons    bool    // every event so far satisfied ledger.consistent (= Lean `Ledger.consistent`); decides the `spec` ops
	// strict: every event so far also satisfied ledger.extra (= the rest of Lean's `TxStore.Consistent`): the history
	// lies inside the quantifier of C01/C02/C12/C13 and the property oracles apply
	strict bool
	// oracleOff: a finding was reported whose consequences would repeat on every later op of this case
	oracleOff bool
}

func (r *runner) Close() {
	if r.db != nil {
		r.db.Close()
		r.db = nil
	}
	if r.dir != "" {
		os.RemoveAll(r.dir)
		r.dir = ""
	}
}

func tmpBase() string {
	if st, err := os.Stat("/dev/shm"); err == nil && st.IsDir() {
		return "/dev/shm"
	}
	return ""
}

func (r *runner) reset(mat int64) error {
	r.Close()
	dir, err := os.MkdirTemp(tmpBase(), "vxtx")
	if err != nil {
		return err
	}
	r.dir = dir
	db, err := walletdb.Create("bdb", filepath.Join(dir, "w.db"), true, 10*time.Second, false)
	if err != nil {
		return err
	}
	r.db = db
	r.params = chaincfg.SimNetParams
	r.params.CoinbaseMaturity = uint16(mat)
	r.mat = mat
	r.now = 0
	r.clk = clock.NewTestClock(time.Unix(0, 0))
	err = walletdb.Update(db, func(tx walletdb.ReadWriteTx) error {
		ns, err := tx.CreateTopLevelBucket(nsKey)
		if err != nil {
			return err
		}
		return wtxmgr.Create(ns)
	})
	if err != nil {
		return err
	}
	r.led = newLedger()
	r.jled = newLedger()
	r.cons = true
	r.strict = true
	r.oracleOff = false
	return r.open()
}

func (r *runner) open() error {
	return walletdb.View(r.db, func(tx walletdb.ReadTx) error {
		s, err := wtxmgr.Open(tx.ReadBucket(nsKey), &r.params)
		if err != nil {
			return err
		}
		s.VerifSetClock(r.clk)
		r.store = s
		return nil
	})
}

func (r *runner) reopen() error {
	path := filepath.Join(r.dir, "w.db")
	if err := r.db.Close(); err != nil {
		return err
	}
	db, err := walletdb.Open("bdb", path, true, 10*time.Second, false)
	if err != nil {
		return err
	}
	r.db = db
	return r.open()
}

func (r *runner) update(f func(ns walletdb.ReadWriteBucket) error) error {
	return walletdb.Update(r.db, func(tx walletdb.ReadWriteTx) (e error) {
		defer func() {
			if p := recover(); p != nil {
				if os.Getenv("VX_DEBUG") != "" {
					fmt.Fprintf(os.Stderr, "panic: %v\n", p)
				}
				e = errPanic
			}
		}()
		return f(tx.ReadWriteBucket(nsKey))
	})
}

func (r *runner) view(f func(ns walletdb.ReadBucket) error) error {
	return walletdb.View(r.db, func(tx walletdb.ReadTx) (e error) {
		defer func() {
			if p := recover(); p != nil {
				if os.Getenv("VX_DEBUG") != "" {
					fmt.Fprintf(os.Stderr, "panic: %v\n", p)
				}
				e = errPanic
			}
		}()
		return f(tx.ReadBucket(nsKey))
	})
}

func lockID(id uint64) wtxmgr.LockID {
	var l wtxmgr.LockID
	binary.BigEndian.PutUint64(l[24:], id)
	return l
}
func lockNum(l wtxmgr.LockID) uint64 { return binary.BigEndian.Uint64(l[24:]) }

// ---- canonical printing of real results ----

func blockStr(height int32, hash chainhash.Hash, t time.Time) string {
	if height == -1 {
		return "-1/-/0"
	}
	return fmt.Sprintf("%d/%s/%d", height, h12(hash), t.Unix())
}

func creditStr(c *wtxmgr.Credit) string {
	return fmt.Sprintf("%s=%d@%s/%s", opStr(c.OutPoint), int64(c.Amount), blockStr(c.BlockMeta.Block.Height, c.BlockMeta.Block.Hash, c.BlockMeta.Time), b01(c.FromCoinBase))
}

func detailsStr(d *wtxmgr.TxDetails) string {
	var cr, db []string
	for _, c := range d.Credits {
		cr = append(cr, fmt.Sprintf("%d:%d:%s:%s", c.Index, int64(c.Amount), b01(c.Spent), b01(c.Change)))
	}
	for _, x := range d.Debits {
		db = append(db, fmt.Sprintf("%d:%d", x.Index, int64(x.Amount)))
	}
	return fmt.Sprintf("%s@%s{c%s}{d%s}", h12(d.Hash), blockStr(d.Block.Height, d.Block.Hash, d.Block.Time),
		strings.Join(cr, ","), strings.Join(db, ","))
}

func okStr(s string) string {
	if s == "" {
		return "ok"
	}
	return "ok " + s
}

func (r *runner) minConfs() []int64       { return []int64{0, 1, 2, 6, r.mat - 1, r.mat, r.mat + 1} }
func (r *runner) syncs(top int64) []int64 { return []int64{top, top + 1, top + r.mat} }

type probeRes struct {
	bals   map[[2]int64]string
	utxos  []wtxmgr.Credit
	uerr   string
	unmin  []chainhash.Hash
	locked []*wtxmgr.LockedOutput
}

func (r *runner) probe(top int64) *probeRes {
	p := &probeRes{bals: map[[2]int64]string{}}
	for _, m := range r.minConfs() {
		for _, sy := range r.syncs(top) {
			var v string
			err := r.view(func(ns walletdb.ReadBucket) error {
				b, err := r.store.Balance(ns, int32(m), int32(sy))
				v = strconv.FormatInt(int64(b), 10)
				return err
			})
			if err != nil {
				v = "err-" + errCode(err)
			}
			p.bals[[2]int64{m, sy}] = v
		}
	}
	err := r.view(func(ns walletdb.ReadBucket) error {
		var err error
		p.utxos, err = r.store.UnspentOutputs(ns)
		return err
	})
	if err != nil {
		p.uerr = "err-" + errCode(err)
	}
	_ = r.view(func(ns walletdb.ReadBucket) error {
		hs, err := r.store.UnminedTxHashes(ns)
		for _, h := range hs {
			p.unmin = append(p.unmin, *h)
		}
		return err
	})
	_ = r.view(func(ns walletdb.ReadBucket) error {
		var err error
		p.locked, err = r.store.ListLockedOutputs(ns)
		return err
	})
	return p
}

func (r *runner) probeStr(p *probeRes, top int64, sorted bool) string {
	var bals []string
	for _, m := range r.minConfs() {
		for _, sy := range r.syncs(top) {
			bals = append(bals, fmt.Sprintf("%d/%d:%s", m, sy, p.bals[[2]int64{m, sy}]))
		}
	}
	ut := p.uerr
	if ut == "" {
		us := append([]wtxmgr.Credit{}, p.utxos...)
		if sorted {
			sort.Slice(us, func(i, j int) bool { return opLess(us[i].OutPoint, us[j].OutPoint) })
		}
		var l []string
		for i := range us {
			l = append(l, creditStr(&us[i]))
		}
		ut = strings.Join(l, ",")
	}
	hs := append([]chainhash.Hash{}, p.unmin...)
	if sorted {
		sort.Slice(hs, func(i, j int) bool { return bytes.Compare(hs[i][:], hs[j][:]) < 0 })
	}
	var un []string
	for _, h := range hs {
		un = append(un, h12(h))
	}
	var lk []string
	for _, l := range p.locked {
		lk = append(lk, fmt.Sprintf("%s=%d/%d", opStr(l.Outpoint), lockNum(l.LockID), l.Expiration.Unix()))
	}
	return fmt.Sprintf("bal=%s utxos=%s unmined=%s locked=%s", strings.Join(bals, ","), ut, strings.Join(un, ","), strings.Join(lk, ","))
}

func opLess(a, b wire.OutPoint) bool {
	c := bytes.Compare(a.Hash[:], b.Hash[:])
	return c < 0 || (c == 0 && a.Index < b.Index)
}

func (r *runner) details(h chainhash.Hash) (*wtxmgr.TxDetails, error) {
	var d *wtxmgr.TxDetails
	err := r.view(func(ns walletdb.ReadBucket) error {
		var err error
		d, err = r.store.TxDetails(ns, &h)
		return err
	})
	return d, err
}

func (r *runner) rangeTx(b, e int32) ([][]wtxmgr.TxDetails, error) {
	var out [][]wtxmgr.TxDetails
	err := r.view(func(ns walletdb.ReadBucket) error {
		return r.store.RangeTransactions(ns, b, e, func(ds []wtxmgr.TxDetails) (bool, error) {
			out = append(out, append([]wtxmgr.TxDetails{}, ds...))
			return false, nil
		})
	})
	return out, err
}

func batchesStr(bs [][]wtxmgr.TxDetails, sorted bool) string {
	var parts []string
	for _, b := range bs {
		b = append([]wtxmgr.TxDetails{}, b...)
		if sorted {
			sort.Slice(b, func(i, j int) bool { return bytes.Compare(b[i].Hash[:], b[j].Hash[:]) < 0 })
		}
		var l []string
		for i := range b {
			l = append(l, detailsStr(&b[i]))
		}
		parts = append(parts, strings.Join(l, ";"))
	}
	return strings.Join(parts, " | ")
}

// observables: everything C02 compares between two histories (canonical order).
func (r *runner) observables(top int64) string {
	p := r.probe(top)
	ps := r.probeStr(p, top, true)
	ps = ps[:strings.Index(ps, " locked=")]
	var hs []chainhash.Hash
	for _, t := range r.txs {
		hs = append(hs, t.hash)
	}
	sort.Slice(hs, func(i, j int) bool { return bytes.Compare(hs[i][:], hs[j][:]) < 0 })
	var ds []string
	for _, h := range hs {
		d, err := r.details(h)
		switch {
		case err != nil:
			ds = append(ds, "err "+errCode(err))
		case d == nil:
			ds = append(ds, "ok "+h12(h)+"=none")
		default:
			ds = append(ds, "ok "+detailsStr(d))
		}
	}
	bs, err := r.rangeTx(0, -1)
	rg := okStr(batchesStr(bs, true))
	if err != nil {
		rg = "err " + errCode(err)
	}
	return fmt.Sprintf("%s details=%s range=%s", ps, strings.Join(ds, ";"), rg)
}

// ---- Exec ----

func positional(f []string) []string {
	var o []string
	for _, t := range f {
		if !strings.Contains(t, "=") {
			o = append(o, t)
		}
	}
	return o
}

func (r *runner) Exec(op string) (string, string) {
	_, kv := core.KV(op)
	pos := positional(strings.Fields(op))
	if len(pos) == 0 {
		return "bad-op", ""
	}
	if pos[0] == "reset" && len(pos) == 1 {
		mat := int64(100)
		if v, ok := kv["mat"]; ok {
			if m, ok := parseInt(v); ok {
				mat = m
			}
		}
		if err := r.reset(mat); err != nil {
			return "harness-error " + err.Error(), ""
		}
		return "ok", ""
	}
	if pos[0] == "deftx" && len(pos) == 3 {
		return r.deftx(pos[1], pos[2], kv), ""
	}
	if r.db == nil {
		if err := r.reset(100); err != nil {
			return "harness-error " + err.Error(), ""
		}
	}
	var viol []string
	v := func(format string, a ...interface{}) { viol = append(viol, fmt.Sprintf(format, a...)) }
	reply := r.exec(pos, kv, v)
	return reply, strings.Join(viol, "; ")
}

func (r *runner) deftx(tid, hs string, kv map[string]string) string {
	h, ok := parseHash(hs)
	if !ok {
		return "bad-op"
	}
	insS, ok1 := kv["ins"]
	outsS, ok2 := kv["outs"]
	if !ok1 || !ok2 {
		return "bad-op"
	}
	var ins []wire.OutPoint
	for _, t := range core.CSV(insS) {
		o, ok := parseOp(t)
		if !ok {
			return "bad-op"
		}
		ins = append(ins, o)
	}
	var outs []int64
	for _, t := range core.CSV(outsS) {
		v, ok := parseInt(t)
		if !ok {
			return "bad-op"
		}
		outs = append(outs, v)
	}
	lt, _ := parseNat(kv["lt"])
	msg := buildTx(uint32(lt), ins, outs)
	d := &txDef{tid: tid, lt: uint32(lt), ins: ins, outs: outs, msg: msg, hash: msg.TxHash()}
	if d.hash != h {
		return "harness-error hash-mismatch " + hx(d.hash)
	}
	rec, err := wtxmgr.NewTxRecordFromMsgTx(msg, time.Unix(1600000000, 0))
	if err != nil {
		return "harness-error " + err.Error()
	}
	d.rec = rec
	r.txs[tid] = d
	for i := range outs {
		r.scripts[hex.EncodeToString(pkScriptFor(d.lt, i))] = opStr(wire.OutPoint{Hash: d.hash, Index: uint32(i)})
	}
	return "ok"
}

func (r *runner) evInsert(force bool, d *txDef, bm *wtxmgr.BlockMeta, cr []credSpec) (bool, error) {
	var exists bool
	err := r.update(func(ns walletdb.ReadWriteBucket) error {
		ex, err := r.store.InsertTxCheckIfExists(ns, d.rec, bm)
		if err != nil {
			return err
		}
		exists = ex
		if ex && !force {
			return nil
		}
		for _, c := range cr {
			if err := r.store.AddCredit(ns, d.rec, bm, c.idx, c.change); err != nil {
				return err
			}
		}
		return nil
	})
	return exists, err
}

func (r *runner) applyEv(e event) {
	r.led.now = r.now
	if r.cons && !r.led.consistent(e) {
		r.cons = false
	}
	if r.strict && !(r.cons && r.led.extra(e)) {
		r.strict = false
	}
	r.led.apply(e)
	r.jled.now = r.now
	r.jled.apply(e)
}

func (r *runner) exec(pos []string, kv map[string]string, v func(string, ...interface{})) string {
	switch pos[0] {
	case "ev":
		if len(pos) < 3 {
			return "bad-op"
		}
		d := r.txs[pos[2]]
		bm, ok := parseBlockMeta(pos[3:])
		cr, ok2 := parseCredits(kv["cr"])
		kind := strings.TrimSuffix(pos[1], "!")
		if d == nil || !ok || !ok2 || !((kind == "seen" && bm == nil) || (kind == "conf" && bm != nil)) {
			return "bad-op"
		}
		// "seen!"/"conf!": AddCredit is called after InsertTx whatever InsertTx answered
		ex, err := r.evInsert(strings.HasSuffix(pos[1], "!"), d, bm, cr)
		if err != nil {
			r.cons = false
			return "err " + errCode(err)
		}
		r.applyEv(event{kind: kind, tx: d, bm: bm, credits: cr})
		return fmt.Sprintf("ok exists=%s cons=%s strict=%s", b01(ex), b01(r.cons), b01(r.cons && r.strict))
	case "inserttx":
		if len(pos) < 2 {
			return "bad-op"
		}
		d := r.txs[pos[1]]
		bm, ok := parseBlockMeta(pos[2:])
		if d == nil || !ok {
			return "bad-op"
		}
		var ex bool
		err := r.update(func(ns walletdb.ReadWriteBucket) error {
			var err error
			ex, err = r.store.InsertTxCheckIfExists(ns, d.rec, bm)
			return err
		})
		r.cons = false
		if err != nil {
			return "err " + errCode(err)
		}
		return "ok exists=" + b01(ex)
	case "addcredit":
		if len(pos) < 4 {
			return "bad-op"
		}
		d := r.txs[pos[1]]
		idx, ok1 := parseNat(pos[2])
		bm, ok2 := parseBlockMeta(pos[4:])
		if d == nil || !ok1 || !ok2 || (pos[3] != "0" && pos[3] != "1") || idx > 0xffffffff {
			return "bad-op"
		}
		err := r.update(func(ns walletdb.ReadWriteBucket) error {
			return r.store.AddCredit(ns, d.rec, bm, uint32(idx), pos[3] == "1")
		})
		r.cons = false
		if err != nil {
			return "err " + errCode(err)
		}
		return "ok"
	case "rollback":
		if len(pos) != 2 {
			return "bad-op"
		}
		h, ok := parseInt(pos[1])
		if !ok || h > 0x7fffffff || h < -0x80000000 {
			return "bad-op"
		}
		err := r.update(func(ns walletdb.ReadWriteBucket) error { return r.store.Rollback(ns, int32(h)) })
		if err != nil {
			r.cons = false
			return "err " + errCode(err)
		}
		before := r.jled.clone()
		r.applyEv(event{kind: "disc", height: h})
		r.checkRollback(before, h, v)
		return "ok cons=" + b01(r.cons) + " strict=" + b01(r.cons && r.strict)
	case "removeunmined":
		if len(pos) != 2 || r.txs[pos[1]] == nil {
			return "bad-op"
		}
		d := r.txs[pos[1]]
		err := r.update(func(ns walletdb.ReadWriteBucket) error { return r.store.RemoveUnminedTx(ns, d.rec) })
		if err != nil {
			r.cons = false
			return "err " + errCode(err)
		}
		r.applyEv(event{kind: "abandon", tx: d})
		return "ok cons=" + b01(r.cons) + " strict=" + b01(r.cons && r.strict)
	case "clock":
		if len(pos) != 2 {
			return "bad-op"
		}
		t, ok := parseNat(pos[1])
		if !ok {
			return "bad-op"
		}
		r.now = int64(t)
		r.clk.SetTime(time.Unix(0, r.now))
		r.applyEv(event{kind: "clock", t: r.now})
		return "ok"
	case "lock":
		if len(pos) != 4 {
			return "bad-op"
		}
		id, ok1 := parseNat(pos[1])
		op, ok2 := parseOp(pos[2])
		d, ok3 := parseInt(pos[3])
		if !ok1 || !ok2 || !ok3 {
			return "bad-op"
		}
		var exp time.Time
		err := r.update(func(ns walletdb.ReadWriteBucket) error {
			var err error
			exp, err = r.store.LockOutput(ns, lockID(id), op, time.Duration(d))
			return err
		})
		reply := ""
		if err != nil {
			reply = "err " + errCode(err)
		} else {
			reply = fmt.Sprintf("ok %d", exp.UnixNano())
		}
		resync := r.oracleLock(id, op, d, reply, v)
		r.applyEv(event{kind: "lease", id: id, op: op, dur: d})
		if resync {
			// the store handed the output to another id inside the truncated second; follow it so that the
			// finding is reported once
			r.jled.leases[op] = oLease{id, granted(r.now, d)}
		}
		return reply
	case "unlock":
		if len(pos) != 3 {
			return "bad-op"
		}
		id, ok1 := parseNat(pos[1])
		op, ok2 := parseOp(pos[2])
		if !ok1 || !ok2 {
			return "bad-op"
		}
		err := r.update(func(ns walletdb.ReadWriteBucket) error { return r.store.UnlockOutput(ns, lockID(id), op) })
		reply := "ok"
		if err != nil {
			reply = "err " + errCode(err)
		}
		r.oracleUnlock(id, op, reply, v)
		r.applyEv(event{kind: "release", id: id, op: op})
		return reply
	case "sweep":
		if len(pos) != 1 {
			return "bad-op"
		}
		err := r.update(func(ns walletdb.ReadWriteBucket) error { return r.store.DeleteExpiredLockedOutputs(ns) })
		if err != nil {
			return "err " + errCode(err)
		}
		r.applyEv(event{kind: "sweep"})
		return "ok"
	case "reopen":
		if err := r.reopen(); err != nil {
			return "harness-error " + err.Error()
		}
		return "ok"
	case "listlocked":
		var ls []*wtxmgr.LockedOutput
		err := r.view(func(ns walletdb.ReadBucket) error {
			var err error
			ls, err = r.store.ListLockedOutputs(ns)
			return err
		})
		if err != nil {
			return "err " + errCode(err)
		}
		var l []string
		for _, x := range ls {
			l = append(l, fmt.Sprintf("%s=%d/%d", opStr(x.Outpoint), lockNum(x.LockID), x.Expiration.Unix()))
		}
		return okStr(strings.Join(l, ","))
	case "balance":
		if len(pos) != 3 {
			return "bad-op"
		}
		m, ok1 := parseInt(pos[1])
		sy, ok2 := parseInt(pos[2])
		if !ok1 || !ok2 {
			return "bad-op"
		}
		var b int64
		err := r.view(func(ns walletdb.ReadBucket) error {
			a, err := r.store.Balance(ns, int32(m), int32(sy))
			b = int64(a)
			return err
		})
		if err != nil {
			return "err " + errCode(err)
		}
		return fmt.Sprintf("ok %d", b)
	case "utxos", "watch":
		var cs []wtxmgr.Credit
		err := r.view(func(ns walletdb.ReadBucket) error {
			var err error
			if pos[0] == "utxos" {
				cs, err = r.store.UnspentOutputs(ns)
			} else {
				cs, err = r.store.OutputsToWatch(ns)
			}
			return err
		})
		if err != nil {
			return "err " + errCode(err)
		}
		var l []string
		for i := range cs {
			if pos[0] == "utxos" {
				l = append(l, creditStr(&cs[i]))
			} else {
				l = append(l, opStr(cs[i].OutPoint))
				if want := r.scripts[hex.EncodeToString(cs[i].PkScript)]; want != "" && want != opStr(cs[i].OutPoint) {
					v("C01 key=watch-script: OutputsToWatch returned the script of %s for %s", want, opStr(cs[i].OutPoint))
				}
			}
		}
		if pos[0] == "watch" {
			r.oracleWatch(cs, v)
		}
		return okStr(strings.Join(l, ","))
	case "unminedhashes":
		p := r.probe(0)
		var un []string
		for _, h := range p.unmin {
			un = append(un, h12(h))
		}
		return "ok " + strings.Join(un, ",")
	case "probe":
		if len(pos) != 2 {
			return "bad-op"
		}
		top, ok := parseInt(pos[1])
		if !ok {
			return "bad-op"
		}
		p := r.probe(top)
		r.oracleProbe(p, top, v)
		return "ok " + r.probeStr(p, top, false)
	case "details":
		if len(pos) != 2 {
			return "bad-op"
		}
		h, ok := parseHash(pos[1])
		if !ok {
			return "bad-op"
		}
		d, err := r.details(h)
		if err != nil {
			return "err " + errCode(err)
		}
		r.oracleDetails(h, d, v)
		if d == nil {
			return "ok none"
		}
		return "ok " + detailsStr(d)
	case "udetails":
		if len(pos) < 2 {
			return "bad-op"
		}
		h, ok := parseHash(pos[1])
		blk, ok2 := parseBlock(pos[2:])
		if !ok || !ok2 {
			return "bad-op"
		}
		var d *wtxmgr.TxDetails
		err := r.view(func(ns walletdb.ReadBucket) error {
			var err error
			d, err = r.store.UniqueTxDetails(ns, &h, blk)
			return err
		})
		if err != nil {
			return "err " + errCode(err)
		}
		r.oracleUnique(h, blk, d, v)
		if d == nil {
			return "ok none"
		}
		return "ok " + detailsStr(d)
	case "range":
		if len(pos) != 3 {
			return "bad-op"
		}
		b, ok1 := parseInt(pos[1])
		e, ok2 := parseInt(pos[2])
		if !ok1 || !ok2 || b > 0x7fffffff || e > 0x7fffffff || b < -0x80000000 || e < -0x80000000 {
			return "bad-op"
		}
		bs, err := r.rangeTx(int32(b), int32(e))
		if err != nil {
			return "err " + errCode(err)
		}
		r.oracleRange(b, e, bs, v)
		return okStr(batchesStr(bs, false))
	case "prevscripts":
		if len(pos) < 2 || r.txs[pos[1]] == nil {
			return "bad-op"
		}
		d := r.txs[pos[1]]
		blk, ok := parseBlock(pos[2:])
		if !ok {
			return "bad-op"
		}
		var scripts [][]byte
		err := r.view(func(ns walletdb.ReadBucket) error {
			var err error
			scripts, err = r.store.PreviousPkScripts(ns, d.rec, blk)
			return err
		})
		if err != nil {
			return "err " + errCode(err)
		}
		var l []string
		for _, s := range scripts {
			name := r.scripts[hex.EncodeToString(s)]
			if name == "" {
				name = "?" + hex.EncodeToString(s)
			}
			l = append(l, name)
		}
		return okStr(strings.Join(l, ","))
	case "dump":
		var s string
		err := r.view(func(ns walletdb.ReadBucket) error { s = dumpNS(ns); return nil })
		if err != nil {
			return "err " + errCode(err)
		}
		return "ok " + s
	case "snap", "cmpsnap":
		if len(pos) != 3 {
			return "bad-op"
		}
		top, ok := parseInt(pos[2])
		if !ok {
			return "bad-op"
		}
		obs := r.observables(top)
		facts := "n/a"
		if r.cons {
			facts = r.led.factsStr()
		}
		if pos[0] == "snap" {
			r.snaps[pos[1]] = [3]string{obs, facts, b01(r.oracleOff || !r.strict)}
			return "ok"
		}
		old, have := r.snaps[pos[1]]
		if !have {
			return "bad-op"
		}
		if old[1] != facts {
			return "ok facts-differ"
		}
		if old[0] != obs {
			switch {
			case !r.cons || !r.strict || r.oracleOff || old[2] == "1":
				// one of the two histories already carries a reported finding that explains a difference
			case normZero(old[0]) == normZero(obs):
				v("C02 key=rollback.zero-value-credit: two consistent histories with equal final facts differ on zero-value credits: A=[%s] B=[%s]", old[0], obs)
			default:
				v("C02 key=path-independence: two consistent histories with equal final facts report different observables: A=[%s] B=[%s]", old[0], obs)
			}
			return "ok differ"
		}
		return "ok same"
	case "inv":
		// the model's representation invariant and "Balance = the C01 formula on the store's own records" are
		// evaluated by the Lean driver on the model store; the real store has nothing to add here.
		if len(pos) != 2 {
			return "bad-op"
		}
		if _, ok := parseInt(pos[1]); !ok {
			return "bad-op"
		}
		if !r.cons {
			return "ok n/a"
		}
		return "ok inv=1 truth=1"
	case "refcheck":
		// the refinement relation store ~ ledger is evaluated by the Lean driver on the model store and its ledger
		if len(pos) != 1 {
			return "bad-op"
		}
		if !r.cons {
			return "ok n/a"
		}
		return "ok ref=1"
	case "reffuzz":
		// random consistent histories generated and checked inside the Lean driver
		if len(pos) != 5 {
			return "bad-op"
		}
		for _, a := range pos[1:4] {
			if n, ok := parseInt(a); !ok || n < 0 {
				return "bad-op"
			}
		}
		return "ok ref=1"
	case "spec":
		if len(pos) < 2 {
			return "bad-op"
		}
		return r.execSpec(pos[1:])
	}
	return "bad-op"
}

func (r *runner) execSpec(pos []string) string {
	na := func(f func() string) string {
		if !r.cons {
			return "ok n/a"
		}
		r.led.now = r.now
		return f()
	}
	switch pos[0] {
	case "probe":
		if len(pos) != 2 {
			return "bad-op"
		}
		top, ok := parseInt(pos[1])
		if !ok {
			return "bad-op"
		}
		return na(func() string { return "ok " + r.led.probeStr(r.mat, r.minConfs(), r.syncs(top)) })
	case "details":
		if len(pos) != 2 {
			return "bad-op"
		}
		h, ok := parseHash(pos[1])
		if !ok {
			return "bad-op"
		}
		return na(func() string {
			d := r.led.details(h)
			if d == nil {
				return "ok none"
			}
			return "ok " + d.str()
		})
	case "range":
		if len(pos) != 3 {
			return "bad-op"
		}
		b, ok1 := parseInt(pos[1])
		e, ok2 := parseInt(pos[2])
		if !ok1 || !ok2 {
			return "bad-op"
		}
		return na(func() string { return okStr(oBatchesStr(r.led.rangeTx(b, e))) })
	case "watch":
		if len(pos) != 1 {
			return "bad-op"
		}
		return na(func() string {
			var l []string
			for _, o := range r.led.watchSet() {
				l = append(l, opStr(o))
			}
			return okStr(strings.Join(l, ","))
		})
	case "facts":
		if len(pos) != 1 {
			return "bad-op"
		}
		return na(func() string { return "ok " + r.led.factsStr() })
	}
	return "bad-op"
}

// ---- raw bucket dump (the strongest tie: every bucket, key by key) ----

func ckStr(k []byte) string {
	var h, bh chainhash.Hash
	copy(h[:], k[0:32])
	copy(bh[:], k[36:68])
	return fmt.Sprintf("%s/%d/%s/%d", h12(h), binary.BigEndian.Uint32(k[32:36]), h12(bh), binary.BigEndian.Uint32(k[68:72]))
}

func opKeyStr(k []byte) string {
	var h chainhash.Hash
	copy(h[:], k[0:32])
	return fmt.Sprintf("%s:%d", h12(h), binary.BigEndian.Uint32(k[32:36]))
}

func txHashOfRecord(v []byte) string {
	var m wire.MsgTx
	if len(v) < 8 || m.Deserialize(bytes.NewReader(v[8:])) != nil {
		return "?"
	}
	return h12(m.TxHash())
}

func dumpNS(ns walletdb.ReadBucket) string {
	each := func(name string, f func(k, v []byte) string) string {
		var l []string
		b := ns.NestedReadBucket([]byte(name))
		if b != nil {
			_ = b.ForEach(func(k, v []byte) error { l = append(l, f(k, v)); return nil })
		}
		return strings.Join(l, ",")
	}
	bal := int64(binary.BigEndian.Uint64(ns.Get([]byte("bal"))))
	hs := func(b []byte) chainhash.Hash { var h chainhash.Hash; copy(h[:], b); return h }
	blocks := each("b", func(k, v []byte) string {
		n := int(binary.BigEndian.Uint32(v[40:44]))
		var txs []string
		for i := 0; i < n; i++ {
			txs = append(txs, h12(hs(v[44+32*i:])))
		}
		return fmt.Sprintf("%d/%s/%d[%s]", binary.BigEndian.Uint32(k), h12(hs(v)), int64(binary.BigEndian.Uint64(v[32:40])), strings.Join(txs, ","))
	})
	txrecs := each("t", func(k, v []byte) string {
		return fmt.Sprintf("%s/%d/%s=%s", h12(hs(k)), binary.BigEndian.Uint32(k[32:36]), h12(hs(k[36:68])), txHashOfRecord(v))
	})
	credits := each("c", func(k, v []byte) string {
		sp := "-"
		if len(v) >= 81 {
			sp = ckStr(v[9:81])
		}
		return fmt.Sprintf("%s=%d/%s/%s/%s", ckStr(k), int64(binary.BigEndian.Uint64(v)), b01(v[8]&1 != 0), b01(v[8]&2 != 0), sp)
	})
	unspent := each("u", func(k, v []byte) string {
		return fmt.Sprintf("%s=%d/%s", opKeyStr(k), binary.BigEndian.Uint32(v), h12(hs(v[4:36])))
	})
	debits := each("d", func(k, v []byte) string {
		return fmt.Sprintf("%s=%d/%s", ckStr(k), int64(binary.BigEndian.Uint64(v)), ckStr(v[8:80]))
	})
	unmined := each("m", func(k, v []byte) string { return fmt.Sprintf("%s=%s", h12(hs(k)), txHashOfRecord(v)) })
	ucred := each("mc", func(k, v []byte) string {
		return fmt.Sprintf("%s=%d/%s", opKeyStr(k), int64(binary.BigEndian.Uint64(v)), b01(v[8]&2 != 0))
	})
	uin := each("mi", func(k, v []byte) string {
		var l []string
		for i := 0; i+32 <= len(v); i += 32 {
			l = append(l, h12(hs(v[i:])))
		}
		return fmt.Sprintf("%s=%s", opKeyStr(k), strings.Join(l, "+"))
	})
	locked := each("lo", func(k, v []byte) string {
		return fmt.Sprintf("%s=%d/%d", opKeyStr(k), binary.BigEndian.Uint64(v[24:32]), int64(binary.BigEndian.Uint64(v[32:40])))
	})
	return fmt.Sprintf("bal=%d b=%s t=%s c=%s u=%s d=%s m=%s mc=%s mi=%s lo=%s", bal, blocks, txrecs, credits, unspent, debits, unmined, ucred, uin, locked)
}
